(* C35 proofs, part 1: the sequential theory of one shard (index map, swap_remove, SIEVE evict,
   insert).  Everything is for arbitrary shards satisfying [shard_wf]. *)
From Coq Require Import ZArith List Bool Arith Lia.
From TV Require Import Lib.Interleave Gen.CacheConsts Model.Cache.
Import ListNotations.
Open Scope Z_scope.

(* ------------------------------------------------------------------ lists *)
Lemma set_nth_length {A} (l : list A) i x : length (set_nth l i x) = length l.
Proof. revert i; induction l as [|a l IH]; intros [|i]; cbn [set_nth length]; auto. Qed.

Lemma nth_error_set_nth {A} (l : list A) i j x :
  nth_error (set_nth l i x) j = if Nat.eqb i j then (if Nat.ltb i (length l) then Some x else None) else nth_error l j.
Proof.
  revert i j; induction l as [|a l IH]; intros i j.
  - cbn [set_nth length]. destruct i, j; cbn; try reflexivity. destruct (Nat.eqb i j); reflexivity.
  - destruct i, j; cbn [set_nth nth_error length Nat.eqb]; try reflexivity.
    rewrite IH. destruct (Nat.eqb i j); [|reflexivity].
    change (Nat.ltb (S i) (S (length l))) with (Nat.ltb i (length l)). reflexivity.
Qed.

Lemma nth_error_set_nth_same {A} (l : list A) i x : (i < length l)%nat -> nth_error (set_nth l i x) i = Some x.
Proof. intros H. rewrite nth_error_set_nth, Nat.eqb_refl. apply Nat.ltb_lt in H. rewrite H. reflexivity. Qed.

Lemma nth_error_set_nth_other {A} (l : list A) i j x : i <> j -> nth_error (set_nth l i x) j = nth_error l j.
Proof. intros H. rewrite nth_error_set_nth. apply Nat.eqb_neq in H. rewrite H. reflexivity. Qed.

Lemma removelast_length {A} (l : list A) : length (removelast l) = (length l - 1)%nat.
Proof.
  induction l as [|a l IH]; [reflexivity|]. destruct l as [|b l]; [reflexivity|].
  change (removelast (a :: b :: l)) with (a :: removelast (b :: l)). cbn [length] in *. lia.
Qed.

Lemma nth_error_removelast {A} (l : list A) j : (j < length l - 1)%nat -> nth_error (removelast l) j = nth_error l j.
Proof.
  revert j; induction l as [|a l IH]; intros j H; [cbn in H; lia|].
  destruct l as [|b l]; [cbn in H; lia|].
  change (removelast (a :: b :: l)) with (a :: removelast (b :: l)).
  destruct j; [reflexivity|]. cbn [nth_error]. apply IH. cbn [length] in *. lia.
Qed.

Lemma nth_error_last {A} (l : list A) d : l <> [] -> nth_error l (length l - 1) = Some (last l d).
Proof.
  induction l as [|a l IH]; intros H; [contradiction|].
  destruct l as [|b l]; [reflexivity|].
  change (last (a :: b :: l) d) with (last (b :: l) d).
  replace (length (a :: b :: l) - 1)%nat with (S (length (b :: l) - 1)) by (cbn [length]; lia).
  cbn [nth_error]. apply IH. discriminate.
Qed.

(* ------------------------------------------------------------------ the index map *)
Lemma idx_get_del m k k' : idx_get (idx_del m k) k' = if k =? k' then None else idx_get m k'.
Proof.
  induction m as [|[a i] m IH]; cbn [idx_del filter idx_get fst].
  - destruct (k =? k'); reflexivity.
  - fold (idx_del m k). destruct (a =? k) eqn:E1; cbn [negb].
    + apply Z.eqb_eq in E1. subst a. rewrite IH. destruct (k =? k'); reflexivity.
    + cbn [idx_get]. destruct (a =? k') eqn:E2.
      * apply Z.eqb_eq in E2. subst a. rewrite Z.eqb_sym, E1. reflexivity.
      * exact IH.
Qed.

Lemma idx_get_set m k i k' : idx_get (idx_set m k i) k' = if k =? k' then Some i else idx_get m k'.
Proof.
  unfold idx_set. cbn [idx_get]. destruct (k =? k') eqn:E; [reflexivity|]. rewrite idx_get_del, E. reflexivity.
Qed.

(* distinct positions have distinct keys *)
Lemma idx_ok_inj sh i j e1 e2 :
  idx_ok sh -> nth_error (ents sh) i = Some e1 -> nth_error (ents sh) j = Some e2 -> ekey e1 = ekey e2 -> i = j.
Proof.
  intros Hok H1 H2 Hk.
  assert (A : idx_get (idx sh) (ekey e1) = Some i) by (apply Hok; eauto).
  assert (B : idx_get (idx sh) (ekey e1) = Some j) by (apply Hok; exists e2; split; [assumption | symmetry; assumption]).
  congruence.
Qed.

Lemma idx_ok_lookup sh k i : idx_ok sh -> idx_get (idx sh) k = Some i -> exists e, nth_error (ents sh) i = Some e /\ ekey e = k.
Proof. intros Hok H. apply Hok. exact H. Qed.

(* ------------------------------------------------------------------ changing a field of one entry *)
Lemma idx_ok_set_entry sh j e e' :
  idx_ok sh -> nth_error (ents sh) j = Some e -> ekey e' = ekey e ->
  idx_ok (set_ents sh (set_nth (ents sh) j e')).
Proof.
  intros Hok Hj Hk k i. unfold set_ents; cbn [idx ents].
  assert (Hlt : (j < length (ents sh))%nat) by (apply nth_error_Some; congruence).
  rewrite nth_error_set_nth. split.
  - intros H. apply Hok in H. destruct H as (x & Hx & Hxk).
    destruct (Nat.eqb j i) eqn:E.
    + apply Nat.eqb_eq in E. subst i. apply Nat.ltb_lt in Hlt. rewrite Hlt. exists e'. split; [reflexivity|]. congruence.
    + eauto.
  - intros (x & Hx & Hxk). apply Hok.
    destruct (Nat.eqb j i) eqn:E.
    + apply Nat.eqb_eq in E. subst i. apply Nat.ltb_lt in Hlt. rewrite Hlt in Hx. inversion Hx; subst x. exists e. split; [assumption|congruence].
    + eauto.
Qed.

Lemma wf_set_entry sh j e e' :
  shard_wf sh -> nth_error (ents sh) j = Some e -> ekey e' = ekey e ->
  shard_wf (set_ents sh (set_nth (ents sh) j e')).
Proof.
  intros (Hi & Hh & Hc) Hj Hk. split; [eapply idx_ok_set_entry; eauto|].
  unfold hand_ok, cap_ok, set_ents in *; cbn [hand ents cap]. rewrite set_nth_length. auto.
Qed.

Lemma wf_set_wl sh w : shard_wf sh -> shard_wf (set_wl sh w).
Proof. intros H. exact H. Qed.

Lemma wf_clear sh : shard_wf (clear_shard sh).
Proof.
  split; [|split].
  - intros k i. cbn. split; [discriminate|]. intros (e & H & _). destruct i; discriminate.
  - unfold hand_ok; cbn. lia.
  - unfold cap_ok; cbn. lia.
Qed.

(* ------------------------------------------------------------------ insert *)
Lemma idx_ok_insert sh e :
  idx_ok sh -> idx_get (idx sh) (ekey e) = None -> idx_ok (insert sh e).
Proof.
  intros Hok Hn k i. unfold insert; cbn [idx ents]. rewrite idx_get_set. split.
  - destruct (ekey e =? k) eqn:E.
    + intros H; inversion H; subst i. apply Z.eqb_eq in E. exists e. split; [|assumption].
      rewrite nth_error_app2 by lia. rewrite Nat.sub_diag. reflexivity.
    + intros H. apply Hok in H. destruct H as (x & Hx & Hxk). exists x. split; [|assumption].
      rewrite nth_error_app1; [assumption|]. apply nth_error_Some. congruence.
  - intros (x & Hx & Hxk).
    destruct (Nat.lt_ge_cases i (length (ents sh))) as [Hlt|Hge].
    + rewrite nth_error_app1 in Hx by assumption.
      assert (G : idx_get (idx sh) k = Some i) by (apply Hok; eauto).
      destruct (ekey e =? k) eqn:E; [apply Z.eqb_eq in E; congruence | exact G].
    + rewrite nth_error_app2 in Hx by assumption.
      destruct (i - length (ents sh))%nat as [|d] eqn:D; [|destruct d; discriminate].
      cbn in Hx. inversion Hx; subst x. subst k. rewrite Z.eqb_refl. f_equal. lia.
Qed.

Lemma wf_insert sh e :
  shard_wf sh -> idx_get (idx sh) (ekey e) = None -> (length (ents sh) < cap sh)%nat -> shard_wf (insert sh e).
Proof.
  intros (Hi & Hh & Hc) Hn Hlt. split; [apply idx_ok_insert; assumption|].
  unfold hand_ok, cap_ok, insert in *; cbn [hand ents cap]. rewrite app_length. cbn [length]. lia.
Qed.

(* ------------------------------------------------------------------ swap_remove and remove *)
Lemma swap_remove_spec es i e es' :
  swap_remove es i = Some (e, es') ->
  nth_error es i = Some e /\ length es' = (length es - 1)%nat /\
  forall j, nth_error es' j =
            if Nat.ltb j (length es - 1) then (if Nat.eqb j i then nth_error es (length es - 1) else nth_error es j) else None.
Proof.
  unfold swap_remove. destruct (nth_error es i) as [x|] eqn:Hx; [|discriminate].
  intros H. inversion H; subst x es'; clear H.
  assert (Hlt : (i < length es)%nat) by (apply nth_error_Some; congruence).
  assert (Hne : es <> []) by (destruct es; [cbn in Hlt; lia | discriminate]).
  split; [reflexivity|]. rewrite removelast_length.
  destruct (Nat.ltb i (length es - 1)) eqn:E.
  - apply Nat.ltb_lt in E. split; [rewrite set_nth_length, removelast_length; reflexivity|].
    intros j. rewrite nth_error_set_nth, removelast_length.
    destruct (Nat.ltb j (length es - 1)) eqn:Ej.
    + apply Nat.ltb_lt in Ej. rewrite (Nat.eqb_sym j i). destruct (Nat.eqb i j) eqn:Eij.
      * apply Nat.ltb_lt in E. rewrite E. symmetry. apply nth_error_last. assumption.
      * apply nth_error_removelast. assumption.
    + apply Nat.ltb_ge in Ej. destruct (Nat.eqb i j) eqn:Eij.
      * apply Nat.eqb_eq in Eij. lia.
      * apply nth_error_None. rewrite removelast_length. assumption.
  - apply Nat.ltb_ge in E. split; [apply removelast_length|].
    intros j. destruct (Nat.ltb j (length es - 1)) eqn:Ej.
    + apply Nat.ltb_lt in Ej. assert (Hji : Nat.eqb j i = false) by (apply Nat.eqb_neq; lia). rewrite Hji.
      apply nth_error_removelast. assumption.
    + apply Nat.ltb_ge in Ej. apply nth_error_None. rewrite removelast_length. assumption.
Qed.

Lemma swap_remove_some es i e : nth_error es i = Some e -> exists es', swap_remove es i = Some (e, es').
Proof. intros H. unfold swap_remove. rewrite H. eauto. Qed.

(* the classic bug site: after swap_remove the moved entry's index is repaired *)
Lemma remove_wf sh i sh' :
  shard_wf sh -> remove sh i = Some sh' ->
  shard_wf sh' /\ length (ents sh') = (length (ents sh) - 1)%nat /\ cap sh' = cap sh /\ wl sh' = wl sh /\
  (forall e, nth_error (ents sh) i = Some e ->
     idx_get (idx sh') (ekey e) = None /\
     forall k, k <> ekey e -> idx_get (idx sh') k <> None <-> idx_get (idx sh) k <> None).
Proof.
  intros (Hi & Hh & Hc) Hr. unfold remove in Hr.
  destruct (swap_remove (ents sh) i) as [[e es]|] eqn:Hs; [|discriminate].
  inversion Hr; subst sh'; clear Hr. cbn [ents idx hand cap wl].
  destruct (swap_remove_spec _ _ _ _ Hs) as (He & Hlen & Hnth).
  assert (Hlt : (i < length (ents sh))%nat) by (apply nth_error_Some; congruence).
  set (n := length (ents sh)) in *.
  (* the new index, characterised *)
  assert (Hidx : forall k j,
            idx_get (match nth_error es i with Some mv => idx_set (idx_del (idx sh) (ekey e)) (ekey mv) i | None => idx_del (idx sh) (ekey e) end) k = Some j
            <-> exists x, nth_error es j = Some x /\ ekey x = k).
  { intros k j. rewrite (Hnth i). rewrite Nat.eqb_refl.
    destruct (Nat.ltb i (n - 1)) eqn:Ei.
    - apply Nat.ltb_lt in Ei.
      assert (Hex : exists mv, nth_error (ents sh) (n - 1) = Some mv).
      { destruct (nth_error (ents sh) (n - 1)) eqn:Q; [eauto | apply nth_error_None in Q; fold n in Q; lia]. }
      destruct Hex as (mv & Hmv). rewrite Hmv.
      rewrite idx_get_set, idx_get_del.
      assert (Hmve : ekey mv <> ekey e).
      { intros Heq. assert (n - 1 = i)%nat by (eapply idx_ok_inj; eauto). lia. }
      split.
      + destruct (ekey mv =? k) eqn:E1.
        * intros H; inversion H; subst j. apply Z.eqb_eq in E1. exists mv. split; [|assumption].
          rewrite Hnth, Nat.eqb_refl. apply Nat.ltb_lt in Ei. rewrite Ei. assumption.
        * destruct (ekey e =? k) eqn:E2; [discriminate|]. intros H. apply Hi in H. destruct H as (x & Hx & Hxk).
          assert (Hj : (j < n)%nat) by (apply nth_error_Some; congruence).
          assert (j <> n - 1)%nat. { intros ->. rewrite Hmv in Hx. inversion Hx; subst x. apply Z.eqb_neq in E1. congruence. }
          assert (j <> i). { intros ->. rewrite He in Hx. inversion Hx; subst x. apply Z.eqb_neq in E2. congruence. }
          exists x. split; [|assumption]. rewrite Hnth.
          assert (A : Nat.ltb j (n - 1) = true) by (apply Nat.ltb_lt; lia). rewrite A.
          assert (B : Nat.eqb j i = false) by (apply Nat.eqb_neq; assumption). rewrite B. assumption.
      + intros (x & Hx & Hxk). rewrite Hnth in Hx.
        destruct (Nat.ltb j (n - 1)) eqn:Ej; [|discriminate]. apply Nat.ltb_lt in Ej.
        destruct (Nat.eqb j i) eqn:Eji.
        * apply Nat.eqb_eq in Eji. subst j. rewrite Hmv in Hx. inversion Hx; subst x. subst k. rewrite Z.eqb_refl. reflexivity.
        * apply Nat.eqb_neq in Eji.
          assert (G : idx_get (idx sh) k = Some j) by (apply Hi; eauto).
          destruct (ekey mv =? k) eqn:E1.
          { apply Z.eqb_eq in E1. assert (n - 1 = j)%nat by (eapply idx_ok_inj; eauto; congruence). lia. }
          destruct (ekey e =? k) eqn:E2.
          { apply Z.eqb_eq in E2. assert (i = j)%nat by (eapply idx_ok_inj; eauto; congruence). lia. }
          exact G.
    - apply Nat.ltb_ge in Ei. assert (Hin1 : (i = n - 1)%nat) by lia.
      rewrite idx_get_del. split.
      + destruct (ekey e =? k) eqn:E2; [discriminate|]. intros H. apply Hi in H. destruct H as (x & Hx & Hxk).
        assert (Hj : (j < n)%nat) by (apply nth_error_Some; congruence).
        assert (j <> i). { intros ->. rewrite He in Hx. inversion Hx; subst x. apply Z.eqb_neq in E2. congruence. }
        exists x. split; [|assumption]. rewrite Hnth.
        assert (A : Nat.ltb j (n - 1) = true) by (apply Nat.ltb_lt; lia). rewrite A.
        assert (B : Nat.eqb j i = false) by (apply Nat.eqb_neq; assumption). rewrite B. assumption.
      + intros (x & Hx & Hxk). rewrite Hnth in Hx.
        destruct (Nat.ltb j (n - 1)) eqn:Ej; [|discriminate]. apply Nat.ltb_lt in Ej.
        assert (B : Nat.eqb j i = false) by (apply Nat.eqb_neq; lia). rewrite B in Hx.
        assert (G : idx_get (idx sh) k = Some j) by (apply Hi; eauto).
        destruct (ekey e =? k) eqn:E2; [|exact G].
        apply Z.eqb_eq in E2. assert (i = j)%nat by (eapply idx_ok_inj; eauto; congruence). lia. }
  split; [|split; [exact Hlen|split; [reflexivity|split; [reflexivity|]]]].
  - split; [exact Hidx|]. split.
    + unfold hand_ok in *; cbn [hand ents]. rewrite Hlen. fold n.
      destruct (Nat.leb (n - 1) (hand sh)) eqn:E1; cbn [andb].
      * destruct (Nat.eqb (n - 1) 0) eqn:E2; cbn [negb]; [|lia].
        apply Nat.eqb_eq in E2. fold n in Hh. lia.
      * apply Nat.leb_gt in E1. lia.
    + unfold cap_ok in *; cbn [ents cap]. rewrite Hlen. fold n. lia.
  - intros e0 He0. rewrite He in He0. inversion He0; subst e0. split.
    + destruct (idx_get _ (ekey e)) as [j|] eqn:G; [|reflexivity].
      apply Hidx in G. destruct G as (x & Hx & Hxk). rewrite Hnth in Hx.
      destruct (Nat.ltb j (n - 1)) eqn:Ej; [|discriminate]. apply Nat.ltb_lt in Ej.
      destruct (Nat.eqb j i) eqn:Eji.
      * apply Nat.eqb_eq in Eji. subst j. assert (n - 1 = i)%nat by (eapply idx_ok_inj; eauto). lia.
      * apply Nat.eqb_neq in Eji. assert (j = i)%nat by (eapply idx_ok_inj; eauto). contradiction.
    + intros k Hk. split.
      * intros G. destruct (idx_get _ k) as [j|] eqn:Gj; [|contradiction]. apply Hidx in Gj. destruct Gj as (x & Hx & Hxk).
        rewrite Hnth in Hx. destruct (Nat.ltb j (n - 1)); [|discriminate].
        destruct (Nat.eqb j i).
        { assert (Q : idx_get (idx sh) k = Some (n - 1)%nat) by (apply Hi; eauto). congruence. }
        { assert (Q : idx_get (idx sh) k = Some j) by (apply Hi; eauto). congruence. }
      * intros G. destruct (idx_get (idx sh) k) as [j|] eqn:Gj; [|contradiction]. apply Hi in Gj. destruct Gj as (x & Hx & Hxk).
        assert (Hj : (j < n)%nat) by (apply nth_error_Some; congruence).
        assert (j <> i). { intros ->. rewrite He in Hx. inversion Hx; subst x. congruence. }
        destruct (Nat.eq_dec j (n - 1)) as [->|Hjn].
        { assert (Q : idx_get (match nth_error es i with Some mv => idx_set (idx_del (idx sh) (ekey e)) (ekey mv) i | None => idx_del (idx sh) (ekey e) end) k = Some i).
          { apply Hidx. exists x. split; [|assumption]. rewrite Hnth, Nat.eqb_refl.
            assert (A : Nat.ltb i (n - 1) = true) by (apply Nat.ltb_lt; lia). rewrite A. assumption. }
          congruence. }
        { assert (Q : idx_get (match nth_error es i with Some mv => idx_set (idx_del (idx sh) (ekey e)) (ekey mv) i | None => idx_del (idx sh) (ekey e) end) k = Some j).
          { apply Hidx. exists x. split; [|assumption]. rewrite Hnth.
            assert (A : Nat.ltb j (n - 1) = true) by (apply Nat.ltb_lt; lia). rewrite A.
            assert (B : Nat.eqb j i = false) by (apply Nat.eqb_neq; assumption). rewrite B. assumption. }
          congruence. }
Qed.

Lemma remove_some sh i e : nth_error (ents sh) i = Some e -> exists sh', remove sh i = Some sh'.
Proof. intros H. unfold remove. destruct (swap_remove_some _ _ _ H) as (es' & ->). eauto. Qed.

(* what survives a removal: every other entry, unchanged *)
Lemma remove_entries sh i sh' e :
  idx_ok sh -> remove sh i = Some sh' -> nth_error (ents sh) i = Some e ->
  forall x, In x (ents sh') <-> (In x (ents sh) /\ ekey x <> ekey e).
Proof.
  intros Hi Hr He x. unfold remove in Hr.
  destruct (swap_remove (ents sh) i) as [[e0 es]|] eqn:Hs; [|discriminate].
  inversion Hr; subst sh'; clear Hr. cbn [ents].
  destruct (swap_remove_spec _ _ _ _ Hs) as (He0 & Hlen & Hnth). rewrite He in He0. inversion He0; subst e0.
  assert (Hlt : (i < length (ents sh))%nat) by (apply nth_error_Some; congruence).
  set (n := length (ents sh)) in *. split.
  - intros Hin. apply In_nth_error in Hin. destruct Hin as (j & Hj). rewrite Hnth in Hj.
    destruct (Nat.ltb j (n - 1)) eqn:Ej; [|discriminate]. apply Nat.ltb_lt in Ej.
    destruct (Nat.eqb j i) eqn:Eji.
    + apply Nat.eqb_eq in Eji. subst j. split; [eapply nth_error_In; eauto|].
      intros Hk. assert (n - 1 = i)%nat by (eapply idx_ok_inj; eauto). lia.
    + apply Nat.eqb_neq in Eji. split; [eapply nth_error_In; eauto|].
      intros Hk. assert (j = i)%nat by (eapply idx_ok_inj; eauto). contradiction.
  - intros (Hin & Hk). apply In_nth_error in Hin. destruct Hin as (j & Hj).
    assert (Hjn : (j < n)%nat) by (apply nth_error_Some; congruence).
    assert (j <> i) by (intros ->; congruence).
    destruct (Nat.eq_dec j (n - 1)) as [->|Hne].
    + apply nth_error_In with (n := i). rewrite Hnth, Nat.eqb_refl.
      assert (A : Nat.ltb i (n - 1) = true) by (apply Nat.ltb_lt; lia). rewrite A. assumption.
    + apply nth_error_In with (n := j). rewrite Hnth.
      assert (A : Nat.ltb j (n - 1) = true) by (apply Nat.ltb_lt; lia). rewrite A.
      assert (B : Nat.eqb j i = false) by (apply Nat.eqb_neq; assumption). rewrite B. assumption.
Qed.

(* ------------------------------------------------------------------ evict *)
Definition strip (e : entry) : Z * Z * Z := (ekey e, epin e, edata e).

Lemma strip_set_nth_vis es h e b : nth_error es h = Some e -> map strip (set_nth es h (set_vis e b)) = map strip es.
Proof.
  revert h; induction es as [|a es IH]; intros h H; [reflexivity|].
  destruct h; cbn [set_nth map].
  - cbn in H. inversion H; subst a. reflexivity.
  - cbn in H. rewrite IH by assumption. reflexivity.
Qed.

Lemma strip_nth es es' j e' :
  map strip es' = map strip es -> nth_error es' j = Some e' ->
  exists e, nth_error es j = Some e /\ ekey e = ekey e' /\ epin e = epin e' /\ edata e = edata e'.
Proof.
  intros Hm Hj. assert (H : nth_error (map strip es) j = Some (strip e')) by (rewrite <- Hm; apply map_nth_error; assumption).
  rewrite nth_error_map in H. destruct (nth_error es j) as [e|]; [|discriminate]. cbn in H. inversion H.
  exists e. auto.
Qed.

Lemma strip_length es es' : map strip es' = map strip es -> length es' = length es.
Proof. intros H. apply (f_equal (@length _)) in H. rewrite !map_length in H. exact H. Qed.

Lemma mod_succ h n : (h < n)%nat -> Nat.modulo (S h) n = if Nat.eqb (S h) n then O else S h.
Proof.
  intros H. destruct (Nat.eqb (S h) n) eqn:E.
  - apply Nat.eqb_eq in E. subst n. apply Nat.mod_same. lia.
  - apply Nat.eqb_neq in E. apply Nat.mod_small. lia.
Qed.

Lemma evict_loop_props fuel : forall es h start chk r es' h',
  (h < length es)%nat -> evict_loop fuel es h start chk = (r, es', h') ->
  map strip es' = map strip es /\ (h' < length es)%nat /\ r <> EvPanic /\
  (forall k, r = EvSome k -> exists e, nth_error es' h' = Some e /\ ekey e = k /\ is_pinned e = false).
Proof.
  induction fuel as [|f IH]; intros es h start chk r es' h' Hh H; cbn [evict_loop] in H.
  - inversion H; subst. repeat split; auto; try discriminate.
  - destruct (nth_error es h) as [e|] eqn:He; [|apply nth_error_None in He; lia].
    assert (Hm : (Nat.modulo (S h) (length es) < length es)%nat) by (apply Nat.mod_upper_bound; lia).
    destruct (is_pinned e) eqn:Hp.
    + destruct (Nat.eqb (Nat.modulo (S h) (length es)) start).
      * destruct chk.
        { inversion H; subst. repeat split; auto; discriminate. }
        { eapply IH; eauto. }
      * eapply IH; eauto.
    + destruct (evis e) eqn:Hv.
      * apply IH in H; [|rewrite set_nth_length; assumption].
        rewrite set_nth_length in H. rewrite (strip_set_nth_vis _ _ _ _ He) in H. exact H.
      * inversion H; subst. repeat split; auto; try discriminate.
        intros k Hk. inversion Hk; subst k. exists e. auto.
Qed.

Definition vcount (es : list entry) : nat := length (filter (fun e => negb (is_pinned e) && evis e) es).

Lemma vcount_clear es h e :
  nth_error es h = Some e -> is_pinned e = false -> evis e = true ->
  (vcount (set_nth es h (set_vis e false)) + 1 = vcount es)%nat.
Proof.
  unfold vcount. revert h; induction es as [|a es IH]; intros h H Hp Hv; [destruct h; discriminate|].
  destruct h; cbn [set_nth filter].
  - cbn in H. inversion H; subst a. unfold is_pinned, set_vis in *; cbn [epin evis]. rewrite Hp, Hv. cbn. lia.
  - cbn in H. specialize (IH h H Hp Hv). destruct (negb (is_pinned a) && evis a); cbn [length]; lia.
Qed.

Lemma vcount_le es : (vcount es <= length es)%nat.
Proof. unfold vcount. induction es as [|a es IH]; cbn [filter length]; [lia|]. destruct (negb (is_pinned a) && evis a); cbn [length]; lia. Qed.

(* potential: strictly decreases on every iteration that does not return *)
Definition wdist (h start n : nat) : nat := if Nat.ltb h start then (start - h)%nat else (start + n - h)%nat.
Definition phi (es : list entry) (h start : nat) (chk : bool) : nat :=
  ((if chk then 0 else length es) + wdist h start (length es) + length es * vcount es)%nat.

Lemma evict_loop_no_fuel fuel : forall es h start chk,
  (h < length es)%nat -> (start < length es)%nat -> (phi es h start chk < fuel)%nat ->
  fst (fst (evict_loop fuel es h start chk)) <> EvFuel.
Proof.
  induction fuel as [|f IH]; intros es h start chk Hh Hs Hphi; [lia|].
  cbn [evict_loop]. destruct (nth_error es h) as [e|] eqn:He; [|cbn; discriminate].
  set (n := length es) in *.
  assert (Hmod := mod_succ h n Hh). fold n.
  destruct (is_pinned e) eqn:Hp.
  - rewrite Hmod. destruct (Nat.eqb (S h) n) eqn:E1.
    + apply Nat.eqb_eq in E1. destruct (Nat.eqb O start) eqn:E2.
      * apply Nat.eqb_eq in E2. subst start. destruct chk; [cbn; discriminate|].
        apply IH; [lia|lia|]. unfold phi, wdist in *. fold n in Hphi |- *.
        assert (Nat.ltb h 0 = false) by (apply Nat.ltb_ge; lia). rewrite H in Hphi.
        assert (Nat.ltb 0 0 = false) by reflexivity. rewrite H0. lia.
      * apply Nat.eqb_neq in E2. apply IH; [lia|lia|]. unfold phi, wdist in *. fold n in Hphi |- *.
        assert (A : Nat.ltb h start = false) by (apply Nat.ltb_ge; lia). rewrite A in Hphi.
        assert (B : Nat.ltb 0 start = true) by (apply Nat.ltb_lt; lia). rewrite B. destruct chk; lia.
    + apply Nat.eqb_neq in E1. destruct (Nat.eqb (S h) start) eqn:E2.
      * apply Nat.eqb_eq in E2. destruct chk; [cbn; discriminate|].
        apply IH; [lia|lia|]. unfold phi, wdist in *. fold n in Hphi |- *.
        assert (A : Nat.ltb h start = true) by (apply Nat.ltb_lt; lia). rewrite A in Hphi.
        assert (B : Nat.ltb (S h) start = false) by (apply Nat.ltb_ge; lia). rewrite B. lia.
      * apply Nat.eqb_neq in E2. apply IH; [lia|lia|]. unfold phi, wdist in *. fold n in Hphi |- *.
        destruct (Nat.ltb h start) eqn:A.
        { apply Nat.ltb_lt in A. assert (B : Nat.ltb (S h) start = true) by (apply Nat.ltb_lt; lia). rewrite B. destruct chk; lia. }
        { apply Nat.ltb_ge in A. assert (B : Nat.ltb (S h) start = false) by (apply Nat.ltb_ge; lia). rewrite B. destruct chk; lia. }
  - destruct (evis e) eqn:Hv; [|cbn; discriminate].
    assert (Hvc := vcount_clear es h e He Hp Hv).
    apply IH; rewrite ?set_nth_length; fold n; [rewrite Hmod; destruct (Nat.eqb (S h) n) eqn:E; [lia|apply Nat.eqb_neq in E; lia] | lia |].
    unfold phi in *. rewrite set_nth_length. fold n in Hphi |- *.
    assert (Hw : (wdist (Nat.modulo (S h) n) start n <= n)%nat).
    { unfold wdist. rewrite Hmod. destruct (Nat.eqb (S h) n) eqn:E; [|apply Nat.eqb_neq in E];
        match goal with |- context [Nat.ltb ?a ?b] => destruct (Nat.ltb a b) eqn:Q; [apply Nat.ltb_lt in Q | apply Nat.ltb_ge in Q] end; lia. }
    assert (Hw1 : (1 <= wdist h start n)%nat).
    { unfold wdist. destruct (Nat.ltb h start) eqn:Q; [apply Nat.ltb_lt in Q | apply Nat.ltb_ge in Q]; lia. }
    nia.
Qed.

(* evict on a well-formed shard: never runs out of fuel, never indexes out of range, keeps the shard
   well-formed, changes nothing but visited flags and the hand, and a victim is unpinned and indexed *)
Lemma evict_spec sh r sh' :
  shard_wf sh -> evict sh = (r, sh') ->
  shard_wf sh' /\ map strip (ents sh') = map strip (ents sh) /\ cap sh' = cap sh /\ wl sh' = wl sh /\
  r <> EvPanic /\ r <> EvFuel /\
  (forall k, r = EvSome k -> exists j e, idx_get (idx sh') k = Some j /\ nth_error (ents sh') j = Some e /\ ekey e = k /\ is_pinned e = false).
Proof.
  intros Hwf H. unfold evict in H. destruct (ents sh) as [|a l] eqn:Hes.
  - inversion H; subst. rewrite Hes. split; [exact Hwf|]. repeat split; auto; discriminate.
  - rewrite <- Hes in H. rewrite <- Hes.
    destruct (evict_loop (evict_fuel (ents sh)) (ents sh) (hand sh) (hand sh) false) as [[r0 es] h] eqn:Hl.
    inversion H; subst r0 sh'; clear H. cbn [ents idx hand cap wl].
    destruct Hwf as (Hi & Hh & Hc).
    assert (Hlen : (0 < length (ents sh))%nat) by (rewrite Hes; cbn; lia).
    assert (Hhand : (hand sh < length (ents sh))%nat) by (unfold hand_ok in Hh; lia).
    destruct (evict_loop_props _ _ _ _ _ _ _ _ Hhand Hl) as (Hm & Hh' & Hnp & Hsome).
    assert (Hl' := strip_length _ _ Hm).
    assert (Hi' : idx_ok (mkSh es (idx sh) h (cap sh) (wl sh))).
    { intros k i. cbn [idx ents]. rewrite (Hi k i). split; intros (x & Hx & Hxk).
      - assert (Q : nth_error (map strip es) i = Some (strip x)) by (rewrite Hm; apply map_nth_error; assumption).
        rewrite nth_error_map in Q. destruct (nth_error es i) as [y|]; [|discriminate]. cbn in Q. inversion Q.
        exists y. split; [reflexivity|congruence].
      - destruct (strip_nth _ _ _ _ Hm Hx) as (y & Hy & Hk & _). exists y. split; [assumption|congruence]. }
    split; [split; [exact Hi' | split]|].
    { unfold hand_ok; cbn [hand ents]. lia. }
    { unfold cap_ok in *; cbn [ents cap]. lia. }
    split; [exact Hm|]. split; [reflexivity|]. split; [reflexivity|]. split; [exact Hnp|]. split.
    + assert (Q := evict_loop_no_fuel (evict_fuel (ents sh)) (ents sh) (hand sh) (hand sh) false Hhand Hhand).
      rewrite Hl in Q. cbn [fst] in Q. apply Q.
      unfold phi, evict_fuel, wdist. rewrite Nat.ltb_irrefl. assert (V := vcount_le (ents sh)). nia.
    + intros k Hk. destruct (Hsome k Hk) as (e & He & Hek & Hep).
      exists h, e. split; [|auto]. apply Hi'. exists e. auto.
Qed.

(* evict + lookup + remove as used by get_or_insert *)
Lemma evict_remove_spec sh :
  shard_wf sh ->
  match evict_remove sh with
  | ERemoved sh' =>
      shard_wf sh' /\ length (ents sh') = (length (ents sh) - 1)%nat /\ (0 < length (ents sh))%nat /\ cap sh' = cap sh /\ wl sh' = wl sh /\
      exists v, In v (ents sh) /\ epin v <= 0 /\ idx_get (idx sh') (ekey v) = None /\
        (forall k, k <> ekey v -> idx_get (idx sh') k <> None <-> idx_get (idx sh) k <> None) /\
        (forall x, In x (ents sh') -> ekey x <> ekey v /\ exists y, In y (ents sh) /\ strip y = strip x) /\
        (forall y, In y (ents sh) -> ekey y <> ekey v -> exists x, In x (ents sh') /\ strip y = strip x)
  | ENothing sh' => shard_wf sh' /\ map strip (ents sh') = map strip (ents sh) /\ cap sh' = cap sh /\ wl sh' = wl sh
  | ENotIndexed _ => False
  | EPanicked _ => False
  end.
Proof.
  intros Hwf. unfold evict_remove. destruct (evict sh) as [r sh1] eqn:He.
  destruct (evict_spec _ _ _ Hwf He) as (Hwf1 & Hm & Hc & Hw & Hnp & Hnf & Hsome).
  destruct r as [vk| | |]; try contradiction; [|auto].
  destruct (Hsome vk eq_refl) as (j & e & Hj & Hje & Hek & Hep). rewrite Hj.
  destruct (remove_some _ _ _ Hje) as (sh2 & Hr). rewrite Hr.
  destruct (remove_wf _ _ _ Hwf1 Hr) as (Hwf2 & Hlen & Hc2 & Hw2 & Hidx).
  destruct (Hidx e Hje) as (Hnone & Hother).
  assert (Hl1 := strip_length _ _ Hm).
  assert (Hpos : (0 < length (ents sh1))%nat) by (assert (j < length (ents sh1))%nat by (apply nth_error_Some; congruence); lia).
  split; [assumption|]. split; [lia|]. split; [lia|]. split; [congruence|]. split; [congruence|].
  destruct (strip_nth _ _ _ _ Hm Hje) as (v & Hv & Hvk & Hvp & _).
  exists v. split; [eapply nth_error_In; eauto|]. split; [unfold is_pinned in Hep; apply Z.ltb_ge in Hep; lia|].
  rewrite Hvk. split; [assumption|]. split.
  - intros k Hk. rewrite (Hother k Hk).
    (* the index is untouched by evict *)
    assert (Hidxeq : idx sh1 = idx sh).
    { unfold evict in He. destruct (ents sh); [inversion He; reflexivity|].
      destruct (evict_loop _ _ _ _ _) as [[? ?] ?]. inversion He. reflexivity. }
    rewrite Hidxeq. reflexivity.
  - split.
    + intros x Hx. apply (remove_entries _ _ _ _ (proj1 Hwf1) Hr Hje) in Hx. destruct Hx as (Hx1 & Hx2). split; [assumption|].
      apply In_nth_error in Hx1. destruct Hx1 as (i & Hi1). destruct (strip_nth _ _ _ _ Hm Hi1) as (y & Hy & A & B & C).
      exists y. split; [eapply nth_error_In; eauto|]. unfold strip. congruence.
    + intros y Hy Hyk. apply In_nth_error in Hy. destruct Hy as (i & Hi1).
      assert (Q : nth_error (map strip (ents sh1)) i = Some (strip y)) by (rewrite Hm; apply map_nth_error; assumption).
      rewrite nth_error_map in Q. destruct (nth_error (ents sh1) i) as [x|] eqn:Hx; [|discriminate]. cbn in Q. inversion Q as [[A B C]].
      exists x. split; [|unfold strip; congruence].
      apply (remove_entries _ _ _ _ (proj1 Hwf1) Hr Hje). split; [eapply nth_error_In; eauto | congruence].
Qed.
