(* C04 proofs, part 4: the recorded finding class is not empty in the model (witnesses, by
   evaluation), the witnesses of the two repaired findings now satisfy the property, and a
   corollary of the simulation theorem for Database::checkpoint(). *)
From Coq Require Import ZArith List Bool Lia.
From TV Require Import Model.Persist Proof.Persist Proof.PersistRel Proof.PersistSim.
Import ListNotations.
Open Scope Z_scope.

(* ------------------------------------------------------------------ witnesses *)
(* class 2: an image of the page is logged, the WAL is switched off, the page changes, PRAGMA
   wal_checkpoint copies the old image back: the second row is gone, COUNT( * ) still says 2 *)
Definition wit2 : list op := [Create 0 0; Ins 0 [(Some 1, 10)]; SetWal false; Ins 0 [(Some 2, 11)]; CkptPragma; Query].
(* the same through drop (without close) + open *)
Definition wit2y : list op := [Create 0 0; Ins 0 [(Some 1, 10)]; SetWal false; Ins 0 [(Some 2, 11)]; ReopenDrop; Query].

Lemma checkpoint_refuted_l :
  in_lang wit2 = true /\ known_class_of true wit2 (run true (init true) wit2) = 2
  /\ oracle wit2 (run true (init true) wit2) (run false (init true) wit2) = false
  /\ nth_error (run true (init true) wit2) 5
     = Some (OQ [TPresent [[Some 1; Some 10]] (Some 2) [[[Some 1; Some 10]]; []; []; []; []; []; []; []]; TAbsent; TAbsent])
  /\ in_lang wit2y = true /\ known_class_of true wit2y (run true (init true) wit2y) = 2
  /\ oracle wit2y (run true (init true) wit2y) (run false (init true) wit2y) = false.
Proof. vm_compute. repeat split. Qed.

(* historical (repaired in /repo): the witness of the former class 1 - insert, close + open,
   insert: next_row_id restarted at 1 and the second INSERT failed (fixed by 60cb117) - and of the
   former class 3 - a table dropped, created again, filled, reopened (fixed by affacca).  On the
   model of the repaired code both are outside every class and satisfy the property: after the
   reopen the counter continues at 2, the second INSERT succeeds in both runs. *)
Definition wit1 : list op := [Create 0 0; Ins 0 [(Some 1, 10)]; ReopenClose; Ins 0 [(Some 2, 11)]; Query].
Definition wit3 : list op := [Create 0 0; Ins 0 [(Some 1, 10)]; DropT 0; Create 0 0; Ins 0 [(Some 2, 11)]; ReopenClose; Query].
Lemma repaired_witnesses_l :
  in_lang wit1 = true /\ known_class_of false wit1 (run true (init false) wit1) = 0
  /\ oracle wit1 (run true (init false) wit1) (run false (init false) wit1) = true
  /\ nth_error (run true (init false) wit1) 3 = Some (OOk 1)
  /\ s_next (fst (step (fst (step (fst (step (init false) (Create 0 0))) (Ins 0 [(Some 1, 10)]))) ReopenClose)) = 2
  /\ in_lang wit3 = true /\ known_class_of false wit3 (run true (init false) wit3) = 0
  /\ oracle wit3 (run true (init false) wit3) (run false (init false) wit3) = true.
Proof. vm_compute. repeat split. Qed.

(* non-vacuity of the main theorem: a history with all four modelled interruptions, WAL on,
   PRIMARY KEY AUTO_INCREMENT table, INSERTs after the reopens (one of them failing: the run without
   interruptions burns a row id that the reopened run does not), a table dropped and re-created *)
Definition good : list op :=
  [Create 0 2; Ins 0 [(None, 10); (None, 11)]; CkptPragma; Del 0 10; Ins 0 [(Some 2, 12)]; ReopenDrop; Query;
   Ins 0 [(None, 13)]; Create 1 0; CkptApi; Upd 0 11 14; DropT 1; ReopenClose; Create 1 1; Ins 1 [(Some 5, 15)];
   Ins 0 [(None, 16)]; CkptPragma; Query].
Lemma good_ok :
  in_lang good = true /\ known_class_of true good (run true (init true) good) = 0
  /\ oracle good (run true (init true) good) (run false (init true) good) = true
  /\ nth_error (run true (init true) good) 17
     = Some (OQ [TPresent [[Some 2; Some 14]; [Some 3; Some 13]; [Some 4; Some 16]] (Some 3)
                          [[]; [[Some 2; Some 14]]; [[Some 3; Some 13]]; [[Some 4; Some 16]]; []; []; []; []];
                 TPresent [[Some 5; Some 15]] (Some 1) [[]; []; []; []; [[Some 5; Some 15]]; []; []; []]; TAbsent]).
Proof. vm_compute. repeat split. Qed.

(* ------------------------------------------------------------------ Database::checkpoint() alone *)
(* histories whose only interruptions are calls of Database::checkpoint(): the class cannot be hit *)
Definition only_api (o : op) : bool := match o with ReopenClose | ReopenDrop | CkptPragma | AutoCkpt => false | _ => true end.

Lemma k2_only_api : forall b o x, only_api o = true -> op_in_lang o = true -> k_c2 b = false -> k_c2 (k2_step b o x) = false.
Proof.
  intros b o x H HL C. destruct o; cbn [only_api op_in_lang] in H, HL; try discriminate; cbn [k2_step];
    repeat match goal with
           | |- context [if ?e then _ else _] => destruct e
           | |- context [match ?v with [] => _ | _ :: _ => _ end] => destruct v
           end; cbn; rewrite ?C; auto.
Qed.

Lemma kscan_only_api : forall h oa b,
  forallb only_api h = true -> forallb op_in_lang h = true -> k_c2 b = false -> kclass (kscan b h oa) = 0.
Proof.
  induction h as [|o h IH]; intros oa b HA HL C2; [now apply kclass_zero_intro|].
  cbn [forallb] in HA, HL. apply andb_true_iff in HA. destruct HA as [HA1 HA]. apply andb_true_iff in HL. destruct HL as [HL1 HL].
  destruct oa as [|x oa]; cbn [kscan]; [now apply kclass_zero_intro|].
  apply IH; auto using k2_only_api.
Qed.

Lemma checkpoint_api_id_l : forall wal h,
  in_lang h = true -> forallb only_api h = true ->
  oracle h (run true (init wal) h) (run false (init wal) h) = true.
Proof.
  intros wal h HL HA. apply persist_observational_id_l; [exact HL|].
  unfold known_class_of. apply kscan_only_api; auto.
Qed.
