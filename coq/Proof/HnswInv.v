(* Proof/HnswInv.v -- invariants of histories.
   (1) what insert can do to a state in general (insert_spec);
   (2) deleted nodes stay deleted (the class of a history only grows);
   (3) Inv0: the representation invariant of histories in which no node has been deleted, preserved by
       every well-formed operation (step_inv0 / run_inv0). *)
From Coq Require Import ZArith List Bool Lia Permutation.
From TV Require Import Model.Hnsw Proof.HnswHeap Proof.HnswSearch Proof.HnswFuel Proof.HnswGraph.
Import ListNotations.
Open Scope Z_scope.

(* ------------------------------------------------------------------ assoc lists *)
Section AssocFacts.
  Context {V : Type}.
  Lemma a_get_remove : forall (l : list (Z * V)) k r,
    a_get r (a_remove k l) = if r =? k then None else a_get r l.
  Proof.
    induction l as [|[k' v] t IH]; intros k r; cbn [a_remove filter a_get fst].
    - destruct (r =? k); auto.
    - fold (a_remove k t). destruct (Z.eqb_spec k' k) as [->|Hn]; cbn [negb].
      + rewrite IH. destruct (Z.eqb_spec r k) as [->|Hr]; auto.
        destruct (Z.eqb_spec k r); [congruence | auto].
      + cbn [a_get]. rewrite IH. destruct (Z.eqb_spec k' r) as [->|Hk]; auto.
        destruct (Z.eqb_spec r k); [congruence | auto].
  Qed.
  Lemma a_get_put : forall (l : list (Z * V)) k v r,
    a_get r (a_put k v l) = if r =? k then Some v else a_get r l.
  Proof.
    intros l k v r. unfold a_put. cbn [a_get]. rewrite a_get_remove.
    destruct (Z.eqb_spec k r) as [->|Hn].
    - rewrite Z.eqb_refl. auto.
    - destruct (Z.eqb_spec r k); [congruence | auto].
  Qed.
End AssocFacts.

(* ------------------------------------------------------------------ (1) insert in general *)
Lemma gn_at_P : forall s (P : Z -> Prop), links_in s P -> forall l a b, In b (gn_at s l a) -> P b.
Proof.
  intros s P H l a b Hb. unfold gn_at in Hb.
  destruct (read_node s a) as [nd|] eqn:Er; [|destruct Hb].
  unfold nbrs_at in Hb. destruct (l <? 0); [destruct Hb|].
  destruct (nth_error (n_nbrs nd) (Z.to_nat l)) as [l0|] eqn:El; [|destruct Hb].
  eapply (read_node_links _ _ _ _ H Er); eauto. eapply nth_error_In; eauto.
Qed.

Lemma connect_ids : forall n lvl p s cdf e todo (P : Z -> Prop),
  links_in s P -> P (cid e) -> connect n lvl p s cdf e = Some todo -> todo_ids todo P.
Proof.
  induction n as [|n IH]; intros lvl p s cdf e todo P HL He Hc; cbn [connect] in Hc.
  - inversion Hc; subst. intros lv sel x [].
  - destruct (beam (beam_fuel s) (gn_at s lvl) cdf (efc p) e) as [rs|] eqn:Eb; [|discriminate].
    destruct (connect n (lvl - 1) p s cdf e) as [rest|] eqn:Ec; [|discriminate].
    inversion Hc; subst todo. intros lv sel x [Heq|Hin] Hx.
    + inversion Heq; subst lv sel. apply in_map_iff in Hx. destruct Hx as [c [<- Hc']].
      destruct (beam_heap _ _ _ _ _ _ Eb) as (Hh & _).
      assert (Hin : In c rs).
      { unfold finalize in Hc'. apply In_firstn in Hc'. apply in_rev in Hc'.
        eapply Permutation_in; [symmetry; apply (drain_perm le_max le_max_total le_max_trans (length rs) rs); lia | exact Hc']. }
      eapply (beam_ids (gn_at s lvl) cdf (efc p) P); eauto. intros a b. apply gn_at_P; auto.
    + eapply IH; eauto.
Qed.

Definition appended (s : st) (row lvl : Z) : st :=
  St (nodes s ++ [new_node row lvl]) (entry s) (maxlvl s)
     (a_put row (Z.of_nat (length (nodes s))) (rowmap s)) (vq s).

Lemma new_node_links : forall row lvl P, node_links (new_node row lvl) P.
Proof.
  intros row lvl P l x Hl Hx. unfold new_node in Hl. cbn [n_nbrs] in Hl.
  apply repeat_spec in Hl. subst l. destruct Hx.
Qed.

Lemma appended_links : forall s row lvl P, links_in s P -> links_in (appended s row lvl) P.
Proof.
  intros s row lvl P H nd l x Hin Hl Hx. unfold appended in Hin. cbn [nodes] in Hin.
  apply in_app_iff in Hin. destruct Hin as [Hin|[<-|[]]]; [eapply H; eauto|].
  eapply new_node_links; eauto.
Qed.

Lemma insert_spec : forall p getv s row vec lvl (P : Z -> Prop),
  links_in s P -> P (Z.of_nat (length (nodes s))) -> (forall e, entry s = Some e -> P e) ->
  let id := Z.of_nat (length (nodes s)) in
  let s1 := appended s row lvl in
  match insert p getv s row vec lvl with
  | IFuel => False
  | IErr s' => s' = s \/ ((exists s2, ext s1 s2 /\ links_in s2 P /\ s' = s2) /\
                          ~ (forall x, P x -> read_node s1 x <> None))
  | IOk s' => exists s2, ext s1 s2 /\ links_in s2 P /\
                         ((s' = s2 /\ entry s <> None) \/ s' = set_entry_point s2 id lvl)
  end.
Proof.
  intros p getv s row vec lvl P HL Hid He id s1.
  pose proof (insert_never_out_of_fuel p getv s row vec lvl) as Hnf.
  unfold insert in *. fold (appended s row lvl) in *. fold s1 in Hnf |- *.
  destruct (negb (Z.of_nat (length vec) =? dims p)); [left; auto|].
  assert (L1 : links_in s1 P) by (apply appended_links; auto).
  change (entry s1) with (entry s) in *. change (maxlvl s1) with (maxlvl s) in *.
  destruct (entry s) as [ep|] eqn:Ee.
  - destruct (read_node s1 ep) as [epn|] eqn:Er.
    + match goal with |- context [descend ?a ?b ?c ?d ?e ?f] => destruct (descend a b c d e f) as [e' d'] eqn:Ed end.
      assert (Pe' : P e').
      { eapply descend_ids; [| |exact Ed]; [apply He; auto | apply gn_at_P; auto]. }
      match goal with |- context [connect ?a ?b ?c ?d ?e ?f] => destruct (connect a b c d e f) as [todo|] eqn:Ec end;
        [|congruence].
      pose proof (connect_ids _ _ _ _ _ (C e' d') _ P L1 Pe' Ec) as Ht.
      pose proof (apply_levels_spec todo s1 id P L1 Hid Ht) as A.
      fold id in Hnf |- *.
      destruct (apply_levels s1 id todo) as [s2|s2|] eqn:Ea; [| |contradiction].
      * destruct A as [A1 A2]. exists s2. split; auto. split; auto.
        destruct (maxlvl s2 <? lvl); [right; auto | left; split; [auto | congruence]].
      * destruct A as [A1 A2]. right. split; [exists s2; auto|].
        intros Hall.
        destruct (apply_levels_ok todo s1 id (Hall id Hid)
                    (fun lv sel x H1 H2 => Hall x (Ht lv sel x H1 H2))) as [s3 E3]. congruence.
    + right. split; [exists s1; split; [apply ext_refl | auto]|].
      intros Hall. apply (Hall ep); auto.
  - exists s1. split; [apply ext_refl|]. split; auto.
Qed.

(* ------------------------------------------------------------------ (2) deleted nodes stay deleted *)
Definition keeps_dead (s s' : st) : Prop :=
  forall i nd, nth_error (nodes s) i = Some nd -> n_active nd = false -> nth_error (nodes s') i = Some nd.

Lemma keeps_dead_refl : forall s, keeps_dead s s.
Proof. intros s i nd H _. exact H. Qed.
Lemma keeps_dead_trans : forall a b c, keeps_dead a b -> keeps_dead b c -> keeps_dead a c.
Proof. intros a b c H1 H2 i nd H Hd. apply H2; auto. Qed.

Lemma ext_keeps_dead : forall s s', ext s s' -> keeps_dead s s'.
Proof.
  intros s s' E i nd H Hd. destruct (ext_nodes _ _ E _ _ H) as (nd' & H1 & _ & _ & H4).
  rewrite H1. f_equal. auto.
Qed.

Lemma appended_keeps_dead : forall s row lvl, keeps_dead s (appended s row lvl).
Proof.
  intros s row lvl i nd H _. unfold appended. cbn [nodes].
  rewrite nth_error_app1; auto. apply nth_error_Some. congruence.
Qed.

Lemma set_entry_keeps_dead : forall s id lvl, keeps_dead s (set_entry_point s id lvl).
Proof. intros s id lvl i nd H _. exact H. Qed.

Lemma any_inactive_iff : forall s, any_inactive s = true <->
  exists i nd, nth_error (nodes s) i = Some nd /\ n_active nd = false.
Proof.
  intros s. unfold any_inactive. rewrite existsb_exists. split.
  - intros [nd [Hin Hd]]. apply In_nth_error in Hin. destruct Hin as [i Hi].
    exists i, nd. split; auto. destruct (n_active nd); [discriminate | auto].
  - intros (i & nd & Hi & Hd). exists nd. split; [eapply nth_error_In; eauto|]. rewrite Hd. auto.
Qed.

Lemma keeps_dead_inactive : forall s s', keeps_dead s s' -> any_inactive s = true -> any_inactive s' = true.
Proof.
  intros s s' K H. apply any_inactive_iff in H. destruct H as (i & nd & Hi & Hd).
  apply any_inactive_iff. exists i, nd. split; auto.
Qed.

Lemma set_node_keeps_dead : forall s id nd nd', read_node s id = Some nd -> keeps_dead s (set_node s id nd').
Proof.
  intros s id nd nd' Hr i n Hi Hd. apply read_node_Some in Hr. destruct Hr as (H0 & Hn & Ha).
  unfold set_node. cbn [nodes].
  assert (Hlt : (Z.to_nat id < length (nodes s))%nat) by (apply nth_error_Some; congruence).
  rewrite upd_nth_Z by auto. destruct (Nat.eqb_spec i (Z.to_nat id)) as [->|]; auto. congruence.
Qed.

Lemma insert_keeps_dead : forall p getv s row vec lvl s',
  (insert p getv s row vec lvl = IOk s' \/ insert p getv s row vec lvl = IErr s') -> keeps_dead s s'.
Proof.
  intros p getv s row vec lvl s' H.
  pose proof (insert_spec p getv s row vec lvl (fun _ => True)) as A.
  cbn zeta in A.
  assert (K1 : keeps_dead s (appended s row lvl)) by apply appended_keeps_dead.
  destruct H as [H|H]; rewrite H in A.
  - destruct A as (s2 & E & _ & [[-> _]| ->]); try (repeat intro; exact I).
    + eapply keeps_dead_trans; [exact K1 | apply ext_keeps_dead; auto].
    + eapply keeps_dead_trans; [exact K1|]. eapply keeps_dead_trans; [apply ext_keeps_dead; eauto | apply set_entry_keeps_dead].
  - destruct A as [->|[(s2 & E & _ & ->) _]]; try (repeat intro; exact I).
    + apply keeps_dead_refl.
    + eapply keeps_dead_trans; [exact K1 | apply ext_keeps_dead; auto].
Qed.

Lemma delete_keeps_dead : forall s row s',
  (delete_by_row_id s row = DOk s' \/ delete_by_row_id s row = DErr s') -> keeps_dead s s'.
Proof.
  intros s row s' H. unfold delete_by_row_id in H.
  destruct (a_get row (rowmap s)) as [id|].
  - match type of H with context [read_node ?s1 id] => destruct (read_node s1 id) as [nd|] eqn:Er end.
    + destruct H as [H|H]; inversion H; subst s'. clear H.
      intros i n Hi Hd. cbn [nodes]. apply read_node_Some in Er. cbn [nodes] in Er. destruct Er as (H0 & Hn & Ha).
      assert (Hlt : (Z.to_nat id < length (nodes s))%nat) by (apply nth_error_Some; congruence).
      rewrite upd_nth_Z by auto. destruct (Nat.eqb_spec i (Z.to_nat id)) as [->|]; auto. congruence.
    + destruct H as [H|H]; inversion H; subst s'. intros i n Hi _. exact Hi.
  - destruct H as [H|H]; inversion H; subst s'. apply keeps_dead_refl.
Qed.

Lemma remove_nbr_row : forall nd lvl x, n_row (remove_nbr nd lvl x) = n_row nd /\ n_active (remove_nbr nd lvl x) = n_active nd.
Proof.
  intros nd lvl x. unfold remove_nbr. destruct (lvl <? 0); auto.
  destruct (nth_error (n_nbrs nd) (Z.to_nat lvl)); auto.
Qed.

Lemma unlink_one_keeps_dead : forall s lvl del nb, keeps_dead s (unlink_one s lvl del nb).
Proof.
  intros s lvl del nb. unfold unlink_one. destruct (nb =? NONE_ID); [apply keeps_dead_refl|].
  destruct (read_node s nb) as [nbn|] eqn:Er; [|apply keeps_dead_refl].
  eapply set_node_keeps_dead; eauto.
Qed.

Lemma fold_keeps_dead : forall (A : Type) (f : st -> A -> st) l s,
  (forall s a, keeps_dead s (f s a)) -> keeps_dead s (fold_left f l s).
Proof.
  intros A f l. induction l as [|a t IH]; intros s Hf; cbn [fold_left]; [apply keeps_dead_refl|].
  eapply keeps_dead_trans; [apply Hf | apply IH; auto].
Qed.

Lemma unlink_levels_keeps_dead : forall n lvl s del dn, keeps_dead s (unlink_levels n lvl s del dn).
Proof.
  induction n as [|n IH]; intros lvl s del dn; cbn [unlink_levels]; [apply keeps_dead_refl|].
  eapply keeps_dead_trans; [|apply IH].
  apply fold_keeps_dead. intros s0 a. apply unlink_one_keeps_dead.
Qed.

Lemma vacuum_keeps_dead : forall s n, keeps_dead s (fst (vacuum_batch s n)).
Proof.
  intros s n. unfold vacuum_batch. cbn [fst].
  eapply keeps_dead_trans; [|apply fold_keeps_dead].
  - intros i nd H _. exact H.
  - intros s0 del. unfold vacuum_one. destruct (read_node s0 del) as [dn|]; [|apply keeps_dead_refl].
    eapply keeps_dead_trans; [apply unlink_levels_keeps_dead|].
    destruct (entry _) as [e|]; [|apply keeps_dead_refl].
    destruct (e =? del); [apply set_entry_keeps_dead | apply keeps_dead_refl].
Qed.

Lemma step_keeps_dead : forall p w o, keeps_dead (ix w) (ix (fst (step p w o))).
Proof.
  intros p w o. destruct o as [row v lvl blind|row|n| |q k ef]; cbn [step].
  - destruct (insert p _ (ix w) row v lvl) as [s|s|] eqn:Ei; cbn [fst ix].
    + eapply insert_keeps_dead; eauto.
    + eapply insert_keeps_dead; eauto.
    + apply keeps_dead_refl.
  - destruct (delete_by_row_id (ix w) row) as [s|s] eqn:Ed; cbn [fst ix]; eapply delete_keeps_dead; eauto.
  - pose proof (vacuum_keeps_dead (ix w) n) as K. destruct (vacuum_batch (ix w) n) as [s c]. exact K.
  - cbn [fst ix]. intros i nd H _. exact H.
  - apply keeps_dead_refl.
Qed.

Lemma run_keeps_dead : forall p ops w, keeps_dead (ix w) (ix (fst (run p w ops))).
Proof.
  intros p ops. induction ops as [|o t IH]; intros w; cbn [run]; [apply keeps_dead_refl|].
  pose proof (step_keeps_dead p w o) as K1.
  destruct (step p w o) as [w1 b] eqn:Es. cbn [fst] in K1.
  specialize (IH w1). destruct (run p w1 t) as [w2 bs]. cbn [fst] in *.
  eapply keeps_dead_trans; eauto.
Qed.

(* ------------------------------------------------------------------ (3) histories without a deleted node *)
Definition valid (s : st) (x : Z) : Prop := 0 <= x < Z.of_nat (length (nodes s)).

Record Inv0 (w : world) : Prop := {
  i_active : forall nd, In nd (nodes (ix w)) -> n_active nd = true;
  i_links : links_in (ix w) (valid (ix w));
  i_rows : NoDup (map n_row (nodes (ix w)));
  i_tbl : forall r, In r (map n_row (nodes (ix w))) <-> a_get r (tbl w) <> None;
  i_rowmap : forall i nd, nth_error (nodes (ix w)) i = Some nd -> a_get (n_row nd) (rowmap (ix w)) = Some (Z.of_nat i);
  i_entry : match entry (ix w) with None => nodes (ix w) = [] | Some e => valid (ix w) e end;
  i_vq : vq (ix w) = []
}.

Lemma inv0_w0 : Inv0 w0.
Proof.
  constructor.
  - intros nd [].
  - intros nd l x [].
  - constructor.
  - intros r. cbn. split; [intros [] | intros H; congruence].
  - intros i nd H. destruct i; discriminate.
  - reflexivity.
  - reflexivity.
Qed.

Lemma valid_read : forall w x, Inv0 w -> valid (ix w) x -> exists nd, read_node (ix w) x = Some nd.
Proof.
  intros w x I [H0 H1].
  destruct (nth_error (nodes (ix w)) (Z.to_nat x)) as [nd|] eqn:E.
  - exists nd. apply read_node_intro; auto. eapply i_active; eauto. eapply nth_error_In; eauto.
  - apply nth_error_None in E. lia.
Qed.

Lemma nth_error_ext_eq : forall (A : Type) (l l' : list A),
  (forall i, nth_error l i = nth_error l' i) -> l = l'.
Proof.
  induction l as [|a t IH]; intros [|b t'] H; auto.
  - specialize (H O). discriminate.
  - specialize (H O). discriminate.
  - f_equal; [specialize (H O); cbn in H; congruence|]. apply IH. intros i. apply (H (S i)).
Qed.

Lemma ext_rows : forall s s', ext s s' -> map n_row (nodes s') = map n_row (nodes s).
Proof.
  intros s s' E. apply nth_error_ext_eq. intros i. rewrite !nth_error_map.
  destruct (nth_error (nodes s) i) as [nd|] eqn:En.
  - destruct (ext_nodes _ _ E _ _ En) as (nd' & H1 & R & _). rewrite H1. cbn. congruence.
  - apply nth_error_None in En. rewrite <- (ext_len _ _ E) in En. apply nth_error_None in En. rewrite En. auto.
Qed.

Lemma ext_all_active : forall s s', ext s s' -> (forall nd, In nd (nodes s) -> n_active nd = true) ->
  forall nd, In nd (nodes s') -> n_active nd = true.
Proof.
  intros s s' E H nd Hin. apply In_nth_error in Hin. destruct Hin as [i Hi].
  destruct (nth_error (nodes s) i) as [n0|] eqn:En.
  - destruct (ext_nodes _ _ E _ _ En) as (nd' & H1 & _ & A & _).
    assert (nd' = nd) by congruence. subst nd'. rewrite A. apply H. eapply nth_error_In; eauto.
  - apply nth_error_None in En. rewrite <- (ext_len _ _ E) in En. apply nth_error_None in En. congruence.
Qed.

(* rebuild_row_id_map after reopen *)
Lemma rebuild_map_other : forall ns i acc r, ~ In r (map n_row ns) -> a_get r (rebuild_map ns i acc) = a_get r acc.
Proof.
  induction ns as [|nd t IH]; intros i acc r Hn; cbn [rebuild_map]; auto.
  cbn [map] in Hn. rewrite IH by (intros H; apply Hn; right; auto).
  destruct (n_active nd); auto. rewrite a_get_put.
  destruct (Z.eqb_spec r (n_row nd)); auto. exfalso. apply Hn. left; auto.
Qed.

Lemma rebuild_map_spec : forall ns i0 acc, NoDup (map n_row ns) -> (forall nd, In nd ns -> n_active nd = true) ->
  forall j nd, nth_error ns j = Some nd -> a_get (n_row nd) (rebuild_map ns i0 acc) = Some (i0 + Z.of_nat j).
Proof.
  induction ns as [|n0 t IH]; intros i0 acc Hnd Ha j nd Hj; [destruct j; discriminate|].
  cbn [rebuild_map]. cbn [map] in Hnd. inversion Hnd as [|? ? Hnot Hnd']; subst.
  rewrite (Ha n0) by (left; auto).
  destruct j as [|j]; cbn [nth_error] in Hj.
  - inversion Hj; subst nd. rewrite rebuild_map_other by auto. rewrite a_get_put, Z.eqb_refl. f_equal. lia.
  - rewrite (IH (i0 + 1) _ Hnd' (fun nd H => Ha nd (or_intror H)) j nd Hj). f_equal. lia.
Qed.

