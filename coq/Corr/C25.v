(* C25 correspondence: judge what the harness observed on the real PersistentHnswIndex / SQ8Vector
   against (a) the executable model (Model/Hnsw.v, Model/Sq8.v) and (b) the property's own oracle,
   which looks only at the implementation's output and at the vectors the caller inserted.
   Evaluated by vm_compute; definitions only. *)
From Coq Require Import ZArith List Bool.
From TV Require Export Model.Hnsw Model.Sq8.
Import ListNotations.
Open Scope Z_scope.

(* an f32 reported exactly: n * 2^e *)
Inductive dy := Dy (n e : Z).
Inductive sqout := SqOk (mn sc : dy) (codes : list Z) (decs : list dy) | SqNonFinite | SqPanic.

Inductive case :=
| Hist (dims m efc : Z) (tr : list (op * obs))      (* one history with what each call returned *)
| Sq8 (nums : list Z) (sh : Z) (o : sqout).          (* from_f32 + decode of the vector nums_i / 2^sh *)

(* ------------------------------------------------------------------ equality of observations *)
Fixpoint res_eqb (a b : list (Z * dist)) : bool :=
  match a, b with
  | [], [] => true
  | (r, d) :: a', (r', d') :: b' => (r =? r') && dist_eqb d d' && res_eqb a' b'
  | _, _ => false
  end.
Definition sres_eqb (a b : sres) : bool :=
  match a, b with
  | SOk x, SOk y => res_eqb x y
  | SErr, SErr => true
  | _, _ => false          (* SAbort / SFuel are never observed *)
  end.
Definition obs_eqb (a b : obs) : bool :=
  match a, b with
  | OIns x, OIns y => Bool.eqb x y
  | ODel x, ODel y => Bool.eqb x y
  | OVac x, OVac y => x =? y
  | OReopen x, OReopen y => Bool.eqb x y
  | OSearch x, OSearch y => sres_eqb x y
  | _, _ => false          (* OVacErr, OPanic, OAbort, OFuel: the model never produces the first three, the implementation never the last *)
  end.
Fixpoint obs_list_eqb (a b : list obs) : bool :=
  match a, b with
  | [], [] => true
  | x :: a', y :: b' => obs_eqb x y && obs_list_eqb a' b'
  | _, _ => false
  end.

(* ------------------------------------------------------------------ the property's oracle for histories *)
(* spec state: the caller's live rows (from the Ok/Err the implementation returned), the number of
   nodes ever allocated, the search that directly preceded the last reopen *)
Record sp := Sp {
  s_live : list (Z * list Z);
  s_alloc : Z;
  s_last : option (list Z * Z * Z * list (Z * dist));
  s_pend : option (list Z * Z * Z * list (Z * dist))
}.

Fixpoint rows_distinct (l : list Z) : bool :=
  match l with [] => true | x :: t => negb (mem x t) && rows_distinct t end.

(* all rows live and their TRUE distances to q (from the inserted vectors) nondecreasing *)
Fixpoint live_sorted (live : list (Z * list Z)) (q : list Z) (prev : Z) (rows : list Z) : bool :=
  match rows with
  | [] => true
  | r :: t => match a_get r live with
              | None => false
              | Some v => let d := dist2 q v in (prev <=? d) && live_sorted live q d t
              end
  end.

Definition zlist_eqb := fix go (a b : list Z) : bool :=
  match a, b with [], [] => true | x :: a', y :: b' => (x =? y) && go a' b' | _, _ => false end.

Definition search_ok (dims : Z) (s : sp) (q : list Z) (k ef : Z) (r : sres) : bool :=
  match r with
  | SErr => negb (Z.of_nat (length q) =? dims)
  | SOk rs =>
      let rows := map fst rs in
      (Z.of_nat (length rs) <=? k)
      && rows_distinct rows
      && live_sorted (s_live s) q 0 rows
      && (match s_live s with [] => true | _ => if (1 <=? k) && (1 <=? ef) then negb (Nat.eqb (length rs) 0) else true end)
      && (if (s_alloc s <=? ef) && (Z.of_nat (length (s_live s)) <=? k)
          then forallb (fun p => mem (fst p) rows) (s_live s) else true)
      && (match s_pend s with
          | Some (pq, pk, pef, prs) => if zlist_eqb pq q && (pk =? k) && (pef =? ef) then res_eqb prs rs else true
          | None => true
          end)
  | _ => false
  end.

(* index of the first op whose observed behaviour breaks the property, if any.
   A history that breaks the caller protocol (inserting a row id that is live) claims nothing afterwards. *)
Fixpoint spec_walk (dims : Z) (i : nat) (s : sp) (tr : list (op * obs)) : option nat :=
  match tr with
  | [] => None
  | (o, b) :: t =>
      match b with OPanic | OAbort => Some i | _ =>
      match o, b with
      | Ins row v _ _, OIns ok =>
          match a_get row (s_live s) with
          | Some _ => None
          | None =>
              let al := if Z.of_nat (length v) =? dims then s_alloc s + 1 else s_alloc s in
              spec_walk dims (S i) (Sp (if ok then a_put row v (s_live s) else s_live s) al None None) t
          end
      | Del row, _ => spec_walk dims (S i) (Sp (a_remove row (s_live s)) (s_alloc s) None None) t
      | Vac _, _ => spec_walk dims (S i) (Sp (s_live s) (s_alloc s) None None) t
      | Reopen, OReopen ok =>
          if ok then spec_walk dims (S i) (Sp (s_live s) (s_alloc s) None (s_last s)) t else Some i
      | Search q k ef, OSearch r =>
          if search_ok dims s q k ef r
          then spec_walk dims (S i)
                 (Sp (s_live s) (s_alloc s)
                     (match r with SOk rs => Some (q, k, ef, rs) | _ => None end) None) t
          else Some i
      | _, _ => Some i       (* an observation of the wrong shape *)
      end end
  end.

Definition spec_fail_at (c : case) : option nat :=
  match c with
  | Hist d _ _ tr => spec_walk d 0 (Sp [] 0 None None) tr
  | Sq8 _ _ _ => None
  end.

(* ------------------------------------------------------------------ SQ8 *)
Definition dy_at (E : Z) (d : dy) : Z := match d with Dy n e => n * 2 ^ (e - E) end.   (* value / 2^E, for E <= e *)
Definition dy_exp (d : dy) : Z := match d with Dy _ e => e end.
Definition min_exp (sh : Z) (mn sc : dy) (decs : list dy) : Z :=
  fold_left Z.min (map dy_exp decs) (Z.min (- sh) (Z.min (dy_exp mn) (dy_exp sc))).

(* |dec_i - v_i| <= scale for every component, in exact arithmetic *)
Definition sq8_spec (nums : list Z) (sh : Z) (o : sqout) : bool :=
  match o with
  | SqOk mn sc codes decs =>
      let E := min_exp sh mn sc decs in
      let scale := dy_at E sc in
      (Nat.eqb (length decs) (length nums)) && (Nat.eqb (length codes) (length nums)) &&
      forallb (fun p => Z.abs (dy_at E (snd p) - fst p * 2 ^ (- sh - E)) <=? scale) (combine nums decs)
  | _ => false
  end.

Definition sq8_model_agrees (nums : list Z) (sh : Z) (o : sqout) : bool :=
  match o with
  | SqOk mn sc codes decs =>
      match nums with
      | [] => match mn, sc, codes, decs with Dy 0 _, Dy 0 _, [], [] => true | _, _, _, _ => false end
      | _ =>
          let E := min_exp sh mn sc decs in
          let u := 2 ^ (- sh - E) in                     (* one input unit at exponent E *)
          let R := sq_range nums in
          let mcodes := sq_encode nums in
          (dy_at E mn =? sq_min nums * u)
          && (if 255 * dy_at E sc =? (if R =? 0 then 255 * 2 ^ (- E) else R * u)
              then (* the scale is exact in f32: codes are the model's; decoded values too when small enough to be exact *)
                   zlist_eqb codes mcodes
                   && (if forallb (fun v => Z.abs v <? 2 ^ 20) nums
                       then zlist_eqb (map (fun d => 255 * dy_at E d) decs)
                                      (map (fun c => sq_decode255 (sq_min nums) R c * u) mcodes)
                       else true)
              else (* scale was rounded: the implementation's quotient may fall on the other side of a half *)
                   (Nat.eqb (length codes) (length mcodes))
                   && forallb (fun p => Z.abs (fst p - snd p) <=? 1) (combine codes mcodes))
      end
  | _ => false
  end.

(* ------------------------------------------------------------------ the contract *)
Definition model_agrees (c : case) : bool :=
  match c with
  | Hist d m e tr => obs_list_eqb (snd (run (Pm d m e) w0 (map fst tr))) (map snd tr)
  | Sq8 nums sh o => sq8_model_agrees nums sh o
  end.

Definition spec_ok (c : case) : bool :=
  match c with
  | Hist _ _ _ _ => match spec_fail_at c with None => true | Some _ => false end
  | Sq8 nums sh o => sq8_spec nums sh o
  end.

(* class of the model state in which the first offending call was made (0 when nothing offends):
   1 = some node is deleted but the entry point is readable (what is left of F-C25-1: F-C25-4),
   2 = the entry point is deleted (F-C25-2),
   3 = no node deleted but some neighbour list is full, back-links are dropped (F-C25-5) *)
Definition known_class (c : case) : Z :=
  match c with
  | Hist d m e tr =>
      match spec_fail_at c with
      | None => 0
      | Some i => class_of (ix (run0 (Pm d m e) (map fst (firstn i tr))))
      end
  | Sq8 _ _ _ => 0
  end.

Fixpoint failures_from (i : Z) (cs : list case) : list (Z * bool * bool * Z) :=
  match cs with
  | [] => []
  | c :: t =>
      let m := model_agrees c in
      let s := spec_ok c in
      if m && s then failures_from (i + 1) t else (i, m, s, known_class c) :: failures_from (i + 1) t
  end.
Definition failures := failures_from 0.
