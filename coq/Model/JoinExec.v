(* C17 implementation model, part 1: the Volcano join executors of src/sql/executor.rs
   (definitions only; proofs in Proof/JoinExec.v, Proof/JoinSpill.v, Proof/JoinKeys.v).

   Modelled, faithful to the code as it is:
   * DynamicExecutor::NestedLoopJoin   (executor.rs open 1872.., next 2393..): right side materialised,
     one pass over the left rows, left_matched / right_matched flags, unmatched right rows last.
   * DynamicExecutor::GraceHashJoin    (open 1901.., next 2483..): both inputs partitioned by
     `hash % num_partitions`; per partition a hash table on the 64-bit hash of the LEFT (build) rows,
     the RIGHT (probe) rows looked up by equal hash and filtered by keys_match_static; probe rows
     without partner (RIGHT / FULL) are emitted on the spot, unmatched build rows (LEFT / FULL) after
     the partition's probe.  With a spill directory every partition goes through PartitionSpiller
     (C33: Model/RowSerde.v spiller_read) with budget = memory_budget / num_partitions.
   * DynamicExecutor::StreamingHashJoin (open 2032.., next 2700..): one hash table on the build side,
     `swapped` says that the build side is the right input.
   * GraceHashJoinExecutor (executor.rs:1140, inner join only): builds on the RIGHT partition, probes
     with the LEFT rows, its own keys_match (floats within EPSILON, mixed types fall through to "match").
   * keys_match_static (src/sql/util.rs:120) over Value::compare (src/types/value.rs:286).

   The hash of a row's key columns (std DefaultHasher over Value::hash_to) is NOT modelled: it is an
   oracle column next to every row (`hrow` = row with its hash as reported by the harness), and the
   generic definitions below take the hash functions as parameters -- the theorems hold for every
   hash function.  A row read back from a spill file keeps the oracle hash of the row written (the
   only rows whose bits change are NaN keys, which never match anything).
   num_partitions = 0 panics (remainder by zero / index out of bounds): XPanic. *)
From Coq Require Import ZArith List Bool.
From TV Require Model.RowSerde.
From TV Require Import Model.SqlSpec Model.PredImpl Model.JoinSpec.
Import ListNotations.
Open Scope Z_scope.

(* ------------------------------------------------------------------ generic executors *)
Section GenericExec.
  Variables A B C : Type.
  Variable both : A -> B -> C.
  Variable lonly : A -> C.
  Variable ronly : B -> C.
  Variable jt : jtype.

  (* --- nested loop: for each left row the matching right rows in order; a left row without
         partner is padded (LEFT / FULL); right rows never matched come last (RIGHT / FULL) *)
  Definition nl_row (on : A -> B -> bool) (R : list B) (l : A) : list C :=
    let ms := filter (on l) R in
    if is_nil ms && left_outer jt then [lonly l] else map (both l) ms.
  Definition nl_exec (on : A -> B -> bool) (L : list A) (R : list B) : list C :=
    flat_map (nl_row on R) L ++ (if right_outer jt then right_part on ronly L R else []).

  (* --- hash join of one partition: build = left rows, probe = right rows *)
  Variable hl : A -> Z.
  Variable hr : B -> Z.
  Variable km : A -> B -> bool.                 (* keys_match (build row, probe row) *)
  Definition hit (l : A) (r : B) : bool := (hl l =? hr r) && km l r.
  Definition probe_row (build : list A) (r : B) : list C :=
    let ms := filter (fun l => hit l r) build in
    if is_nil ms then (if right_outer jt then [ronly r] else []) else map (fun l => both l r) ms.
  Definition part_exec (build : list A) (probe : list B) : list C :=
    flat_map (probe_row build) probe
    ++ (if left_outer jt then map lonly (filter (fun l => negb (existsb (hit l) probe)) build) else []).

  (* --- grace: partitions 0 .. n-1 in order; spl / spr = what comes back from the partition store *)
  Variable n : Z.
  Definition in_part (p h : Z) : bool := h mod n =? p.
  Definition parts : list Z := map Z.of_nat (seq 0 (Z.to_nat n)).
  Variable spl : list A -> option (list A).
  Variable spr : list B -> option (list B).
  Fixpoint grace_run (ps : list Z) (L : list A) (R : list B) : option (list C) :=
    match ps with
    | [] => Some []
    | p :: ps' =>
        match spl (filter (fun l => in_part p (hl l)) L), spr (filter (fun r => in_part p (hr r)) R), grace_run ps' L R with
        | Some b, Some pr, Some rest => Some (part_exec b pr ++ rest)
        | _, _, _ => None
        end
    end.
  Definition grace_exec (L : list A) (R : list B) : option (list C) := grace_run parts L R.
End GenericExec.
Arguments nl_row {A B C}.
Arguments nl_exec {A B C}.
Arguments hit {A B}.
Arguments probe_row {A B C}.
Arguments part_exec {A B C}.
Arguments in_part n p h : simpl never.
Arguments parts n : simpl never.
Arguments grace_run {A B C}.
Arguments grace_exec {A B C}.

(* ------------------------------------------------------------------ key comparison as written *)
(* Value::compare on the four variants the harness uses (a Bool never reaches an executor) *)
Definition value_compare (a b : value) : option comparison :=
  match a, b with
  | VNull, _ | _, VNull => None
  | VInt x, VInt y => Some (Z.compare x y)
  | VFloat x, VFloat y => f_partial_cmp x y
  | VInt x, VFloat y => if_partial_cmp x y
  | VFloat x, VInt y => option_map CompOpp (if_partial_cmp y x)
  | VText x, VText y => Some (bytes_cmp x y)
  | (VInt _ | VFloat _), VText _ => Some Lt
  | VText _, (VInt _ | VFloat _) => Some Gt
  | _, _ => None
  end.

Definition is_vnull (o : option value) : bool := match o with Some VNull => true | _ => false end.

(* keys_match_static: same number of keys, no NULL, every pair compares Equal *)
Fixpoint keys_all (f : option value -> option value -> bool) (l r : row) (lk rk : list nat) : bool :=
  match lk, rk with
  | i :: lk', j :: rk' => f (nth_error l i) (nth_error r j) && keys_all f l r lk' rk'
  | _, _ => true
  end.
Definition key_eq_static (a b : option value) : bool :=
  if is_vnull a || is_vnull b then false else
  match a, b with
  | Some x, Some y => match value_compare x y with Some Eq => true | _ => false end
  | _, _ => false
  end.
Definition keys_match_static (l r : row) (lk rk : list nat) : bool :=
  (length lk =? length rk)%nat && keys_all key_eq_static l r lk rk.

(* GraceHashJoinExecutor::keys_match: only Int/Int, Float/Float (beyond EPSILON), Text/Text,
   NULL and a missing column make a pair differ; everything else falls through to "match".
   |a - b| > EPSILON is evaluated exactly on the values (a - b is representable for the small dyadic
   floats of the generated cases; NaN and infinities follow IEEE: NaN > x is false, inf - inf = NaN) *)
Definition f_gt_eps (a b : Z) : bool :=
  if f_finite a && f_finite b then 2 ^ 1022 <? Z.abs (f_scaled a - f_scaled b)
  else if f_is_nan a || f_is_nan b then false
  else if f_is_inf a && f_is_inf b && (f_sign a =? f_sign b) then false
  else true.
Definition key_eq_gs (a b : option value) : bool :=
  if is_vnull a || is_vnull b then false else
  match a, b with
  | Some (VInt x), Some (VInt y) => x =? y
  | Some (VFloat x), Some (VFloat y) => negb (f_gt_eps x y)
  | Some (VText x), Some (VText y) => zlist_eqb' x y
  | None, _ | _, None => false
  | _, _ => true
  end.
Definition keys_match_gs (l r : row) (lk rk : list nat) : bool :=
  (length lk =? length rk)%nat && keys_all key_eq_gs l r lk rk.

(* ------------------------------------------------------------------ spilling (C33) *)
Definition to_sv (v : value) : Model.RowSerde.value :=
  match v with
  | VNull => Model.RowSerde.VNull
  | VInt z => Model.RowSerde.VInt z
  | VFloat b => Model.RowSerde.VFloat b
  | VText s => Model.RowSerde.VText s
  | VBool b => Model.RowSerde.VInt (Z.b2z b)
  end.
Definition of_sv (v : Model.RowSerde.value) : option value :=
  match v with
  | Model.RowSerde.VNull => Some VNull
  | Model.RowSerde.VInt z => Some (VInt z)
  | Model.RowSerde.VFloat b => Some (VFloat b)
  | Model.RowSerde.VText s => Some (VText s)
  | _ => None
  end.
Fixpoint of_sv_row (r : list Model.RowSerde.value) : option row :=
  match r with
  | [] => Some []
  | v :: r' => match of_sv v, of_sv_row r' with Some x, Some y => Some (x :: y) | _, _ => None end
  end.

Definition hrow := (row * Z)%type.            (* a row and the hash of its key columns (oracle) *)

Fixpoint rezip (rows : list (list Model.RowSerde.value)) (orig : list hrow) : option (list hrow) :=
  match rows, orig with
  | [], [] => Some []
  | r :: rows', o :: orig' =>
      match of_sv_row r, rezip rows' orig' with Some x, Some y => Some ((x, snd o) :: y) | _, _ => None end
  | _, _ => None
  end.
(* the rows of one partition after write_row .. start_read / read_next under a byte budget *)
Definition spill_rows (budget : Z) (rows : list hrow) : option (list hrow) :=
  match Model.RowSerde.spiller_read budget (map (fun x => map to_sv (fst x)) rows) with
  | Some out => rezip out rows
  | None => None
  end.
Definition store (spill : option Z) (n : Z) (rows : list hrow) : option (list hrow) :=
  match spill with
  | None => Some rows
  | Some b => spill_rows (b / n) rows          (* per_partition_budget = memory_budget / num_partitions *)
  end.

(* ------------------------------------------------------------------ the executors on SQL rows *)
Inductive algo := AGraceDyn | AGraceStatic | ANestedLoop | AStreaming.
Inductive xout := XRows (t : table) | XErr | XPanic | XUnmod.

Definition cat_lr (l r : hrow) : row := fst l ++ fst r.

(* the condition the harness hands to the nested-loop executor: l<i> = r<j> AND ... (left-nested) *)
Definition nl_cond (lw : nat) (lk rk : list nat) : expr :=
  match combine lk rk with
  | [] => ECmp CEq (ELit (VInt 1)) (ELit (VInt 1))
  | (i, j) :: t =>
      fold_left (fun acc ij => EAnd acc (ECmp CEq (ECol (fst ij)) (ECol (lw + snd ij)))) t
                (ECmp CEq (ECol i) (ECol (lw + j)))
  end.

(* every evaluation of the compiled predicate over the pairs: Ok / Panic / not modelled *)
Definition pred_status (e : expr) (L R : list hrow) : Z :=
  fold_left (fun acc l => fold_left (fun acc r =>
    match eval_expr e (cat_lr l r) with
    | PredImpl.Ok _ => acc
    | PredImpl.Panic => Z.max acc 2
    | PredImpl.Unmod => Z.max acc 1
    end) R acc) L 0.
Definition pred_true (e : expr) (l r : hrow) : bool :=
  match eval_expr e (cat_lr l r) with PredImpl.Ok b => b | _ => false end.

Definition exec_model (a : algo) (jt : jtype) (n : Z) (spill : option Z) (swapped : bool)
                      (lk rk : list nat) (lw rw : nat) (L R : list hrow) : xout :=
  let lo := fun l : hrow => fst l ++ nulls rw in
  let ro := fun r : hrow => nulls lw ++ fst r in
  match a with
  | ANestedLoop =>
      let e := nl_cond lw lk rk in
      match pred_status e L R with
      | 0 => XRows (nl_exec cat_lr lo ro jt (pred_true e) L R)
      | 1 => XUnmod
      | _ => XPanic
      end
  | AGraceDyn =>
      if n <=? 0 then XPanic else
      match grace_exec cat_lr lo ro jt snd snd (fun l r => keys_match_static (fst l) (fst r) lk rk) n
                       (store spill n) (store spill n) L R with
      | Some t => XRows t
      | None => XErr
      end
  | AStreaming =>
      if swapped
      then (* build = the right input, probe = the left input; rows are still left ++ right *)
           XRows (part_exec (fun (b p : hrow) => fst p ++ fst b) (fun b : hrow => nulls lw ++ fst b) (fun p : hrow => fst p ++ nulls rw)
                            jt snd snd (fun b p => keys_match_static (fst b) (fst p) rk lk) R L)
      else XRows (part_exec cat_lr lo ro jt snd snd (fun l r => keys_match_static (fst l) (fst r) lk rk) L R)
  | AGraceStatic =>
      if n <=? 0 then XPanic else
      (* build = the right partition, probe = the left partition, inner join only *)
      match grace_exec (fun (b p : hrow) => fst p ++ fst b) (fun b : hrow => fst b) (fun p : hrow => fst p) JInner snd snd
                       (fun b p => keys_match_gs (fst p) (fst b) lk rk) n Some Some R L with
      | Some t => XRows t
      | None => XErr
      end
  end.
