(* C31 correspondence: judge what the implementation did (RecordBuilder / RecordView /
   OwnedValue::{build_record_into_buffer, extract_row_from_record}, written by
   harness/src/bin/c31.rs as `case` terms) against the model (Model/Record.v) and against the
   property's own oracle.  Evaluated by vm_compute; definitions only. *)
From Coq Require Import ZArith List Bool.
From TV Require Export Lib.MachInt Model.Record.
Import ListNotations.
Open Scope Z_scope.

(* run-length helper used by the harness for long byte strings *)
Definition R (n x : Z) : list Z := repeat x (Z.to_nat n).

(* Coq reads long literals slowly (about 10^4 numerals per second), so the bytes a builder
   produced are reported as (length, multiplicative hash masked to 61 bits); the row read back is
   reported as XSame when it is bit-identical to the row that was built, and the reused
   builder's outcome as RSame when it is identical to the new builder's. *)
Definition bhash (b : list Z) : Z :=
  fold_left (fun acc x => Z.land (acc * 1000003 + x + 1) 2305843009213693951) b 0.

Inductive bout := BHash (len h : Z) | BErrO | BPanicO.
Inductive rout := RSame | ROther (b : bout).
Inductive xout := XSame | XRow (r : list value) | XErr | XPanic | XNone.

Inductive case :=
(* one row: schema, rows built earlier with the reused builder, the row, outcome of a new
   builder, outcome of the reused builder, what extract_row_from_record returned on the new
   builder's bytes (XNone when there are none) *)
| Row (s : list dtype) (hist : list (list value)) (row : list value)
      (fresh_o : bout) (reused_o : rout) (x : xout)
(* arbitrary bytes read through RecordView::new + extract_row_from_record *)
| View (s : list dtype) (data : list Z) (x : xout).

Definition value_eqb (a b : value) : bool :=
  match a, b with
  | VNull, VNull => true
  | VBool x, VBool y => Bool.eqb x y
  | VInt x, VInt y => x =? y
  | VFloat x, VFloat y => x =? y
  | VText x, VText y => zlist_eqb x y
  | VBlob x, VBlob y => zlist_eqb x y
  | VVector x, VVector y => zlist_eqb x y
  | VDate x, VDate y => x =? y
  | VTime x, VTime y => x =? y
  | VTimestamp x, VTimestamp y => x =? y
  | VTimestampTz x1 x2, VTimestampTz y1 y2 => (x1 =? y1) && (x2 =? y2)
  | VUuid x, VUuid y => zlist_eqb x y
  | VMacAddr x, VMacAddr y => zlist_eqb x y
  | VInet4 x, VInet4 y => zlist_eqb x y
  | VInet6 x, VInet6 y => zlist_eqb x y
  | VInterval x1 x2 x3, VInterval y1 y2 y3 => (x1 =? y1) && (x2 =? y2) && (x3 =? y3)
  | VPoint x1 x2, VPoint y1 y2 => (x1 =? y1) && (x2 =? y2)
  | VBox x1 x2 x3 x4, VBox y1 y2 y3 y4 => (x1 =? y1) && (x2 =? y2) && (x3 =? y3) && (x4 =? y4)
  | VCircle x1 x2 x3, VCircle y1 y2 y3 => (x1 =? y1) && (x2 =? y2) && (x3 =? y3)
  | VJsonb x, VJsonb y => zlist_eqb x y
  | VDecimal x1 x2, VDecimal y1 y2 => (x1 =? y1) && (x2 =? y2)
  | VEnum x1 x2, VEnum y1 y2 => (x1 =? y1) && (x2 =? y2)
  | VToast x, VToast y => zlist_eqb x y
  | _, _ => false
  end.
Fixpoint row_eqb (a b : list value) : bool :=
  match a, b with
  | [], [] => true
  | x :: a', y :: b' => value_eqb x y && row_eqb a' b'
  | _, _ => false
  end.

Definition bout_of (r : res (list Z)) : bout :=
  match r with Ok b => BHash (blen b) (bhash b) | Err => BErrO | Panic => BPanicO end.
Definition bout_eqb (a b : bout) : bool :=
  match a, b with
  | BHash n x, BHash m y => (n =? m) && (x =? y)
  | BErrO, BErrO => true
  | BPanicO, BPanicO => true
  | _, _ => false
  end.
(* [row] is what XSame stands for *)
Definition xout_agrees (row : list value) (m : res (list value)) (x : xout) : bool :=
  match m, x with
  | Ok r, XSame => row_eqb r row
  | Ok r, XRow r' => row_eqb r r'
  | Err, XErr => true
  | Panic, XPanic => true
  | _, _ => false
  end.

(* the reused builder: every earlier row went through build_record_into_buffer *)
Fixpoint run_hist (s : schema) (st : bstate) (hist : list (list value)) : option bstate :=
  match hist with
  | [] => Some st
  | r :: h =>
      match fst (build_record_into_buffer s st r) with
      | Some st' => run_hist s st' h
      | None => None
      end
  end.
Definition model_reused (s : schema) (hist : list (list value)) (row : list value) : res (list Z) :=
  match fresh s with
  | Ok st0 =>
      match run_hist s st0 hist with
      | Some st => snd (build_record_into_buffer s st row)
      | None => Panic
      end
  | _ => Panic
  end.

(* does the model reproduce the implementation on this case? *)
Definition model_agrees (c : case) : bool :=
  match c with
  | Row s hist row fo ro x =>
      let mf := build_fresh s row in
      bout_eqb (bout_of mf) fo &&
      bout_eqb (bout_of (model_reused s hist row)) (match ro with RSame => fo | ROther o => o end) &&
      match mf with
      | Ok b => xout_agrees row (extract s b) x
      | _ => match x with XNone => true | _ => false end
      end
  | View s data x => xout_agrees [] (extract s data) x
  end.

(* does the implementation's behaviour satisfy the property itself on this case?
   (uses only the property's vocabulary: schema_ok, fits_row) *)
Definition spec_ok (c : case) : bool :=
  match c with
  | Row s hist row fo ro x =>
      let reused_same :=
        match fo, ro with
        | _, RSame => true
        | BHash n h, ROther (BHash m k) => (n =? m) && (h =? k)
        | BHash _ _, ROther _ => false
        | _, ROther _ => true
        end in
      if schema_ok s && fits_row s row then
        match fo with
        | BHash _ _ =>
            reused_same && match x with XSame => true | XRow r => row_eqb r row | _ => false end
        | _ => false
        end
      else
        (* outside the property's domain only "reset = fresh" is demanded, when both built *)
        match fo, ro with BHash _ _, ROther (BHash _ _) => reused_same | _, _ => true end
  | View _ _ _ => true      (* arbitrary bytes: the property says nothing (C23's subject) *)
  end.

Definition known_class (c : case) : Z :=
  match c with
  | Row s _ row _ _ _ => Model.Record.known_class s row
  | View _ _ _ => 0
  end.

Fixpoint failures_from (i : Z) (cs : list case) : list (Z * bool * bool * Z) :=
  match cs with
  | [] => []
  | c :: t =>
      let m := model_agrees c in
      let s := spec_ok c in
      if m && s then failures_from (i + 1) t else (i, m, s, known_class c) :: failures_from (i + 1) t
  end.
Definition failures := failures_from 0.
