(* C18 -- Subqueries and set operations follow SQL semantics.
   Only statements: Theorem x : stmt. Proof. exact lemma. Qed. + Check pin + Print Assumptions,
   and non-vacuity examples at the end. *)
From Coq Require Import ZArith List Bool Arith.
From TV Require Import Model.SqlSpec Model.SubqSpec Model.SubqImpl Model.SubqWf Model.SubqClass.
From TV Require Import Proof.SetOpsBag Proof.SubqLaws Proof.SubqSelect Proof.SetOpsChain Proof.SubqMain Proof.SubqRefute.
Import ListNotations.

(* the reference table of a set operation has, for every row, exactly the multiplicity SQL defines *)
Theorem spec_op_has_defined_multiplicities : forall k all l r x,
  mult x (spec_op k all l r) = spec_mult k all (mult x l) (mult x r).
Proof. exact spec_op_mult. Qed.
Check spec_op_has_defined_multiplicities : forall k all l r x,
  mult x (spec_op k all l r) = spec_mult k all (mult x l) (mult x r).
Print Assumptions spec_op_has_defined_multiplicities.

(* every set operation of set_ops.rs -- UNION, INTERSECT, EXCEPT, each with and without ALL --
   returns the SQL-defined bag, for all operands (INTERSECT ALL / EXCEPT ALL since 432d38e) *)
Theorem set_ops_correct : forall k all l r, bag_eq (impl_op k all l r) (spec_op k all l r).
Proof. exact impl_op_correct. Qed.
Check set_ops_correct : forall k all l r, bag_eq (impl_op k all l r) (spec_op k all l r).
Print Assumptions set_ops_correct.

(* the former witnesses of the membership defect *)
Theorem intersect_except_all_repaired :
  impl_op KExcept true [[VInt 1]; [VInt 1]] [[VInt 1]] = [[VInt 1]] /\
  impl_op KIntersect true [[VInt 1]; [VInt 1]] [[VInt 1]] = [[VInt 1]].
Proof. exact all_variants_repaired. Qed.
Check intersect_except_all_repaired :
  impl_op KExcept true [[VInt 1]; [VInt 1]] [[VInt 1]] = [[VInt 1]] /\
  impl_op KIntersect true [[VInt 1]; [VInt 1]] [[VInt 1]] = [[VInt 1]].
Print Assumptions intersect_except_all_repaired.

(* the executable comparison used by the correspondence run decides bag equality *)
Theorem bag_check_decides_bag_equality : forall a b, bag_eqb a b = true <-> bag_eq a b.
Proof. exact bag_eqb_spec. Qed.
Check bag_check_decides_bag_equality : forall a b, bag_eqb a b = true <-> bag_eq a b.
Print Assumptions bag_check_decides_bag_equality.

(* comparing the standard and the right-associative reading of a chain on leaf NUMBERS decides whether they are the same tree *)
Theorem same_reading_decides_the_two_parses : forall (A : Type) (c : gchain A), same_reading c = true -> parse_std c = parse_right c.
Proof. exact (@same_reading_sound). Qed.
Check same_reading_decides_the_two_parses : forall (A : Type) (c : gchain A), same_reading c = true -> parse_std c = parse_right c.
Print Assumptions same_reading_decides_the_two_parses.

(* every tree of set operations over simple branches is evaluated as SQL defines (op_counted = True: no condition on the operators) *)
Theorem set_operation_trees_correct : forall widths db t,
  db_wf widths db = true -> tree_ok (leaf_simple widths) op_counted t ->
  match qeval db [] (qry_of_tree t) with
  | ROk b => exists a, impl_tree db t = MRows a /\ bag_eq a b
  | RUndef => True
  | RErr => False
  end.
Proof. exact tree_correct. Qed.
Check set_operation_trees_correct : forall widths db t,
  db_wf widths db = true -> tree_ok (leaf_simple widths) op_counted t ->
  match qeval db [] (qry_of_tree t) with
  | ROk b => exists a, impl_tree db t = MRows a /\ bag_eq a b
  | RUndef => True
  | RErr => False
  end.
Print Assumptions set_operation_trees_correct.

(* MAIN: every well-formed statement outside the recorded finding classes that the model covers returns the bag of rows SQL defines (EXISTS / NOT EXISTS / IN as semi / anti joins on the hash and the nested-loop path, scalar subqueries, FROM (subquery), chains of set operations) *)
Theorem statements_outside_finding_classes_correct : forall widths db (c : chain),
  db_wf widths db = true -> stmt_wf widths c = true -> stmt_class widths db c = 0%Z ->
  impl_stmt widths db c <> MUnm ->
  agree (impl_stmt widths db c) (qeval db [] (chain_qry c)).
Proof. exact class0_correct. Qed.
Check statements_outside_finding_classes_correct : forall widths db (c : chain),
  db_wf widths db = true -> stmt_wf widths c = true -> stmt_class widths db c = 0%Z ->
  impl_stmt widths db c <> MUnm ->
  agree (impl_stmt widths db c) (qeval db [] (chain_qry c)).
Print Assumptions statements_outside_finding_classes_correct.

(* every open finding class 2 .. 11 contains a statement that the faithful model answers wrongly *)
Theorem finding_classes_refuted : forall k, In k [2; 3; 4; 5; 6; 7; 8; 9; 10; 11]%Z -> exists w, refutes k w = true.
Proof. exact known_classes_refuted. Qed.
Check finding_classes_refuted : forall k, In k [2; 3; 4; 5; 6; 7; 8; 9; 10; 11]%Z -> exists w, refutes k w = true.
Print Assumptions finding_classes_refuted.

(* the witnesses of the repaired findings (F-C18-1, F-C18-7 first half, F-C18-12) are now answered as SQL defines *)
Theorem former_finding_classes_repaired :
  meets (fst (fst wit1)) (snd (fst wit1)) (snd wit1) = true /\
  meets (fst (fst wit7_old)) (snd (fst wit7_old)) (snd wit7_old) = true /\
  meets (fst (fst wit12)) (snd (fst wit12)) (snd wit12) = true /\
  impl_stmt (fst (fst wit12)) (snd (fst wit12)) (snd wit12) = MErr.
Proof. exact former_classes_repaired. Qed.
Check former_finding_classes_repaired :
  meets (fst (fst wit1)) (snd (fst wit1)) (snd wit1) = true /\
  meets (fst (fst wit7_old)) (snd (fst wit7_old)) (snd wit7_old) = true /\
  meets (fst (fst wit12)) (snd (fst wit12)) (snd wit12) = true /\
  impl_stmt (fst (fst wit12)) (snd (fst wit12)) (snd wit12) = MErr.
Print Assumptions former_finding_classes_repaired.

(* the executable form of `agree` *)
Theorem agreement_check_decides_agreement : forall ws db c, meets ws db c = true <-> agree (impl_stmt ws db c) (qeval db [] (chain_qry c)).
Proof. exact meets_agree. Qed.
Check agreement_check_decides_agreement : forall ws db c, meets ws db c = true <-> agree (impl_stmt ws db c) (qeval db [] (chain_qry c)).
Print Assumptions agreement_check_decides_agreement.

(* laws of the reference semantics: EXISTS *)
Theorem exists_true_iff_subquery_has_a_row : forall db env neg q t,
  qeval db env q = ROk t ->
  xeval db env (XExists neg q) = ROk (VBool (xorb neg (negb (is_nil t)))).
Proof. exact exists_iff_nonempty. Qed.
Check exists_true_iff_subquery_has_a_row : forall db env neg q t,
  qeval db env q = ROk t ->
  xeval db env (XExists neg q) = ROk (VBool (xorb neg (negb (is_nil t)))).
Print Assumptions exists_true_iff_subquery_has_a_row.

Theorem exists_is_never_unknown : forall db env neg q, xeval db env (XExists neg q) <> ROk VNull.
Proof. exact exists_never_unknown. Qed.
Check exists_is_never_unknown : forall db env neg q, xeval db env (XExists neg q) <> ROk VNull.
Print Assumptions exists_is_never_unknown.

(* scalar subqueries *)
Theorem scalar_subquery_without_row_is_null : forall db env q,
  qeval db env q = ROk [] -> xeval db env (XScalar q) = ROk VNull.
Proof. exact scalar_no_row_is_null. Qed.
Check scalar_subquery_without_row_is_null : forall db env q,
  qeval db env q = ROk [] -> xeval db env (XScalar q) = ROk VNull.
Print Assumptions scalar_subquery_without_row_is_null.

Theorem scalar_subquery_with_many_rows_is_error : forall db env q r1 r2 t,
  qeval db env q = ROk (r1 :: r2 :: t) -> xeval db env (XScalar q) = RErr.
Proof. exact scalar_many_rows_is_error. Qed.
Check scalar_subquery_with_many_rows_is_error : forall db env q r1 r2 t,
  qeval db env q = ROk (r1 :: r2 :: t) -> xeval db env (XScalar q) = RErr.
Print Assumptions scalar_subquery_with_many_rows_is_error.

(* IN is TRUE exactly on membership: a semi join is a sound reading of IN, NULLs or not *)
Theorem in_true_iff_some_element_equal : forall x ys,
  forallb (eq_def x) ys = true ->
  (in_vals x ys = Some TT <-> existsb (eq_tt x) ys = true).
Proof. exact in_true_iff_member. Qed.
Check in_true_iff_some_element_equal : forall x ys,
  forallb (eq_def x) ys = true ->
  (in_vals x ys = Some TT <-> existsb (eq_tt x) ys = true).
Print Assumptions in_true_iff_some_element_equal.

(* NOT IN is TRUE exactly when every element compares FALSE *)
Theorem not_in_true_iff_all_elements_differ : forall x ys,
  forallb (eq_def x) ys = true ->
  (opt_tv_neg true (in_vals x ys) = Some TT <-> forallb (eq_ff x) ys = true).
Proof. exact not_in_true_iff_all_differ. Qed.
Check not_in_true_iff_all_elements_differ : forall x ys,
  forallb (eq_def x) ys = true ->
  (opt_tv_neg true (in_vals x ys) = Some TT <-> forallb (eq_ff x) ys = true).
Print Assumptions not_in_true_iff_all_elements_differ.

(* NOT IN with a NULL among the elements is never TRUE *)
Theorem not_in_with_null_never_true : forall x ys,
  In VNull ys -> opt_tv_neg true (in_vals x ys) <> Some TT.
Proof. exact not_in_null_unknown. Qed.
Check not_in_with_null_never_true : forall x ys,
  In VNull ys -> opt_tv_neg true (in_vals x ys) <> Some TT.
Print Assumptions not_in_with_null_never_true.

(* NULL NOT IN (non-empty) is never TRUE *)
Theorem null_not_in_nonempty_never_true : forall ys, ys <> [] -> opt_tv_neg true (in_vals VNull ys) <> Some TT.
Proof. exact null_not_in_unknown. Qed.
Check null_not_in_nonempty_never_true : forall ys, ys <> [] -> opt_tv_neg true (in_vals VNull ys) <> Some TT.
Print Assumptions null_not_in_nonempty_never_true.

(* the anti-join reading of NOT IN is exact without NULLs ... *)
Theorem not_in_as_anti_join_when_null_free : forall x ys, all_int ys ->
  opt_tv_neg true (in_vals (VInt x) ys) = Some (tv_of_bool (anti_join_keeps (VInt x) ys)).
Proof. exact not_in_as_antijoin. Qed.
Check not_in_as_anti_join_when_null_free : forall x ys, all_int ys ->
  opt_tv_neg true (in_vals (VInt x) ys) = Some (tv_of_bool (anti_join_keeps (VInt x) ys)).
Print Assumptions not_in_as_anti_join_when_null_free.

(* ... and wrong with them *)
Theorem anti_join_unsound_with_null : (anti_join_keeps (VInt 3) [VInt 1; VNull] = true /\ opt_tv_neg true (in_vals (VInt 3) [VInt 1; VNull]) = Some UU) /\
  (anti_join_keeps VNull [VInt 1] = true /\ opt_tv_neg true (in_vals VNull [VInt 1]) = Some UU).
Proof. exact antijoin_unsound_with_null. Qed.
Check anti_join_unsound_with_null : (anti_join_keeps (VInt 3) [VInt 1; VNull] = true /\ opt_tv_neg true (in_vals (VInt 3) [VInt 1; VNull]) = Some UU) /\
  (anti_join_keeps VNull [VInt 1] = true /\ opt_tv_neg true (in_vals VNull [VInt 1]) = Some UU).
Print Assumptions anti_join_unsound_with_null.

(* ------------------------------------------------------------------ non-vacuity *)
(* well-formed, class-0, model-covered statements of every form: [NOT] EXISTS (hash / nested loop),
   IN (hash / nested loop / correlated), scalar subqueries, FROM (subquery) twice nested, set
   operations -- and the model's answer on them IS the reference's *)
Example main_theorem_hypotheses_satisfiable :
  forallb covered [ex_hash; nex_nl; in_hash; in_nl; in_corr; sc_one; from2; set1; set2] = true.
Proof. exact class0_inhabited. Qed.
Example eq_def_inhabited : forallb (eq_def (VInt 1)) [VInt 1; VNull; VInt 2] = true.
Proof. reflexivity. Qed.
Example all_int_inhabited : all_int [VInt 1; VInt 2].
Proof. intros y [H|[H|[]]]; subst; eexists; reflexivity. Qed.
Example tree_ok_inhabited : tree_ok (leaf_simple [3%nat; 3%nat]) op_counted
  (TNode KUnion false (TLeaf (leaf 0 1)) (TNode KExcept false (TLeaf (leaf 1 1)) (TLeaf (leaf 0 2)))).
Proof. cbn [tree_ok]. unfold op_counted, leaf_simple. repeat split; auto. Qed.
