(* C16: (a) each class that is still open contains a query that the faithful model answers wrongly
   (the witnesses of known_findings.d/C16.json, run on the real Database by every check);
   (b) the witnesses of the classes repaired in /repo are now answered as the reference demands. *)
From Coq Require Import ZArith List Bool.
From TV Require Import Model.SqlSpecAgg Model.AggImpl Model.AggClass Model.AggJoin.
Import ListNotations.
Open Scope Z_scope.

(* the model returns rows that are not the rows the reference demands *)
Definition wrong_rows (q : aquery) (t : table) : Prop :=
  exists ms rs, model_query q t = MRows ms /\ spec_query q t = SRows rs /\ bag_equiv rs ms = false.
(* the model returns exactly the rows the reference demands *)
Definition right_rows (q : aquery) (t : table) (rs : list row) : Prop :=
  model_query q t = MRows rs /\ spec_query q t = SRows rs.

(* ------------------------------------------------------------------ repaired *)
Definition t_count : table := [[VInt 1; VInt 1]; [VInt 2; VNull]].
Definition q_count := mkQ None [] [mkAgg FCount (ECol 1)] [0%nat] None.
Definition t_sum : table := [[VInt 1; VNull]].
Definition q_sum := mkQ None [] [mkAgg FSum (ECol 1)] [0%nat] None.
Definition t_ovf : table := [[VInt 1; VInt 9223372036854775807]; [VInt 2; VInt 1]].
Definition t_text : table := [[VInt 1; VText [97]]; [VInt 2; VText [98]]].
Definition q_min := mkQ None [] [mkAgg FMin (ECol 1)] [0%nat] None.
Definition t_two : table := [[VInt 1; VInt 10]; [VInt 2; VInt 20]].
Definition q_arg := mkQ None [] [mkAgg FSum (EArith AAdd (ECol 1) (ELit (VInt 1)))] [0%nat] None.
Definition q_key := mkQ None [EArith AAdd (ECol 1) (ELit (VInt 1))] [mkAgg FCountStar (ECol 0)] [0%nat; 1%nat] None.
Definition t_nk : table := [[VInt 1; VNull; VInt 5]; [VInt 2; VInt 5; VNull]].
Definition q_nk := mkQ None [EArith AAdd (ECol 1) (ELit (VInt 0)); EArith AAdd (ECol 2) (ELit (VInt 0))]
                       [mkAgg FCountStar (ECol 0)] [2%nat] None.
Definition t_hav : table := [[VInt 1; VInt 1]; [VInt 2; VInt 1]; [VInt 3; VInt 2]].
Definition q_hav := mkQ None [ECol 1] [mkAgg FCountStar (ECol 0)] [0%nat] (Some (ECmp CGt (ECol 1) (ELit (VInt 1)))).

(* COUNT(c1) skips the NULL; SUM over NULLs only / over nothing is NULL; SUM beyond i64 is an error;
   MIN over text; SUM(c1 + 1); GROUP BY c1 + 1 shows the key and keeps (NULL, 5) and (5, NULL) apart;
   HAVING COUNT( * ) > 1 without COUNT( * ) in the select list *)
Lemma former_classes_repaired_l :
  right_rows q_count t_count [[VInt 1]] /\
  right_rows q_sum t_sum [[VNull]] /\ right_rows q_sum [] [[VNull]] /\
  (model_query q_sum t_ovf = MErr /\ spec_query q_sum t_ovf = SError) /\
  right_rows q_min t_text [[VText [97]]] /\
  right_rows q_arg t_two [[VInt 32]] /\
  right_rows q_key t_two [[VInt 11; VInt 1]; [VInt 21; VInt 1]] /\
  right_rows q_nk t_nk [[VInt 1]; [VInt 1]] /\
  right_rows q_hav t_hav [[VInt 1]] /\
  q_class q_count t_count = 0 /\ q_class q_sum t_sum = 0 /\ q_class q_min t_text = 0 /\
  q_class q_arg t_two = 0 /\ q_class q_key t_two = 0 /\ q_class q_hav t_hav = 0.
Proof. unfold right_rows. repeat split; vm_compute; reflexivity. Qed.

(* ------------------------------------------------------------------ still open *)
Definition t_name : table := [[VInt 1; VNull]; [VInt 2; VNull]; [VInt 3; VInt 5]].
Definition q_name := mkQ None [] [mkAgg FCount (EArith AAdd (ECol 1) (ELit (VInt 0))); mkAgg FCountStar (ECol 0)]
                         [0%nat; 1%nat] (Some (ECmp CGt (ECol 0) (ELit (VInt 1)))).
(* HAVING COUNT(c1 + 0) > 1 reads the slot named `count`, which is COUNT( * ) = 3: the group is kept *)
Lemma agg_name_refuted_l : q_class q_name t_name = 9 /\ wrong_rows q_name t_name /\ model_query q_name t_name = MRows [[VInt 1; VInt 3]].
Proof. split; [reflexivity|split; [|reflexivity]]. exists [[VInt 1; VInt 3]], []. repeat split; vm_compute; reflexivity. Qed.

Definition q_hkey := mkQ None [EArith AAdd (ECol 1) (ELit (VInt 1))] [mkAgg FCountStar (ECol 0)] [0%nat; 1%nat]
                         (Some (ECmp CGt (ECol 0) (ELit (VInt 1)))).
(* GROUP BY c1 + 1 HAVING c1 + 1 > 1 keeps no group *)
Lemma having_key_refuted_l : q_class q_hkey t_two = 10 /\ wrong_rows q_hkey t_two /\ model_query q_hkey t_two = MRows [].
Proof. split; [reflexivity|split; [|reflexivity]]. exists [], [[VInt 11; VInt 1]; [VInt 21; VInt 1]]. repeat split; vm_compute; reflexivity. Qed.

(* ------------------------------------------------------------------ the hand-written path for aggregates over a join *)
Definition jl : table := [[VInt 1; VInt 1]; [VInt 2; VInt 1]].
Definition jr : table := [[VInt 1; VInt 1; VInt 10]].
Definition q_join := mkQ None [ECol 1] [mkAgg FCountStar (ECol 0)] [0%nat; 1%nat] None.
(* SELECT t.c1, COUNT( * ) FROM t JOIN u ON t.c1 = u.c1 GROUP BY t.c1: one group (1, 2) is demanded;
   the hand-written path groups the PROJECTED rows by their second entry (t.id, which stands in for
   COUNT( * )) and returns (1, 1), (2, 1) *)
Lemma join_agg_refuted_l :
  spec_join_query jl jr 1 1 q_join = SRows [[VInt 1; VInt 2]] /\
  model_join_query jl jr 1 1 q_join = MRows [[VInt 1; VInt 1]; [VInt 2; VInt 1]].
Proof. split; vm_compute; reflexivity. Qed.
(* ... and without any joined row it returns no row where COUNT( * ) = 0 is demanded *)
Lemma join_agg_empty_refuted_l :
  spec_join_query jl [] 1 1 (mkQ None [] [mkAgg FCountStar (ECol 0)] [0%nat] None) = SRows [[VInt 0]] /\
  model_join_query jl [] 1 1 (mkQ None [] [mkAgg FCountStar (ECol 0)] [0%nat] None) = MRows [].
Proof. split; vm_compute; reflexivity. Qed.
