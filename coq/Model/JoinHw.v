(* C17 implementation model, part 2: the hand-written join path of Database::query
   (src/database/database.rs, PlanSource::{NestedLoopJoin, GraceHashJoin, StreamingHashJoin} arm)
   for a join of TWO base tables, and the finding classes of the SQL-level cases.
   Definitions only; proofs in Proof/JoinHw.v.

   State of the code modelled: /repo after the join repairs b0661ca, 0005072, 2cb4862, 07d36f7,
   5934993, 755317f, ea8e0e0, dff11cf (former finding classes 1, 2, 4, 8, 10 and the residual-conjunct
   part of class 3 are gone; see known_findings.d/C17.json).

   What the code does:
   * plan (src/sql/planner/convert.rs is_pure_equi_join): a hash join is planned only when the ON
     condition is a conjunction of `column = column` equalities and nothing else -- and, when the
     columns are table-qualified, only when every equality pairs a left with a right column.
     Otherwise the plan is a nested loop with the whole ON condition (CompiledPredicate:
     Model/PredImpl.v eval_expr).  With BARE column names the planner cannot tell the sides apart:
     database.rs (key_indices) then keeps the left-right pairs as hash keys and tests an equality
     between two columns of the same input on the joined row (same_side_keys, since 824c6c8) with
     owned_values_equal_with_coercion.
   * hash path: rows with a NULL key are skipped; build table on DefaultHasher over
     hash_owned_value_normalized (Int hashed as its f64 bit pattern, Float by its bit pattern with
     -0.0 folded onto 0.0), candidates confirmed by owned_values_equal_with_coercion.  The hash is
     modelled as injective on the normalised key (no SipHash collision).
   * both paths: a pair that passes the key / ON test marks both rows as matched (outer joins), the
     WHERE predicate then filters the joined row; LEFT / FULL emit the unmatched left rows and
     RIGHT / FULL the unmatched right rows NULL-padded, each filtered by WHERE as well.  As a bag:
     WHERE (join ON').  Predicate pushdown (qualified names) only moves a WHERE conjunct onto an
     input where that is an equivalence, so it is not visible in the bag.
   * SELECT * projects every column of the joined row.
   * the memory budget (PRAGMA join_memory_budget) is stored and never read by this path.
   Not modelled (black box, judged against the reference only): joins of three or more tables
   (execute_nested_join_recursive / execute_hash_join_recursive). *)
From Coq Require Import ZArith List Bool.
From TV Require Import Model.SqlSpec Model.PredImpl Model.JoinSpec Model.JoinExec.
Import ListNotations.
Open Scope Z_scope.

(* ------------------------------------------------------------------ plan: keys of the ON condition *)
Fixpoint conjuncts (e : expr) : list expr :=
  match e with EAnd a b => conjuncts a ++ conjuncts b | _ => [e] end.
Definition key_of (c : expr) : option (nat * nat) :=
  match c with ECmp CEq (ECol i) (ECol j) => Some (i, j) | _ => None end.
Definition is_key (c : expr) : bool := match key_of c with Some _ => true | None => false end.
(* JoinAnalyzer::collect_equi_join_keys *)
Definition equi_keys (e : expr) : list (nat * nat) :=
  flat_map (fun c => match key_of c with Some k => [k] | None => [] end) (conjuncts e).
(* database.rs key_indices: (left column, right column relative to the right table) *)
Definition cross_key (lw : nat) (k : nat * nat) : list (nat * nat) :=
  let (i, j) := k in
  if (i <? lw)%nat && negb (j <? lw)%nat then [(i, (j - lw)%nat)]
  else if (j <? lw)%nat && negb (i <? lw)%nat then [(j, (i - lw)%nat)]
  else [].
Definition cross_keys (lw : nat) (ks : list (nat * nat)) : list (nat * nat) := flat_map (cross_key lw) ks.
(* a conjunct that survives planning as a key *)
Definition is_cross_key (lw : nat) (c : expr) : bool :=
  match key_of c with Some k => negb (is_nil (cross_key lw k)) | None => false end.

(* ------------------------------------------------------------------ hash path *)
(* `i as f64` as a bit pattern *)
Definition f64_bits_of_int (x : Z) : Z :=
  let v := round53 x in
  if v =? 0 then 0 else
  let a := Z.abs v in
  let e := Z.log2 a in
  let m := if e <=? 52 then a * 2 ^ (52 - e) else a / 2 ^ (e - 52) in
  (if v <? 0 then 2 ^ 63 else 0) + (e + 1023) * 2 ^ 52 + (m - 2 ^ 52).

(* The normalised key that hash_owned_value_normalized feeds to the hasher, up to what the hash can
   distinguish: a number is hashed as the bit pattern of an f64 (Int through `as f64`, -0.0 folded
   onto 0.0), and two finite f64 have the same folded pattern exactly when they have the same value;
   NV carries that value (scaled by 2^1074, Model/SqlSpec.v f_scaled).  Non-finite floats keep
   their pattern. *)
Inductive nkey := NV (scaled : Z) | NF (bits : Z) | NT (s : list Z) | NB (b : bool) | NNull.
Definition norm_key (v : value) : nkey :=
  match v with
  | VNull => NNull
  | VInt i => NV (int_scaled (round53 i))
  | VFloat b => if f_finite b then NV (f_scaled b) else NF b
  | VText s => NT s
  | VBool b => NB b
  end.
Definition nkey_eqb (a b : nkey) : bool :=
  match a, b with
  | NV x, NV y => x =? y
  | NF x, NF y => x =? y
  | NT x, NT y => zlist_eqb' x y
  | NB x, NB y => Bool.eqb x y
  | NNull, NNull => true
  | _, _ => false
  end.
(* owned_values_equal_with_coercion *)
Definition equal_coerce (a b : value) : bool :=
  match a, b with
  | VNull, _ | _, VNull => false
  | VInt x, VInt y => x =? y
  | VFloat x, VFloat y => match f_partial_cmp x y with Some Eq => true | _ => false end
  | VInt x, VFloat y => match if_partial_cmp x y with Some Eq => true | _ => false end
  | VFloat x, VInt y => match if_partial_cmp y x with Some Eq => true | _ => false end
  | VText x, VText y => zlist_eqb' x y
  | VBool x, VBool y => Bool.eqb x y
  | _, _ => false
  end.
Definition null_key (r : row) (idx : list nat) : bool :=
  existsb (fun i => match nth_error r i with Some VNull | None => true | _ => false end) idx.
Definition hw_key_match (ks : list (nat * nat)) (l r : row) : bool :=
  negb (null_key l (map fst ks)) && negb (null_key r (map snd ks)) &&
  forallb (fun k => match nth_error l (fst k), nth_error r (snd k) with
                    | Some a, Some b => nkey_eqb (norm_key a) (norm_key b) && equal_coerce a b
                    | _, _ => false
                    end) ks.

(* ------------------------------------------------------------------ the two-table path *)
Definition ev (e : expr) (r : row) : bool := match eval_expr e r with PredImpl.Ok b => b | _ => false end.
Definition ev_status (e : expr) (rows : table) : Z :=
  fold_left (fun acc r => match eval_expr e r with PredImpl.Ok _ => acc | PredImpl.Panic => Z.max acc 2 | PredImpl.Unmod => Z.max acc 1 end) rows 0.

Definition pairs_of (L R : table) : table := flat_map (fun l => map (fun r => l ++ r) R) L.

(* the ON condition is nothing but `column = column` equalities *)
Definition pure_equi (e : expr) : bool := forallb is_key (conjuncts e).
(* does the plan use the hash path?  qual = the harness printed table-qualified column names *)
Definition hash_plan (lw : nat) (qual : bool) (e : expr) : bool :=
  pure_equi e && (negb qual || forallb (is_cross_key lw) (conjuncts e)).

(* the `column = column` conjuncts whose two columns belong to the same input (indices into the joined row) *)
Definition same_keys (lw : nat) (ks : list (nat * nat)) : list (nat * nat) := filter (fun k => is_nil (cross_key lw k)) ks.
Definition same_side_match (ss : list (nat * nat)) (joined : row) : bool :=
  forallb (fun k => match nth_error joined (fst k), nth_error joined (snd k) with
                    | Some a, Some b => equal_coerce a b
                    | _, _ => false
                    end) ss.

(* the test a pair has to pass to count as matched *)
Definition hw_cond (lw : nat) (qual : bool) (on : option expr) (l r : row) : bool :=
  match on with
  | None => true
  | Some e =>
      if hash_plan lw qual e
      then let ks := cross_keys lw (equi_keys e) in
           (if is_nil ks then true else hw_key_match ks l r) && same_side_match (same_keys lw (equi_keys e)) (l ++ r)
      else ev e (l ++ r)
  end.
Definition is_some {X} (o : option X) : bool := match o with Some _ => true | None => false end.

Inductive hout := HRows (t : table) | HPanic | HUnmod | HBlack | HErr.

(* the predicates the path really evaluates (for the Panic / not-modelled status) *)
Definition hw_status (lw : nat) (qual : bool) (on : option expr) (w : option expr) (joined : table) (L R : table) : Z :=
  let s1 := match on with Some e => if hash_plan lw qual e then 0 else ev_status e (pairs_of L R) | None => 0 end in
  let s2 := match w with Some e => ev_status e joined | None => 0 end in
  Z.max s1 s2.

Definition hw2 (jt : jtype) (lw rw : nat) (qual : bool) (on : option expr) (w : option expr) (sel : option (list nat)) (L R : table) : hout :=
  let on' := opt_on jt on in
  let joined := join_rows jt lw rw (hw_cond lw qual on') L R in
  match hw_status lw qual on' w joined L R with
  | 0 =>
      let kept := match w with Some e => filter (ev e) joined | None => joined end in
      match project_all sel kept with
      | Some t => HRows t
      | None => HUnmod
      end
  | 1 => HUnmod
  | _ => HPanic
  end.

Definition hw_model (q : query) (qual : bool) : hout :=
  match q_tabs q, q_joins q with
  | [(lw, L); (rw, R)], [(jt, on)] => hw2 jt lw rw qual on (q_where q) (q_sel q) L R
  | _, _ => HBlack
  end.

(* ------------------------------------------------------------------ finding classes of the SQL-level cases *)
(* open (joins of three or more tables only; two-table joins have no open class):
   5: three or more tables, a WHERE clause and table-qualified names (the filter pushed below a nested
      join is ignored by execute_nested_join_recursive)
   6: three or more tables and a `column = column` conjunct in some ON (nested hash joins are not executed)
   7: three or more tables and an outer join other than a LEFT join in last position:
      execute_nested_join_recursive runs every nested join as an inner join, and a final RIGHT / FULL
      join pads its unmatched rows by the width of the first nested row
   fixed in /repo (kept as regression witnesses): 1 hash executors and Int / Float keys, 2 SELECT *,
   3 ON conjuncts beside a key / same-side equalities dropped, 4 WHERE over an outer join,
   8 keys 0.0 / -0.0, 10 predicate pushdown / join reordering under table-qualified WHERE.  *)
Definition any_outer (js : list (jtype * option expr)) : bool :=
  existsb (fun j => left_outer (fst j) || right_outer (fst j)) js.
Definition any_equi (js : list (jtype * option expr)) : bool :=
  existsb (fun j => match opt_on (fst j) (snd j) with Some e => negb (is_nil (equi_keys e)) | None => false end) js.

Definition cls_sql (q : query) (qual : bool) : Z :=
  match q_tabs q, q_joins q with
  | [_; _], [_] => 0
  | _, js =>
      if is_some (q_where q) && qual then 5
      else if any_equi js then 6
      else if any_outer (removelast js) || right_outer (fst (last js (JInner, None))) then 7
      else 0
  end.
