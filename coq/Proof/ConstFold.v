(* Soundness of the constant-folding model (Model/ConstFold.v) against the reference semantics:
   whatever try_fold_filter_predicate answers is true of the predicate on every row where the
   predicate has a truth value, so replacing the filter as fold_plan does never changes the
   result.  Also: the tempting rule `x = x  -->  TRUE` would NOT be sound (x may be NULL), and the
   model (like the code) does not apply it. *)
From Coq Require Import ZArith List Bool Lia.
From TV Require Import Model.SqlSpec Proof.SqlSpecLaws Model.QuerySpec Proof.QueryExprLaws Proof.QueryLawsBase Model.ConstFold.
Import ListNotations.
Open Scope Z_scope.

Lemma ast_literal_lit : forall e v, ast_literal e = Some v -> e = ELit v.
Proof.
  intros e v H. destruct e as [|w| | | | | | | | |]; try discriminate. cbn in H.
  destruct w; try (injection H as <-; reflexivity).
  - destruct (z <? 0); [discriminate|]. now injection H as <-.
  - destruct (f_sign bits =? 0); [|discriminate]. now injection H as <-.
Qed.

Lemma b2z_compare : forall a b, (Z.b2z a ?= Z.b2z b) = Eq <-> a = b.
Proof. intros [] []; cbn; split; intros H; congruence. Qed.

(* a decided literal comparison is what the reference semantics computes *)
Lemma literals_equal_sound : forall l r eq, literals_equal l r = Some eq ->
  cmp3 CEq l r = Some (tv_of_bool eq) /\ cmp3 CNe l r = Some (tv_of_bool (negb eq)).
Proof.
  intros l r eq H. destruct l, r; try discriminate; cbn in H.
  - (* integers *) destruct (i64_ok z && i64_ok z0); [|discriminate]. injection H as <-.
    unfold cmp3. cbn. destruct (Z.compare_spec z z0) as [E|E|E].
    + subst. rewrite Z.eqb_refl. split; reflexivity.
    + assert (N : (z =? z0) = false) by (apply Z.eqb_neq; lia). rewrite N. split; reflexivity.
    + assert (N : (z =? z0) = false) by (apply Z.eqb_neq; lia). rewrite N. split; reflexivity.
  - (* text *) injection H as <-. unfold cmp3. cbn.
    destruct (zlist_eqb' s s0) eqn:E.
    + apply zlist_eqb'_eq in E. subst. assert (B : bytes_cmp s0 s0 = Eq) by now apply bytes_cmp_eq. rewrite B. split; reflexivity.
    + destruct (bytes_cmp s s0) eqn:B.
      * apply bytes_cmp_eq in B. subst. assert (T : zlist_eqb' s0 s0 = true) by now apply zlist_eqb'_eq. congruence.
      * split; reflexivity.
      * split; reflexivity.
  - (* booleans *) injection H as <-. unfold cmp3. cbn.
    destruct b, b0; cbn; split; reflexivity.
Qed.

Definition fold_inv (e : expr) : Prop :=
  match fold e with
  | Some FdTrue => forall r t, sem3 e r = Some t -> t = TT
  | Some FdFalse => forall r t, sem3 e r = Some t -> t = FF
  | Some (FdSimp q) => (forall r, sem3 e r <> None -> sem3 q r = sem3 e r) /\ fold q = None
  | None => True
  end.

Lemma sem3_and_some : forall a b r t, sem3 (EAnd a b) r = Some t ->
  exists x y, sem3 a r = Some x /\ sem3 b r = Some y /\ t = tv_and x y.
Proof.
  intros a b r t H. rewrite sem3_and in H. destruct (sem3 a r) as [x|], (sem3 b r) as [y|]; try discriminate.
  injection H as <-. eauto.
Qed.
Lemma sem3_or_some : forall a b r t, sem3 (EOr a b) r = Some t ->
  exists x y, sem3 a r = Some x /\ sem3 b r = Some y /\ t = tv_or x y.
Proof.
  intros a b r t H. rewrite sem3_or in H. destruct (sem3 a r) as [x|], (sem3 b r) as [y|]; try discriminate.
  injection H as <-. eauto.
Qed.

Theorem fold_sound : forall e, fold_inv e.
Proof.
  induction e; unfold fold_inv in *; cbn [fold]; try exact I.
  - (* literal *) destruct v as [| | | |[]]; try exact I; intros r t H; unfold sem3 in H; cbn in H; congruence.
  - (* comparison *) destruct op; try exact I.
    + destruct (ast_literal e1) as [l|] eqn:A; [|exact I]. destruct (ast_literal e2) as [r0|] eqn:B; [|exact I].
      apply ast_literal_lit in A, B. subst. destruct (literals_equal l r0) as [eq|] eqn:L; [|exact I].
      destruct (literals_equal_sound _ _ _ L) as [Q _]. cbn [of_eq].
      destruct eq; cbn; intros r t H; rewrite sem3_cmp in H; cbn [eval] in H; rewrite Q in H; cbn in H; congruence.
    + destruct (ast_literal e1) as [l|] eqn:A; [|exact I]. destruct (ast_literal e2) as [r0|] eqn:B; [|exact I].
      apply ast_literal_lit in A, B. subst. destruct (literals_equal l r0) as [eq|] eqn:L; [|exact I].
      destruct (literals_equal_sound _ _ _ L) as [_ Q]. cbn [of_eq].
      destruct eq; cbn; intros r t H; rewrite sem3_cmp in H; cbn [eval] in H; rewrite Q in H; cbn in H; congruence.
  - (* AND *)
    destruct (fold e1) as [[| |q1]|] eqn:F1, (fold e2) as [[| |q2]|] eqn:F2; try exact I;
      try (intros r t H; apply sem3_and_some in H as (x & y & Hx & Hy & ->);
           try (rewrite (IHe1 _ _ Hx)); try (rewrite (IHe2 _ _ Hy)); try reflexivity; now destruct x).
    + (* TRUE AND b *) split; [|assumption]. intros r H. rewrite sem3_and in *.
      destruct (sem3 e1 r) as [x|] eqn:Hx; [|now destruct (sem3 e2 r)]. rewrite (IHe1 _ _ Hx). now destruct (sem3 e2 r) as [[]|].
    + (* a AND TRUE *) split; [|assumption]. intros r H. rewrite sem3_and in *.
      destruct (sem3 e2 r) as [y|] eqn:Hy; [|destruct (sem3 e1 r); cbn in H; congruence]. rewrite (IHe2 _ _ Hy). now destruct (sem3 e1 r) as [[]|].
  - (* OR *)
    destruct (fold e1) as [[| |q1]|] eqn:F1, (fold e2) as [[| |q2]|] eqn:F2; try exact I;
      try (intros r t H; apply sem3_or_some in H as (x & y & Hx & Hy & ->);
           try (rewrite (IHe1 _ _ Hx)); try (rewrite (IHe2 _ _ Hy)); try reflexivity; now destruct x).
    + (* FALSE OR b *) split; [|assumption]. intros r H. rewrite sem3_or in *.
      destruct (sem3 e1 r) as [x|] eqn:Hx; [|now destruct (sem3 e2 r)]. rewrite (IHe1 _ _ Hx). now destruct (sem3 e2 r) as [[]|].
    + (* a OR FALSE *) split; [|assumption]. intros r H. rewrite sem3_or in *.
      destruct (sem3 e2 r) as [y|] eqn:Hy; [|destruct (sem3 e1 r); cbn in H; congruence]. rewrite (IHe2 _ _ Hy). now destruct (sem3 e1 r) as [[]|].
  - (* NOT *)
    destruct (fold e) as [[| |q]|] eqn:F; try exact I; intros r t H; rewrite sem3_not in H;
      destruct (sem3 e r) as [x|] eqn:Hx; try discriminate; injection H as <-; now rewrite (IHe _ _ Hx).
Qed.

(* a second application of the rule leaves a simplified predicate alone *)
Corollary fold_simp_stable : forall e q, fold e = Some (FdSimp q) -> fold q = None.
Proof. intros e q H. pose proof (fold_sound e) as S. unfold fold_inv in S. rewrite H in S. apply S. Qed.

(* what one application of the rule does to a filter is right on every row where the predicate
   has a truth value (this is what spec_ok demands of the REAL rule in the Fold cases) *)
Theorem fold_step_sound : forall e r v, sem3 e r = Some v ->
  match fold_step e with
  | FRemoved => v = TT
  | FFalse => tv_is_true v = false
  | FSimp q => passes q r = tv_is_true v
  | FNoChange | FOther => True
  end.
Proof.
  intros e r v H. pose proof (fold_sound e) as S. unfold fold_inv in S. unfold fold_step.
  destruct (fold e) as [[| |q]|]; try exact I.
  - exact (S _ _ H).
  - destruct (is_lit_false e); [exact I|]. now rewrite (S _ _ H).
  - destruct S as [S _]. unfold passes. rewrite S by congruence. rewrite H. now destruct v.
Qed.

(* const_fold_sound: the folded filter keeps exactly the same rows *)
Lemma filter_all_true : forall {A} (p : A -> bool) l, (forall x, In x l -> p x = true) -> filter p l = l.
Proof.
  induction l as [|x l IH]; intros H; cbn; [reflexivity|].
  rewrite (H x (or_introl eq_refl)), IH; [reflexivity|]. intros y Hy. apply H. now right.
Qed.

Theorem const_fold_sound : forall e t, defined_on e t = true ->
  where_rows (effective e) t = filter_spec e t.
Proof.
  intros e t D. unfold filter_spec, effective.
  pose proof (fold_sound e) as S. unfold fold_inv in S.
  assert (Def : forall r, In r t -> exists v, sem3 e r = Some v).
  { intros r Hr. unfold defined_on in D. rewrite forallb_forall in D. specialize (D r Hr).
    destruct (sem3 e r); [eauto|discriminate]. }
  destruct (fold e) as [[| |q]|]; cbn [where_rows].
  - symmetry. apply filter_all_true. intros r Hr. destruct (Def r Hr) as [v Hv].
    unfold passes. rewrite Hv, (S _ _ Hv). reflexivity.
  - apply filter_ext_in'. intros r Hr. destruct (Def r Hr) as [v Hv].
    unfold passes at 2. rewrite Hv, (S _ _ Hv). reflexivity.
  - destruct S as [S _]. apply filter_ext_in'. intros r Hr. destruct (Def r Hr) as [v Hv].
    unfold passes. rewrite S by congruence. reflexivity.
  - reflexivity.
Qed.

(* folding x = x to TRUE would be wrong: for a NULL x the comparison is UNKNOWN, the row must go *)
Theorem self_equality_is_not_true :
  exists x r, sem3 (ECmp CEq x x) r = Some UU /\ passes (ECmp CEq x x) r = false.
Proof. exists (ECol 0), [VNull]. split; reflexivity. Qed.
(* ... and the rule does not do it *)
Theorem self_equality_not_folded : forall i, fold (ECmp CEq (ECol i) (ECol i)) = None.
Proof. reflexivity. Qed.
(* x AND FALSE is folded, soundly: no row passes it *)
Theorem and_false_folded : forall x r, fold (EAnd x (ELit (VBool false))) = Some FdFalse /\ passes (EAnd x (ELit (VBool false))) r = false.
Proof.
  intros x r. split.
  - cbn [fold]. destruct (fold x) as [[]|]; reflexivity.
  - unfold passes. rewrite sem3_and. destruct (sem3 x r) as [[]|]; reflexivity.
Qed.
