(* C18 correspondence: judge what the harness observed on the real Database for one statement
   (a SELECT with subqueries, or a chain of set operations) against (a) the implementation model
   Model/SubqImpl.v (model_agrees) and (b) the reference semantics Model/SubqSpec.v, i.e. the
   property itself (spec_ok).  Evaluated by vm_compute; definitions only. *)
From Coq Require Import ZArith List Bool.
From TV Require Export Model.SqlSpec Model.SubqSpec Model.SubqImpl Model.SubqClass.
Import ListNotations.
Open Scope Z_scope.

(* what Database::query returned: the rows (the order is not judged), an error, a panic, or rows
   of a shape the harness cannot print (never expected) *)
Inductive aout := ARows (rs : list row) | AErr | APanic | ABad.

(* the tables t0, t1, ... (column counts and rows) and the statement as written *)
Inductive case := Case (widths : list nat) (db : list table) (c : chain) (o : aout).

(* does the model reproduce the implementation on this case?  Where the model does not cover the
   statement (MUnm) there is nothing to compare: only spec_ok judges the case. *)
Definition model_agrees (c : case) : bool :=
  match c with
  | Case ws db ch o =>
      match impl_stmt ws db ch, o with
      | MRows ms, ARows rs => bag_eqb ms rs
      | MErr, AErr => true
      | MUnm, (ARows _ | AErr) => true
      | _, _ => false
      end
  end.

(* does the implementation's behaviour satisfy the property itself on this case?  A panic never
   does; where the reference makes no demand anything else is accepted; where it defines rows,
   the cardinality error of an uncorrelated scalar subquery evaluated up front is accepted too
   (Model/SubqSpec.v eager_error). *)
Definition spec_ok (c : case) : bool :=
  match c with
  | Case ws db ch o =>
      match o with
      | APanic | ABad => false
      | _ =>
          match qeval db [] (chain_qry ch) with
          | RUndef => true
          | RErr => match o with AErr => true | _ => false end
          | ROk rs =>
              match o with
              | ARows os => bag_eqb rs os
              | AErr => match snd ch with [] => eager_error db (fst ch) | _ => false end
              | _ => false
              end
          end
      end
  end.

(* the recorded finding class of the case (Model/SubqClass.v); 0 = none *)
Definition known_class (c : case) : Z :=
  match c with
  | Case ws db ch _ =>
      let k := stmt_class ws db ch in
      if k =? 12 then 0 else k      (* 12: repaired (855697d), a side condition of the theorem only *)
  end.

(* statements the implementation model does not cover (counted by the harness as well) *)
Definition is_unmodelled (c : case) : bool :=
  match c with Case ws db ch _ => match impl_stmt ws db ch with MUnm => true | _ => false end end.
Definition count_unmodelled (cs : list case) : Z := Z.of_nat (length (filter is_unmodelled cs)).

Fixpoint failures_from (i : Z) (cs : list case) : list (Z * bool * bool * Z) :=
  match cs with
  | [] => []
  | c :: t =>
      let m := model_agrees c in
      let s := spec_ok c in
      if m && s then failures_from (i + 1) t else (i, m, s, known_class c) :: failures_from (i + 1) t
  end.
Definition failures := failures_from 0.
