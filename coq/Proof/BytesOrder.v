(* C32 proofs: the byte-lexicographic order (str::cmp) is a total order; the model's insertion sort
   sorts, is a permutation, is stable, and commutes with key-preserving maps. *)
From Coq Require Import ZArith List Bool Lia Sorting.Permutation Sorting.Sorted.
From TV Require Import Lib.MachInt Model.Jsonb.
Import ListNotations.
Open Scope Z_scope.

Lemma cmp_refl a : bytes_cmp a a = Eq.
Proof. induction a as [|x a IH]; cbn; [reflexivity|]. rewrite Z.compare_refl. exact IH. Qed.

Lemma cmp_eq a : forall b, bytes_cmp a b = Eq -> a = b.
Proof.
  induction a as [|x a IH]; intros [|y b] H; cbn in H; try discriminate; [reflexivity|].
  destruct (x ?= y) eqn:E; try discriminate. apply Z.compare_eq in E. subst. f_equal. apply IH. exact H.
Qed.

Lemma cmp_antisym a : forall b, bytes_cmp b a = CompOpp (bytes_cmp a b).
Proof.
  induction a as [|x a IH]; intros [|y b]; cbn; try reflexivity.
  rewrite (Z.compare_antisym x y). destruct (x ?= y); cbn; auto.
Qed.

Lemma cmp_lt_trans a : forall b c, bytes_cmp a b = Lt -> bytes_cmp b c = Lt -> bytes_cmp a c = Lt.
Proof.
  induction a as [|x a IH]; intros [|y b] [|z c] H1 H2; cbn in *; try discriminate; try reflexivity.
  destruct (x ?= y) eqn:E1; try discriminate.
  - apply Z.compare_eq in E1. subst y. destruct (x ?= z) eqn:E2; try discriminate; try reflexivity.
    eapply IH; eassumption.
  - destruct (y ?= z) eqn:E2; try discriminate.
    + apply Z.compare_eq in E2. subst z. rewrite E1. reflexivity.
    + assert (Hxy : x < y) by exact E1. assert (Hyz : y < z) by exact E2.
      assert (Hxz : x < z) by lia. unfold Z.lt in Hxz. rewrite Hxz. reflexivity.
Qed.

Lemma leb_cases a b : bytes_leb a b = true <-> (bytes_cmp a b = Lt \/ a = b).
Proof.
  unfold bytes_leb. split.
  - destruct (bytes_cmp a b) eqn:E; intros H; try discriminate; [right; apply cmp_eq; exact E | left; reflexivity].
  - intros [H | ->]; [rewrite H; reflexivity | rewrite cmp_refl; reflexivity].
Qed.

Lemma leb_false a b : bytes_leb a b = false -> bytes_cmp b a = Lt.
Proof.
  unfold bytes_leb. rewrite (cmp_antisym a b). destruct (bytes_cmp a b); cbn; congruence.
Qed.

Lemma leb_total a b : bytes_leb a b = true \/ bytes_leb b a = true.
Proof.
  destruct (bytes_leb a b) eqn:E; [left; reflexivity|]. right. apply leb_cases. left. apply leb_false. exact E.
Qed.

Lemma leb_trans a b c : bytes_leb a b = true -> bytes_leb b c = true -> bytes_leb a c = true.
Proof.
  rewrite !leb_cases. intros [H1 | ->] [H2 | ->]; auto. left. eapply cmp_lt_trans; eassumption.
Qed.

Lemma le_lt_trans a b c : bytes_leb a b = true -> bytes_cmp b c = Lt -> bytes_cmp a c = Lt.
Proof. rewrite leb_cases. intros [H1 | ->] H2; auto. eapply cmp_lt_trans; eassumption. Qed.

Lemma gt_le_trans a b c : bytes_cmp a c = Gt -> bytes_leb a b = true -> bytes_cmp b c = Gt.
Proof.
  intros H1 H2. rewrite (cmp_antisym c a) in H1.
  assert (Hca : bytes_cmp c a = Lt) by (destruct (bytes_cmp c a); cbn in H1; congruence).
  rewrite leb_cases in H2. destruct H2 as [H2 | ->].
  - pose proof (cmp_lt_trans _ _ _ Hca H2) as H. rewrite (cmp_antisym c b), H. reflexivity.
  - rewrite (cmp_antisym c b), Hca. reflexivity.
Qed.

Lemma cmp_lt_neq a b : bytes_cmp a b = Lt -> a <> b.
Proof. intros H ->. rewrite cmp_refl in H. discriminate. Qed.
Lemma cmp_gt_neq a b : bytes_cmp a b = Gt -> a <> b.
Proof. intros H ->. rewrite cmp_refl in H. discriminate. Qed.

(* ------------------------------------------------------------------ the sort *)
Section SortFacts.
  Context {A : Type} (key : A -> list Z).
  Definition kle (x y : A) : Prop := bytes_leb (key x) (key y) = true.

  Lemma ins_perm x l : Permutation (x :: l) (ins key x l).
  Proof.
    induction l as [|y t IH]; cbn [ins]; [apply Permutation_refl|].
    destruct (bytes_leb (key x) (key y)); [apply Permutation_refl|].
    eapply perm_trans; [apply perm_swap|]. apply perm_skip. exact IH.
  Qed.

  Lemma sort_perm l : Permutation l (stable_sort key l).
  Proof.
    induction l as [|x t IH]; cbn [stable_sort]; [apply perm_nil|].
    eapply perm_trans; [|apply ins_perm]. apply perm_skip. exact IH.
  Qed.

  Lemma sort_length l : length (stable_sort key l) = length l.
  Proof. symmetry. apply Permutation_length. apply sort_perm. Qed.

  Lemma sort_in x l : In x (stable_sort key l) <-> In x l.
  Proof.
    split; intros H.
    - eapply Permutation_in; [apply Permutation_sym; apply sort_perm|exact H].
    - eapply Permutation_in; [apply sort_perm|exact H].
  Qed.

  Lemma ins_sorted x l : StronglySorted kle l -> StronglySorted kle (ins key x l).
  Proof.
    induction 1 as [|y t Hs IH Hall]; cbn [ins].
    - constructor; constructor.
    - destruct (bytes_leb (key x) (key y)) eqn:E.
      + constructor; [constructor; assumption|]. constructor; [exact E|].
        rewrite Forall_forall in *. intros z Hz. unfold kle in *. eapply leb_trans; [exact E|]. apply Hall. exact Hz.
      + constructor; [exact IH|].
        rewrite Forall_forall in *. intros z Hz.
        apply (Permutation_in _ (Permutation_sym (ins_perm x t))) in Hz. destruct Hz as [<- | Hz].
        * unfold kle. apply leb_cases. left. apply leb_false. exact E.
        * apply Hall. exact Hz.
  Qed.

  Lemma sort_sorted l : StronglySorted kle (stable_sort key l).
  Proof. induction l as [|x t IH]; cbn [stable_sort]; [constructor|]. apply ins_sorted. exact IH. Qed.
End SortFacts.

Lemma ins_map {A B} (ka : A -> list Z) (kb : B -> list Z) (f : A -> B) :
  (forall x, kb (f x) = ka x) -> forall x l, ins kb (f x) (map f l) = map f (ins ka x l).
Proof.
  intros Hk x l. induction l as [|y t IH]; cbn [ins map]; [reflexivity|].
  rewrite !Hk. destruct (bytes_leb (ka x) (ka y)); cbn [map]; [reflexivity|]. rewrite IH. reflexivity.
Qed.

Lemma sort_map {A B} (ka : A -> list Z) (kb : B -> list Z) (f : A -> B) :
  (forall x, kb (f x) = ka x) -> forall l, stable_sort kb (map f l) = map f (stable_sort ka l).
Proof.
  intros Hk l. induction l as [|x t IH]; cbn [stable_sort map]; [reflexivity|].
  rewrite IH. apply ins_map. exact Hk.
Qed.

(* stability: members with equal keys keep their relative order *)
Lemma ins_filter {A} (key : A -> list Z) (k : list Z) x l :
  StronglySorted (kle key) l ->
  filter (fun y => zlist_eqb (key y) k) (ins key x l) = filter (fun y => zlist_eqb (key y) k) (x :: l).
Proof.
  induction 1 as [|y t Hs IH Hall]; cbn [ins]; [reflexivity|].
  destruct (bytes_leb (key x) (key y)) eqn:E; [reflexivity|].
  cbn [filter] in *. rewrite IH.
  destruct (zlist_eqb (key x) k) eqn:Ex; destruct (zlist_eqb (key y) k) eqn:Ey; try reflexivity.
  (* both carry key k: then key x = key y, so leb holds -- contradiction *)
  exfalso.
  assert (forall a b, zlist_eqb a b = true -> a = b) as Heq.
  { induction a as [|p a IHa]; intros [|q b] Hab; cbn in Hab; try discriminate; [reflexivity|].
    apply andb_true_iff in Hab. destruct Hab as [H1 H2]. apply Z.eqb_eq in H1. subst. f_equal. auto. }
  apply Heq in Ex. apply Heq in Ey. rewrite Ex, Ey in E. unfold bytes_leb in E. rewrite cmp_refl in E. discriminate.
Qed.

Lemma sort_stable {A} (key : A -> list Z) (k : list Z) l :
  filter (fun y => zlist_eqb (key y) k) (stable_sort key l) = filter (fun y => zlist_eqb (key y) k) l.
Proof.
  induction l as [|x t IH]; cbn [stable_sort]; [reflexivity|].
  rewrite ins_filter by apply sort_sorted. cbn [filter]. rewrite IH. reflexivity.
Qed.
