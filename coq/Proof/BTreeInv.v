(* C28 proofs, part 2: consequences of the structural invariant - the in-order flattening of a
   bounded tree is strictly sorted and inside its bounds; routing a key by the separators reaches
   the only leaf that can hold it; replacing the routed child keeps the invariant. *)
From Coq Require Import ZArith List Bool Lia Sorting.Permutation Sorting.Sorted.
From TV Require Import Lib.MachInt Gen.Varint Model.BTree Model.BTreeSpec Model.BTreeInv Proof.BTreeOrder.
Import ListNotations.
Open Scope Z_scope.
Arguments Z.sub : simpl never.
Arguments Z.add : simpl never.
Arguments Z.mul : simpl never.
Arguments Z.of_nat : simpl never.

Lemma lo_ok_iff lo k : lo_ok lo k <-> match lo with None => True | Some a => ~ klt k a end.
Proof. destruct lo; cbn; unfold klt; tauto. Qed.
Lemma lo_lt_ok lo k : lo_lt lo k -> lo_ok lo k.
Proof. destruct lo as [a|]; cbn; [|trivial]. intros H H1. exact (klt_asym _ _ H H1). Qed.
Lemma lo_ok_le lo a k : lo_ok lo a -> ~ klt k a -> lo_ok lo k.
Proof. destruct lo as [b|]; cbn; [|trivial]. intros H1 H2. change (~ klt k b). change (~ klt a b) in H1. eapply nlt_trans; eassumption. Qed.
Lemma lo_lt_le lo a k : lo_lt lo a -> ~ klt k a -> lo_lt lo k.
Proof. destruct lo as [b|]; cbn; [|trivial]. intros H1 H2. change (klt b k). eapply lt_nlt_trans; eassumption. Qed.
Lemma lo_lt_trans lo a k : lo_lt lo a -> klt a k -> lo_lt lo k.
Proof. destruct lo as [b|]; cbn; [|trivial]. intros H1 H2. eapply klt_trans; eassumption. Qed.
Lemma lo_ok_lt_trans lo a k : lo_ok lo a -> klt a k -> lo_lt lo k.
Proof. destruct lo as [b|]; cbn; [|trivial]. intros H1 H2. change (klt b k). eapply nlt_le_trans; eassumption. Qed.
Lemma hi_ok_lt hi a k : klt k a -> hi_ok hi a -> hi_ok hi k.
Proof. destruct hi as [b|]; cbn; [|trivial]. intros H1 H2. eapply klt_trans; eassumption. Qed.
Lemma hi_ok_le hi a k : ~ klt a k -> hi_ok hi a -> hi_ok hi k.
Proof. destruct hi as [b|]; cbn; [|trivial]. intros H1 H2. change (klt k b). eapply nlt_le_trans; eassumption. Qed.

Section P.
Variable V : Type.
Variable vlen : V -> Z.
Notation entry := (entry V).
Notation leaf := (leaf V).
Notation tree := (tree V).
Notation kid := (kid V).
Notation abs := (abs V).
Notation leaves := (leaves V).
Notation bounded := (bounded V vlen).
Notation cells_in := (cells_in V).
Notation kids_bounded := (kids_bounded V).

Lemma cells_sorted_ssorted (cs : list entry) : cells_sorted V cs <-> ssorted V cs.
Proof. reflexivity. Qed.

Lemma cells_in_hi_weaken lo s hi (cs : list entry) : cells_in lo (Some s) cs -> hi_ok hi s -> cells_in lo hi cs.
Proof.
  intros H Hs. eapply Forall_impl; [|exact H]. intros c [H1 H2]. split; [exact H1|]. eapply hi_ok_lt; [exact H2 | exact Hs].
Qed.
Lemma cells_in_lo_weaken lo s hi (cs : list entry) : cells_in (Some s) hi cs -> lo_lt lo s -> cells_in lo hi cs.
Proof.
  intros H Hs. eapply Forall_impl; [|exact H]. intros c [H1 H2]. split; [|exact H2].
  apply lo_lt_ok. eapply lo_lt_le; [exact Hs | exact H1].
Qed.

(* ---------------------------------------------------------------- flattening of interior nodes *)
Definition kleaves (h' : nat) (kids : list kid) (r : tree) : list leaf :=
  flat_map (fun sc : kid => leaves h' (snd sc)) kids ++ leaves h' r.
Definition kabs (h' : nat) (kids : list kid) (r : tree) : list entry := flat_map (@lcells V) (kleaves h' kids r).

Lemma leaves_node h' id kids r : leaves (S h') (Node id kids r) = kleaves h' kids r.
Proof. reflexivity. Qed.
Lemma abs_node h' id kids r : abs (S h') (Node id kids r) = kabs h' kids r.
Proof. reflexivity. Qed.
Lemma abs_leaf h l : abs h (Leaf l) = lcells l.
Proof. unfold BTree.abs. destruct h; cbn; apply app_nil_r. Qed.
Lemma kabs_nil h' r : kabs h' [] r = abs h' r.
Proof. reflexivity. Qed.
Lemma kabs_cons h' sc rest r : kabs h' (sc :: rest) r = abs h' (snd sc) ++ kabs h' rest r.
Proof. unfold kabs, kleaves, BTree.abs. cbn. rewrite <- app_assoc. rewrite flat_map_app. reflexivity. Qed.
Lemma kleaves_cons h' sc rest r : kleaves h' (sc :: rest) r = leaves h' (snd sc) ++ kleaves h' rest r.
Proof. unfold kleaves. cbn. rewrite <- app_assoc. reflexivity. Qed.
Lemma kabs_app h' a b r : kabs h' (a ++ b) r = flat_map (fun sc : kid => abs h' (snd sc)) a ++ kabs h' b r.
Proof.
  induction a as [|x a IH]; [reflexivity|]. change ((x :: a) ++ b) with (x :: (a ++ b)).
  rewrite kabs_cons, IH. cbn [flat_map]. rewrite app_assoc. reflexivity.
Qed.

Lemma child_at_0 sc rest (r : tree) : child_at V (sc :: rest) r 0 = snd sc.
Proof. reflexivity. Qed.
Lemma child_at_S sc rest (r : tree) j : child_at V (sc :: rest) r (S j) = child_at V rest r j.
Proof. reflexivity. Qed.
Lemma set_child_nil (r : tree) i c : set_child V [] r i c = ([], c).
Proof. unfold set_child. destruct i; reflexivity. Qed.
Lemma set_child_0 sc rest (r : tree) c : set_child V (sc :: rest) r 0 c = ((fst sc, c) :: rest, r).
Proof. reflexivity. Qed.
Lemma set_child_S sc rest (r : tree) j c :
  set_child V (sc :: rest) r (S j) c = (sc :: fst (set_child V rest r j c), snd (set_child V rest r j c)).
Proof. unfold set_child. cbn. destruct (nth_error rest j); reflexivity. Qed.
Lemma set_child_seps kids (r : tree) i c : map fst (fst (set_child V kids r i c)) = map fst kids.
Proof.
  revert i. induction kids as [|sc rest IH]; intros i; [rewrite set_child_nil; reflexivity|].
  destruct i; [rewrite set_child_0; reflexivity|]. rewrite set_child_S. cbn. f_equal. apply IH.
Qed.
Lemma set_child_length kids (r : tree) i c : length (fst (set_child V kids r i c)) = length kids.
Proof.
  revert i. induction kids as [|sc rest IH]; intros i; [rewrite set_child_nil; reflexivity|].
  destruct i; [rewrite set_child_0; reflexivity|]. rewrite set_child_S. cbn. f_equal. apply IH.
Qed.

Lemma lo_at_S lo sc (rest : list kid) j : lo_at V lo (sc :: rest) (S j) = lo_at V (Some (fst sc)) rest j.
Proof. reflexivity. Qed.
Lemma hi_at_S hi sc (rest : list kid) j : hi_at V hi (sc :: rest) (S j) = hi_at V hi rest j.
Proof. reflexivity. Qed.
Lemma cidx_le k (kids : list kid) : (cidx V k kids <= length kids)%nat.
Proof. induction kids as [|sc rest IH]; cbn; [lia|]. destruct (kltb k (fst sc)); lia. Qed.

(* ---------------------------------------------------------------- routing inside an interior node *)
Lemma kids_child (P : option key -> option key -> tree -> Prop) kids : forall lo hi r k,
  kids_bounded P lo hi kids r -> lo_ok lo k -> hi_ok hi k ->
  let i := cidx V k kids in
  P (lo_at V lo kids i) (hi_at V hi kids i) (child_at V kids r i)
  /\ lo_ok (lo_at V lo kids i) k /\ hi_ok (hi_at V hi kids i) k.
Proof.
  induction kids as [|sc rest IH]; intros lo hi r k HB Hlo Hhi; cbn -[lo_at hi_at child_at].
  - cbn. auto.
  - destruct HB as (Hls & Hhs & Hc & Hrest). destruct (kltb k (fst sc)) eqn:E.
    + apply kltb_true in E. cbn. auto.
    + apply kltb_false in E. rewrite lo_at_S, hi_at_S, child_at_S. apply IH; [exact Hrest | exact E | exact Hhi].
Qed.

Lemma kids_set_child (P : option key -> option key -> tree -> Prop) kids : forall lo hi r i c',
  kids_bounded P lo hi kids r -> P (lo_at V lo kids i) (hi_at V hi kids i) c' -> (i <= length kids)%nat ->
  kids_bounded P lo hi (fst (set_child V kids r i c')) (snd (set_child V kids r i c')).
Proof.
  induction kids as [|sc rest IH]; intros lo hi r i c' HB Hc Hi.
  - rewrite set_child_nil. cbn in *. assert (i = O) by lia. subst. exact Hc.
  - destruct HB as (Hls & Hhs & Hc0 & Hrest). destruct i as [|j].
    + rewrite set_child_0. cbn in *. auto.
    + rewrite set_child_S. cbn [fst snd BTreeInv.kids_bounded]. repeat split; try assumption.
      apply IH; [exact Hrest | rewrite lo_at_S, hi_at_S in Hc; exact Hc | cbn in Hi; lia].
Qed.

Lemma kids_seps_gt (P : option key -> option key -> tree -> Prop) kids : forall a hi r,
  kids_bounded P (Some a) hi kids r -> forall sc, In sc kids -> klt a (fst sc).
Proof.
  induction kids as [|sc0 rest IH]; intros a hi r HB sc Hin; [destruct Hin|].
  destruct HB as (Hls & Hhs & Hc0 & Hrest). destruct Hin as [<- | Hin]; [exact Hls|].
  eapply klt_trans; [exact Hls|]. eapply IH; eassumption.
Qed.
Lemma kids_seps_lt (P : option key -> option key -> tree -> Prop) kids : forall lo b r,
  kids_bounded P lo (Some b) kids r -> forall sc, In sc kids -> klt (fst sc) b.
Proof.
  induction kids as [|sc0 rest IH]; intros lo b r HB sc Hin; [destruct Hin|].
  destruct HB as (Hls & Hhs & Hc0 & Hrest). destruct Hin as [<- | Hin]; [exact Hhs|]. eapply IH; eassumption.
Qed.

Lemma kids_bounded_right_c28 (P : option key -> option key -> tree -> Prop) kids : forall lo hi r,
  kids_bounded P lo hi kids r -> exists lo', P lo' hi r.
Proof.
  induction kids as [|sc rest IH]; intros lo hi r HB; [exists lo; exact HB|].
  destruct HB as (_ & _ & _ & H4). eapply IH. exact H4.
Qed.

(* splitting a bounded separator list at one separator *)
Lemma kids_bounded_app (P : option key -> option key -> tree -> Prop) a : forall lo hi s c b r,
  kids_bounded P lo hi (a ++ (s, c) :: b) r <->
  kids_bounded P lo (Some s) a c /\ kids_bounded P (Some s) hi b r /\ lo_lt lo s /\ hi_ok hi s.
Proof.
  induction a as [|x a IH]; intros lo hi s c b r; cbn.
  - tauto.
  - rewrite IH. split.
    + intros (H1 & H2 & H3 & H4 & H5 & H6 & H7).
      split; [split; [exact H1 | split; [exact H6 | split; [exact H3 | exact H4]]]|].
      split; [exact H5|]. split; [eapply lo_lt_trans; [exact H1 | exact H6] | exact H7].
    + intros ((H1 & H2 & H3 & H4) & H5 & H6 & H7).
      split; [exact H1|]. split; [eapply hi_ok_lt; [exact H2 | exact H7]|]. split; [exact H3|].
      split; [exact H4|]. split; [exact H5|]. split; [exact H2 | exact H7].
Qed.

(* ---------------------------------------------------------------- multiset view of a child replacement *)
Lemma kabs_decomp h' kids : forall (r : tree) i,
  exists X, Permutation (kabs h' kids r) (abs h' (child_at V kids r i) ++ X)
    /\ forall c', Permutation (kabs h' (fst (set_child V kids r i c')) (snd (set_child V kids r i c'))) (abs h' c' ++ X).
Proof.
  induction kids as [|sc rest IH]; intros r i.
  - exists []. split.
    + unfold child_at. destruct i; cbn; rewrite app_nil_r; apply Permutation_refl.
    + intros c'. rewrite set_child_nil. cbn. rewrite app_nil_r. apply Permutation_refl.
  - destruct i as [|j].
    + exists (kabs h' rest r). split; [rewrite kabs_cons; apply Permutation_refl|].
      intros c'. rewrite set_child_0. cbn [fst snd]. rewrite kabs_cons. apply Permutation_refl.
    + destruct (IH r j) as (X & HX1 & HX2). exists (abs h' (snd sc) ++ X). split.
      * rewrite kabs_cons, child_at_S. eapply Permutation_trans; [apply Permutation_app_head; exact HX1|].
        rewrite !app_assoc. apply Permutation_app_tail. apply Permutation_app_comm.
      * intros c'. rewrite set_child_S. cbn [fst snd]. rewrite kabs_cons.
        eapply Permutation_trans; [apply Permutation_app_head; apply HX2|].
        rewrite !app_assoc. apply Permutation_app_tail. apply Permutation_app_comm.
Qed.

(* ---------------------------------------------------------------- bounds and order of the flattening *)
Lemma kabs_in_bounds h' :
  (forall lo hi (t : tree), bounded h' lo hi t -> cells_in lo hi (abs h' t)) ->
  forall kids lo hi r, kids_bounded (bounded h') lo hi kids r -> cells_in lo hi (kabs h' kids r).
Proof.
  intros IH. induction kids as [|sc rest IHk]; intros lo hi r HB.
  - rewrite kabs_nil. apply IH. exact HB.
  - destruct HB as (Hls & Hhs & Hc & Hrest). rewrite kabs_cons. apply Forall_app. split.
    + eapply cells_in_hi_weaken; [apply IH; exact Hc | exact Hhs].
    + eapply cells_in_lo_weaken; [apply IHk; exact Hrest | exact Hls].
Qed.

Lemma abs_in_bounds : forall h lo hi (t : tree), bounded h lo hi t -> cells_in lo hi (abs h t).
Proof.
  induction h as [|h' IH]; intros lo hi t HB; destruct t as [l | id kids r]; cbn in HB; try contradiction.
  - rewrite abs_leaf. apply HB.
  - destruct HB as [_ HB]. rewrite abs_node. apply kabs_in_bounds; assumption.
Qed.

Lemma kabs_sorted h' :
  (forall lo hi (t : tree), bounded h' lo hi t -> ssorted V (abs h' t)) ->
  forall kids lo hi r, kids_bounded (bounded h') lo hi kids r -> ssorted V (kabs h' kids r).
Proof.
  intros IH. induction kids as [|sc rest IHk]; intros lo hi r HB.
  - rewrite kabs_nil. eapply IH. exact HB.
  - destruct HB as (Hls & Hhs & Hc & Hrest). rewrite kabs_cons. apply ssorted_app. repeat split.
    + eapply IH. exact Hc.
    + eapply IHk. exact Hrest.
    + intros x y Hx Hy. pose proof (abs_in_bounds _ _ _ _ Hc) as B1.
      pose proof (kabs_in_bounds h' (abs_in_bounds h') _ _ _ _ Hrest) as B2.
      unfold BTreeInv.cells_in in B1, B2. rewrite Forall_forall in B1, B2.
      destruct (B1 _ Hx) as [_ Hxs]. destruct (B2 _ Hy) as [Hys _]. cbn in Hxs, Hys.
      unfold elt. eapply lt_nlt_trans; [exact Hxs | exact Hys].
Qed.

Lemma abs_sorted : forall h lo hi (t : tree), bounded h lo hi t -> ssorted V (abs h t).
Proof.
  induction h as [|h' IH]; intros lo hi t HB; destruct t as [l | id kids r]; cbn in HB; try contradiction.
  - rewrite abs_leaf. apply HB.
  - destruct HB as [_ HB]. rewrite abs_node. eapply kabs_sorted; eassumption.
Qed.

(* ---------------------------------------------------------------- routing reaches the only possible leaf *)
Lemma leaves_child_incl h' kids : forall (r : tree) i l, In l (leaves h' (child_at V kids r i)) -> In l (kleaves h' kids r).
Proof.
  induction kids as [|sc rest IH]; intros r i l H.
  - unfold child_at in H. destruct i; exact H.
  - rewrite kleaves_cons. apply in_or_app. destruct i as [|j]; [left; exact H | right; eapply IH; exact H].
Qed.

Lemma route_in_leaves : forall h (t : tree) k l, route V h t k = Some l -> In l (leaves h t).
Proof.
  induction h as [|h' IH]; intros t k l H; destruct t as [l0 | id kids r]; cbn in H; try discriminate.
  - injection H as <-. left. reflexivity.
  - injection H as <-. left. reflexivity.
  - rewrite leaves_node. eapply leaves_child_incl. eapply IH. exact H.
Qed.

Lemma leaf_cells_in_abs h (t : tree) l c : In l (leaves h t) -> In c (lcells l) -> In c (abs h t).
Proof. intros Hl Hc. unfold BTree.abs. apply in_flat_map. exists l. split; assumption. Qed.

Lemma kabs_key_in_child h' kids : forall lo hi (r : tree) k,
  kids_bounded (bounded h') lo hi kids r -> lo_ok lo k -> hi_ok hi k ->
  forall c, In c (kabs h' kids r) -> fst c = k -> In c (abs h' (child_at V kids r (cidx V k kids))).
Proof.
  induction kids as [|sc rest IH]; intros lo hi r k HB Hlo Hhi c Hin Hk.
  - exact Hin.
  - destruct HB as (Hls & Hhs & Hc & Hrest). rewrite kabs_cons in Hin. apply in_app_or in Hin. cbn [cidx].
    destruct (kltb k (fst sc)) eqn:E.
    + apply kltb_true in E. rewrite child_at_0. destruct Hin as [Hin | Hin]; [exact Hin|]. exfalso.
      pose proof (kabs_in_bounds h' (abs_in_bounds h') _ _ _ _ Hrest) as B. unfold BTreeInv.cells_in in B.
      rewrite Forall_forall in B. destruct (B _ Hin) as [B1 _]. cbn in B1. rewrite Hk in B1. exact (B1 E).
    + apply kltb_false in E. rewrite child_at_S. destruct Hin as [Hin | Hin]; [exfalso | eapply IH; eassumption].
      pose proof (abs_in_bounds _ _ _ _ Hc) as B. unfold BTreeInv.cells_in in B.
      rewrite Forall_forall in B. destruct (B _ Hin) as [_ B2]. cbn in B2. rewrite Hk in B2. exact (E B2).
Qed.

Lemma route_spec : forall h lo hi (t : tree) k, bounded h lo hi t -> lo_ok lo k -> hi_ok hi k ->
  exists l, route V h t k = Some l /\ forall c, In c (abs h t) -> fst c = k -> In c (lcells l).
Proof.
  induction h as [|h' IH]; intros lo hi t k HB Hlo Hhi; destruct t as [l | id kids r]; cbn in HB; try contradiction.
  - exists l. split; [reflexivity|]. intros c Hc _. rewrite abs_leaf in Hc. exact Hc.
  - destruct HB as [_ HB]. destruct (kids_child _ kids lo hi r k HB Hlo Hhi) as (Hc & Hl & Hh).
    destruct (IH _ _ _ k Hc Hl Hh) as (l & Hr & Hin). exists l. split; [exact Hr|].
    intros c Hc1 Hk. apply Hin; [|exact Hk]. rewrite abs_node in Hc1. eapply kabs_key_in_child; eassumption.
Qed.

Lemma flat_sorted_each_c28 (ls : list leaf) l : ssorted V (flat_map (@lcells V) ls) -> In l ls -> ssorted V (lcells l).
Proof.
  induction ls as [|x ls IH]; intros Hs Hin; [destruct Hin|]. cbn [flat_map] in Hs.
  apply ssorted_app in Hs as (H1 & H2 & _). destruct Hin as [<- | Hin]; [exact H1 | apply IH; assumption].
Qed.

Lemma leaves_last_c28 : forall h lo hi (t : tree), bounded h lo hi t -> exists pre, leaves h t = pre ++ [last_leaf V t].
Proof.
  induction h as [|h' IH]; intros lo hi t HB; destruct t as [l | id kids r]; cbn in HB; try contradiction.
  - exists []. reflexivity.
  - destruct HB as [_ HB]. destruct (kids_bounded_right_c28 _ _ _ _ _ HB) as (lo' & Hr).
    destruct (IH _ _ _ Hr) as (pre & Hp). rewrite leaves_node. unfold kleaves. rewrite Hp. cbn [last_leaf].
    eexists. rewrite app_assoc. reflexivity.
Qed.

End P.
