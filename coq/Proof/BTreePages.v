(* C29 proofs: the structural checker run on the decoded real pages decides exactly the property. *)
From Coq Require Import ZArith List Bool Lia Sorting.Sorted.
From TV Require Import Lib.MachInt Gen.Varint Model.BTree Model.BTreePages Proof.BTreeOrder.
Import ListNotations.
Open Scope Z_scope.

Lemma area_inb_spec lo hi a : area_inb lo hi a = true <-> area_in lo hi a.
Proof. unfold area_inb, area_in. rewrite !andb_true_iff, !Z.leb_le. tauto. Qed.
Lemma area_disjb_spec a b : area_disjb a b = true <-> area_disj a b.
Proof. unfold area_disjb, area_disj. rewrite orb_true_iff, !Z.leb_le. tauto. Qed.

Lemma forallb_Forall {A} (f : A -> bool) (P : A -> Prop) (l : list A) :
  (forall x, f x = true <-> P x) -> (forallb f l = true <-> Forall P l).
Proof.
  intros H. induction l as [|x l IH]; cbn; [split; [constructor | reflexivity]|].
  rewrite andb_true_iff, IH, H. split; [intros [H1 H2]; constructor; assumption | intros H1; inversion H1; auto].
Qed.

Lemma pairwiseb_spec {A} (f : A -> A -> bool) (R : A -> A -> Prop) (l : list A) :
  (forall a b, f a b = true <-> R a b) -> (pairwiseb f l = true <-> ForallOrdPairs R l).
Proof.
  intros H. induction l as [|x l IH]; cbn; [split; [constructor | reflexivity]|].
  rewrite andb_true_iff, IH, (forallb_Forall (f x) (R x) l (H x)).
  split; [intros [H1 H2]; constructor; assumption | intros H1; inversion H1; auto].
Qed.

Lemma ksorted_spec (ks : list key) : ksorted ks = true <-> StronglySorted klt_p ks.
Proof.
  induction ks as [|a r IH]; [split; [constructor | reflexivity]|]. cbn [ksorted]. destruct r as [|b r'].
  - split; [intros _; repeat constructor | reflexivity].
  - rewrite andb_true_iff, IH, kltb_true. split.
    + intros [H1 H2]. constructor; [exact H2|]. inversion H2 as [|? ? H3 H4]; subst. constructor; [exact H1|].
      eapply Forall_impl; [|exact H4]. intros c Hc. exact (klt_trans _ _ _ H1 Hc).
    + intros H1. inversion H1 as [|? ? H2 H3]; subst. inversion H3; subst. split; assumption.
Qed.

Lemma klob_spec lo k : klob lo k = true <-> klo lo k.
Proof.
  destruct lo as [a|]; cbn; [|tauto]. rewrite negb_true_iff, kltb_false. unfold klt. tauto.
Qed.
Lemma khib_spec hi k : khib hi k = true <-> khi hi k.
Proof. destruct hi as [b|]; cbn; [|tauto]. rewrite kltb_true. unfold klt. tauto. Qed.
Lemma klo_sb_spec lo k : klo_sb lo k = true <-> klo_s lo k.
Proof. destruct lo as [a|]; cbn; [|tauto]. rewrite kltb_true. unfold klt. tauto. Qed.

Lemma leaf_page_okb_spec lo hi cells fs fe : leaf_page_okb lo hi cells fs fe = true <-> leaf_page_ok lo hi cells fs fe.
Proof.
  unfold leaf_page_okb, leaf_page_ok. rewrite !andb_true_iff, Z.eqb_eq, !Z.leb_le, ksorted_spec.
  rewrite (pairwiseb_spec _ (fun a b => area_disj (pc_off a, pc_size a) (pc_off b, pc_size b))) by (intros; apply area_disjb_spec).
  rewrite (forallb_Forall _ (fun c => area_in fe PAGE (pc_off c, pc_size c) /\ 0 <= pc_vlen c /\ pc_pfx c = 0 /\ klo lo (pc_key c) /\ khi hi (pc_key c))).
  - tauto.
  - intros c. rewrite !andb_true_iff, area_inb_spec, Z.leb_le, Z.eqb_eq, klob_spec, khib_spec. tauto.
Qed.
Lemma int_page_okb_spec lo hi slots fs fe : int_page_okb lo hi slots fs fe = true <-> int_page_ok lo hi slots fs fe.
Proof.
  unfold int_page_okb, int_page_ok. rewrite !andb_true_iff, Z.eqb_eq, !Z.leb_le, ksorted_spec.
  rewrite (pairwiseb_spec _ (fun a b => area_disj (ps_off a, ps_size a) (ps_off b, ps_size b))) by (intros; apply area_disjb_spec).
  rewrite (forallb_Forall _ (fun s => area_in fe PAGE (ps_off s, ps_size s) /\ ps_pfx s = 0 /\ klo_s lo (ps_key s) /\ khi hi (ps_key s))).
  - tauto.
  - intros c. rewrite !andb_true_iff, area_inb_spec, Z.eqb_eq, klo_sb_spec, khib_spec. tauto.
Qed.

Section T.
Variable pg : pagemap.

Lemma chkkids_spec (C : Z -> option key -> option key -> option (list Z * list Z))
    (P : Z -> option key -> option key -> list Z -> list Z -> Prop) :
  (forall p lo hi l a, C p lo hi = Some (l, a) <-> P p lo hi l a) ->
  forall slots rgt lo hi l a, chkkids C slots rgt lo hi = Some (l, a) <-> wfkids P slots rgt lo hi l a.
Proof.
  intros H. induction slots as [|s rest IH]; intros rgt lo hi l a; cbn [chkkids wfkids]; [apply H|].
  split.
  - destruct (C (ps_child s) lo (Some (ps_key s))) as [[l1 a1]|] eqn:E1; [|discriminate].
    destruct (chkkids C rest rgt (Some (ps_key s)) hi) as [[l2 a2]|] eqn:E2; [|discriminate].
    intros [= <- <-]. exists l1, a1, l2, a2. split; [apply H; exact E1|]. split; [apply IH; exact E2|]. split; reflexivity.
  - intros (l1 & a1 & l2 & a2 & H1 & H2 & -> & ->). apply H in H1. apply IH in H2. rewrite H1, H2. reflexivity.
Qed.

Lemma chk_spec : forall d p lo hi l a, chk pg d p lo hi = Some (l, a) <-> wft pg d p lo hi l a.
Proof.
  induction d as [|d' IH]; intros p lo hi l a; cbn [chk wft].
  - split.
    + destruct (pget pg p) as [[cells fs fe nx | |]|] eqn:E; try discriminate.
      destruct (leaf_page_okb lo hi cells fs fe) eqn:Eo; [|discriminate]. intros [= <- <-].
      exists cells, fs, fe, nx. split; [reflexivity|]. split; [apply leaf_page_okb_spec; exact Eo|]. split; reflexivity.
    + intros (cells & fs & fe & nx & -> & Hok & -> & ->). apply leaf_page_okb_spec in Hok. rewrite Hok. reflexivity.
  - split.
    + destruct (pget pg p) as [[| slots rgt fs fe |]|] eqn:E; try discriminate.
      destruct (int_page_okb lo hi slots fs fe) eqn:Eo; [|discriminate].
      destruct (chkkids (chk pg d') slots rgt lo hi) as [[l' a']|] eqn:Ek; [|discriminate]. intros [= <- <-].
      exists slots, rgt, fs, fe, a'. split; [reflexivity|]. split; [apply int_page_okb_spec; exact Eo|].
      split; [apply (chkkids_spec _ _ IH); exact Ek | reflexivity].
    + intros (slots & rgt & fs & fe & a' & -> & Hok & Hk & ->). apply int_page_okb_spec in Hok. rewrite Hok.
      apply (chkkids_spec _ _ IH) in Hk. rewrite Hk. reflexivity.
Qed.

Lemma wfkids_first (P : Z -> option key -> option key -> list Z -> list Z -> Prop) slots rgt lo hi l a :
  wfkids P slots rgt lo hi l a ->
  exists lo' hi' l' a', P (match slots with s :: _ => ps_child s | [] => rgt end) lo' hi' l' a'.
Proof.
  destruct slots as [|s rest]; cbn [wfkids].
  - intros H. exists lo, hi, l, a. exact H.
  - intros (l1 & a1 & l2 & a2 & H1 & _). exists lo, (Some (ps_key s)), l1, a1. exact H1.
Qed.

Lemma depth_of_wft : forall d fuel p lo hi l a, wft pg d p lo hi l a -> (d < fuel)%nat -> depth_of pg fuel p = Some d.
Proof.
  induction d as [|d' IH]; intros fuel p lo hi l a Hw Hf; destruct fuel as [|f]; try lia; cbn [wft depth_of] in *.
  - destruct Hw as (cells & fs & fe & nx & -> & _). reflexivity.
  - destruct Hw as (slots & rgt & fs & fe & a' & -> & _ & Hk & _).
    destruct (wfkids_first _ _ _ _ _ _ _ Hk) as (lo' & hi' & l' & a'' & Hc).
    rewrite (IH f _ _ _ _ _ Hc) by lia. reflexivity.
Qed.
Lemma depth_of_lt : forall fuel p d, depth_of pg fuel p = Some d -> (d < fuel)%nat.
Proof.
  induction fuel as [|f IH]; intros p d H; cbn [depth_of] in H; [discriminate|].
  destruct (pget pg p) as [[| slots rgt fs fe |]|]; try discriminate.
  - injection H as <-. lia.
  - destruct (depth_of pg f _) as [d0|] eqn:E; [|discriminate]. injection H as <-. apply IH in E. lia.
Qed.

Lemma chain_okb_spec leafs : chain_okb pg leafs = true <-> chain_ok pg leafs.
Proof.
  induction leafs as [|p r IH]; [split; [intros _; exact I | reflexivity]|]. cbn [chain_okb chain_ok]. destruct r as [|q r'].
  - destruct (next_of pg p) as [n|]; [|split; discriminate]. rewrite Z.eqb_eq. split; [intros ->; reflexivity | intros [= ->]; reflexivity].
  - destruct (next_of pg p) as [n|]; [|split; [discriminate | intros [H _]; discriminate]].
    rewrite andb_true_iff, Z.eqb_eq, IH. split; [intros [-> H]; split; [reflexivity | exact H] | intros [[= ->] H]; split; [reflexivity | exact H]].
Qed.

Lemma existsb_eqb x l : existsb (Z.eqb x) l = true <-> In x l.
Proof.
  rewrite existsb_exists. split; [intros (y & Hy & E); apply Z.eqb_eq in E; subst; exact Hy | intros H; exists x; split; [exact H | apply Z.eqb_refl]].
Qed.
Lemma nodupb_spec l : nodupb l = true <-> NoDup l.
Proof.
  induction l as [|x r IH]; [split; [constructor | reflexivity]|]. cbn [nodupb].
  rewrite andb_true_iff, negb_true_iff, IH. split.
  - intros [H1 H2]. constructor; [|exact H2]. intros Hin. apply existsb_eqb in Hin. congruence.
  - intros H. inversion H as [|? ? H1 H2]; subst. split; [|exact H2].
    destruct (existsb (Z.eqb x) r) eqn:E; [|reflexivity]. apply existsb_eqb in E. contradiction.
Qed.

Theorem wf_chk_correct_l root : wf_chk pg root = true <-> WFP pg root.
Proof.
  unfold wf_chk, view_ok, wf_view, WFP. split.
  - destruct (depth_of pg MAXD root) as [d|] eqn:Ed; [|discriminate].
    destruct (chk pg d root None None) as [[leafs alls]|] eqn:Ec; [|discriminate].
    rewrite !andb_true_iff, negb_true_iff. intros [[H1 H2] H3].
    exists d, leafs, alls. split; [eapply depth_of_lt; exact Ed|]. split; [apply chk_spec; exact Ec|].
    split; [apply chain_okb_spec; exact H1|]. split; [apply nodupb_spec; exact H2|].
    intros Hin. apply existsb_eqb in Hin. congruence.
  - intros (d & leafs & alls & Hd & Hw & Hc & Hn & H0).
    rewrite (depth_of_wft d MAXD root None None leafs alls Hw Hd). apply chk_spec in Hw. rewrite Hw.
    apply chain_okb_spec in Hc. apply nodupb_spec in Hn. rewrite Hc, Hn. cbn [andb]. apply negb_true_iff.
    destruct (existsb (Z.eqb 0) alls) eqn:E; [|reflexivity]. apply existsb_eqb in E. contradiction.
Qed.

End T.
