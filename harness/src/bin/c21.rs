//! C21 schema changes: histories of DDL (CREATE / DROP TABLE, ALTER TABLE ADD / DROP / RENAME
//! COLUMN, TRUNCATE, CREATE / DROP INDEX) interleaved with DML and reopen, run on a real
//! database in a fresh directory; after every statement the status and `SELECT * FROM t` of
//! every table of the universe are recorded.
//!   gen [--lines F]   cases for coq/Corr/C21.v
//!   search            the relational model (Rust port of Model/DdlSpec.v) as oracle only
//!   sql FILE          development aid: run a script (REOPEN = close + open) and print results
use std::path::PathBuf;
use tvh::*;
use turdb::{Database, OwnedValue};

#[derive(Clone, Debug, PartialEq)]
enum V { N, I(i64), T(i64) }
#[derive(Clone, Debug, PartialEq)]
struct Col { name: i64, ty: i64, def: V }
#[derive(Clone, Debug, PartialEq)]
enum St {
    Create(i64, Vec<Col>), DropT(i64), Ins(i64, Vec<V>), InsOne(i64, i64, V), DelEq(i64, i64, V), DelAll(i64),
    UpdEq(i64, i64, V, i64, V), UpdAll(i64, i64, V), Add(i64, Col), DropC(i64, i64, bool), Ren(i64, i64, i64),
    Trunc(i64, bool), CrIdx(i64, i64, i64), DrIdx(i64), Reopen,
}
#[derive(Clone, Debug, PartialEq)]
enum Obs { None, Err, Rows(Vec<i64>, Vec<Vec<V>>) }

const UNIVERSE: [i64; 3] = [0, 1, 2];

// ------------------------------------------------------------------ printers
fn v_sql(v: &V) -> String { match v { V::N => "NULL".into(), V::I(i) => format!("{}", i), V::T(k) => format!("'s{}'", k) } }
fn v_line(v: &V) -> String { match v { V::N => "n".into(), V::I(i) => format!("i{}", i), V::T(k) => format!("t{}", k) } }
fn v_coq(v: &V) -> String { match v { V::N => "VN".into(), V::I(i) => format!("VI {}", z(*i)), V::T(k) => format!("VT {}", z(*k)) } }
fn ty_sql(t: i64) -> &'static str { match t { 0 => "INT", 1 => "BIGINT", _ => "TEXT" } }
fn col_sql(c: &Col) -> String {
    let mut s = format!("c{} {}", c.name, ty_sql(c.ty));
    if c.def != V::N { s.push_str(&format!(" DEFAULT {}", v_sql(&c.def))); }
    s
}
fn col_line(c: &Col) -> String { format!("{}:{}:{}", c.name, c.ty, v_line(&c.def)) }
fn col_coq(c: &Col) -> String { format!("mkCol {} {} ({})", z(c.name), z(c.ty), v_coq(&c.def)) }
fn row_coq(r: &[V]) -> String { clist(&r.iter().map(v_coq).collect::<Vec<_>>()) }

fn st_sql(s: &St) -> Option<String> {
    Some(match s {
        St::Create(t, cs) => format!("CREATE TABLE t{} ({})", t, cs.iter().map(col_sql).collect::<Vec<_>>().join(", ")),
        St::DropT(t) => format!("DROP TABLE t{}", t),
        St::Ins(t, r) => format!("INSERT INTO t{} VALUES ({})", t, r.iter().map(v_sql).collect::<Vec<_>>().join(", ")),
        St::InsOne(t, c, v) => format!("INSERT INTO t{} (c{}) VALUES ({})", t, c, v_sql(v)),
        St::DelEq(t, c, v) => format!("DELETE FROM t{} WHERE c{} = {}", t, c, v_sql(v)),
        St::DelAll(t) => format!("DELETE FROM t{}", t),
        St::UpdEq(t, sc, sv, wc, wv) => format!("UPDATE t{} SET c{} = {} WHERE c{} = {}", t, sc, v_sql(sv), wc, v_sql(wv)),
        St::UpdAll(t, sc, sv) => format!("UPDATE t{} SET c{} = {}", t, sc, v_sql(sv)),
        St::Add(t, c) => format!("ALTER TABLE t{} ADD COLUMN {}", t, col_sql(c)),
        St::DropC(t, c, exact) => format!("ALTER TABLE t{} DROP COLUMN {}{}", t, if *exact { "c" } else { "C" }, c),
        St::Ren(t, c, n) => format!("ALTER TABLE t{} RENAME COLUMN c{} TO c{}", t, c, n),
        St::Trunc(t, r) => format!("TRUNCATE TABLE t{}{}", t, if *r { " RESTART IDENTITY" } else { "" }),
        St::CrIdx(i, t, c) => format!("CREATE INDEX i{} ON t{} (c{})", i, t, c),
        St::DrIdx(i) => format!("DROP INDEX i{}", i),
        St::Reopen => return None,
    })
}
fn st_line(s: &St) -> String {
    match s {
        St::Create(t, cs) => format!("C {} {}", t, cs.iter().map(col_line).collect::<Vec<_>>().join(",")),
        St::DropT(t) => format!("X {}", t),
        St::Ins(t, r) => format!("I {} {}", t, r.iter().map(v_line).collect::<Vec<_>>().join(",")),
        St::InsOne(t, c, v) => format!("J {} {} {}", t, c, v_line(v)),
        St::DelEq(t, c, v) => format!("D {} {} {}", t, c, v_line(v)),
        St::DelAll(t) => format!("E {}", t),
        St::UpdEq(t, sc, sv, wc, wv) => format!("U {} {} {} {} {}", t, sc, v_line(sv), wc, v_line(wv)),
        St::UpdAll(t, sc, sv) => format!("V {} {} {}", t, sc, v_line(sv)),
        St::Add(t, c) => format!("A {} {}", t, col_line(c)),
        St::DropC(t, c, e) => format!("K {} {} {}", t, c, if *e { 1 } else { 0 }),
        St::Ren(t, c, n) => format!("R {} {} {}", t, c, n),
        St::Trunc(t, r) => format!("T {} {}", t, if *r { 1 } else { 0 }),
        St::CrIdx(i, t, c) => format!("N {} {} {}", i, t, c),
        St::DrIdx(i) => format!("M {}", i),
        St::Reopen => "O".into(),
    }
}
fn st_coq(s: &St) -> String {
    match s {
        St::Create(t, cs) => format!("CreateTable {} {}", z(*t), clist(&cs.iter().map(col_coq).collect::<Vec<_>>())),
        St::DropT(t) => format!("DropTable {}", z(*t)),
        St::Ins(t, r) => format!("Insert {} {}", z(*t), row_coq(r)),
        St::InsOne(t, c, v) => format!("InsertOne {} {} ({})", z(*t), z(*c), v_coq(v)),
        St::DelEq(t, c, v) => format!("DeleteEq {} {} ({})", z(*t), z(*c), v_coq(v)),
        St::DelAll(t) => format!("DeleteAll {}", z(*t)),
        St::UpdEq(t, sc, sv, wc, wv) => format!("UpdateEq {} {} ({}) {} ({})", z(*t), z(*sc), v_coq(sv), z(*wc), v_coq(wv)),
        St::UpdAll(t, sc, sv) => format!("UpdateAll {} {} ({})", z(*t), z(*sc), v_coq(sv)),
        St::Add(t, c) => format!("AddCol {} ({})", z(*t), col_coq(c)),
        St::DropC(t, c, e) => format!("DropCol {} {} {}", z(*t), z(*c), cbool(*e)),
        St::Ren(t, c, n) => format!("RenameCol {} {} {}", z(*t), z(*c), z(*n)),
        St::Trunc(t, r) => format!("Truncate {} {}", z(*t), cbool(*r)),
        St::CrIdx(i, t, c) => format!("CreateIndex {} {} {}", z(*i), z(*t), z(*c)),
        St::DrIdx(i) => format!("DropIndex {}", z(*i)),
        St::Reopen => "Reopen".into(),
    }
}
fn obs_coq(o: &Obs) -> String {
    match o {
        Obs::None => "TNone".into(),
        Obs::Err => "TErr".into(),
        Obs::Rows(n, r) => format!("TRows {} {}", clist(&n.iter().map(|x| z(*x)).collect::<Vec<_>>()),
                                   clist(&r.iter().map(|x| row_coq(x)).collect::<Vec<_>>())),
    }
}

// ------------------------------------------------------------------ replay-line parser
fn p_i(s: &str) -> Option<i64> { s.parse().ok() }
fn p_v(s: &str) -> Option<V> {
    if s == "n" { return Some(V::N); }
    if let Some(r) = s.strip_prefix('i') { return p_i(r).map(V::I); }
    if let Some(r) = s.strip_prefix('t') { return p_i(r).map(V::T); }
    None
}
fn p_col(s: &str) -> Option<Col> {
    let p: Vec<&str> = s.split(':').collect();
    if p.len() != 3 { return None; }
    Some(Col { name: p_i(p[0])?, ty: p_i(p[1])?, def: p_v(p[2])? })
}
fn p_st(s: &str) -> Option<St> {
    let w: Vec<&str> = s.split_whitespace().collect();
    if w.is_empty() { return None; }
    let a = |i: usize| -> Option<&str> { w.get(i).copied() };
    Some(match w[0] {
        "C" => St::Create(p_i(a(1)?)?, match a(2) { Some(x) => x.split(',').map(p_col).collect::<Option<Vec<_>>>()?, None => vec![] }),
        "X" => St::DropT(p_i(a(1)?)?),
        "I" => St::Ins(p_i(a(1)?)?, match a(2) { Some(x) => x.split(',').map(p_v).collect::<Option<Vec<_>>>()?, None => vec![] }),
        "J" => St::InsOne(p_i(a(1)?)?, p_i(a(2)?)?, p_v(a(3)?)?),
        "D" => St::DelEq(p_i(a(1)?)?, p_i(a(2)?)?, p_v(a(3)?)?),
        "E" => St::DelAll(p_i(a(1)?)?),
        "U" => St::UpdEq(p_i(a(1)?)?, p_i(a(2)?)?, p_v(a(3)?)?, p_i(a(4)?)?, p_v(a(5)?)?),
        "V" => St::UpdAll(p_i(a(1)?)?, p_i(a(2)?)?, p_v(a(3)?)?),
        "A" => St::Add(p_i(a(1)?)?, p_col(a(2)?)?),
        "K" => St::DropC(p_i(a(1)?)?, p_i(a(2)?)?, a(3)? == "1"),
        "R" => St::Ren(p_i(a(1)?)?, p_i(a(2)?)?, p_i(a(3)?)?),
        "T" => St::Trunc(p_i(a(1)?)?, a(2)? == "1"),
        "N" => St::CrIdx(p_i(a(1)?)?, p_i(a(2)?)?, p_i(a(3)?)?),
        "M" => St::DrIdx(p_i(a(1)?)?),
        "O" => St::Reopen,
        _ => return None,
    })
}
fn parse_line(l: &str) -> Option<Vec<St>> {
    let r = l.strip_prefix("h ")?;
    r.split(';').map(|s| p_st(s.trim())).collect()
}
fn hist_line(h: &[St]) -> String { format!("h {}", h.iter().map(st_line).collect::<Vec<_>>().join("; ")) }

// ------------------------------------------------------------------ the relational model (port of Model/DdlSpec.v)
#[derive(Clone, Default)]
struct STbl { cols: Vec<Col>, rows: Vec<Vec<V>> }
#[derive(Clone, Default)]
struct Spec { tabs: Vec<(i64, STbl)>, idx: Vec<(i64, i64, i64)> }
fn fits(ty: i64, v: &V) -> bool {
    match v {
        V::N => true,
        V::I(x) => (ty == 0 && *x >= i32::MIN as i64 && *x <= i32::MAX as i64) || ty == 1,
        V::T(_) => ty == 2,
    }
}
fn sql_eq(a: &V, b: &V) -> bool { matches!((a, b), (V::I(x), V::I(y)) if x == y) || matches!((a, b), (V::T(x), V::T(y)) if x == y) }
impl Spec {
    fn tab(&self, t: i64) -> Option<usize> { self.tabs.iter().position(|p| p.0 == t) }
    fn step(&mut self, st: &St) -> bool {
        match st {
            St::Create(t, cs) => {
                if self.tab(*t).is_some() || cs.is_empty() { return false; }
                for (i, c) in cs.iter().enumerate() {
                    if cs[i + 1..].iter().any(|d| d.name == c.name) || !fits(c.ty, &c.def) { return false; }
                }
                self.tabs.push((*t, STbl { cols: cs.clone(), rows: vec![] }));
                true
            }
            St::DropT(t) => match self.tab(*t) {
                Some(k) => { self.tabs.remove(k); self.idx.retain(|e| e.1 != *t); true }
                None => false,
            },
            St::Reopen => true,
            St::CrIdx(i, t, c) => match self.tab(*t) {
                Some(k) => {
                    if self.idx.iter().any(|e| e.0 == *i) || !self.tabs[k].1.cols.iter().any(|x| x.name == *c) { return false; }
                    self.idx.push((*i, *t, *c));
                    true
                }
                None => false,
            },
            St::DrIdx(i) => {
                if !self.idx.iter().any(|e| e.0 == *i) { return false; }
                self.idx.retain(|e| e.0 != *i);
                true
            }
            St::Ins(t, _) | St::InsOne(t, _, _) | St::DelEq(t, _, _) | St::DelAll(t) | St::UpdEq(t, _, _, _, _)
            | St::UpdAll(t, _, _) | St::Add(t, _) | St::DropC(t, _, _) | St::Ren(t, _, _) | St::Trunc(t, _) => {
                let k = match self.tab(*t) { Some(k) => k, None => return false };
                let tb = &mut self.tabs[k].1;
                let find = |cs: &Vec<Col>, c: i64| cs.iter().position(|x| x.name == c);
                match st {
                    St::Ins(_, r) => {
                        if r.len() != tb.cols.len() || !tb.cols.iter().zip(r).all(|(c, v)| fits(c.ty, v)) { return false; }
                        tb.rows.push(r.clone());
                        true
                    }
                    St::InsOne(_, c, v) => match find(&tb.cols, *c) {
                        Some(i) if fits(tb.cols[i].ty, v) => {
                            let mut r: Vec<V> = tb.cols.iter().map(|x| x.def.clone()).collect();
                            r[i] = v.clone();
                            tb.rows.push(r);
                            true
                        }
                        _ => false,
                    },
                    St::DelEq(_, c, v) => match find(&tb.cols, *c) {
                        Some(i) => { tb.rows.retain(|r| !sql_eq(&r[i], v)); true }
                        None => false,
                    },
                    St::DelAll(_) | St::Trunc(_, _) => { tb.rows.clear(); true }
                    St::UpdEq(_, sc, sv, wc, wv) => match (find(&tb.cols, *sc), find(&tb.cols, *wc)) {
                        (Some(i), Some(j)) if fits(tb.cols[i].ty, sv) => {
                            for r in tb.rows.iter_mut() { if sql_eq(&r[j], wv) { r[i] = sv.clone(); } }
                            true
                        }
                        _ => false,
                    },
                    St::UpdAll(_, sc, sv) => match find(&tb.cols, *sc) {
                        Some(i) if fits(tb.cols[i].ty, sv) => { for r in tb.rows.iter_mut() { r[i] = sv.clone(); } true }
                        _ => false,
                    },
                    St::Add(_, c) => {
                        if find(&tb.cols, c.name).is_some() || !fits(c.ty, &c.def) { return false; }
                        tb.cols.push(c.clone());
                        for r in tb.rows.iter_mut() { r.push(c.def.clone()); }
                        true
                    }
                    St::DropC(_, c, _) => match find(&tb.cols, *c) {
                        Some(i) if tb.cols.len() > 1 => {
                            tb.cols.remove(i);
                            for r in tb.rows.iter_mut() { r.remove(i); }
                            let (t, c) = (*t, *c);
                            self.idx.retain(|e| !(e.1 == t && e.2 == c));
                            true
                        }
                        _ => false,
                    },
                    St::Ren(_, c, n) => match find(&tb.cols, *c) {
                        Some(i) if find(&tb.cols, *n).is_none() => {
                            tb.cols[i].name = *n;
                            let (t, c, n) = (*t, *c, *n);
                            for e in self.idx.iter_mut() { if e.1 == t && e.2 == c { e.2 = n; } }
                            true
                        }
                        _ => false,
                    },
                    _ => unreachable!(),
                }
            }
        }
    }
    fn obs(&self, t: i64) -> Obs {
        match self.tab(t) {
            Some(k) => Obs::Rows(self.tabs[k].1.cols.iter().map(|c| c.name).collect(), self.tabs[k].1.rows.clone()),
            None => Obs::None,
        }
    }
}
fn key(r: &Vec<V>) -> String { r.iter().map(v_line).collect::<Vec<_>>().join(",") }
fn obs_spec_eq(m: &Obs, o: &Obs) -> bool {
    match (m, o) {
        (Obs::None, Obs::None) => true,
        (Obs::Rows(n, r), Obs::Rows(n2, r2)) => {
            let mut a: Vec<String> = r.iter().map(key).collect();
            let mut b: Vec<String> = r2.iter().map(key).collect();
            a.sort(); b.sort();
            n == n2 && a == b
        }
        _ => false,
    }
}

// ------------------------------------------------------------------ the implementation
struct Sut { dir: PathBuf, db: Option<Database>, n: u64 }
fn scratch_root() -> PathBuf {
    let shm = PathBuf::from("/dev/shm");
    let base = if shm.is_dir() { shm } else { PathBuf::from("/verif/build/tmp") };
    base.join(format!("c21-{}", std::process::id()))
}
impl Sut {
    fn new() -> Sut {
        let dir = scratch_root();
        let _ = std::fs::remove_dir_all(&dir);
        std::fs::create_dir_all(&dir).expect("scratch dir");
        Sut { dir, db: None, n: 0 }
    }
    fn path(&self) -> PathBuf { self.dir.join(format!("db{}", self.n)) }
    fn fresh(&mut self) {
        self.db = None;
        let _ = std::fs::remove_dir_all(self.path());
        self.n += 1;
        self.db = Some(Database::create(self.path()).expect("create database"));
    }
    fn reopen(&mut self) -> bool {
        let mut ok = true;
        if let Some(d) = self.db.take() {
            let r = catch(std::panic::AssertUnwindSafe(|| d.close().is_ok()));
            ok = matches!(r, Caught::Done(true));
            drop(d);
        }
        match catch(std::panic::AssertUnwindSafe(|| Database::open(self.path()))) {
            Caught::Done(Ok(d)) => { self.db = Some(d); ok }
            _ => { self.db = None; false }
        }
    }
    fn exec(&mut self, st: &St) -> bool {
        let sql = match st_sql(st) { Some(s) => s, None => return self.reopen() };
        let db = match self.db.as_ref() { Some(d) => d, None => return false };
        match catch(std::panic::AssertUnwindSafe(|| db.execute(&sql).is_ok())) {
            Caught::Done(b) => b,
            Caught::Panicked(_) => { let _ = self.reopen(); false }
        }
    }
    fn observe(&mut self, t: i64) -> Obs {
        let db = match self.db.as_ref() { Some(d) => d, None => return Obs::Err };
        let sql = format!("SELECT * FROM t{}", t);
        match catch(std::panic::AssertUnwindSafe(|| db.query_with_columns(&sql).map_err(|e| format!("{:#}", e)))) {
            Caught::Done(Ok((names, rows))) => {
                let ns = names.iter().map(|n| n.strip_prefix('c').and_then(|r| r.parse().ok()).unwrap_or(-1)).collect();
                let rs = rows.iter().map(|r| r.values.iter().map(|v| match v {
                    OwnedValue::Null => V::N,
                    OwnedValue::Int(i) => V::I(*i),
                    OwnedValue::Text(s) => match s.strip_prefix('s').and_then(|r| r.parse::<i64>().ok()) { Some(k) => V::T(k), None => V::T(-1) },
                    _ => V::T(-2),
                }).collect()).collect();
                Obs::Rows(ns, rs)
            }
            Caught::Done(Err(e)) => if e.contains("not found") { Obs::None } else { Obs::Err },
            Caught::Panicked(_) => { let _ = self.reopen(); Obs::Err }
        }
    }
    fn run(&mut self, h: &[St]) -> Vec<(bool, Vec<Obs>)> {
        self.fresh();
        let mut out = vec![];
        for st in h {
            let ok = self.exec(st);
            let obs = UNIVERSE.iter().map(|t| self.observe(*t)).collect();
            out.push((ok, obs));
        }
        self.db = None;
        let _ = std::fs::remove_dir_all(self.path());
        out
    }
    fn cleanup(&mut self) { self.db = None; let _ = std::fs::remove_dir_all(&self.dir); }
}

// ------------------------------------------------------------------ generator
/// what the generator remembers about a table beyond the relational model
#[derive(Clone, Default)]
struct Track { maybe_tomb: bool, maybe_stored: bool, short: bool }
struct Gen<'a> { rng: &'a mut Rng, spec: Spec, track: Vec<(i64, Track)>, avoid: bool, dropped_text: Vec<i64>, spec_before_drop_text: bool, ever_text: Vec<i64> }
impl<'a> Gen<'a> {
    fn val(&mut self, ty: i64, allow_null: bool) -> V {
        if allow_null && self.rng.chance(1, 6) { return V::N; }
        match ty {
            0 => if self.rng.chance(1, 12) { V::I(*self.rng.pick(&[2147483647i64, -2147483648, 0, -1])) } else { V::I(self.rng.range(-2, 7)) },
            1 => if self.rng.chance(1, 12) { V::I(*self.rng.pick(&[i64::MAX, i64::MIN + 1, 4294967296, -4294967297])) } else { V::I(self.rng.range(-2, 7)) },
            _ => V::T(self.rng.range(0, 5)),
        }
    }
    fn newcol(&mut self, name: i64, with_default: bool) -> Col { self.newcol_ty(name, with_default, false) }
    fn newcol_ty(&mut self, name: i64, with_default: bool, no_text: bool) -> Col {
        let ty = self.rng.range(0, if no_text { 1 } else { 2 });
        // DEFAULT of a negative number is silently dropped by the DDL code (expr_to_default_string): kept out
        let def = if with_default { let mut v = self.val(ty, false); if let V::I(x) = v { if x < 0 || x > 1000 { v = V::I(7); } } v } else { V::N };
        Col { name, ty, def }
    }
    fn tomb(&mut self, t: i64) -> &mut Track {
        if let Some(k) = self.track.iter().position(|p| p.0 == t) { return &mut self.track[k].1; }
        self.track.push((t, Track::default()));
        &mut self.track.last_mut().unwrap().1
    }
    fn free_name(&mut self, cols: &[Col]) -> i64 {
        for _ in 0..20 { let n = self.rng.range(0, 7); if !cols.iter().any(|c| c.name == n) { return n; } }
        8 + cols.len() as i64
    }
    /// one statement, mostly valid for the current state
    fn stmt(&mut self) -> St {
        let existing: Vec<i64> = self.spec.tabs.iter().map(|p| p.0).collect();
        if existing.is_empty() || (existing.len() < 3 && self.rng.chance(1, 14)) {
            let t = *self.rng.pick(&UNIVERSE.iter().copied().filter(|t| !existing.contains(t)).collect::<Vec<_>>());
            let n = 1 + self.rng.below(4) as usize;
            let mut cs: Vec<Col> = vec![];
            // a dropped table leaves its TOAST file behind: a new table of that name must not need one
            let no_text = self.dropped_text.contains(&t);
            for _ in 0..n { let name = self.free_name(&cs); let d = self.rng.chance(1, 4); cs.push(self.newcol_ty(name, d, no_text)); }
            return St::Create(t, cs);
        }
        // harmless malformed statements: errors on both sides
        if self.rng.chance(1, 14) {
            let t = *self.rng.pick(&existing);
            let missing_t = UNIVERSE.iter().copied().find(|t| !existing.contains(t)).unwrap_or(9);
            let cols = self.spec.tabs[self.spec.tab(t).unwrap()].1.cols.clone();
            let fresh = self.free_name(&cols);
            return match self.rng.below(9) {
                0 => St::Create(t, vec![self.newcol_ty(0, false, true)]),
                1 => St::DropT(missing_t),
                2 => St::Add(missing_t, Col { name: 1, ty: 0, def: V::N }),
                3 => St::DropC(t, fresh, true),
                4 => St::Ren(t, fresh, fresh + 1),
                5 => St::Trunc(missing_t, false),
                6 => St::DrIdx(90 + self.rng.range(0, 3)),
                7 => St::Ins(missing_t, vec![V::I(1)]),
                _ => St::CrIdx(missing_t * 10, missing_t, 0),
            };
        }
        let t = *self.rng.pick(&existing);
        let k = self.spec.tab(t).unwrap();
        let cols = self.spec.tabs[k].1.cols.clone();
        let rows = self.spec.tabs[k].1.rows.clone();
        let tomb = self.tomb(t).maybe_tomb;
        let short = self.tomb(t).short;
        // an explicit NULL for a column with a DEFAULT is stored as the default (INSERT's business, not C21's)
        let nullable = |c: &Col| c.def == V::N;
        let pickcol = |g: &mut Gen| -> usize { g.rng.below(cols.len() as u64) as usize };
        for _ in 0..30 {
            let w = self.rng.below(100);
            match w {
                0..=29 => { let r: Vec<V> = cols.iter().map(|c| self.val(c.ty, nullable(c))).collect(); return St::Ins(t, r); }
                30..=34 => { let i = pickcol(self); let v = self.val(cols[i].ty, nullable(&cols[i])); return St::InsOne(t, cols[i].name, v); }
                35..=43 => {
                    if self.avoid && short { continue; }
                    let i = pickcol(self);
                    let v = if !rows.is_empty() && self.rng.chance(3, 4) { let r = self.rng.pick(&rows).clone(); r[i].clone() } else { self.val(cols[i].ty, false) };
                    if v == V::N { continue; }
                    return St::DelEq(t, cols[i].name, v);
                }
                44..=45 => { if self.avoid && short { continue; } return St::DelAll(t) }
                46..=52 => {
                    if self.avoid && short { continue; }
                    let i = pickcol(self); let j = pickcol(self);
                    let wv = if !rows.is_empty() && self.rng.chance(3, 4) { let r = self.rng.pick(&rows).clone(); r[j].clone() } else { self.val(cols[j].ty, false) };
                    if wv == V::N { continue; }
                    let sv = self.val(cols[i].ty, nullable(&cols[i]));
                    return St::UpdEq(t, cols[i].name, sv, cols[j].name, wv);
                }
                53..=54 => { if self.avoid && short { continue; } let i = pickcol(self); let sv = self.val(cols[i].ty, nullable(&cols[i])); return St::UpdAll(t, cols[i].name, sv); }
                55..=67 => {
                    if cols.len() >= 6 { continue; }
                    let name = self.free_name(&cols);
                    let mut d = self.rng.chance(2, 5);
                    if self.avoid && !rows.is_empty() { d = false; }
                    return St::Add(t, self.newcol(name, d));
                }
                68..=76 => {
                    if cols.len() <= 1 { continue; }
                    let i = pickcol(self);
                    let _ = tomb;
                    // the name spelled in the other letter case must behave the same (c3e8980)
                    return St::DropC(t, cols[i].name, !self.rng.chance(1, 4));
                }
                77..=82 => {
                    let i = pickcol(self);
                    if self.avoid && self.spec.idx.iter().any(|e| e.1 == t && e.2 == cols[i].name) { continue; }
                    let n = self.free_name(&cols);
                    return St::Ren(t, cols[i].name, n);
                }
                83..=86 => return St::Trunc(t, self.rng.chance(1, 3)),
                87..=90 => {
                    if self.avoid && short { continue; }
                    // a CREATE INDEX that fails on an existing name still registers a second definition (later INSERTs fail): kept out
                    let name = t * 10 + self.rng.range(0, 2);
                    if self.spec.idx.iter().any(|e| e.0 == name) { continue; }
                    let i = pickcol(self);
                    return St::CrIdx(name, t, cols[i].name);
                }
                91..=92 => return St::DrIdx(t * 10 + self.rng.range(0, 2)),
                93..=97 => return St::Reopen,
                _ => return St::DropT(t),
            }
        }
        St::Reopen
    }
    fn note(&mut self, st: &St, ok: bool) {
        if !ok { return; }
        match st {
            St::DelEq(t, _, _) | St::DelAll(t) => self.tomb(*t).maybe_tomb = true,
            St::Trunc(t, _) | St::Create(t, _) => *self.tomb(*t) = Track::default(),
            St::DropT(t) => {
                let had_text = self.spec_before_drop_text;
                if had_text && !self.dropped_text.contains(t) { self.dropped_text.push(*t); }
                *self.tomb(*t) = Track::default();
            }
            St::DropC(t, _, _) => self.tomb(*t).short = false,
            St::UpdAll(t, _, _) => { let k = self.tomb(*t); k.short = k.short && k.maybe_tomb; }
            St::Ins(t, _) | St::InsOne(t, _, _) => self.tomb(*t).maybe_stored = true,
            St::Add(t, _) => { let k = self.tomb(*t); if k.maybe_stored { k.short = true; } }
            _ => {}
        }
    }
    /// a statement of one of the recorded defect classes that only makes sense as the last one
    fn tail(&mut self) -> Option<St> {
        let existing: Vec<i64> = self.spec.tabs.iter().map(|p| p.0).collect();
        if existing.is_empty() { return None; }
        let t = *self.rng.pick(&existing);
        let cols = self.spec.tabs[self.spec.tab(t).unwrap()].1.cols.clone();
        let i = self.rng.below(cols.len() as u64) as usize;
        Some(match self.rng.below(5) {
            0 => St::DropC(t, cols[i].name, false),
            1 => { let mut c = self.newcol(cols[i].name, false); c.def = V::N; St::Add(t, c) }
            2 => { if cols.len() < 2 { return None; } let j = (i + 1) % cols.len(); St::Ren(t, cols[i].name, cols[j].name) }
            3 => { let n = self.free_name(&cols); St::CrIdx(t * 10 + 3, t, n) }
            _ => { if cols.len() != 1 { return None; } St::DropC(t, cols[0].name, true) }
        })
    }
}
fn gen_history(rng: &mut Rng, thorough: bool) -> Vec<St> {
    let avoid = !rng.chance(1, 4);
    let len = if thorough { rng.range(4, 22) } else { rng.range(4, 14) } as usize;
    let want_tail = rng.chance(1, 10);
    let mut g = Gen { rng, spec: Spec::default(), track: vec![], avoid, dropped_text: vec![], spec_before_drop_text: false, ever_text: vec![] };
    let mut h = vec![];
    for _ in 0..len {
        let st = g.stmt();
        // the TOAST file exists when the table was CREATEd with a TEXT column; later ADD / DROP COLUMN do not matter,
        // remembered conservatively: any TEXT column now or a table that ever had one
        if let St::DropT(t) = &st { g.spec_before_drop_text = g.spec.tab(*t).map(|k| g.spec.tabs[k].1.cols.iter().any(|c| c.ty == 2)).unwrap_or(false) || g.ever_text.contains(t); }
        if let St::Create(t, cs) = &st { if cs.iter().any(|c| c.ty == 2) && !g.ever_text.contains(t) { g.ever_text.push(*t); } }
        let ok = g.spec.step(&st);
        g.note(&st, ok);
        h.push(st);
    }
    if want_tail { if let Some(st) = g.tail() { h.push(st); if g.rng.chance(1, 2) { h.push(St::Reopen); } } }
    h
}

fn letter(st: &St) -> char {
    match st {
        St::Create(..) => 'C', St::DropT(..) => 'X', St::Ins(..) | St::InsOne(..) => 'I', St::DelEq(..) | St::DelAll(..) => 'D',
        St::UpdEq(..) | St::UpdAll(..) => 'U', St::Add(..) => 'A', St::DropC(..) => 'K', St::Ren(..) => 'R', St::Trunc(..) => 'T',
        St::CrIdx(..) => 'N', St::DrIdx(..) => 'M', St::Reopen => 'O',
    }
}
/// distribution bucket: which schema-change kinds the history contains
fn kind_of(h: &[St]) -> String {
    let mut s = String::new();
    for c in ['A', 'K', 'R', 'T', 'O'] { if h.iter().any(|st| letter(st) == c) { s.push(c); } }
    if s.is_empty() { "dml-only".into() } else { s }
}
/// non-trivial: some ALTER / TRUNCATE / DROP / index statement or reopen succeeds (relational
/// model) on a table that holds at least one row at that moment
fn nontrivial(h: &[St]) -> bool {
    let mut sp = Spec::default();
    for st in h {
        let populated = |sp: &Spec, t: i64| sp.tab(t).map(|k| !sp.tabs[k].1.rows.is_empty()).unwrap_or(false);
        let hit = match st {
            St::Add(t, _) | St::DropC(t, _, _) | St::Ren(t, _, _) | St::Trunc(t, _) | St::DropT(t) | St::CrIdx(_, t, _) => populated(&sp, *t),
            St::Reopen => sp.tabs.iter().any(|p| !p.1.rows.is_empty()),
            _ => false,
        };
        let ok = sp.step(st);
        if hit && ok { return true; }
    }
    false
}

fn case_term(h: &[St], seen: &[(bool, Vec<Obs>)]) -> String {
    let steps: Vec<String> = h.iter().zip(seen).map(|(st, (ok, obs))|
        format!("({}, {}, {})", st_coq(st), cbool(*ok), clist(&obs.iter().map(obs_coq).collect::<Vec<_>>()))).collect();
    format!("Hist {}", clist(&steps))
}

fn gen(a: &Args) {
    let mut rng = Rng::new(a.seed);
    let mut w = CaseWriter::new(&a.out, "C21", "Corr.C21", 60);
    let mut sut = Sut::new();
    let hs: Vec<(Vec<St>, String)> = if let Some(lines) = a.replay_lines() {
        lines.iter().filter_map(|l| parse_line(l).map(|h| (h, "replay".to_string()))).collect()
    } else {
        let n = if a.thorough() { 6000 } else { 300 };
        (0..n).map(|_| { let h = gen_history(&mut rng, a.thorough()); let k = kind_of(&h); (h, k) }).collect()
    };
    let mut stmts = 0u64;
    let mut reopens = 0u64;
    for (h, kind) in &hs {
        let seen = sut.run(h);
        stmts += h.len() as u64;
        reopens += h.iter().filter(|s| **s == St::Reopen).count() as u64;
        w.push(case_term(h, &seen), hist_line(h), nontrivial(h), kind);
    }
    sut.cleanup();
    w.finish(&[("statements".into(), format!("{}", stmts)), ("reopens".into(), format!("{}", reopens))]);
}

/// Oracle only: the relational model against the implementation.
fn search(a: &Args) {
    let mut rng = Rng::new(a.seed ^ 0xC21_5EA);
    let mut sut = Sut::new();
    let mut fails: Vec<String> = vec![];
    let mut tried = 0u64;
    let budget = a.budget.min(20_000);
    while tried < budget && fails.len() < 40 {
        let h = gen_history(&mut rng, true);
        let seen = sut.run(&h);
        let mut sp = Spec::default();
        let mut bad = false;
        for (st, (ok, obs)) in h.iter().zip(&seen) {
            let sok = sp.step(st);
            if sok != *ok { bad = true; break; }
            for (t, o) in UNIVERSE.iter().zip(obs) { if !obs_spec_eq(&sp.obs(*t), o) { bad = true; } }
            if bad { break; }
        }
        if bad { fails.push(hist_line(&h)); }
        tried += 1;
    }
    sut.cleanup();
    let mut out = format!("tried={}\n", tried);
    for f in &fails { out.push_str("FAIL "); out.push_str(f); out.push('\n'); }
    std::fs::write(&a.out, out).expect("write search output");
}

// ------------------------------------------------------------------ development aids
/// `diff [--lines F]`: first step where the implementation leaves the relational model
fn diff_mode(a: &Args) {
    let mut rng = Rng::new(a.seed);
    let mut sut = Sut::new();
    let hs: Vec<Vec<St>> = if let Some(lines) = a.replay_lines() { lines.iter().filter_map(|l| parse_line(l)).collect() }
        else { (0..300).map(|_| gen_history(&mut rng, false)).collect() };
    for (n, h) in hs.iter().enumerate() {
        let seen = sut.run(h);
        let mut sp = Spec::default();
        for (k, (st, (ok, obs))) in h.iter().zip(&seen).enumerate() {
            let sok = sp.step(st);
            let mut bad = sok != *ok;
            for (t, o) in UNIVERSE.iter().zip(obs) { if !obs_spec_eq(&sp.obs(*t), o) { bad = true; } }
            if bad {
                println!("#{} step {}: {}\n   {}\n   spec ok={} impl ok={}", n, k, hist_line(h), st_sql(st).unwrap_or("REOPEN".into()), sok, ok);
                for (t, o) in UNIVERSE.iter().zip(obs) { if !obs_spec_eq(&sp.obs(*t), o) { println!("   t{}: spec {:?}\n       impl {:?}", t, sp.obs(*t), o); } }
                break;
            }
        }
    }
    sut.cleanup();
}
fn show(v: &OwnedValue) -> String {
    match v {
        OwnedValue::Null => "NULL".into(),
        OwnedValue::Int(i) => format!("{}", i),
        OwnedValue::Text(s) => format!("'{}'", s),
        o => format!("{:?}", o),
    }
}
fn sql_mode(a: &Args) {
    let file = a.rest.get(0).expect("file");
    let mut sut = Sut::new();
    sut.fresh();
    let mut script: Vec<String> = vec![];
    for l in std::fs::read_to_string(file).unwrap().lines() {
        let l = l.trim();
        if let Some(h) = parse_line(l) {
            for st in &h { script.push(st_sql(st).unwrap_or("REOPEN".into())); for t in UNIVERSE { script.push(format!("SELECT * FROM t{}", t)); } }
        } else { script.push(l.to_string()); }
    }
    for l in &script {
        let l = l.trim();
        if l.is_empty() || l.starts_with('#') { continue; }
        if l == "REOPEN" { println!("REOPEN => {}", sut.reopen()); continue; }
        let d = match sut.db.as_ref() { Some(d) => d, None => { println!("(no database)"); continue; } };
        let l2 = l.to_string();
        if l.to_uppercase().starts_with("SELECT") {
            match catch(std::panic::AssertUnwindSafe(|| d.query_with_columns(&l2))) {
                Caught::Done(Ok((cols, rows))) => {
                    let s: Vec<String> = rows.iter().map(|r| format!("({})", r.values.iter().map(show).collect::<Vec<_>>().join(","))).collect();
                    println!("{}\n   => [{}] {}", l, cols.join(","), s.join(" "));
                }
                Caught::Done(Err(e)) => println!("{}\n   => ERR {:#}", l, e),
                Caught::Panicked(m) => println!("{}\n   => PANIC {}", l, m),
            }
        } else {
            match catch(std::panic::AssertUnwindSafe(|| d.execute(&l2))) {
                Caught::Done(Ok(r)) => println!("{}\n   => OK {:?}", l, r),
                Caught::Done(Err(e)) => println!("{}\n   => ERR {:#}", l, e),
                Caught::Panicked(m) => println!("{}\n   => PANIC {}", l, m),
            }
        }
    }
    sut.cleanup();
}

fn main() {
    let a = Args::parse();
    if std::env::var("C21_DEBUG").is_ok() { let _ = std::panic::take_hook(); }
    match a.mode.as_str() {
        "gen" => gen(&a),
        "search" => search(&a),
        "sql" => sql_mode(&a),
        "diff" => diff_mode(&a),
        _ => { eprintln!("c21: unknown mode"); std::process::exit(2); }
    }
}
