(* C36 proofs, part 4: the inductive invariant of the page-lock protocol and its preservation
   by every atomic step (both the code as it is, fx = false, and the repaired cleanup). *)
From Coq Require Import ZArith List Bool Arith Lia.
From TV Require Import Lib.Interleave Model.PageLocks Proof.PageLocksBase Proof.PageLocksStep Proof.PageLocksShape.
Import ListNotations.
Open Scope Z_scope.

Record Inv (s : St) : Prop := mkInv {
  i_nodup : NoDup (map fst (ths s));
  (* the RwLock word and ref_count of every entry say exactly what the threads own *)
  i_w : forall i, tsum (th_w i) (ths s) = b2n (e_w (eget (s_ents (sh s)) i));
  i_r : forall i, Z.of_nat (tsum (th_r i) (ths s)) = e_rd (eget (s_ents (sh s)) i);
  i_ref : forall i, Z.of_nat (tsum (th_ref i) (ths s)) = e_ref (eget (s_ents (sh s)) i);
  i_wh : forall i, (0 < tsum (th_wh i) (ths s))%nat -> e_rd (eget (s_ents (sh s)) i) = 0;
  i_mapwf : forall k e, mget k (s_map (sh s)) = Some e -> (e < length (s_ents (sh s)))%nat;
  i_clean : forall t th k e, In (t, th) (ths s) -> th_pc th = PClean k e -> (e < length (s_ents (sh s)))%nat;
  (* an entry that is in the map is only ever mentioned under its own page *)
  i_key : forall k e, mget k (s_map (sh s)) = Some e ->
          forall t th k', In (t, th) (ths s) -> mentions th k' e -> k' = k;
  (* an entry that is in the map is referenced, or somebody is on the way to remove it *)
  i_live : forall k e, mget k (s_map (sh s)) = Some e ->
           0 < e_ref (eget (s_ents (sh s)) e) \/ exists t th, In (t, th) (ths s) /\ th_pc th = PClean k e;
  (* unless a cleanup removed a live entry: who is between get_or_create and force_unlock uses
     the entry that the map holds for the page *)
  i_coh : s_bad (sh s) = false ->
          forall t th k e, In (t, th) (ths s) -> cohref th k e -> mget k (s_map (sh s)) = Some e }.

Lemma In_lset_other {L} (l : list (nat * L)) t v u x : u <> t -> In (u, x) l -> In (u, x) (lset l t v).
Proof.
  intros Hne. induction l as [|[k w] r IH]; cbn [lset]; [intros []|].
  destruct (Nat.eqb k t) eqn:E.
  - apply Nat.eqb_eq in E. subst k. intros [H|H]; [inversion H; congruence | right; auto].
  - intros [H|H]; [left; auto | right; auto].
Qed.

Lemma mentions_ref th k e : mentions th k e -> (0 < th_ref e th)%nat \/ th_pc th = PClean k e.
Proof.
  unfold th_ref. intros [H|[g (Hi & _ & He)]].
  - destruct (th_pc th); cbn [pc_key] in H; try discriminate; inversion H; subst; auto; left; cbn [pc_ref on];
      rewrite Nat.eqb_refl; lia.
  - left. assert (0 < gcount (gref e) (th_pg th))%nat; [|lia]. eapply In_gcount_pos; eauto.
    unfold gref. rewrite He. apply Nat.eqb_refl.
Qed.

Lemma inv_local s t th : Inv s -> In (t, th) (ths s) -> Local (sh s) th.
Proof.
  intros I Hin. repeat split.
  - intros i. rewrite <- (i_w s I i). apply (tsum_In_le (th_w i) _ t th Hin).
  - intros i. rewrite <- (i_r s I i). apply inj_le. apply (tsum_In_le (th_r i) _ t th Hin).
  - intros i. rewrite <- (i_ref s I i). apply inj_le. apply (tsum_In_le (th_ref i) _ t th Hin).
  - apply (i_mapwf s I).
Qed.

Lemma ref_pos_of_thread s t th e : Inv s -> In (t, th) (ths s) -> (0 < th_ref e th)%nat ->
  0 < e_ref (eget (s_ents (sh s)) e).
Proof.
  intros I Hin H. rewrite <- (i_ref s I e). assert (H1 := tsum_In_le (th_ref e) _ t th Hin). lia.
Qed.

(* ---------------------------------------------------------------- initial state *)
Lemma init_ths_fst i progs : map fst (init_ths i progs) = seq i (length progs).
Proof. revert i; induction progs as [|p r IH]; intros i; cbn [init_ths map fst length seq]; [auto | rewrite IH; auto]. Qed.

Lemma init_ths_shape i progs t th : In (t, th) (init_ths i progs) -> th_pc th = PPark 0 /\ th_pg th = [] /\ th_tg th = [].
Proof.
  revert i; induction progs as [|p r IH]; intros i; cbn [init_ths]; [intros []|].
  intros [H|H]; [inversion H; subst; cbn; auto | eauto].
Qed.

Lemma inv_init progs : Inv (init progs).
Proof.
  assert (Hz : forall (f : thread -> nat), (forall th, th_pc th = PPark 0 -> th_pg th = [] -> f th = 0%nat) ->
               tsum f (init_ths 0 progs) = 0%nat).
  { intros f Hf. apply tsum_zero. intros t v Hin. destruct (init_ths_shape _ _ _ _ Hin) as (H1 & H2 & _). auto. }
  assert (Hw : forall i, tsum (th_w i) (init_ths 0 progs) = 0%nat)
    by (intros i; apply Hz; intros th H1 H2; unfold th_w; rewrite H1, H2; reflexivity).
  assert (Hh : forall i, tsum (th_wh i) (init_ths 0 progs) = 0%nat)
    by (intros i; apply Hz; intros th H1 H2; unfold th_wh; rewrite H1, H2; reflexivity).
  assert (Hr : forall i, tsum (th_r i) (init_ths 0 progs) = 0%nat)
    by (intros i; apply Hz; intros th H1 H2; unfold th_r; rewrite H1, H2; reflexivity).
  assert (Hf : forall i, tsum (th_ref i) (init_ths 0 progs) = 0%nat)
    by (intros i; apply Hz; intros th H1 H2; unfold th_ref; rewrite H1, H2; reflexivity).
  assert (He : forall i, eget [] i = e0) by (intros i; apply eget_out; cbn; lia).
  constructor; unfold init; cbn [ths sh sh0 s_ents s_map s_bad].
  - rewrite init_ths_fst. apply seq_NoDup.
  - intros i. rewrite Hw, He. reflexivity.
  - intros i. rewrite Hr, He. reflexivity.
  - intros i. rewrite Hf, He. reflexivity.
  - intros i. rewrite Hh. lia.
  - intros k e H. cbn in H. discriminate.
  - intros t th k e Hin Hpc. destruct (init_ths_shape _ _ _ _ Hin) as (H1 & _). congruence.
  - intros k e H. cbn in H. discriminate.
  - intros k e H. cbn in H. discriminate.
  - intros _ t th k e Hin [Hc|[g (Hi & _)]]; destruct (init_ths_shape _ _ _ _ Hin) as (H1 & H2 & _).
    + rewrite H1 in Hc. cbn in Hc. discriminate.
    + rewrite H2 in Hi. destruct Hi.
Qed.

(* ---------------------------------------------------------------- preservation *)
Lemma step_inv fx t s s' : Inv s -> step fx t s = Some s' -> Inv s'.
Proof.
  intros I Hs. unfold step in Hs.
  destruct (lget (ths s) t) as [th|] eqn:Hget; [|discriminate].
  destruct (tstep fx (sh s) th) as [[sh' th']|] eqn:Hstep; [|discriminate].
  inversion Hs; subst s'; clear Hs.
  assert (Hin : In (t, th) (ths s)) by (apply lget_In; exact Hget).
  assert (HL : Local (sh s) th) by (eapply inv_local; eauto).
  assert (HD := fun i => delta fx _ _ _ _ i Hstep HL).
  assert (Hsum := fun f => tsum_lset f (ths s) t th' th Hget).
  assert (Hin' : In (t, th') (lset (ths s) t th')) by (apply lget_In, lget_lset_same).
  assert (Hsplit : forall u x, In (u, x) (lset (ths s) t th') -> x = th' \/ In (u, x) (ths s)).
  { intros u x H. destruct (In_lset _ _ _ _ _ H) as [E|E]; [left; congruence | right; exact E]. }
  assert (Hkeep : forall u x, In (u, x) (ths s) -> x = th \/ In (u, x) (lset (ths s) t th')).
  { intros u x H. destruct (Nat.eq_dec u t) as [->|Hne].
    - left. assert (E := NoDup_In_lget _ _ _ (i_nodup s I) H). congruence.
    - right. apply In_lset_other; auto. }
  assert (Hlen := step_len _ _ _ _ _ Hstep).
  assert (HME := step_map_effect _ _ _ _ _ Hstep).
  assert (Hw' : forall i, tsum (th_w i) (lset (ths s) t th') = b2n (e_w (eget (s_ents sh') i))).
  { intros i. destruct (HD i) as (D1 & _). assert (E := i_w s I i). specialize (Hsum (th_w i)). lia. }
  assert (Hr' : forall i, Z.of_nat (tsum (th_r i) (lset (ths s) t th')) = e_rd (eget (s_ents sh') i)).
  { intros i. destruct (HD i) as (_ & D2 & _). assert (E := i_r s I i). specialize (Hsum (th_r i)). lia. }
  assert (Hf' : forall i, Z.of_nat (tsum (th_ref i) (lset (ths s) t th')) = e_ref (eget (s_ents sh') i)).
  { intros i. destruct (HD i) as (_ & _ & D3 & _). assert (E := i_ref s I i). specialize (Hsum (th_ref i)). lia. }
  (* nobody mentions an entry id that does not exist yet *)
  assert (Hfresh : forall u x k, In (u, x) (ths s) -> ~ mentions x k (length (s_ents (sh s)))).
  { intros u x k Hx Hm. destruct (mentions_ref _ _ _ Hm) as [Hp|Hp].
    - assert (H := ref_pos_of_thread _ _ _ _ I Hx Hp). rewrite eget_out in H by lia. cbn in H. lia.
    - assert (H := i_clean s I _ _ _ _ Hx Hp). lia. }
  constructor; cbn [ths sh].
  - rewrite (lset_fst _ _ _ _ Hget). apply (i_nodup s I).
  - exact Hw'.
  - exact Hr'.
  - exact Hf'.
  - (* i_wh *)
    intros i Hpos. destruct (HD i) as (_ & _ & _ & [D4|(D4 & D5)]); [exact D4|].
    assert (Hold : (0 < tsum (th_wh i) (ths s))%nat) by (specialize (Hsum (th_wh i)); lia).
    assert (Hrd := i_wh s I i Hold).
    assert (Hwle : (tsum (th_wh i) (ths s) <= tsum (th_w i) (ths s))%nat)
      by (apply tsum_le; intros; apply th_wh_le_w).
    assert (Hwb := i_w s I i).
    destruct D5 as [D5|[D5|D5]].
    + lia.
    + rewrite D5 in Hwb. cbn [b2n] in Hwb. lia.
    + destruct HL as (_ & Lr & _). specialize (Lr i). lia.
  - (* i_mapwf *)
    intros k e Hm. destruct HME as [Hmap _ _ | w k1 Hnone Hmap _ Hents _ _ _ | k1 e1 _ _ Hmap _ _].
    + rewrite Hmap in Hm. assert (H := i_mapwf s I _ _ Hm). lia.
    + rewrite Hmap in Hm. cbn [mget] in Hm. rewrite Hents, app_length. cbn [length].
      destruct (k1 =? k); [inversion Hm; lia|]. assert (H := i_mapwf s I _ _ Hm). lia.
    + rewrite Hmap in Hm. destruct (Z.eq_dec k k1) as [->|Hne]; [rewrite mget_mrem_same in Hm; discriminate|].
      rewrite (mget_mrem_other _ _ _ Hne) in Hm. assert (H := i_mapwf s I _ _ Hm). lia.
  - (* i_clean *)
    intros u x k e Hx Hpc. destruct (Hsplit _ _ Hx) as [->|Hold].
    + destruct (step_clean _ _ _ _ _ Hstep _ _ Hpc) as (Hp & _).
      assert (H : (e < length (s_ents (sh s)))%nat).
      { eapply ref_in_range; eauto. unfold th_ref. rewrite Hp. cbn [pc_ref on]. rewrite Nat.eqb_refl. lia. }
      lia.
    + assert (H := i_clean s I _ _ _ _ Hold Hpc). lia.
  - (* i_key *)
    intros k e Hm u x k' Hx Hmen.
    destruct HME as [Hmap _ _ | w k1 Hnone Hmap _ Hents Hpc' Hpg' Hpk | k1 e1 Hpc _ Hmap _ _].
    + rewrite Hmap in Hm.
      assert (Hold : forall u x, In (u, x) (ths s) -> mentions x k' e -> k' = k) by (intros; eapply (i_key s I); eauto).
      destruct (Hsplit _ _ Hx) as [->|Hx']; [|eauto].
      destruct (step_mentions _ _ _ _ _ Hstep _ _ Hmen) as [Hm'|(w & _ & _ & Hm')]; [eauto|].
      rewrite Hmap in Hm'.
      (* two bindings of the same entry: its page is determined by whoever keeps it alive *)
      destruct (i_live s I _ _ Hm) as [Hpos|(v & y & Hy & Hc)].
      * rewrite <- (i_ref s I e) in Hpos.
        destruct (tsum_pos_In (th_ref e) (ths s)) as (v & y & Hy & Hp); [lia|].
        assert (Hmy : exists k2, mentions y k2 e).
        { unfold th_ref in Hp. destruct (th_pc y) eqn:Ey; cbn [pc_ref on] in Hp;
            try (destruct (Nat.eqb_spec e0 e); [subst; eexists; left; rewrite Ey; reflexivity|]);
            cbn in Hp;
            (destruct (gcount_pos_In (gref e) (th_pg y)) as (g & Hg1 & Hg2); [lia|];
             exists (g_k g); right; exists g; repeat split; auto; apply Nat.eqb_eq; exact Hg2). }
        destruct Hmy as (k2 & Hk2).
        assert (E1 := i_key s I _ _ Hm _ _ _ Hy Hk2). assert (E2 := i_key s I _ _ Hm' _ _ _ Hy Hk2). congruence.
      * assert (Hk2 : mentions y k e) by (left; rewrite Hc; reflexivity).
        assert (E2 := i_key s I _ _ Hm' _ _ _ Hy Hk2). congruence.
    + rewrite Hmap in Hm. cbn [mget] in Hm.
      assert (Hth' : forall k2 e2, mentions th' k2 e2 -> (k2 = k1 /\ e2 = length (s_ents (sh s))) \/ mentions th k2 e2).
      { intros k2 e2 [H|[g Hg]].
        - rewrite Hpc' in H. cbn in H. inversion H; subst. left; auto.
        - right. right. exists g. rewrite <- Hpg'. exact Hg. }
      destruct (Nat.eq_dec e (length (s_ents (sh s)))) as [->|Hne].
      * destruct (k1 =? k) eqn:Ek; [apply Z.eqb_eq in Ek; subst k1|].
        -- destruct (Hsplit _ _ Hx) as [->|Hx']; [|exfalso; eapply Hfresh; eauto].
           destruct (Hth' _ _ Hmen) as [[? _]|Hmo]; [auto | exfalso; eapply Hfresh; eauto].
        -- assert (H := i_mapwf s I _ _ Hm). lia.
      * destruct (k1 =? k) eqn:Ek; [inversion Hm; congruence|].
        destruct (Hsplit _ _ Hx) as [->|Hx']; [|eapply (i_key s I); eauto].
        destruct (Hth' _ _ Hmen) as [[_ ?]|Hmo]; [congruence | eapply (i_key s I); eauto].
    + rewrite Hmap in Hm. destruct (Z.eq_dec k k1) as [->|Hne]; [rewrite mget_mrem_same in Hm; discriminate|].
      rewrite (mget_mrem_other _ _ _ Hne) in Hm.
      destruct (Hsplit _ _ Hx) as [->|Hx']; [|eapply (i_key s I); eauto].
      destruct (step_mentions _ _ _ _ _ Hstep _ _ Hmen) as [Hm'|(w & _ & Hk & _)]; [eapply (i_key s I); eauto|].
      rewrite Hpc in Hk. cbn in Hk. discriminate.
  - (* i_live *)
    intros k e Hm.
    assert (Hnodrop : forall i, (forall k2, th_pc th <> PUnl k2 i) -> e_ref (eget (s_ents sh') i) >= e_ref (eget (s_ents (sh s)) i)).
    { intros i Hn. destruct (Z_lt_ge_dec (e_ref (eget (s_ents sh') i)) (e_ref (eget (s_ents (sh s)) i))) as [Hlt|]; [|lia].
      destruct (step_ref_drop _ _ _ _ _ i Hstep Hlt) as (k2 & Hp & _). exfalso; eapply Hn; eauto. }
    destruct HME as [Hmap _ Hcl | w k1 Hnone Hmap _ Hents Hpc' Hpg' Hpk | k1 e1 Hpc _ Hmap _ _].
    + rewrite Hmap in Hm. destruct (i_live s I _ _ Hm) as [Hpos|(v & y & Hy & Hc)].
      * destruct (Z_lt_ge_dec (e_ref (eget (s_ents sh') e)) (e_ref (eget (s_ents (sh s)) e))) as [Hlt|]; [|left; lia].
        destruct (step_ref_drop _ _ _ _ _ e Hstep Hlt) as (k2 & Hp & Hone & Hge).
        assert (k2 = k) by (eapply (i_key s I); eauto; left; rewrite Hp; reflexivity). subst k2.
        destruct (Z.eq_dec (e_ref (eget (s_ents (sh s)) e)) 1) as [E1|E1].
        -- right. exists t, th'. split; auto.
        -- left. lia.
      * destruct (Hkeep _ _ Hy) as [->|Hy']; [|right; exists v, y; auto].
        left. assert (Hge : e_ref (eget (s_ents sh') e) >= e_ref (eget (s_ents (sh s)) e))
          by (apply Hnodrop; intros k2; rewrite Hc; discriminate).
        destruct (Hcl _ _ Hc) as [Hnz|[_ Hnm]]; [|congruence].
        assert (H0 := i_ref s I e). lia.
    + rewrite Hmap in Hm. cbn [mget] in Hm. destruct (k1 =? k) eqn:Ek.
      * inversion Hm; subst e. left. rewrite Hents, eget_app_new. cbn. lia.
      * assert (Hlt := i_mapwf s I _ _ Hm). rewrite Hents, (eget_app_old _ _ _ Hlt).
        destruct (i_live s I _ _ Hm) as [Hpos|(v & y & Hy & Hc)]; [left; exact Hpos|].
        right. destruct (Hkeep _ _ Hy) as [->|Hy']; [rewrite Hc in Hpk; cbn in Hpk; discriminate|].
        exists v, y; auto.
    + rewrite Hmap in Hm. destruct (Z.eq_dec k k1) as [->|Hne]; [rewrite mget_mrem_same in Hm; discriminate|].
      rewrite (mget_mrem_other _ _ _ Hne) in Hm.
      destruct (i_live s I _ _ Hm) as [Hpos|(v & y & Hy & Hc)].
      * left. assert (Hge : e_ref (eget (s_ents sh') e) >= e_ref (eget (s_ents (sh s)) e))
          by (apply Hnodrop; intros k2; rewrite Hpc; discriminate). lia.
      * right. destruct (Hkeep _ _ Hy) as [->|Hy']; [congruence|]. exists v, y; auto.
  - (* i_coh *)
    intros Hbad u x k e Hx Hc.
    destruct HME as [Hmap Hb _ | w k1 Hnone Hmap Hb Hents Hpc' Hpg' Hpk | k1 e1 Hpc _ Hmap _ Hb].
    + rewrite Hb in Hbad. rewrite Hmap.
      destruct (Hsplit _ _ Hx) as [->|Hx']; [|eapply (i_coh s I); eauto].
      destruct (step_cohref _ _ _ _ _ Hstep _ _ Hc) as [Hc'|(w & _ & _ & Hm')]; [eapply (i_coh s I); eauto|].
      rewrite Hmap in Hm'. exact Hm'.
    + rewrite Hb in Hbad.
      assert (Hold : forall u x, In (u, x) (ths s) -> cohref x k e -> mget k (s_map sh') = Some e).
      { intros v y Hy Hcy. assert (Hm := i_coh s I Hbad _ _ _ _ Hy Hcy). rewrite Hmap. cbn [mget].
        destruct (k1 =? k) eqn:Ek; [apply Z.eqb_eq in Ek; congruence | exact Hm]. }
      destruct (Hsplit _ _ Hx) as [->|Hx']; [|eauto].
      destruct (step_cohref _ _ _ _ _ Hstep _ _ Hc) as [Hc'|(w' & _ & _ & Hm')]; [eauto | exact Hm'].
    + destruct (Hb Hbad) as (Hb0 & Hdead).
      assert (Hold : forall u x, In (u, x) (ths s) -> cohref x k e -> mget k (s_map sh') = Some e).
      { intros v y Hy Hcy. assert (Hm := i_coh s I Hb0 _ _ _ _ Hy Hcy). rewrite Hmap.
        destruct (Z.eq_dec k k1) as [->|Hne]; [|rewrite (mget_mrem_other _ _ _ Hne); exact Hm].
        exfalso. assert (H0 := Hdead _ Hm).
        assert (H1 := ref_pos_of_thread _ _ _ _ I Hy (cohref_ref _ _ _ Hcy)). lia. }
      destruct (Hsplit _ _ Hx) as [->|Hx']; [|eauto].
      destruct (step_cohref _ _ _ _ _ Hstep _ _ Hc) as [Hc'|(w' & _ & Hk & _)]; [eauto|].
      rewrite Hpc in Hk. cbn in Hk. discriminate.
Qed.

Theorem inv_reachable fx progs sched : Inv (run (step fx) sched (init progs)).
Proof.
  apply (invariant_rule St (step fx) Inv); [apply inv_init | intros t s s' I H; eapply step_inv; eauto].
Qed.
