(* C14: side conditions of the correctness theorems and the finding classes, as decidable
   predicates (definitions only).  The same functions are known_class in Corr/C14.v, so the
   check and the theorems talk about one partition.

   History: classes 1..12 were the defects of the original tree (eval_expr `_ => true`, NULL = NULL
   TRUE, NULL IN (.., NULL) TRUE, NOT IN / NOT BETWEEN / NOT LIKE with NULL TRUE, (p) IS NULL never
   UNKNOWN, select list UNKNOWN -> FALSE, constant folding of NULL <> 1 and 1 = 1.0, folded FALSE
   => planner error, LIKE '%' literal-first, IN epsilon equality, i64::MIN literal, NOT
   precedence).  They are fixed in /repo (known_findings.d/C14.json, status "fixed"); their
   witnesses stay in the corpus and must pass.

   Class 13 (a BETWEEN bound that is arithmetic over NULL made the predicate UNKNOWN) was found on
   the repaired tree and is fixed as well (5b60fb5).  No class is open: known_class is 0 on the
   whole modelled language and
    99    outside the modelled expression language (no finding; never generated): an integer
          literal outside i64, a non-finite float literal, an empty IN list, a boolean cell *)
From Coq Require Import ZArith List Bool.
From TV Require Import Model.SqlSpec Model.PredImpl.
Import ListNotations.
Open Scope Z_scope.

(* what the property demands of the two query shapes (observables of Model/PredImpl.qout) *)
Definition spec_rows (e : expr) (t : table) : list Z := map (fun r => Z.b2z (passes e r)) t.
Definition code_of_tv (o : option tv) : Z :=
  match o with Some TT => 1 | Some FF => 0 | _ => 2 end.
Definition spec_vals (e : expr) (t : table) : list Z := map (fun r => code_of_tv (sem3 e r)) t.

Definition first_nz (a b : Z) : Z := if a =? 0 then b else a.
Definition is_vnull (o : option value) : bool := match o with Some VNull => true | _ => false end.

(* the spec value as the implementation represents it *)
Definition inj (v : value) : ivalue :=
  match v with
  | VNull => INull
  | VInt z => IInt z
  | VFloat b => IFloat b
  | VText s => IText s
  | VBool b => ib b
  end.

(* ---------------------------------------------------------------- the modelled language *)
(* expressions the harness can print and SQL accepts: integer literals in i64, finite float
   literals, IN lists with at least one item *)
Fixpoint wf_expr (e : expr) : bool :=
  match e with
  | ECol _ => true
  | ELit (VInt z) => i64_ok z
  | ELit (VFloat b) => f_finite b
  | ELit _ => true
  | EArith _ a b | ECmp _ a b | EAnd a b | EOr a b | ELike _ a b => wf_expr a && wf_expr b
  | ENot a | EIsNull _ a => wf_expr a
  | EIn _ a l => wf_expr a && negb (match l with [] => true | _ => false end) && forallb wf_expr l
  | EBetween _ a lo hi => wf_expr a && wf_expr lo && wf_expr hi
  end.
(* rows of BIGINT / DOUBLE PRECISION / TEXT cells *)
Definition plain_value (v : value) : bool := match v with VBool _ => false | _ => true end.
Definition plain_row (r : row) : bool := forallb plain_value r.
Definition plain_table (t : table) : bool := forallb plain_row t.

(* known_class of a query (either shape, either printing style) *)
Definition cls_query (e : expr) (t : table) : Z :=
  if wf_expr e && plain_table t then 0 else 99.
Definition cls_where (sty : Z) (e : expr) (t : table) : Z := cls_query e t.
Definition cls_select (sty : Z) (e : expr) (t : table) : Z := cls_query e t.
