//! C27 varints: encode / decode / varint_len on generated values and byte strings.
use tvh::*;
use turdb::encoding::varint::{decode_varint, encode_varint, varint_len};

const THRESHOLDS: [u64; 11] = [0, 240, 241, 2287, 2288, 67823, 67824, 0xFF_FFFF, 0x100_0000, 0xFFFF_FFFF, 0x1_0000_0000];

fn enc(v: u64) -> Caught<(Vec<u8>, usize)> {
    catch(move || {
        let mut buf = [0u8; 9];
        let n = encode_varint(v, &mut buf);
        (buf[..n.min(9)].to_vec(), n)
    })
}
fn dec(b: &[u8]) -> Caught<Option<(u64, usize)>> {
    let b = b.to_vec();
    catch(move || decode_varint(&b).ok())
}
fn dec_term(d: &Caught<Option<(u64, usize)>>) -> String {
    match d {
        Caught::Done(Some((v, n))) => format!("(DOk {} {})", v, n),
        Caught::Done(None) => "DErr".into(),
        Caught::Panicked(_) => "DPanic".into(),
    }
}

fn values(rng: &mut Rng, tier: &str) -> Vec<(u64, &'static str)> {
    let mut vs: Vec<(u64, &'static str)> = vec![];
    for t in THRESHOLDS {
        for d in -3i64..=3 {
            let v = (t as i128 + d as i128).clamp(0, u64::MAX as i128) as u64;
            vs.push((v, "boundary"));
        }
    }
    for k in 0..64u32 {
        let p = 1u64 << k;
        vs.push((p, "pow2"));
        vs.push((p - 1, "pow2"));
        vs.push((p.wrapping_add(1), "pow2"));
    }
    vs.push((u64::MAX, "boundary"));
    vs.push((u64::MAX - 1, "boundary"));
    let n_rand = if tier == "thorough" { 40_000 } else { 1_500 };
    for _ in 0..n_rand {
        let bits = rng.below(65) as u32;
        let v = if bits == 0 { 0 } else { rng.next() >> (64 - bits) };
        vs.push((v, "random_bitlen"));
    }
    if tier == "thorough" {
        // dense sweep of the low range where all the thresholds below 2^17 live
        for v in 0..=140_000u64 { vs.push((v, "dense_low")); }
    } else {
        for v in 0..=2_400u64 { vs.push((v, "dense_low")); }
    }
    vs
}

fn main() {
    let a = Args::parse();
    match a.mode.as_str() {
        "gen" => gen(&a),
        "search" => search(&a),
        _ => { eprintln!("c27: unknown mode"); std::process::exit(2); }
    }
}

fn gen(a: &Args) {
    let mut rng = Rng::new(a.seed);
    let mut w = CaseWriter::new(&a.out, "C27", "Corr.C27", 1500);
    let mut vals: Vec<(u64, Option<Vec<u8>>, &'static str)> = vec![];
    let mut strings: Vec<(Vec<u8>, &'static str)> = vec![];
    if let Some(lf) = &a.lines {
        // replay: only the listed cases
        for l in std::fs::read_to_string(lf).unwrap_or_default().lines() {
            let l = l.trim();
            if let Some(r) = l.strip_prefix("enc v=") {
                let mut it = r.split(" tail=");
                let v: u64 = it.next().unwrap_or("0").parse().unwrap_or(0);
                vals.push((v, Some(unhex(it.next().unwrap_or(""))), "replay"));
            } else if let Some(r) = l.strip_prefix("dec bytes=") {
                strings.push((unhex(r), "replay"));
            }
        }
    } else {
        for (v, k) in values(&mut rng, &a.tier) { vals.push((v, None, k)); }
    }
    // ---- values through encode -> decode
    for (v, tail0, kind) in vals {
        let tail = match tail0 { Some(t) => t, None => { let n = rng.below(4) as usize; rng.bytes(n) } };
        let e = enc(v);
        let len = match catch(move || varint_len(v)) { Caught::Done(n) => n as i64, _ => -1 };
        let (eterm, dterm) = match &e {
            Caught::Done((bytes, n)) => {
                let mut all = bytes.clone();
                all.extend_from_slice(&tail);
                (format!("(EOk {} {})", cbytes(bytes), n), dec_term(&dec(&all)))
            }
            Caught::Panicked(_) => ("EPanic".to_string(), "DErr".to_string()),
        };
        let term = format!("Enc {} {} {} {} {}", v, cbytes(&tail), eterm, len, dterm);
        w.push(term, format!("enc v={} tail={}", v, hex(&tail)), v > 240, kind);
    }
    // ---- byte strings through decode
    if a.lines.is_none() {
    strings.push((vec![], "len0"));
    for b in 0..=255u8 { strings.push((vec![b], "len1")); }
    if a.tier == "thorough" {
        for b0 in 0..=255u8 { for b1 in 0..=255u8 { strings.push((vec![b0, b1], "len2")); } }
    } else {
        for b0 in 238..=255u8 { for b1 in [0u8, 1, 15, 127, 128, 254, 255] { strings.push((vec![b0, b1], "len2")); } }
    }
    let markers = [240u8, 241, 248, 249, 250, 251, 252, 253, 254, 255];
    let per = if a.tier == "thorough" { 4096 } else { 60 };
    for m in markers {
        for _ in 0..per {
            let len = 1 + rng.below(10) as usize;
            let mut s = rng.bytes(len);
            s[0] = m;
            if rng.chance(1, 4) { for x in s.iter_mut().skip(1) { *x = *rng.pick(&[0u8, 255, 1, 128]); } }
            strings.push((s, "marker"));
        }
    }
    // truncations and extensions of valid encodings
    let n_mut = if a.tier == "thorough" { 20_000 } else { 400 };
    for _ in 0..n_mut {
        let bits = 1 + rng.below(64) as u32;
        let v = rng.next() >> (64 - bits);
        if let Caught::Done((mut bytes, _)) = enc(v) {
            match rng.below(3) {
                0 => { let k = rng.below(bytes.len() as u64) as usize; bytes.truncate(k); }
                1 => { let n = rng.below(3) as usize; let t = rng.bytes(n); bytes.extend_from_slice(&t); }
                _ => { let k = rng.below(bytes.len() as u64) as usize; bytes[k] ^= 1 << rng.below(8); }
            }
            strings.push((bytes, "mutated_valid"));
        }
    }
    }
    for (s, kind) in strings {
        let d = dec(&s);
        let term = format!("Dec {} {}", cbytes(&s), dec_term(&d));
        let nontrivial = s.len() >= 2;
        w.push(term, format!("dec bytes={}", hex(&s)), nontrivial, kind);
    }
    w.finish(&[]);
}

/// Oracle only (no model): decode(encode v) == (v, varint_len v), length agreement,
/// no panic on any byte string, consumed length within the input.
fn search(a: &Args) {
    let mut rng = Rng::new(a.seed ^ 0x5EA7C4);
    let mut fails: Vec<String> = vec![];
    let mut tried: u64 = 0;
    let mut check_v = |v: u64, fails: &mut Vec<String>| {
        let ok = match enc(v) {
            Caught::Done((bytes, n)) => {
                let l = varint_len(v);
                n == l && bytes.len() == l && matches!(dec(&bytes), Caught::Done(Some((dv, dn))) if dv == v && dn == l)
            }
            Caught::Panicked(_) => false,
        };
        if !ok && fails.len() < 20 { fails.push(format!("enc v={} tail=", v)); }
    };
    for t in THRESHOLDS { for d in -300i64..=300 {
        let v = (t as i128 + d as i128).clamp(0, u64::MAX as i128) as u64;
        check_v(v, &mut fails); tried += 1;
    } }
    for v in 0..(1u64 << 20) { check_v(v, &mut fails); tried += 1; }
    for k in 0..64u32 { for d in -3i64..=3 { check_v((1u64 << k).wrapping_add(d as u64), &mut fails); tried += 1; } }
    while tried < a.budget {
        let bits = 1 + rng.below(64) as u32;
        check_v(rng.next() >> (64 - bits), &mut fails); tried += 1;
    }
    let mut check_b = |s: &[u8], fails: &mut Vec<String>| {
        let ok = match dec(s) {
            Caught::Done(Some((_, n))) => n >= 1 && n <= s.len(),
            Caught::Done(None) => true,
            Caught::Panicked(_) => false,
        };
        if !ok && fails.len() < 40 { fails.push(format!("dec bytes={}", hex(s))); }
    };
    check_b(&[], &mut fails);
    for b0 in 0..=255u8 { check_b(&[b0], &mut fails); for b1 in 0..=255u8 { check_b(&[b0, b1], &mut fails); } }
    for _ in 0..(a.budget / 4) {
        let len = rng.below(11) as usize;
        let mut s = rng.bytes(len);
        if len > 0 && rng.chance(3, 4) { s[0] = 240 + rng.below(16) as u8; }
        check_b(&s, &mut fails); tried += 1;
    }
    let mut out = String::new();
    out.push_str(&format!("tried={}\n", tried));
    for f in &fails { out.push_str("FAIL "); out.push_str(f); out.push('\n'); }
    std::fs::write(&a.out, out).expect("write search output");
}
