(* C10 correspondence: one case = one history run on a new database holding the twin tables
   A (primary key + secondary indexes, created / dropped by the history) and B (nothing declared).
   After every statement the harness records: DML / DDL -> accepted or refused on A and on B;
   query -> the rows returned by A and by B.  Judged against
   (a) the implementation model Model/IndexTwin.v (model_agrees) and
   (b) the property itself: a query returns the same bag of rows with and without indexes, and
       that bag is the reference filter of the index-free table (spec_ok).
   Evaluated by vm_compute; definitions only. *)
From Coq Require Import ZArith List Bool.
From TV Require Export Model.SqlSpec Model.ConstrSpec Model.ConstrImpl Model.IndexTwin.
Import ListNotations.
Open Scope Z_scope.

Inductive tobs :=
| TDml (oka okb : bool)
| TRows (ra rb : table)
| TBad.
Inductive case := Twin (steps : list (tstmt * tobs)).

Fixpoint row_eqb (a b : row) : bool :=
  match a, b with
  | [], [] => true
  | x :: a', y :: b' => value_eqb x y && row_eqb a' b'
  | _, _ => false
  end.
Fixpoint remove_row (r : row) (t : table) : option table :=
  match t with
  | [] => None
  | x :: t' => if row_eqb r x then Some t'
               else match remove_row r t' with Some t2 => Some (x :: t2) | None => None end
  end.
Fixpoint bag_eqb (a b : table) : bool :=
  match a with
  | [] => match b with [] => true | _ => false end
  | r :: a' => match remove_row r b with Some b' => bag_eqb a' b' | None => false end
  end.

(* ------------------------------------------------------------------ model_agrees *)
Fixpoint impl_go (a : astate) (b : dstate) (steps : list (tstmt * tobs)) : bool :=
  match steps with
  | [] => true
  | (s, o) :: rest =>
      let '(ra, a') := step_a a s in
      let '(rb, b') := step_b b s in
      match s, o with
      | TQuery e, TRows xa xb => bag_eqb (query_a a e) xa && bag_eqb (query_b b e) xb && impl_go a' b' rest
      | TQuery _, _ => false
      | _, TDml oka okb =>
          match ra, rb with
          | Some x, Some y => Bool.eqb x oka && Bool.eqb y okb && impl_go a' b' rest
          | _, _ => false
          end
      | _, _ => false
      end
  end.
Definition model_agrees (c : case) : bool := match c with Twin steps => impl_go a_empty b_empty steps end.

(* ------------------------------------------------------------------ spec_ok: the property *)
(* The index-free table B is the yardstick: its content is tracked by the reference DML semantics
   of C09 (Model/ConstrSpec.v on the constraint-free schema schB; None = no demand from there on).
   Every query must return, on A and on B, the rows of that table that pass the predicate; DML must
   be accepted on both (the histories never violate the primary key of A); CREATE / DROP INDEX must
   succeed and change nothing. *)
Definition pk_fresh (t : table) (r : row) : bool :=
  negb (is_null (col_val 0 r)) && negb (existsb (fun x => value_eqb (col_val 0 x) (col_val 0 r)) t).
Fixpoint spec_go (t : table) (steps : list (tstmt * tobs)) : bool :=
  match steps with
  | [] => true
  | (s, o) :: rest =>
      match s with
      | TQuery e =>
          if defined_on e t then
            match o with
            | TRows xa xb => bag_eqb xa xb && bag_eqb xb (filter_spec e t) && spec_go t rest
            | _ => false
            end
          else true
      | TCreate _ | TDrop _ =>
          match o with TDml true _ => spec_go t rest | _ => false end
      | TIns r =>
          if row_fits 3 r && pk_fresh t r then
            match o with TDml true true => spec_go (t ++ [r]) rest | _ => false end
          else true
      | TDel w =>
          match spec_step schB (t, []) (SDel TP w) with
          | Some (_, (t', _)) => match o with TDml true true => spec_go t' rest | _ => false end
          | None => true
          end
      | TUpd sets w =>
          if existsb (fun p => Nat.eqb (fst p) 0) sets then true       (* key updates: C09's subject *)
          else match spec_step schB (t, []) (SUpd TP sets w) with
               | Some (_, (t', _)) => match o with TDml true true => spec_go t' rest | _ => false end
               | None => true
               end
      end
  end.
Definition spec_ok (c : case) : bool := match c with Twin steps => spec_go [] steps end.

(* ------------------------------------------------------------------ known classes *)
(* classes of queries: Model/IndexTwin.v q_class, evaluated in the model state; open: 1 (a scan
   fetches a tombstoned entry: CREATE INDEX back-fills tombstones) and 3 (residual filter);
   repaired and never reported on the current model: 2, 4 (the index is exact for the live rows
   after DELETE / UPDATE / back-fill) and 10 = a DELETE / UPDATE whose row selection includes a
   tombstoned entry (select_rows skips tombstones since 6de60fd, so dml_class is constantly 0) *)
Definition dml_class (a : astate) (b : dstate) (s : tstmt) : Z :=
  match s with
  | TDel w =>
      if existsb e_del (select_rows (s_p schA) (d_p (a_d a)) w) || existsb e_del (select_rows (s_p schB) (d_p b) w)
      then 10 else 0
  | TUpd sets w =>
      if existsb e_del (select_rows (s_p schA) (d_p (a_d a)) w) || existsb e_del (select_rows (s_p schB) (d_p b) w)
      then 10 else 0
  | _ => 0
  end.
Fixpoint class_go (a : astate) (b : dstate) (steps : list tstmt) : Z :=
  match steps with
  | [] => 0
  | s :: rest =>
      let k := match s with TQuery e => q_class a e | _ => dml_class a b s end in
      if k =? 0 then class_go (snd (step_a a s)) (snd (step_b b s)) rest else k
  end.
Definition known_class (c : case) : Z := match c with Twin steps => class_go a_empty b_empty (map fst steps) end.

Fixpoint failures_from (i : Z) (cs : list case) : list (Z * bool * bool * Z) :=
  match cs with
  | [] => []
  | c :: t =>
      let m := model_agrees c in
      let s := spec_ok c in
      if m && s then failures_from (i + 1) t else (i, m, s, known_class c) :: failures_from (i + 1) t
  end.
Definition failures := failures_from 0.
