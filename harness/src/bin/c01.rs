//! C01 - acknowledged writes survive a crash.  The crash harness is shared with C02
//! (crash_common/mod.rs): gen / search / trace.
#[path = "crash_common/mod.rs"]
mod crash_common;
fn main() { crash_common::main_for("C01"); }
