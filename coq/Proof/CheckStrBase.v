(* C09 proofs, part 1: byte-string facts about the CHECK evaluator of Model/CheckStr.v --
   trimming, where split_on_logical_op finds its first match, decimal numerals. *)
From Coq Require Import ZArith List Bool Lia ZifyBool Arith.
From TV Require Import Model.SqlSpec Model.CheckStr.
Import ListNotations.
Open Scope Z_scope.
Ltac Zify.zify_post_hook ::= Z.to_euclidean_division_equations.

(* ---------------------------------------------------------------- trimming *)
Definition tight (s : list Z) : bool :=
  match s with [] => false | c :: _ => negb (is_ws c) end &&
  match rev s with [] => false | c :: _ => negb (is_ws c) end.

Lemma trim_start_head c s : is_ws c = false -> trim_start (c :: s) = c :: s.
Proof. intros H. cbn [trim_start]. rewrite H. reflexivity. Qed.

Lemma trim_tight s : tight s = true -> trim s = s.
Proof.
  unfold tight, trim, trim_end. intros H. apply andb_true_iff in H. destruct H as [H1 H2].
  destruct s as [|c s]; [discriminate|].
  rewrite trim_start_head by (apply negb_true_iff; exact H1).
  destruct (rev (c :: s)) as [|d r] eqn:E; [discriminate|].
  rewrite trim_start_head by (apply negb_true_iff; exact H2).
  rewrite <- E. apply rev_involutive.
Qed.

Lemma tight_nonempty s : tight s = true -> nonempty s = true.
Proof. destruct s; [discriminate|reflexivity]. Qed.

Lemma tight_app a m b : tight a = true -> tight b = true -> tight (a ++ m ++ b) = true.
Proof.
  unfold tight. intros Ha Hb.
  apply andb_true_iff in Ha. destruct Ha as [Ha1 _].
  apply andb_true_iff in Hb. destruct Hb as [_ Hb2].
  destruct a as [|c a]; [discriminate|]. cbn [app]. rewrite Ha1. cbn [andb].
  change (c :: a ++ m ++ b) with ((c :: a) ++ m ++ b).
  rewrite !rev_app_distr.
  destruct (rev b) as [|d r]; [discriminate|]. cbn [app]. exact Hb2.
Qed.

(* ---------------------------------------------------------------- no parentheses *)
Definition nopar (s : list Z) : bool := forallb (fun c => negb (c =? 40) && negb (c =? 41)) s.

Lemma nopar_app a b : nopar (a ++ b) = nopar a && nopar b.
Proof. apply forallb_app. Qed.

(* ---------------------------------------------------------------- the first match of the operator *)
(* every space of s is followed (inside s) by a byte that is not `bad` *)
Fixpoint after_sp (bad : Z -> bool) (s : list Z) : bool :=
  match s with
  | [] => true
  | c :: s' =>
      (if c =? 32 then match s' with c2 :: _ => negb (bad c2) | [] => true end else true) &&
      after_sp bad s'
  end.

Lemma after_sp_app bad a b :
  after_sp bad (a ++ b) = after_sp bad (a ++ firstn 1 b) && after_sp bad b.
Proof.
  induction a as [|c a IH].
  - cbn [app]. destruct b as [|d b]; [reflexivity|]. cbn [firstn after_sp].
    destruct (d =? 32); cbn [andb]; rewrite ?andb_true_r; destruct b; reflexivity.
  - cbn [app after_sp]. rewrite IH.
    destruct a as [|c2 a].
    + cbn [app]. destruct b as [|d b]; cbn [firstn]; [rewrite !andb_true_r; reflexivity|].
      rewrite andb_assoc. reflexivity.
    + cbn [app]. rewrite andb_assoc. reflexivity.
Qed.

Lemma after_sp_nosp bad s :
  forallb (fun c => negb (c =? 32)) s = true -> after_sp bad s = true.
Proof.
  induction s as [|c s IH]; [reflexivity|]. cbn [forallb after_sp]. intros H.
  apply andb_true_iff in H. destruct H as [H1 H2]. apply negb_true_iff in H1. rewrite H1.
  cbn [andb]. exact (IH H2).
Qed.

Lemma eq_ic_32 c : eq_ic 32 c = true -> c = 32.
Proof.
  unfold eq_ic, lower. change ((65 <=? 32) && (32 <=? 90)) with false. cbv iota.
  destruct ((65 <=? c) && (c <=? 90)) eqn:E; lia.
Qed.

(* no window of `op` = 32 :: o1 :: _ starts inside a when a is followed by tail *)
Lemma no_match_inside bad o1 op' :
  (forall c, eq_ic o1 c = true -> bad c = true) ->
  forall a tail,
    after_sp bad (a ++ firstn 1 tail) = true ->
    forall x y, a = x ++ y -> y <> [] -> prefix_ic (32 :: o1 :: op') (y ++ tail) = false.
Proof.
  intros Hbad a tail Ha x y E Hy. subst a.
  rewrite <- app_assoc in Ha. rewrite after_sp_app in Ha.
  apply andb_true_iff in Ha. destruct Ha as [_ Ha].
  destruct y as [|c y]; [contradiction|].
  cbn [app prefix_ic]. destruct (eq_ic 32 c) eqn:E32; [|reflexivity]. cbn [andb].
  apply eq_ic_32 in E32. subst c.
  cbn [app after_sp] in Ha. change (32 =? 32) with true in Ha. cbv iota in Ha.
  destruct (y ++ tail) as [|c2 r] eqn:E2.
  - reflexivity.
  - assert (Hc2 : bad c2 = false).
    { destruct y as [|d y].
      + cbn [app] in E2, Ha. subst tail. cbn [firstn] in Ha.
        apply andb_true_iff in Ha. destruct Ha as [Ha _]. apply negb_true_iff in Ha. exact Ha.
      + cbn [app] in E2, Ha. injection E2 as -> _.
        apply andb_true_iff in Ha. destruct Ha as [Ha _]. apply negb_true_iff in Ha. exact Ha. }
    destruct (eq_ic o1 c2) eqn:E3; [|reflexivity].
    apply Hbad in E3. congruence.
Qed.

(* the scan runs over a (no parentheses, no match) without stopping *)
Lemma split_go_skip op :
  forall a pre tail,
    nopar a = true ->
    (forall x y, a = x ++ y -> y <> [] -> prefix_ic op (y ++ tail) = false) ->
    (length op <= length tail)%nat ->
    split_go op pre (a ++ tail) O = split_go op (rev a ++ pre) tail O.
Proof.
  induction a as [|c a IH]; intros pre tail Hp Hn Hl; [reflexivity|].
  cbn [nopar forallb] in Hp. apply andb_true_iff in Hp. destruct Hp as [Hc Hp].
  apply andb_true_iff in Hc. destruct Hc as [H40 H41].
  apply negb_true_iff in H40. apply negb_true_iff in H41.
  cbn [app split_go].
  assert (Hlen : (length (c :: a ++ tail) <? length op)%nat = false).
  { apply Nat.ltb_ge. cbn [length]. rewrite app_length. lia. }
  rewrite Hlen, H40, H41.
  assert (Hm : prefix_ic op (c :: a ++ tail) = false).
  { apply (Hn [] (c :: a)); [reflexivity|discriminate]. }
  rewrite Hm. cbn [Nat.eqb andb].
  rewrite IH.
  - cbn [rev]. rewrite <- app_assoc. reflexivity.
  - exact Hp.
  - intros x y E Hy. apply (Hn (c :: x) y); [cbn [app]; rewrite E; reflexivity|exact Hy].
  - exact Hl.
Qed.

(* at the operator itself *)
Lemma split_go_hit op pre tail c t :
  tail = c :: t -> (c =? 40) = false -> (c =? 41) = false ->
  (length op <= length tail)%nat -> prefix_ic op tail = true ->
  nonempty (trim (rev pre)) = true -> nonempty (trim (skipn (length op) tail)) = true ->
  split_go op pre tail O = Some (trim (rev pre), trim (skipn (length op) tail)).
Proof.
  intros -> H40 H41 Hl Hm Hn1 Hn2. cbn [split_go].
  assert (Hlen : (length (c :: t) <? length op)%nat = false) by (apply Nat.ltb_ge; exact Hl).
  rewrite Hlen, H40, H41, Hm. cbn [Nat.eqb andb]. rewrite Hn1, Hn2. reflexivity.
Qed.

(* no match at all *)
Lemma split_go_none op :
  forall a pre,
    nopar a = true ->
    (forall x y, a = x ++ y -> y <> [] -> prefix_ic op y = false) ->
    split_go op pre a O = None.
Proof.
  induction a as [|c a IH]; intros pre Hp Hn; [reflexivity|].
  cbn [nopar forallb] in Hp. apply andb_true_iff in Hp. destruct Hp as [Hc Hp].
  apply andb_true_iff in Hc. destruct Hc as [H40 H41].
  apply negb_true_iff in H40. apply negb_true_iff in H41.
  cbn [split_go]. destruct (length (c :: a) <? length op)%nat; [reflexivity|].
  rewrite H40, H41.
  rewrite (Hn [] (c :: a)) by (try reflexivity; discriminate). cbn [Nat.eqb andb].
  apply IH; [exact Hp|].
  intros x y E Hy. apply (Hn (c :: x) y); [cbn [app]; rewrite E; reflexivity|exact Hy].
Qed.

(* a ++ OP ++ b splits at OP *)
Lemma split_op_at bad o1 op' OP a b :
  (forall c, eq_ic o1 c = true -> bad c = true) ->
  length OP = length (32 :: o1 :: op') ->
  prefix_ic (32 :: o1 :: op') (OP ++ b) = true ->
  firstn 1 OP = [32] ->
  nopar a = true -> after_sp bad (a ++ [32]) = true ->
  tight a = true -> tight b = true ->
  split_op (32 :: o1 :: op') (a ++ OP ++ b) = Some (a, b).
Proof.
  intros Hbad HlenOP Hm Hhd Hpa Hsp Hta Htb. unfold split_op.
  assert (Hfirst : firstn 1 (OP ++ b) = [32]).
  { destruct OP as [|c OP]; [discriminate|]. cbn [app firstn] in *. exact Hhd. }
  rewrite split_go_skip.
  - destruct OP as [|c OP]; [discriminate|]. cbn [firstn] in Hhd. injection Hhd as ->.
    rewrite (split_go_hit _ _ _ 32 (OP ++ b)); rewrite ?app_nil_r, ?rev_involutive.
    + rewrite (trim_tight a Hta).
      replace (skipn (length (32 :: o1 :: op')) ((32 :: OP) ++ b)) with b.
      * rewrite (trim_tight b Htb). reflexivity.
      * rewrite <- HlenOP. rewrite skipn_app, skipn_all, Nat.sub_diag. reflexivity.
    + reflexivity.
    + reflexivity.
    + reflexivity.
    + rewrite app_length. rewrite <- HlenOP. lia.
    + exact Hm.
    + rewrite (trim_tight a Hta). apply tight_nonempty. exact Hta.
    + replace (skipn (length (32 :: o1 :: op')) ((32 :: OP) ++ b)) with b.
      * rewrite (trim_tight b Htb). apply tight_nonempty. exact Htb.
      * rewrite <- HlenOP. rewrite skipn_app, skipn_all, Nat.sub_diag. reflexivity.
  - exact Hpa.
  - intros x y E Hy. apply (no_match_inside bad o1 op' Hbad a (OP ++ b)) with (x := x); [|exact E|exact Hy].
    rewrite Hfirst. exact Hsp.
  - rewrite app_length. rewrite <- HlenOP. lia.
Qed.

(* a string without a match does not split *)
Lemma split_op_none bad o1 op' a :
  (forall c, eq_ic o1 c = true -> bad c = true) ->
  nopar a = true -> after_sp bad a = true ->
  split_op (32 :: o1 :: op') a = None.
Proof.
  intros Hbad Hp Hsp. unfold split_op. apply split_go_none; [exact Hp|].
  intros x y E Hy.
  rewrite <- (app_nil_r y). apply (no_match_inside bad o1 op' Hbad a []) with (x := x); [|exact E|exact Hy].
  cbn [firstn]. rewrite app_nil_r. exact Hsp.
Qed.

(* ---------------------------------------------------------------- decimal numerals *)
Definition digits_value (l : list Z) : Z := fold_left (fun acc b => acc * 10 + (b - 48)) l 0.

Lemma digits_value_snoc a d : digits_value (a ++ [d]) = digits_value a * 10 + (d - 48).
Proof. unfold digits_value. rewrite fold_left_app. reflexivity. Qed.

Lemma dec_digits_spec :
  forall fuel n acc, (0 < fuel)%nat -> 0 <= n < 10 ^ Z.of_nat fuel ->
    exists D, dec_digits fuel n acc = D ++ acc /\ D <> [] /\ forallb is_dig D = true /\ digits_value D = n.
Proof.
  induction fuel as [|f IH]; intros n acc Hf Hn.
  - lia.
  - cbn [dec_digits]. destruct (n <? 10) eqn:E.
    + exists [48 + n]. split; [reflexivity|]. split; [discriminate|]. split.
      * cbn [forallb]. unfold is_dig. lia.
      * unfold digits_value. cbn [fold_left]. lia.
    + assert (Hq : 0 <= n / 10 < 10 ^ Z.of_nat f).
      { rewrite Nat2Z.inj_succ, Z.pow_succ_r in Hn by lia. lia. }
      assert (Hf' : (0 < f)%nat).
      { destruct f; [|lia]. change (10 ^ Z.of_nat 0) with 1 in Hq. lia. }
      destruct (IH (n / 10) ((48 + n mod 10) :: acc) Hf' Hq) as [D [E1 [E2 [E3 E4]]]].
      exists (D ++ [48 + n mod 10]). split; [rewrite E1, <- app_assoc; reflexivity|].
      split; [destruct D; discriminate|]. split.
      * rewrite forallb_app, E3. cbn [forallb]. unfold is_dig. lia.
      * rewrite digits_value_snoc, E4. lia.
Qed.

Lemma show_nat_spec n :
  0 <= n < 10 ^ 40 ->
  exists d ds, show_nat n = d :: ds /\ forallb is_dig (d :: ds) = true /\ digits_value (d :: ds) = n.
Proof.
  intros Hn. unfold show_nat.
  destruct (dec_digits_spec 40 n [] ltac:(lia) Hn) as [D [E1 [E2 [E3 E4]]]].
  rewrite app_nil_r in E1. destruct D as [|d ds]; [contradiction|].
  exists d, ds. repeat split; assumption.
Qed.

Lemma take_digits_all :
  forall D acc seen, forallb is_dig D = true ->
    take_digits D acc seen =
    (fold_left (fun a b => a * 10 + (b - 48)) D acc, seen || nonempty D, []).
Proof.
  induction D as [|d D IH]; intros acc seen H.
  - cbn [take_digits fold_left nonempty]. rewrite orb_false_r. reflexivity.
  - cbn [forallb] in H. apply andb_true_iff in H. destruct H as [Hd HD].
    cbn [take_digits]. rewrite Hd. rewrite (IH _ _ HD). cbn [fold_left nonempty].
    rewrite orb_true_r. cbn [orb]. reflexivity.
Qed.

(* the byte classes of a printed integer *)
Definition numch (c : Z) : bool := is_dig c || (c =? 45).

Lemma show_int_spec z :
  - 10 ^ 40 < z < 10 ^ 40 ->
  exists c s, show_int z = c :: s /\ forallb numch (c :: s) = true /\
              numeric_operand (32 :: c :: s) = NumInt z.
Proof.
  intros Hz. unfold show_int. destruct (z <? 0) eqn:Eneg.
  - destruct (show_nat_spec (- z) ltac:(lia)) as [d [ds [E1 [E2 E3]]]].
    exists 45, (show_nat (- z)). split; [reflexivity|]. split.
    + cbn [forallb]. rewrite E1. unfold numch at 1. change (45 =? 45) with true. rewrite orb_true_r.
      cbn [andb]. rewrite forallb_forall in E2 |- *. intros x Hx. unfold numch. rewrite (E2 x Hx). reflexivity.
    + unfold numeric_operand.
      change (trim_start (32 :: 45 :: show_nat (- z))) with (45 :: show_nat (- z)).
      cbv beta iota zeta. rewrite !Z.eqb_refl. cbn [orb]. rewrite E1.
      rewrite (take_digits_all (d :: ds) 0 false E2). cbn [nonempty orb].
      fold (digits_value (d :: ds)). rewrite E3. f_equal. lia.
  - destruct (show_nat_spec z ltac:(lia)) as [d [ds [E1 [E2 E3]]]].
    exists d, ds. split; [exact E1|]. split.
    + rewrite forallb_forall in E2 |- *. intros x Hx. unfold numch. rewrite (E2 x Hx). reflexivity.
    + unfold numeric_operand.
      assert (Hd : is_dig d = true) by (cbn [forallb] in E2; apply andb_true_iff in E2; tauto).
      assert (Hws : is_ws d = false) by (unfold is_dig, is_ws in *; lia).
      change (trim_start (32 :: d :: ds)) with (trim_start (d :: ds)).
      rewrite (trim_start_head d ds Hws). cbv beta iota zeta.
      assert (H45 : (d =? 45) = false) by (unfold is_dig in Hd; lia).
      assert (H43 : (d =? 43) = false) by (unfold is_dig in Hd; lia).
      rewrite H45, H43. cbn [orb].
      rewrite (take_digits_all (d :: ds) 0 false E2). cbn [nonempty orb].
      fold (digits_value (d :: ds)). rewrite E3. reflexivity.
Qed.
