//! dml_common: shared by the C05 and C06 binaries (DML histories against a relational
//! reference model / statement atomicity).
//!   <bin> gen    --seed S --tier T --out DIR [--lines FILE]
//!   <bin> search --seed S --budget N --out FILE     (oracle only: Rust port of the reference)
//!   <bin> sql FILE                                   (debug: run statements, print results)
//! One case = one history on a fresh table of a real `turdb::Database`: after every statement
//! the result, `SELECT * FROM t` and `SELECT COUNT(*) FROM t` are recorded and printed as the
//! Coq term `Hist schema [(stmt, HObs ..); ..]` of coq/Model/DmlCase.v.
//! This file also holds Rust ports of the reference (Model/DmlSpec.v) and of the
//! implementation model (Model/Tombstone.v, fx = false); they steer the generators (which
//! statements are defined / in a recorded finding class) and serve the `search` oracle -- the
//! judge of a correspondence run is Coq.
#![allow(dead_code)]
use crate::sqlgen::*;
use std::path::PathBuf;
use tvh::*;
use turdb::{Database, ExecuteResult, OwnedValue};

// ------------------------------------------------------------------ schema / statements
#[derive(Clone, Copy, Debug, PartialEq)]
pub enum KeyKind { None, Pk, Uniq }

#[derive(Clone, Debug, PartialEq)]
pub struct Schema {
    pub key: KeyKind,
    pub tys: Vec<ColTy>,     // column 0 is `id`
    pub nn: Vec<bool>,
    pub xidx: bool,          // CREATE INDEX on c1 (not in the model: no observable effect expected)
    pub wal: bool,           // PRAGMA wal=ON for this history (not in the model)
}

#[derive(Clone, Debug, PartialEq)]
pub enum Stmt {
    /// style 0: no column list; 1: full column list; 2: columns that are NULL in every row omitted
    Insert { rows: Vec<Vec<Val>>, ret: bool, style: u8 },
    Delete { w: Option<Expr>, ret: bool },
    Update { sets: Vec<(usize, Expr)>, w: Option<Expr>, ret: bool },
    Truncate,
    /// a statement on a table that does not exist (0 INSERT, 1 DELETE, 2 UPDATE)
    Missing(u8),
}

#[derive(Clone, Debug, PartialEq)]
pub enum Res { Aff(i64, Option<Vec<Vec<Val>>>), Err(String), Panic, Bad(String) }

#[derive(Clone, Debug, PartialEq)]
pub struct HObs { pub res: Res, pub rows: Option<Vec<Vec<Val>>>, pub cnt: Option<i64> }

fn cb(b: bool) -> &'static str { if b { "true" } else { "false" } }
fn rows_coq(rows: &[Vec<Val>]) -> String {
    format!("[{}]", rows.iter().map(|r| format!("[{}]", r.iter().map(|v| v.to_coq()).collect::<Vec<_>>().join("; "))).collect::<Vec<_>>().join("; "))
}
fn opt_expr_coq(w: &Option<Expr>) -> String { match w { Some(e) => format!("(Some {})", e.to_coq()), None => "None".into() } }

impl Schema {
    pub fn ncols(&self) -> usize { self.tys.len() }
    pub fn keyed(&self) -> bool { self.key != KeyKind::None }
    pub fn has_text(&self) -> bool { self.tys.iter().any(|t| *t == ColTy::Text) }
    pub fn create_sql(&self, name: &str) -> String {
        let cols: Vec<String> = self.tys.iter().enumerate().map(|(i, t)| {
            let mut s = format!("{} {}", col_name(i), t.sql());
            if i == 0 { match self.key { KeyKind::Pk => s.push_str(" PRIMARY KEY"), KeyKind::Uniq => s.push_str(" UNIQUE"), KeyKind::None => {} } }
            if self.nn[i] { s.push_str(" NOT NULL"); }
            s
        }).collect();
        format!("CREATE TABLE {} ({})", name, cols.join(", "))
    }
    pub fn to_coq(&self) -> String {
        let k = match self.key { KeyKind::None => "KNone", KeyKind::Pk => "KPk", KeyKind::Uniq => "KUniq" };
        let tys: Vec<&str> = self.tys.iter().map(|t| match t { ColTy::Int => "TInt", ColTy::Float => "TFloat", ColTy::Text => "TText" }).collect();
        let nn: Vec<&str> = self.nn.iter().map(|b| cb(*b)).collect();
        format!("(mkSchema {} [{}] [{}])", k, tys.join("; "), nn.join("; "))
    }
    pub fn to_line(&self) -> String {
        let k = match self.key { KeyKind::None => 'n', KeyKind::Pk => 'p', KeyKind::Uniq => 'u' };
        format!("k={} x={} w={} cols={} nn={}", k, self.xidx as u8, self.wal as u8, self.tys.iter().map(|c| c.ch()).collect::<String>(),
                self.nn.iter().map(|b| if *b { '1' } else { '0' }).collect::<String>())
    }
}

impl Stmt {
    pub fn to_sql(&self, sch: &Schema, name: &str) -> String {
        match self {
            Stmt::Insert { rows, ret, style } => {
                let n = sch.ncols();
                let keep: Vec<usize> = match style {
                    2 => { let k: Vec<usize> = (0..n).filter(|c| rows.iter().any(|r| !r[*c].is_null())).collect(); if k.is_empty() { (0..n).collect() } else { k } }
                    _ => (0..n).collect(),
                };
                let list = if *style == 0 { String::new() } else { format!(" ({})", keep.iter().map(|c| col_name(*c)).collect::<Vec<_>>().join(", ")) };
                let vals: Vec<String> = rows.iter().map(|r| format!("({})", keep.iter().map(|c| r[*c].to_sql()).collect::<Vec<_>>().join(", "))).collect();
                format!("INSERT INTO {}{} VALUES {}{}", name, list, vals.join(", "), if *ret { " RETURNING *" } else { "" })
            }
            Stmt::Delete { w, ret } => format!("DELETE FROM {}{}{}", name, match w { Some(e) => format!(" WHERE {}", e.to_sql()), None => String::new() }, if *ret { " RETURNING *" } else { "" }),
            Stmt::Update { sets, w, ret } => {
                let s: Vec<String> = sets.iter().map(|(c, e)| format!("{} = {}", col_name(*c), e.to_sql())).collect();
                format!("UPDATE {} SET {}{}{}", name, s.join(", "), match w { Some(e) => format!(" WHERE {}", e.to_sql()), None => String::new() }, if *ret { " RETURNING *" } else { "" })
            }
            Stmt::Truncate => format!("TRUNCATE TABLE {}", name),
            Stmt::Missing(0) => format!("INSERT INTO nosuch_{} VALUES (1)", name),
            Stmt::Missing(1) => format!("DELETE FROM nosuch_{}", name),
            Stmt::Missing(_) => format!("UPDATE nosuch_{} SET c1 = 1", name),
        }
    }
    pub fn to_coq(&self) -> String {
        match self {
            Stmt::Insert { rows, ret, .. } => format!("SInsert {} {}", rows_coq(rows), cb(*ret)),
            Stmt::Delete { w, ret } => format!("SDelete {} {}", opt_expr_coq(w), cb(*ret)),
            Stmt::Update { sets, w, ret } => format!("SUpdate [{}] {} {}", sets.iter().map(|(c, e)| format!("({}%nat, {})", c, e.to_coq())).collect::<Vec<_>>().join("; "), opt_expr_coq(w), cb(*ret)),
            Stmt::Truncate => "STruncate".into(),
            Stmt::Missing(_) => "SMissing".into(),
        }
    }
    pub fn to_tok(&self) -> String {
        let we = |w: &Option<Expr>| match w { Some(e) => e.to_line(), None => "-".into() };
        match self {
            Stmt::Insert { rows, ret, style } => format!("I{}{}:{}", *ret as u8, style, rows.iter().map(|r| r.iter().map(|v| v.to_tok()).collect::<Vec<_>>().join(",")).collect::<Vec<_>>().join(";")),
            Stmt::Delete { w, ret } => format!("D{}:{}", *ret as u8, we(w)),
            Stmt::Update { sets, w, ret } => format!("U{}:{}:{}", *ret as u8, sets.iter().map(|(c, e)| format!("{}={}", c, e.to_line())).collect::<Vec<_>>().join("&"), we(w)),
            Stmt::Truncate => "T".into(),
            Stmt::Missing(k) => format!("M{}", k),
        }
    }
    pub fn from_tok(t: &str, ncols: usize) -> Option<Stmt> {
        let t = t.trim();
        if t == "T" { return Some(Stmt::Truncate); }
        if let Some(k) = t.strip_prefix('M') { return k.parse::<u8>().ok().filter(|k| *k < 3).map(Stmt::Missing); }
        let we = |s: &str| -> Option<Option<Expr>> { if s.trim() == "-" { Some(None) } else { Expr::from_line(s.trim()).map(Some) } };
        let flag = |c: char| -> Option<bool> { match c { '0' => Some(false), '1' => Some(true), _ => None } };
        let mut ch = t.chars();
        match ch.next()? {
            'I' => {
                let ret = flag(ch.next()?)?;
                let style = ch.next()?.to_digit(10)? as u8;
                let rest = t.get(3..)?.strip_prefix(':')?;
                let mut rows = vec![];
                for r in rest.split(';') {
                    let vs: Option<Vec<Val>> = r.split(',').map(|x| Val::from_tok(x.trim())).collect();
                    let vs = vs?;
                    if vs.len() != ncols { return None; }
                    rows.push(vs);
                }
                if style > 2 { return None; }
                Some(Stmt::Insert { rows, ret, style })
            }
            'D' => { let ret = flag(ch.next()?)?; let rest = t.get(2..)?.strip_prefix(':')?; Some(Stmt::Delete { w: we(rest)?, ret }) }
            'U' => {
                let ret = flag(ch.next()?)?;
                let rest = t.get(2..)?.strip_prefix(':')?;
                let (s, w) = rest.split_once(':')?;
                let mut sets = vec![];
                for p in s.split('&') { let (c, e) = p.split_once('=')?; sets.push((c.trim().parse::<usize>().ok()?, Expr::from_line(e.trim())?)); }
                Some(Stmt::Update { sets, w: we(w)?, ret })
            }
            _ => None,
        }
    }
    pub fn shape(&self, sch: &Schema) -> String {
        let wk = |w: &Option<Expr>| match w { None => "nowhere", Some(e) => if pk_literal(&Some(e.clone())).is_some() && sch.key == KeyKind::Pk { "pk_eq" } else { "pred" } };
        match self {
            Stmt::Insert { rows, ret, .. } => format!("insert:{}{}", if rows.len() > 1 { "multi" } else { "single" }, if *ret { ":returning" } else { "" }),
            Stmt::Delete { w, ret } => format!("delete:{}{}", wk(w), if *ret { ":returning" } else { "" }),
            Stmt::Update { w, ret, sets } => format!("update:{}:{}{}", wk(w), if sets.iter().any(|(_, e)| !matches!(e, Expr::Lit(_))) { "expr" } else { "lit" }, if *ret { ":returning" } else { "" }),
            Stmt::Truncate => "truncate".into(),
            Stmt::Missing(_) => "missing_table".into(),
        }
    }
}

/// interning of observed rows (the case term names rows by index into `dict`)
pub struct Dict { pub rows: Vec<Vec<Val>>, map: std::collections::HashMap<String, usize> }
impl Dict {
    pub fn new() -> Dict { Dict { rows: vec![], map: std::collections::HashMap::new() } }
    fn idx(&mut self, r: &[Val]) -> usize {
        let k = r.iter().map(|v| v.to_tok()).collect::<Vec<_>>().join(",");
        if let Some(i) = self.map.get(&k) { return *i; }
        self.rows.push(r.to_vec());
        self.map.insert(k, self.rows.len() - 1);
        self.rows.len() - 1
    }
    fn list(&mut self, rows: &[Vec<Val>]) -> String { format!("[{}]", rows.iter().map(|r| self.idx(r).to_string()).collect::<Vec<_>>().join(";")) }
}
impl Res {
    pub fn to_coq(&self, d: &mut Dict) -> String {
        match self {
            Res::Aff(n, None) => format!("(HAff {} None)", n),
            Res::Aff(n, Some(r)) => format!("(HAff {} (Some {}))", n, d.list(r)),
            Res::Err(_) => "HErr".into(),
            Res::Panic => "HPanic".into(),
            Res::Bad(_) => "HBad".into(),
        }
    }
}
impl HObs {
    pub fn to_coq(&self, d: &mut Dict) -> String {
        format!("(HObs {} {} {})", self.res.to_coq(d),
                match &self.rows { Some(r) => format!("(Some {})", d.list(r)), None => "None".into() },
                match self.cnt { Some(c) => format!("(Some {})", if c < 0 { format!("({})", c) } else { c.to_string() }), None => "None".into() })
    }
}

pub fn hist_line(sch: &Schema, h: &[Stmt]) -> String {
    format!("hist {} ops={}", sch.to_line(), h.iter().map(|s| s.to_tok()).collect::<Vec<_>>().join(" | "))
}
pub fn parse_hist(l: &str) -> Option<(Schema, Vec<Stmt>)> {
    let l = l.split(" #").next().unwrap_or(l).trim();
    let rest = l.strip_prefix("hist k=")?;
    let (k, rest) = rest.split_once(" x=")?;
    let (x, rest) = rest.split_once(" w=")?;
    let (w, rest) = rest.split_once(" cols=")?;
    let (cols, rest) = rest.split_once(" nn=")?;
    let (nn, ops) = rest.split_once(" ops=")?;
    let key = match k { "n" => KeyKind::None, "p" => KeyKind::Pk, "u" => KeyKind::Uniq, _ => return None };
    let tys: Option<Vec<ColTy>> = cols.chars().map(ColTy::from_ch).collect();
    let tys = tys?;
    let nn: Vec<bool> = nn.chars().map(|c| c == '1').collect();
    if nn.len() != tys.len() || tys.is_empty() || tys[0] != ColTy::Int { return None; }
    let sch = Schema { key, tys, nn, xidx: x == "1", wal: w == "1" };
    let mut h = vec![];
    if !ops.trim().is_empty() { for t in ops.split(" | ") { h.push(Stmt::from_tok(t, sch.ncols())?); } }
    Some((sch, h))
}

// ------------------------------------------------------------------ reference (port of Model/DmlSpec.v)
fn fits(ty: ColTy, v: &Val) -> bool {
    matches!((v, ty), (Val::Null, _) | (Val::Int(_), ColTy::Int) | (Val::Float(_), ColTy::Float) | (Val::Text(_), ColTy::Text))
}
fn row_fits(sch: &Schema, r: &[Val]) -> bool { r.len() == sch.ncols() && r.iter().zip(sch.tys.iter()).all(|(v, t)| fits(*t, v)) }
/// a text value where a number is expected: the statement must be refused
fn type_err(ty: ColTy, v: &Val) -> bool { matches!((v, ty), (Val::Text(_), ColTy::Int) | (Val::Text(_), ColTy::Float)) }
fn row_known(sch: &Schema, r: &[Val]) -> bool { r.len() == sch.ncols() && r.iter().zip(sch.tys.iter()).all(|(v, t)| fits(*t, v) || type_err(*t, v)) }
fn nn_ok(sch: &Schema, r: &[Val]) -> bool {
    r.iter().zip(sch.nn.iter()).all(|(v, b)| !*b || !v.is_null()) && (sch.key != KeyKind::Pk || !r[0].is_null())
}
fn wsel(w: &Option<Expr>, r: &[Val]) -> Option<bool> {
    match w { None => Some(true), Some(e) => sem3(e, r).map(|t| t == Tv::T) }
}
fn wpass(w: &Option<Expr>, r: &[Val]) -> bool { wsel(w, r) == Some(true) }

#[derive(Clone, Debug, PartialEq)]
pub enum SRes { Aff(i64, Option<Vec<Vec<Val>>>), Err }

/// spec_step: None = the reference does not say
pub fn spec_step(sch: &Schema, t: &[Vec<Val>], s: &Stmt) -> Option<(SRes, Vec<Vec<Val>>)> {
    let ret_of = |ret: bool, rows: Vec<Vec<Val>>| if ret { Some(rows) } else { None };
    match s {
        Stmt::Insert { rows, ret, .. } => {
            if !rows.iter().all(|r| row_known(sch, r)) { return None; }
            let mut cur: Vec<Vec<Val>> = t.to_vec();
            for r in rows {
                let conflict = sch.keyed() && !r[0].is_null() && cur.iter().any(|x| x[0] == r[0]);
                if !row_fits(sch, r) || !nn_ok(sch, r) || conflict { return Some((SRes::Err, t.to_vec())); }
                cur.push(r.clone());
            }
            Some((SRes::Aff(rows.len() as i64, ret_of(*ret, rows.clone())), cur))
        }
        Stmt::Delete { w, ret } => {
            if t.iter().any(|r| wsel(w, r).is_none()) { return None; }
            let gone: Vec<Vec<Val>> = t.iter().filter(|r| wpass(w, r)).cloned().collect();
            let stay: Vec<Vec<Val>> = t.iter().filter(|r| !wpass(w, r)).cloned().collect();
            Some((SRes::Aff(gone.len() as i64, ret_of(*ret, gone)), stay))
        }
        Stmt::Update { sets, w, ret } => {
            if sch.keyed() && sets.iter().any(|(c, _)| *c == 0) { return None; }
            let mut t2 = vec![];
            let mut news = vec![];
            for r in t {
                match wsel(w, r)? {
                    false => t2.push(r.clone()),
                    true => {
                        let mut r2 = vec![];
                        for (i, v) in r.iter().enumerate() {
                            let x = match sets.iter().find(|(c, _)| *c == i) { Some((_, e)) => eval(e, r)?, None => v.clone() };
                            if !fits(sch.tys[i], &x) { return None; }
                            r2.push(x);
                        }
                        t2.push(r2.clone());
                        news.push(r2);
                    }
                }
            }
            if news.iter().all(|r| nn_ok(sch, r)) { Some((SRes::Aff(news.len() as i64, ret_of(*ret, news)), t2)) } else { Some((SRes::Err, t.to_vec())) }
        }
        Stmt::Truncate => Some((SRes::Aff(t.len() as i64, None), vec![])),
        Stmt::Missing(_) => Some((SRes::Err, t.to_vec())),
    }
}

// ------------------------------------------------------------------ implementation model (port of Model/Tombstone.v, fx = false)
#[derive(Clone, Debug)]
pub struct Ent { pub id: i64, pub del: bool, pub row: Vec<Val> }
#[derive(Clone, Debug)]
pub struct TState { pub ents: Vec<Ent>, pub rcount: i64, pub kidx: Vec<(Val, i64)>, pub nextid: i64 }

#[derive(Clone, Debug, PartialEq)]
pub enum MRes { Aff(i64, Option<Vec<Vec<Val>>>), Err, Unmod }

pub fn pk_literal(w: &Option<Expr>) -> Option<Val> {
    match w {
        Some(Expr::Cmp(CmpOp::Eq, a, b)) => match (&**a, &**b) {
            (Expr::Col(0), Expr::Lit(v)) => Some(v.clone()),
            (Expr::Lit(v), Expr::Col(0)) => Some(v.clone()),
            _ => None,
        },
        _ => None,
    }
}
fn set_has_col(e: &Expr) -> bool { !matches!(e, Expr::Lit(_)) }
fn set_ok(sch: &Schema, c: usize, e: &Expr) -> bool {
    let Some(ty) = sch.tys.get(c).copied() else { return false };
    match e {
        Expr::Lit(v) => fits(ty, v),
        Expr::Col(j) => sch.tys.get(*j).copied() == Some(ty),
        Expr::Arith(_, a, b) => matches!((&**a, &**b), (Expr::Col(j), Expr::Lit(Val::Int(_))) if sch.tys.get(*j).copied() == Some(ColTy::Int)) && ty == ColTy::Int,
        _ => false,
    }
}
fn sets_modelled(sch: &Schema, sets: &[(usize, Expr)]) -> bool {
    !sets.is_empty() && sets.iter().all(|(c, e)| set_ok(sch, *c, e))
        && sets.iter().enumerate().all(|(i, (c, _))| sets[i + 1..].iter().all(|(d, _)| d != c))
        && (!sch.keyed() || sets.iter().all(|(c, _)| *c != 0))
}
enum RRes { Ok(Vec<Val>), Un }
/// every SET expression is evaluated on the old row, arithmetic over NULL yields NULL (the
/// reference `eval`); None = outside the model (overflow ...)
fn new_row(sets: &[(usize, Expr)], old: &[Val]) -> RRes {
    let assoc = |i: usize| sets.iter().find(|(c, _)| *c == i).map(|(_, e)| e);
    let mut out = vec![];
    for (i, v) in old.iter().enumerate() {
        match assoc(i) { None => out.push(v.clone()), Some(e) => match eval(e, old) { Some(x) => out.push(x), None => return RRes::Un } }
    }
    RRes::Ok(out)
}
#[derive(PartialEq)]
enum URes { Ok(Vec<Vec<Val>>), NnErr, Un }
fn new_rows(sch: &Schema, sets: &[(usize, Expr)], sel: &[Ent]) -> URes {
    let mut news = vec![];
    let mut bad = false;
    for e in sel {
        match new_row(sets, &e.row) {
            RRes::Un => return URes::Un,
            RRes::Ok(r2) => { if !nn_ok(sch, &r2) { bad = true; } else { news.push(r2); } }
        }
    }
    if bad { URes::NnErr } else { URes::Ok(news) }
}

impl TState {
    pub fn empty() -> TState { TState { ents: vec![], rcount: 0, kidx: vec![], nextid: 1 } }
    pub fn visible(&self) -> Vec<Vec<Val>> { self.ents.iter().filter(|e| !e.del).map(|e| e.row.clone()).collect() }
    pub fn has_tomb(&self) -> bool { self.ents.iter().any(|e| e.del) }
    fn pk_target(&self, sch: &Schema, w: &Option<Expr>) -> Option<Ent> {
        if sch.key != KeyKind::Pk { return None; }
        let v = pk_literal(w)?;
        let id = self.kidx.iter().find(|(k, _)| *k == v)?.1;
        let e = self.ents.iter().find(|e| e.id == id)?;
        if e.row[0] == v && !e.del { Some(e.clone()) } else { None }
    }
    pub fn select(&self, sch: &Schema, w: &Option<Expr>) -> Vec<Ent> {
        match self.pk_target(sch, w) { Some(e) => vec![e], None => self.ents.iter().filter(|e| !e.del && wpass(w, &e.row)).cloned().collect() }
    }
    fn where_modelled(&self, w: &Option<Expr>) -> bool { self.ents.iter().all(|e| wsel(w, &e.row).is_some()) }
    fn ins_loop(&mut self, sch: &Schema, rows: &[Vec<Val>]) -> (bool, i64) {
        let mut n = 0;
        for r in rows {
            let has_key = sch.keyed() && !r[0].is_null();
            if !row_fits(sch, r) || !nn_ok(sch, r) || (has_key && self.kidx.iter().any(|(k, _)| *k == r[0])) { return (false, n); }
            self.ents.push(Ent { id: self.nextid, del: false, row: r.clone() });
            if has_key { self.kidx.push((r[0].clone(), self.nextid)); }
            self.nextid += 1;
            n += 1;
        }
        (true, n)
    }
    /// (class of the statement in the current state, result); the state is advanced
    pub fn step(&mut self, sch: &Schema, s: &Stmt) -> (u32, MRes) {
        match s {
            Stmt::Insert { rows, ret, .. } => {
                if !rows.iter().all(|r| row_known(sch, r)) { return (0, MRes::Unmod); }
                let (ok, n) = self.ins_loop(sch, rows);
                if ok { self.rcount += n; (0, MRes::Aff(n, if *ret { Some(rows.clone()) } else { None })) } else { (if n > 0 { 4 } else { 0 }, MRes::Err) }
            }
            Stmt::Delete { w, ret } => {
                if !self.where_modelled(w) { return (0, MRes::Unmod); }
                let sel = self.select(sch, w);
                for e in self.ents.iter_mut() { if sel.iter().any(|s| s.id == e.id) { e.del = true; } }
                if sch.keyed() { self.kidx.retain(|(key, _)| !sel.iter().any(|s| !s.row[0].is_null() && s.row[0] == *key)); }
                let n = sel.len() as i64;
                self.rcount = (self.rcount - n).max(0);
                (0, MRes::Aff(n, if *ret { Some(sel.iter().map(|e| e.row.clone()).collect()) } else { None }))
            }
            Stmt::Update { sets, w, ret } => {
                if !self.where_modelled(w) || !sets_modelled(sch, sets) { return (0, MRes::Unmod); }
                let sel = self.select(sch, w);
                match new_rows(sch, sets, &sel) {
                    URes::Un => (0, MRes::Unmod),
                    URes::NnErr => (0, MRes::Err),
                    URes::Ok(news) => {
                        for (s, r2) in sel.iter().zip(news.iter()) {
                            for e in self.ents.iter_mut() { if e.id == s.id { e.del = false; e.row = r2.clone(); } }
                        }
                        (0, MRes::Aff(sel.len() as i64, if *ret { Some(news) } else { None }))
                    }
                }
            }
            Stmt::Truncate => {
                let n = self.ents.iter().filter(|e| !e.del).count() as i64;
                self.ents.clear(); self.kidx.clear(); self.rcount = 0;
                (0, MRes::Aff(n, None))
            }
            Stmt::Missing(_) => (0, MRes::Err),
        }
    }
}
fn reads_col(e: &Expr, j: usize) -> bool {
    match e { Expr::Col(i) => *i == j, Expr::Arith(_, a, _) => matches!(**a, Expr::Col(i) if i == j), _ => false }
}
/// class of a history (first statement in a class), per the implementation model
pub fn hist_class(sch: &Schema, h: &[Stmt]) -> u32 {
    let mut st = TState::empty();
    for s in h { let (k, _) = st.step(sch, s); if k != 0 { return k; } }
    0
}

// ------------------------------------------------------------------ the database under test
fn scratch_root(prop: &str) -> PathBuf {
    let exe = std::env::current_exe().ok();
    let base = exe.as_ref().and_then(|p| p.parent()).and_then(|p| p.parent()).and_then(|p| p.parent())
        .map(|p| p.join("tmp")).unwrap_or_else(|| PathBuf::from("/verif/build/tmp"));
    base.join(prop).join(format!("db-{}", std::process::id()))
}

pub struct Sut { db: Option<Database>, dir: PathBuf, seq: u64, tables: u64,
    /// C42 only: statements run before every CREATE TABLE (configuration pragmas) and the number of
    /// filler tables (each with a secondary index and one row) that are scanned before every statement
    pub pre: Vec<String>, pub filler: usize }

fn to_val(o: &OwnedValue) -> Option<Val> {
    match o {
        OwnedValue::Null => Some(Val::Null),
        OwnedValue::Int(i) => Some(Val::Int(*i)),
        OwnedValue::Float(f) => Some(Val::Float(f.to_bits())),
        OwnedValue::Text(s) => Some(Val::Text(s.as_bytes().to_vec())),
        OwnedValue::Bool(b) => Some(Val::Bool(*b)),
        _ => None,
    }
}
fn to_rows(rs: &[turdb::Row]) -> Option<Vec<Vec<Val>>> {
    rs.iter().map(|r| r.values.iter().map(to_val).collect::<Option<Vec<Val>>>()).collect()
}

impl Sut {
    pub fn new(prop: &str) -> Sut { Sut { db: None, dir: scratch_root(prop), seq: 0, tables: 0, pre: vec![], filler: 0 } }
    pub fn cleanup(&mut self) { self.db = None; let _ = std::fs::remove_dir_all(&self.dir); }
    /// a database for the next history: a fresh one every 40 tables (and after any panic)
    fn fresh_table(&mut self, sch: &Schema) -> Result<String, String> {
        if self.db.is_none() || self.tables >= 40 {
            self.db = None;
            self.seq += 1;
            self.tables = 0;
            let _ = std::fs::remove_dir_all(&self.dir);
            std::fs::create_dir_all(&self.dir).map_err(|e| format!("mkdir: {}", e))?;
            let path = self.dir.join(format!("db{}", self.seq));
            match catch(std::panic::AssertUnwindSafe(move || Database::create(&path).map_err(|e| format!("create: {:#}", e)))) {
                Caught::Done(Ok(db)) => self.db = Some(db),
                Caught::Done(Err(e)) => return Err(e),
                Caught::Panicked(m) => return Err(format!("panic in create: {}", m)),
            }
            for i in 0..self.filler {
                let db = self.db.as_ref().unwrap();
                for q in [format!("CREATE TABLE f{} (c0 BIGINT PRIMARY KEY, c1 BIGINT)", i), format!("CREATE INDEX f{}_x ON f{} (c1)", i, i), format!("INSERT INTO f{} VALUES ({}, {})", i, i, i + 1000)] {
                    match catch(std::panic::AssertUnwindSafe(|| db.execute(&q).map(|_| ()).map_err(|e| format!("{}: {:#}", q, e)))) {
                        Caught::Done(Ok(())) => {}
                        Caught::Done(Err(e)) => { self.db = None; return Err(e); }
                        Caught::Panicked(m) => { self.db = None; return Err(format!("panic in {}: {}", q, m)); }
                    }
                }
            }
        }
        self.tables += 1;
        let name = format!("t{}", self.tables);
        let db = self.db.as_ref().unwrap();
        let mut ddl = vec![format!("PRAGMA wal={}", if sch.wal { "ON" } else { "OFF" })];
        ddl.extend(self.pre.iter().cloned());
        ddl.push(sch.create_sql(&name));
        if sch.xidx && sch.ncols() > 1 { ddl.push(format!("CREATE INDEX {}_c1x ON {} (c1)", name, name)); }
        for q in ddl {
            match catch(std::panic::AssertUnwindSafe(|| db.execute(&q).map(|_| ()).map_err(|e| format!("{}: {:#}", q, e)))) {
                Caught::Done(Ok(())) => {}
                Caught::Done(Err(e)) => { self.db = None; return Err(e); }
                Caught::Panicked(m) => { self.db = None; return Err(format!("panic in {}: {}", q, m)); }
            }
        }
        Ok(name)
    }
    fn exec(&mut self, sql: &str) -> Res {
        let db = self.db.as_ref().expect("db");
        let r = catch(std::panic::AssertUnwindSafe(|| db.execute(sql).map_err(|e| format!("{:#}", e))));
        match r {
            Caught::Panicked(_) => Res::Panic,
            Caught::Done(Err(m)) => Res::Err(m),
            Caught::Done(Ok(x)) => {
                let conv = |n: usize, ret: Option<Vec<turdb::Row>>| match ret {
                    None => Res::Aff(n as i64, None),
                    Some(rs) => match to_rows(&rs) { Some(v) => Res::Aff(n as i64, Some(v)), None => Res::Bad("returning value".into()) },
                };
                match x {
                    ExecuteResult::Insert { rows_affected, returned } => conv(rows_affected, returned),
                    ExecuteResult::Update { rows_affected, returned } => conv(rows_affected, returned),
                    ExecuteResult::Delete { rows_affected, returned } => conv(rows_affected, returned),
                    ExecuteResult::Truncate { rows_affected } => Res::Aff(rows_affected as i64, None),
                    o => Res::Bad(format!("{:?}", o)),
                }
            }
        }
    }
    fn query(&mut self, sql: &str) -> Option<Vec<Vec<Val>>> {
        let db = self.db.as_ref()?;
        match catch(std::panic::AssertUnwindSafe(|| db.query(sql))) {
            Caught::Done(Ok(rs)) => to_rows(&rs),
            _ => None,
        }
    }
    /// run one history on a fresh table; None if the table could not be set up
    pub fn run_history(&mut self, sch: &Schema, h: &[Stmt]) -> Result<Vec<HObs>, String> {
        let name = self.fresh_table(sch)?;
        let mut out = vec![];
        let mut dead = false;
        for s in h {
            if dead { out.push(HObs { res: Res::Bad("after panic".into()), rows: None, cnt: None }); continue; }
            let mut filler_bad = false;
            for j in 0..self.filler {
                // more table + index files than the open-file limit: every statement runs after the LRU was cycled
                let want = Some(vec![vec![Val::Int(j as i64), Val::Int(j as i64 + 1000)]]);
                if self.query(&format!("SELECT * FROM f{}", j)) != want { filler_bad = true; }
            }
            let res = self.exec(&s.to_sql(sch, &name));
            let res = if filler_bad { Res::Bad("filler table changed".into()) } else { res };
            let rows = self.query(&format!("SELECT * FROM {}", name));
            let cnt = self.query(&format!("SELECT COUNT(*) FROM {}", name)).and_then(|r| match r.as_slice() { [row] => match row.as_slice() { [Val::Int(c)] => Some(*c), _ => None }, _ => None });
            if res == Res::Panic { dead = true; self.db = None; }
            out.push(HObs { res, rows, cnt });
        }
        Ok(out)
    }
}

pub fn case_term(sch: &Schema, h: &[Stmt], obs: &[HObs]) -> String {
    let mut d = Dict::new();
    let steps: Vec<String> = h.iter().zip(obs.iter()).map(|(s, o)| format!("({}, {})", s.to_coq(), o.to_coq(&mut d))).collect();
    format!("Hist {} {} [{}]", sch.to_coq(), rows_coq(&d.rows), steps.join(";\n     "))
}

// ------------------------------------------------------------------ generators
const IDS: i64 = 14;

#[derive(Clone, Copy, PartialEq, Debug)]
pub enum Profile {
    /// no statement in a recorded finding class, no failing statement expected (a few dups)
    Clean,
    /// anything: re-deletes, updates of deleted rows, TRUNCATE after DELETE, failing statements
    Dirty,
    /// C06: many statements that fail (k-th row of a multi-row INSERT, NOT NULL, duplicates)
    Failing,
}

pub fn gen_schema(rng: &mut Rng, prof: Profile) -> Schema {
    let extra = 1 + rng.below(4) as usize;
    let mut tys = vec![ColTy::Int];
    for _ in 0..extra { tys.push(*rng.pick(&[ColTy::Int, ColTy::Int, ColTy::Int, ColTy::Float, ColTy::Text])); }
    let key = match rng.below(20) { 0..=6 => KeyKind::None, 7..=14 => KeyKind::Pk, _ => KeyKind::Uniq };
    let nn_p = if prof == Profile::Failing { 3 } else { 7 };
    let mut nn: Vec<bool> = tys.iter().map(|_| rng.chance(1, nn_p)).collect();
    nn[0] = false;
    Schema { key, tys, nn, xidx: rng.chance(1, 4), wal: rng.chance(1, 4) }
}

fn gen_cell(rng: &mut Rng, ty: ColTy, null_pct: u64) -> Val {
    if rng.below(100) < null_pct { return Val::Null; }
    gen_val(rng, ty, &GenCfg::default())
}

/// a row for INSERT; `fresh` = pick a key that is not in `used`
fn gen_row(rng: &mut Rng, sch: &Schema, used: &[Val], fresh: bool, violate_nn: bool) -> Vec<Val> {
    let mut r = vec![];
    let id = if sch.keyed() && fresh {
        let free: Vec<i64> = (1..=IDS).filter(|i| !used.contains(&Val::Int(*i))).collect();
        if free.is_empty() { Val::Int(IDS + 1 + rng.below(1000) as i64) } else { Val::Int(*rng.pick(&free)) }
    } else if !sch.keyed() && rng.chance(1, 8) { Val::Null }
    else if sch.key == KeyKind::Uniq && rng.chance(1, 6) { Val::Null }
    else { Val::Int(rng.range(1, IDS)) };
    r.push(id);
    for c in 1..sch.ncols() {
        let mut v = gen_cell(rng, sch.tys[c], 20);
        if sch.nn[c] && !violate_nn { while v.is_null() { v = gen_cell(rng, sch.tys[c], 0); } }
        r.push(v);
    }
    if violate_nn {
        let cs: Vec<usize> = (1..sch.ncols()).filter(|c| sch.nn[*c]).collect();
        if !cs.is_empty() { r[*rng.pick(&cs)] = Val::Null; } else if sch.key == KeyKind::Pk { r[0] = Val::Null; }
    }
    r
}

fn gen_where(rng: &mut Rng, sch: &Schema, st: &TState, allow_dead: bool) -> Option<Expr> {
    let live = st.visible();
    let dead: Vec<Vec<Val>> = st.ents.iter().filter(|e| e.del).map(|e| e.row.clone()).collect();
    match rng.below(100) {
        0..=7 => None,
        8..=44 => {
            // id = k, k a live id mostly, else a deleted id / an unused id
            let pool: &Vec<Vec<Val>> = if allow_dead && !dead.is_empty() && rng.chance(1, 2) { &dead } else { &live };
            let k = if !pool.is_empty() && rng.chance(5, 6) { pool[rng.below(pool.len() as u64) as usize][0].clone() } else { Val::Int(rng.range(1, IDS)) };
            let k = if k.is_null() { Val::Int(rng.range(1, IDS)) } else { k };
            Some(if rng.chance(1, 5) { Expr::cmp(CmpOp::Eq, Expr::Lit(k), Expr::col(0)) } else { Expr::cmp(CmpOp::Eq, Expr::col(0), Expr::Lit(k)) })
        }
        _ => {
            let rows = if allow_dead && rng.chance(1, 2) { st.ents.iter().map(|e| e.row.clone()).collect() } else { live };
            let t = Table { name: "t".into(), cols: sch.tys.clone(), rows };
            let cfg = GenCfg { allow_pred_operand: false, allow_bool_lit: false, ..GenCfg::default() };
            let depth = rng.below(3) as usize;
            // sqlgen never mentions column 0 (the id of its tables): mix in a range on id sometimes
            let e = gen_pred(rng, &t, &cfg, depth);
            Some(if rng.chance(1, 4) { Expr::and(Expr::cmp(*rng.pick(&[CmpOp::Le, CmpOp::Gt, CmpOp::Ne]), Expr::col(0), Expr::int(rng.range(1, IDS))), e) } else { e })
        }
    }
}

fn gen_sets(rng: &mut Rng, sch: &Schema, allow_mix: bool, nn_null_pct: u64) -> Vec<(usize, Expr)> {
    let n = sch.ncols();
    let first = if sch.keyed() { 1 } else { 0 };
    let mut cols: Vec<usize> = (first..n).collect();
    let k = 1 + rng.below(2.min(cols.len() as u64)) as usize;
    let mut sets: Vec<(usize, Expr)> = vec![];
    for _ in 0..k {
        let c = cols.remove(rng.below(cols.len() as u64) as usize);
        let ty = sch.tys[c];
        let same: Vec<usize> = (0..n).filter(|j| sch.tys[*j] == ty).collect();
        let e = match rng.below(10) {
            0..=4 => Expr::Lit(gen_cell(rng, ty, if sch.nn[c] { nn_null_pct } else { 15 })),
            5..=6 => Expr::Col(*rng.pick(&same)),
            _ => if ty == ColTy::Int {
                let ints: Vec<usize> = (0..n).filter(|j| sch.tys[*j] == ColTy::Int).collect();
                Expr::Arith(*rng.pick(&[ArithOp::Add, ArithOp::Sub, ArithOp::Mul]), Box::new(Expr::Col(*rng.pick(&ints))), Box::new(Expr::int(rng.range(-3, 5))))
            } else { Expr::Lit(gen_cell(rng, ty, 10)) },
        };
        sets.push((c, e));
    }
    if !allow_mix {
        let lits: Vec<usize> = sets.iter().filter(|(_, e)| !set_has_col(e)).map(|(c, _)| *c).collect();
        sets.retain(|(_, e)| !set_has_col(e) || !lits.iter().any(|c| reads_col(e, *c)));
    }
    if rng.chance(1, 2) { sets.reverse(); }
    sets
}

/// one statement for the current (model) state
fn gen_stmt(rng: &mut Rng, sch: &Schema, st: &TState, prof: Profile) -> Stmt {
    let dirty = prof != Profile::Clean;
    let used: Vec<Val> = if dirty { st.visible().iter().map(|r| r[0].clone()).collect() } else { st.ents.iter().map(|e| e.row[0].clone()).collect() };
    // clean histories never reuse the key of a deleted row either: WHERE id = k then stays clear of tombstones
    let ret = rng.chance(1, 3);
    if prof == Profile::Failing && rng.chance(1, 30) { return Stmt::Missing(rng.below(3) as u8); }
    let roll = rng.below(100);
    let ins_share = if prof == Profile::Failing { 55 } else if st.visible().len() < 3 { 60 } else { 34 };
    if roll < ins_share {
        let n = match rng.below(10) { 0..=4 => 1, 5..=7 => 2, 8 => 3, _ => 4 + rng.below(3) as usize };
        let mut rows: Vec<Vec<Val>> = vec![];
        let fail_at = if (prof == Profile::Failing && rng.chance(1, 2)) || (prof == Profile::Dirty && rng.chance(1, 6)) || (prof == Profile::Clean && rng.chance(1, 25)) { Some(rng.below(n as u64) as usize) } else { None };
        let fail_at = if prof == Profile::Clean || (prof == Profile::Failing && rng.chance(1, 2)) { fail_at.map(|_| 0) } else { fail_at };
        for i in 0..n {
            let mut taken = used.clone();
            taken.extend(rows.iter().map(|r| r[0].clone()));
            if Some(i) == fail_at {
                let has_nn = sch.nn.iter().any(|b| *b) || sch.key == KeyKind::Pk;
                if sch.keyed() && !taken.iter().all(|v| v.is_null()) && (rng.chance(2, 3) || (!has_nn && prof != Profile::Failing)) {
                    let mut r = gen_row(rng, sch, &taken, true, false);
                    let ks: Vec<&Val> = taken.iter().filter(|v| !v.is_null()).collect();
                    r[0] = (*rng.pick(&ks)).clone();
                    rows.push(r);
                } else if prof == Profile::Failing && rng.chance(1, 3) {
                    // type error: a text value in a numeric column
                    let mut r = gen_row(rng, sch, &taken, true, false);
                    let cs: Vec<usize> = (0..sch.ncols()).filter(|c| sch.tys[*c] != ColTy::Text).collect();
                    r[*rng.pick(&cs)] = Val::text(*rng.pick(&["abc", "x", "12a"]));
                    rows.push(r);
                } else { rows.push(gen_row(rng, sch, &taken, true, true)); }
            } else { rows.push(gen_row(rng, sch, &taken, true, false)); }
        }
        return Stmt::Insert { rows, ret: rng.chance(1, 4), style: rng.below(3) as u8 };
    }
    if roll < ins_share + 26 { return Stmt::Delete { w: gen_where(rng, sch, st, dirty), ret }; }
    if roll < 96 || prof == Profile::Failing {
        let sets = gen_sets(rng, sch, dirty, if prof == Profile::Failing { 35 } else { 3 });
        if sets.is_empty() { return Stmt::Delete { w: gen_where(rng, sch, st, dirty), ret }; }
        return Stmt::Update { sets, w: gen_where(rng, sch, st, dirty), ret };
    }
    Stmt::Truncate
}

fn defined(sch: &Schema, st: &TState, s: &Stmt) -> bool {
    let mut m = st.clone();
    let (_, r) = m.step(sch, s);
    if r == MRes::Unmod { return false; }
    // the reference must say something too (a SET expression undefined on a live row, overflow ...)
    spec_step(sch, &st.visible(), s).is_some() || hist_dirty_state(st)
}
fn hist_dirty_state(st: &TState) -> bool { st.rcount != st.visible().len() as i64 }

pub fn gen_history(rng: &mut Rng, prof: Profile, len: usize) -> (Schema, Vec<Stmt>) {
    let sch = gen_schema(rng, prof);
    let mut st = TState::empty();
    let mut h = vec![];
    for _ in 0..len {
        let mut chosen: Option<Stmt> = None;
        for _ in 0..12 {
            let s = gen_stmt(rng, &sch, &st, prof);
            if !defined(&sch, &st, &s) { continue; }
            let (k, _) = st.clone().step(&sch, &s);
            if prof == Profile::Clean && k != 0 { continue; }
            chosen = Some(s);
            break;
        }
        let s = chosen.unwrap_or_else(|| {
            let used: Vec<Val> = st.ents.iter().map(|e| e.row[0].clone()).collect();
            Stmt::Insert { rows: vec![gen_row(rng, &sch, &used, true, false)], ret: false, style: 1 }
        });
        st.step(&sch, &s);
        h.push(s);
    }
    (sch, h)
}

// ------------------------------------------------------------------ statistics of a history
pub struct HStat { pub class: u32, pub tomb_regime: bool, pub failing: usize, pub failing_nonempty: usize }
pub fn hist_stat(sch: &Schema, h: &[Stmt]) -> HStat {
    let mut st = TState::empty();
    let (mut class, mut tomb, mut failing, mut fne) = (0, false, 0, 0);
    for s in h {
        if st.has_tomb() { tomb = true; }
        let nonempty = !st.visible().is_empty();
        let (k, r) = st.step(sch, s);
        if class == 0 { class = k; }
        if r == MRes::Err { failing += 1; if nonempty { fne += 1; } }
    }
    HStat { class, tomb_regime: tomb, failing, failing_nonempty: fne }
}

// ------------------------------------------------------------------ oracle (search mode)
fn bag_eq(a: &[Vec<Val>], b: &[Vec<Val>]) -> bool {
    if a.len() != b.len() { return false; }
    let mut used = vec![false; b.len()];
    'o: for x in a { for (i, y) in b.iter().enumerate() { if !used[i] && x == y { used[i] = true; continue 'o; } } return false; }
    true
}
/// C05 oracle: first step at which the observation differs from the reference (None = all fine)
pub fn oracle_c05(sch: &Schema, h: &[Stmt], obs: &[HObs]) -> Option<usize> {
    let mut t: Vec<Vec<Val>> = vec![];
    for (i, (s, o)) in h.iter().zip(obs.iter()).enumerate() {
        let Some((r, t2)) = spec_step(sch, &t, s) else { return None };
        let res_ok = match (&r, &o.res) {
            (SRes::Err, Res::Err(_)) => true,
            (SRes::Aff(n, None), Res::Aff(m, None)) => n == m,
            (SRes::Aff(n, Some(x)), Res::Aff(m, Some(y))) => n == m && bag_eq(x, y),
            _ => false,
        };
        let rows_ok = o.rows.as_ref().map(|x| bag_eq(x, &t2)).unwrap_or(false);
        if !res_ok || !rows_ok || o.cnt != Some(t2.len() as i64) { return Some(i); }
        t = t2;
    }
    None
}
/// C06 oracle: first failing statement after which the table or COUNT(*) changed
pub fn oracle_c06(h: &[Stmt], obs: &[HObs]) -> Option<usize> {
    let mut prev: (Vec<Vec<Val>>, i64) = (vec![], 0);
    for (i, (_, o)) in h.iter().zip(obs.iter()).enumerate() {
        let (Some(rows), Some(cnt)) = (&o.rows, o.cnt) else { return Some(i) };
        match &o.res {
            Res::Err(_) => { if !bag_eq(&prev.0, rows) || prev.1 != cnt { return Some(i); } }
            Res::Aff(..) => {}
            _ => return Some(i),
        }
        prev = (rows.clone(), cnt);
    }
    None
}

// ------------------------------------------------------------------ modes
fn emit(w: &mut CaseWriter, sut: &mut Sut, prop: &str, sch: &Schema, h: &[Stmt], stream: &str) {
    let obs = match sut.run_history(sch, h) {
        Ok(o) => o,
        Err(m) => { eprintln!("{}: table setup failed ({}): {}", prop, m, hist_line(sch, h)); w.count("setup_failed", 1); return; }
    };
    let st = hist_stat(sch, h);
    let nontrivial = if prop == "C05" { st.tomb_regime } else { st.failing_nonempty > 0 };
    let kind = format!("{}:key={}:class={}", stream, match sch.key { KeyKind::None => "none", KeyKind::Pk => "pk", KeyKind::Uniq => "unique" }, if prop == "C05" { st.class } else { has_partial_insert(sch, h) as u32 });
    w.push(case_term(sch, h, &obs), hist_line(sch, h), nontrivial, &kind);
    w.count("statements", h.len() as u64);
    for s in h { w.count(&format!("stmt:{}", s.shape(sch)), 1); }
    for o in &obs { w.count(match &o.res { Res::Aff(..) => "out:ok", Res::Err(_) => "out:error", Res::Panic => "out:panic", Res::Bad(_) => "out:bad" }, 1); }
    if sch.wal { w.count("hist:wal_on", 1); }
    if sch.xidx { w.count("hist:secondary_index", 1); }
    if sch.has_text() { w.count("hist:text_column(multipass update)", 1); }
    if st.tomb_regime { w.count("hist:statements_run_over_tombstones", 1); }
    if st.failing > 0 { w.count("hist:has_failing_statement", 1); }
    let bad = match prop { "C05" => oracle_c05(sch, h, &obs).is_some(), _ => oracle_c06(h, &obs).is_some() };
    if bad { w.count("oracle:property_violated_in_history", 1); }
}

fn plan(prop: &str, thorough: bool) -> Vec<(Profile, &'static str, usize, usize, usize)> {
    // (profile, stream name, histories, min len, max len)
    match (prop, thorough) {
        ("C05", false) => vec![(Profile::Clean, "clean", 90, 4, 22), (Profile::Dirty, "dirty", 80, 4, 20)],
        ("C05", true) => vec![(Profile::Clean, "clean", 800, 4, 60), (Profile::Dirty, "dirty", 800, 4, 50)],
        (_, false) => vec![(Profile::Failing, "failing", 110, 3, 14), (Profile::Clean, "clean", 30, 3, 14), (Profile::Dirty, "dirty", 20, 3, 14)],
        (_, true) => vec![(Profile::Failing, "failing", 1100, 3, 30), (Profile::Clean, "clean", 250, 3, 30), (Profile::Dirty, "dirty", 250, 3, 30)],
    }
}

pub fn gen(a: &Args, prop: &str) {
    let mut w = CaseWriter::new(&a.out, prop, &format!("Corr.{}", prop), 25);
    let mut sut = Sut::new(prop);
    if let Some(lines) = a.replay_lines() {
        for l in lines {
            match parse_hist(&l) {
                Some((sch, h)) => emit(&mut w, &mut sut, prop, &sch, &h, "replay"),
                None => eprintln!("{}: cannot parse replay line: {}", prop, l),
            }
        }
        sut.cleanup();
        w.finish(&[]);
        return;
    }
    let mut rng = Rng::new(a.seed);
    for (prof, stream, n, lo, hi) in plan(prop, a.thorough()) {
        for _ in 0..n {
            let len = lo + rng.below((hi - lo + 1) as u64) as usize;
            let (sch, h) = gen_history(&mut rng, prof, len);
            emit(&mut w, &mut sut, prop, &sch, &h, stream);
        }
    }
    sut.cleanup();
    w.finish(&[]);
}

pub fn search(a: &Args, prop: &str) {
    let mut rng = Rng::new(a.seed ^ 0xC05_5EA7);
    let mut sut = Sut::new(prop);
    let mut fails: Vec<String> = vec![];
    let mut tried: u64 = 0;
    let budget = a.budget.min(40_000);
    while tried < budget {
        let prof = match rng.below(4) { 0 | 1 => Profile::Clean, 2 => Profile::Dirty, _ => Profile::Failing };
        let len = 3 + rng.below(24) as usize;
        let (sch, h) = gen_history(&mut rng, prof, len);
        tried += h.len() as u64;
        let Ok(obs) = sut.run_history(&sch, &h) else { continue };
        let bad = match prop { "C05" => oracle_c05(&sch, &h, &obs), _ => oracle_c06(&h, &obs) };
        if let Some(i) = bad {
            // cut the history after the first bad step: a short replay
            let h2 = &h[..=i];
            let k = hist_class(&sch, h2);
            let k = if prop == "C05" { k } else { has_partial_insert(&sch, h2) as u32 };
            if fails.len() < 60 && (k == 0 || fails.len() < 30) { fails.push(format!("{} #k={}", hist_line(&sch, h2), k)); }
        }
    }
    sut.cleanup();
    fails.sort_by_key(|f| !f.ends_with("#k=0"));
    let mut out = format!("tried={}\n", tried);
    for f in &fails { out.push_str("FAIL "); out.push_str(f); out.push('\n'); }
    std::fs::write(&a.out, out).expect("write search output");
}
fn has_partial_insert(sch: &Schema, h: &[Stmt]) -> bool {
    let mut st = TState::empty();
    for s in h { let (k, _) = st.step(sch, s); if k == 4 { return true; } }
    false
}

fn show(v: &Val) -> String { v.to_sql() }
pub fn sql_mode(a: &Args, prop: &str) {
    let file = a.rest.get(0).expect("file");
    let dir = scratch_root(prop).join("sql");
    let _ = std::fs::remove_dir_all(&dir);
    std::fs::create_dir_all(&dir).expect("mkdir");
    let db = Database::create(dir.join("db")).expect("create");
    for l in std::fs::read_to_string(file).unwrap().lines() {
        let l = l.trim();
        if l.is_empty() || l.starts_with('#') { continue; }
        let l2 = l.to_string();
        match catch(std::panic::AssertUnwindSafe(|| db.execute(&l2))) {
            Caught::Done(Ok(r)) => {
                let rows = |rs: &[turdb::Row]| to_rows(rs).map(|v| v.iter().map(|r| format!("({})", r.iter().map(show).collect::<Vec<_>>().join(","))).collect::<Vec<_>>().join(" ")).unwrap_or("?".into());
                let s = match r {
                    ExecuteResult::Select { rows: rs, .. } => format!("ROWS {}", rows(&rs)),
                    ExecuteResult::Insert { rows_affected, returned } => format!("INSERT n={} ret={:?}", rows_affected, returned.map(|x| rows(&x))),
                    ExecuteResult::Update { rows_affected, returned } => format!("UPDATE n={} ret={:?}", rows_affected, returned.map(|x| rows(&x))),
                    ExecuteResult::Delete { rows_affected, returned } => format!("DELETE n={} ret={:?}", rows_affected, returned.map(|x| rows(&x))),
                    ExecuteResult::Truncate { rows_affected } => format!("TRUNCATE n={}", rows_affected),
                    o => format!("{:?}", o),
                };
                println!("{}\n   => {}", l, s);
            }
            Caught::Done(Err(e)) => println!("{}\n   => ERR {:#}", l, e),
            Caught::Panicked(m) => println!("{}\n   => PANIC {}", l, m),
        }
    }
    drop(db);
    let _ = std::fs::remove_dir_all(&dir);
}

pub fn main_for(prop: &str) {
    let a = Args::parse();
    match a.mode.as_str() {
        "gen" => gen(&a, prop),
        "search" => search(&a, prop),
        "sql" => sql_mode(&a, prop),
        "show" => { for l in a.replay_lines().unwrap_or_default() { if let Some((sch, h)) = parse_hist(&l) { println!("{}", sch.create_sql("t")); for s in &h { println!("{}", s.to_sql(&sch, "t")); } } } }
        _ => { eprintln!("{}: unknown mode", prop); std::process::exit(2); }
    }
}
