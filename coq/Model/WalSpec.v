(* C03: what the property demands, independent of how the implementation works, and the
   decidable classes of the recorded findings.  Definitions only.

   The abstract log is the list of frames written since the last truncate, per segment, in
   write order.  After a fault in segment k the longest valid prefix of the log is: all of
   the segments before k, then the frames of segment k in front of the first frame whose
   bytes the fault changed.  Recovery must apply exactly those frames, in order; after
   reopening, read_page must return the last image of each page among them. *)
From Coq Require Import ZArith List Bool.
From TV Require Import Model.Wal.
Import ListNotations.
Open Scope Z_scope.

(* ---------------------------------------------------------------- the abstract log *)
Definition lstep (l : list (list frame) * list frame) (o : op) : list (list frame) * list frame :=
  match o with
  | OWrite f => (fst l, snd l ++ [f])
  | OBatch fs _ => (fst l, snd l ++ fs)
  | ORotate => (fst l ++ [snd l], [])
  | OTruncate => ([], [])
  | _ => l
  end.
Definition lrun (ops : list op) : list (list frame) * list frame := fold_left lstep ops ([], []).
Definition log_of (ops : list op) : list (list frame) := fst (lrun ops) ++ [snd (lrun ops)].

(* number of leading frames of a segment of n written frames whose bytes the fault left intact *)
Fixpoint zero_intact (cnt : nat) (i off e i0 : Z) (vf vl : Z) : nat :=
  match cnt with
  | O => O
  | S c => if zcls i off e i0 vf vl =? 0 then S (zero_intact c (i + 1) off e i0 vf vl) else O
  end.

Definition intact (n : nat) (d : dmg) : nat :=
  let len := FRAME * Z.of_nat n in
  match d with
  | DNone => n
  | DCut _ off => if (0 <=? off) && (off <=? len) then Z.to_nat (off / FRAME) else n
  | DFlip _ off m =>
      if (0 <=? off) && (off <? len) && negb (m mod 256 =? 0) then Z.to_nat (off / FRAME) else n
  | DZero _ off k vf vl =>
      if (0 <=? off) && (off <? len) && (0 <? k)
      then zero_intact n 0 off (Z.min (off + k) len) (off / FRAME) vf vl else n
  end.

Definition is_dmg_seg (d : dmg) (i : nat) : bool :=
  match dmg_seg d with Some s => (0 <=? s) && (Z.to_nat s =? i)%nat | None => false end.

(* the longest valid prefix of the log, segment i onwards *)
Fixpoint vprefix (i : nat) (d : dmg) (log : list (list frame)) : list frame :=
  match log with
  | [] => []
  | seg :: t =>
      if is_dmg_seg d i && (intact (length seg) d <? length seg)%nat
      then firstn (intact (length seg) d) seg
      else seg ++ vprefix (S i) d t
  end.
Definition valid_prefix (log : list (list frame)) (d : dmg) : list frame := vprefix 0 d log.

(* ---------------------------------------------------------------- expected observations *)
Fixpoint last_image (fs : list frame) (k : key) (acc : rd) : rd :=
  match fs with
  | [] => acc
  | f :: t => last_image t k (if key_eqb k (fkey f) then RSome (f_fill f) else acc)
  end.
Definition expect_reads (fs : list frame) (keys : list key) : list rd :=
  map (fun k => last_image fs k RNone) keys.

(* last image written to page p (recover ignores file ids); a fresh page is zero *)
Fixpoint page_expect (fs : list frame) (p : Z) (acc : Z) : Z :=
  match fs with
  | [] => acc
  | f :: t => page_expect t p (if f_page f =? p then f_fill f else acc)
  end.
Fixpoint check_pages (fs : list frame) (i : Z) (pages : list Z) : bool :=
  match pages with
  | [] => true
  | v :: t => (v =? page_expect fs i 0) && check_pages fs (i + 1) t
  end.
(* exactly the frames fs were applied, in order: the count, every written page exists and holds
   its last image, every other page of the storage is still zero *)
Definition rec_ok (fs : list frame) (r : rec) : bool :=
  match r with
  | RecOk n pages =>
      (n =? Z.of_nat (length fs)) && forallb (fun f => f_page f <? Z.of_nat (length pages)) fs
      && check_pages fs 0 pages
  | _ => false
  end.

Definition rd_eqb (a b : rd) : bool :=
  match a, b with
  | RNone, RNone => true
  | RSome x, RSome y => x =? y
  | RErr, RErr => true
  | RPanic, RPanic => true
  | _, _ => false
  end.
Fixpoint rds_eqb (a b : list rd) : bool :=
  match a, b with
  | [], [] => true
  | x :: a', y :: b' => rd_eqb x y && rds_eqb a' b'
  | _, _ => false
  end.

Definition by_fid (fid : Z) (fs : list frame) : list frame := filter (fun f => f_fid f =? fid) fs.

(* the property, on the observations of one case (live reads are not part of the statement) *)
Definition spec_check (ops : list op) (d : dmg) (o : obs) : bool :=
  let vp := valid_prefix (log_of ops) d in
  o_ok o && rds_eqb (o_reads o) (expect_reads vp read_keys)
  && rec_ok vp (o_rec o) && rec_ok (by_fid 0 vp) (o_rec0 o) && rec_ok (by_fid 1 vp) (o_rec1 o).

(* ---------------------------------------------------------------- finding classes *)
Definition nonempty_after (i : nat) (log : list (list frame)) : bool :=
  existsb (fun g => negb (is_nil g)) (skipn (S i) log).

(* is the first frame the fault invalidates a slot the fault filled with zeros entirely? *)
Definition first_hit_zeroed (n : nat) (d : dmg) : bool :=
  match d with
  | DZero _ off k vf vl =>
      let len := FRAME * Z.of_nat n in
      (0 <=? off) && (off <? len) && (0 <? k)
      && (zcls (Z.of_nat (intact n d)) off (Z.min (off + k) len) (off / FRAME) vf vl =? 1)
  | _ => false
  end.

(* a cut exactly at a frame boundary leaves a file that ends cleanly *)
Definition clean_cut (n : nat) (d : dmg) : bool :=
  match d with
  | DCut _ off => (0 <=? off) && (off <=? FRAME * Z.of_nat n) && (off mod FRAME =? 0)
  | _ => false
  end.

(*  6  the first frame the fault destroys is overwritten with zeros entirely: an all-zero slot
       passes validate_checksum (CRC-64/ECMA-182 of zeros is 0), so it is replayed as a frame
       for page 0 of file 0 and the scan goes on behind it;
    7  a segment that is not the last one is cut exactly at a frame boundary and a later segment
       holds frames: nothing in the files shows that frames are missing (no sequence numbers,
       no segment trailer), so the later segments are replayed behind the gap.
   (Classes 1-5 of the first version of this check were repaired in /repo by commits 3b478c2,
   68f3fa5 and 8009d11.) *)
Definition dmg_class (log : list (list frame)) (d : dmg) : Z :=
  match dmg_seg d with
  | None => 0
  | Some s =>
      if (0 <=? s) then
        match nth_error log (Z.to_nat s) with
        | None => 0
        | Some seg =>
            if (intact (length seg) d <? length seg)%nat then
              if first_hit_zeroed (length seg) d then 6
              else if clean_cut (length seg) d && nonempty_after (Z.to_nat s) log then 7 else 0
            else 0
        end
      else 0
  end.

Definition known_case (ops : list op) (d : dmg) : Z := dmg_class (log_of ops) d.

(* the frames the API accepts: u32 page numbers below u32::MAX (page_no + 1 must not overflow) *)
Definition frame_ok (f : frame) : bool := (0 <=? f_page f) && (f_page f <? U32_MAX) && (0 <=? f_dbs f).
Definition op_ok (o : op) : bool :=
  match o with OWrite f => frame_ok f | OBatch fs _ => forallb frame_ok fs | _ => true end.
Definition ops_ok (ops : list op) : bool := forallb op_ok ops.
