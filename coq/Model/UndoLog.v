(* C07 / C08 -- IMPLEMENTATION model of TurDB's transaction undo log and of the DML that feeds it
   (src/database/transaction.rs: ActiveTransaction, execute_begin/commit/rollback/savepoint/
   release, undo_write_entries, undo_write_entry, abort_active_transaction; the write-entry
   producing parts of src/database/dml/{insert,update,delete}.rs; the read paths of
   src/database/database.rs that answer SELECT star, COUNT star and equality lookups).
   Definitions only; hand-written (the code is far outside tools/rs2v.py), tied to the code by the
   correspondence run (coq/Corr/C07.v, coq/Corr/C08.v).  The model is the code AS IT IS.

   One table  t (c0 <INT|TEXT> [PRIMARY KEY|UNIQUE], c1 INT [, c2 TEXT constant padding])  with an
   optional  CREATE INDEX ON t (c1):
     ents    the B-tree of the table file: row id -> (DELETE_BIT, row), ascending row ids (row ids
             come from the global counter next_row_id, so INSERT appends); the B-tree is abstracted
             as a list, i.e. the model assumes the root page stays page 1 (undo_write_entry opens
             BTree::new(storage, 1): see the `Big` cases of Corr/C07.v for what happens otherwise);
     rcount  TableFileHeader.row_count, which answers SELECT COUNT star without a filter;
     kidx    the unique index `id_pkey` / `id_key` of column c0: key value -> stored 8 bytes, read
             back as a row id (INSERT and UPDATE store the row id, undo stores the primary-key VALUE);
     sidx    the non-unique index on c1: key = value ++ row id (INSERT, UPDATE, DELETE) or the bare
             value (undo), read back by taking the last 8 bytes of the key as the row id;
   (state of /repo after the fix commits of 2026-09-22 15:22: DML skips tombstones, UPDATE / DELETE
   maintain index entries the way INSERT writes them; index scans still return what they fetch
   without looking at DELETE_BIT or re-checking the WHERE clause; src/database/transaction.rs --
   the undo side -- is unchanged; /repo HEAD 8d427ad)
     nextid  next_row_id.
   A transaction (per handle): the write entries (oldest first) and the savepoint markers. *)
From Coq Require Import ZArith List Bool.
From TV Require Import Model.SqlSpec.
Import ListNotations.
Open Scope Z_scope.

(* ------------------------------------------------------------------ schema, rows *)
Inductive kkind := KNone | KPk | KUniq.
Inductive kty := KInt | KText.
Record schema := mkSchema { s_kind : kkind; s_kty : kty; s_sec : bool; s_pad : bool }.

Definition keyed (sch : schema) : bool := match s_kind sch with KNone => false | _ => true end.
Definition is_pk (sch : schema) : bool := match s_kind sch with KPk => true | _ => false end.
Definition int_pk (sch : schema) : bool := is_pk sch && match s_kty sch with KInt => true | KText => false end.
(* table_def.has_toast(): any TEXT column *)
Definition has_toast (sch : schema) : bool := s_pad sch || match s_kty sch with KText => true | KInt => false end.

Record trow := R { c0 : value; c1 : value }.
Inductive colid := C0 | C1.
Definition getc (c : colid) (r : trow) : value := match c with C0 => c0 r | C1 => c1 r end.
Definition setc (c : colid) (v : value) (r : trow) : trow :=
  match c with C0 => R v (c1 r) | C1 => R (c0 r) v end.
Definition is_null (v : value) : bool := match v with VNull => true | _ => false end.
Definition trow_eqb (a b : trow) : bool := value_eqb (c0 a) (c0 b) && value_eqb (c1 a) (c1 b).
Definition is_c0 (c : colid) : bool := match c with C0 => true | C1 => false end.

(* `x as u64` of an i64 *)
Definition as_u64 (z : Z) : Z := if z <? 0 then z + 18446744073709551616 else z.

(* ------------------------------------------------------------------ storage state *)
Record ent := mkEnt { e_id : Z; e_del : bool; e_row : trow }.
Record sent := mkS { s_key : value; s_suf : option Z; s_val : Z }.
Record tstate := mkT { ents : list ent; rcount : Z; kidx : list (value * Z); sidx : list sent; nextid : Z }.
Definition t_empty : tstate := mkT [] 0 [] [] 1.

Definition zlen {A} (l : list A) : Z := Z.of_nat (length l).
Definition find_ent (id : Z) (es : list ent) : option ent := find (fun e => e_id e =? id) es.
Definition remove_ent (id : Z) (es : list ent) : list ent := filter (fun e => negb (e_id e =? id)) es.
(* btree.delete(key); btree.insert(key, old): replace in place, or insert at the sorted position *)
Fixpoint set_ent (id : Z) (n : ent) (es : list ent) : list ent :=
  match es with
  | [] => [n]
  | e :: es' => if e_id e =? id then n :: es'
                else if id <? e_id e then n :: e :: es'
                else e :: set_ent id n es'
  end.

(* unique index: B-tree with unique keys; insert of an existing key fails ("key already exists")
   and every caller modelled here ignores that error *)
Definition kmem (k : value) (ix : list (value * Z)) : bool := existsb (fun p => value_eqb (fst p) k) ix.
Definition kfind (k : value) (ix : list (value * Z)) : option Z :=
  match find (fun p => value_eqb (fst p) k) ix with Some p => Some (snd p) | None => None end.
Definition kins (k : value) (v : Z) (ix : list (value * Z)) : list (value * Z) :=
  if kmem k ix then ix else ix ++ [(k, v)].
Definition kdel (k : value) (ix : list (value * Z)) : list (value * Z) :=
  filter (fun p => negb (value_eqb (fst p) k)) ix.

Definition suf_eqb (a b : option Z) : bool :=
  match a, b with None, None => true | Some x, Some y => x =? y | _, _ => false end.
Definition skey_is (k : value) (s : option Z) (e : sent) : bool := value_eqb (s_key e) k && suf_eqb (s_suf e) s.
Definition sins (k : value) (s : option Z) (v : Z) (ix : list sent) : list sent :=
  if existsb (skey_is k s) ix then ix else ix ++ [mkS k s v].
Definition sdel_bare (k : value) (ix : list sent) : list sent := filter (fun e => negb (skey_is k None e)) ix.

(* ------------------------------------------------------------------ write entries, transaction *)
(* WriteEntry { key = row id, is_insert } + undo_data (None for inserts, the old record -- header
   flags included -- for updates and deletes) *)
Inductive wentry := WIns (id : Z) | WOld (id : Z) (old : ent).
Record txn := mkTxn { wlog : list wentry; sps : list (Z * nat) }.

(* ------------------------------------------------------------------ statements *)
Definition wclause := option (colid * value).
Inductive op :=
| OIns (rows : list trow)                       (* INSERT INTO t VALUES (..), (..) *)
| OUpd (sc : colid) (v : value) (w : wclause)   (* UPDATE t SET sc = v [WHERE wc = wv] *)
| ODel (w : wclause)                            (* DELETE FROM t [WHERE wc = wv] *)
| OBegin | OCommit | ORollback
| OSave (n : Z) | ORollTo (n : Z) | ORelease (n : Z)
| ODrop                                         (* drop the handle (and take a new clone) *)
| OObs.                                         (* no statement: observe only *)
Inductive res := RAff (n : Z) | ROk | RErr | RPanic | RBad.

(* ------------------------------------------------------------------ INSERT (insert.rs:547 loop) *)
Definition nn_ok (sch : schema) (r : trow) : bool := negb (is_pk sch && is_null (c0 r)).
Definition has_key (sch : schema) (r : trow) : bool := keyed sch && negb (is_null (c0 r)).
Definition uniq_ok (sch : schema) (st : tstate) (r : trow) : bool := negb (has_key sch r && kmem (c0 r) (kidx st)).
Definition ins_write (sch : schema) (st : tstate) (r : trow) : tstate :=
  let id := nextid st in
  mkT (ents st ++ [mkEnt id false r]) (rcount st)
      (if has_key sch r then kidx st ++ [(c0 r, id)] else kidx st)
      (if s_sec sch then sidx st ++ [mkS (c1 r) (Some id) id] else sidx st)
      (id + 1).
Fixpoint ins_loop (sch : schema) (st : tstate) (rows : list trow) (acc : list Z) : bool * tstate * list Z :=
  match rows with
  | [] => (true, st, acc)
  | r :: rs =>
      if nn_ok sch r && uniq_ok sch st r then ins_loop sch (ins_write sch st r) rs (acc ++ [nextid st])
      else (false, st, acc)
  end.
Definition add_count (st : tstate) (n : Z) : tstate := mkT (ents st) (rcount st + n) (kidx st) (sidx st) (nextid st).
(* header row_count is raised only after the loop; a failing row leaves the earlier rows (and
   their write entries) behind *)
Definition do_insert (sch : schema) (st : tstate) (rows : list trow) : res * tstate * list wentry :=
  match ins_loop sch st rows [] with
  | (true, st', ids) => (RAff (zlen ids), add_count st' (zlen ids), map WIns ids)
  | (false, st', ids) => (RErr, st', map WIns ids)
  end.

(* ------------------------------------------------------------------ row selection of UPDATE / DELETE *)
Definition wmatch (w : wclause) (r : trow) : bool :=
  match w with
  | None => true
  | Some (c, v) => negb (is_null v) && value_eqb (getc c r) v
  end.
(* pk_lookup_info (delete.rs:262, update.rs:1135): WHERE pk = literal on a PRIMARY KEY table *)
Definition pk_info (sch : schema) (w : wclause) (st : tstate) : option (Z * value) :=
  match w with
  | Some (C0, v) => if is_pk sch then match kfind v (kidx st) with Some id => Some (id, v) | None => None end else None
  | _ => None
  end.
Definition live (e : ent) : bool := negb (e_del e).
(* cursor_seek(row key) then `key == target && row.pk == value`; tombstones are skipped (is_tombstone) *)
Definition pk_target (sch : schema) (w : wclause) (st : tstate) : option ent :=
  match pk_info sch w st with
  | Some (id, v) =>
      match find_ent id (ents st) with
      | Some e => if live e && value_eqb (c0 (e_row e)) v then Some e else None
      | None => None
      end
  | None => None
  end.
(* otherwise the cursor walks over all entries and skips the tombstones *)
Definition select (sch : schema) (w : wclause) (st : tstate) : list ent :=
  match pk_target sch w st with
  | Some e => [e]
  | None => filter (fun e => live e && wmatch w (e_row e)) (ents st)
  end.
Definition in_sel (sel : list ent) (e : ent) : bool := existsb (fun s => e_id s =? e_id e) sel.

(* ------------------------------------------------------------------ DELETE (delete.rs) *)
Definition sdel_suf (k : value) (id : Z) (ix : list sent) : list sent :=
  filter (fun e => negb (skey_is k (Some id) e)) ix.
Definition del_kidx (sch : schema) (sel : list ent) (ix : list (value * Z)) : list (value * Z) :=
  if keyed sch then fold_left (fun ix e => if is_null (c0 (e_row e)) then ix else kdel (c0 (e_row e)) ix) sel ix else ix.
(* non-unique index: the key INSERT wrote, column value ++ row id (NULLs included) *)
Definition del_sidx (sch : schema) (sel : list ent) (ix : list sent) : list sent :=
  if s_sec sch then fold_left (fun ix e => sdel_suf (c1 (e_row e)) (e_id e) ix) sel ix else ix.
Definition do_delete (sch : schema) (st : tstate) (w : wclause) : res * tstate * list wentry :=
  let sel := select sch w st in
  let n := zlen sel in
  (RAff n,
   mkT (map (fun e => if in_sel sel e then mkEnt (e_id e) true (e_row e) else e) (ents st))
       (Z.max 0 (rcount st - n)) (del_kidx sch sel (kidx st)) (del_sidx sch sel (sidx st)) (nextid st),
   map (fun e => WOld (e_id e) e) sel).

(* ------------------------------------------------------------------ UPDATE (update.rs:912) *)
Definition pk_u64 (r : trow) : option Z := match c0 r with VInt p => Some (as_u64 p) | _ => None end.
(* per selected row: delete the old key, insert new key -> row id *)
Definition upd_kidx_row (v : value) (ix : list (value * Z)) (e : ent) : list (value * Z) :=
  let ix1 := if is_null (c0 (e_row e)) then ix else kdel (c0 (e_row e)) ix in
  if is_null v then ix1 else kins v (e_id e) ix1.
Definition upd_kidx (sch : schema) (v : value) (sel : list ent) (ix : list (value * Z)) : list (value * Z) :=
  if keyed sch then fold_left (upd_kidx_row v) sel ix else ix.
Definition upd_sidx_row (v : value) (ix : list sent) (e : ent) : list sent :=
  sins v (Some (e_id e)) (e_id e) (sdel_suf (c1 (e_row e)) (e_id e) ix).
Definition upd_sidx (sch : schema) (v : value) (sel : list ent) (ix : list sent) : list sent :=
  if s_sec sch then fold_left (upd_sidx_row v) sel ix else ix.
Definition upd_ents (sc : colid) (v : value) (sel : list ent) (es : list ent) : list ent :=
  map (fun e => if in_sel sel e then mkEnt (e_id e) false (setc sc v (e_row e)) else e) es.
Definition uniq_clash (v : value) (ix : list (value * Z)) (e : ent) : bool :=
  match kfind v ix with Some s => negb (s =? e_id e) | None => false end.
(* the unique check of a key UPDATE: the first row against the index, every further row against
   the rows before it (they all receive the same value) *)
Definition upd_dup (v : value) (ix : list (value * Z)) (sel : list ent) : bool :=
  match sel with
  | [] => false
  | e :: rest => uniq_clash v ix e || negb (match rest with [] => true | _ => false end)
  end.

(* the general path: collect, validate, check uniqueness, maintain the indexes, write *)
Definition upd_multi (sch : schema) (st : tstate) (sc : colid) (v : value) (w : wclause) : res * tstate * list wentry :=
  let key_mod := is_c0 sc && keyed sch in
  let sel := select sch w st in
  if negb (match sel with [] => true | _ => false end) && is_c0 sc && is_pk sch && is_null v then (RErr, st, [])
  else if key_mod && negb (is_null v) && upd_dup v (kidx st) sel then (RErr, st, [])
  else
    (RAff (zlen sel),
     mkT (upd_ents sc v sel (ents st)) (rcount st)
         (if is_c0 sc then upd_kidx sch v sel (kidx st) else kidx st)
         (if is_c0 sc then sidx st else upd_sidx sch v sel (sidx st)) (nextid st),
     map (fun e => WOld (e_id e) e) sel).

(* does an index contain the assigned column? (needs_old_row_for_secondary_index) *)
Definition idx_mod (sch : schema) (sc : colid) : bool := if is_c0 sc then keyed sch else s_sec sch.

Definition do_update (sch : schema) (st : tstate) (sc : colid) (v : value) (w : wclause) : res * tstate * list wentry :=
  match pk_info sch w st with
  | Some (id, wv) =>
      if negb (idx_mod sch sc) && negb (has_toast sch) then
        (* one-pass path (WHERE pk = literal, no index on the assigned column, no TEXT column): no fallback *)
        match find_ent id (ents st) with
        | Some e =>
            if live e && value_eqb (c0 (e_row e)) wv then
              (RAff 1, mkT (upd_ents sc v [e] (ents st)) (rcount st) (kidx st) (sidx st) (nextid st), [WOld id e])
            else (RAff 0, st, [])
        | None => (RAff 0, st, [])
        end
      else upd_multi sch st sc v w
  | None => upd_multi sch st sc v w
  end.

(* ------------------------------------------------------------------ undo (transaction.rs:621 undo_write_entry) *)
Definition undo_entry (sch : schema) (w : wentry) (st : tstate) : tstate :=
  match w with
  | WIns id =>
      match find_ent id (ents st) with
      | None => st
      | Some e =>
          let r := e_row e in
          mkT (remove_ent id (ents st)) (Z.max 0 (rcount st - 1))
              (if has_key sch r then kdel (c0 r) (kidx st) else kidx st)
              (* the secondary-index key is rebuilt WITHOUT the row-id suffix *)
              (if s_sec sch && negb (is_null (c1 r)) then sdel_bare (c1 r) (sidx st) else sidx st)
              (nextid st)
      end
  | WOld id old =>
      let r := e_row old in
      (* entries of the old row are re-inserted only with an integer primary key, and they carry
         the primary-key VALUE where a row id belongs; entries of the new row are never removed;
         row_count is not touched *)
      mkT (set_ent id old (ents st)) (rcount st)
          (if has_key sch r && int_pk sch then match pk_u64 r with Some p => kins (c0 r) p (kidx st) | None => kidx st end else kidx st)
          (if s_sec sch && negb (is_null (c1 r)) && int_pk sch then match pk_u64 r with Some p => sins (c1 r) None p (sidx st) | None => sidx st end else sidx st)
          (nextid st)
  end.
(* undo_write_entries: the given entries, newest first *)
Definition undo_list (sch : schema) (ws : list wentry) (st : tstate) : tstate :=
  fold_left (fun s w => undo_entry sch w s) (rev ws) st.

(* ------------------------------------------------------------------ one handle: statement dispatch *)
(* find_savepoint: position of the FIRST marker with that name *)
Fixpoint sp_find (n : Z) (l : list (Z * nat)) : option nat :=
  match l with
  | [] => None
  | (m, _) :: l' => if m =? n then Some O else match sp_find n l' with Some i => Some (S i) | None => None end
  end.
Definition sp_remove (i : nat) (l : list (Z * nat)) : list (Z * nat) := firstn i l ++ skipn (S i) l.

Definition log_dml (tx : option txn) (es : list wentry) : option txn :=
  match tx with Some t => Some (mkTxn (wlog t ++ es) (sps t)) | None => None end.

Definition exec (sch : schema) (o : op) (s : tstate * option txn) : res * (tstate * option txn) :=
  let (st, tx) := s in
  match o with
  | OIns rows => let '(r, st', es) := do_insert sch st rows in (r, (st', log_dml tx es))
  | OUpd sc v w => let '(r, st', es) := do_update sch st sc v w in (r, (st', log_dml tx es))
  | ODel w => let '(r, st', es) := do_delete sch st w in (r, (st', log_dml tx es))
  | OBegin => match tx with Some _ => (RErr, s) | None => (ROk, (st, Some (mkTxn [] []))) end
  | OCommit => match tx with Some _ => (ROk, (st, None)) | None => (RErr, s) end
  | ORollback => match tx with Some t => (ROk, (undo_list sch (wlog t) st, None)) | None => (RErr, s) end
  | OSave n => match tx with Some t => (ROk, (st, Some (mkTxn (wlog t) (sps t ++ [(n, length (wlog t))])))) | None => (RErr, s) end
  | ORollTo n =>
      match tx with
      | Some t =>
          match sp_find n (sps t) with
          | Some i =>
              match nth_error (sps t) i with
              | Some (_, idx) =>
                  (ROk, (undo_list sch (skipn idx (wlog t)) st, Some (mkTxn (firstn idx (wlog t)) (firstn (S i) (sps t)))))
              | None => (RErr, s)
              end
          | None => (RErr, s)
          end
      | None => (RErr, s)
      end
  | ORelease n =>
      match tx with
      | Some t => match sp_find n (sps t) with Some i => (ROk, (st, Some (mkTxn (wlog t) (sp_remove i (sps t))))) | None => (RErr, s) end
      | None => (RErr, s)
      end
  | ODrop => match tx with Some t => (ROk, (undo_list sch (wlog t) st, None)) | None => (ROk, s) end
  | OObs => (ROk, s)
  end.

Fixpoint run (sch : schema) (ops : list op) (s : tstate * option txn) : tstate * option txn :=
  match ops with [] => s | o :: ops' => run sch ops' (snd (exec sch o s)) end.

(* ------------------------------------------------------------------ what a client can observe *)
(* SELECT star: the scan skips DELETE_BIT and nothing else *)
Definition scan (st : tstate) : list trow := map e_row (filter live (ents st)).
Definition count_star (st : tstate) : Z := rcount st.
(* SecondaryIndexScan materialises table_reader.get(row key) without looking at the record header
   and without re-checking the WHERE clause on what it fetched *)
Definition get_row (id : Z) (st : tstate) : list trow :=
  match find_ent id (ents st) with Some e => [e_row e] | None => [] end.
(* the planner turns `col = literal` into an index scan only for a plain literal: a negative number
   is a unary minus applied to a literal and stays a Filter over the table scan *)
Definition indexable (v : value) : bool :=
  match v with VInt n => 0 <=? n | VText _ => true | _ => false end.
(* SELECT star WHERE c0 = v *)
Definition lookup0 (sch : schema) (st : tstate) (v : value) : list trow :=
  if keyed sch && indexable v then
    flat_map (fun p => if value_eqb (fst p) v then get_row (snd p) st else []) (kidx st)
  else filter (fun r => value_eqb (c0 r) v) (scan st).
(* the last 8 bytes of a bare integer key: the payload of encode_int (the 1-byte key of 0 is skipped) *)
Definition bare_rid (v : value) : option Z :=
  match v with VInt n => if n =? 0 then None else Some (as_u64 n) | _ => None end.
Definition sent_rid (e : sent) : option Z := match s_suf e with Some id => Some id | None => bare_rid (s_key e) end.
(* SELECT star WHERE c1 = v *)
Definition lookup1 (sch : schema) (st : tstate) (v : value) : list trow :=
  if s_sec sch && indexable v then
    flat_map (fun e => if value_eqb (s_key e) v then match sent_rid e with Some id => get_row id st | None => [] end else []) (sidx st)
  else filter (fun r => value_eqb (c1 r) v) (scan st).
(* would INSERT of the single row r be accepted? *)
Definition ins_ok (sch : schema) (st : tstate) (r : trow) : bool := nn_ok sch r && uniq_ok sch st r.

(* everything but next_row_id *)
Definition core (st : tstate) : list ent * Z * list (value * Z) * list sent := (ents st, rcount st, kidx st, sidx st).

(* ------------------------------------------------------------------ several handles on one database (C08) *)
Definition hstate := (tstate * list (option txn))%type.
Fixpoint set_nth {A} (n : nat) (x : A) (l : list A) : list A :=
  match n, l with
  | _, [] => []
  | O, _ :: l' => x :: l'
  | S n', y :: l' => y :: set_nth n' x l'
  end.
Definition exec_h (sch : schema) (h : nat) (o : op) (s : hstate) : res * hstate :=
  match nth_error (snd s) h with
  | Some tx => let (r, s') := exec sch o (fst s, tx) in (r, (fst s', set_nth h (snd s') (snd s)))
  | None => (RBad, s)
  end.
