(* C09 -- finding classes and theorem side conditions, as decidable predicates on a schema / on a
   statement in a state of the implementation model.  Definitions only.
   RECORDED FINDINGS still open at /repo HEAD 8d427ad (kn_hist_class, used by Corr/C09.v known_class):
     1  a column CHECK that CREATE TABLE drops (expr_to_string has no text for it)
     2  a CHECK comparison that is not `<this column> {<,<=,>,>=} <integer literal>`
     3  NOT inside a CHECK (ignored by the string evaluator)
     4  an OR below an AND in a CHECK (the stored text has lost the parentheses)
    10  a multi-row INSERT that fails after its first row (the earlier rows stay: F-C06-1)
    15  an UPDATE that breaks a FOREIGN KEY (child value without parent / referenced parent
        value changed): UPDATE never looks at foreign keys
   REPAIRED (status fixed in known_findings.d/C09.json; the model now follows the repaired code):
    11 tombstones selected by DELETE / UPDATE, 12 one value for a key column of several rows, 13 key
    column without PRIMARY KEY, 14 primary-key value stored as row key, 16 deleted child blocks the
    parent, 17 NULL = NULL, 18 scan accepts deleted parents, 19 cascade leaves index entries.
   SIDE CONDITIONS of the statement theorems (stmt_class / hist_class: 0 = all met): besides 10 and
   15, two conditions that the proofs still use although they are no longer findings:
    12  the UPDATE assigns a non-NULL value to a key column of two or more rows (the repaired code
        refuses it, as the reference does; the uniqueness lemma is proved for at most one row)
    14  an index entry met by the UPDATE stores a row key other than the owner's row id (cannot
        arise any more: every writer stores the row id; not proved as an invariant)
    19  an ON DELETE CASCADE removes a child row holding key values (the repaired code removes its
        index entries; the exactness proof covers cascades over rows without key values) *)
From Coq Require Import ZArith List Bool.
From TV Require Import Model.SqlSpec Model.CheckStr Model.ConstrSpec Model.ConstrImpl.
Import ListNotations.
Open Scope Z_scope.

(* ------------------------------------------------------------------ CHECK fragment *)
Definition op_ord (op : cmpop) : bool := match op with CLt | CLe | CGt | CGe => true | _ => false end.
Definition atom_ok (ci : nat) (e : expr) : bool :=
  match e with
  | ECmp op (ECol j) (ELit (VInt n)) => Nat.eqb j ci && op_ord op && (Z.abs n <? 2 ^ 53)
  | _ => false
  end.
Fixpoint conj_ok (ci : nat) (e : expr) : bool :=
  match e with EAnd a b => conj_ok ci a && conj_ok ci b | _ => atom_ok ci e end.
Fixpoint dnf_ok (ci : nat) (e : expr) : bool :=
  match e with EOr a b => dnf_ok ci a && dnf_ok ci b | _ => conj_ok ci e end.
Fixpoint atoms (e : expr) : nat :=
  match e with EOr a b | EAnd a b => atoms a + atoms b | _ => 1 end.
Definition chk_frag (ci : nat) (e : expr) : bool := dnf_ok ci e && Nat.leb (atoms e) 30.

(* the boolean skeleton: AND / OR / NOT nodes, everything else is a leaf *)
Fixpoint leaves_ok (ci : nat) (e : expr) : bool :=
  match e with
  | EAnd a b | EOr a b => leaves_ok ci a && leaves_ok ci b
  | ENot a => leaves_ok ci a
  | _ => atom_ok ci e
  end.
Fixpoint has_not (e : expr) : bool :=
  match e with
  | EAnd a b | EOr a b => has_not a || has_not b
  | ENot _ => true
  | _ => false
  end.
Definition is_or (e : expr) : bool := match e with EOr _ _ => true | _ => false end.
Fixpoint or_under_and (e : expr) : bool :=
  match e with
  | EAnd a b => is_or a || is_or b || or_under_and a || or_under_and b
  | EOr a b => or_under_and a || or_under_and b
  | ENot a => or_under_and a
  | _ => false
  end.
Definition chk_class (names : list (list Z)) (ci : nat) (e : expr) : Z :=
  match print_chk names e with
  | None => 1
  | Some _ =>
      if negb (leaves_ok ci e) then 2
      else if has_not e then 3
      else if or_under_and e then 4
      else 0
  end.
Fixpoint first_nz (l : list Z) : Z :=
  match l with [] => 0 | x :: l' => if x =? 0 then first_nz l' else x end.
Fixpoint chk_classes_from (names : list (list Z)) (ds : list cdecl) (i : nat) : list Z :=
  match ds with
  | [] => []
  | d :: ds' => match c_chk d with Some e => chk_class names i e | None => 0 end :: chk_classes_from names ds' (S i)
  end.
Definition table_chk_class (ds : list cdecl) : Z := first_nz (chk_classes_from (cnames (length ds)) ds 0).
Definition schema_class (sch : schema) : Z :=
  first_nz [table_chk_class (s_p sch); table_chk_class (s_c sch)].

(* ------------------------------------------------------------------ statements in a state *)
Definition live_has (t : tstate) (i : nat) (v : value) : bool :=
  existsb (fun e => live e && value_eqb (col_val i (e_row e)) v) (ents t).
(* the row id of the live row that holds v in column i *)
Definition owner_id (t : tstate) (i : nat) (v : value) : option Z :=
  match find (fun e => live e && value_eqb (col_val i (e_row e)) v) (ents t) with
  | Some e => Some (e_id e) | None => None end.
Definition has_dead (sel : list entry) : bool := existsb e_del sel.
Definition two_plus {A} (l : list A) : bool := match l with _ :: _ :: _ => true | _ => false end.

(* the entries an UPDATE / DELETE works on *)
Definition upd_onepass (ds : list cdecl) (ts : tstate) (sets : list (nat * value)) (w : option expr) : bool :=
  match pk_probe ds ts w with Some _ => negb (key_mod_from ds 0 sets) | None => false end.
Definition upd_sel (ds : list cdecl) (ts : tstate) (sets : list (nat * value)) (w : option expr) : list entry :=
  match pk_probe ds ts w with
  | Some (k, v) => if key_mod_from ds 0 sets then select_rows ds ts w
                   else match seek_row ds ts k v with e :: _ => [e] | [] => [] end
  | None => select_rows ds ts w
  end.

Definition nonempty_l {A} (l : list A) : bool := match l with [] => false | _ => true end.

(* 12, 13, 14 (multi-pass part): per assigned key column *)
Fixpoint upd_key_class_from (all ds : list cdecl) (i : nat) (ts : tstate) (sets : list (nat * value))
         (sel : list entry) : Z :=
  match ds with
  | [] => 0
  | d :: ds' =>
      let rest := upd_key_class_from all ds' (S i) ts sets sel in
      match assoc_set i sets with
      | Some nv =>
          if is_key d && negb (is_null nv) && nonempty_l sel
          then
            if two_plus sel then 12
            else match idx_find nv (get_idx ts i), owner_id ts i nv with
                 | Some k, Some o => if k =? o then rest else 14
                 | _, _ => rest
                 end
          else rest
      | None => rest
      end
  end.

(* 14 (one-pass part): the primary-key entry does not lead to the live owner of the value *)
Definition onepass_junk (ds : list cdecl) (ts : tstate) (w : option expr) : bool :=
  match pk_probe ds ts w, pk_pos ds with
  | Some (k, v), Some i => match owner_id ts i v with Some o => negb (k =? o) | None => false end
  | _, _ => false
  end.

(* 15: UPDATE and FOREIGN KEYs *)
Definition upd_fk_child (sch : schema) (st : dstate) (sets : list (nat * value)) (sel : list entry) : bool :=
  nonempty_l sel &&
  existsb (fun f => match assoc_set (fst (fst f)) sets with
                    | Some nv => negb (is_null nv) && negb (live_has (d_p st) (snd (fst f)) nv)
                    | None => false end) (fk_cols sch).
Definition upd_fk_parent (sch : schema) (st : dstate) (sets : list (nat * value)) (sel : list entry) : bool :=
  existsb (fun f => match assoc_set (snd (fst f)) sets with
                    | Some nv =>
                        existsb (fun e => let ov := col_val (snd (fst f)) (e_row e) in
                                          negb (is_null ov) && negb (value_eqb ov nv) &&
                                          live_has (d_c st) (fst (fst f)) ov) sel
                    | None => false end) (fk_cols sch).

(* 19: DELETE on p cascading over child rows that hold key values *)
Fixpoint has_keyval (ds : list cdecl) (vs : list value) : bool :=
  match ds, vs with
  | d :: ds', v :: vs' => (is_key d && negb (is_null v)) || has_keyval ds' vs'
  | _, _ => false
  end.
Definition del_casc_keys (sch : schema) (st : dstate) (vals : list value) : bool :=
  match child_scans (fk_cols sch) vals (ents (d_c st)) with
  | Some ids => existsb (fun e => live e && existsb (Z.eqb (e_id e)) ids && has_keyval (s_c sch) (e_row e)) (ents (d_c st))
  | None => false
  end.

(* 18: the scan path of the FOREIGN KEY check finds only a tombstoned parent row *)
Definition ins_dead_parent (sch : schema) (st : dstate) (rows : list row) : bool :=
  existsb (fun r =>
    existsb (fun f =>
      let v := col_val (fst (fst f)) r in
      match nth_error (s_p sch) (snd (fst f)) with
      | Some pd => negb (is_key pd) && negb (is_null v) &&
                   fk_probe (s_p sch) (d_p st) (mkFk (snd (fst f)) (snd f)) v &&
                   negb (live_has (d_p st) (snd (fst f)) v)
      | None => false
      end) (fk_cols sch)) rows.

(* 10: the statement fails although its first row was written *)
Definition ins_partial (sch : schema) (t : tid) (st : dstate) (rows : list row) : bool :=
  match rows with
  | r :: _ :: _ =>
      match ins_row_ok sch t st r, fst (ins_loop sch t st rows) with
      | Some true, Some false => true
      | _, _ => false
      end
  | _ => false
  end.

Definition stmt_class (sch : schema) (st : dstate) (s : stmt) : Z :=
  match s with
  | SIns t rows =>
      if ins_partial sch t st rows then 10
      else match t with TC => if ins_dead_parent sch st rows then 18 else 0 | TP => 0 end
  | SDel t w =>
      let sel := select_rows (cols_of sch t) (ts_of st t) w in
      if has_dead sel then 11
      else match t with
           | TC => 0
           | TP =>
               let vals := del_vals sch sel in
               if del_casc_keys sch st vals then 19
               else 0
           end
  | SUpd t sets w =>
      let ds := cols_of sch t in
      let ts := ts_of st t in
      let sel := upd_sel ds ts sets w in
      if has_dead sel then 11
      else if upd_onepass ds ts sets w && onepass_junk ds ts w then 14
      else
        let k := upd_key_class_from ds ds 0 ts sets sel in
        if negb (k =? 0) then k
        else if match t with TC => upd_fk_child sch st sets sel | TP => upd_fk_parent sch st sets sel end then 15
        else 0
  | SUpdE _ _ _ _ => 21        (* SET column = expression: observed on every run, outside the theorems *)
  end.

(* the class of a history: the schema's class, else the class of its first statement that is in
   one (states along the run of the implementation model) *)
Fixpoint hist_class_from (sch : schema) (st : dstate) (h : list stmt) : Z :=
  match h with
  | [] => 0
  | s :: h' =>
      let k := stmt_class sch st s in
      if k =? 0 then hist_class_from sch (snd (impl_step sch st s)) h' else k
  end.
Definition hist_class (sch : schema) (h : list stmt) : Z :=
  let k := schema_class sch in
  if k =? 0 then hist_class_from sch (d_empty sch) h else k.

(* ------------------------------------------------------------------ the findings still open *)
(* 20: UPDATE SET key = expression is refused ONLY because new values are found in the unique index
   under rows that the same statement moves to another value (no two rows of the statement receive
   the same value, no value is held by a row outside the statement): the updated table holds no
   value twice, yet the statement is refused *)
Definition upd_e_moves (sch : schema) (t : tid) (st : dstate) (c : nat) (e : expr) (w : option expr) : bool :=
  let ds := cols_of sch t in
  let ts := ts_of st t in
  match e_trips c e (select_rows ds ts w) with
  | Some trips =>
      match validate_all ds (map snd trips) with
      | Some true =>
          col_is_key ds c && negb (uq_e_all false (get_idx ts c) c trips trips []) &&
          uq_e_all true (get_idx ts c) c trips trips []
      | _ => false
      end
  | None => false
  end.
Definition kn_stmt_class (sch : schema) (st : dstate) (s : stmt) : Z :=
  match s with
  | SUpdE t c e w =>
      if upd_e_moves sch t st c e w then 20
      else let d' := apply_stmt sch (abs_db st) s in
           if negb (fk_ok (s_c sch) (fst d') (snd d')) then 15 else 0
  | SIns t rows => if ins_partial sch t st rows then 10 else 0
  | SDel _ _ => 0
  | SUpd t sets w =>
      let sel := upd_sel (cols_of sch t) (ts_of st t) sets w in
      if match t with TC => upd_fk_child sch st sets sel | TP => upd_fk_parent sch st sets sel end then 15 else 0
  end.
Fixpoint kn_hist_class_from (sch : schema) (st : dstate) (h : list stmt) : Z :=
  match h with
  | [] => 0
  | s :: h' =>
      let k := kn_stmt_class sch st s in
      if k =? 0 then kn_hist_class_from sch (snd (impl_step sch st s)) h' else k
  end.
Definition kn_hist_class (sch : schema) (h : list stmt) : Z :=
  let k := schema_class sch in
  if k =? 0 then kn_hist_class_from sch (d_empty sch) h else k.
