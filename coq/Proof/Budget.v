(* C39 proofs, part 1: vocabulary lemmas, the thread-modular invariant rule for the budget
   model (steps and spurious CAS failures), exact accounting and counter bounds. *)
From Coq Require Import ZArith List Bool Arith Lia ZifyBool.
From TV Require Import Lib.Interleave Gen.BudgetConsts Model.Budget.
Import ListNotations.
Open Scope Z_scope.

Arguments Z.add : simpl never.
Arguments Z.sub : simpl never.
Arguments Z.mul : simpl never.
Arguments Z.max : simpl never.
Arguments Z.leb : simpl never.
Arguments Z.ltb : simpl never.
Arguments Z.eqb : simpl never.

(* ------------------------------------------------------------------ counters *)
Lemma pool_eqb_eq p q : pool_eqb p q = true <-> p = q.
Proof. destruct p, q; cbv; split; intro H; try reflexivity; try discriminate. Qed.
Lemma pool_eqb_refl p : pool_eqb p p = true.
Proof. destruct p; reflexivity. Qed.
Lemma pool_eqb_neq p q : pool_eqb p q = false <-> p <> q.
Proof. destruct p, q; cbv; split; intro H; try reflexivity; try discriminate; try congruence. Qed.

Lemma get_set_same c p v : get (set c p v) p = v.
Proof. destruct p; reflexivity. Qed.
Lemma get_set_other c p q v : p <> q -> get (set c p v) q = get c q.
Proof. destruct p, q; intro H; try reflexivity; congruence. Qed.
Lemma get_set c p q v : get (set c p v) q = if pool_eqb p q then v else get c q.
Proof. destruct p, q; reflexivity. Qed.
Lemma total_set c p v : total (set c p v) = total c - get c p + v.
Proof. destruct c as [a b d e f], p; unfold total; cbn [set get c_cache c_query c_recovery c_schema c_shared]; lia. Qed.
Lemma total_get c : total c = get c PCache + get c PQuery + get c PRecovery + get c PSchema + get c PShared.
Proof. reflexivity. Qed.
Lemma total_zero : total zeroC = 0.
Proof. reflexivity. Qed.
Lemma get_zero q : get zeroC q = 0.
Proof. destruct q; reflexivity. Qed.

Lemma total_le c d : (forall q, get c q <= get d q) -> total c <= total d.
Proof.
  intro H. rewrite !total_get.
  pose proof (H PCache). pose proof (H PQuery). pose proof (H PRecovery). pose proof (H PSchema). pose proof (H PShared). lia.
Qed.
Lemma total_nonneg c : (forall q, 0 <= get c q) -> 0 <= total c.
Proof.
  intro H. rewrite total_get.
  pose proof (H PCache). pose proof (H PQuery). pose proof (H PRecovery). pose proof (H PSchema). pose proof (H PShared). lia.
Qed.
Lemma get_le_total c q : (forall p, 0 <= get c p) -> get c q <= total c.
Proof.
  intro H. rewrite total_get.
  pose proof (H PCache). pose proof (H PQuery). pose proof (H PRecovery). pose proof (H PSchema). pose proof (H PShared).
  destruct q; lia.
Qed.

Lemma sat_sub_le a b : 0 <= b -> sat_sub a b <= Z.max a 0.
Proof. unfold sat_sub. lia. Qed.
Lemma sat_sub_nonneg a b : 0 <= sat_sub a b.
Proof. unfold sat_sub. lia. Qed.

Lemma pool_of_idx q : pool_of (pool_idx q) = q.
Proof. destruct q; reflexivity. Qed.
Lemma pool_idx_lt q : (pool_idx q < 5)%nat.
Proof. destruct q; cbn; lia. Qed.
Lemma pool_idx_of k : (k < 5)%nat -> pool_idx (pool_of k) = k.
Proof. intro H. do 5 (destruct k as [|k]; [reflexivity|]). lia. Qed.
Lemma pool_idx_inj p q : pool_idx p = pool_idx q -> p = q.
Proof. destruct p, q; cbn; intro H; try reflexivity; discriminate. Qed.

(* a snapshot of class 0 still covers every counter *)
Lemma stale_class_0 c snap p : stale_class c snap p = 0 -> forall q, get c q <= get snap q.
Proof.
  unfold stale_class, grown, all_pools. cbn [existsb].
  intros H q.
  destruct p; cbn [pool_eqb pool_idx Nat.eqb negb andb orb] in H;
  repeat match type of H with
         | context [if ?b then _ else _] => destruct b eqn:?; try discriminate
         end;
  destruct q; lia.
Qed.
Lemma stale_class_range c snap p : 0 <= stale_class c snap p <= 2.
Proof. unfold stale_class. destruct (existsb _ _); [lia|]. destruct (grown _ _ _); lia. Qed.

(* ------------------------------------------------------------------ sums over threads *)
Lemma sum_thr_lset f ts t old new :
  lget ts t = Some old -> sum_thr f (lset ts t new) = sum_thr f ts - f old + f new.
Proof.
  unfold sum_thr. induction ts as [|[k w] r IH]; cbn [lget lset map sumZ fold_right]; [discriminate|].
  destruct (Nat.eqb k t) eqn:E.
  - intro H. injection H as <-. cbn [map fold_right fst snd]. lia.
  - intro H. cbn [map fold_right fst snd]. unfold sumZ in IH. rewrite (IH H). lia.
Qed.

Lemma lget_in {A} (ts : list (nat * A)) t th : lget ts t = Some th -> In (t, th) ts.
Proof.
  induction ts as [|[k w] r IH]; cbn [lget]; [discriminate|].
  destruct (Nat.eqb k t) eqn:E.
  - intro H. injection H as <-. apply Nat.eqb_eq in E. subst. left. reflexivity.
  - intro H. right. exact (IH H).
Qed.

(* ------------------------------------------------------------------ shape of a step *)
Lemma step_inv lk t s s' :
  step lk t s = Some s' ->
  exists th c' lock' th',
    lget (thrs s) t = Some th /\ tstep lk t (sh s) (lim s) (lock s) th = Some (c', lock', th') /\
    s' = mkS c' (lim s) lock' (lset (thrs s) t th').
Proof.
  unfold step. destruct (lget (thrs s) t) as [th|] eqn:E1; [|discriminate].
  destruct (tstep lk t (sh s) (lim s) (lock s) th) as [[[c' lock'] th']|] eqn:E2; [|discriminate].
  intro H. injection H as <-. exists th, c', lock', th'. repeat split; assumption.
Qed.

Lemma spurious_inv t s s' :
  spurious t s = Some s' ->
  exists pr lg,
    (exists p n cur snap, lget (thrs s) t = Some (mkT pr (ACas p n cur snap) lg) /\
        s' = mkS (sh s) (lim s) (lock s) (lset (thrs s) t (mkT pr (ALoadPool p n) lg))) \/
    (exists p n cur, lget (thrs s) t = Some (mkT pr (RCas p n cur) lg) /\
        s' = mkS (sh s) (lim s) (lock s) (lset (thrs s) t (mkT pr (RLoad p n) lg))).
Proof.
  unfold spurious. destruct (lget (thrs s) t) as [[pr pcv lg]|] eqn:E1; [|discriminate].
  destruct pcv; try discriminate; intro H; injection H as <-; exists pr, lg.
  - left. eauto 8.
  - right. eauto 8.
Qed.

(* every schedule of plain steps is a schedule of step_w *)
Lemma step_w_even lk t s : step_w lk (2 * t)%nat s = step lk t s.
Proof.
  unfold step_w. replace (Nat.even (2 * t)) with true by (symmetry; apply Nat.even_spec; exists t; lia).
  rewrite Nat.div2_double. reflexivity.
Qed.
Lemma run_step_is_run_w lk sched s : run (step lk) sched s = run (step_w lk) (map (fun t => (2 * t)%nat) sched) s.
Proof.
  revert s. induction sched as [|t r IH]; intro s; cbn [run map]; [reflexivity|].
  rewrite step_w_even. destruct (step lk t s); apply IH.
Qed.
Lemma run_coarse_is_run_w lk fuel sched s :
  exists w, run_coarse (step lk) at_site fuel sched s = run (step_w lk) w s.
Proof.
  destruct (run_coarse_is_run _ (step lk) at_site fuel sched s) as [fine ->].
  eexists. apply run_step_is_run_w.
Qed.

(* ------------------------------------------------------------------ thread-modular invariants *)
Section Modular.
  Variable lk : bool.
  Variable G : counters -> Z -> option nat -> Prop.
  Variable L : nat -> counters -> Z -> option nat -> thr -> Prop.

  Definition MInv (s : St) : Prop :=
    G (sh s) (lim s) (lock s) /\ forall t th, lget (thrs s) t = Some th -> L t (sh s) (lim s) (lock s) th.

  Hypothesis Hstep : forall t c l lock th c' lock' th',
      G c l lock -> L t c l lock th -> tstep lk t c l lock th = Some (c', lock', th') ->
      G c' l lock' /\ L t c' l lock' th' /\
      (forall u thu, u <> t -> L u c l lock thu -> L u c' l lock' thu).
  Hypothesis Hspur_a : forall t c l lock pr lg p n cur snap,
      L t c l lock (mkT pr (ACas p n cur snap) lg) -> L t c l lock (mkT pr (ALoadPool p n) lg).
  Hypothesis Hspur_r : forall t c l lock pr lg p n cur,
      L t c l lock (mkT pr (RCas p n cur) lg) -> L t c l lock (mkT pr (RLoad p n) lg).

  Lemma MInv_step t s s' : MInv s -> step lk t s = Some s' -> MInv s'.
  Proof.
    intros [HG HL] Hs. destruct (step_inv _ _ _ _ Hs) as (th & c' & lock' & th' & Hget & Ht & ->).
    destruct (Hstep _ _ _ _ _ _ _ _ HG (HL _ _ Hget) Ht) as (HG' & HL' & Hst).
    split; cbn [sh lim lock thrs]; [exact HG'|].
    intros u thu Hu. destruct (Nat.eq_dec t u) as [->|Hne].
    - rewrite lget_lset_same in Hu. injection Hu as <-. exact HL'.
    - rewrite lget_lset_other in Hu by exact Hne. apply Hst; [congruence|]. apply HL. exact Hu.
  Qed.

  Lemma MInv_spurious t s s' : MInv s -> spurious t s = Some s' -> MInv s'.
  Proof.
    intros [HG HL] Hs. destruct (spurious_inv _ _ _ Hs) as (pr & lg & [(p & n & cur & snap & Hget & ->)|(p & n & cur & Hget & ->)]);
      (split; cbn [sh lim lock thrs]; [exact HG|]);
      intros u thu Hu; (destruct (Nat.eq_dec t u) as [->|Hne];
        [rewrite lget_lset_same in Hu; injection Hu as <- | rewrite lget_lset_other in Hu by exact Hne; apply HL; exact Hu]).
    - eapply Hspur_a. apply HL. exact Hget.
    - eapply Hspur_r. apply HL. exact Hget.
  Qed.

  Lemma MInv_step_w x s s' : MInv s -> step_w lk x s = Some s' -> MInv s'.
  Proof.
    unfold step_w. destruct (Nat.even x); [apply MInv_step | apply MInv_spurious].
  Qed.

  Theorem MInv_run init : MInv init -> forall w, MInv (run (step_w lk) w init).
  Proof. intros H0 w. apply invariant_rule; [exact H0|]. intros t s s' Hi Hs. eapply MInv_step_w; eauto. Qed.
End Modular.

(* ------------------------------------------------------------------ case analysis of tstep *)
Ltac tstep_cases H :=
  unfold tstep, die in H; cbn [tpc prog tlog] in H;
  repeat match type of H with
         | context [match ?x with _ => _ end] => destruct x eqn:?
         end;
  try discriminate H; injection H as <- <- <-.

(* ------------------------------------------------------------------ exact accounting *)
Lemma applied_cons q e lg : applied q (e :: lg) = delta q e + applied q lg.
Proof. reflexivity. Qed.

(* what a fine step does to the counter of q is what it appends to the thread's log *)
Lemma tstep_applied lk t c l lock th c' lock' th' q :
  tstep lk t c l lock th = Some (c', lock', th') ->
  get c' q - get c q = applied q (tlog th') - applied q (tlog th).
Proof.
  intro H. destruct th as [pr pcv lg]. destruct pcv; tstep_cases H; cbn [tlog];
    rewrite ?applied_cons; cbn [delta]; rewrite ?get_set; try lia.
  all: unfold shared_avail in *; unfold sat_sub in *.
  all: repeat match goal with
              | |- context [pool_eqb ?a ?b] =>
                  let E := fresh "E" in destruct (pool_eqb a b) eqn:E; [apply pool_eqb_eq in E; subst|]
              end; cbn [andb].
  all: repeat match goal with |- context [if ?b then _ else _] => destruct b eqn:? end; lia.
Qed.
