//! C04 -- close, reopen and checkpoint preserve the logical database.
//!
//! A generated DDL/DML history is run TWICE on the real `turdb::Database` (SQL API + lifecycle
//! API): run A executes the history with its interruptions (close+open, drop+open, checkpoint(),
//! PRAGMA wal_checkpoint, "automatic checkpoints from here on"), run B skips the interruptions.
//! What every statement returned in both runs is written as Coq terms; coq/Corr/C04.v judges
//! them: spec_ok = the two runs agree on every statement (the property itself), model_agrees =
//! the persistence model coq/Model/Persist.v predicts both runs (modelled sub-language only).
//!
//!   c04 gen    --seed S --tier T --out DIR [--lines FILE]
//!   c04 search --seed S --budget N --out FILE      (oracle only: run A against run B)
//!   c04 run    --lines FILE                        (debug: print both runs of each line)
//!   c04 probe  --lines FILE                        (debug: SQL script with !X !Y !K lines)
//!
//! replay line:   wal=<0|1> ops=<op> <op> ...          [class=<k> is ignored when parsing]
//!   C<t>k<k>        CREATE TABLE t<t>: k=0 (a BIGINT, b BIGINT)   k=1 (a BIGINT PRIMARY KEY, b BIGINT)
//!                   k=2 (a BIGINT PRIMARY KEY AUTO_INCREMENT, b BIGINT)   k=3 (a BIGINT, b BIGINT, c TEXT)
//!   R<t>            DROP TABLE t<t>
//!   I<t>:a.b,a.b    INSERT INTO t<t> (a, b) VALUES (a, b), ...      a = n (NULL) | integer
//!   N<t>:n:b        n INSERTs (a = b+i, b = b+i, c = 600 characters) -- k=3 tables, grows the B-tree
//!   D<t>:b          DELETE FROM t<t> WHERE b = b
//!   U<t>:b:w        UPDATE t<t> SET b = w WHERE b = b
//!   T<t>            TRUNCATE TABLE t<t>
//!   X<t> / Z<t>     CREATE INDEX ix<t> ON t<t> (b) / DROP INDEX ix<t>
//!   F<t>:b          SELECT a, b FROM t<t> WHERE b = b               (index lookup when ix<t> exists)
//!   B / M / L       BEGIN / COMMIT / ROLLBACK
//!   W1 / W0         PRAGMA wal=ON / OFF (the session setting; restored after every reopen)
//!   Q               observe every table: SELECT a, b [, c] FROM t (as a bag), SELECT COUNT(*),
//!                   and the key lookups SELECT a, b FROM t WHERE a = 1 .. 8
//!   interruptions (run A only):
//!   !X  close() + drop + open      !Y  drop (no close) + open      !K  Database::checkpoint()
//!   !P  PRAGMA wal_checkpoint      !T  PRAGMA wal_checkpoint_threshold = 1 (automatic checkpoint at every later COMMIT)
use std::path::{Path, PathBuf};
use tvh::*;
use turdb::database::ExecuteResult;
use turdb::{Database, OwnedValue};

const NT: usize = 3; // table slots t0 .. t2
const LOOKUPS: i64 = 8; // key lookups a = 1 ..= 8 in every Q

#[derive(Clone, Debug, PartialEq)]
enum Op {
    Create(usize, u8),
    Drop(usize),
    Ins(usize, Vec<(Option<i64>, i64)>),
    Bulk(usize, usize, i64),
    Del(usize, i64),
    Upd(usize, i64, i64),
    Trunc(usize),
    CIdx(usize),
    DIdx(usize),
    Find(usize, i64),
    Begin,
    Commit,
    Rollback,
    Wal(bool),
    Query,
    // interruptions
    ReopenClose,
    ReopenDrop,
    CkptApi,
    CkptPragma,
    AutoCkpt,
}

impl Op {
    fn is_int(&self) -> bool { matches!(self, Op::ReopenClose | Op::ReopenDrop | Op::CkptApi | Op::CkptPragma | Op::AutoCkpt) }
    /// inside the sub-language that coq/Model/Persist.v models
    fn modelled(&self) -> bool {
        match self {
            Op::Create(_, k) => *k <= 2,
            Op::Bulk(..) | Op::Trunc(_) | Op::CIdx(_) | Op::DIdx(_) | Op::Find(..) | Op::Begin | Op::Commit | Op::Rollback | Op::AutoCkpt => false,
            _ => true,
        }
    }
}

#[derive(Clone, Debug)]
struct Hist { wal: bool, ops: Vec<Op> }

/// Rust port of `in_lang` (coq/Model/Persist.v): the history is inside the modelled language
fn in_lang(h: &Hist) -> bool { h.ops.iter().all(|o| o.modelled()) }

fn parse_t(s: &str) -> Option<usize> { let t: usize = s.parse().ok()?; if t < NT { Some(t) } else { None } }

fn parse_op(t: &str) -> Option<Op> {
    Some(match t {
        "B" => Op::Begin, "M" => Op::Commit, "L" => Op::Rollback, "W1" => Op::Wal(true), "W0" => Op::Wal(false), "Q" => Op::Query,
        "!X" => Op::ReopenClose, "!Y" => Op::ReopenDrop, "!K" => Op::CkptApi, "!P" => Op::CkptPragma, "!T" => Op::AutoCkpt,
        _ => {
            let (h, rest) = t.split_at(1);
            match h {
                "C" => { let mut it = rest.split('k'); let tt = parse_t(it.next()?)?; let k: u8 = it.next()?.parse().ok()?; if k > 3 { return None; } Op::Create(tt, k) }
                "R" => Op::Drop(parse_t(rest)?),
                "T" => Op::Trunc(parse_t(rest)?),
                "X" => Op::CIdx(parse_t(rest)?),
                "Z" => Op::DIdx(parse_t(rest)?),
                "I" => {
                    let mut it = rest.splitn(2, ':');
                    let tt = parse_t(it.next()?)?;
                    let mut rows = vec![];
                    for r in it.next()?.split(',') {
                        let mut ab = r.splitn(2, '.');
                        let a = ab.next()?;
                        let b: i64 = ab.next()?.parse().ok()?;
                        rows.push((if a == "n" { None } else { Some(a.parse::<i64>().ok()?) }, b));
                    }
                    if rows.is_empty() { return None; }
                    Op::Ins(tt, rows)
                }
                "N" => { let p: Vec<&str> = rest.split(':').collect(); if p.len() != 3 { return None; } Op::Bulk(parse_t(p[0])?, p[1].parse().ok()?, p[2].parse().ok()?) }
                "D" => { let p: Vec<&str> = rest.split(':').collect(); if p.len() != 2 { return None; } Op::Del(parse_t(p[0])?, p[1].parse().ok()?) }
                "F" => { let p: Vec<&str> = rest.split(':').collect(); if p.len() != 2 { return None; } Op::Find(parse_t(p[0])?, p[1].parse().ok()?) }
                "U" => { let p: Vec<&str> = rest.split(':').collect(); if p.len() != 3 { return None; } Op::Upd(parse_t(p[0])?, p[1].parse().ok()?, p[2].parse().ok()?) }
                _ => return None,
            }
        }
    })
}

fn parse_hist(l: &str) -> Option<Hist> {
    let i = l.find("ops=")?;
    let mut wal = false;
    for t in l[..i].split_whitespace() { if let Some(v) = t.strip_prefix("wal=") { wal = v == "1"; } }
    let mut ops = vec![];
    for t in l[i + 4..].split_whitespace() {
        if t.starts_with("class=") { continue; }
        ops.push(parse_op(t)?);
    }
    Some(Hist { wal, ops })
}

fn show_op(op: &Op) -> String {
    match op {
        Op::Create(t, k) => format!("C{}k{}", t, k),
        Op::Drop(t) => format!("R{}", t),
        Op::Ins(t, rows) => format!("I{}:{}", t, rows.iter().map(|(a, b)| format!("{}.{}", match a { None => "n".to_string(), Some(v) => v.to_string() }, b)).collect::<Vec<_>>().join(",")),
        Op::Bulk(t, n, b) => format!("N{}:{}:{}", t, n, b),
        Op::Del(t, b) => format!("D{}:{}", t, b),
        Op::Upd(t, b, w) => format!("U{}:{}:{}", t, b, w),
        Op::Trunc(t) => format!("T{}", t),
        Op::CIdx(t) => format!("X{}", t),
        Op::DIdx(t) => format!("Z{}", t),
        Op::Find(t, b) => format!("F{}:{}", t, b),
        Op::Begin => "B".into(), Op::Commit => "M".into(), Op::Rollback => "L".into(),
        Op::Wal(on) => if *on { "W1".into() } else { "W0".into() },
        Op::Query => "Q".into(),
        Op::ReopenClose => "!X".into(), Op::ReopenDrop => "!Y".into(), Op::CkptApi => "!K".into(), Op::CkptPragma => "!P".into(), Op::AutoCkpt => "!T".into(),
    }
}
fn show_hist(h: &Hist) -> String { format!("wal={} ops={}", h.wal as u8, h.ops.iter().map(show_op).collect::<Vec<_>>().join(" ")) }

fn zc(v: i64) -> String { if v < 0 { format!("({})", v) } else { v.to_string() } }
fn coq_op(op: &Op) -> String {
    match op {
        Op::Create(t, k) => format!("Create {} {}", t, k),
        Op::Drop(t) => format!("DropT {}", t),
        Op::Ins(t, rows) => format!("Ins {} [{}]", t, rows.iter().map(|(a, b)| format!("({},{})", match a { None => "None".to_string(), Some(v) => format!("Some {}", zc(*v)) }, zc(*b))).collect::<Vec<_>>().join(";")),
        Op::Bulk(t, n, b) => format!("Bulk {} {} {}", t, n, zc(*b)),
        Op::Del(t, b) => format!("Del {} {}", t, zc(*b)),
        Op::Upd(t, b, w) => format!("Upd {} {} {}", t, zc(*b), zc(*w)),
        Op::Trunc(t) => format!("Trunc {}", t),
        Op::CIdx(t) => format!("CIdx {}", t),
        Op::DIdx(t) => format!("DIdx {}", t),
        Op::Find(t, b) => format!("Find {} {}", t, zc(*b)),
        Op::Begin => "TxBegin".into(), Op::Commit => "TxCommit".into(), Op::Rollback => "TxRollback".into(),
        Op::Wal(on) => format!("SetWal {}", cbool(*on)),
        Op::Query => "Query".into(),
        Op::ReopenClose => "ReopenClose".into(), Op::ReopenDrop => "ReopenDrop".into(), Op::CkptApi => "CkptApi".into(), Op::CkptPragma => "CkptPragma".into(), Op::AutoCkpt => "AutoCkpt".into(),
    }
}

// ------------------------------------------------------------------ observations
/// a cell: NULL or an integer (TEXT is reported as length * 2^32 + 32-bit FNV hash)
type Cell = Option<i64>;
#[derive(Clone, Debug, PartialEq)]
enum TObs { Absent, Present { rows: Vec<Vec<Cell>>, count: Option<i64>, lookups: Vec<Vec<Vec<Cell>>> } }
#[derive(Clone, Debug, PartialEq)]
enum Obs { Ok(i64), Err(String), Rows(Vec<Vec<Cell>>), Q(Vec<TObs>), Weird(String) }

fn cell(v: &OwnedValue) -> Result<Cell, String> {
    match v {
        OwnedValue::Null => Ok(None),
        OwnedValue::Int(i) => Ok(Some(*i)),
        OwnedValue::Text(s) => {
            let mut h: u32 = 0x811c9dc5;
            for b in s.as_bytes() { h ^= *b as u32; h = h.wrapping_mul(0x01000193); }
            Ok(Some(((s.len() as i64) << 32) | h as i64))
        }
        other => Err(format!("unexpected value {:?}", other)),
    }
}
fn cells(rows: &[turdb::Row]) -> Result<Vec<Vec<Cell>>, String> {
    let mut out = vec![];
    for r in rows { let mut c = vec![]; for v in &r.values { c.push(cell(v)?); } out.push(c); }
    out.sort();
    Ok(out)
}
fn coq_cell(c: &Cell) -> String { match c { None => "None".into(), Some(v) => format!("Some {}", zc(*v)) } }
fn coq_rows(rows: &[Vec<Cell>]) -> String {
    format!("[{}]", rows.iter().map(|r| format!("[{}]", r.iter().map(coq_cell).collect::<Vec<_>>().join(";"))).collect::<Vec<_>>().join(";"))
}
fn coq_obs(o: &Obs) -> String {
    match o {
        Obs::Ok(n) => format!("OOk {}", zc(*n)),
        Obs::Err(_) => "OErr".into(),
        Obs::Weird(_) => "OWeird".into(),
        Obs::Rows(r) => format!("ORows {}", coq_rows(r)),
        Obs::Q(ts) => format!("OQ [{}]", ts.iter().map(|t| match t {
            TObs::Absent => "TAbsent".to_string(),
            TObs::Present { rows, count, lookups } => format!("TPresent {} ({}) [{}]", coq_rows(rows),
                match count { None => "None".to_string(), Some(c) => format!("Some {}", zc(*c)) },
                lookups.iter().map(|l| coq_rows(l)).collect::<Vec<_>>().join(";")),
        }).collect::<Vec<_>>().join(";")),
    }
}
fn show_obs(o: &Obs) -> String {
    match o { Obs::Err(m) => format!("Err({})", m), Obs::Weird(m) => format!("Weird({})", m), _ => coq_obs(o) }
}
/// equality of what the property talks about: error texts are not compared
fn obs_same(x: &Obs, y: &Obs) -> bool {
    match (x, y) { (Obs::Err(_), Obs::Err(_)) => true, (Obs::Weird(_), _) | (_, Obs::Weird(_)) => false, _ => x == y }
}

// ------------------------------------------------------------------ running a history
struct Session { db: Option<Database>, path: PathBuf, wal: bool, kinds: [Option<u8>; NT] }

fn exec(d: &Database, sql: &str) -> Caught<Result<ExecuteResult, String>> {
    catch(std::panic::AssertUnwindSafe(|| d.execute(sql).map_err(|e| format!("{:#}", e))))
}
fn query(d: &Database, sql: &str) -> Result<Vec<Vec<Cell>>, String> {
    match catch(std::panic::AssertUnwindSafe(|| d.query(sql).map_err(|e| format!("{:#}", e)))) {
        Caught::Done(Ok(rows)) => cells(&rows),
        Caught::Done(Err(e)) => Err(e),
        Caught::Panicked(m) => Err(format!("PANIC {}", m)),
    }
}
fn affected(r: Caught<Result<ExecuteResult, String>>) -> Obs {
    match r {
        Caught::Panicked(m) => Obs::Weird(format!("panic: {}", m)),
        Caught::Done(Err(e)) => Obs::Err(e),
        Caught::Done(Ok(res)) => match res {
            ExecuteResult::Insert { rows_affected, .. } | ExecuteResult::Update { rows_affected, .. } | ExecuteResult::Delete { rows_affected, .. } | ExecuteResult::Truncate { rows_affected } => Obs::Ok(rows_affected as i64),
            _ => Obs::Ok(0),
        },
    }
}

impl Session {
    fn create(path: &Path, wal: bool) -> Result<Session, String> {
        let db = match catch(std::panic::AssertUnwindSafe(|| Database::create(path).map_err(|e| format!("{:#}", e)))) {
            Caught::Done(Ok(d)) => d, Caught::Done(Err(e)) => return Err(e), Caught::Panicked(m) => return Err(format!("panic: {}", m)) };
        let s = Session { db: Some(db), path: path.to_path_buf(), wal, kinds: [None; NT] };
        s.apply_wal()?;
        Ok(s)
    }
    fn apply_wal(&self) -> Result<(), String> {
        if self.wal {
            match exec(self.db.as_ref().unwrap(), "PRAGMA wal=ON") { Caught::Done(Ok(_)) => Ok(()), Caught::Done(Err(e)) => Err(e), Caught::Panicked(m) => Err(format!("panic: {}", m)) }
        } else { Ok(()) }
    }
    fn reopen(&mut self, close: bool) -> Obs {
        let old = match self.db.take() { Some(d) => d, None => return Obs::Weird("no database".into()) };
        let c = catch(std::panic::AssertUnwindSafe(move || { let r = if close { old.close().map(|_| ()).map_err(|e| format!("{:#}", e)) } else { Ok(()) }; drop(old); r }));
        match c {
            Caught::Panicked(m) => return Obs::Weird(format!("panic in close/drop: {}", m)),
            Caught::Done(Err(e)) => return Obs::Err(format!("close: {}", e)),
            Caught::Done(Ok(())) => {}
        }
        let path = self.path.clone();
        match catch(std::panic::AssertUnwindSafe(move || Database::open(&path).map_err(|e| format!("{:#}", e)))) {
            Caught::Panicked(m) => Obs::Weird(format!("panic in open: {}", m)),
            Caught::Done(Err(e)) => Obs::Err(format!("open: {}", e)),
            Caught::Done(Ok(d)) => { self.db = Some(d); match self.apply_wal() { Ok(()) => Obs::Ok(0), Err(e) => Obs::Err(format!("PRAGMA wal=ON after open: {}", e)) } }
        }
    }
    fn step(&mut self, op: &Op) -> Obs {
        match op { Op::ReopenClose => return self.reopen(true), Op::ReopenDrop => return self.reopen(false), _ => {} }
        let d = match self.db.as_ref() { Some(d) => d, None => return Obs::Weird("no database".into()) };
        match op {
            Op::Create(t, k) => {
                let cols = match k { 0 => "a BIGINT, b BIGINT", 1 => "a BIGINT PRIMARY KEY, b BIGINT", 2 => "a BIGINT PRIMARY KEY AUTO_INCREMENT, b BIGINT", _ => "a BIGINT, b BIGINT, c TEXT" };
                let o = affected(exec(d, &format!("CREATE TABLE t{} ({})", t, cols)));
                if let Obs::Ok(_) = o { self.kinds[*t] = Some(*k); }
                o
            }
            Op::Drop(t) => { let o = affected(exec(d, &format!("DROP TABLE t{}", t))); if let Obs::Ok(_) = o { self.kinds[*t] = None; } o }
            Op::Ins(t, rows) => {
                let vals = rows.iter().map(|(a, b)| format!("({}, {})", match a { None => "NULL".to_string(), Some(v) => v.to_string() }, b)).collect::<Vec<_>>().join(", ");
                affected(exec(d, &format!("INSERT INTO t{} (a, b) VALUES {}", t, vals)))
            }
            Op::Bulk(t, n, b0) => {
                let mut total = 0i64;
                for i in 0..*n {
                    let v = b0 + i as i64;
                    let c: String = (0..600).map(|j| (b'a' + ((v as usize + j) % 26) as u8) as char).collect();
                    match affected(exec(d, &format!("INSERT INTO t{} (a, b, c) VALUES ({}, {}, '{}')", t, v, v, c))) { Obs::Ok(k) => total += k, other => return other }
                }
                Obs::Ok(total)
            }
            Op::Del(t, b) => affected(exec(d, &format!("DELETE FROM t{} WHERE b = {}", t, b))),
            Op::Upd(t, b, w) => affected(exec(d, &format!("UPDATE t{} SET b = {} WHERE b = {}", t, w, b))),
            Op::Trunc(t) => affected(exec(d, &format!("TRUNCATE TABLE t{}", t))),
            Op::CIdx(t) => affected(exec(d, &format!("CREATE INDEX ix{} ON t{} (b)", t, t))),
            Op::DIdx(t) => affected(exec(d, &format!("DROP INDEX ix{}", t))),
            Op::Find(t, b) => match query(d, &format!("SELECT a, b FROM t{} WHERE b = {}", t, b)) { Ok(r) => Obs::Rows(r), Err(e) => if e.starts_with("PANIC") { Obs::Weird(e) } else { Obs::Err(e) } },
            Op::Begin => affected(exec(d, "BEGIN")),
            Op::Commit => affected(exec(d, "COMMIT")),
            Op::Rollback => affected(exec(d, "ROLLBACK")),
            Op::Wal(on) => { let o = affected(exec(d, if *on { "PRAGMA wal=ON" } else { "PRAGMA wal=OFF" })); if let Obs::Ok(_) = o { self.wal = *on; } o }
            Op::CkptPragma => affected(exec(d, "PRAGMA wal_checkpoint")),
            Op::AutoCkpt => affected(exec(d, "PRAGMA wal_checkpoint_threshold = 1")),
            Op::CkptApi => match catch(std::panic::AssertUnwindSafe(|| d.checkpoint().map(|_| ()).map_err(|e| format!("{:#}", e)))) {
                Caught::Done(Ok(())) => Obs::Ok(0), Caught::Done(Err(e)) => Obs::Err(e), Caught::Panicked(m) => Obs::Weird(format!("panic: {}", m)) },
            Op::Query => {
                let mut ts = vec![];
                for t in 0..NT {
                    let cols = if self.kinds[t] == Some(3) { "a, b, c" } else { "a, b" };
                    match query(d, &format!("SELECT {} FROM t{}", cols, t)) {
                        Err(e) => { if e.starts_with("PANIC") { return Obs::Weird(e); } ts.push(TObs::Absent); }
                        Ok(rows) => {
                            let count = match query(d, &format!("SELECT COUNT(*) FROM t{}", t)) { Ok(r) if r.len() == 1 && r[0].len() == 1 => r[0][0], Ok(_) => None, Err(e) => { if e.starts_with("PANIC") { return Obs::Weird(e); } None } };
                            let mut lookups = vec![];
                            for k in 1..=LOOKUPS {
                                match query(d, &format!("SELECT a, b FROM t{} WHERE a = {}", t, k)) { Ok(r) => lookups.push(r), Err(e) => return Obs::Weird(format!("lookup: {}", e)) }
                            }
                            ts.push(TObs::Present { rows, count, lookups });
                        }
                    }
                }
                Obs::Q(ts)
            }
            Op::ReopenClose | Op::ReopenDrop => unreachable!(),
        }
    }
}

/// one run: with (`ints` = true) or without the interruptions; one observation per executed op
fn run_once(h: &Hist, dir: &Path, ints: bool) -> Vec<Obs> {
    let _ = std::fs::remove_dir_all(dir);
    let _ = std::fs::create_dir_all(dir);
    let mut obs = vec![];
    let mut s = match Session::create(&dir.join("db"), h.wal) { Ok(s) => s, Err(e) => { obs.push(Obs::Weird(format!("create: {}", e))); return obs; } };
    for op in &h.ops {
        if op.is_int() && !ints { continue; }
        obs.push(s.step(op));
    }
    // dropping the session must not panic either
    let db = s.db.take();
    if let Caught::Panicked(m) = catch(std::panic::AssertUnwindSafe(move || drop(db))) { obs.push(Obs::Weird(format!("panic in final drop: {}", m))); }
    let _ = std::fs::remove_dir_all(dir);
    obs
}

fn scratch() -> PathBuf {
    let base = if Path::new("/dev/shm").is_dir() { PathBuf::from("/dev/shm") } else { PathBuf::from("/verif/build/tmp") };
    base.join(format!("c04-{}", std::process::id()))
}

/// the property's oracle on the two runs: every non-interruption statement returned the same in
/// both runs and every reopen of run A succeeded
fn oracle(h: &Hist, a: &[Obs], b: &[Obs]) -> bool {
    let mut ia = 0;
    let mut ib = 0;
    for op in &h.ops {
        if ia >= a.len() { return false; }
        if op.is_int() {
            if matches!(op, Op::ReopenClose | Op::ReopenDrop) && !matches!(a[ia], Obs::Ok(_)) { return false; }
            if matches!(a[ia], Obs::Weird(_)) { return false; }
            ia += 1;
        } else {
            if ib >= b.len() || !obs_same(&a[ia], &b[ib]) { return false; }
            ia += 1; ib += 1;
        }
    }
    ia == a.len() && ib == b.len()
}

// ------------------------------------------------------------------ the recorded finding classes
/// Rust port of `known_class_of` in coq/Model/Persist.v (a scanner over the history and what its
/// statements returned in run A).  Used for the run statistics and for the `class=` suffix of
/// `search` output; the judge of a correspondence run is the Coq definition.
///  2: a replaying checkpoint (PRAGMA wal_checkpoint, automatic checkpoint at COMMIT, drop without
///     close) while a table may have a page image in the WAL that is older than the page.
/// (Historical classes 1 = INSERT after reopen, fixed in /repo 60cb117, and 3 = drop + re-create,
///  fixed in /repo affacca, are gone: those histories must pass now.)
fn known_class(h: &Hist, oa: &[Obs]) -> i64 {
    let is_err = |x: &Obs| !matches!(x, Obs::Ok(_));
    let ok_pos = |x: &Obs| matches!(x, Obs::Ok(n) if *n > 0);
    let (mut wal, mut txn, mut auto, mut c2) = (h.wal, false, false, false);
    let mut lg = [false; NT];
    let mut st = [false; NT];
    for (op, x) in h.ops.iter().zip(oa.iter()) {
        let mut touch = |t: usize, changed: bool, flushed: bool, lg: &mut [bool; NT], st: &mut [bool; NT]| {
            let logged = wal && !txn && flushed;
            if logged { lg[t] = true; }
            if changed { st[t] = !logged; }
        };
        let stale = |lg: &[bool; NT], st: &[bool; NT]| (0..NT).any(|t| lg[t] && st[t]);
        match op {
            Op::Wal(on) => wal = *on,
            Op::Begin => txn = true,
            Op::Commit => {
                txn = false;
                if wal { lg = [true; NT]; }
                if auto && wal { c2 = c2 || stale(&lg, &st); lg = [false; NT]; st = [false; NT]; }
            }
            Op::Rollback => txn = false,
            Op::AutoCkpt => auto = true,
            Op::Create(t, _) | Op::Drop(t) => if !is_err(x) { lg[*t] = false; st[*t] = false; },
            Op::Ins(t, vals) => {
                if is_err(x) { if vals.len() >= 2 { touch(*t, true, false, &mut lg, &mut st); } }
                else { touch(*t, true, true, &mut lg, &mut st); }
            }
            Op::Bulk(t, _, _) => touch(*t, true, !is_err(x), &mut lg, &mut st),
            Op::Del(t, _) | Op::Upd(t, _, _) => if !is_err(x) { touch(*t, ok_pos(x), true, &mut lg, &mut st); },
            Op::Trunc(t) => touch(*t, true, false, &mut lg, &mut st),
            Op::CkptApi | Op::ReopenClose => { lg = [false; NT]; st = [false; NT]; if matches!(op, Op::ReopenClose) { txn = false; auto = false; } }
            Op::CkptPragma | Op::ReopenDrop => { c2 = c2 || stale(&lg, &st); lg = [false; NT]; st = [false; NT]; if matches!(op, Op::ReopenDrop) { txn = false; auto = false; } }
            _ => {}
        }
    }
    if c2 { 2 } else { 0 }
}

// ------------------------------------------------------------------ generators
struct G<'a> { rng: &'a mut Rng, ops: Vec<Op>, kinds: [Option<u8>; NT], live: [Vec<i64>; NT], next_b: i64, next_a: [i64; NT], wide: bool, in_txn: bool, idx: [bool; NT] }

impl<'a> G<'a> {
    fn new(rng: &'a mut Rng, wide: bool) -> G<'a> {
        G { rng, ops: vec![], kinds: [None; NT], live: [vec![], vec![], vec![]], next_b: 10, next_a: [1; NT], wide, in_txn: false, idx: [false; NT] }
    }
    fn some_table(&mut self) -> Option<usize> {
        let ex: Vec<usize> = (0..NT).filter(|t| self.kinds[*t].is_some()).collect();
        if ex.is_empty() { None } else { Some(*self.rng.pick(&ex)) }
    }
    fn create(&mut self) {
        let free: Vec<usize> = (0..NT).filter(|t| self.kinds[*t].is_none()).collect();
        if free.is_empty() { return; }
        let t = *self.rng.pick(&free);
        let k = if self.wide && self.rng.chance(1, 4) { 3 } else { self.rng.below(3) as u8 };
        self.kinds[t] = Some(k); self.live[t].clear(); self.next_a[t] = 1; self.idx[t] = false;
        self.ops.push(Op::Create(t, k));
    }
    fn drop_table(&mut self) {
        if let Some(t) = self.some_table() { self.kinds[t] = None; self.live[t].clear(); self.idx[t] = false; self.ops.push(Op::Drop(t)); }
    }
    fn insert(&mut self) {
        let t = match self.some_table() { Some(t) => t, None => { self.create(); return; } };
        let k = self.kinds[t].unwrap();
        if k == 3 {
            let big = self.rng.chance(1, 5);
            let n = 1 + self.rng.below(if big { 40 } else { 4 }) as usize;
            let b = self.next_b; self.next_b += n as i64;
            for i in 0..n { self.live[t].push(b + i as i64); }
            self.ops.push(Op::Bulk(t, n, b));
            return;
        }
        let n = 1 + self.rng.below(3) as usize;
        let mut rows = vec![];
        for _ in 0..n {
            let b = self.next_b; self.next_b += 1;
            let a = match k {
                2 => if self.rng.chance(3, 4) { self.next_a[t] += 1; None } else { let v = self.next_a[t] + self.rng.below(3) as i64; self.next_a[t] = v + 1; Some(v) },
                1 => { let v = self.next_a[t]; self.next_a[t] += 1 + self.rng.below(2) as i64; Some(v) }
                _ => if self.rng.chance(1, 8) { None } else { Some(1 + self.rng.below(10) as i64) },
            };
            rows.push((a, b));
            self.live[t].push(b);
        }
        self.ops.push(Op::Ins(t, rows));
    }
    fn live_b(&mut self, t: usize) -> Option<i64> {
        if self.live[t].is_empty() { None } else { let i = self.rng.below(self.live[t].len() as u64) as usize; Some(self.live[t][i]) }
    }
    fn delete(&mut self) {
        if let Some(t) = self.some_table() {
            if self.kinds[t] == Some(3) && !self.wide { return; }
            match self.live_b(t) {
                Some(b) if self.rng.chance(7, 8) => { self.live[t].retain(|x| *x != b); self.ops.push(Op::Del(t, b)); }
                _ => { let b = self.next_b; self.next_b += 1; self.ops.push(Op::Del(t, b)); }      // matches nothing
            }
        }
    }
    fn update(&mut self) {
        if let Some(t) = self.some_table() {
            if let Some(b) = self.live_b(t) {
                let w = self.next_b; self.next_b += 1;
                for x in self.live[t].iter_mut() { if *x == b { *x = w; } }
                self.ops.push(Op::Upd(t, b, w));
            }
        }
    }
    fn find(&mut self) {
        if let Some(t) = self.some_table() { let b = self.live_b(t).unwrap_or(self.next_b); self.ops.push(Op::Find(t, b)); }
    }
    fn index(&mut self) {
        if let Some(t) = self.some_table() { if self.idx[t] { self.idx[t] = false; self.ops.push(Op::DIdx(t)); } else { self.idx[t] = true; self.ops.push(Op::CIdx(t)); } }
    }
    fn trunc(&mut self) { if let Some(t) = self.some_table() { self.live[t].clear(); self.ops.push(Op::Trunc(t)); } }
    /// a statement of the history (no interruption); `allow_ins`: may insert rows
    fn stmt(&mut self, allow_ins: bool) {
        let r = self.rng.below(if self.wide { 24 } else { 16 });
        match r {
            0 | 1 => self.create(),
            2 => if self.rng.chance(1, 3) { self.drop_table() } else { self.ops.push(Op::Query) },
            3..=7 => if allow_ins { self.insert() } else { self.ops.push(Op::Query) },
            8 | 9 => self.delete(),
            10 | 11 => self.update(),
            12 | 13 => self.ops.push(Op::Query),
            14 => self.delete(),
            15 => if allow_ins { self.insert() } else { self.update() },
            16 | 17 => self.find(),
            18 => self.index(),
            19 => if self.rng.chance(1, 3) { self.trunc() } else { self.find() },
            20 | 21 => if !self.in_txn { self.in_txn = true; self.ops.push(Op::Begin); } else { self.in_txn = false; let c = self.rng.chance(2, 3); self.ops.push(if c { Op::Commit } else { Op::Rollback }); },
            _ => self.ops.push(Op::Query),
        }
    }
    fn end_txn(&mut self) { if self.in_txn { self.in_txn = false; let c = self.rng.chance(2, 3); self.ops.push(if c { Op::Commit } else { Op::Rollback }); } }
}

/// statements that fail (the "malformed" stream): absent tables, existing tables, NULL / duplicate /
/// negative keys; none of them may change anything
impl<'a> G<'a> {
    fn failing(&mut self) {
        let absent: Vec<usize> = (0..NT).filter(|t| self.kinds[*t].is_none()).collect();
        match self.rng.below(7) {
            0 if !absent.is_empty() => { let t = *self.rng.pick(&absent); let b = self.next_b; self.next_b += 1; self.ops.push(Op::Ins(t, vec![(Some(1), b)])); }
            1 if !absent.is_empty() => { let t = *self.rng.pick(&absent); self.ops.push(if self.rng.chance(1, 2) { Op::Del(t, 10) } else { Op::Upd(t, 10, 11) }); }
            2 if !absent.is_empty() => { let t = *self.rng.pick(&absent); self.ops.push(Op::Drop(t)); }
            3 => if let Some(t) = self.some_table() { let k = self.rng.below(3) as u8; self.ops.push(Op::Create(t, k)); },
            4 => if let Some(t) = self.some_table() {
                // one-row INSERT that violates a constraint of its table (changes nothing)
                let b = self.next_b; self.next_b += 1;
                match self.kinds[t] { Some(1) => self.ops.push(Op::Ins(t, vec![(None, b)])), Some(2) => self.ops.push(Op::Ins(t, vec![(Some(-1 - self.rng.below(5) as i64), b)])), _ => self.ops.push(Op::Del(t, b)) }
            },
            5 => if let Some(t) = self.some_table() {
                // duplicate key (fails when the table has a PRIMARY KEY and holds key 1)
                let b = self.next_b; self.next_b += 1;
                if self.kinds[t] == Some(0) { self.live[t].push(b); }
                self.ops.push(Op::Ins(t, vec![(Some(1), b)]));
                if self.kinds[t] != Some(0) && self.next_a[t] <= 1 { self.next_a[t] = 2; self.live[t].push(b); }
            },
            _ => { let b = self.next_b; self.next_b += 1; if let Some(t) = self.some_table() { self.ops.push(Op::Del(t, b)); } }
        }
    }
}

/// fixed boundary histories, run first in every generated run
const BOUNDARY: [&str; 14] = [
    "wal=0 ops=Q",
    "wal=1 ops=!X !Y !K !P Q",
    "wal=0 ops=!P !K !Y !X Q",
    "wal=0 ops=C0k0 !X Q !Y Q !K Q !P Q",
    "wal=1 ops=C0k2 !X !X !X I0:n.10 Q",
    "wal=1 ops=C0k1 I0:1.10 !X !Y !K !P !P !K !Y !X Q",
    "wal=0 ops=C0k2 I0:n.10,n.11,n.12 D0:10 D0:11 D0:12 !X Q !Y Q",
    "wal=1 ops=C0k0 C1k1 C2k2 I0:n.10 I1:1.11 I2:n.12 !P Q !Y Q R0 R1 R2 !X Q",
    "wal=1 ops=C0k2 I0:9223372036854775807.10 !X Q",
    "wal=0 ops=C0k2 I0:9223372036854775806.10 I0:n.11 !Y Q",
    "wal=1 ops=C0k0 I0:1.10 !K W0 I0:2.11 !P Q",
    "wal=0 ops=C0k0 W1 I0:1.10 W0 W1 I0:2.11 !P !Y Q",
    "wal=1 ops=C0k1 I0:1.10,1.11 !P Q",
    "wal=0 ops=C0k1 I0:1.10,2.11,3.12 U0:10:13 U0:13:14 !Y Q D0:14 !X Q",
];

/// families; the returned kind is the distribution bucket
fn gen_history(rng: &mut Rng, thorough: bool, wide: bool) -> (Hist, &'static str) {
    let fam = rng.below(100);
    let mut wal = rng.chance(1, 2);
    let len = 4 + rng.below(if thorough { 22 } else { 12 }) as usize;
    let mut g = G::new(rng, wide);
    let kind: &'static str;
    g.create();
    if fam < 24 {
        // all inserts happen before the first reopen; afterwards deletes / updates / DDL / queries with reopens in between
        kind = "reopen_no_later_insert";
        let n1 = 2 + g.rng.below(len as u64 / 2 + 1) as usize;
        while g.ops.len() < n1 { g.stmt(true); }
        g.end_txn();
        while g.ops.len() < len + 2 {
            if g.rng.chance(1, 3) { g.end_txn(); let c = g.rng.chance(1, 2); g.ops.push(if c { Op::ReopenClose } else { Op::ReopenDrop }); if g.rng.chance(1, 2) { g.ops.push(Op::Query); } }
            else { g.stmt(false); }
        }
    } else if fam < 46 {
        // checkpoints of every kind at random points, WAL setting fixed for the whole history, no reopen
        kind = "checkpoints";
        while g.ops.len() < len + 2 {
            if g.rng.chance(1, 3) {
                let i = match g.rng.below(if wide { 7 } else { 6 }) { 0 | 1 | 2 => Op::CkptPragma, 6 => Op::AutoCkpt, _ => Op::CkptApi };
                if g.in_txn && matches!(i, Op::CkptPragma) && wal { g.end_txn(); }     // keeps this family outside class 2
                g.ops.push(i);
                if g.rng.chance(1, 2) { g.ops.push(Op::Query); }
            } else { g.stmt(true); }
        }
    } else if fam < 60 {
        // reopen and checkpoints mixed; no insert after a reopen
        kind = "mixed_no_later_insert";
        let mut reopened = false;
        while g.ops.len() < len + 2 {
            match g.rng.below(8) {
                0 => { g.end_txn(); g.ops.push(Op::ReopenClose); reopened = true; }
                1 => { g.end_txn(); g.ops.push(Op::ReopenDrop); reopened = true; }
                2 => g.ops.push(Op::CkptApi),
                3 => { if g.in_txn && wal { g.end_txn(); } g.ops.push(Op::CkptPragma) }
                _ => g.stmt(!reopened),
            }
        }
    } else if fam < 73 {
        // statements that fail, between good ones; interruptions that cannot meet a half-done statement:
        // WAL off: all four; WAL on: checkpoint() and close + open
        kind = "failing_statements";
        let mut reopened = false;
        while g.ops.len() < len + 2 {
            match g.rng.below(9) {
                0 | 1 | 2 => g.failing(),
                3 => { g.end_txn(); g.ops.push(Op::ReopenClose); reopened = true; }
                4 => g.ops.push(Op::CkptApi),
                5 => if !wal { if g.rng.chance(1, 2) { g.end_txn(); g.ops.push(Op::ReopenDrop); reopened = true; } else { g.ops.push(Op::CkptPragma); } } else { g.ops.push(Op::Query) },
                _ => g.stmt(!reopened),
            }
        }
    } else if fam < 83 {
        // inserts on both sides of a reopen (the counter is rebuilt from the stored keys at open)
        kind = "insert_after_reopen";
        while g.ops.len() < len + 2 {
            match g.rng.below(8) {
                0 => { g.end_txn(); g.ops.push(Op::ReopenClose); }
                1 => { g.end_txn(); g.ops.push(Op::ReopenDrop); }
                2 | 3 | 4 => g.insert(),
                _ => g.stmt(true),
            }
        }
    } else if fam < 91 {
        // class 2 territory, directed: an image is logged, then the page changes without being logged
        // (WAL switched off / a multi-row INSERT that fails on its last row / wide: TRUNCATE, open transaction),
        // then a replaying checkpoint
        kind = "stale_image";
        wal = true;
        let n0 = 1 + g.rng.below(3);
        for _ in 0..n0 { g.insert(); }
        if g.rng.chance(1, 3) { g.ops.push(Op::Query); }
        let t = g.some_table().unwrap_or(0);
        match g.rng.below(if wide { 5 } else { 3 }) {
            0 | 1 => { g.ops.push(Op::Wal(false)); let n = 1 + g.rng.below(3); for _ in 0..n { match g.rng.below(4) { 0 => g.delete(), 1 => g.update(), _ => g.insert() } } }
            2 => { let b = g.next_b; g.next_b += 2; if g.kinds[t] == Some(0) { g.ops.push(Op::Wal(false)); g.insert(); } else { let a = g.next_a[t] + 5; g.next_a[t] = a + 1; g.live[t].push(b); g.ops.push(Op::Ins(t, vec![(Some(a), b), (Some(a), b + 1)])); } }
            3 => { if g.kinds[t] == Some(3) { g.ops.push(Op::Wal(false)); g.insert(); } else { g.trunc(); } }
            _ => { g.ops.push(Op::Begin); g.in_txn = true; g.insert(); if g.rng.chance(1, 2) { g.update(); } }
        }
        g.ops.push(if g.rng.chance(1, 2) { Op::CkptPragma } else { if g.in_txn { Op::CkptPragma } else { Op::ReopenDrop } });
        g.end_txn();
        g.ops.push(Op::Query);
        while g.ops.len() < len { g.stmt(false); }
    } else if fam < 96 {
        // the WAL setting changes inside the history
        kind = "wal_toggled";
        while g.ops.len() < len + 2 {
            match g.rng.below(10) {
                0 => g.ops.push(Op::Wal(true)),
                1 => g.ops.push(Op::Wal(false)),
                2 | 3 => g.ops.push(Op::CkptPragma),
                4 => g.ops.push(Op::CkptApi),
                5 => { g.end_txn(); g.ops.push(Op::ReopenDrop); while g.ops.len() < len + 2 { g.stmt(false); } }
                _ => g.stmt(true),
            }
        }
    } else {
        // a table name is dropped and created again, then the database is reopened
        kind = "drop_recreate";
        let n0 = 1 + g.rng.below(3);
        for _ in 0..n0 { g.insert(); }
        let t = g.some_table().unwrap_or(0);
        if g.rng.chance(1, 3) { let c = g.rng.chance(1, 2); g.ops.push(if c { Op::ReopenClose } else { Op::ReopenDrop }); g.ops.push(Op::Query); }
        g.kinds[t] = None; g.live[t].clear(); g.idx[t] = false; g.ops.push(Op::Drop(t));
        if g.rng.chance(1, 2) { g.ops.push(Op::Query); }
        let k = g.rng.below(3) as u8;
        g.kinds[t] = Some(k); g.next_a[t] = 1; g.ops.push(Op::Create(t, k));
        let n1 = g.rng.below(3);
        for _ in 0..n1 { g.insert(); }
        g.ops.push(Op::Query);
        let c = g.rng.chance(1, 2); g.ops.push(if c { Op::ReopenClose } else { Op::ReopenDrop });
        g.ops.push(Op::Query);
        while g.ops.len() < len { g.stmt(false); }
    }
    g.end_txn();
    g.ops.push(Op::Query);
    let ops = g.ops;
    (Hist { wal, ops }, kind)
}

// ------------------------------------------------------------------ modes
fn main() {
    let a = Args::parse();
    match a.mode.as_str() {
        "gen" => gen(&a),
        "search" => search(&a),
        "run" => run_mode(&a),
        "probe" => probe(&a),
        _ => { eprintln!("c04: unknown mode"); std::process::exit(2); }
    }
}

fn case_term(h: &Hist, oa: &[Obs], ob: &[Obs]) -> String {
    format!("Case {} [{}] [{}] [{}]", cbool(h.wal),
        h.ops.iter().map(coq_op).collect::<Vec<_>>().join("; "),
        oa.iter().map(coq_obs).collect::<Vec<_>>().join("; "),
        ob.iter().map(coq_obs).collect::<Vec<_>>().join("; "))
}

fn gen(a: &Args) {
    let mut rng = Rng::new(a.seed);
    let mut w = CaseWriter::new(&a.out, "C04", "Corr.C04", 25);
    let dir = scratch();
    let mut hists: Vec<(Hist, &'static str)> = vec![];
    if let Some(lines) = a.replay_lines() {
        for l in lines { if l.starts_with('#') { continue; } match parse_hist(&l) { Some(h) => hists.push((h, "replay")), None => eprintln!("c04: cannot parse replay line: {}", l) } }
    } else {
        for l in BOUNDARY { hists.push((parse_hist(l).expect("boundary history"), "boundary")); }
        let n = if a.thorough() { 1500 } else { 260 };
        for i in 0..n { let wide = i % 3 == 2; hists.push(gen_history(&mut rng, a.thorough(), wide)); }
    }
    let (mut n_int, mut n_diff, mut n_model) = (0u64, 0u64, 0u64);
    for (h, kind) in hists {
        let oa = run_once(&h, &dir.join("a"), true);
        let ob = run_once(&h, &dir.join("b"), false);
        let ints = h.ops.iter().filter(|o| o.is_int()).count();
        n_int += ints as u64;
        let modelled = in_lang(&h);
        if modelled { n_model += 1; }
        if !oracle(&h, &oa, &ob) { n_diff += 1; }
        // non-trivial: at least one interruption with data in some table before it and an observation after it
        let first_int = h.ops.iter().position(|o| o.is_int());
        let nontrivial = match first_int {
            Some(i) => h.ops[..i].iter().any(|o| matches!(o, Op::Ins(..) | Op::Bulk(..))) && h.ops[i..].iter().any(|o| matches!(o, Op::Query | Op::Find(..))),
            None => false,
        };
        let cls = known_class(&h, &oa);
        w.push(case_term(&h, &oa, &ob), show_hist(&h), nontrivial, kind);
        w.count(if modelled { "lang:modelled" } else { "lang:blackbox" }, 1);
        w.count(&format!("class:{}", cls), 1);
        w.count(if h.wal { "wal:on" } else { "wal:off" }, 1);
        for op in &h.ops {
            let b = match op {
                Op::ReopenClose => "int:close+open", Op::ReopenDrop => "int:drop+open", Op::CkptApi => "int:checkpoint()", Op::CkptPragma => "int:PRAGMA wal_checkpoint", Op::AutoCkpt => "int:auto checkpoint",
                Op::Create(..) => "stmt:create", Op::Drop(_) => "stmt:drop", Op::Ins(..) => "stmt:insert", Op::Bulk(..) => "stmt:insert text rows", Op::Del(..) => "stmt:delete", Op::Upd(..) => "stmt:update",
                Op::Trunc(_) => "stmt:truncate", Op::CIdx(_) | Op::DIdx(_) => "stmt:create/drop index", Op::Find(..) => "stmt:select where b", Op::Begin | Op::Commit | Op::Rollback => "stmt:begin/commit/rollback",
                Op::Wal(_) => "stmt:pragma wal", Op::Query => "stmt:observe all tables",
            };
            w.count(b, 1);
        }
        for x in oa.iter().chain(ob.iter()) { if let Obs::Err(_) = x { w.count("out:statement error", 1); } if let Obs::Weird(_) = x { w.count("out:weird", 1); } }
    }
    let _ = std::fs::remove_dir_all(&dir);
    w.finish(&[("interruptions".to_string(), n_int.to_string()), ("runs_that_differ".to_string(), n_diff.to_string()), ("modelled_histories".to_string(), n_model.to_string())]);
}

/// oracle only: run A against run B on wide-language histories
fn search(a: &Args) {
    let mut rng = Rng::new(a.seed ^ 0xC04C04);
    let dir = scratch();
    let mut fails: Vec<String> = vec![];
    let mut tried = 0u64;
    let budget = a.budget.min(6000);
    while tried < budget {
        let (h, _) = gen_history(&mut rng, true, tried % 2 == 0);
        let oa = run_once(&h, &dir.join("a"), true);
        let ob = run_once(&h, &dir.join("b"), false);
        tried += 1;
        if !oracle(&h, &oa, &ob) && fails.len() < 400 { fails.push(format!("{} class={}", show_hist(&h), known_class(&h, &oa))); }
    }
    let _ = std::fs::remove_dir_all(&dir);
    let mut out = format!("tried={}\n", tried);
    for f in &fails { out.push_str("FAIL "); out.push_str(f); out.push('\n'); }
    std::fs::write(&a.out, out).expect("write search output");
}

fn run_mode(a: &Args) {
    let dir = scratch();
    for l in a.replay_lines().unwrap_or_default() {
        let h = match parse_hist(&l) { Some(h) => h, None => { println!("cannot parse: {}", l); continue; } };
        let oa = run_once(&h, &dir.join("a"), true);
        let ob = run_once(&h, &dir.join("b"), false);
        println!("== {}   class={} oracle={}", show_hist(&h), known_class(&h, &oa), oracle(&h, &oa, &ob));
        let (mut ia, mut ib) = (0, 0);
        for op in &h.ops {
            let sa = oa.get(ia).map(show_obs).unwrap_or_else(|| "-".into());
            if op.is_int() { println!("  {:<14} A: {}", show_op(op), sa); ia += 1; continue; }
            let sb = ob.get(ib).map(show_obs).unwrap_or_else(|| "-".into());
            let same = match (oa.get(ia), ob.get(ib)) { (Some(x), Some(y)) => obs_same(x, y), _ => false };
            if same { println!("  {:<14} {}", show_op(op), sa); } else { println!("  {:<14} A: {}\n  {:<14} B: {}   <<<<<< DIFFERENT", show_op(op), sa, "", sb); }
            ia += 1; ib += 1;
        }
    }
    let _ = std::fs::remove_dir_all(&dir);
}

fn probe(a: &Args) {
    let dir = PathBuf::from(format!("/dev/shm/c04-probe-{}", std::process::id()));
    let _ = std::fs::remove_dir_all(&dir);
    let path = dir.join("db");
    let mut db = Some(Database::create(&path).expect("create"));
    for l in a.replay_lines().unwrap_or_default() {
        if l.starts_with('#') { println!("{}", l); continue; }
        if l == "!X" || l == "!Y" {
            let old = db.take().unwrap();
            if l == "!X" { println!("close -> {:?}", old.close().map(|_| ()).map_err(|e| format!("{:#}", e))); }
            drop(old);
            match Database::open(&path) { Ok(d) => { db = Some(d); println!("{} reopened", l); } Err(e) => { println!("{} reopen FAILED {:#}", l, e); return; } }
            continue;
        }
        let d = db.as_ref().unwrap();
        if l == "!K" { println!("checkpoint() -> {:?}", d.checkpoint().map(|c| (c.frames_checkpointed, c.wal_truncated)).map_err(|e| format!("{:#}", e))); continue; }
        if l == "!LS" {
            let out = std::process::Command::new("sh").arg("-c").arg(format!("cd {:?} && find . -type f | sort | xargs ls -l | awk '{{print $5, $9}}'", path)).output().unwrap();
            println!("{}", String::from_utf8_lossy(&out.stdout)); continue;
        }
        match exec(d, &l) {
            Caught::Done(Ok(ExecuteResult::Select { rows, .. })) => println!("{:<70} => {:?}", l, cells(&rows)),
            Caught::Done(Ok(ExecuteResult::Pragma { value, .. })) => println!("{:<70} => pragma {:?}", l, value),
            Caught::Done(Ok(res)) => println!("{:<70} => {}", l, show_obs(&affected(Caught::Done(Ok(res))))),
            Caught::Done(Err(e)) => println!("{:<70} => ERR {}", l, e),
            Caught::Panicked(m) => println!("{:<70} => PANIC {}", l, m),
        }
    }
    drop(db);
    let _ = std::fs::remove_dir_all(&dir);
}
