(* C24 correspondence: judge what the compiled kernels of turdb::hnsw::distance (and the
   SQL ORDER BY <-> / <=> path) returned, as printed by harness/src/bin/c24.rs, against
   (model_agrees) the lane-algebra model instantiated with IEEE binary32 and with Z, and
   (spec_ok) the property's own oracle: exact sums over Z / dyadic rationals, independent of
   the kernel model.  Evaluated by vm_compute; definitions only. *)
From Coq Require Import ZArith List Bool Floats.SpecFloat.
From TV Require Import Model.Kernels Model.KernelsF32 Model.KnnOrder.
Import ListNotations.
Open Scope Z_scope.

(* one kernel call: the f32 result as its 32-bit pattern, a caught panic, or "not executed"
   (the harness never executes a call that would read out of bounds, and cannot run the AVX2
   kernels on a CPU without avx2+fma) *)
Inductive obs := OBits (w : Z) | OPanic | ONotRun.

(* the 15 calls, in this order:
    0 euclidean_squared_scalar   1 euclidean_squared_avx2
    2 euclidean_scalar           3 euclidean_avx2
    4 dot_product_scalar         5 dot_product_avx2
    6 inner_product_scalar       7 inner_product_avx2
    8 cosine_scalar              9 cosine_avx2
   10 euclidean_squared (dispatch)          11 select_distance_fn(L2)
   12 select_distance_fn(Cosine)            13 select_distance_fn(InnerProduct)
   14 select_squared_distance_fn(L2) *)
Inductive sql_out := SOk (ids : list Z) | SPanic | SErr.

Inductive case :=
| KInt (a b : list Z) (simd : bool) (r : list obs)      (* integer-valued components *)
| KF32 (a b : list Z) (simd : bool) (r : list obs)      (* components as f32 bit patterns *)
| Sql (metric : Z) (rows : list (Z * list Z)) (q : list Z) (limit : option Z) (out : sql_out).
   (* CREATE TABLE t (id BIGINT PRIMARY KEY, vec VECTOR(d)); rows inserted in this order;
      metric 0: SELECT id FROM t ORDER BY vec <-> 'q' [LIMIT k]; 1: ... vec <=> 'q' ...;
      integer-valued components; out = the ids returned, in order *)

(* ------------------------------------------------------------------ model side *)
Definition avx {A} (simd : bool) (r : kres A) : kres A := if simd then r else KUB.

Definition kern_model (simd : bool) (a b : list f32) : list (kres f32) :=
  [ KVal (l2sq_scalar f32ops a b);          avx simd (l2sq_avx2 f32ops a b);
    KVal (euclid_scalar f32ops f32fin a b); avx simd (euclid_avx2 f32ops f32fin a b);
    KVal (dot_scalar f32ops a b);           avx simd (dot_avx2 f32ops a b);
    KVal (inner_scalar f32ops a b);         avx simd (inner_avx2 f32ops a b);
    KVal (cosine_scalar f32ops f32fin a b); avx simd (cosine_avx2 f32ops f32fin a b);
    l2sq_dispatch f32ops simd a b;
    euclid_dispatch f32ops f32fin simd a b;
    cosine_dispatch f32ops f32fin simd a b;
    inner_dispatch f32ops simd a b;
    l2sq_dispatch f32ops simd a b ].

(* the same list with each loop evaluated once (what vm_compute runs; Proof/Kernels.v proves
   [kern_model_shared = kern_model] by unfolding) *)
Definition kern_model_shared (simd : bool) (a b : list f32) : list (kres f32) :=
  let l2s := l2sq_scalar f32ops a b in
  let l2a := l2sq_avx2 f32ops a b in
  let ds := dot_scalar f32ops a b in
  let da := dot_avx2 f32ops a b in
  let cs := cos_finish f32ops f32fin (cos_parts_scalar f32ops a b) in
  let ca := kmap (cos_finish f32ops f32fin) (cos_parts_avx2 f32ops a b) in
  let l2d := if simd then l2a else KVal l2s in
  [ KVal l2s;                      avx simd l2a;
    KVal (ksqrt f32fin l2s);       avx simd (kmap (ksqrt f32fin) l2a);
    KVal ds;                       avx simd da;
    KVal (kopp f32ops ds);         avx simd (kmap (kopp f32ops) da);
    KVal cs;                       avx simd ca;
    l2d;
    kmap (ksqrt f32fin) l2d;
    if simd then ca else KVal cs;
    if simd then kmap (kopp f32ops) da else KVal (kopp f32ops ds);
    l2d ].

Definition obs_match (m : kres f32) (o : obs) : bool :=
  match m, o with
  | KVal v, OBits w => bits_of_f32 v =? canon_bits w
  | KPanic, OPanic => true
  | KUB, ONotRun => true
  | _, _ => false
  end.

Fixpoint all2 {A B} (f : A -> B -> bool) (xs : list A) (ys : list B) : bool :=
  match xs, ys with
  | [], [] => true
  | x :: xs', y :: ys' => f x y && all2 f xs' ys'
  | _, _ => false
  end.

(* value of a pattern when it is an integer *)
Definition bits_int_value (w : Z) : option Z :=
  match f32_of_bits w with
  | S754_zero _ => Some 0
  | S754_finite s m e =>
      if 0 <=? e then Some (cond_Zopp s (Zpos m * 2 ^ e))
      else if (Zpos m) mod 2 ^ (- e) =? 0 then Some (cond_Zopp s (Zpos m / 2 ^ (- e))) else None
  | _ => None
  end.

(* the Z instance of the same kernels, on the calls whose value is a ring expression *)
Definition kern_model_z (simd : bool) (a b : list Z) : list (Z * kres Z) :=
  [ (0, KVal (l2sq_scalar zops a b)); (1, avx simd (l2sq_avx2 zops a b));
    (4, KVal (dot_scalar zops a b));  (5, avx simd (dot_avx2 zops a b));
    (6, KVal (inner_scalar zops a b)); (7, avx simd (inner_avx2 zops a b));
    (10, l2sq_dispatch zops simd a b); (13, inner_dispatch zops simd a b);
    (14, l2sq_dispatch zops simd a b) ].

Definition obs_match_z (r : list obs) (p : Z * kres Z) : bool :=
  match nth_error r (Z.to_nat (fst p)), snd p with
  | Some (OBits w), KVal v => match bits_int_value w with Some x => x =? v | None => false end
  | Some OPanic, KPanic => true
  | Some ONotRun, KUB => true
  | _, _ => false
  end.

(* all f32 arithmetic of the kernels is exact: |x| <= 64, at most 300 components *)
Definition int_regime (a b : list Z) : bool :=
  forallb (fun x => Z.abs x <=? 64) a && forallb (fun x => Z.abs x <=? 64) b &&
  (Z.of_nat (length a) <=? 300) && (Z.of_nat (length b) <=? 300).

(* ------------------------------------------------------------------ the property's oracle *)
(* exact values of the inputs, scaled by 2^53: a finite f32 that is zero or has |x| >= 2^-30 is an
   integer multiple of 2^-53 (24-bit mantissa); anything smaller is outside the safe range *)
Definition scaled53 (x : f32) : option Z :=
  match x with
  | S754_zero _ => Some 0
  | S754_finite s m e => if -53 <=? e then Some (cond_Zopp s (Zpos m * 2 ^ (e + 53))) else None
  | _ => None
  end.
Fixpoint scaled_all (xs : list f32) : option (list Z) :=
  match xs with
  | [] => Some []
  | x :: t => match scaled53 x, scaled_all t with Some v, Some vs => Some (v :: vs) | _, _ => None end
  end.
Definition sum_z (l : list Z) : Z := fold_right Z.add 0 l.
Definition sq_diffs (a b : list Z) : list Z := map (fun p => (fst p - snd p) * (fst p - snd p)) (combine a b).
Definition prods (a b : list Z) : list Z := map (fun p => fst p * snd p) (combine a b).

Definition S149 : Z := 2 ^ 149.
(* zero or 2^-30 <= |x| <= 2^30: no overflow, no underflow anywhere in the kernels (n <= 300) *)
Definition in_safe_range (v : Z) : bool :=
  (v =? 0) || ((2 ^ 23 <=? Z.abs v) && (Z.abs v <=? 2 ^ 83)).

(* results are scaled by 2^149 (every finite f32 is a multiple of 2^-149), sums of products of
   inputs by 2^106.
   |r - E| <= T/2^23 * M  where r = rs/2^149, E = es/2^106, M = ms/2^106 *)
Definition close_sum (T rs es ms : Z) : bool :=
  Z.abs (rs - es * 2 ^ 43) * 2 ^ 23 <=? T * ms * 2 ^ 43.
(* |r^2 - E| <= T/2^23 * E  (r = sqrt of the sum, up to rounding), r >= 0 *)
Definition close_sqrt (T rs es : Z) : bool :=
  (0 <=? rs) && (Z.abs (rs * rs - es * 2 ^ 192) * 2 ^ 23 <=? T * es * 2 ^ 192).
(* ln/ld <= d/sqrt(p)   (ld > 0, p > 0) *)
Definition ratio_le_dsqrt (ln ld d p : Z) : bool :=
  if ln <=? 0 then (0 <=? d) || (d * d * ld * ld <=? ln * ln * p)
  else (0 <? d) && (ln * ln * p <=? d * d * ld * ld).
Definition dsqrt_le_ratio (d p hn hd : Z) : bool := ratio_le_dsqrt (- hn) hd (- d) p.
(* |(1 - c) - d/sqrt(p)| <= T/2^23, c = cs/2^149 *)
Definition close_cos (T cs d p : Z) : bool :=
  let qn := S149 - cs in
  ratio_le_dsqrt (qn - T * 2 ^ 126) S149 d p && dsqrt_le_ratio d p (qn + T * 2 ^ 126) S149.

Definition obs_scaled (o : option obs) : option Z :=
  match o with Some (OBits w) => f32_scaled (f32_of_bits w) | _ => None end.
Definition is_run (o : option obs) : bool := match o with Some ONotRun => false | _ => true end.

(* every executed call of the given indices satisfies [chk] on its (finite) result *)
Definition each (r : list obs) (idx : list nat) (chk : Z -> bool) : bool :=
  forallb (fun i => let o := nth_error r i in
                    negb (is_run o) || match obs_scaled o with Some v => chk v | None => false end) idx.

(* "every kernel returns the scalar definition's value up to floating-point rounding":
   equal lengths, finite components in the safe range *)
Definition kern_spec (a b : list f32) (r : list obs) : bool :=
  match scaled_all a, scaled_all b with
  | Some xa, Some xb =>
      if negb (Nat.eqb (length a) (length b)) then true
      else if negb (forallb in_safe_range xa && forallb in_safe_range xb) then true
      else
        let n := Z.of_nat (length a) in
        let e2 := sum_z (sq_diffs xa xb) in
        let d := sum_z (prods xa xb) in
        let dabs := sum_z (map Z.abs (prods xa xb)) in
        let na := sum_z (prods xa xa) in
        let nb := sum_z (prods xb xb) in
        each r [0; 1; 10; 14]%nat (fun v => close_sum (n + 4) v e2 e2) &&
        each r [2; 3; 11]%nat (fun v => close_sqrt (n + 7) v e2) &&
        each r [4; 5]%nat (fun v => close_sum (n + 4) v d dabs) &&
        each r [6; 7; 13]%nat (fun v => close_sum (n + 4) v (- d) dabs) &&
        (if (na =? 0) || (nb =? 0)
         then each r [8; 9; 12]%nat (fun v => v =? S149)                 (* the definition says 1.0 *)
         else each r [8; 9; 12]%nat (fun v => close_cos (2 * n + 10) v d (na * nb)))
  | _, _ => true
  end.

(* on integer-valued vectors in the exact regime the sums must be the exact integers *)
Definition kern_spec_int (a b : list Z) (r : list obs) : bool :=
  if negb (Nat.eqb (length a) (length b)) then true
  else
    let e2 := sum_z (sq_diffs a b) in
    let d := sum_z (prods a b) in
    let exact (i : nat) (v : Z) :=
      match nth_error r i with
      | Some (OBits w) => match bits_int_value w with Some x => x =? v | None => false end
      | Some ONotRun => true
      | _ => false
      end in
    forallb (fun i => exact i e2) [0; 1; 10; 14]%nat &&
    forallb (fun i => exact i d) [4; 5]%nat &&
    forallb (fun i => exact i (- d)) [6; 7; 13]%nat.

(* ------------------------------------------------------------------ SQL level *)
(* the model's sums are exact: |x| <= 2^20, at most 70 components, equal dimensions, distinct ids *)
Fixpoint nodup_z (l : list Z) : bool :=
  match l with [] => true | x :: t => negb (existsb (Z.eqb x) t) && nodup_z t end.
Definition sql_regime (rows : list (Z * list Z)) (q : list Z) : bool :=
  (Z.of_nat (length q) <=? 70) &&
  forallb (fun x => Z.abs x <=? 2 ^ 20) q &&
  forallb (fun r => Nat.eqb (length (snd r)) (length q) && forallb (fun x => Z.abs x <=? 2 ^ 20) (snd r)) rows &&
  nodup_z (map fst rows).

Definition sql_model_agrees (metric : Z) (rows : list (Z * list Z)) (q : list Z) (limit : option Z)
    (out : sql_out) : bool :=
  sql_regime rows q && ((metric =? 0) || (metric =? 1)) &&
  match limit with Some k => 0 <=? k | None => true end &&
  match sql_order metric q rows limit, out with
  | ROk ids, SOk ids' => all2 Z.eqb ids ids'
  | RPanic, SPanic => true
  | _, _ => false
  end.

(* the property's oracle: exact distances.  L2: the squared distance, an integer (sqrt is
   monotone).  Cosine: undefined when a vector is zero; otherwise cos = d / sqrt(na*nb) as a
   fixed-point number with 96 fractional bits (integer square root on 2^256-scaled radicand:
   error < 2^-90), compared with a tolerance of 2^-40 -- the implementation computes the key in
   f64, so rows whose exact distances differ by less than rounding error may come in either order.
   Rows whose distance is undefined (a zero vector under <=>: the executor's key is NULL, which
   the repaired comparator sorts first) are NOT constrained by the oracle -- the property text
   speaks of "the exact distance", which such rows do not have: they may appear anywhere and
   may occupy LIMIT slots; the rows that do have a distance must be in true distance order
   among themselves, and a row with a distance that is left out must not be nearer than one
   returned.  (Where NULL-distance rows actually go is pinned by model_agrees, not by spec_ok.) *)
Inductive xkey := XUndef | XL2 (d2 : Z) | XCos (c : Z).
Definition exact_key (metric : Z) (v q : list Z) : xkey :=
  if metric =? 0 then XL2 (sum_z (sq_diffs v q))
  else
    let na := sum_z (prods v v) in
    let nb := sum_z (prods q q) in
    if (na =? 0) || (nb =? 0) then XUndef
    else XCos (sum_z (prods v q) * 2 ^ 224 / Z.sqrt (na * nb * 2 ^ 256)).
(* may a row with key a be returned before (or instead of) a row with key b? *)
Definition may_precede (a b : xkey) : bool :=
  match a, b with
  | XL2 x, XL2 y => x <=? y
  | XCos x, XCos y => y <=? x + 2 ^ 56            (* dist a <= dist b + 2^-40 *)
  | _, _ => true
  end.
Fixpoint pairwise_ok (l : list xkey) : bool :=
  match l with [] => true | x :: t => forallb (may_precede x) t && pairwise_ok t end.

Definition sql_spec_ok (metric : Z) (rows : list (Z * list Z)) (q : list Z) (limit : option Z)
    (out : sql_out) : bool :=
  match out with
  | SOk ids =>
      let n := Z.of_nat (length rows) in
      let want := match limit with None => n | Some k => Z.min k n end in
      let key_of (id : Z) : option xkey :=
        option_map (fun r => exact_key metric (snd r) q) (find (fun r => fst r =? id) rows) in
      let outk := map key_of ids in
      let restk := map (fun r => exact_key metric (snd r) q)
                       (filter (fun r => negb (existsb (Z.eqb (fst r)) ids)) rows) in
      (Z.of_nat (length ids) =? want) && nodup_z ids &&
      forallb (fun k => match k with Some _ => true | None => false end) outk &&
      let outk' := flat_map (fun k => match k with Some x => [x] | None => [] end) outk in
      pairwise_ok outk' &&                                                   (* non-decreasing distance *)
      forallb (fun o => forallb (may_precede o) restk) outk'                 (* the k smallest *)
  | _ => false
  end.

(* ------------------------------------------------------------------ verdicts *)
Definition model_agrees (c : case) : bool :=
  match c with
  | KInt a b simd r =>
      int_regime a b &&
      all2 obs_match (kern_model_shared simd (map f32_of_int a) (map f32_of_int b)) r &&
      forallb (obs_match_z r) (kern_model_z simd a b)
  | KF32 a b simd r =>
      all2 obs_match (kern_model_shared simd (map f32_of_bits a) (map f32_of_bits b)) r
  | Sql metric rows q limit out => sql_model_agrees metric rows q limit out
  end.

Definition spec_ok (c : case) : bool :=
  match c with
  | KInt a b simd r =>
      kern_spec_int a b r && kern_spec (map f32_of_int a) (map f32_of_int b) r
  | KF32 a b simd r => kern_spec (map f32_of_bits a) (map f32_of_bits b) r
  | Sql metric rows q limit out => sql_spec_ok metric rows q limit out
  end.

(* no open finding: F-C24-1 (NULL distance keys) and F-C24-2 (LIMIT 0) are repaired in /repo
   (26fae1f, 1f0a068); their witnesses run as ordinary cases on every check *)
Definition known_class (c : case) : Z := 0.

Fixpoint failures_from (i : Z) (cs : list case) : list (Z * bool * bool * Z) :=
  match cs with
  | [] => []
  | c :: t =>
      let m := model_agrees c in
      let s := spec_ok c in
      if m && s then failures_from (i + 1) t else (i, m, s, known_class c) :: failures_from (i + 1) t
  end.
Definition failures := failures_from 0.
