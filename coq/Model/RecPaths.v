(* C02 - the two open-time recovery paths of recovery.rs on a log that may contain undo frames:
     recover_all_tables  (automatic): redo frames are applied to the storage keyed by
                          actual_file_id (type byte masked off); undo frames (type byte 0x02) are
                          collected, first one per (table, page), and applied afterwards to pages
                          that no redo frame touched;
     streaming_recovery  (PRAGMA recover_wal): every frame is looked up by its RAW file_id, so
                          an undo frame (file_id = 0x02<<56 | table<<32 | txn) never matches a table.
   Storages are keyed by the table id of the file header.  Page images are names.  The writer of
   undo frames (write_wal_undo_frame_if_needed) is dead code in the unchanged tree, and the
   streaming path is only entered when the recovery budget is exceeded: this part of the
   property is proved on the model only.  DEFINITIONS ONLY. *)
From Coq Require Import ZArith List Bool.
From TV Require Import Model.Crash.
Import ListNotations.
Open Scope Z_scope.

Inductive wframe :=
| WRedo (file_id page : Z) (img : option Z)
| WUndo (table txn page : Z) (img : option Z).

Definition FILE_ID_MASK : Z := 2 ^ 56.                 (* file_id & 0x00FF_FFFF_FFFF_FFFF = file_id mod 2^56 *)
Definition raw_file_id (f : wframe) : Z :=
  match f with
  | WRedo fid _ _ => fid
  | WUndo t txn _ _ => 2 * 2 ^ 56 + (t mod 2 ^ 24) * 2 ^ 32 + txn mod 2 ^ 32
  end.
Definition is_undo (f : wframe) : bool := ((raw_file_id f / 2 ^ 56) mod 256 =? 2).
Definition undo_table_id (f : wframe) : Z := (raw_file_id f mod 2 ^ 56) / 2 ^ 32.
Definition actual_file_id (f : wframe) : Z := raw_file_id f mod FILE_ID_MASK.
Definition wpage (f : wframe) : Z := match f with WRedo _ p _ => p | WUndo _ _ p _ => p end.
Definition wimg (f : wframe) : option Z := match f with WRedo _ _ i => i | WUndo _ _ _ i => i end.

(* recover_all_tables *)
Record astate := mka { a_pages : pmap; a_redo : list key; a_undo : list (key * option Z) }.

Definition auto_frame (tables : list Z) (a : astate) (f : wframe) : astate :=
  if is_undo f then
    let k := (undo_table_id f, wpage f) in
    if kmem k (map fst (a_undo a)) then a else mka (a_pages a) (a_redo a) (a_undo a ++ [(k, wimg f)])
  else
    let k := (actual_file_id f, wpage f) in
    mka (if mem (actual_file_id f) tables then pupd (a_pages a) k (wimg f) else a_pages a)
        (k :: a_redo a) (a_undo a).

Definition auto_undo (tables : list Z) (redo : list key) (m : pmap) (u : key * option Z) : pmap :=
  if negb (kmem (fst u) redo) && mem (fst (fst u)) tables
     && match m (fst u) with Some _ => true | None => false end      (* page_no < page_count *)
  then pupd m (fst u) (snd u) else m.

Definition auto_recover (tables : list Z) (log : list wframe) (m : pmap) : pmap :=
  let a := fold_left (auto_frame tables) log (mka m [] []) in
  fold_left (auto_undo tables (a_redo a)) (a_undo a) (a_pages a).

(* streaming_recovery *)
Definition stream_frame (tables : list Z) (m : pmap) (f : wframe) : pmap :=
  if mem (raw_file_id f) tables then pupd m (raw_file_id f, wpage f) (wimg f) else m.
Definition streaming_recover (tables : list Z) (log : list wframe) (m : pmap) : pmap :=
  fold_left (stream_frame tables) log m.

Definition redo_only (log : list wframe) : bool :=
  forallb (fun f => match f with WRedo fid _ _ => (0 <=? fid) && (fid <? 2 ^ 56) | WUndo _ _ _ _ => false end) log.
