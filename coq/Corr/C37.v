(* C37 correspondence: the harness runs the real GroupCommitQueue (plus its copy of the caller
   protocol of execute_small_commit) under the deterministic scheduler and prints, per case, the
   programs, the schedule and everything it observed.  [model_agrees] replays programs and
   schedule on Model/GroupCommit.v (variant fx = true: the code as it is; site 404 present) and
   demands the same observations; [spec_ok] is the property's own oracle on the observations
   alone.  Definitions only. *)
From Coq Require Import ZArith List Bool.
From TV Require Import Lib.Interleave Model.GroupCommit.
Import ListNotations.
Open Scope Z_scope.

(* Compact encodings (coqc parses about 10^4 numerals per second, so a case is a few dozen
   numbers):
     op      = (1 if the payload is empty) + 2 * (failing write index + 1)        (0 = none fails)
     status  -> 4 bits: 0 not started, 1 blocked, 2 finished, 3 skipped (outcomes only),
                301->4 302->5 304->6 305->7 306->8 401->9 402->10 403->11 404->12 406->13, else 15
     step    = thread + 4 * (outcome + 16 * (pending_count + 16 * (log length + 16 * (st_0 + 16 * (st_1 + ...)))))
     log entry = batch id + 64 * (thread + 8 * commit number)
     result  = commit number + 8 * (code + 8 * (batch id + 64 * log length at return)) *)
Inductive case :=
| Case (progs : list (list Z))       (* per thread: its commits *)
       (steps : list Z)              (* every schedule entry that was executed, with what was observed after it *)
       (log : list Z)                (* the log at the end *)
       (results : list (list Z))     (* per thread, per commit *)
       (failed : list Z)             (* batch ids of the members of batches handed to fail_batch *)
       (drained : bool)              (* every thread ran to completion *)
       (probe : Z).                  (* 1 = a fresh committer was elected at once afterwards, 0 = not, 2 = not run *)

Definition to_op (e : Z) : op :=
  Commit (Z.odd e) (if e / 2 =? 0 then None else Some (Z.to_nat (e / 2 - 1))).
Definition to_progs (p : list (list Z)) : list (list op) := map (map to_op) p.
Definition sched_of (steps : list Z) : list nat := map (fun z => Z.to_nat (z mod 4)) steps.

Definition final_and_obs (c : case) : St * list (Z * (list Z * Z * Z)) :=
  match c with
  | Case progs steps _ _ _ _ _ => exec_obs true true (sched_of steps) (init (to_progs progs))
  end.

Fixpoint zlist_eq (a b : list Z) : bool :=
  match a, b with
  | [], [] => true
  | x :: r, y :: q => (x =? y) && zlist_eq r q
  | _, _ => false
  end.

Definition status_code (s : Z) : Z :=
  if s =? 0 then 0 else if s =? 1 then 1 else if s =? 2 then 2 else if s =? 3 then 3
  else if s =? 301 then 4 else if s =? 302 then 5 else if s =? 304 then 6 else if s =? 305 then 7
  else if s =? 306 then 8 else if s =? 401 then 9 else if s =? 402 then 10 else if s =? 403 then 11
  else if s =? 404 then 12 else if s =? 406 then 13 else 15.
Definition cap15 (x : Z) : Z := if x <? 15 then x else 15.
Definition enc_step (t : nat) (m : Z * (list Z * Z * Z)) : Z :=
  match m with
  | (oc, (sts, pend, ll)) =>
      Z.of_nat t + 4 * (status_code oc + 16 * (cap15 pend + 16 * (cap15 ll +
        16 * fold_right (fun st acc => status_code st + 16 * acc) 0 sts)))
  end.
Fixpoint steps_eq (sched : list nat) (obs : list (Z * (list Z * Z * Z))) (steps : list Z) : bool :=
  match sched, obs, steps with
  | [], [], [] => true
  | t :: sr, m :: mr, z :: zr => (enc_step t m =? z) && steps_eq sr mr zr
  | _, _, _ => false
  end.

Fixpoint label_of (subs : list (Z * (nat * Z))) (id : Z) : option (nat * Z) :=
  match subs with
  | [] => None
  | (i, l) :: r => if i =? id then Some l else label_of r id
  end.
Definition enc_log (id t k : Z) : Z := id + 64 * (t + 8 * k).
Definition model_log (s : shared) : list Z :=
  map (fun id => match label_of (subs s) id with
                 | Some (t, k) => enc_log id (Z.of_nat t) k
                 | None => -1
                 end) (log s).

Definition res_code (r : result) : Z := match r with ROk => 0 | RErrReported => 1 | RErrFlush => 2 end.
Definition enc_res (k code bid ll : Z) : Z := k + 8 * (code + 8 * (bid + 64 * ll)).
Definition model_results (s : shared) (t : nat) : list Z :=
  map (fun a => enc_res (a_k a) (res_code (a_res a)) (match a_res a with ROk => a_id a | _ => 0 end) (a_loglen a))
      (filter (fun a => Nat.eqb (a_thr a) t) (acks s)).
Fixpoint results_eq (s : shared) (t : nat) (rs : list (list Z)) : bool :=
  match rs with
  | [] => true
  | r :: q => zlist_eq (model_results s t) r && results_eq s (S t) q
  end.

(* does the model reproduce everything the harness observed? *)
Definition model_agrees (c : case) : bool :=
  match c with
  | Case progs steps log_ results failed drained probe =>
      let (sf, obs) := final_and_obs c in
      (Nat.eqb (length results) (length progs)) &&
      (Nat.leb (length progs) 4) &&
      forallb (fun p => nonempty p) progs &&
      steps_eq (sched_of steps) obs steps &&
      zlist_eq (model_log (sh sf)) log_ &&
      results_eq (sh sf) 0 results &&
      zlist_eq (att_fail (sh sf)) failed &&
      Bool.eqb (all_finished sf) drained &&
      (probe =? (if drained then (if fip (sh sf) then 0 else 1) else 2))
  end.

(* ---- the property itself, on the observations only *)
Definition log_id (e : Z) : Z := e mod 64.
Fixpoint nodup_ids (l : list Z) (seen : list Z) : bool :=
  match l with
  | [] => true
  | e :: r => negb (memZ (log_id e) seen) && nodup_ids r (log_id e :: seen)
  end.
(* a commit that returned Ok with batch id b (b <> 0: it had a payload) must find ITS payload
   (same batch id, its thread, its commit number) among the entries the log had at the return,
   and must not be a member of a batch whose write failed; nobody may time out *)
Definition result_ok (log_ : list Z) (failed : list Z) (t : Z) (r : Z) : bool :=
  let k := r mod 8 in
  let code := (r / 8) mod 8 in
  let bid := (r / 64) mod 64 in
  let ll := r / 4096 in
  if (code =? 0) && negb (bid =? 0) then
    memZ (enc_log bid t k) (firstn (Z.to_nat ll) log_) && negb (memZ bid failed)
  else negb (code =? 3) && negb (code =? 4).
Fixpoint results_ok (log_ : list Z) (failed : list Z) (t : Z) (rs : list (list Z)) : bool :=
  match rs with
  | [] => true
  | r :: q => forallb (result_ok log_ failed t) r && results_ok log_ failed (t + 1) q
  end.
Definition spec_ok (c : case) : bool :=
  match c with
  | Case _ _ log_ results failed drained probe =>
      nodup_ids log_ [] && results_ok log_ failed 0 results && drained && (probe =? 1)
  end.

(* no recorded finding class is left: F-C37-1 (an elected leader lost its own commit to another
   committer's take_pending) was repaired by /repo 77fabcc, and Proof/GroupCommitRepair.v proves
   that the ghost flag [stolen] stays false in every run of the repaired protocol *)
Definition known_class (c : case) : Z := 0.

Fixpoint failures_from (i : Z) (cs : list case) : list (Z * bool * bool * Z) :=
  match cs with
  | [] => []
  | c :: t =>
      let m := model_agrees c in
      let s := spec_ok c in
      if m && s then failures_from (i + 1) t else (i, m, s, known_class c) :: failures_from (i + 1) t
  end.
Definition failures := failures_from 0.
