(* C11 proofs, part 2: chunking and the toast table (Model/Toast.v): chunks_concat, what toast_write
   leaves in the table, what detoast reads back, what the writes and deletes of one chunk id do to
   the values stored under another. *)
From Coq Require Import ZArith List Bool Lia ZifyBool.
From TV Require Import Lib.MachInt Lib.MachIntFacts Gen.Toast Model.Toast Proof.ToastCodec.
Import ListNotations.
Open Scope Z_scope.

Ltac Zify.zify_post_hook ::= Z.to_euclidean_division_equations.

Arguments Z.div : simpl never.
Arguments Z.modulo : simpl never.
Arguments Z.mul : simpl never.
Arguments Z.add : simpl never.
Arguments Z.sub : simpl never.
Arguments Z.pow : simpl never.
Arguments Z.leb : simpl never.
Arguments Z.ltb : simpl never.
Arguments Z.geb : simpl never.
Arguments Z.gtb : simpl never.
Arguments Z.eqb : simpl never.
Arguments Z.of_nat : simpl never.
Arguments Z.to_nat : simpl never.
Arguments wrap_u : simpl never.

(* ---------------------------------------------------------------- data.chunks(n) *)
Lemma chunks_fuel_concat : forall f n d, (0 < n)%nat -> (length d <= f)%nat -> concat (chunks_fuel f n d) = d.
Proof.
  induction f as [|f IH]; intros n d Hn Hl.
  - destruct d; [reflexivity | cbn in Hl; lia].
  - destruct d as [|x d]; [reflexivity|].
    cbn [chunks_fuel concat]. rewrite IH; [apply firstn_skipn | exact Hn |].
    rewrite skipn_length. cbn [length] in *. lia.
Qed.

Lemma chunks_concat_l : forall d, concat (chunks CHUNK d) = d.
Proof. intros d. apply chunks_fuel_concat; [unfold CHUNK; vm_compute; lia | lia]. Qed.

Lemma chunks_fuel_count : forall f n d, (0 < n)%nat -> (length d <= f)%nat ->
  Z.of_nat (length (chunks_fuel f n d)) = (Z.of_nat (length d) + (Z.of_nat n - 1)) / Z.of_nat n.
Proof.
  induction f as [|f IH]; intros n d Hn Hl.
  - destruct d; [|cbn in Hl; lia]. cbn [chunks_fuel length]. change (Z.of_nat 0) with 0. symmetry. apply Z.div_small. lia.
  - destruct d as [|x d].
    + cbn [chunks_fuel length]. change (Z.of_nat 0) with 0. symmetry. apply Z.div_small. lia.
    + cbn [chunks_fuel].
      change (length (firstn n (x :: d) :: chunks_fuel f n (skipn n (x :: d))))
        with (S (length (chunks_fuel f n (skipn n (x :: d))))).
      rewrite Nat2Z.inj_succ, IH; [| exact Hn | rewrite skipn_length; cbn [length] in *; lia].
      rewrite skipn_length.
      remember (length (x :: d)) as L eqn:EL.
      assert (1 <= L)%nat as HL by (subst L; cbn [length]; lia).
      clear EL Hl IH.
      destruct (Nat.le_gt_cases L n) as [Le|Gt].
      * replace (L - n)%nat with 0%nat by lia. change (Z.of_nat 0) with 0.
        rewrite (Z.div_small (0 + (Z.of_nat n - 1))) by lia.
        apply Z.div_unique with (r := Z.of_nat L - 1); [left; lia | lia].
      * rewrite Nat2Z.inj_sub by lia.
        replace (Z.of_nat L + (Z.of_nat n - 1)) with ((Z.of_nat L - Z.of_nat n + (Z.of_nat n - 1)) + 1 * Z.of_nat n) by lia.
        rewrite Z.div_add by lia. lia.
Qed.

(* number of chunks written = chunk_count used by the reader *)
Lemma chunks_count d : Z.of_nat (length (chunks CHUNK d)) = chunk_count (blen d).
Proof.
  unfold chunks. rewrite chunks_fuel_count by (unfold CHUNK; vm_compute; lia).
  unfold chunk_count, blen, CHUNK. change (Z.of_nat (Z.to_nat TOAST_CHUNK_SIZE)) with TOAST_CHUNK_SIZE. reflexivity.
Qed.

Lemma chunks_fuel_sizes : forall f n d, (0 < n)%nat ->
  Forall (fun c => (1 <= length c <= n)%nat) (chunks_fuel f n d).
Proof.
  induction f as [|f IH]; intros n d Hn; [constructor|].
  destruct d as [|x d]; [constructor|]. cbn [chunks_fuel]. constructor; [|apply IH; exact Hn].
  rewrite firstn_length. cbn [length]. lia.
Qed.

Lemma chunks_sizes d : Forall (fun c => 1 <= blen c <= 4000) (chunks CHUNK d).
Proof.
  pose proof (chunks_fuel_sizes (length d) CHUNK d) as H.
  assert (0 < CHUNK)%nat as Hc by (unfold CHUNK; vm_compute; lia). specialize (H Hc).
  unfold chunks. eapply Forall_impl; [|exact H]. intros c Hcs. cbv beta in Hcs. unfold blen.
  assert (Z.of_nat CHUNK = 4000) as E by reflexivity. destruct Hcs as [H1 H2]. apply Nat2Z.inj_le in H1, H2. rewrite E in H2. change (Z.of_nat 1) with 1 in H1. lia.
Qed.

Lemma chunks_nonempty d : d <> [] -> exists c t, chunks CHUNK d = c :: t.
Proof.
  intros Hd. destruct d as [|x d]; [congruence|]. unfold chunks. cbn [length chunks_fuel]. eauto.
Qed.

(* ---------------------------------------------------------------- the toast table *)
Lemma key_eqb_true a b : key_eqb a b = true <-> a = b.
Proof.
  unfold key_eqb. destruct a as [a1 a2], b as [b1 b2]. cbn [fst snd]. split.
  - intros H. apply andb_true_iff in H as [H1 H2]. apply Z.eqb_eq in H1, H2. congruence.
  - intros H. inversion H. now rewrite !Z.eqb_refl.
Qed.
Lemma tupd_same m k c : tupd m k c k = Some c.
Proof. unfold tupd. now rewrite (proj2 (key_eqb_true k k) eq_refl). Qed.
Lemma tupd_other m k c k' : k <> k' -> tupd m k c k' = m k'.
Proof.
  intros H. unfold tupd. destruct (key_eqb k k') eqn:E; [|reflexivity]. apply key_eqb_true in E. contradiction.
Qed.

(* m' holds everything m holds *)
Definition extends (m m' : tmap) : Prop := forall k v, m k = Some v -> m' k = Some v.
Lemma extends_refl m : extends m m. Proof. intros k v H. exact H. Qed.
Lemma extends_trans a b c : extends a b -> extends b c -> extends a c.
Proof. intros H1 H2 k v H. auto. Qed.

(* inserts never overwrite: whatever was in the table stays, also when the loop stops at a duplicate *)
Lemma write_extends : forall cs m cid seq m' ok, write_chunks m cid seq cs = (m', ok) -> extends m m'.
Proof.
  induction cs as [|c t IH]; intros m cid seq m' ok H; cbn [write_chunks] in H.
  - inversion H. apply extends_refl.
  - destruct (m (cid, wrap_u 32 seq)) eqn:E.
    + inversion H. apply extends_refl.
    + apply IH in H. intros k v Hk. apply H. rewrite tupd_other; [exact Hk|]. intros E'. subst k. congruence.
Qed.

(* ... and only keys of this chunk id are added *)
Lemma write_frame : forall cs m cid seq m' ok, write_chunks m cid seq cs = (m', ok) ->
  forall k, fst k <> cid -> m' k = m k.
Proof.
  induction cs as [|c t IH]; intros m cid seq m' ok H k Hk; cbn [write_chunks] in H.
  - now inversion H.
  - destruct (m (cid, wrap_u 32 seq)) eqn:E.
    + now inversion H.
    + rewrite (IH _ _ _ _ _ H k Hk). apply tupd_other. intros E'. subst k. cbn in Hk. congruence.
Qed.

(* a successful write found the first key free *)
Lemma write_ok_first_free c t m cid m' : write_chunks m cid 0 (c :: t) = (m', true) -> m (cid, 0) = None.
Proof.
  cbn [write_chunks]. change (wrap_u 32 0) with 0. destruct (m (cid, 0)); [intros H; inversion H | reflexivity].
Qed.

(* after a successful write every chunk is under its key *)
Lemma write_ok_stored : forall cs m cid seq m', 0 <= seq -> seq + Z.of_nat (length cs) <= 2 ^ 32 ->
  write_chunks m cid seq cs = (m', true) ->
  forall i c, nth_error cs i = Some c -> m' (cid, seq + Z.of_nat i) = Some c.
Proof.
  induction cs as [|c0 t IH]; intros m cid seq m' Hs Hl H i c Hn.
  - destruct i; discriminate.
  - cbn [write_chunks] in H. cbn [length] in Hl. rewrite Nat2Z.inj_succ in Hl.
    rewrite wrap_u_small in H by lia.
    destruct (m (cid, seq)) eqn:E; [inversion H|].
    destruct i as [|i].
    + cbn in Hn. inversion Hn; subst c0. change (Z.of_nat 0) with 0. rewrite Z.add_0_r.
      eapply write_extends; [exact H|]. apply tupd_same.
    + cbn [nth_error] in Hn. rewrite Nat2Z.inj_succ.
      replace (seq + Z.succ (Z.of_nat i)) with ((seq + 1) + Z.of_nat i) by lia.
      eapply IH; [| |exact H|exact Hn]; lia.
Qed.

(* the write succeeds when the keys it needs are free *)
Lemma write_succeeds : forall cs m cid seq, 0 <= seq -> seq + Z.of_nat (length cs) <= 2 ^ 32 ->
  (forall i, seq <= i < seq + Z.of_nat (length cs) -> m (cid, i) = None) ->
  exists m', write_chunks m cid seq cs = (m', true).
Proof.
  induction cs as [|c t IH]; intros m cid seq Hs Hl Hfree; cbn [write_chunks].
  - eauto.
  - cbn [length] in Hl, Hfree. rewrite Nat2Z.inj_succ in Hl, Hfree.
    rewrite wrap_u_small by lia. rewrite (Hfree seq) by lia.
    apply IH; [lia|lia|]. intros i Hi. rewrite tupd_other; [apply Hfree; lia|]. intros E. inversion E. lia.
Qed.

(* "the value d is stored under chunk id cid" *)
Definition stored_at (m : tmap) (cid : Z) (d : list Z) : Prop :=
  forall i c, nth_error (chunks CHUNK d) i = Some c -> m (cid, Z.of_nat i) = Some c.

Lemma stored_at_extends m m' cid d : extends m m' -> stored_at m cid d -> stored_at m' cid d.
Proof. intros He Hs i c Hn. apply He, Hs, Hn. Qed.

Lemma chunk_count_small n : 0 <= n < 2 ^ 40 -> 0 <= chunk_count n < 2 ^ 32.
Proof. intros H. unfold chunk_count. change TOAST_CHUNK_SIZE with 4000. change (2 ^ 40) with 1099511627776 in H. change (2 ^ 32) with 4294967296. lia. Qed.

Lemma toast_write_stored m cid d m' : blen d < 2 ^ 40 -> toast_write m cid d = (m', true) -> stored_at m' cid d.
Proof.
  intros Hl H i c Hn. unfold toast_write in H.
  pose proof (write_ok_stored (chunks CHUNK d) m cid 0 m') as W. rewrite Z.add_0_l in W.
  eapply W; [lia | | exact H | exact Hn].
  rewrite chunks_count. pose proof (chunk_count_small (blen d)). pose proof (blen_nonneg d). lia.
Qed.

Lemma stored_first m cid d : stored_at m cid d -> d <> [] -> exists c, m (cid, 0) = Some c.
Proof.
  intros Hs Hd. destruct (chunks_nonempty d Hd) as (c & t & E). exists c.
  apply (Hs 0%nat c). rewrite E. reflexivity.
Qed.

(* reading what is stored *)
Lemma read_stored m cid : forall cs seq, 0 <= seq -> seq + Z.of_nat (length cs) <= 2 ^ 32 ->
  (forall i c, nth_error cs i = Some c -> m (cid, seq + Z.of_nat i) = Some c) ->
  read_chunks m cid seq (length cs) = Some (concat cs).
Proof.
  induction cs as [|c0 t IH]; intros seq Hs Hl H; [reflexivity|].
  cbn [length read_chunks concat]. cbn [length] in Hl. rewrite Nat2Z.inj_succ in Hl.
  rewrite wrap_u_small by lia.
  pose proof (H 0%nat c0 eq_refl) as H0. change (Z.of_nat 0) with 0 in H0. rewrite Z.add_0_r in H0. rewrite H0.
  rewrite IH; [reflexivity | lia | lia |].
  intros i c Hn. replace (seq + 1 + Z.of_nat i) with (seq + Z.of_nat (S i)) by lia. apply H. exact Hn.
Qed.

Lemma detoast_stored m cid d :
  stored_at m cid d -> blen d < ALLOC_OK -> 0 <= cid < 2 ^ 64 -> detoast m (ptr_encode (blen d) cid) = DOk d.
Proof.
  intros Hs Hl Hc. pose proof (blen_nonneg d) as Hn. unfold ALLOC_OK in Hl.
  unfold detoast. rewrite ptr_decode_encode by (try exact Hc; change (2 ^ 64) with 18446744073709551616; change (2 ^ 31) with 2147483648 in Hl; lia).
  change (2 ^ 31) with 2147483648 in Hl.
  replace (2 ^ 63 <=? blen d) with false by (change (2 ^ 63) with 9223372036854775808; lia).
  replace (ALLOC_FAIL <=? blen d) with false by (unfold ALLOC_FAIL; change (2 ^ 47) with 140737488355328; lia).
  replace (ALLOC_OK <=? blen d) with false by (unfold ALLOC_OK; change (2 ^ 31) with 2147483648; lia).
  rewrite <- chunks_count, Nat2Z.id.
  rewrite (read_stored m cid (chunks CHUNK d) 0).
  - rewrite chunks_concat_l. unfold blen. rewrite Nat2Z.id, firstn_all. reflexivity.
  - lia.
  - rewrite chunks_count. pose proof (chunk_count_small (blen d)). change (2 ^ 40) with 1099511627776 in *. lia.
  - intros i c Hi. rewrite Z.add_0_l. apply Hs. exact Hi.
Qed.

(* ---------------------------------------------------------------- toast_roundtrip and its frame *)
Lemma toast_roundtrip_l : forall m cid d,
  0 <= cid < 2 ^ 64 -> blen d < ALLOC_OK ->
  (forall i, 0 <= i < chunk_count (blen d) -> m (cid, i) = None) ->
  exists m', toast_write m cid d = (m', true) /\ detoast m' (ptr_encode (blen d) cid) = DOk d.
Proof.
  intros m cid d Hc Hl Hfree. pose proof (blen_nonneg d) as Hn.
  assert (blen d < 2 ^ 40) as Hl40 by (unfold ALLOC_OK in Hl; change (2 ^ 31) with 2147483648 in Hl; change (2 ^ 40) with 1099511627776; lia).
  destruct (write_succeeds (chunks CHUNK d) m cid 0) as [m' Hw].
  - lia.
  - rewrite chunks_count. pose proof (chunk_count_small (blen d)). lia.
  - intros i Hi. apply Hfree. rewrite chunks_count in Hi. lia.
  - exists m'. split; [exact Hw|]. apply detoast_stored; [|exact Hl|exact Hc].
    eapply toast_write_stored; [exact Hl40 | exact Hw].
Qed.

(* writing under one chunk id never disturbs a value stored under another - nor, in fact, any stored value *)
Lemma toast_write_keeps m cid d m' ok cid' d' :
  toast_write m cid d = (m', ok) -> stored_at m cid' d' -> stored_at m' cid' d'.
Proof. intros H. apply stored_at_extends. eapply write_extends. exact H. Qed.

(* a stored value blocks every write under its chunk id *)
Lemma toast_write_blocked m cid d d0 :
  stored_at m cid d0 -> d0 <> [] -> d <> [] -> toast_write m cid d = (m, false).
Proof.
  intros Hs H0 Hd. destruct (stored_first m cid d0 Hs H0) as [c0 Hc0].
  destruct (chunks_nonempty d Hd) as (c & t & E). unfold toast_write. rewrite E. cbn [write_chunks].
  change (wrap_u 32 0) with 0. now rewrite Hc0.
Qed.

(* ---------------------------------------------------------------- delete_toast_chunks *)
Lemma del_chunks_other m cid n k : fst k <> cid -> del_chunks m cid n k = m k.
Proof. intros H. unfold del_chunks. destruct (Z.eqb_spec (fst k) cid); [contradiction|reflexivity]. Qed.

Lemma del_chunks_keeps m cid n cid' d : cid' <> cid -> stored_at m cid' d -> stored_at (del_chunks m cid n) cid' d.
Proof. intros Hne Hs i c Hn. rewrite del_chunks_other by (cbn; exact Hne). apply Hs, Hn. Qed.

Lemma del_chunks_gone m cid n i : 0 <= i < n -> del_chunks m cid n (cid, i) = None.
Proof.
  intros Hi. unfold del_chunks. cbn [fst snd]. rewrite Z.eqb_refl. cbn [andb].
  replace (i <? n) with true by lia. reflexivity.
Qed.

(* deleting through a pointer that encodes (total, cid) deletes the keys of cid *)
Lemma del_pointer_encode m total cid :
  0 <= total < 2 ^ 64 -> 0 <= cid < 2 ^ 64 ->
  del_pointer m (ptr_encode total cid) = del_chunks m cid (chunk_count total).
Proof.
  intros Ht Hc. unfold del_pointer. rewrite ptr_decode_encode by assumption. now rewrite chunk_id_rebuild.
Qed.

Lemma del_pointer_keeps m total cid cid' d :
  0 <= total < 2 ^ 64 -> 0 <= cid < 2 ^ 64 -> cid' <> cid ->
  stored_at m cid' d -> stored_at (del_pointer m (ptr_encode total cid)) cid' d.
Proof. intros Ht Hc Hne Hs. rewrite del_pointer_encode by assumption. now apply del_chunks_keeps. Qed.

(* after deleting a value its chunk id is free again: the next write under it succeeds *)
Lemma del_then_write m cid d0 d :
  0 <= cid < 2 ^ 64 -> blen d0 < ALLOC_OK -> blen d < ALLOC_OK -> blen d <= blen d0 ->
  exists m', toast_write (del_chunks m cid (chunk_count (blen d0))) cid d = (m', true).
Proof.
  intros Hc H0 Hd Hle. pose proof (blen_nonneg d) as Hn.
  destruct (toast_roundtrip_l (del_chunks m cid (chunk_count (blen d0))) cid d Hc Hd) as (m' & Hw & _).
  - intros i Hi. apply del_chunks_gone. unfold chunk_count in *. change TOAST_CHUNK_SIZE with 4000 in *. lia.
  - eauto.
Qed.

(* ---------------------------------------------------------------- which keys a write adds, which a delete leaves *)
Lemma write_keys : forall cs m cid seq m' ok, 0 <= seq -> seq + Z.of_nat (length cs) <= 2 ^ 32 ->
  write_chunks m cid seq cs = (m', ok) ->
  forall k x, m' k = Some x -> m k = Some x \/ (fst k = cid /\ seq <= snd k < seq + Z.of_nat (length cs)).
Proof.
  induction cs as [|c t IH]; intros m cid seq m' ok Hs Hl H k x Hk; cbn [write_chunks] in H.
  - injection H as <- <-. now left.
  - cbn [length] in Hl |- *. rewrite Nat2Z.inj_succ in Hl |- *. rewrite wrap_u_small in H by lia.
    destruct (m (cid, seq)) eqn:E.
    + injection H as <- <-. now left.
    + assert (0 <= seq + 1) as H1 by lia. assert (seq + 1 + Z.of_nat (length t) <= 2 ^ 32) as H2 by lia.
      destruct (IH (tupd m (cid, seq) c) cid (seq + 1) m' ok H1 H2 H k x Hk) as [A|[A B]].
      * unfold tupd in A. destruct (key_eqb (cid, seq) k) eqn:Ek.
        -- apply key_eqb_true in Ek. subst k. right. cbn [fst snd]. lia.
        -- now left.
      * right. split; [exact A | lia].
Qed.

Lemma toast_write_keys m cid d m' ok : blen d < 2 ^ 40 -> toast_write m cid d = (m', ok) ->
  forall k x, m' k = Some x -> m k = Some x \/ (fst k = cid /\ 0 <= snd k < chunk_count (blen d)).
Proof.
  intros Hl H k x Hk. unfold toast_write in H. pose proof (blen_nonneg d) as Hn.
  pose proof (chunk_count_small (blen d) ltac:(lia)) as Hc.
  assert (0 + Z.of_nat (length (chunks CHUNK d)) <= 2 ^ 32) as H2 by (rewrite chunks_count; lia).
  destruct (write_keys (chunks CHUNK d) m cid 0 m' ok ltac:(lia) H2 H k x Hk) as [A|[A B]];
    [now left | right]. rewrite chunks_count in B. split; [exact A | lia].
Qed.

Lemma del_chunks_sub m c n k x : del_chunks m c n k = Some x -> m k = Some x /\ ~ (fst k = c /\ snd k < n).
Proof.
  unfold del_chunks. destruct (Z.eqb_spec (fst k) c) as [E|E]; cbn [andb].
  - destruct (Z.ltb_spec (snd k) n) as [L|L]; cbn [orb]; [discriminate|].
    destruct (2 ^ 32 <=? n); [discriminate|]. intros H. split; [exact H | lia].
  - intros H. split; [exact H | tauto].
Qed.

(* the write succeeds when no key of the chunk id is in the table *)
Lemma toast_write_fresh m cid d : blen d < ALLOC_OK -> (forall i, m (cid, i) = None) ->
  exists m', toast_write m cid d = (m', true).
Proof.
  intros Hl Hfree. pose proof (blen_nonneg d) as Hn.
  assert (blen d < 2 ^ 40) as Hl40 by (unfold ALLOC_OK in Hl; change (2 ^ 31) with 2147483648 in Hl; change (2 ^ 40) with 1099511627776; lia).
  apply (write_succeeds (chunks CHUNK d) m cid 0); [lia | | intros i _; apply Hfree].
  rewrite chunks_count. pose proof (chunk_count_small (blen d)). lia.
Qed.
