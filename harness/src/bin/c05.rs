//! C05 -- DML results match a relational reference model.  Everything lives in dml_common
//! (shared with C06): histories of INSERT / UPDATE / DELETE / TRUNCATE on a fresh table of a
//! real turdb::Database, observed after every statement, judged by coq/Corr/C05.v.
#[path = "sqlgen/mod.rs"]
mod sqlgen;
#[path = "dml_common/mod.rs"]
mod dml_common;
fn main() { dml_common::main_for("C05"); }
