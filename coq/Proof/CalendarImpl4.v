(* C41 continued: civil date/time from unix seconds (format_unix_timestamp's arithmetic). *)
From Coq Require Import ZArith List Bool Lia ZifyBool.
From TV Require Import Lib.MachInt Lib.MachIntFacts Model.Calendar Model.CalendarImpl Proof.CalendarBase Proof.CalendarImpl Proof.CalendarImpl2.
From TV Require Gen.CalFunc.
Import ListNotations.
Open Scope Z_scope.

Ltac Zify.zify_post_hook ::= Z.to_euclidean_division_equations.

Definition civil_days (n : Z) : Z * Z * Z :=
  let '(y, m, d, _, _, _) := CalFunc.civil_from_unix (86400 * n) in (y, m, d).

Lemma civil_split n t : 0 <= n -> 0 <= t < 86400 ->
  CalFunc.civil_from_unix (86400 * n + t) =
  (let '(y, m, d) := civil_days n in (y, m, d, t ÷ 3600, (Z.rem t 3600) ÷ 60, Z.rem t 60)).
Proof.
  intros Hn Ht. unfold civil_days, CalFunc.civil_from_unix, rdiv, rrem. cbv zeta.
  replace ((86400 * n + t) ÷ 86400) with n by lia.
  replace (Z.rem (86400 * n + t) 86400) with t by lia.
  replace ((86400 * n) ÷ 86400) with n by lia.
  reflexivity.
Qed.

Definition shift400 (t : Z * Z * Z) : Z * Z * Z := let '(y, m, d) := t in (y + 400, m, d).

Lemma civil_days_400 n : 0 <= n -> civil_days (n + 146097) = shift400 (civil_days n).
Proof.
  intros Hn. unfold civil_days, CalFunc.civil_from_unix, rdiv, rrem. cbv zeta.
  replace ((86400 * (n + 146097)) ÷ 86400) with (n + 146097) by lia.
  replace ((86400 * n) ÷ 86400) with n by lia.
  replace (n + 146097 + 719468) with ((n + 719468) + 146097) by lia.
  set (w := n + 719468). assert (Hw : 719468 <= w) by lia. clearbody w.
  replace (w + 146097 >=? 0) with true by lia. replace (w >=? 0) with true by lia.
  replace ((w + 146097) ÷ 146097) with (w ÷ 146097 + 1) by lia.
  set (era := w ÷ 146097).
  replace (w + 146097 - (era + 1) * 146097) with (w - era * 146097) by lia.
  set (doe := wrap_u 32 (w - era * 146097)).
  set (yoe := (doe - doe ÷ 1460 + doe ÷ 36524 - doe ÷ 146096) ÷ 365).
  replace (yoe + (era + 1) * 400) with ((yoe + era * 400) + 400) by lia.
  set (y0 := yoe + era * 400).
  set (doy := doe - (365 * yoe + yoe ÷ 4 - yoe ÷ 100)).
  set (mp := (5 * doy + 2) ÷ 153).
  destruct (mp <? 10); [destruct (mp + 3 <=? 2) | destruct (mp - 9 <=? 2)]; unfold shift400; f_equal; f_equal; lia.
Qed.

Lemma lift_400_from lo (Q : Z -> Prop) :
  (forall y, lo <= y <= lo + 399 -> Q y) -> (forall y, lo <= y -> Q y -> Q (y + 400)) ->
  forall y, lo <= y -> Q y.
Proof.
  intros Hbase Hstep y Hy.
  replace y with ((y - lo + 1) + (lo - 1)) by lia.
  apply (lift_400 (fun k => Q (k + (lo - 1)))); [| | lia].
  - intros k Hk. apply Hbase. lia.
  - intros k Hk HQ. replace (k + 400 + (lo - 1)) with ((k + (lo - 1)) + 400) by lia. apply Hstep; [lia | exact HQ].
Qed.

Lemma sweep_civil :
  all_dates (fun y m d => triple_eqb (civil_days (epoch_fast y m d)) (y, m, d)) 1970 2369 = true.
Proof. vm_compute. reflexivity. Qed.

Lemma epoch_fast_nonneg y m d : 1970 <= y -> 1 <= m <= 12 -> 1 <= d -> 0 <= epoch_fast y m d.
Proof.
  intros Hy Hm Hd. unfold epoch_fast, rata_fast, dby_closed, dbm_table.
  destruct (is_leap y);
  repeat match goal with |- context [if ?c then _ else _] => destruct c end; lia.
Qed.

Lemma civil_base y m d : 1970 <= y <= 2369 -> valid_date y m d = true ->
  civil_days (epoch_fast y m d) = (y, m, d).
Proof.
  intros Hy Hv.
  pose proof (all_dates_lift _ 1970 2369 sweep_civil y m d Hy Hv) as H.
  cbv beta in H. apply triple_eqb_eq. exact H.
Qed.

Lemma civil_fast y : 1970 <= y -> forall m d, valid_date y m d = true ->
  civil_days (epoch_fast y m d) = (y, m, d).
Proof.
  revert y. apply (lift_400_from 1970 (fun y => forall m d, valid_date y m d = true ->
     civil_days (epoch_fast y m d) = (y, m, d))).
  - intros y Hy m d Hv. apply civil_base; [lia | exact Hv].
  - intros y Hy IH m d Hv. rewrite valid_date_400 in Hv.
    destruct (valid_ranges _ _ _ Hv) as [Hm Hd].
    unfold epoch_fast. rewrite rata_fast_400.
    replace (rata_fast y m d + 146097 - 719162) with (epoch_fast y m d + 146097) by (unfold epoch_fast; lia).
    rewrite civil_days_400 by (apply epoch_fast_nonneg; lia).
    rewrite (IH m d Hv). reflexivity.
Qed.

Lemma civil_safe_l secs : 0 <= secs <= 300000000000 -> CalFunc.civil_from_unix_safe secs = true.
Proof.
  intros Hs. unfold CalFunc.civil_from_unix_safe, rdiv, rrem. cbv zeta.
  set (n := secs ÷ 86400). assert (Hn : 0 <= n <= 3472223) by lia. clearbody n.
  set (t := Z.rem secs 86400). assert (Ht : 0 <= t < 86400) by lia. clearbody t.
  set (t1 := t ÷ 3600). assert (Ht1 : 0 <= t1 < 24) by lia. clearbody t1.
  set (t2 := Z.rem t 3600). assert (Ht2 : 0 <= t2 < 3600) by lia. clearbody t2.
  set (t3 := t2 ÷ 60). assert (Ht3 : 0 <= t3 < 60) by lia. clearbody t3.
  set (t4 := t ÷ 60). assert (Ht4 : 0 <= t4 < 1440) by lia. clearbody t4.
  replace (n + 719468 >=? 0) with true by lia.
  set (w := n + 719468). assert (Hw : 719468 <= w <= 4200000) by lia. clearbody w.
  set (era := w ÷ 146097). assert (He : 0 <= era <= 30 /\ 0 <= w - era * 146097 < 146097) by lia.
  rewrite (wrap_u32_small (w - era * 146097)) by lia.
  set (doe := w - era * 146097). assert (Hd : 0 <= doe < 146097) by lia. clearbody doe. clearbody era.
  set (q1 := doe ÷ 1460). assert (Hq1 : 0 <= q1 <= 100 /\ 1460 * q1 <= doe < 1460 * q1 + 1460) by lia. clearbody q1.
  set (q2 := doe ÷ 36524). assert (Hq2 : 0 <= q2 <= 4 /\ 36524 * q2 <= doe < 36524 * q2 + 36524) by lia. clearbody q2.
  set (q3 := doe ÷ 146096). assert (Hq3 : 0 <= q3 <= 1 /\ 146096 * q3 <= doe < 146096 * q3 + 146096) by lia. clearbody q3.
  set (yoe := (doe - q1 + q2 - q3) ÷ 365).
  assert (Hy : 0 <= yoe <= 399 /\ 365 * yoe <= doe - q1 + q2 - q3 < 365 * yoe + 365) by lia. clearbody yoe.
  set (y4 := yoe ÷ 4). assert (Hy4 : 4 * y4 <= yoe < 4 * y4 + 4) by lia. clearbody y4.
  set (y100 := yoe ÷ 100). assert (Hy100 : 100 * y100 <= yoe < 100 * y100 + 100) by lia. clearbody y100.
  set (doy := doe - (365 * yoe + y4 - y100)).
  assert (Hdoy : 0 <= doy <= 365) by lia. clearbody doy.
  set (mp := (5 * doy + 2) ÷ 153). assert (Hmp : 0 <= mp <= 11 /\ 153 * mp <= 5 * doy + 2 < 153 * mp + 153) by lia. clearbody mp.
  set (e5 := (153 * mp + 2) ÷ 5). assert (He5 : 0 <= e5 <= 400 /\ 5 * e5 <= 153 * mp + 2 < 5 * e5 + 5) by lia. clearbody e5.
  destruct (mp <? 10) eqn:E1; [destruct (mp + 3 <=? 2) eqn:E2 | destruct (mp - 9 <=? 2) eqn:E2];
  repeat rewrite andb_true_iff; rewrite ?in_s64, ?in_u32; repeat split; lia.
Qed.

Lemma civil_correct_l y m d h mi s :
  1970 <= y <= 9999 -> valid_date y m d = true -> 0 <= h < 24 -> 0 <= mi < 60 -> 0 <= s < 60 ->
  CalFunc.civil_from_unix (86400 * epoch_days y m d + (3600 * h + 60 * mi + s)) = (y, m, d, h, mi, s) /\
  CalFunc.civil_from_unix_safe (86400 * epoch_days y m d + (3600 * h + 60 * mi + s)) = true.
Proof.
  intros Hy Hv Hh Hmi Hs. destruct (valid_ranges _ _ _ Hv) as [Hm Hd].
  assert (He : epoch_days y m d = epoch_fast y m d).
  { unfold epoch_days, epoch_fast. rewrite rata_1970, rata_fast_ok by lia. reflexivity. }
  rewrite He. pose proof (epoch_fast_nonneg y m d ltac:(lia) Hm ltac:(lia)) as Hn.
  assert (Hub : epoch_fast y m d <= 3000000).
  { unfold epoch_fast, rata_fast, dby_closed, dbm_table. destruct (is_leap y);
    repeat match goal with |- context [if ?c then _ else _] => destruct c end; lia. }
  split.
  - rewrite civil_split by lia. rewrite civil_fast by (lia || assumption).
    f_equal; [f_equal; [f_equal|]|]; lia.
  - apply civil_safe_l. lia.
Qed.
