(* C20 correspondence: judge what the implementation returned (written by harness/src/bin/c20.rs as
   `case` terms) against the models (Model/Arith.v, StrFun.v, DateFun.v, Cast.v: [model_agrees]) and against
   the property's own oracle ([spec_ok]: exact integers, character-level string functions, the calendar).
   [known_class] is the recorded-finding class of the INPUT (0 = none).  Evaluated by vm_compute; definitions only. *)
From Coq Require Import ZArith List Bool.
From TV Require Export Lib.MachInt Model.Arith Model.Utf8 Model.StrFun Model.DateFun Model.Cast.
Import ListNotations.
Open Scope Z_scope.

(* CArith e o1 o2       : `SELECT <e>` and `SELECT <e> FROM one` (a one-row table) showed o1 / o2
   CNum f args dir sql  : the function called directly (eval_function) and through `SELECT f(args)` *)
(* what the SQL path showed relative to the direct call: the same (a None shown as NULL), something else,
   or not run (the argument cannot be written as a plain SQL string literal) *)
Inductive sqlobs := Same | Obs (o : out) | NoSql.

(* CStr / CDate: a string / date function called directly and through `SELECT f(args)` *)
Inductive case :=
| CArith (e : expr) (o1 o2 : out)
| CNum (f : nfn) (args : list val) (direct sql : out)
| CStr (f : sfn) (args : list val) (direct : out) (sql : sqlobs)
| CDate (f : dfn) (args : list darg) (direct : out) (sql : sqlobs)
| CCast (k : castk) (v : val) (sql : out)        (* SELECT CAST(v AS ...) *)
| CFlt (id : Z) (n : Z) (direct : out).          (* float identity number id on the integer-valued float n: sampled, no model *)

Definition v_eqb (a b : val) : bool :=
  match a, b with
  | VNull, VNull => true
  | VInt x, VInt y => x =? y
  | VFltI x, VFltI y => x =? y
  | VText x, VText y => zlist_eqb x y
  | VOther, VOther => true
  | _, _ => false
  end.

Definition out_eqb (a b : out) : bool :=
  match a, b with
  | OVal x, OVal y => v_eqb x y
  | ONone, ONone => true
  | OPanic, OPanic => true
  | OErr, OErr => true
  | _, _ => false                 (* OFuel / OUnmod never agree with anything observed *)
  end.

Definition sql_agrees (model : out) (s : sqlobs) : bool :=
  match s with
  | Same | NoSql => true                       (* Same: equal to the direct call, which is compared with the model *)
  | Obs o => out_eqb (to_sql model) o
  end.

Definition sql_ok (x : sres) (s : sqlobs) : bool :=
  match s with Obs o => str_obs_ok x o | _ => true end.

(* identities that hold for every libm: arguments and results are integer-valued floats (exactly representable) *)
Definition flt_exact (id n : Z) : xres :=
  if 67108864 <? Z.abs n then XAny else
  match id with
  | 0 => XInt n                       (* POWER(n, 1) *)
  | 1 => XInt (Z.abs n)               (* SQRT(n * n) *)
  | 2 => XInt (Z.abs n)               (* ABS(n) *)
  | 3 | 4 | 5 => XInt n               (* CEIL(n) FLOOR(n) ROUND(n) *)
  | 6 => XInt 1                       (* EXP(0) *)
  | 7 => XInt 0                       (* LN(1) *)
  | 8 => XInt 0                       (* SIN(0) *)
  | 9 => XInt 1                       (* COS(0) *)
  | 10 => if 0 <? n then XNullP else XAny     (* SQRT(-n) *)
  | 11 => if 0 <=? n then XNullP else XAny    (* LN(-n) *)
  | 12 => XNullP                      (* MOD(n, 0.0) *)
  | 13 => XInt (n * n)                (* POWER(n, 2) *)
  | 14 => XInt (Z.sgn n)              (* SIGN(n) *)
  | _ => XAny
  end.

Definition model_agrees (c : case) : bool :=
  match c with
  | CArith e o1 o2 => wf e && out_eqb (to_sql (eval e)) o1 && out_eqb (to_sql (eval e)) o2
  | CNum f args d s => out_eqb (eval_nfn f args) d && out_eqb (to_sql (eval_nfn f args)) s
  | CStr f args d s => out_eqb (eval_sfn f args) d && sql_agrees (eval_sfn f args) s
  | CDate f args d s => out_eqb (eval_dfn f args) d && sql_agrees (eval_dfn f args) s
  | CCast k v s => out_eqb (to_sql (eval_cast k v)) s
  | CFlt _ _ _ => true
  end.

Definition spec_ok (c : case) : bool :=
  match c with
  | CArith e o1 o2 => obs_ok (exact e) o1 && obs_ok (exact e) o2
  | CNum f args d s => fn_obs_ok (fn_exact f args) (to_sql d) && fn_obs_ok (fn_exact f args) s
  | CStr f args d s => str_obs_ok (str_exact f args) (to_sql d) && sql_ok (str_exact f args) s
  | CDate f args d s => str_obs_ok (date_exact f args) (to_sql d) && sql_ok (date_exact f args) s
  | CCast k v s => str_obs_ok (cast_exact k v) s
  | CFlt id n d => fn_obs_ok (flt_exact id n) (to_sql d)
  end.

Definition known_class (c : case) : Z :=
  match c with
  | CArith e _ _ => arith_class e
  | CNum f args _ _ => nfn_class f args
  | CStr _ _ _ _ => 0
  | CDate _ _ _ _ => 0
  | CCast _ _ _ => 0
  | CFlt _ _ _ => 0
  end.

Fixpoint failures_from (i : Z) (cs : list case) : list (Z * bool * bool * Z) :=
  match cs with
  | [] => []
  | c :: t =>
      let m := model_agrees c in
      let s := spec_ok c in
      if m && s then failures_from (i + 1) t else (i, m, s, known_class c) :: failures_from (i + 1) t
  end.
Definition failures := failures_from 0.
