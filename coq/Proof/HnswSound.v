(* Proof/HnswSound.v -- the property's clauses for histories in which no node has been deleted
   (class 0), the refutation witnesses for the other classes, and reopen. *)
From Coq Require Import ZArith List Bool Lia Permutation Sorted.
From TV Require Import Model.Hnsw Proof.HnswHeap Proof.HnswSearch Proof.HnswFuel Proof.HnswGraph Proof.HnswInv Proof.HnswInv0 Proof.HnswExt.
Import ListNotations.
Open Scope Z_scope.

(* search_shape with a predicate that holds of every id the search can reach *)
Lemma search_shape_P : forall p getv s q k ef l (P : Z -> Prop),
  (forall e, entry s = Some e -> P e) -> links_in s P ->
  search p getv s q k ef = SOk l -> 0 <= k ->
  (l = [] /\ entry s = None) \/
  exists out : list cand,
    l = flat_map (result_of s) out /\
    Z.of_nat (length out) <= k /\ asc out /\ NoDup (map cid out) /\
    (forall x, In x out -> cd x = cd_search s getv q (cid x)) /\
    (forall x, In x out -> P (cid x)) /\
    (0 < ef -> 0 < k -> out <> []).
Proof.
  intros p getv s q k ef l P He HL Hs Hk. unfold search in Hs.
  destruct (negb (Z.of_nat (length q) =? dims p)); [discriminate|].
  destruct (entry s) as [ep|] eqn:Ee; [|inversion Hs; auto].
  destruct (ep <? 0); [discriminate|].
  destruct (descend (Z.to_nat (maxlvl s)) (maxlvl s) s (cd_search s getv q) ep (cd_search s getv q ep)) as [cur d] eqn:Ed.
  pose proof (descend_cd _ _ _ _ _ _ _ _ eq_refl Ed) as Hd.
  assert (Pcur : P cur).
  { eapply descend_ids; [| |exact Ed]; [apply He; auto | apply gn_at_P; auto]. }
  destruct (beam (beam_fuel s) (gn_at s 0) (cd_search s getv q) ef (C cur d)) as [rs|] eqn:Eb; [|discriminate].
  inversion Hs; subst l. clear Hs. right.
  destruct (beam_spec (gn_at s 0) (cd_search s getv q) ef (beam_fuel s) (C cur d) rs Hd Eb) as (B1 & B2 & B3).
  destruct (beam_heap _ _ _ _ _ _ Eb) as (_ & _ & B4).
  destruct (finalize_spec k rs B1 Hk) as (F1 & F2 & F3 & F4 & F5).
  exists (finalize k rs). split; [reflexivity|]. split; [exact F1|]. split; [exact F2|]. split; [auto|].
  split; [auto|]. split.
  - intros x Hx. eapply (beam_ids (gn_at s 0) (cd_search s getv q) ef P); [| |exact Eb|apply F3; exact Hx].
    + intros a b. apply gn_at_P; auto.
    + exact Pcur.
  - intros Hef Hkp Hnil. rewrite Hnil in F5. cbn [length] in F5.
    specialize (B4 Hef). destruct rs; [congruence|]. cbn [length] in F5. lia.
Qed.

(* when every candidate is readable the final filter drops nothing *)
Lemma result_of_all : forall s out, (forall x, In x out -> exists nd, read_node s (cid x) = Some nd) ->
  flat_map (result_of s) out = map (fun c => (row_of s (cid c), cd c)) out.
Proof.
  intros s out. induction out as [|x t IH]; intros H; cbn [flat_map map]; auto.
  rewrite IH by (intros y Hy; apply H; right; auto).
  destruct (H x (or_introl eq_refl)) as [nd Hr]. unfold result_of, row_of. rewrite Hr. reflexivity.
Qed.

Lemma NoDup_map_nth : forall (A B : Type) (f : A -> B) (l : list A) i j a b,
  NoDup (map f l) -> nth_error l i = Some a -> nth_error l j = Some b -> f a = f b -> i = j.
Proof.
  intros A B f l i j a b Hnd Hi Hj Hf.
  assert (Hi' : nth_error (map f l) i = Some (f a)) by (rewrite nth_error_map, Hi; reflexivity).
  assert (Hj' : nth_error (map f l) j = Some (f b)) by (rewrite nth_error_map, Hj; reflexivity).
  rewrite NoDup_nth_error in Hnd. apply Hnd.
  - apply nth_error_Some. congruence.
  - congruence.
Qed.

Lemma rows_nodup : forall w (out : list cand), Inv0 w -> NoDup (map cid out) ->
  (forall x, In x out -> exists nd, read_node (ix w) (cid x) = Some nd) ->
  NoDup (map (fun c => row_of (ix w) (cid c)) out).
Proof.
  intros w out I. induction out as [|x t IHt]; intros Hnd Hrd; cbn [map]; [constructor|].
  cbn [map] in Hnd. inversion Hnd as [|? ? Hnx Hnt]; subst.
  constructor.
  - intros Hin. apply in_map_iff in Hin. destruct Hin as (y & Hy & Hyin).
    destruct (Hrd x (or_introl eq_refl)) as (nx & Rx).
    destruct (Hrd y (or_intror Hyin)) as (ny & Ry).
    unfold row_of in Hy. rewrite Rx, Ry in Hy.
    apply read_node_Some in Rx. apply read_node_Some in Ry.
    destruct Rx as (X0 & Xn & _), Ry as (Y0 & Yn & _).
    assert (Z.to_nat (cid y) = Z.to_nat (cid x)).
    { eapply (NoDup_map_nth _ _ n_row (nodes (ix w))); [apply (i_rows _ I) | exact Yn | exact Xn | exact Hy]. }
    apply Hnx. apply in_map_iff. exists y. split; auto. lia.
  - apply IHt; auto. intros y Hy. apply Hrd. right; auto.
Qed.

Definition live_true (t : list (Z * list Z)) (q : list Z) (l : list (Z * dist)) : Prop :=
  forall r d, In (r, d) l -> exists v, a_get r t = Some v /\ d = Fin (dist2 q v).

(* ---------------------------------------------------------------- soundness and non-emptiness in Inv0 *)
Lemma search_sound_inv0 : forall p w q k ef, Inv0 w -> 0 <= k ->
  match search p (getv_of (tbl w)) (ix w) q k ef with
  | SOk l => Z.of_nat (length l) <= k /\ NoDup (map fst l) /\ res_asc l /\ live_true (tbl w) q l /\
             (tbl w <> [] -> 1 <= k -> 1 <= ef -> l <> [])
  | SErr => Z.of_nat (length q) <> dims p
  | SAbort | SFuel => False
  end.
Proof.
  intros p w q k ef I Hk.
  destruct (search p (getv_of (tbl w)) (ix w) q k ef) as [l| | |] eqn:Es.
  - assert (He : forall e, entry (ix w) = Some e -> valid (ix w) e).
    { intros e Ee. pose proof (i_entry _ I) as H. rewrite Ee in H. exact H. }
    destruct (search_shape_P _ _ _ _ _ _ _ (valid (ix w)) He (i_links _ I) Es Hk)
      as [[-> Hnone]|(out & -> & H1 & H2 & H3 & H4 & H5 & H6)].
    + cbn. split; [lia|]. split; [constructor|]. split; [constructor|]. split; [intros r d []|].
      intros Ht _ _. exfalso. pose proof (i_entry _ I) as H. rewrite Hnone in H.
      destruct (tbl w) as [|[r v] t] eqn:Et; [congruence|].
      assert (Hr : a_get r (tbl w) <> None) by (rewrite Et; cbn; rewrite Z.eqb_refl; discriminate).
      apply (i_tbl _ I) in Hr. rewrite H in Hr. destruct Hr.
    + (* every result is a readable node whose row is in the table *)
      assert (Hnode : forall x, In x out -> exists nd v, read_node (ix w) (cid x) = Some nd /\
                 a_get (n_row nd) (tbl w) = Some v /\ cd x = Fin (dist2 q v)).
      { intros x Hx. destruct (valid_read w (cid x) I (H5 x Hx)) as [nd Hr].
        assert (Hin : In (n_row nd) (map n_row (nodes (ix w)))).
        { apply read_node_Some in Hr. destruct Hr as (_ & Hn & _). apply in_map. eapply nth_error_In; eauto. }
        apply (i_tbl _ I) in Hin. destruct (a_get (n_row nd) (tbl w)) as [v|] eqn:Ev; [|congruence].
        exists nd, v. split; auto. split; auto. rewrite (H4 x Hx). unfold cd_search, getv_of. rewrite Hr, Ev. auto. }
      rewrite (result_of_all (ix w) out) by (intros x Hx; destruct (Hnode x Hx) as (nd & v & Hr & _); eauto).
      rewrite map_length. split; [exact H1|]. split; [|split; [|split]].
      * rewrite map_map. cbn [fst]. apply rows_nodup; auto.
        intros x Hx. destruct (Hnode x Hx) as (nd & v & Hr & _). eauto.
      * eapply sorted_map; [|exact H2]. intros a b Hab. exact Hab.
      * intros r d Hin. apply in_map_iff in Hin. destruct Hin as (x & Hx & Hxin).
        destruct (Hnode x Hxin) as (nd & v & Rn & Ev & Hc).
        injection Hx as Hr Hd. unfold row_of in Hr. rewrite Rn in Hr. subst r d. exists v. auto.
      * intros _ Hk1 Hef1 Hnil. apply map_eq_nil in Hnil. revert Hnil. apply H6; lia.
  - unfold search in Es.
    destruct (Z.eqb_spec (Z.of_nat (length q)) (dims p)) as [Heq|Hne]; cbn [negb] in Es; [|exact Hne].
    destruct (entry (ix w)) as [ep|]; [|discriminate]. destruct (ep <? 0); [discriminate|].
    destruct (descend _ _ _ _ _ _) as [cur d].
    destruct (beam _ _ _ _ _); discriminate.
  - (* SAbort: the entry point is a valid id *)
    unfold search in Es.
    destruct (negb (Z.of_nat (length q) =? dims p)); [discriminate|].
    pose proof (i_entry _ I) as H.
    destruct (entry (ix w)) as [ep|]; [|discriminate].
    destruct (Z.ltb_spec ep 0); [destruct H; lia|].
    destruct (descend _ _ _ _ _ _) as [cur d].
    destruct (beam _ _ _ _ _); discriminate.
  - exact (search_never_out_of_fuel _ _ _ _ _ _ Es).
Qed.

(* ---------------------------------------------------------------- stated for histories *)
Lemma search_sound_l : forall p ops q k ef,
  wf_ops p w0 ops = true -> class_of (ix (run0 p ops)) = 0 -> 0 <= k ->
  match search p (getv_of (tbl (run0 p ops))) (ix (run0 p ops)) q k ef with
  | SOk l => Z.of_nat (length l) <= k /\ NoDup (map fst l) /\ res_asc l /\ live_true (tbl (run0 p ops)) q l
  | SErr => Z.of_nat (length q) <> dims p
  | SAbort | SFuel => False
  end.
Proof.
  intros p ops q k ef Hwf Hc Hk.
  assert (Hcl : any_inactive (ix (run0 p ops)) = false).
  { unfold class_of in Hc. destruct (entry_dead _); [discriminate|]. destruct (any_inactive _); [discriminate | auto]. }
  pose proof (search_sound_inv0 p (run0 p ops) q k ef (inv0_reached p ops Hwf Hcl) Hk) as H.
  destruct (search _ _ _ _ _ _); auto. destruct H as (A & B & C & D & _). auto.
Qed.

Lemma search_nonempty_l : forall p ops q k ef l,
  wf_ops p w0 ops = true -> class_of (ix (run0 p ops)) = 0 ->
  tbl (run0 p ops) <> [] -> 1 <= k -> 1 <= ef ->
  search p (getv_of (tbl (run0 p ops))) (ix (run0 p ops)) q k ef = SOk l -> l <> [].
Proof.
  intros p ops q k ef l Hwf Hc Ht Hk Hef Hs.
  assert (Hcl : any_inactive (ix (run0 p ops)) = false).
  { unfold class_of in Hc. destruct (entry_dead _); [discriminate|]. destruct (any_inactive _); [discriminate | auto]. }
  pose proof (search_sound_inv0 p (run0 p ops) q k ef (inv0_reached p ops Hwf Hcl) ltac:(lia)) as H.
  rewrite Hs in H. destruct H as (_ & _ & _ & _ & E). auto.
Qed.

(* in such histories insert fails only for a vector of the wrong dimension, and then changes nothing *)
Lemma insert_ok_l : forall p ops row v lvl blind,
  wf_ops p w0 (ops ++ [Ins row v lvl blind]) = true -> class_of (ix (run0 p ops)) = 0 ->
  Z.of_nat (length v) = dims p ->
  snd (step p (run0 p ops) (Ins row v lvl blind)) = OIns true.
Proof.
  intros p ops row v lvl blind Hwf Hc Hd.
  assert (Hcl : any_inactive (ix (run0 p ops)) = false).
  { unfold class_of in Hc. destruct (entry_dead _); [discriminate|]. destruct (any_inactive _); [discriminate | auto]. }
  assert (Hsplit : forall ops1 w o, wf_ops p w (ops1 ++ [o]) = true ->
            wf_ops p w ops1 = true /\ op_wf (fst (run p w ops1)) o = true).
  { induction ops1 as [|o1 t IH]; intros w o H; cbn [app wf_ops run] in *.
    - rewrite andb_true_r in H. auto.
    - apply andb_prop in H. destruct H as [H1 H2]. apply IH in H2.
      destruct (step p w o1) as [w1 b]. cbn [fst] in *. destruct (run p w1 t) as [w2 bs]. cbn [fst] in *.
      rewrite H1. cbn. auto. }
  destruct (Hsplit ops w0 _ Hwf) as [Hwf1 Hop].
  fold (run0 p ops) in Hop. cbn [op_wf] in Hop.
  destruct (a_get row (tbl (run0 p ops))) eqn:Et; [discriminate|].
  pose proof (inv0_insert p (run0 p ops) (if blind then fun _ : Z => None else getv_of (tbl (run0 p ops))) row v lvl
                (inv0_reached p ops Hwf1 Hcl) Et) as A.
  cbn [step].
  destruct (insert p _ (ix (run0 p ops)) row v lvl) as [s'|s'|] eqn:Ei; cbn [snd]; auto; [|contradiction].
  exfalso. unfold insert in Ei. rewrite Hd, Z.eqb_refl in Ei. cbn [negb] in Ei.
  (* an IErr past the dimension check returns a state with one more node *)
  subst s'.
  assert (Hlen : forall r, r = IErr (ix (run0 p ops)) -> False -> False) by auto.
  revert Ei. generalize (ix (run0 p ops)) as s. intros s Ei.
  assert (G : forall s2, ext (appended s row lvl) s2 -> s2 <> s).
  { intros s2 E Heq. pose proof (ext_len _ _ E) as L. rewrite Heq in L. unfold appended in L. cbn [nodes] in L.
    rewrite app_length in L. cbn in L. lia. }
  fold (appended s row lvl) in Ei.
  change (entry (appended s row lvl)) with (entry s) in Ei.
  destruct (entry s) as [ep|]; [|discriminate].
  destruct (read_node (appended s row lvl) ep) as [epn|].
  - destruct (descend _ _ _ _ _ _) as [e' d'].
    destruct (connect _ _ _ _ _ _) as [todo|]; [|discriminate].
    pose proof (apply_levels_spec todo (appended s row lvl) (Z.of_nat (length (nodes s))) (fun _ => True)) as Sp.
    destruct (apply_levels _ _ todo) as [s2|s2|]; try discriminate.
    destruct Sp as [E _]; try (repeat intro; exact I).
    inversion Ei as [Heq]. exact (G s2 E Heq).
  - inversion Ei as [Heq]. exact (G _ (ext_refl _) Heq).
Qed.

(* ---------------------------------------------------------------- reopen *)
Lemma reopen_search_l : forall p getv s q k ef,
  search p getv s q k ef <> SAbort ->
  search p getv (reopen s) q k ef = search p getv s q k ef.
Proof.
  intros p getv s q k ef Hna.
  destruct (negb (Z.of_nat (length q) =? dims p)) eqn:Ed.
  - unfold search. rewrite Ed. reflexivity.
  - destruct (entry s) as [ep|] eqn:Ee.
    + destruct (ep <? 0) eqn:El.
      * exfalso. apply Hna. unfold search. rewrite Ed, Ee, El. reflexivity.
      * apply search_graph_only; auto. unfold reopen. cbn [entry]. rewrite Ee, El. reflexivity.
    + apply search_graph_only; auto. unfold reopen. cbn [entry]. rewrite Ee. reflexivity.
Qed.

(* ---------------------------------------------------------------- refutation witnesses *)
Definition wit_p : params := Pm 2 2 4.
Definition wit1 : list op := [Ins 1 [0;0] 0 false; Ins 2 [3;4] 0 false; Del 2].
Definition wit2 : list op := [Ins 1 [0;0] 0 false; Ins 2 [3;4] 0 false; Del 1; Vac 10; Reopen].
Definition wit3 : list op := [Ins 1 [0;0] 0 false; Ins 2 [3;4] 0 false; Del 2; Ins 3 [1;1] 0 false].

(* HISTORICAL (F-C25-1 as first recorded, repaired by /repo 68d5b43): on this history search used to
   report the deleted node as (row 0, +inf); it is dropped now and the result is sound *)
Lemma phantom_result_fixed_l :
  wf_ops wit_p w0 wit1 = true /\ class_of (ix (run0 wit_p wit1)) = 1 /\ clean wit_p w0 wit1 = true /\
  search wit_p (getv_of (tbl (run0 wit_p wit1))) (ix (run0 wit_p wit1)) [0;0] 2 4 = SOk [(1, Fin 0)].
Proof. vm_compute. repeat split. Qed.

(* class 1, what survives of F-C25-1: the deleted node is still linked and unreadable, so the next insert
   selects it, fails half way (Err) and leaves its own node linked and readable: search then reports
   row 3, which the caller was told is not in the index, with distance +inf *)
Lemma search_live_refuted_l :
  wf_ops wit_p w0 wit3 = true /\ class_of (ix (run0 wit_p wit3)) = 1 /\ clean wit_p w0 wit3 = false /\
  snd (step wit_p (run0 wit_p wit1) (Ins 3 [1;1] 0 false)) = OIns false /\
  search wit_p (getv_of (tbl (run0 wit_p wit3))) (ix (run0 wit_p wit3)) [0;0] 5 8 = SOk [(1, Fin 0); (3, Inf)] /\
  a_get 3 (tbl (run0 wit_p wit3)) = None.
Proof. vm_compute. repeat split. Qed.

(* class 2: the entry point is deleted: nothing is returned although row 2 is live -- also after
   vacuum and reopen -- and the next insert fails *)
Lemma search_nonempty_refuted_l :
  wf_ops wit_p w0 wit2 = true /\ class_of (ix (run0 wit_p wit2)) = 2 /\ clean wit_p w0 wit2 = true /\
  a_get 2 (tbl (run0 wit_p wit2)) = Some [3;4] /\
  search wit_p (getv_of (tbl (run0 wit_p wit2))) (ix (run0 wit_p wit2)) [3;4] 2 4 = SOk [] /\
  snd (step wit_p (run0 wit_p wit2) (Ins 3 [1;1] 0 false)) = OIns false.
Proof. vm_compute. repeat split. Qed.

(* class 1 without any failed insert: the deleted node is a dead end of the traversal, so a live vector
   behind it is not found although the whole index (3 nodes) fits into the search width *)
Definition wit_p1 : params := Pm 2 2 1.
Definition wit4 : list op := [Ins 1 [2;0] 0 false; Ins 2 [4;0] 0 false; Ins 3 [6;0] 0 false; Del 2].
Lemma small_index_complete_refuted_l :
  wf_ops wit_p1 w0 wit4 = true /\ class_of (ix (run0 wit_p1 wit4)) = 1 /\ clean wit_p1 w0 wit4 = true /\
  length (nodes (ix (run0 wit_p1 wit4))) = 3%nat /\
  a_get 3 (tbl (run0 wit_p1 wit4)) = Some [6;0] /\
  search wit_p1 (getv_of (tbl (run0 wit_p1 wit4))) (ix (run0 wit_p1 wit4)) [0;0] 100 64 = SOk [(1, Fin 4)].
Proof. vm_compute. repeat split. Qed.

(* class 3 (no delete at all): neighbour lists have a fixed capacity (32 at level 0) and a back-link to a
   full node is silently dropped instead of pruning.  With m = 16 the first 33 nodes are all linked to
   each other (32 neighbours each, all full); the 34th node links to 32 of them but none links back:
   it can never be reached, not even by a search for its own vector with width 64 >= 34 nodes *)
Definition wit_p5 : params := Pm 2 16 100.
Definition wit5 : list op := [Ins 1 [1;0] 0 false; Ins 2 [2;0] 0 false; Ins 3 [3;0] 0 false; Ins 4 [4;0] 0 false; Ins 5 [5;0] 0 false; Ins 6 [6;0] 0 false; Ins 7 [7;0] 0 false; Ins 8 [8;0] 0 false; Ins 9 [9;0] 0 false; Ins 10 [10;0] 0 false; Ins 11 [11;0] 0 false; Ins 12 [12;0] 0 false; Ins 13 [13;0] 0 false; Ins 14 [14;0] 0 false; Ins 15 [15;0] 0 false; Ins 16 [16;0] 0 false; Ins 17 [17;0] 0 false; Ins 18 [18;0] 0 false; Ins 19 [19;0] 0 false; Ins 20 [20;0] 0 false; Ins 21 [21;0] 0 false; Ins 22 [22;0] 0 false; Ins 23 [23;0] 0 false; Ins 24 [24;0] 0 false; Ins 25 [25;0] 0 false; Ins 26 [26;0] 0 false; Ins 27 [27;0] 0 false; Ins 28 [28;0] 0 false; Ins 29 [29;0] 0 false; Ins 30 [30;0] 0 false; Ins 31 [31;0] 0 false; Ins 32 [32;0] 0 false; Ins 33 [33;0] 0 false; Ins 34 [34;0] 0 false].
Lemma backlink_dropped_refuted_l :
  wf_ops wit_p5 w0 wit5 = true /\ class_of (ix (run0 wit_p5 wit5)) = 3 /\ clean wit_p5 w0 wit5 = true /\
  length (nodes (ix (run0 wit_p5 wit5))) = 34%nat /\
  a_get 34 (tbl (run0 wit_p5 wit5)) = Some [34;0] /\
  match search wit_p5 (getv_of (tbl (run0 wit_p5 wit5))) (ix (run0 wit_p5 wit5)) [34;0] 100 64 with
  | SOk l => length l = 33%nat /\ mem 34 (map fst l) = false
  | _ => False
  end.
Proof. vm_compute. repeat split. Qed.
