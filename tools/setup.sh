#!/bin/sh
# Build the framework from files on disk only (offline): regenerate coq/Gen from /repo,
# full .vo build of the Rocq development, cargo build of the harness against /repo with hooks on.
set -e
cd "$(dirname "$0")/.."
export CARGO_NET_OFFLINE=true
mkdir -p build evidence replay
python3 tools/rs2v.py "${VERIF_REPO:-/repo}" || echo "setup: translator reported a failure (checks will report it)"
cd coq
python3 ../tools/mkcoqproject.py && coq_makefile -f _CoqProject -o Makefile
timeout 3000 make -j16 -k || echo "setup: some Coq files failed to build (checks will report it)"
cd ../harness
[ -f Cargo.lock ] || cp "${VERIF_REPO:-/repo}/Cargo.lock" Cargo.lock
cargo build --offline --bins
