(* UTF-8 round trips for Model/Utf8.v. *)
From Coq Require Import ZArith List Bool Lia ZifyBool.
From TV Require Import Lib.MachInt Lib.MachIntFacts Model.Utf8.
Import ListNotations.
Open Scope Z_scope.

Ltac Zify.zify_post_hook ::= Z.to_euclidean_division_equations.

Arguments Z.div : simpl never.
Arguments Z.modulo : simpl never.
Arguments Z.mul : simpl never.
Arguments Z.add : simpl never.
Arguments Z.sub : simpl never.
Arguments Z.leb : simpl never.
Arguments Z.ltb : simpl never.

Lemma cp_ok_true c : cp_ok c = true <-> (0 <= c <= 1114111 /\ ~ (55296 <= c <= 57343)).
Proof. unfold cp_ok. lia. Qed.

Lemma is_cont_true b : is_cont b = true <-> 128 <= b <= 191.
Proof. unfold is_cont. lia. Qed.

Ltac take_if :=
  match goal with
  | |- context [if ?c then _ else _] => first [ replace c with true by lia | replace c with false by lia ]
  end.

(* decoding the encoding of one scalar value in front of anything *)
Lemma decode_encode_cp c rest : cp_ok c = true ->
  decode_utf8 (encode_cp c ++ rest) = option_map (cons c) (decode_utf8 rest).
Proof.
  intros Hc. apply cp_ok_true in Hc. destruct Hc as [Hr Hs].
  unfold encode_cp.
  destruct (Z.ltb_spec c 128) as [H1|H1].
  { cbn [app decode_utf8]. take_if. reflexivity. }
  destruct (Z.ltb_spec c 2048) as [H2|H2].
  { cbn [app decode_utf8]. unfold is_cont. repeat take_if.
    replace ((192 + c / 64 - 192) * 64 + (128 + c mod 64 - 128)) with c by lia. reflexivity. }
  destruct (Z.ltb_spec c 65536) as [H3|H3].
  { cbn [app decode_utf8]. unfold is_cont.
    replace ((224 + c / 4096 - 224) * 4096 + (128 + (c / 64) mod 64 - 128) * 64 + (128 + c mod 64 - 128)) with c by lia.
    repeat take_if. reflexivity. }
  cbn [app decode_utf8]. unfold is_cont.
  replace ((240 + c / 262144 - 240) * 262144 + (128 + (c / 4096) mod 64 - 128) * 4096 + (128 + (c / 64) mod 64 - 128) * 64 + (128 + c mod 64 - 128)) with c by lia.
  repeat take_if. reflexivity.
Qed.

Lemma cps_ok_cons c t : cps_ok (c :: t) = true <-> cp_ok c = true /\ cps_ok t = true.
Proof. unfold cps_ok. cbn [forallb]. rewrite andb_true_iff. tauto. Qed.

Lemma encode_utf8_cons c t : encode_utf8 (c :: t) = encode_cp c ++ encode_utf8 t.
Proof. reflexivity. Qed.

Lemma encode_utf8_app a b : encode_utf8 (a ++ b) = encode_utf8 a ++ encode_utf8 b.
Proof. unfold encode_utf8. apply flat_map_app. Qed.

Theorem decode_encode_l : forall cps, cps_ok cps = true -> decode_utf8 (encode_utf8 cps) = Some cps.
Proof.
  induction cps as [|c t IH]; intros H; [reflexivity|].
  apply cps_ok_cons in H. destruct H as [Hc Ht].
  rewrite encode_utf8_cons, decode_encode_cp by exact Hc. rewrite IH by exact Ht. reflexivity.
Qed.

(* the encoder produces bytes *)
Lemma encode_cp_bytes c : cp_ok c = true -> bytes_ok (encode_cp c) = true.
Proof.
  intros Hc. apply cp_ok_true in Hc. unfold encode_cp, bytes_ok, is_byte.
  destruct (Z.ltb_spec c 128); [cbn [forallb]; lia|].
  destruct (Z.ltb_spec c 2048); [cbn [forallb]; lia|].
  destruct (Z.ltb_spec c 65536); cbn [forallb]; lia.
Qed.

Lemma bytes_ok_app a b : bytes_ok (a ++ b) = bytes_ok a && bytes_ok b.
Proof. unfold bytes_ok. apply forallb_app. Qed.

Theorem encode_bytes_l : forall cps, cps_ok cps = true -> bytes_ok (encode_utf8 cps) = true.
Proof.
  induction cps as [|c t IH]; intros H; [reflexivity|].
  apply cps_ok_cons in H. destruct H as [Hc Ht].
  rewrite encode_utf8_cons, bytes_ok_app, encode_cp_bytes, IH by assumption. reflexivity.
Qed.

(* the other direction: whatever decodes is the encoding of scalar values *)
Lemma option_map_some {A B} (f : A -> B) o y : option_map f o = Some y -> exists x, o = Some x /\ y = f x.
Proof. destruct o as [x|]; cbn; intros H; [inversion H; eauto|discriminate]. Qed.

Lemma decode_valid_aux : forall n b cps, (length b <= n)%nat -> decode_utf8 b = Some cps ->
  encode_utf8 cps = b /\ cps_ok cps = true.
Proof.
  induction n as [|n IH]; intros b cps Hlen Hd.
  - destruct b; [|cbn in Hlen; lia]. cbn in Hd. inversion Hd. split; reflexivity.
  - destruct b as [|b0 t0]; [cbn in Hd; inversion Hd; split; reflexivity|].
    cbn [decode_utf8] in Hd. cbn [length] in Hlen.
    destruct ((0 <=? b0) && (b0 <? 128)) eqn:A1.
    { apply option_map_some in Hd. destruct Hd as [x [Hx ->]].
      destruct (IH t0 x ltac:(lia) Hx) as [E O]. split.
      - rewrite encode_utf8_cons, E. unfold encode_cp. take_if. reflexivity.
      - apply cps_ok_cons. split; [apply cp_ok_true; lia|exact O]. }
    destruct t0 as [|b1 t1]; [discriminate|]. cbn [length] in Hlen.
    destruct ((194 <=? b0) && (b0 <=? 223)) eqn:A2.
    { destruct (is_cont b1) eqn:C1; [|discriminate]. apply is_cont_true in C1.
      apply option_map_some in Hd. destruct Hd as [x [Hx ->]].
      destruct (IH t1 x ltac:(lia) Hx) as [E O]. split.
      - rewrite encode_utf8_cons, E. unfold encode_cp. repeat take_if. cbn [app].
        f_equal; [lia|]. f_equal. lia.
      - apply cps_ok_cons. split; [apply cp_ok_true; lia|exact O]. }
    destruct t1 as [|b2 t2]; [discriminate|]. cbn [length] in Hlen.
    destruct ((224 <=? b0) && (b0 <=? 239)) eqn:A3.
    { cbv zeta in Hd.
      destruct (is_cont b1 && is_cont b2 && (2048 <=? (b0 - 224) * 4096 + (b1 - 128) * 64 + (b2 - 128)) &&
                negb ((55296 <=? (b0 - 224) * 4096 + (b1 - 128) * 64 + (b2 - 128)) && ((b0 - 224) * 4096 + (b1 - 128) * 64 + (b2 - 128) <=? 57343))) eqn:C; [|discriminate].
      apply andb_true_iff in C. destruct C as [C C4]. apply andb_true_iff in C. destruct C as [C C3].
      apply andb_true_iff in C. destruct C as [C1 C2]. apply is_cont_true in C1. apply is_cont_true in C2.
      apply option_map_some in Hd. destruct Hd as [x [Hx ->]].
      destruct (IH t2 x ltac:(lia) Hx) as [E O]. split.
      - rewrite encode_utf8_cons, E. unfold encode_cp. repeat take_if. cbn [app].
        f_equal; [lia|]. f_equal; [lia|]. f_equal. lia.
      - apply cps_ok_cons. split; [apply cp_ok_true; lia|exact O]. }
    destruct t2 as [|b3 t3]; [discriminate|]. cbn [length] in Hlen.
    destruct ((240 <=? b0) && (b0 <=? 244)) eqn:A4; [|discriminate].
    cbv zeta in Hd.
    destruct (is_cont b1 && is_cont b2 && is_cont b3 &&
              (65536 <=? (b0 - 240) * 262144 + (b1 - 128) * 4096 + (b2 - 128) * 64 + (b3 - 128)) &&
              ((b0 - 240) * 262144 + (b1 - 128) * 4096 + (b2 - 128) * 64 + (b3 - 128) <=? 1114111)) eqn:C; [|discriminate].
    apply andb_true_iff in C. destruct C as [C C5]. apply andb_true_iff in C. destruct C as [C C4].
    apply andb_true_iff in C. destruct C as [C C3]. apply andb_true_iff in C. destruct C as [C1 C2].
    apply is_cont_true in C1. apply is_cont_true in C2. apply is_cont_true in C3.
    apply option_map_some in Hd. destruct Hd as [x [Hx ->]].
    destruct (IH t3 x ltac:(lia) Hx) as [E O]. split.
    + rewrite encode_utf8_cons, E. unfold encode_cp. repeat take_if. cbn [app].
      f_equal; [lia|]. f_equal; [lia|]. f_equal; [lia|]. f_equal. lia.
    + apply cps_ok_cons. split; [apply cp_ok_true; lia|exact O].
Qed.

Theorem decode_valid_l : forall b cps, decode_utf8 b = Some cps -> encode_utf8 cps = b /\ cps_ok cps = true.
Proof. intros b cps. apply (decode_valid_aux (length b)). lia. Qed.

(* byte length of an encoding *)
Lemma blen_encode_cp c : blen (encode_cp c) = cp_width c.
Proof.
  unfold encode_cp, cp_width.
  destruct (c <? 128); [reflexivity|]. destruct (c <? 2048); [reflexivity|]. destruct (c <? 65536); reflexivity.
Qed.

Lemma cp_width_pos c : 1 <= cp_width c <= 4.
Proof. unfold cp_width. destruct (c <? 128); [lia|]. destruct (c <? 2048); [lia|]. destruct (c <? 65536); lia. Qed.

Lemma blen_encode_ge cps : blen cps <= blen (encode_utf8 cps).
Proof.
  induction cps as [|c t IH]; [cbn; lia|].
  rewrite encode_utf8_cons, blen_app, blen_encode_cp, blen_cons. pose proof (cp_width_pos c). lia.
Qed.

Lemma blen_encode_ascii cps : is_ascii cps = true -> encode_utf8 cps = cps.
Proof.
  induction cps as [|c t IH]; intros H; [reflexivity|].
  cbn [is_ascii forallb] in H. apply andb_true_iff in H. destruct H as [Hc Ht].
  rewrite encode_utf8_cons, IH by exact Ht. unfold encode_cp. take_if. reflexivity.
Qed.

Lemma blen_encode_eq_ascii cps : cps_ok cps = true -> blen (encode_utf8 cps) = blen cps -> is_ascii cps = true.
Proof.
  induction cps as [|c t IH]; intros Ho H; [reflexivity|].
  apply cps_ok_cons in Ho. destruct Ho as [Hc Ht]. apply cp_ok_true in Hc.
  rewrite encode_utf8_cons, blen_app, blen_encode_cp, blen_cons in H.
  pose proof (blen_encode_ge t) as G. pose proof (cp_width_pos c) as W.
  assert (W1 : cp_width c = 1) by lia.
  unfold is_ascii. cbn [forallb]. apply andb_true_iff. split; [|apply (IH Ht); lia].
  unfold cp_width in W1. destruct (Z.ltb_spec c 128); [lia|destruct (c <? 2048); [lia|destruct (c <? 65536); lia]].
Qed.
