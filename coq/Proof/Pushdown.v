(* When may a filter be pushed below a join?  (reference semantics, Model/Pushdown.v)
   pushdown_left_sound / pushdown_right_sound: a predicate that mentions only one input can be
   evaluated on that input before the join, for CROSS / INNER joins and on the PRESERVED side of
   an outer join -- the plans return the same rows (as lists).
   Under the NULL-supplying side of an outer join, and for FULL joins, the push changes the result
   (pushdown_outer_unsound, pushdown_full_unsound), and so does a push decided from the columns
   the rule happened to see (push_blind_refuted): both are what PredicatePushdownRule DID before
   /repo commit 2cb4862; the repaired rule (push_decision) makes sound pushes only
   (push_decision_sound, pushdown_rule_sound). *)
From Coq Require Import ZArith List Bool Lia Permutation.
From TV Require Import Model.SqlSpec Proof.SqlSpecLaws Model.QuerySpec Proof.QueryExprLaws Proof.QueryLawsBase Model.Pushdown.
Import ListNotations.
Open Scope Z_scope.

Lemma or2_snd_false : forall a b, snd (or2 a b) = false -> snd a = false /\ snd b = false.
Proof. intros [a1 a2] [b1 b2] H. cbn in *. now apply orb_false_elim in H. Qed.
Lemma or2_fst_false : forall a b, fst (or2 a b) = false -> fst a = false /\ fst b = false.
Proof. intros [a1 a2] [b1 b2] H. cbn in *. now apply orb_false_elim in H. Qed.

Lemma fold_or2_snd : forall wl (l : list expr) acc,
  snd (fold_right (fun x a => or2 (all_sides wl x) a) acc l) = false ->
  snd acc = false /\ Forall (fun x => snd (all_sides wl x) = false) l.
Proof.
  induction l as [|x l IH]; intros acc H; cbn in *; [split; [assumption|constructor]|].
  apply or2_snd_false in H as [Hx Hl]. destruct (IH _ Hl) as [A F]. split; [assumption|now constructor].
Qed.
Lemma fold_or2_fst : forall wl (l : list expr) acc,
  fst (fold_right (fun x a => or2 (all_sides wl x) a) acc l) = false ->
  fst acc = false /\ Forall (fun x => fst (all_sides wl x) = false) l.
Proof.
  induction l as [|x l IH]; intros acc H; cbn in *; [split; [assumption|constructor]|].
  apply or2_fst_false in H as [Hx Hl]. destruct (IH _ Hl) as [A F]. split; [assumption|now constructor].
Qed.

(* a predicate over the left input only does not look at the right part of the row *)
Lemma eval_only_left : forall wl e, snd (all_sides wl e) = false ->
  forall l r, length l = wl -> eval e (l ++ r) = eval e l.
Proof.
  intros wl e. induction e using expr_ind'; intros S l0 r0 Hl; cbn [all_sides] in S; cbn [eval].
  - destruct (Nat.ltb i wl) eqn:A; [|discriminate]. apply Nat.ltb_lt in A. apply nth_error_app1. lia.
  - reflexivity.
  - apply or2_snd_false in S as [S1 S2]. now rewrite IHe1, IHe2.
  - apply or2_snd_false in S as [S1 S2]. now rewrite IHe1, IHe2.
  - apply or2_snd_false in S as [S1 S2]. now rewrite IHe1, IHe2.
  - apply or2_snd_false in S as [S1 S2]. now rewrite IHe1, IHe2.
  - now rewrite IHe.
  - apply fold_or2_snd in S as [Sa Sl]. rewrite IHe by assumption.
    destruct (eval e l0) as [x|]; [|reflexivity]. do 2 f_equal.
    induction H as [|y l Hy Hl' IHl]; [reflexivity|]. inversion_clear Sl as [|? ? Sy Sl'].
    rewrite (Hy Sy _ _ Hl). destruct (eval y l0); [|reflexivity]. now rewrite (IHl Sl').
  - apply or2_snd_false in S as [S1 S23]. apply or2_snd_false in S23 as [S2 S3]. now rewrite IHe1, IHe2, IHe3.
  - apply or2_snd_false in S as [S1 S2]. now rewrite IHe1, IHe2.
  - now rewrite IHe.
Qed.

(* a predicate over the right input only, renumbered for the right rows *)
Lemma eval_only_right : forall wl e, fst (all_sides wl e) = false ->
  forall l r, length l = wl -> eval (remap (shift_down wl) e) r = eval e (l ++ r).
Proof.
  intros wl e. induction e using expr_ind'; intros S l0 r0 Hl; cbn [all_sides] in S; cbn [remap eval].
  - destruct (Nat.ltb i wl) eqn:A; [discriminate|]. apply Nat.ltb_ge in A. unfold shift_down.
    rewrite nth_error_app2 by lia. now rewrite Hl.
  - reflexivity.
  - apply or2_fst_false in S as [S1 S2]. now rewrite (IHe1 S1 l0), (IHe2 S2 l0).
  - apply or2_fst_false in S as [S1 S2]. now rewrite (IHe1 S1 l0), (IHe2 S2 l0).
  - apply or2_fst_false in S as [S1 S2]. now rewrite (IHe1 S1 l0), (IHe2 S2 l0).
  - apply or2_fst_false in S as [S1 S2]. now rewrite (IHe1 S1 l0), (IHe2 S2 l0).
  - now rewrite (IHe S l0).
  - apply fold_or2_fst in S as [Sa Sl]. rewrite (IHe Sa l0) by assumption.
    destruct (eval e (l0 ++ r0)) as [x|]; [|reflexivity]. do 2 f_equal.
    induction H as [|y l Hy Hl' IHl]; [reflexivity|]. inversion_clear Sl as [|? ? Sy Sl']. cbn [map].
    rewrite (Hy Sy l0 _ Hl). destruct (eval y (l0 ++ r0)); [|reflexivity]. now rewrite (IHl Sl').
  - apply or2_fst_false in S as [S1 S23]. apply or2_fst_false in S23 as [S2 S3].
    now rewrite (IHe1 S1 l0), (IHe2 S2 l0), (IHe3 S3 l0).
  - apply or2_fst_false in S as [S1 S2]. now rewrite (IHe1 S1 l0), (IHe2 S2 l0).
  - now rewrite (IHe S l0).
Qed.

Lemma filter_filter_comm : forall {A} (p q : A -> bool) l, filter p (filter q l) = filter q (filter p l).
Proof.
  induction l as [|x l IH]; cbn; [reflexivity|].
  destruct (q x) eqn:Q, (p x) eqn:P; cbn; rewrite ?P, ?Q, IH; reflexivity.
Qed.

Section Left.
  Variables (on p : expr) (wl wr : nat) (L R : table).
  Hypothesis HL : forall l, In l L -> length l = wl.
  Hypothesis OL : only_left wl p = true.

  Lemma passes_left : forall l r, In l L -> passes p (l ++ r) = passes p l.
  Proof.
    intros l r Hl. unfold passes, sem3. rewrite (eval_only_left wl p); [reflexivity| |now apply HL].
    unfold only_left in OL. now apply negb_true_iff in OL.
  Qed.

  Lemma cross_filter_left : cross (filter (passes p) L) R = filter (passes p) (cross L R).
  Proof.
    unfold cross. rewrite flat_map_filter, filter_flat_map. apply flat_map_ext_in. intros l Hl.
    rewrite filter_map_comm. rewrite (filter_ext_in' (fun r => passes p (l ++ r)) (fun _ => passes p l)).
    2:{ intros r _. now apply passes_left. }
    assert (C : forall (b : bool) (X : table), filter (fun _ => b) X = if b then X else []).
    { intros b X. induction X as [|x X IHX]; cbn; [now destruct b|]. rewrite IHX. now destruct b. }
    rewrite C. now destruct (passes p l).
  Qed.

  Lemma inner_filter_left : inner on (filter (passes p) L) R = filter (passes p) (inner on L R).
  Proof. unfold inner. rewrite cross_filter_left. apply filter_filter_comm. Qed.

  Lemma unmatched_left_filter : unmatched_left on wr (filter (passes p) L) R = filter (passes p) (unmatched_left on wr L R).
  Proof.
    unfold unmatched_left. rewrite flat_map_filter, filter_flat_map. apply flat_map_ext_in. intros l Hl.
    destruct (existsb (fun r => passes on (l ++ r)) R); [now destruct (passes p l)|].
    cbn [filter]. rewrite (passes_left l (nulls wr) Hl). now destruct (passes p l).
  Qed.

  Theorem pushdown_left_sound : forall k, left_push_ok k = true ->
    plan_left k on wl wr L R p = plan_before k on wl wr L R p.
  Proof.
    intros k Hk. unfold plan_left, plan_before. destruct k; try discriminate; cbn [join_spec].
    - apply cross_filter_left.
    - apply inner_filter_left.
    - rewrite filter_app, inner_filter_left, unmatched_left_filter. reflexivity.
  Qed.
End Left.

Section Right.
  Variables (on p : expr) (wl wr : nat) (L R : table).
  Hypothesis HL : forall l, In l L -> length l = wl.
  Hypothesis OR : only_right wl p = true.
  Let p' := remap (shift_down wl) p.

  Lemma passes_right : forall l r, length l = wl -> passes p' r = passes p (l ++ r).
  Proof.
    intros l r Hl. unfold passes, sem3, p'. rewrite (eval_only_right wl p) with (l := l); [reflexivity| |assumption].
    unfold only_right in OR. now apply negb_true_iff in OR.
  Qed.

  Lemma cross_filter_right : cross L (filter (passes p') R) = filter (passes p) (cross L R).
  Proof.
    unfold cross. rewrite filter_flat_map. apply flat_map_ext_in. intros l Hl.
    rewrite filter_map_comm. f_equal. apply filter_ext. intros r. now apply passes_right, HL.
  Qed.

  Lemma inner_filter_right : inner on L (filter (passes p') R) = filter (passes p) (inner on L R).
  Proof. unfold inner. rewrite cross_filter_right. apply filter_filter_comm. Qed.

  Lemma unmatched_right_filter : unmatched_right on wl L (filter (passes p') R) = filter (passes p) (unmatched_right on wl L R).
  Proof.
    unfold unmatched_right. rewrite flat_map_filter, filter_flat_map. apply flat_map_ext. intros r.
    destruct (existsb (fun l => passes on (l ++ r)) L); [now destruct (passes p' r)|].
    cbn [filter]. rewrite <- (passes_right (nulls wl) r (nulls_length wl)). now destruct (passes p' r).
  Qed.

  Theorem pushdown_right_sound : forall k, right_push_ok k = true ->
    plan_right k on wl wr L R p = plan_before k on wl wr L R p.
  Proof.
    intros k Hk. unfold plan_right, plan_before. fold p'. destruct k; try discriminate; cbn [join_spec].
    - apply cross_filter_right.
    - apply inner_filter_right.
    - rewrite filter_app, inner_filter_right, unmatched_right_filter. reflexivity.
  Qed.
End Right.

(* ------------------------------------------------------------------ where the push is wrong *)
(* a LEFT JOIN b ON a.c = b.c WHERE b.c = 2, a = {(1)}, b = {(2)}: the join is {(1, NULL)} and the
   WHERE clause removes it; with the filter pushed onto b the NULL-extended row survives *)
Theorem pushdown_outer_unsound :
  let on := ECmp CEq (ECol 0) (ECol 1) in
  let p := ECmp CEq (ECol 1) (ELit (VInt 2)) in
  only_right 1 p = true /\
  plan_before JLeft on 1 1 [[VInt 1]] [[VInt 2]] p = [] /\
  plan_right JLeft on 1 1 [[VInt 1]] [[VInt 2]] p = [[VInt 1; VNull]].
Proof. cbv zeta. repeat split; vm_compute; reflexivity. Qed.

(* FULL JOIN: a push onto either input is wrong *)
Theorem pushdown_full_unsound :
  let on := ECmp CEq (ECol 0) (ECol 1) in
  let p := ECmp CEq (ECol 0) (ELit (VInt 1)) in
  only_left 1 p = true /\
  plan_before JFull on 1 1 [[VInt 1]; [VInt 3]] [[VInt 3]] p = [[VInt 1; VNull]] /\
  plan_left JFull on 1 1 [[VInt 1]; [VInt 3]] [[VInt 3]] p = [[VInt 1; VNull]; [VNull; VInt 3]].
Proof. cbv zeta. repeat split; vm_compute; reflexivity. Qed.

(* HISTORICAL (before /repo commit 2cb4862, finding F-C19-4): the rule decided from the columns
   it saw: a.c = 1 AND b.c IN (3) went to the left input *)
Theorem push_blind_refuted :
  let p := EAnd (ECmp CEq (ECol 0) (ELit (VInt 1))) (EIn false (ECol 1) [ELit (VInt 3)]) in
  push_decision_old 1 p = PLeft /\ only_left 1 p = false /\ push_decision JInner 1 p = PStay.
Proof. cbv zeta. repeat split; reflexivity. Qed.

(* the repaired rule only ever makes the pushes proved sound above *)
Theorem push_decision_sound : forall k wl p,
  (push_decision k wl p = PLeft -> only_left wl p = true /\ left_push_ok k = true) /\
  (push_decision k wl p = PRight -> only_right wl p = true /\ right_push_ok k = true).
Proof.
  intros k wl p. unfold push_decision, only_left, only_right.
  destruct (all_sides wl p) as [[] []]; cbn [fst snd negb];
    destruct (left_push_ok k) eqn:L, (right_push_ok k) eqn:R; split; intros H; try discriminate; split; reflexivity.
Qed.

Theorem pushdown_rule_sound : forall k on p wl wr L R,
  (forall l, In l L -> length l = wl) ->
  match push_decision k wl p with
  | PLeft => plan_left k on wl wr L R p = plan_before k on wl wr L R p
  | PRight => plan_right k on wl wr L R p = plan_before k on wl wr L R p
  | PStay | POther => True
  end.
Proof.
  intros k on p wl wr L R HL. destruct (push_decision_sound k wl p) as [A B].
  destruct (push_decision k wl p); try exact I.
  - destruct (A eq_refl) as [O K]. now apply pushdown_left_sound.
  - destruct (B eq_refl) as [O K]. now apply pushdown_right_sound.
Qed.
Definition rule_sound_lemma := pushdown_rule_sound.
