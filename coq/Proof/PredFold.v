(* C14: constant folding (ConstantFoldingRule) and the whole WHERE query.
   Outside the recorded classes, `SELECT * FROM t WHERE e` returns exactly the rows on which
   e is TRUE in the reference semantics. *)
From Coq Require Import ZArith List Bool Lia ZifyBool.
From TV Require Import Model.SqlSpec Model.PredImpl Model.PredClass
  Proof.SqlSpecLaws Proof.PredBase Proof.PredWhere.
Import ListNotations.
Open Scope Z_scope.
Ltac Zify.zify_post_hook ::= Z.to_euclidean_division_equations.

(* ------------------------------------------------------------------ literal comparisons *)
Lemma as_literal_some : forall e v, as_literal e = Some v -> e = ELit v.
Proof.
  intros e v H. destruct e; cbn in H; try discriminate.
  destruct v0 as [|z|b|s|b]; cbn in H.
  - congruence.
  - destruct (0 <=? z); congruence.
  - destruct (f_sign b =? 0); congruence.
  - congruence.
  - congruence.
Qed.
Lemma as_literal_float_pos : forall b, as_literal (ELit (VFloat b)) = Some (VFloat b) -> f_sign b = 0.
Proof. intros b H. cbn in H. destruct (f_sign b =? 0) eqn:E; [now apply Z.eqb_eq in E|discriminate]. Qed.

Lemma f_key_pos : forall b, f_ok b = true -> f_sign b = 0 -> f_key b = b.
Proof.
  intros b Hok Hs. unfold f_key. rewrite Hs. cbn. unfold f_ok in Hok. unfold f_sign in Hs.
  apply andb_prop in Hok as [H1 H2]. apply Z.leb_le in H1. apply Z.ltb_lt in H2.
  change (2 ^ 63) with 9223372036854775808 in *. lia.
Qed.

Lemma fcmp_ok : forall a b c, fcmp a b = Some c -> f_ok a = true /\ f_ok b = true /\ c = Z.compare (f_key a) (f_key b).
Proof.
  intros a b c H. unfold fcmp in H.
  destruct (f_ok a); cbn in H; [|discriminate]. destruct (f_ok b); cbn in H; [|discriminate].
  destruct (negb (f_is_nan a) && negb (f_is_nan b)); [|discriminate]. injection H as <-. auto.
Qed.

Lemma Zcompare_eq_iff : forall x y, (x ?= y) = Eq <-> x = y.
Proof. intros. apply Z.compare_eq_iff. Qed.

(* literals of one kind: the folding verdict is the reference verdict *)
Lemma literals_equal_spec : forall x y op t,
  same_kind x y = true ->
  as_literal (ELit x) = Some x -> as_literal (ELit y) = Some y ->
  cmp3 op x y = Some t ->
  exists c, t = tv_of_bool (cmp_holds op c) /\ (literals_equal x y = true <-> c = Eq).
Proof.
  intros x y op t Hk Lx Ly Hc. destruct x, y; cbn in Hk; try discriminate.
  - (* Int *) cbn in Hc. injection Hc as <-. exists (z ?= z0). split; [reflexivity|].
    cbn [literals_equal]. rewrite Z.eqb_eq. symmetry. apply Z.compare_eq_iff.
  - (* Float *) unfold cmp3 in Hc. cbn [cmp_values] in Hc.
    destruct (fcmp bits bits0) as [c|] eqn:E; cbn in Hc; [|discriminate]. injection Hc as <-.
    exists c. split; [reflexivity|].
    apply fcmp_ok in E as (O1 & O2 & ->).
    rewrite (f_key_pos _ O1 (as_literal_float_pos _ Lx)), (f_key_pos _ O2 (as_literal_float_pos _ Ly)).
    cbn [literals_equal]. rewrite Z.eqb_eq. symmetry. apply Z.compare_eq_iff.
  - (* Text *) cbn in Hc. injection Hc as <-. exists (bytes_cmp s s0). split; [reflexivity|].
    cbn [literals_equal]. rewrite zlist_eqb'_eq. symmetry. apply bytes_cmp_eq.
  - (* Bool *) cbn in Hc. injection Hc as <-. exists (Z.b2z b ?= Z.b2z b0). split; [reflexivity|].
    cbn [literals_equal]. destruct b, b0; cbn; split; intros; congruence.
Qed.

(* ------------------------------------------------------------------ try_fold is sound *)
Definition fold_ok (e : expr) (f : option folded) : Prop :=
  match f with
  | None => True
  | Some FTrue => forall r t, sem3 e r = Some t -> t = TT
  | Some FFalse => forall r t, sem3 e r = Some t -> tv_is_true t = false
  | Some (FSimp e') =>
      cls_syn e' = 0 /\ try_fold e' = None /\
      (forall r t, sem3 e r = Some t -> exists t', sem3 e' r = Some t' /\ tv_is_true t' = tv_is_true t) /\
      (forall r, cls_p e r = 0 -> cls_p e' r = 0)
  end.

Lemma sem3_and_inv : forall a b r t, sem3 (EAnd a b) r = Some t ->
  exists ta tb, sem3 a r = Some ta /\ sem3 b r = Some tb /\ t = tv_and ta tb.
Proof.
  intros a b r t H. rewrite sem3_and in H. destruct (sem3 a r) as [ta|], (sem3 b r) as [tb|]; try discriminate.
  injection H as <-. eauto.
Qed.
Lemma sem3_or_inv : forall a b r t, sem3 (EOr a b) r = Some t ->
  exists ta tb, sem3 a r = Some ta /\ sem3 b r = Some tb /\ t = tv_or ta tb.
Proof.
  intros a b r t H. rewrite sem3_or in H. destruct (sem3 a r) as [ta|], (sem3 b r) as [tb|]; try discriminate.
  injection H as <-. eauto.
Qed.

Lemma try_fold_cmp : forall op a b, cls_syn (ECmp op a b) = 0 -> fold_ok (ECmp op a b) (try_fold (ECmp op a b)).
Proof.
  intros op a b Hc.
  destruct op; cbn [try_fold]; try exact I; cbn [cls_syn] in Hc.
  - destruct (as_literal a) as [x|] eqn:La; [|exact I]. destruct (as_literal b) as [y|] eqn:Lb; [|exact I].
    destruct (same_kind x y) eqn:Hk; [|discriminate].
    pose proof (as_literal_some _ _ La) as Ea. pose proof (as_literal_some _ _ Lb) as Eb. subst a b.
    destruct (literals_equal x y) eqn:Hl; cbn [fold_ok]; intros r t Hs;
      unfold sem3 in Hs; cbn [eval] in Hs; rewrite bind_ret_tv in Hs;
      destruct (literals_equal_spec x y CEq t Hk La Lb Hs) as (c & -> & Hiff).
    + assert (c = Eq) by (now apply Hiff). subst c. reflexivity.
    + destruct c; try reflexivity. assert (literals_equal x y = true) by (now apply Hiff). congruence.
  - destruct (as_literal a) as [x|] eqn:La; [|exact I]. destruct (as_literal b) as [y|] eqn:Lb; [|exact I].
    destruct (same_kind x y) eqn:Hk; [|discriminate].
    pose proof (as_literal_some _ _ La) as Ea. pose proof (as_literal_some _ _ Lb) as Eb. subst a b.
    destruct (literals_equal x y) eqn:Hl; cbn [fold_ok]; intros r t Hs;
      unfold sem3 in Hs; cbn [eval] in Hs; rewrite bind_ret_tv in Hs;
      destruct (literals_equal_spec x y CNe t Hk La Lb Hs) as (c & -> & Hiff).
    + assert (c = Eq) by (now apply Hiff). subst c. reflexivity.
    + destruct c; try reflexivity. assert (literals_equal x y = true) by (now apply Hiff). congruence.
Qed.

Lemma try_fold_sound : forall e, cls_syn e = 0 -> fold_ok e (try_fold e).
Proof.
  induction e as [i|lv|op a IHa b IHb|op a IHa b IHb|a IHa b IHb|a IHa b IHb|a IHa|neg a IHa l|neg a IHa lo IHlo hi IHhi|neg a IHa p IHp|neg a IHa];
    intros Hc; cbn [cls_syn] in Hc; try discriminate; try exact I.
  - (* literal *)
    destruct lv as [| | | |[]]; try discriminate; cbn; intros r t Hs; unfold sem3 in Hs; cbn in Hs; injection Hs as <-; reflexivity.
  - (* comparison *) now apply try_fold_cmp.
  - (* AND *)
    split_nz. specialize (IHa H). specialize (IHb H0). cbn [try_fold].
    destruct (try_fold a) as [[| |a']|] eqn:Fa, (try_fold b) as [[| |b']|] eqn:Fb; cbn [fold_ok] in *; try exact I.
    + (* TRUE, TRUE *) intros r t Hs. apply sem3_and_inv in Hs as (ta & tb & Sa & Sb & ->).
      now rewrite (IHa r ta Sa), (IHb r tb Sb).
    + (* TRUE, FALSE *) intros r t Hs. apply sem3_and_inv in Hs as (ta & tb & Sa & Sb & ->).
      rewrite tv_is_true_and, (IHb r tb Sb). apply andb_false_r.
    + (* TRUE, None *) split; [exact H0|]. split; [exact Fb|]. split.
      * intros r t Hs. apply sem3_and_inv in Hs as (ta & tb & Sa & Sb & ->).
        exists tb. split; [exact Sb|]. now rewrite (IHa r ta Sa), tv_and_TT_l.
      * intros r Hp. cbn [cls_p] in Hp. now split_nz.
    + (* FALSE, _ *) intros r t Hs. apply sem3_and_inv in Hs as (ta & tb & Sa & Sb & ->).
      now rewrite tv_is_true_and, (IHa r ta Sa).
    + intros r t Hs. apply sem3_and_inv in Hs as (ta & tb & Sa & Sb & ->).
      now rewrite tv_is_true_and, (IHa r ta Sa).
    + intros r t Hs. apply sem3_and_inv in Hs as (ta & tb & Sa & Sb & ->).
      now rewrite tv_is_true_and, (IHa r ta Sa).
    + intros r t Hs. apply sem3_and_inv in Hs as (ta & tb & Sa & Sb & ->).
      now rewrite tv_is_true_and, (IHa r ta Sa).
    + (* Simp, FALSE *) intros r t Hs. apply sem3_and_inv in Hs as (ta & tb & Sa & Sb & ->).
      rewrite tv_is_true_and, (IHb r tb Sb). apply andb_false_r.
    + (* None, TRUE *) split; [exact H|]. split; [exact Fa|]. split.
      * intros r t Hs. apply sem3_and_inv in Hs as (ta & tb & Sa & Sb & ->).
        exists ta. split; [exact Sa|]. rewrite (IHb r tb Sb). now destruct ta.
      * intros r Hp. cbn [cls_p] in Hp. now split_nz.
    + (* None, FALSE *) intros r t Hs. apply sem3_and_inv in Hs as (ta & tb & Sa & Sb & ->).
      rewrite tv_is_true_and, (IHb r tb Sb). apply andb_false_r.
  - (* OR *)
    split_nz. specialize (IHa H). specialize (IHb H0). cbn [try_fold].
    destruct (try_fold a) as [[| |a']|] eqn:Fa, (try_fold b) as [[| |b']|] eqn:Fb; cbn [fold_ok] in *; try exact I.
    + (* TRUE, _ *) intros r t Hs. apply sem3_or_inv in Hs as (ta & tb & Sa & Sb & ->).
      now rewrite (IHa r ta Sa), tv_or_TT_l.
    + intros r t Hs. apply sem3_or_inv in Hs as (ta & tb & Sa & Sb & ->).
      now rewrite (IHa r ta Sa), tv_or_TT_l.
    + intros r t Hs. apply sem3_or_inv in Hs as (ta & tb & Sa & Sb & ->).
      now rewrite (IHa r ta Sa), tv_or_TT_l.
    + intros r t Hs. apply sem3_or_inv in Hs as (ta & tb & Sa & Sb & ->).
      now rewrite (IHa r ta Sa), tv_or_TT_l.
    + (* FALSE, TRUE *) intros r t Hs. apply sem3_or_inv in Hs as (ta & tb & Sa & Sb & ->).
      rewrite (IHb r tb Sb). now destruct ta.
    + (* FALSE, FALSE *) intros r t Hs. apply sem3_or_inv in Hs as (ta & tb & Sa & Sb & ->).
      rewrite tv_is_true_or, (IHa r ta Sa), (IHb r tb Sb). reflexivity.
    + (* FALSE, None *) split; [exact H0|]. split; [exact Fb|]. split.
      * intros r t Hs. apply sem3_or_inv in Hs as (ta & tb & Sa & Sb & ->).
        exists tb. split; [exact Sb|]. rewrite tv_is_true_or, (IHa r ta Sa). reflexivity.
      * intros r Hp. cbn [cls_p] in Hp. now split_nz.
    + (* Simp, TRUE *) intros r t Hs. apply sem3_or_inv in Hs as (ta & tb & Sa & Sb & ->).
      rewrite (IHb r tb Sb). now destruct ta.
    + (* None, TRUE *) intros r t Hs. apply sem3_or_inv in Hs as (ta & tb & Sa & Sb & ->).
      rewrite (IHb r tb Sb). now destruct ta.
    + (* None, FALSE *) split; [exact H|]. split; [exact Fa|]. split.
      * intros r t Hs. apply sem3_or_inv in Hs as (ta & tb & Sa & Sb & ->).
        exists ta. split; [exact Sa|]. rewrite tv_is_true_or, (IHb r tb Sb), orb_false_r. reflexivity.
      * intros r Hp. cbn [cls_p] in Hp. now split_nz.
Qed.

(* ------------------------------------------------------------------ rows *)
Lemma first_row_0 : forall f t, first_row f t = 0 <-> Forall (fun r => f r = 0) t.
Proof.
  intros f. induction t as [|r t IH]; cbn [first_row].
  - split; [constructor|reflexivity].
  - rewrite first_nz_0, IH. split.
    + intros [A B]. now constructor.
    + intros H. inversion H. auto.
Qed.


Lemma filter_rows_correct : forall e t,
  Forall (fun r => cls_p e r = 0) t -> defined_on e t = true ->
  filter_rows e t = Ok (spec_rows e t).
Proof.
  intros e. induction t as [|r t IH]; intros Hc Hd; [reflexivity|].
  inversion Hc as [|? ? Hr Ht]; subst. unfold defined_on in Hd. cbn [forallb] in Hd.
  apply andb_prop in Hd as [Hd1 Hd2].
  destruct (sem3 e r) as [tv0|] eqn:Es; [|discriminate].
  cbn [filter_rows spec_rows map]. rewrite (where_row_correct e r tv0 Hr Es). cbn [bindr].
  fold (spec_rows e t). rewrite (IH Ht Hd2). cbn [bindr]. unfold passes. rewrite Es.
  now destruct tv0.
Qed.

Lemma spec_rows_ext : forall e e' t,
  (forall r t0, sem3 e r = Some t0 -> exists t', sem3 e' r = Some t' /\ tv_is_true t' = tv_is_true t0) ->
  defined_on e t = true -> spec_rows e' t = spec_rows e t /\ defined_on e' t = true.
Proof.
  intros e e' t H. induction t as [|r t IH]; intros Hd; [split; reflexivity|].
  unfold defined_on in Hd. cbn [forallb] in Hd. apply andb_prop in Hd as [Hd1 Hd2].
  destruct (sem3 e r) as [t0|] eqn:Es; [|discriminate].
  destruct (H r t0 Es) as (t' & Es' & Ht). destruct (IH Hd2) as (I1 & I2).
  split.
  - cbn [spec_rows map]. fold (spec_rows e' t) (spec_rows e t). rewrite I1. f_equal.
    unfold passes. rewrite Es, Es'. destruct t', t0; cbn in *; congruence.
  - unfold defined_on. cbn [forallb]. rewrite Es'. exact I2.
Qed.

Lemma rows_all_true : forall e t,
  (forall r t0, sem3 e r = Some t0 -> t0 = TT) -> defined_on e t = true ->
  spec_rows e t = map (fun _ => 1) t.
Proof.
  intros e t H. induction t as [|r t IH]; intros Hd; [reflexivity|].
  unfold defined_on in Hd. cbn [forallb] in Hd. apply andb_prop in Hd as [Hd1 Hd2].
  destruct (sem3 e r) as [t0|] eqn:Es; [|discriminate].
  cbn [spec_rows map]. fold (spec_rows e t). rewrite (IH Hd2). unfold passes. rewrite Es, (H r t0 Es). reflexivity.
Qed.

(* the statement as the optimizer + executor run it, fully parenthesised text *)
Theorem where_query_correct : forall e t,
  cls_where 0 e t = 0 -> defined_on e t = true ->
  model_where e t = MOut (QRows (spec_rows e t)).
Proof.
  intros e t Hc Hd. unfold cls_where in Hc. split_nz.
  rename H0 into Hsyn. rename H1 into Hfold. rename H2 into Hrows.
  apply first_row_0 in Hrows. pose proof (try_fold_sound e Hsyn) as Hf.
  unfold model_where. cbn [fold_iter] in *.
  destruct (try_fold e) as [[| |e']|] eqn:Ef; cbn [fold_ok] in Hf.
  - (* TRUE: the filter is dropped *) now rewrite (rows_all_true e t Hf Hd).
  - discriminate.
  - destruct Hf as (Hs' & Hn' & Hsem & Hcls). cbn [fold_iter]. rewrite Hn'.
    destruct (spec_rows_ext e e' t Hsem Hd) as (R1 & R2).
    rewrite filter_rows_correct; [now rewrite R1| |exact R2].
    eapply Forall_impl; [|exact Hrows]. intros r. apply Hcls.
  - now rewrite (filter_rows_correct e t Hrows Hd).
Qed.
