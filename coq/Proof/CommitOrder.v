(* C38: coverage outside the known classes, for Model/CommitOrder.v, every variant, every number
   of handles and every schedule: if no transaction found one of its pages taken out of the dirty
   tracker by another handle's capture ([borrowed] = false) and no elected leader lost its commit
   (C37's class, [stolen] = false), then every acknowledged transaction has each of its writes in
   a frame that was in the log when its COMMIT returned. *)
From Coq Require Import ZArith List Bool Arith Lia.
From TV Require Import Lib.Interleave Model.GroupCommit Model.CommitOrder.
From TV Require Import Proof.GroupCommitStep Proof.GroupCommitSafe Proof.GroupCommitLive Proof.GroupCommitRepair.
Import ListNotations.
Open Scope Z_scope.

(* ------------------------------------------------------------------ small facts *)
Lemma image_of_set_same im p v : image_of (image_set im p v) p = v.
Proof.
  induction im as [|[q w] r IH]; cbn [image_set image_of].
  - rewrite Z.eqb_refl. reflexivity.
  - destruct (q =? p) eqn:E; cbn [image_of]; rewrite E; [reflexivity | exact IH].
Qed.
Lemma image_of_set_other im p v q : q <> p -> image_of (image_set im p v) q = image_of im q.
Proof.
  intros Hne. induction im as [|[x w] r IH]; cbn [image_set image_of].
  - destruct (p =? q) eqn:E; [apply Z.eqb_eq in E; congruence | reflexivity].
  - destruct (x =? p) eqn:E; cbn [image_of].
    + apply Z.eqb_eq in E. subst x. destruct (p =? q) eqn:E2; [apply Z.eqb_eq in E2; congruence | reflexivity].
    + destruct (x =? q); [reflexivity | exact IH].
Qed.

Lemma bit_kept im p u q v :
  0 <= u -> Z.testbit (image_of im q) v = true ->
  Z.testbit (image_of (image_set im p (Z.lor (image_of im p) (2 ^ u))) q) v = true.
Proof.
  intros Hu H. destruct (Z.eq_dec q p) as [->|Hne].
  - rewrite image_of_set_same, Z.lor_spec, H. reflexivity.
  - rewrite image_of_set_other by exact Hne. exact H.
Qed.
Lemma bit_set im p u :
  0 <= u -> Z.testbit (image_of (image_set im p (Z.lor (image_of im p) (2 ^ u))) p) u = true.
Proof.
  intros Hu. rewrite image_of_set_same, Z.lor_spec, Z.pow2_bits_eqb by exact Hu. rewrite Z.eqb_refl. apply orb_true_r.
Qed.

Lemma payload_of_app_other ps id f id' : id' <> id -> payload_of (ps ++ [(id, f)]) id' = payload_of ps id'.
Proof.
  intros Hne. induction ps as [|[i g] r IH]; cbn [app payload_of].
  - destruct (id =? id') eqn:E; [apply Z.eqb_eq in E; congruence | reflexivity].
  - destruct (i =? id'); [reflexivity | exact IH].
Qed.
Lemma payload_of_app_fresh ps id f : ~ In id (map fst ps) -> payload_of (ps ++ [(id, f)]) id = f.
Proof.
  intros Hn. induction ps as [|[i g] r IH]; cbn [app payload_of].
  - rewrite Z.eqb_refl. reflexivity.
  - destruct (i =? id) eqn:E.
    + apply Z.eqb_eq in E. subst i. exfalso. apply Hn. left. reflexivity.
    + apply IH. intros H. apply Hn. right. exact H.
Qed.

Lemma log_bound s id : SI s -> In id (log s) -> 0 < id < next_id s.
Proof.
  intros HS H. apply (si_ids _ HS). apply in_app_iff. right.
  apply (si_att_taken _ HS). apply (si_log_att _ HS). exact H.
Qed.

(* what a base step does to the log / next_id / acks, seen from the layer *)
Lemma TS_layer fx t s th s' th' :
  TS fx t s th s' th' ->
  (exists lx, log s' = log s ++ lx) /\
  (next_id s' = next_id s \/ (next_id s' = next_id s + 1 /\ pc th = S401 /\ pc th' = S301 /\ myid th' = next_id s /\ op_empty (cur th) = false)) /\
  (acks s' = acks s \/ exists r, acks s' = acks s ++ [Ack t (kidx th) (myid th) r (Z.of_nat (length (log s)))] /\ pc th' = Idle /\ myid th' = myid th /\ kidx th' = kidx th) /\
  (stolen s' = false -> stolen s = false).
Proof.
  intros HTS. destruct HTS;
    cbn [log next_id acks stolen pc myid kidx cur sh_push sh_set_fip sh_wait sh_ack sh_steal sh_drain sh_write sh_complete sh_err sh_notify_all];
    (split; [first [exists []; rewrite app_nil_r; reflexivity | eexists; reflexivity] |
     split; [first [left; reflexivity | right; repeat split; auto; lia] |
     split; [first [left; reflexivity | right; eexists; repeat split; reflexivity] |
             first [exact (fun Hq => Hq) | intros Hq; apply orb_false_iff in Hq; exact (proj1 Hq)]]]]).
Qed.

(* ------------------------------------------------------------------ the invariant *)
Definition bits_ok (im : list (Z * Z)) (ws : list (Z * Z)) : Prop :=
  forall p u, In (p, u) ws -> Z.testbit (image_of im p) u = true.

Definition link (ps : list (Z * list (Z * Z))) (th : thr) (lt : lthr) : Prop :=
  (myid th = 0 /\ lpayload lt = []) \/ (myid th <> 0 /\ payload_of ps (myid th) = lpayload lt).

Definition nonneg (ws : list (Z * Z)) : Prop := forall p u, In (p, u) ws -> 0 <= u.

Record PT (s : St38) (t : nat) (lt : lthr) (th : thr) : Prop := {
  pt_nonneg : nonneg (lcur lt) /\ (forall x, In x (lprog lt) -> nonneg x);
  pt_applied : match lpc lt with
               | LIdle => True
               | LWrite ws => exists done, lcur lt = done ++ ws /\ bits_ok (images s) done
               | _ => bits_ok (images s) (lcur lt)
               end;
  pt_idle : lpc lt <> LCommit -> pc th = Idle /\ prog th = [];
  pt_payload : lpc lt = LCommit -> borrowed s = false ->
               forall p u, In (p, u) (lcur lt) -> exists img, In (p, img) (lpayload lt) /\ Z.testbit img u = true;
  pt_link : lpc lt = LCommit ->
            match pc th with
            | Idle => (prog th <> [] -> prog th = [Commit (negb (nonempty (lpayload lt))) None]) /\
                      (prog th = [] -> link (payloads s) th lt)
            | S401 => prog th = [] /\ op_empty (cur th) = negb (nonempty (lpayload lt)) /\ myid th = 0
            | _ => prog th = [] /\ link (payloads s) th lt
            end;
  pt_id : myid th = 0 \/ 0 < myid th < next_id (sh (base s));
  pt_acks : forall a, In a (acks (sh (base s))) -> a_thr a = t ->
            a_k a < kidx th \/ (a_k a = kidx th /\ pc th = Idle /\ a_id a = myid th)
}.

Record KS (s : St38) : Prop := {
  ks_base : Inv (base s);
  ks_pids : forall id, In id (map fst (payloads s)) -> 0 < id < next_id (sh (base s));
  ks_threads : forall t lt, lget (lthrs s) t = Some lt ->
               exists th, lget (thrs (base s)) t = Some th /\ PT s t lt th;
  ks_lacks_len : forall a, In a (lacks s) -> 0 <= la_frames a <= nframes s;
  ks_lacks : borrowed s = false -> stolen (sh (base s)) = false ->
             forall a, In a (lacks s) -> covered (frames s) a = true
}.

(* ------------------------------------------------------------------ frames only grow *)
Lemma covered_app fs x a :
  0 <= la_frames a <= Z.of_nat (length fs) -> covered fs a = true -> covered (fs ++ x) a = true.
Proof.
  intros Hl H. unfold covered in *. rewrite firstn_app_keep by lia. exact H.
Qed.

Lemma flat_map_payload_ext ps ps' l :
  (forall id, In id l -> payload_of ps' id = payload_of ps id) ->
  flat_map (payload_of ps') l = flat_map (payload_of ps) l.
Proof.
  induction l as [|x l IH]; intros H; cbn [flat_map]; [reflexivity|].
  rewrite H by (left; reflexivity). rewrite IH; [reflexivity|]. intros id Hid. apply H. right. exact Hid.
Qed.

(* ------------------------------------------------------------------ steps of the layer *)
(* how one step changes what the OTHER threads' invariants look at *)
Record ext38 (t : nat) (s s' : St38) : Prop := {
  e_bits : forall p u, Z.testbit (image_of (images s) p) u = true -> Z.testbit (image_of (images s') p) u = true;
  e_payloads : payloads s' = payloads s \/ exists f, payloads s' = payloads s ++ [(next_id (sh (base s)), f)];
  e_next : next_id (sh (base s)) <= next_id (sh (base s'));
  e_borrowed : borrowed s' = false -> borrowed s = false;
  e_acks : forall a, In a (acks (sh (base s'))) -> In a (acks (sh (base s))) \/ a_thr a = t
}.

Lemma link_ext t s s' th lt :
  ext38 t s s' -> (forall id, In id (map fst (payloads s)) -> 0 < id < next_id (sh (base s))) ->
  (myid th = 0 \/ 0 < myid th < next_id (sh (base s))) ->
  link (payloads s) th lt -> link (payloads s') th lt.
Proof.
  intros E Hp Hid [H|[H1 H2]]; [left; exact H | right]. split; [exact H1|].
  destruct (e_payloads _ _ _ E) as [->|[f ->]]; [exact H2|].
  rewrite payload_of_app_other; [exact H2|]. lia.
Qed.

Lemma PT_ext t u s s' lt th :
  u <> t -> ext38 t s s' -> (forall id, In id (map fst (payloads s)) -> 0 < id < next_id (sh (base s))) ->
  PT s u lt th -> PT s' u lt th.
Proof.
  intros Hne E Hp H. destruct H. constructor; auto.
  - destruct (lpc lt); auto.
    + destruct pt_applied0 as [d [Hd Hb]]. exists d. split; [exact Hd|]. intros p v Hin. apply (e_bits _ _ _ E). apply Hb. exact Hin.
    + intros p v Hin. apply (e_bits _ _ _ E). apply pt_applied0. exact Hin.
    + intros p v Hin. apply (e_bits _ _ _ E). apply pt_applied0. exact Hin.
    + intros p v Hin. apply (e_bits _ _ _ E). apply pt_applied0. exact Hin.
    + intros p v Hin. apply (e_bits _ _ _ E). apply pt_applied0. exact Hin.
  - intros Hc Hb. apply pt_payload0; [exact Hc | apply (e_borrowed _ _ _ E); exact Hb].
  - intros Hc. specialize (pt_link0 Hc).
    destruct (pc th); auto; try (destruct pt_link0 as [A B]; split; [exact A | eapply link_ext; eauto]; fail).
    destruct pt_link0 as [A B]. split; [exact A|]. intros Hpr. eapply link_ext; eauto.
  - destruct pt_id0 as [H|H]; [left; exact H | right]. pose proof (e_next _ _ _ E). lia.
  - intros a Ha Hthr. destruct (e_acks _ _ _ E a Ha) as [Hold|Ht]; [apply pt_acks0; assumption | congruence].
Qed.

Lemma ext38_layer t s s' :
  base s' = base s -> payloads s' = payloads s -> images s' = images s -> borrowed s' = borrowed s -> ext38 t s s'.
Proof.
  intros Hb Hp Hi Hbo. constructor; rewrite ?Hb, ?Hp, ?Hi, ?Hbo; auto. lia.
Qed.

(* the thread table after a step of thread t *)
Lemma threads_update t s s' lt' :
  lthrs s' = lset (lthrs s) t lt' ->
  (forall u ltu, u <> t -> lget (lthrs s) u = Some ltu -> exists th, lget (thrs (base s')) u = Some th /\ PT s' u ltu th) ->
  (exists th, lget (thrs (base s')) t = Some th /\ PT s' t lt' th) ->
  forall u ltu, lget (lthrs s') u = Some ltu -> exists th, lget (thrs (base s')) u = Some th /\ PT s' u ltu th.
Proof.
  intros Hl Ho Hs u ltu Hu. rewrite Hl in Hu.
  destruct (lget_lset_cases _ _ _ _ _ Hu) as [[-> ->]|[Hne Hu']]; [exact Hs | eapply Ho; eauto].
Qed.

Lemma others_keep t s s' :
  KS s -> ext38 t s s' ->
  (forall u, u <> t -> lget (thrs (base s')) u = lget (thrs (base s)) u) ->
  forall u ltu, u <> t -> lget (lthrs s) u = Some ltu -> exists th, lget (thrs (base s')) u = Some th /\ PT s' u ltu th.
Proof.
  intros HK E Hb u ltu Hne Hu. destruct (ks_threads _ HK u ltu Hu) as [th [Hth HP]].
  exists th. split; [rewrite Hb by exact Hne; exact Hth|]. eapply PT_ext; eauto. apply (ks_pids _ HK).
Qed.

Lemma Inv_set_prog s t p : Inv s -> Inv (set_base_prog s t p).
Proof.
  intros [HS HT]. unfold set_base_prog. destruct (lget (thrs s) t) as [th|] eqn:E; [|split; assumption].
  split; cbn [sh thrs]; [exact HS|]. intros u x Hu.
  destruct (lget_lset_cases _ _ _ _ _ Hu) as [[-> ->]|[Hne Hu']]; [|apply HT; exact Hu'].
  specialize (HT _ _ E). destruct th. exact HT.
Qed.

Lemma in_insert_sorted p q l : In q l -> In q (insert_sorted p l).
Proof.
  induction l as [|x l IH]; cbn [insert_sorted]; [intros []|].
  intros Hin. destruct (p <? x); [right; exact Hin|]. destruct (p =? x); [exact Hin|].
  destruct Hin as [->|Hin]; [left; reflexivity | right; apply IH; exact Hin].
Qed.

Lemma lset_same {L} (l : list (nat * L)) t v : lget l t = Some v -> lset l t v = l.
Proof.
  induction l as [|[k w] l IH]; cbn [lget lset]; [discriminate|].
  destruct (Nat.eqb k t) eqn:Ek; [intros H; injection H as ->; reflexivity | intros H; rewrite IH by exact H; reflexivity].
Qed.

(* ------------------------------------------------------------------ preservation *)
Lemma frames_same s s' : base s' = base s -> payloads s' = payloads s -> frames s' = frames s.
Proof. intros Hb Hp. unfold frames. rewrite Hb, Hp. reflexivity. Qed.

Lemma KS_lacks_same s s' :
  KS s -> frames s' = frames s -> lacks s' = lacks s ->
  (borrowed s' = false -> borrowed s = false) -> (stolen (sh (base s')) = false -> stolen (sh (base s)) = false) ->
  (forall a, In a (lacks s') -> 0 <= la_frames a <= nframes s') /\
  (borrowed s' = false -> stolen (sh (base s')) = false -> forall a, In a (lacks s') -> covered (frames s') a = true).
Proof.
  intros HK Hf Hl Hb Hs. unfold nframes. rewrite Hf, Hl. split.
  - apply (ks_lacks_len _ HK).
  - intros B S. apply (ks_lacks _ HK); auto.
Qed.

Lemma KS_step fx t s s' : KS s -> step38 fx t s = Some s' -> KS s'.
Proof.
  intros HK Hst. unfold step38 in Hst.
  destruct (lget (lthrs s) t) as [lt|] eqn:El; [|discriminate].
  destruct (ks_threads _ HK t lt El) as [th [Hth HP]].
  destruct lt as [lp lc lpc0 k0 pay]. cbn [lpc lprog lcur lk lpayload] in Hst.
  destruct lpc0.
  - (* LIdle *)
    destruct lp as [|x r]; [discriminate|]. injection Hst as <-.
    assert (E : ext38 t s (upd_l s t (LThr r x (LWrite x) (k0 + 1) []))) by (apply ext38_layer; reflexivity).
    destruct (KS_lacks_same s (upd_l s t (LThr r x (LWrite x) (k0 + 1) [])) HK) as [L1 L2]; try reflexivity; auto.
    constructor; [exact (ks_base _ HK) | exact (ks_pids _ HK) | | exact L1 | exact L2].
    eapply threads_update; [reflexivity | eapply others_keep; eauto |].
    exists th. split; [exact Hth|]. destruct HP. constructor; cbn [lcur lprog lpc lpayload upd_l images base payloads borrowed] in *; auto.
    + destruct pt_nonneg0 as [_ B]. split; [apply B; left; reflexivity | intros y Hy; apply B; right; exact Hy].
    + exists []. split; [reflexivity | intros p u []].
    + intros _. apply pt_idle0. discriminate.
    + discriminate.
    + discriminate.
  - (* LWrite *)
    destruct ws as [|[p u] ws].
    + injection Hst as <-.
      assert (E : ext38 t s (upd_l s t (LThr lp lc L400 k0 pay))) by (apply ext38_layer; reflexivity).
      destruct (KS_lacks_same s (upd_l s t (LThr lp lc L400 k0 pay)) HK) as [L1 L2]; try reflexivity; auto.
      constructor; [exact (ks_base _ HK) | exact (ks_pids _ HK) | | exact L1 | exact L2].
      eapply threads_update; [reflexivity | eapply others_keep; eauto |].
      exists th. split; [exact Hth|]. destruct HP. constructor; cbn [lcur lprog lpc lpayload upd_l images base payloads borrowed] in *; auto.
      * destruct pt_applied0 as [d [Hd Hb]]. rewrite app_nil_r in Hd. subst d. exact Hb.
      * intros _. apply pt_idle0. discriminate.
      * discriminate.
      * discriminate.
    + injection Hst as <-.
      set (s1 := MkSt38 (base s) (image_set (images s) p (Z.lor (image_of (images s) p) (2 ^ u)))
                        (insert_sorted p (tracker s)) (payloads s)
                        (lset (lthrs s) t (LThr lp lc (LWrite ws) k0 pay)) (lacks s) (borrowed s) (inverted s)).
      assert (Hu : 0 <= u).
      { destruct HP. cbn [lcur lpc] in *. destruct pt_applied0 as [d [Hd _]]. apply (proj1 pt_nonneg0 p u). rewrite Hd. apply in_app_iff. right. left. reflexivity. }
      assert (E : ext38 t s s1).
      { constructor; cbn [s1 base payloads images borrowed]; auto; try lia. intros q v Hq. apply bit_kept; assumption. }
      destruct (KS_lacks_same s s1 HK) as [L1 L2]; try reflexivity; auto.
      constructor; [exact (ks_base _ HK) | exact (ks_pids _ HK) | | exact L1 | exact L2].
      eapply threads_update; [reflexivity | eapply others_keep; eauto |].
      exists th. split; [exact Hth|]. destruct HP. constructor; cbn [lcur lprog lpc lpayload s1 images base payloads borrowed] in *; auto.
      * destruct pt_applied0 as [d [Hd Hb]]. exists (d ++ [(p, u)]). split; [rewrite <- app_assoc; exact Hd|].
        intros q v Hin. apply in_app_iff in Hin. destruct Hin as [Hin|[Hin|[]]].
        -- apply bit_kept; [exact Hu | apply Hb; exact Hin].
        -- injection Hin as <- <-. apply bit_set. exact Hu.
      * intros _. apply pt_idle0. discriminate.
      * discriminate.
      * discriminate.
  - (* L400 *)
    injection Hst as <-.
    assert (E : ext38 t s (upd_l s t (LThr lp lc LRead k0 pay))) by (apply ext38_layer; reflexivity).
    destruct (KS_lacks_same s (upd_l s t (LThr lp lc LRead k0 pay)) HK) as [L1 L2]; try reflexivity; auto.
    constructor; [exact (ks_base _ HK) | exact (ks_pids _ HK) | | exact L1 | exact L2].
    eapply threads_update; [reflexivity | eapply others_keep; eauto |].
    exists th. split; [exact Hth|]. destruct HP. constructor; cbn [lcur lprog lpc lpayload upd_l images base payloads borrowed] in *; auto.
    + intros _. apply pt_idle0. discriminate.
    + discriminate.
    + discriminate.
  - (* LRead *)
    destruct (tracker s) as [|q0 tr] eqn:Etr.
    + injection Hst as <-.
      set (s1 := MkSt38 (base s) (images s) [] (payloads s) (lset (lthrs s) t (LThr lp lc LIdle k0 pay))
                        (lacks s ++ [LAck t k0 lc true (nframes s)]) (borrowed s || nonempty lc) (inverted s)).
      assert (E : ext38 t s s1).
      { constructor; cbn [s1 base payloads images borrowed]; auto; try lia. intros Hb. apply orb_false_iff in Hb. apply Hb. }
      constructor; [exact (ks_base _ HK) | exact (ks_pids _ HK) | | | ].
      * eapply threads_update; [reflexivity | eapply others_keep; eauto |].
        exists th. split; [exact Hth|]. destruct HP. constructor; cbn [lcur lprog lpc lpayload s1 images base payloads borrowed] in *; auto.
        -- intros _. apply pt_idle0. discriminate.
        -- discriminate.
        -- discriminate.
      * intros a Ha. assert (Hfs : frames s1 = frames s) by (apply frames_same; reflexivity).
        unfold nframes. rewrite Hfs. unfold s1 in Ha. cbn [lacks] in Ha. apply in_app_iff in Ha.
        destruct Ha as [Ha|[<-|[]]]; [apply (ks_lacks_len _ HK); exact Ha | cbn [la_frames]; unfold nframes; lia].
      * assert (Hfs : frames s1 = frames s) by (apply frames_same; reflexivity). rewrite Hfs.
        unfold s1. cbn [borrowed base lacks]. intros Hb Hs a Ha. apply orb_false_iff in Hb. destruct Hb as [Hb Hn].
        apply in_app_iff in Ha. destruct Ha as [Ha|[<-|[]]]; [apply (ks_lacks _ HK); assumption|].
        destruct lc; [reflexivity | discriminate Hn].
    + injection Hst as <-.
      assert (E : ext38 t s (upd_l s t (LThr lp lc LCapture k0 pay))) by (apply ext38_layer; reflexivity).
      destruct (KS_lacks_same s (upd_l s t (LThr lp lc LCapture k0 pay)) HK) as [L1 L2]; try reflexivity; auto.
      constructor; [exact (ks_base _ HK) | exact (ks_pids _ HK) | | exact L1 | exact L2].
      eapply threads_update; [reflexivity | eapply others_keep; eauto |].
      exists th. split; [exact Hth|]. destruct HP. constructor; cbn [lcur lprog lpc lpayload upd_l images base payloads borrowed] in *; auto.
      * intros _. apply pt_idle0. discriminate.
      * discriminate.
      * discriminate.
  - (* LCapture *)
    injection Hst as <-.
    set (f := map (fun p => (p, image_of (images s) p)) (tracker s)).
    set (bw := existsb (fun w : Z * Z => negb (memZ (fst w) (tracker s))) lc).
    set (s1 := MkSt38 (set_base_prog (base s) t [Commit (negb (nonempty f)) None]) (images s) [] (payloads s)
                      (lset (lthrs s) t (LThr lp lc LCommit k0 f)) (lacks s) (borrowed s || bw) (inverted s)).
    assert (Hsh : sh (base s1) = sh (base s)).
    { cbn [s1 base]. unfold set_base_prog. rewrite Hth. reflexivity. }
    assert (Hoth : forall u, u <> t -> lget (thrs (base s1)) u = lget (thrs (base s)) u).
    { intros u Hne. cbn [s1 base]. unfold set_base_prog. rewrite Hth. cbn [thrs]. apply lget_lset_other. congruence. }
    assert (E : ext38 t s s1).
    { constructor; rewrite ?Hsh; cbn [s1 payloads images borrowed]; auto; try lia. intros Hb. apply orb_false_iff in Hb. apply Hb. }
    assert (Hfr : frames s1 = frames s) by (unfold frames; rewrite Hsh; reflexivity).
    constructor.
    + cbn [s1 base]. apply Inv_set_prog. apply HK.
    + rewrite Hsh. cbn [s1 payloads]. apply (ks_pids _ HK).
    + eapply threads_update; [reflexivity | eapply others_keep; eauto |].
      exists (Thr [Commit (negb (nonempty f)) None] (cur th) (pc th) (kidx th) (myid th) (elected th) (batch th) (wok th)).
      split; [cbn [s1 base]; unfold set_base_prog; rewrite Hth; cbn [thrs]; apply lget_lset_same|].
      destruct HP. cbn [lcur lprog lpc lpayload] in *. destruct (pt_idle0 ltac:(discriminate)) as [Hpc Hpr].
      constructor; rewrite ?Hsh; cbn [lcur lprog lpc lpayload s1 images payloads borrowed pc prog myid kidx cur] in *; auto.
      * intros H. exfalso. apply H. reflexivity.
      * intros _ Hb p u Hin. apply orb_false_iff in Hb. destruct Hb as [_ Hb]. unfold bw in Hb.
        assert (Hp : In p (tracker s)).
        { destruct (memZ p (tracker s)) eqn:Em; [apply memZ_In; exact Em|]. exfalso.
          assert (existsb (fun w : Z * Z => negb (memZ (fst w) (tracker s))) lc = true); [|congruence].
          apply existsb_exists. exists (p, u). split; [exact Hin | cbn [fst]; rewrite Em; reflexivity]. }
        exists (image_of (images s) p). split; [unfold f; apply in_map_iff; exists p; auto | apply pt_applied0; exact Hin].
      * intros _. rewrite Hpc. split; [intros _; reflexivity | intros H; discriminate H].
    + intros a Ha. unfold nframes. rewrite Hfr. apply (ks_lacks_len _ HK). exact Ha.
    + rewrite Hsh, Hfr. cbn [s1 borrowed lacks]. intros Hb Hs. apply orb_false_iff in Hb. apply (ks_lacks _ HK); tauto.
  - (* LCommit *)
    destruct (base_finished (base s) t) eqn:Efin.
    + (* the commit has returned *)
      injection Hst as <-.
      set (s1 := MkSt38 (base s) (images s) (tracker s) (payloads s) (lset (lthrs s) t (LThr lp lc LIdle k0 pay))
                        (lacks s ++ [LAck t k0 lc (last_ok (base s) t) (nframes s)]) (borrowed s) (inverted s)).
      assert (E : ext38 t s s1) by (apply ext38_layer; reflexivity).
      unfold base_finished in Efin. rewrite Hth in Efin. unfold finished in Efin.
      assert (Hpc : pc th = Idle /\ prog th = []).
      { destruct (pc th); try discriminate. destruct (prog th); [auto | discriminate]. }
      constructor; [exact (ks_base _ HK) | exact (ks_pids _ HK) | | | ].
      * eapply threads_update; [reflexivity | eapply others_keep; eauto |].
        exists th. split; [exact Hth|]. destruct HP. constructor; cbn [lcur lprog lpc lpayload s1 images base payloads borrowed] in *; auto; try discriminate.
      * intros a Ha. assert (Hfs : frames s1 = frames s) by (apply frames_same; reflexivity).
        unfold nframes. rewrite Hfs. unfold s1 in Ha. cbn [lacks] in Ha. apply in_app_iff in Ha.
        destruct Ha as [Ha|[<-|[]]]; [apply (ks_lacks_len _ HK); exact Ha | cbn [la_frames]; unfold nframes; lia].
      * assert (Hfs : frames s1 = frames s) by (apply frames_same; reflexivity). rewrite Hfs.
        unfold s1. cbn [borrowed base lacks]. intros Hb Hs a Ha.
        apply in_app_iff in Ha. destruct Ha as [Ha|[<-|[]]]; [apply (ks_lacks _ HK); assumption|].
        unfold covered. cbn [la_ok la_writes la_frames].
        destruct (last_ok (base s) t) eqn:Eok; [|reflexivity]. cbn [negb orb].
        unfold nframes. rewrite Nat2Z.id, firstn_all.
        (* the base acknowledgement of this commit *)
        unfold last_ok in Eok. rewrite Hth in Eok. apply existsb_exists in Eok. destruct Eok as [a [Ha Hc]].
        apply andb_true_iff in Hc. destruct Hc as [Hc Hr]. apply andb_true_iff in Hc. destruct Hc as [Ht Hk].
        apply Nat.eqb_eq in Ht. apply Z.eqb_eq in Hk.
        assert (Hres : a_res a = ROk) by (destruct (a_res a); [reflexivity | discriminate | discriminate]).
        destruct HP. cbn [lcur lprog lpc lpayload] in *.
        destruct (pt_acks0 a Ha Ht) as [Hlt|[_ [_ Hid]]]; [lia|].
        specialize (pt_link0 eq_refl). rewrite (proj1 Hpc) in pt_link0. destruct pt_link0 as [_ Hlink]. specialize (Hlink (proj2 Hpc)).
        destruct (ks_base _ HK) as [HSI _].
        apply forallb_forall. intros [p u] Hin.
        destruct (pt_payload0 eq_refl Hb p u Hin) as [img [Himg Hbit]].
        destruct Hlink as [[_ Hnil]|[Hnz Hpay]]; cbn [lpayload] in *; [rewrite Hnil in Himg; destruct Himg|].
        apply existsb_exists. exists (p, img). split; [|cbn [fst snd]; rewrite Z.eqb_refl, Hbit; reflexivity].
        unfold frames. apply in_flat_map. exists (myid th). split; [|rewrite Hpay; exact Himg].
        destruct (si_acks _ HSI Hs a Ha Hres) as [H0|[_ Hlog]]; [congruence|].
        rewrite <- Hid. eapply firstn_incl. exact Hlog.
    + (* a step of the C37 protocol *)
      destruct (step fx t (base s)) as [b'|] eqn:Eb; [|discriminate]. injection Hst as <-.
      destruct (step_inv _ _ _ _ Eb) as [th0 [sg' [th' [Hl0 [Ht0 ->]]]]].
      assert (th0 = th) by congruence. subst th0.
      pose proof (tstep_TS _ _ _ _ _ _ Ht0) as HTS.
      destruct (TS_layer _ _ _ _ _ _ HTS) as [[lx Hlog] [Hnext [Hacks Hstolen]]].
      destruct (ks_base _ HK) as [HSI HTI].
      pose proof (Inv_step _ _ _ _ (ks_base _ HK) Eb) as HInv'. destruct HInv' as [HSI' HTI'].
      cbn [sh thrs] in *.
      set (pushed := negb (next_id sg' =? next_id (sh (base s)))).
      set (s1 := MkSt38 (MkSt sg' (lset (thrs (base s)) t th')) (images s) (tracker s)
                        (if pushed then payloads s ++ [(next_id (sh (base s)), pay)] else payloads s)
                        (lthrs s) (lacks s) (borrowed s)
                        (inverted s || (pushed && newer_queued (payloads s) pay))).
      assert (Hpushed : (pushed = false /\ next_id sg' = next_id (sh (base s))) \/
                        (pushed = true /\ next_id sg' = next_id (sh (base s)) + 1 /\ pc th = S401 /\ pc th' = S301 /\ myid th' = next_id (sh (base s)))).
      { unfold pushed. destruct Hnext as [Hn|[Hn [A [B [C _]]]]].
        - left. rewrite Hn, Z.eqb_refl. auto.
        - right. rewrite Hn. replace (next_id (sh (base s)) + 1 =? next_id (sh (base s))) with false by (symmetry; apply Z.eqb_neq; lia). auto. }
      assert (E : ext38 t s s1).
      { constructor; cbn [s1 base sh payloads images borrowed]; auto.
        - destruct Hpushed as [[-> _]|[-> _]]; [left; reflexivity | right; eexists; reflexivity].
        - destruct Hpushed as [[_ ->]|[_ [-> _]]]; lia.
        - intros a Ha. destruct Hacks as [Hsame|[r [Hnew _]]]; [left; rewrite <- Hsame; exact Ha|].
          rewrite Hnew in Ha. apply in_app_iff in Ha. destruct Ha as [Ha|[<-|[]]]; [left; exact Ha | right; reflexivity]. }
      assert (Hpay_old : forall id, In id (log (sh (base s))) ->
                payload_of (if pushed then payloads s ++ [(next_id (sh (base s)), pay)] else payloads s) id = payload_of (payloads s) id).
      { intros id Hid. destruct pushed; [|reflexivity]. apply payload_of_app_other.
        pose proof (log_bound _ _ HSI Hid). lia. }
      assert (Hfr : exists x, frames s1 = frames s ++ x).
      { unfold frames. cbn [s1 base sh payloads]. rewrite Hlog, flat_map_app. eexists.
        rewrite (flat_map_payload_ext _ _ _ Hpay_old). reflexivity. }
      destruct Hfr as [x Hfr].
      assert (Hlt : lthrs s1 = lset (lthrs s) t (LThr lp lc LCommit k0 pay)).
      { cbn [s1 lthrs]. symmetry. apply lset_same. exact El. }
      constructor.
      * cbn [s1 base]. split; assumption.
      * cbn [s1 base sh payloads]. intros id Hid.
        destruct Hpushed as [[Hp Hn]|[Hp [Hn _]]]; rewrite Hp in Hid; rewrite Hn.
        -- apply (ks_pids _ HK). exact Hid.
        -- rewrite map_app in Hid. apply in_app_iff in Hid. destruct Hid as [Hid|[<-|[]]]; [pose proof (ks_pids _ HK id Hid); lia|].
           cbn [fst]. pose proof (si_next _ HSI). lia.
      * eapply threads_update; [exact Hlt | eapply others_keep; eauto |].
        -- intros u Hne. cbn [s1 base thrs]. apply lget_lset_other. congruence.
        -- exists th'. split; [cbn [s1 base thrs]; apply lget_lset_same|].
           destruct HP. cbn [lcur lprog lpc lpayload] in *.
           constructor; cbn [lcur lprog lpc lpayload s1 images base sh payloads borrowed]; auto.
           ++ intros H. exfalso. apply H. reflexivity.
           ++ (* link *)
              intros _. specialize (pt_link0 eq_refl).
              destruct HTS; split_p0; cbn [pc prog cur myid] in *;
                try (destruct Hpushed as [[-> _]|[_ [_ [Hx _]]]]; [|discriminate Hx]);
                try (destruct pt_link0 as [A B]; first [split; [exact A | exact B] | split; [intros Hne; exfalso; apply Hne; exact A | intros _; exact B] | split; [exact A | intros _; exact B]]; fail).
              ** (* begin *) destruct pt_link0 as [A _]. specialize (A ltac:(discriminate)). injection A as -> ->. repeat split; reflexivity.
              ** (* empty *) destruct pt_link0 as [A [B C]]. split; [exact A|]. left. split; [exact C|].
                 match goal with H : op_empty _ = true |- _ => rewrite H in B end.
                 destruct pay; [reflexivity | discriminate B].
              ** (* push *) destruct Hpushed as [[_ Hn]|[-> _]]; [cbn [next_id sh_push] in Hn; lia|].
                 destruct pt_link0 as [A _]. split; [exact A|]. right. cbn [myid lpayload]. split; [pose proof (si_next _ HSI); lia|].
                 apply payload_of_app_fresh. intros Hin. pose proof (ks_pids _ HK _ Hin). lia.
           ++ (* id *)
              destruct Hpushed as [[_ Hn]|[_ [Hn [_ [_ Hm]]]]]; rewrite Hn.
              ** destruct HTS; cbn [myid sh_push next_id] in *; auto; try lia.
              ** right. rewrite Hm. pose proof (si_next _ HSI). lia.
           ++ (* acks *)
              intros a Ha Hthr. destruct Hacks as [Hsame|[r [Hnew [Hpc' [Hm' Hk']]]]].
              ** rewrite Hsame in Ha. specialize (pt_acks0 a Ha Hthr).
                 destruct HTS; split_p0; cbn [pc kidx myid] in *; try (destruct pt_acks0 as [Hq|[_ [Hq _]]]; [left; exact Hq | discriminate Hq]; fail);
                   try (destruct pt_acks0 as [Hq|[Hq _]]; left; lia).
              ** rewrite Hnew in Ha. apply in_app_iff in Ha. destruct Ha as [Ha|[<-|[]]].
                 --- specialize (pt_acks0 a Ha Hthr). left. rewrite Hk'.
                     destruct pt_acks0 as [Hq|[_ [Hq _]]]; [exact Hq|]. exfalso.
                     destruct HTS; cbn [pc] in *; try discriminate Hq; try discriminate Hpc';
                       cbn [acks sh_push sh_set_fip sh_wait sh_ack sh_steal sh_drain sh_write sh_complete sh_err sh_notify_all] in Hnew;
                       apply (f_equal (@length ack)) in Hnew; rewrite app_length in Hnew; cbn [length] in Hnew; lia.
                 --- right. cbn [a_k a_id]. auto.
      * intros a Ha. cbn [s1 lacks] in Ha. unfold nframes. rewrite Hfr, app_length.
        pose proof (ks_lacks_len _ HK a Ha) as H. unfold nframes in H. lia.
      * cbn [s1 base sh borrowed lacks]. intros Hb Hs a Ha. rewrite Hfr.
        apply covered_app; [apply (ks_lacks_len _ HK); exact Ha | apply (ks_lacks _ HK); auto].
Qed.

(* ------------------------------------------------------------------ initial state, theorem *)
Definition wf_progs (progs : list (list txn)) : Prop :=
  forall p x q u, In p progs -> In x p -> In (q, u) x -> 0 <= u.

Lemma lget_number_from_map2 {A B C} (f : A -> B) (g : A -> C) (l : list A) n t x :
  lget (number_from n (map f l)) t = Some x ->
  exists e, In e l /\ x = f e /\ lget (number_from n (map g l)) t = Some (g e).
Proof.
  revert n. induction l as [|a l IH]; intros n; cbn [map number_from lget]; [discriminate|].
  destruct (Nat.eqb n t).
  - intros H. injection H as <-. exists a. split; [left; reflexivity | auto].
  - intros H. destruct (IH _ H) as [e [He [Hx Hg]]]. exists e. split; [right; exact He | auto].
Qed.

Lemma KS_init progs : wf_progs progs -> KS (init38 progs).
Proof.
  intros Hwf. constructor; cbn [init38 base payloads lthrs lacks borrowed].
  - apply Inv_init.
  - intros id [].
  - intros t lt Hl.
    destruct (lget_number_from_map2 (fun p => LThr p [] LIdle 0 []) (fun _ : list txn => init_thr []) progs 0 t lt Hl) as [p [Hp [-> Hg]]].
    exists (init_thr []). split.
    + cbn [init thrs]. rewrite map_map. exact Hg.
    + constructor; cbn; auto; try discriminate.
      * split; [intros q u [] | intros x Hx q u Hin; eapply Hwf; eauto].
      * intros a [].
  - intros a [].
  - intros _ _ a [].
Qed.

Theorem KS_run fx progs sched : wf_progs progs -> KS (run (step38 fx) sched (init38 progs)).
Proof. intros Hwf. apply invariant_rule; [apply KS_init; exact Hwf | intros t s s' HK; apply KS_step; exact HK]. Qed.

(* every acknowledged transaction has each of its writes in a frame that was in the log when its
   COMMIT returned - unless a page of some transaction had been taken out of the dirty tracker by
   another handle's capture (class 2), or C37's defect struck (class 3) *)
Lemma coverage_outside_known_classes_l :
  forall fx progs sched, wf_progs progs ->
    let s := run (step38 fx) sched (init38 progs) in
    borrowed s = false -> stolen (sh (base s)) = false ->
    forall a, In a (lacks s) -> covered (frames s) a = true.
Proof. intros fx progs sched Hwf s Hb Hs. apply (ks_lacks _ (KS_run fx progs sched Hwf)); assumption. Qed.


(* ------------------------------------------------------------------ the code as it is (fx = true): class 3 is empty *)
(* handing a base thread its next commit (the layer's capture step) touches no field the
   liveness / single-leader invariants of the C37 protocol look at *)
Definition with_prog (th : thr) (p : list op) : thr :=
  Thr p (cur th) (pc th) (kidx th) (myid th) (elected th) (batch th) (wok th).

Lemma LI_set_prog fx s l t th p :
  lget l t = Some th -> LI fx (MkSt s l) -> LI fx (MkSt s (lset l t (with_prog th p))).
Proof.
  intros Hl HL.
  pose proof (li_fip _ _ HL) as li_fip0. pose proof (li_wait _ _ HL) as li_wait0. pose proof (li_held _ _ HL) as li_held0.
  pose proof (li_sub _ _ HL) as li_sub0. pose proof (li_owner _ _ HL) as li_owner0. pose proof (li_subs _ _ HL) as li_subs0.
  pose proof (li_att _ _ HL) as li_att0. cbn [sh thrs] in *.
  assert (Hex : forall P : thr -> bool, (forall x, P (with_prog x p) = P x) -> Ex P l -> Ex P (lset l t (with_prog th p))).
  { intros P HP A. eapply Ex_step; [exact Hl | exact A | rewrite HP; auto]. }
  assert (Hc1 : forall x, comm1 (with_prog x p) = comm1 x) by (intros []; reflexivity).
  assert (Hc2 : forall x, comm2 (with_prog x p) = comm2 x) by (intros []; reflexivity).
  assert (Hpo : forall x, potent fx (with_prog x p) = potent fx x) by (intros []; reflexivity).
  constructor; cbn [sh thrs].
  - intros Hf. destruct (li_fip0 Hf) as [A|[B1 B2]]; [left | right; split; [exact B1|]]; eapply Hex; eauto.
  - intros Hf. destruct (li_wait0 Hf) as [A|[B1 B2]]; [left | right; split; [exact B1|]]; eapply Hex; eauto.
  - intros c u Hin. destruct (li_held0 c u Hin) as [A|B]; [left; exact A | right].
    eapply exth_step; [exact Hl | exact B|]. intros _ Hh. destruct th; exact Hh.
  - intros u x Hu Hw. destruct (lget_lset_cases _ _ _ _ _ Hu) as [[-> ->]|[Hne Hu']].
    + destruct th; cbn in *. apply (li_sub0 t _ Hl Hw).
    + apply (li_sub0 u x Hu' Hw).
  - intros c Hc. destruct (li_owner0 c Hc) as [u [x [Hu [Hm Ho]]]].
    destruct (Nat.eq_dec t u) as [->|Hne].
    + exists u, (with_prog th p). split; [apply lget_lset_same|]. assert (x = th) by congruence. subst x.
      destruct th; cbn in *; auto.
    + exists u, x. split; [rewrite lget_lset_other by exact Hne; exact Hu | auto].
  - exact li_subs0.
  - intros c u Hin. destruct (li_att0 c u Hin) as [A|B]; [left; exact A | right].
    eapply exth_step; [exact Hl | exact B|]. intros _ Hh. destruct th; exact Hh.
Qed.

Lemma RI_set_prog s l t th p :
  lget l t = Some th -> RI (MkSt s l) -> RI (MkSt s (lset l t (with_prog th p))).
Proof.
  intros Hl HR.
  pose proof (ri_nel _ HR) as ri_nel0. pose proof (ri_fip _ HR) as ri_fip0. pose proof (ri_one _ HR) as ri_one0.
  pose proof (ri_304 _ HR) as ri_3040. pose proof (ri_own _ HR) as ri_own0. pose proof (ri_stolen _ HR) as ri_stolen0.
  cbn [sh thrs] in *.
  assert (Hle : leader (with_prog th p) = leader th) by (destruct th; reflexivity).
  constructor; cbn [sh thrs].
  - intros u x Hu Hp. destruct (lget_lset_cases _ _ _ _ _ Hu) as [[-> ->]|[Hne Hu']]; [|eapply ri_nel0; eauto].
    specialize (ri_nel0 t th Hl). destruct th; cbn in *. auto.
  - intros u x Hu Hp. destruct (lget_lset_cases _ _ _ _ _ Hu) as [[-> ->]|[Hne Hu']]; [|eapply ri_fip0; eauto].
    rewrite Hle in Hp. eapply ri_fip0; eauto.
  - intros u v xu xv Hne Hu Hv Hlu Hlv.
    destruct (lget_lset_cases _ _ _ _ _ Hu) as [[-> ->]|[Hnu Hu']];
      destruct (lget_lset_cases _ _ _ _ _ Hv) as [[-> ->]|[Hnv Hv']]; rewrite ?Hle in *.
    + congruence.
    + eapply (ri_one0 t v); eauto.
    + eapply (ri_one0 u t); eauto.
    + eapply (ri_one0 u v); eauto.
  - intros u x Hu Hp. destruct (lget_lset_cases _ _ _ _ _ Hu) as [[-> ->]|[Hne Hu']]; [|eapply ri_3040; eauto].
    specialize (ri_3040 t th Hl). destruct th; cbn in *. auto.
  - intros u x Hu Hp He. destruct (lget_lset_cases _ _ _ _ _ Hu) as [[-> ->]|[Hne Hu']]; [|eapply ri_own0; eauto].
    specialize (ri_own0 t th Hl). destruct th; cbn in *. auto.
  - exact ri_stolen0.
Qed.

Lemma RInv_set_prog s t p : RInv s -> RInv (set_base_prog s t p).
Proof.
  intros [[HI HL] HR]. unfold set_base_prog. destruct (lget (thrs s) t) as [th|] eqn:E; [|exact (conj (conj HI HL) HR)].
  pose proof (Inv_set_prog s t p HI) as HI'. unfold set_base_prog in HI'. rewrite E in HI'.
  destruct s as [sg l]. cbn [sh thrs] in *.
  split; [split; [exact HI'|]|].
  - apply (LI_set_prog true sg l t th p E HL).
  - apply (RI_set_prog sg l t th p E HR).
Qed.

Lemma step38_base fx t s s' :
  step38 fx t s = Some s' ->
  base s' = base s \/ (exists p, base s' = set_base_prog (base s) t p) \/ step fx t (base s) = Some (base s').
Proof.
  unfold step38. destruct (lget (lthrs s) t) as [lt|]; [|discriminate].
  destruct (lpc lt).
  - destruct (lprog lt); [discriminate|]. intros H. injection H as <-. left. reflexivity.
  - destruct ws as [|[p u] ws]; intros H; injection H as <-; left; reflexivity.
  - intros H. injection H as <-. left. reflexivity.
  - destruct (tracker s); intros H; injection H as <-; left; reflexivity.
  - intros H. injection H as <-. right. left. eexists. reflexivity.
  - destruct (base_finished (base s) t); [intros H; injection H as <-; left; reflexivity|].
    destruct (step fx t (base s)) as [b'|] eqn:E; [|discriminate]. intros H. injection H as <-. right. right. reflexivity.
Qed.

Theorem RInv_run38 progs sched : RInv (base (run (step38 true) sched (init38 progs))).
Proof.
  apply (invariant_rule St38 (step38 true) (fun s => RInv (base s))).
  - cbn [init38 base]. apply RInv_init.
  - intros t s s' HR Hst. destruct (step38_base _ _ _ _ Hst) as [->|[[p ->]|Hb]].
    + exact HR.
    + apply RInv_set_prog. exact HR.
    + eapply RInv_step; eauto.
Qed.

(* the code as it is: only class 2 is left *)
Lemma coverage_outside_known_class_l :
  forall progs sched, wf_progs progs ->
    let s := run (step38 true) sched (init38 progs) in
    borrowed s = false ->
    forall a, In a (lacks s) -> covered (frames s) a = true.
Proof.
  intros progs sched Hwf s Hb. apply (coverage_outside_known_classes_l true progs sched Hwf Hb).
  apply (ri_stolen _ (proj2 (RInv_run38 progs sched))).
Qed.
