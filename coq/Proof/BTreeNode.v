(* C28 proofs, part 5: one interior page - where a new separator goes (find_insert_position, the
   position() of split_interior, the `separator >= last key` test and the search for the slot to
   re-point all agree with the routing index), and the effect of insert_into_interior /
   split_interior as a structural splice. *)
From Coq Require Import ZArith List Bool Lia Sorting.Permutation Sorting.Sorted.
From TV Require Import Lib.MachInt Gen.Varint Model.BTree Model.BTreeSpec Model.BTreeInv
  Proof.BTreeOrder Proof.BTreeInv Proof.BTreeLeaf Proof.BTreeMid.
Import ListNotations.
Open Scope Z_scope.
Arguments Z.sub : simpl never.
Arguments Z.add : simpl never.
Arguments Z.mul : simpl never.
Arguments Z.of_nat : simpl never.

(* s belongs at index i of a strictly increasing separator list *)
Fixpoint sep_pos (seps : list key) (i : nat) (s : key) : Prop :=
  match seps, i with
  | [], _ => True
  | x :: r, O => klt s x /\ sep_pos r O s
  | x :: r, S j => klt x s /\ sep_pos r j s
  end.

Section N.
Variable V : Type.
Variable vlen : V -> Z.
Notation entry := (entry V).
Notation tree := (tree V).
Notation kid := (kid V).
Notation abs := (abs V).
Notation kids_bounded := (kids_bounded V).
Notation kabs := (kabs V).

Lemma sep_pos_all_gt (P : option key -> option key -> tree -> Prop) kids : forall a hi r s,
  kids_bounded P (Some a) hi kids r -> klt s a -> sep_pos (map fst kids) O s.
Proof.
  induction kids as [|sc rest IH]; intros a hi r s HB Hs; cbn; [exact I|].
  destruct HB as (H1 & H2 & H3 & H4). cbn in H1. split; [eapply klt_trans; eassumption|].
  eapply IH; [exact H4 | eapply klt_trans; eassumption].
Qed.

Lemma lo_at_gt (P : option key -> option key -> tree -> Prop) kids : forall a hi r j s,
  kids_bounded P (Some a) hi kids r -> lo_lt (lo_at V (Some a) kids j) s -> klt a s.
Proof.
  induction kids as [|sc rest IH]; intros a hi r j s HB Hs.
  - destruct j; exact Hs.
  - destruct j as [|j]; [exact Hs|]. destruct HB as (H1 & H2 & H3 & H4). cbn in Hs.
    eapply klt_trans; [exact H1|]. eapply IH; eassumption.
Qed.

Lemma kids_sep_pos (P : option key -> option key -> tree -> Prop) kids : forall lo hi r i s,
  kids_bounded P lo hi kids r -> lo_lt (lo_at V lo kids i) s -> hi_ok (hi_at V hi kids i) s ->
  sep_pos (map fst kids) i s.
Proof.
  induction kids as [|sc rest IH]; intros lo hi r i s HB Hlo Hhi; cbn [map sep_pos]; [exact I|].
  destruct HB as (H1 & H2 & H3 & H4). destruct i as [|j].
  - cbn in Hhi. split; [exact Hhi|]. eapply sep_pos_all_gt; eassumption.
  - cbn in Hlo, Hhi. split; [eapply lo_at_gt; eassumption|]. eapply IH; eassumption.
Qed.

Lemma ipos_sep_pos s (kids : list kid) : forall i, sep_pos (map fst kids) i s -> (i <= length kids)%nat -> ipos V s kids = Some i.
Proof.
  induction kids as [|sc rest IH]; intros i H Hi; cbn [ipos map sep_pos length] in *.
  - f_equal. lia.
  - destruct i as [|j]; destruct H as [H1 H2].
    + rewrite H1. reflexivity.
    + apply kcmp_gt_lt in H1. rewrite H1. rewrite (IH j H2) by lia. reflexivity.
Qed.

Lemma ppos_sep_pos s (kids : list kid) : forall i, sep_pos (map fst kids) i s -> (i <= length kids)%nat -> ppos s kids = i.
Proof.
  induction kids as [|sc rest IH]; intros i H Hi; cbn [ppos map sep_pos length] in *.
  - lia.
  - destruct i as [|j]; destruct H as [H1 H2].
    + apply kltb_true in H1. rewrite H1. reflexivity.
    + assert (E : kltb s (fst sc) = false) by (apply kltb_false; intros H3; exact (klt_asym _ _ H1 H3)).
      rewrite E. f_equal. apply IH; [exact H2 | lia].
Qed.

Lemma first_eq_sep_pos s c (kids : list kid) : forall i, sep_pos (map fst kids) i s -> (i <= length kids)%nat ->
  first_eq V s (insert_at i (s, c) kids) = i.
Proof.
  induction kids as [|sc rest IH]; intros i H Hi.
  - cbn in Hi. assert (i = O) by lia. subst. cbn. unfold keqb. rewrite kcmp_refl. reflexivity.
  - destruct i as [|j].
    + cbn. unfold keqb. rewrite kcmp_refl. reflexivity.
    + destruct H as [H1 H2]. unfold insert_at. cbn [firstn skipn app first_eq fst].
      assert (E : keqb (fst sc) s = false) by (apply keqb_false; intros Heq; rewrite Heq in H1; exact (klt_irrefl _ H1)).
      rewrite E. f_equal. apply (IH j H2). cbn in Hi. lia.
Qed.

Lemma last_sep_pos s (kids : list kid) : forall i lastk, sep_pos (map fst kids) i s -> (i <= length kids)%nat ->
  last (map (fun x : kid => Some (fst x)) kids) None = Some lastk ->
  (kleb lastk s = true <-> i = length kids).
Proof.
  induction kids as [|sc rest IH]; intros i lastk H Hi Hl; [discriminate|].
  destruct rest as [|sc2 rest2].
  - cbn in Hl. injection Hl as <-. cbn in H, Hi. destruct i as [|[|j]]; try lia.
    + destruct H as [H1 _]. split; [intros H2; apply kleb_true in H2; contradiction | discriminate].
    + destruct H as [H1 _]. split; [reflexivity|]. intros _. apply kleb_true. intros H2. exact (klt_asym _ _ H1 H2).
  - change (last (map (fun x : kid => Some (fst x)) (sc2 :: rest2)) None = Some lastk) in Hl.
    destruct i as [|j].
    + destruct H as [H1 H2]. split; [|discriminate]. intros H3. exfalso.
      assert (Hr := IH O lastk H2 ltac:(cbn; lia) Hl). apply Hr in H3. discriminate.
    + destruct H as [H1 H2]. cbn in Hi. rewrite (IH j lastk H2 ltac:(cbn; lia) Hl). cbn [length]. lia.
Qed.

(* ---------------------------------------------------------------- the structural splice *)
Definition splice (kids : list kid) (r : tree) (i : nat) (L : tree) (s : key) (R : tree) : list kid * tree :=
  match nth_error kids i with
  | Some sc => (firstn i kids ++ (s, L) :: (fst sc, R) :: skipn (S i) kids, r)
  | None => (kids ++ [(s, L)], R)
  end.

Lemma splice_nil r i L s R : splice [] r i L s R = ([(s, L)], R).
Proof. unfold splice. destruct i; reflexivity. Qed.
Lemma splice_0 sc rest r L s R : splice (sc :: rest) r 0 L s R = ((s, L) :: (fst sc, R) :: rest, r).
Proof. reflexivity. Qed.
Lemma splice_S sc rest r j L s R :
  splice (sc :: rest) r (S j) L s R = (sc :: fst (splice rest r j L s R), snd (splice rest r j L s R)).
Proof. unfold splice. cbn [nth_error]. destruct (nth_error rest j); reflexivity. Qed.

Lemma splice_bounded (P : option key -> option key -> tree -> Prop) kids : forall lo hi r i L s R,
  kids_bounded P lo hi kids r -> (i <= length kids)%nat ->
  P (lo_at V lo kids i) (Some s) L -> P (Some s) (hi_at V hi kids i) R ->
  lo_lt (lo_at V lo kids i) s -> hi_ok (hi_at V hi kids i) s ->
  kids_bounded P lo hi (fst (splice kids r i L s R)) (snd (splice kids r i L s R)).
Proof.
  induction kids as [|sc rest IH]; intros lo hi r i L s R HB Hi HL HR Hlo Hhi.
  - rewrite splice_nil. cbn in Hi. assert (i = O) by lia. subst. cbn in *. auto.
  - destruct HB as (H1 & H2 & H3 & H4). destruct i as [|j].
    + rewrite splice_0. cbn in HL, HR, Hlo, Hhi. cbn [fst snd BTreeInv.kids_bounded].
      split; [exact Hlo|]. split; [eapply hi_ok_lt; [exact Hhi | exact H2]|]. split; [exact HL|].
      split; [exact Hhi|]. split; [exact H2|]. split; [exact HR | exact H4].
    + rewrite splice_S. cbn [fst snd BTreeInv.kids_bounded]. repeat split; try assumption.
      apply IH; try assumption. cbn in Hi. lia.
Qed.

Lemma splice_abs h' kids : forall r i L s R,
  Permutation (kabs h' (fst (splice kids r i L s R)) (snd (splice kids r i L s R)))
              (abs h' R ++ kabs h' (fst (set_child V kids r i L)) (snd (set_child V kids r i L))).
Proof.
  induction kids as [|sc rest IH]; intros r i L s R.
  - rewrite splice_nil, set_child_nil. cbn [fst snd]. rewrite kabs_cons, !kabs_nil. cbn [snd]. apply Permutation_app_comm.
  - destruct i as [|j].
    + rewrite splice_0, set_child_0. cbn [fst snd]. rewrite !kabs_cons. cbn [snd].
      rewrite !app_assoc. apply Permutation_app_tail. apply Permutation_app_comm.
    + rewrite splice_S, set_child_S. cbn [fst snd]. rewrite !kabs_cons.
      eapply Permutation_trans; [apply Permutation_app_head; apply IH|].
      rewrite !app_assoc. apply Permutation_app_tail. apply Permutation_app_comm.
Qed.

Lemma ifree_cons sc (rest : list kid) : ifree V (sc :: rest) = ifree V rest - (klen (fst sc) + ISLOT).
Proof. unfold ifree. cbn [map]. rewrite sumz_cons. lia. Qed.
Lemma ifree_app (a b : list kid) : ifree V (a ++ b) = ifree V a + ifree V b - (PAGE - INT_START).
Proof. unfold ifree. rewrite map_app, sumz_app. lia. Qed.

Lemma splice_ifree kids : forall r i L s R,
  ifree V (fst (splice kids r i L s R)) = ifree V kids - (klen s + ISLOT).
Proof.
  induction kids as [|sc rest IH]; intros r i L s R.
  - rewrite splice_nil. cbn [fst]. rewrite ifree_cons. reflexivity.
  - destruct i as [|j].
    + rewrite splice_0. cbn [fst]. rewrite !ifree_cons. cbn [fst]. lia.
    + rewrite splice_S. cbn [fst]. rewrite !ifree_cons, IH. lia.
Qed.

(* ---------------------------------------------------------------- list surgery of insert_into_interior *)
Lemma lists_mid (a b : list kid) (sc : kid) (L R : tree) s :
  replace_at (length a) (fst sc, L) (a ++ sc :: b) = a ++ (fst sc, L) :: b
  /\ insert_at (length a) (s, L) (a ++ (fst sc, L) :: b) = a ++ (s, L) :: (fst sc, L) :: b
  /\ nth_error (a ++ (s, L) :: (fst sc, L) :: b) (S (length a)) = Some (fst sc, L)
  /\ replace_at (S (length a)) (fst sc, R) (a ++ (s, L) :: (fst sc, L) :: b) = a ++ (s, L) :: (fst sc, R) :: b
  /\ splice (a ++ sc :: b) (Leaf (mkLeaf 0 [] 0 0)) (length a) L s R = (a ++ (s, L) :: (fst sc, R) :: b, Leaf (mkLeaf 0 [] 0 0))
  /\ nth_error (a ++ sc :: b) (length a) = Some sc.
Proof.
  induction a as [|x a IH]; [repeat split|].
  destruct IH as (I1 & I2 & I3 & I4 & I5 & I6). unfold replace_at, insert_at in *. cbn [length firstn skipn app nth_error].
  repeat split.
  - f_equal. exact I1.
  - f_equal. exact I2.
  - exact I3.
  - f_equal. exact I4.
  - rewrite splice_S. rewrite I5. reflexivity.
  - exact I6.
Qed.

Lemma splice_mid (a b : list kid) (sc : kid) r (L R : tree) s :
  splice (a ++ sc :: b) r (length a) L s R = (a ++ (s, L) :: (fst sc, R) :: b, r).
Proof.
  induction a as [|x a IH]; [reflexivity|]. cbn [length app]. rewrite splice_S, IH. reflexivity.
Qed.
Lemma set_child_mid (a b : list kid) (sc : kid) r (L : tree) :
  set_child V (a ++ sc :: b) r (length a) L = (a ++ (fst sc, L) :: b, r).
Proof.
  induction a as [|x a IH]; [reflexivity|]. cbn [length app]. rewrite set_child_S, IH. reflexivity.
Qed.
Lemma set_child_end (kids : list kid) r (L : tree) : set_child V kids r (length kids) L = (kids, L).
Proof. unfold set_child. rewrite (proj2 (nth_error_None kids (length kids))) by lia. reflexivity. Qed.
Lemma splice_end (kids : list kid) r (L R : tree) s : splice kids r (length kids) L s R = (kids ++ [(s, L)], R).
Proof. unfold splice. rewrite (proj2 (nth_error_None kids (length kids))) by lia. reflexivity. Qed.

Lemma int_ins_room id (kids : list kid) r i (L : tree) s (R : tree) np :
  sep_pos (map fst kids) i s -> (i <= length kids)%nat -> klen s + ISLOT <= ifree V kids ->
  int_ins V id kids r i L s R np = IOk (Node id (fst (splice kids r i L s R)) (snd (splice kids r i L s R))) np.
Proof.
  intros Hsp Hi Hroom. unfold int_ins. destruct (set_child V kids r i L) as [kids1 right1] eqn:Esc.
  destruct (Z.leb_spec (klen s + ISLOT) (ifree V kids)) as [_ | Hc]; [|lia].
  match goal with |- context [last ?l None] => destruct (last l None) as [lastk|] eqn:El end.
  2:{ (* no separators *)
      assert (Hk : kids = []).
      { destruct kids as [|x k]; [reflexivity|]. exfalso. clear - El. revert x El. induction k as [|y k IH]; intros x El; [discriminate|]. exact (IH y El). }
      subst kids. cbn [length] in Hi. assert (i = O) by lia. subst i. rewrite set_child_nil in Esc. injection Esc as <- <-.
      rewrite splice_nil. reflexivity. }
  pose proof (last_sep_pos s kids i lastk Hsp Hi El) as Hlast.
  assert (Hseps1 : map fst kids1 = map fst kids) by (rewrite <- (set_child_seps V kids r i L), Esc; reflexivity).
  assert (Hlen1 : length kids1 = length kids) by (rewrite <- (set_child_length V kids r i L), Esc; reflexivity).
  assert (Hip : ipos V s kids1 = Some i) by (apply ipos_sep_pos; [rewrite Hseps1; exact Hsp | lia]).
  destruct (kleb lastk s) eqn:Ek.
  - assert (i = length kids) by (apply Hlast; reflexivity). subst i.
    rewrite set_child_end in Esc. injection Esc as <- <-. rewrite Hip, insert_at_length, splice_end. reflexivity.
  - assert (Hne : i <> length kids) by (intros H; apply Hlast in H; discriminate).
    assert (Hlt : (i < length kids)%nat) by lia.
    destruct (nth_error kids i) as [sc|] eqn:En; [|apply nth_error_None in En; lia].
    destruct (nth_error_split _ _ En) as (a & b & Hk & Hla). subst kids i.
    rewrite set_child_mid in Esc. injection Esc as <- <-. rewrite splice_mid. cbn [fst snd].
    rewrite Hip. destruct (lists_mid a b sc L R s) as (_ & I2 & I3 & I4 & _ & _).
    assert (Hfe : first_eq V s (insert_at (length a) (s, L) (a ++ (fst sc, L) :: b)) = length a).
    { apply first_eq_sep_pos.
      - rewrite map_app in *. cbn [map fst] in *. exact Hsp.
      - rewrite app_length. cbn [length]. lia. }
    rewrite I2 in Hfe |- *. rewrite Hfe.
    match goal with |- context [match ?x with Some _ => _ | None => _ end] => replace x with (Some (fst sc, L)) by (symmetry; exact I3) end.
    cbn [fst]. f_equal. f_equal. exact I4.
Qed.

(* ---------------------------------------------------------------- split_interior *)
Lemma insert_at_app' {A} (a b : list A) x n : n = length a -> insert_at n x (a ++ b) = a ++ x :: b.
Proof.
  intros ->. unfold insert_at. induction a as [|y a IH]; cbn [length firstn skipn app]; [reflexivity|]. f_equal. exact IH.
Qed.
Lemma combine_firstn_map (K : list kid) m : combine (firstn m (map fst K)) (firstn m (map snd K)) = firstn m K.
Proof.
  revert m. induction K as [|x K IH]; intros [|m]; cbn; try reflexivity. rewrite IH. destruct x; reflexivity.
Qed.
Lemma combine_skipn_map (K : list kid) m : combine (skipn m (map fst K)) (skipn m (map snd K)) = skipn m K.
Proof.
  revert m. induction K as [|x K IH]; intros [|m]; cbn; try reflexivity.
  - f_equal; [destruct x; reflexivity|]. apply (IH O).
  - apply IH.
Qed.

Definition ksizes (K : list kid) : list Z := map (fun sc : kid => klen (fst sc) + ISLOT) K.
Definition si_body (id np : Z) (K : list kid) (rr : tree) : ires V :=
  match best_mid (ksizes K) (sumz (ksizes K)) (length K / 2)%nat O 0 None with
  | None => IErr EIntFull
  | Some mid =>
      match nth_error K mid with
      | Some pc =>
          match build_kids V [] (firstn mid K), build_kids V [] (skipn (S mid) K) with
          | inr lk, inr rk => ISplit (Node id lk (snd pc)) (fst pc) (Node np rk rr) (np + 1)
          | inl e, _ => IErr e
          | _, inl e => IErr e
          end
      | None => IErr EPanic
      end
  end.

Lemma split_interior_eq id (kids : list kid) r i (L : tree) s (R : tree) np :
  sep_pos (map fst kids) i s -> (i <= length kids)%nat ->
  split_interior V id (fst (set_child V kids r i L)) (snd (set_child V kids r i L)) s R np
  = si_body id np (fst (splice kids r i L s R)) (snd (splice kids r i L s R)).
Proof.
  intros Hsp Hi. unfold split_interior.
  assert (Hseps1 : map fst (fst (set_child V kids r i L)) = map fst kids) by apply set_child_seps.
  assert (Hlen1 : length (fst (set_child V kids r i L)) = length kids) by apply set_child_length.
  rewrite (ppos_sep_pos s (fst (set_child V kids r i L)) i) by (rewrite ?Hseps1, ?Hlen1; assumption || lia).
  assert (Hgen : forall (K : list kid) (rr : tree) seps' chs' lastc,
     seps' = map fst K -> chs' = map snd K -> lastc = rr ->
     match best_mid (map (fun k : key => klen k + ISLOT) seps') (sumz (map (fun k : key => klen k + ISLOT) seps')) (length seps' / 2) 0 0 None with
     | None => IErr EIntFull
     | Some mid =>
     match nth_error seps' mid, nth_error chs' mid with
     | Some prom, Some lright =>
         match build_kids V [] (combine (firstn mid seps') (firstn mid chs')),
               build_kids V [] (combine (skipn (S mid) seps') (skipn (S mid) chs')) with
         | inr lk, inr rk => ISplit (Node id lk lright) prom (Node np rk lastc) (np + 1)
         | inl e, _ => IErr e
         | _, inl e => IErr e
         end
     | _, _ => IErr EPanic
     end
     end = si_body id np K rr).
  { intros K rr seps' chs' lastc -> -> ->. unfold si_body, ksizes. rewrite map_map, map_length.
    destruct (best_mid _ _ _ _ _ _) as [mid|]; [|reflexivity].
    rewrite combine_firstn_map, combine_skipn_map.
    rewrite !nth_error_map. unfold BTree.kid in *. destruct (nth_error K mid) as [pc|]; reflexivity. }
  destruct (nth_error kids i) as [sc|] eqn:En.
  - destruct (nth_error_split _ _ En) as (a & b & Hk & Hla). subst kids i.
    rewrite set_child_mid, splice_mid. cbn [fst snd].
    assert (Hne : (length a =? length (map snd (a ++ (fst sc, L) :: b)))%nat = false).
    { apply Nat.eqb_neq. rewrite map_length, app_length. cbn [length]. lia. }
    rewrite Hne. apply Hgen.
    + rewrite !map_app. cbn [map fst]. apply insert_at_app'. rewrite map_length. reflexivity.
    + rewrite !map_app. cbn [map snd].
      change (map snd a ++ L :: map snd b) with (map snd a ++ [L] ++ map snd b). rewrite app_assoc.
      rewrite (insert_at_app' (map snd a ++ [L]) (map snd b) R) by (unfold BTree.kid in *; rewrite app_length, map_length; cbn [length]; lia).
      rewrite <- app_assoc. reflexivity.
    + match goal with |- (if ?c then _ else _) = _ => replace c with false; [reflexivity|] end.
      symmetry. apply Nat.eqb_neq. rewrite (Permutation_length (insert_at_perm _ _ _)).
      unfold BTree.kid in *. cbn [length]. rewrite map_length, app_length. cbn [length]. lia.
  - assert (i = length kids) by (apply nth_error_None in En; lia). subst i.
    rewrite set_child_end, splice_end. cbn [fst snd].
    rewrite map_length, Nat.eqb_refl. apply Hgen.
    + rewrite <- (map_length fst kids) at 1. rewrite insert_at_length, map_app. reflexivity.
    + rewrite map_app. reflexivity.
    + match goal with |- (if ?c then _ else _) = _ => replace c with true; [reflexivity|] end.
      symmetry. apply Nat.eqb_eq. unfold BTree.kid in *. rewrite app_length, map_length. cbn [length]. lia.
Qed.

(* ---------------------------------------------------------------- rebuilding a page from sorted separators *)
Lemma sorted_app_mid_lt (a : list key) s tl x : StronglySorted klt (a ++ s :: tl) -> In x a -> klt x s.
Proof.
  induction a as [|y a IH]; intros Hs Hx; [destruct Hx|]. cbn [app] in Hs. inversion Hs as [|? ? Hs3 Hfa]; subst.
  destruct Hx as [<- | Hx]; [|apply IH; assumption].
  rewrite Forall_forall in Hfa. apply Hfa. apply in_or_app. right. left. reflexivity.
Qed.

Lemma ipos_all_lt s (acc : list kid) : (forall sc, In sc acc -> klt (fst sc) s) -> ipos V s acc = Some (length acc).
Proof.
  induction acc as [|x acc IH]; intros H; cbn [ipos length]; [reflexivity|].
  assert (Hx : kcmp s (fst x) = Gt) by (apply kcmp_gt_lt, H; left; reflexivity).
  rewrite Hx, IH; [reflexivity|]. intros sc Hsc. apply H. right. exact Hsc.
Qed.

Lemma build_kids_sorted : forall (todo acc res : list kid),
  build_kids V acc todo = inr res -> StronglySorted klt (map fst (acc ++ todo)) -> 0 <= ifree V acc ->
  res = acc ++ todo /\ 0 <= ifree V res.
Proof.
  induction todo as [|sc todo IH]; intros acc res Hb Hs Hf; cbn [build_kids] in Hb.
  - injection Hb as <-. rewrite app_nil_r. split; [reflexivity | exact Hf].
  - destruct (Z.leb_spec (klen (fst sc) + ISLOT) (ifree V acc)) as [Hr|]; [|discriminate].
    rewrite ipos_all_lt in Hb.
    + rewrite insert_at_length in Hb. replace (acc ++ sc :: todo) with ((acc ++ [sc]) ++ todo) in * by (rewrite <- app_assoc; reflexivity).
      apply IH in Hb; [exact Hb | exact Hs |]. rewrite ifree_app, ifree_cons. unfold ifree at 2. cbn [map sumz fold_right]. lia.
    + intros x Hx. rewrite map_app in Hs. cbn [map] in Hs.
      eapply sorted_app_mid_lt; [exact Hs | apply in_map; exact Hx].
Qed.

Lemma kids_seps_sorted (P : option key -> option key -> tree -> Prop) K : forall lo hi r,
  kids_bounded P lo hi K r -> StronglySorted klt (map fst K).
Proof.
  induction K as [|sc K IH]; intros lo hi r HB; cbn [map]; [constructor|].
  destruct HB as (H1 & H2 & H3 & H4). constructor; [eapply IH; exact H4|].
  apply Forall_forall. intros x Hx. apply in_map_iff in Hx as (y & <- & Hy). eapply kids_seps_gt; eassumption.
Qed.

Lemma kabs_flat h' (a : list kid) c : kabs h' a c = flat_map (fun sc : kid => abs h' (snd sc)) a ++ abs h' c.
Proof. rewrite <- (app_nil_r a) at 1. rewrite kabs_app, kabs_nil. reflexivity. Qed.

(* ---- the split point chosen by bytes *)
Definition ICAP : Z := PAGE - INT_START.

Lemma best_mid_mono sizes : forall total half m left b, exists r, best_mid sizes total half m left (Some b) = Some r.
Proof.
  induction sizes as [|sz rest IH]; intros total half m left b; cbn [best_mid]; [exists b; reflexivity|].
  destruct (_ && _); [destruct (_ <? _)%nat|]; apply IH.
Qed.

Lemma best_mid_exists sizes : forall total half m left best,
  sizes <> [] -> (forall z, In z sizes -> 0 <= z) -> left <= ICAP -> left + sumz sizes = total -> total <= 2 * ICAP ->
  exists r, best_mid sizes total half m left best = Some r.
Proof.
  induction sizes as [|sz rest IH]; intros total half m left best Hne Hnn Hl Hsum Htot; [contradiction|].
  cbn [best_mid]. fold ICAP. rewrite sumz_cons in Hsum.
  assert (Hrest : 0 <= sumz rest).
  { clear - Hnn. induction rest as [|x r IHr]; [cbn; lia|]. rewrite sumz_cons.
    pose proof (Hnn x (or_intror (or_introl eq_refl))). assert (0 <= sumz r) by (apply IHr; intros z [Hz | Hz]; apply Hnn; [left | right; right]; assumption). lia. }
  destruct (Z.leb_spec left ICAP) as [_ | Hc]; [|lia].
  destruct (Z.leb_spec (total - left - sz) ICAP) as [Hr | Hr]; cbn [andb].
  - destruct best as [b|]; [destruct (_ <? _)%nat|]; apply best_mid_mono.
  - destruct rest as [|sz2 rest2]; [cbn in Hsum; unfold ICAP, PAGE, INT_START in *; lia|].
    pose proof (Hnn sz (or_introl eq_refl)).
    apply IH; [discriminate | intros z Hz; apply Hnn; right; exact Hz | lia | lia | exact Htot].
Qed.

(* whatever comes back is an index whose two sides fit *)
Lemma best_mid_sound (all : list Z) : forall suffix pre total half best r,
  all = pre ++ suffix -> total = sumz all ->
  (forall b, best = Some b -> (b < length all)%nat /\ sumz (firstn b all) <= ICAP /\ total - sumz (firstn b all) - nth b all 0 <= ICAP) ->
  best_mid suffix total half (length pre) (sumz pre) best = Some r ->
  (r < length all)%nat /\ sumz (firstn r all) <= ICAP /\ total - sumz (firstn r all) - nth r all 0 <= ICAP.
Proof.
  induction suffix as [|sz rest IH]; intros pre total half best r Hall Htot Hb Hres; cbn [best_mid] in Hres.
  - apply Hb. exact Hres.
  - fold ICAP in Hres.
    assert (Hpre : firstn (length pre) all = pre) by (rewrite Hall, firstn_app, Nat.sub_diag, firstn_all; cbn [firstn]; apply app_nil_r).
    assert (Hnth : nth (length pre) all 0 = sz) by (rewrite Hall, app_nth2, Nat.sub_diag by lia; reflexivity).
    assert (Hlen : (length pre < length all)%nat) by (rewrite Hall, app_length; cbn [length]; lia).
    replace (S (length pre)) with (length (pre ++ [sz])) in Hres by (rewrite app_length; cbn [length]; lia).
    replace (sumz pre + sz) with (sumz (pre ++ [sz])) in Hres by (rewrite sumz_app; cbn; lia).
    eapply (IH (pre ++ [sz])); [rewrite <- app_assoc; exact Hall | exact Htot | | exact Hres].
    intros b Hbb. destruct (Z.leb_spec (sumz pre) ICAP) as [H1 | H1]; cbn [andb] in Hbb; [|apply Hb; exact Hbb].
    destruct (Z.leb_spec (total - sumz pre - sz) ICAP) as [H2 | H2]; [|apply Hb; exact Hbb].
    assert (Hme : (length pre < length all)%nat /\ sumz (firstn (length pre) all) <= ICAP /\ total - sumz (firstn (length pre) all) - nth (length pre) all 0 <= ICAP)
      by (rewrite Hpre, Hnth; repeat split; assumption).
    destruct best as [b0|].
    + destruct (_ <? _)%nat; injection Hbb as <-; [exact Hme | apply Hb; reflexivity].
    + injection Hbb as <-. exact Hme.
Qed.

(* ---- rebuilding a page from sorted separators that fit *)
Lemma ifree_sizes (K : list kid) : ifree V K = ICAP - sumz (ksizes K).
Proof. reflexivity. Qed.

Lemma build_kids_fit : forall (todo acc : list kid),
  StronglySorted klt (map fst (acc ++ todo)) -> sumz (ksizes (acc ++ todo)) <= ICAP ->
  build_kids V acc todo = inr (acc ++ todo).
Proof.
  induction todo as [|sc todo IH]; intros acc Hs Hf; cbn [build_kids]; [rewrite app_nil_r; reflexivity|].
  assert (Hnn : 0 <= sumz (ksizes todo)).
  { clear. induction todo as [|x r IHr]; [cbn; lia|]. unfold ksizes in *. cbn [map]. rewrite sumz_cons. unfold klen, ISLOT in *.
    pose proof (Nat2Z.is_nonneg (length (fst x))). lia. }
  unfold ksizes in Hf. rewrite map_app, sumz_app in Hf. cbn [map] in Hf. rewrite sumz_cons in Hf. fold (ksizes acc) (ksizes todo) in Hf.
  rewrite ifree_sizes. destruct (Z.leb_spec (klen (fst sc) + ISLOT) (ICAP - sumz (ksizes acc))) as [_ | Hc]; [|lia].
  rewrite ipos_all_lt.
  - rewrite insert_at_length. replace (acc ++ sc :: todo) with ((acc ++ [sc]) ++ todo) in * by (rewrite <- app_assoc; reflexivity).
    apply IH; [exact Hs|]. unfold ksizes. rewrite !map_app, !sumz_app. cbn [map]. rewrite sumz_cons. fold (ksizes acc) (ksizes todo). cbn. lia.
  - intros x Hx. rewrite map_app in Hs. cbn [map] in Hs. eapply sorted_app_mid_lt; [exact Hs | apply in_map; exact Hx].
Qed.

Lemma ksizes_firstn (K : list kid) m : firstn m (ksizes K) = ksizes (firstn m K).
Proof. unfold ksizes. apply firstn_map. Qed.

Lemma sorted_sub_app (a b : list key) : StronglySorted klt (a ++ b) -> StronglySorted klt a /\ StronglySorted klt b.
Proof.
  induction a as [|x a IH]; intros H; [split; [constructor | exact H]|]. cbn [app] in H. inversion H as [|? ? H1 H2]; subst.
  destruct (IH H1) as [Ha Hb]. split; [|exact Hb]. constructor; [exact Ha|]. rewrite Forall_app in H2. apply H2.
Qed.

(* the separators of K are small enough for a page of their own *)
Definition seps_fit (K : list kid) : Prop := forall sc, In sc K -> klen (fst sc) + ISLOT <= ICAP.

Lemma si_body_ok h' id np (K : list kid) rr lo hi :
  kids_bounded (bounded V vlen h') lo hi K rr -> K <> [] -> sumz (ksizes K) <= 2 * ICAP -> seps_fit K ->
  match si_body id np K rr with
  | ISplit Lf prom Rg _ =>
      bounded V vlen (S h') lo (Some prom) Lf /\ bounded V vlen (S h') (Some prom) hi Rg /\ lo_lt lo prom /\ hi_ok hi prom
      /\ klen prom + ISLOT <= ICAP /\ abs (S h') Lf ++ abs (S h') Rg = kabs h' K rr
  | _ => False
  end.
Proof.
  intros HB Hne Htot Hfit. unfold si_body.
  assert (Hnn : forall z, In z (ksizes K) -> 0 <= z).
  { intros z Hz. apply in_map_iff in Hz as (x & <- & _). unfold klen, ISLOT. pose proof (Nat2Z.is_nonneg (length (fst x))). lia. }
  destruct (best_mid_exists (ksizes K) (sumz (ksizes K)) (length K / 2)%nat O 0 None) as (mid & Hmid).
  { destruct K; [contradiction | discriminate]. }
  { exact Hnn. } { unfold ICAP, PAGE, INT_START; lia. } { lia. } { exact Htot. }
  rewrite Hmid.
  destruct (best_mid_sound (ksizes K) (ksizes K) [] (sumz (ksizes K)) (length K / 2)%nat None mid eq_refl eq_refl ltac:(discriminate) Hmid) as (Hlt & HL & HR).
  unfold ksizes in Hlt. rewrite map_length in Hlt.
  destruct (nth_error K mid) as [pc|] eqn:En; [|apply nth_error_None in En; lia].
  pose proof (firstn_skipn_nth K mid pc En) as HK.
  assert (Hnthsz : nth mid (ksizes K) 0 = klen (fst pc) + ISLOT).
  { apply nth_error_nth. unfold ksizes. apply (map_nth_error (fun sc : kid => klen (fst sc) + ISLOT)). exact En. }
  assert (HsortK : StronglySorted klt (map fst K)) by (eapply kids_seps_sorted; exact HB).
  assert (Hsum : sumz (ksizes K) = sumz (ksizes (firstn mid K)) + (klen (fst pc) + ISLOT) + sumz (ksizes (skipn (S mid) K))).
  { rewrite HK at 1. unfold ksizes. rewrite map_app, sumz_app. cbn [map]. rewrite sumz_cons. lia. }
  rewrite ksizes_firstn in HL, HR. rewrite Hnthsz in HR.
  set (A := firstn mid K) in *. set (B := skipn (S mid) K) in *.
  assert (HsA : StronglySorted klt (map fst ([] ++ A))).
  { cbn [app]. rewrite HK, map_app in HsortK. apply sorted_sub_app in HsortK. apply HsortK. }
  assert (HsB : StronglySorted klt (map fst ([] ++ B))).
  { cbn [app]. rewrite HK, map_app in HsortK. apply sorted_sub_app in HsortK as [_ H2]. cbn [map] in H2. inversion H2; assumption. }
  rewrite (build_kids_fit A [] HsA) by (cbn [app]; exact HL).
  rewrite (build_kids_fit B [] HsB) by (cbn [app]; lia).
  cbn [app]. destruct pc as [prom c]. rewrite HK in HB. apply kids_bounded_app in HB as (HA & HBb & Hlo & Hhi).
  cbn [fst snd] in *.
  split; [cbn [BTreeInv.bounded]; split; [rewrite ifree_sizes; lia | exact HA]|].
  split; [cbn [BTreeInv.bounded]; split; [rewrite ifree_sizes; lia | exact HBb]|].
  split; [exact Hlo|]. split; [exact Hhi|].
  split; [apply (Hfit (prom, c)); eapply nth_error_In; exact En|].
  rewrite !abs_node, HK, kabs_app, kabs_cons, kabs_flat. cbn [snd]. rewrite <- app_assoc. reflexivity.
Qed.

End N.
