(* C40 - Catalog persistence round-trips and survives crashes during DDL.
   Property theorems only.  Model/Catalog.v is a hand transcription of the binary format of
   src/schema/persistence.rs, Model/CatalogDisk.v of what CatalogPersistence::save does to the
   file system (temporary file + rename since /repo 5a0cf56; in place before: historical); both
   are tied to the code by the correspondence run (Corr/C40.v), the save protocol also by the
   io_event trace of every real save in it. *)
From Coq Require Import ZArith List Bool.
From TV Require Import Lib.MachInt Model.Catalog Model.CatalogDisk Proof.Catalog Proof.CatalogFuel Proof.CatalogDisk.
Import ListNotations.
Open Scope Z_scope.

(* ---------------------------------------------------------------- codec half *)

(* Every catalog within the field widths of the format (wf_catalog: names and texts valid UTF-8 of
   < 64 KiB, counts and ids inside their u16/u32/u64 fields, names unique per HashMap) that is
   outside the two known classes -- user-created schemas included (since /repo 0f25949): save
   then load into Catalog::new() gives back every schema with the same id and the same tables,
   columns, types, constraints, defaults, keys, indexes, ids, and no other schema. *)
Theorem catalog_roundtrip :
  forall c, wf_catalog c = true -> file_fits c = true -> codec_class c = 0 ->
    exists f c', save_file c = Some f /\ load_file f = Ok c' /\ forall n, find_schema c' n = find_schema c n.
Proof. exact catalog_roundtrip_l. Qed.

(* the same for serialize / deserialize alone *)
Theorem serialize_deserialize_roundtrip :
  forall c, wf_catalog c = true -> codec_class c = 0 ->
    exists bs c', serialize c = Some bs /\ deserialize bs base_catalog = Ok c'
                  /\ forall n, find_schema c' n = find_schema c n.
Proof. exact serialize_deserialize_l. Qed.

(* known class 2 (F-C40-3) made exact: what comes back is the catalog with every expression index
   column turned into the column "" and every WHERE clause dropped -- nothing else is lost *)
Theorem catalog_roundtrip_lossy :
  forall c, wf_catalog c = true -> file_fits c = true -> builtins_ok c = true ->
    exists f c', save_file c = Some f /\ load_file f = Ok c'
                 /\ forall n, find_schema c' n = find_schema (lossy_catalog c) n.
Proof. exact catalog_roundtrip_lossy_l. Qed.

Theorem expr_index_lost_refuted :
  exists c f c', wf_catalog c = true /\ file_fits c = true /\ codec_class c = 2
                 /\ save_file c = Some f /\ load_file f = Ok c'
                 /\ find_schema c' name_root <> find_schema c name_root.
Proof. exact expr_index_lost_refuted_l. Qed.

(* known class 1 (F-C40-4) made exact: whatever the catalog, "root" and "turdb_catalog" exist
   after a load -- a dropped built-in schema is back *)
Theorem builtin_schemas_reappear :
  forall c n, wf_catalog c = true -> file_fits c = true -> (n = name_root \/ n = name_syscat) ->
    exists f c', save_file c = Some f /\ load_file f = Ok c' /\ find_schema c' n <> None.
Proof. exact builtin_schemas_reappear_l. Qed.

Theorem dropped_root_reappears_refuted :
  exists c f c', wf_catalog c = true /\ file_fits c = true /\ codec_class c = 1
                 /\ save_file c = Some f /\ load_file f = Ok c'
                 /\ find_schema c name_root = None /\ find_schema c' name_root <> None.
Proof. exact dropped_root_reappears_refuted_l. Qed.

(* the deserializer's fuel (1 + bytes left) always suffices: OutOfFuel is never an outcome *)
Theorem deserialize_fuel_enough :
  forall bs c, deserialize bs c <> OutOfFuel.
Proof. exact deserialize_fuel_enough_l. Qed.

(* ---------------------------------------------------------------- crash half: the code as it is *)

(* CatalogPersistence::save since /repo 5a0cf56 = save_atomic (create + write a temporary file,
   sync it, rename it over the catalog, fsync the directory): at EVERY crash point, killed or power
   lost, with or without a stale temporary file from an earlier crash, the catalog path holds the
   complete old or the complete new file *)
Theorem atomic_replace_safe :
  forall old stale h b k j m v,
    crash_view m (run_to (save_atomic h b) k j (init_fs old stale)) p_catalog v ->
    v = Some old \/ v = Some (h ++ b).
Proof. exact atomic_replace_safe_l. Qed.

(* the property: no table or index that both the old and the new catalog contain is lost,
   at any crash point of the catalog save inside a DDL statement, in either crash mode *)
Theorem ddl_crash_keeps_old :
  forall old oldf stale h b k j m v,
    keeps_old old (load_file oldf) = true -> keeps_old old (load_file (h ++ b)) = true ->
    crash_view m (run_to (save_atomic h b) k j (init_fs oldf stale)) p_catalog v ->
    keeps_old old (load_view v) = true.
Proof. exact atomic_replace_keeps_old_l. Qed.

(* ... and once save has returned (directory synced), the new file is what survives *)
Theorem atomic_replace_durable :
  forall old stale h b k j m v,
    (6 <= k)%nat ->
    crash_view m (run_to (save_atomic h b) k j (init_fs old stale)) p_catalog v -> v = Some (h ++ b).
Proof. exact atomic_replace_durable_l. Qed.

(* a catalog file cut anywhere before its end does not load (why a torn file must never be
   reachable under the catalog's name) *)
Theorem load_prefix_err :
  forall c body n, 0 <= zlen body < 2 ^ 64 -> (n < length (header c (zlen body) ++ body))%nat ->
    load_file (firstn n (header c (zlen body) ++ body)) = Err.
Proof. exact load_prefix_err_l. Qed.

(* ---------------------------------------------------------------- crash half: historical
   CatalogPersistence::save before /repo 5a0cf56 = save_inplace (File::create on the live file,
   two writes, sync): finding F-C40-1, fixed.  Kept as theorems about that event list. *)

(* for EVERY new catalog and every crash point after the truncation and before the last byte of
   the body, what a killed process left did not load -- Database::open failed, every table lost *)
Theorem inplace_crash_unloadable :
  forall c_new h b old k j,
    save_parts c_new = Some (h, b) -> file_fits c_new = true -> inside_rewrite h b k j = true ->
    load_view (kill_view (run_to (save_inplace h b) k j (init_fs old None)) p_catalog) = Err.
Proof. exact inplace_crash_unloadable_l. Qed.

Theorem inplace_crash_loses_all :
  forall old c_new h b oldf k j,
    save_parts c_new = Some (h, b) -> file_fits c_new = true -> inside_rewrite h b k j = true ->
    keeps_old old (load_view (kill_view (run_to (save_inplace h b) k j (init_fs oldf None)) p_catalog)) = false.
Proof. exact inplace_crash_loses_all_l. Qed.

(* the property on a concrete DDL statement (t1 with an index exists, CREATE TABLE t2) was refuted *)
Theorem inplace_ddl_crash_keeps_old_refuted :
  exists old new oldf h b k j,
    wf_catalog old = true /\ wf_catalog new = true /\ codec_class old = 0 /\ codec_class new = 0
    /\ save_file old = Some oldf /\ save_parts new = Some (h, b)
    /\ keeps_old old (load_file oldf) = true /\ keeps_old old (load_file (h ++ b)) = true
    /\ keeps_old old (load_view (kill_view (run_to (save_inplace h b) k j (init_fs oldf None)) p_catalog)) = false.
Proof. exact ddl_crash_keeps_old_refuted_l. Qed.

(* outside those crash points the file was the old or the new one *)
Theorem inplace_ddl_crash_keeps_old_outside :
  forall old oldf h b k j,
    keeps_old old (load_file oldf) = true -> keeps_old old (load_file (h ++ b)) = true ->
    inside_rewrite h b k j = false ->
    keeps_old old (load_view (kill_view (run_to (save_inplace h b) k j (init_fs oldf None)) p_catalog)) = true.
Proof. exact inplace_crash_keeps_old_l. Qed.

(* power loss during the in-place rewrite: the old file or some prefix of the new one *)
Theorem inplace_powerloss_view :
  forall old h b k j v,
    pl_view (run_to (save_inplace h b) k j (init_fs old None)) p_catalog v ->
    v = Some old \/ exists n, v = Some (firstn n (h ++ b)).
Proof. exact inplace_powerloss_view_l. Qed.

(* ---------------------------------------------------------------- non-vacuity *)
Example c40_hypotheses_satisfiable :
  wf_catalog ex_new = true /\ file_fits ex_new = true /\ codec_class ex_new = 0
  /\ wf_catalog ex_expr_catalog = true /\ builtins_ok ex_expr_catalog = true /\ catalog_plain ex_expr_catalog = false
  /\ wf_catalog ex_user_catalog = true /\ file_fits ex_user_catalog = true /\ codec_class ex_user_catalog = 0
  /\ (exists h b, save_parts ex_new = Some (h, b)
        /\ inside_rewrite h b 1 0 = true /\ inside_rewrite h b 2 17 = true
        /\ inside_rewrite h b 0 0 = false /\ inside_rewrite h b 3 0 = false
        /\ keeps_old ex_old (load_file (h ++ b)) = true)
  /\ (exists f, save_file ex_old = Some f /\ keeps_old ex_old (load_file f) = true)
  /\ find_table ex_new name_root [116;50] = Some ex_t2.
Proof. exact c40_hypotheses_satisfiable_l. Qed.

Example c40_crash_views_exist :
  crash_view PowerLoss (run_to (save_atomic [1] [2]) 5 0 (init_fs [9] None)) p_catalog (Some [9])
  /\ crash_view PowerLoss (run_to (save_atomic [1] [2]) 5 0 (init_fs [9] None)) p_catalog (Some [1; 2])
  /\ crash_view Kill (run_to (save_atomic [1] [2]) 2 1 (init_fs [9] (Some [7]))) p_catalog (Some [9]).
Proof. exact c40_crash_views_exist_l. Qed.

Check catalog_roundtrip : forall c, wf_catalog c = true -> file_fits c = true -> codec_class c = 0 -> exists f c', save_file c = Some f /\ load_file f = Ok c' /\ forall n, find_schema c' n = find_schema c n.
Check serialize_deserialize_roundtrip : forall c, wf_catalog c = true -> codec_class c = 0 -> exists bs c', serialize c = Some bs /\ deserialize bs base_catalog = Ok c' /\ forall n, find_schema c' n = find_schema c n.
Check catalog_roundtrip_lossy : forall c, wf_catalog c = true -> file_fits c = true -> builtins_ok c = true -> exists f c', save_file c = Some f /\ load_file f = Ok c' /\ forall n, find_schema c' n = find_schema (lossy_catalog c) n.
Check expr_index_lost_refuted : exists c f c', wf_catalog c = true /\ file_fits c = true /\ codec_class c = 2 /\ save_file c = Some f /\ load_file f = Ok c' /\ find_schema c' name_root <> find_schema c name_root.
Check builtin_schemas_reappear : forall c n, wf_catalog c = true -> file_fits c = true -> (n = name_root \/ n = name_syscat) -> exists f c', save_file c = Some f /\ load_file f = Ok c' /\ find_schema c' n <> None.
Check dropped_root_reappears_refuted : exists c f c', wf_catalog c = true /\ file_fits c = true /\ codec_class c = 1 /\ save_file c = Some f /\ load_file f = Ok c' /\ find_schema c name_root = None /\ find_schema c' name_root <> None.
Check deserialize_fuel_enough : forall bs c, deserialize bs c <> OutOfFuel.
Check atomic_replace_safe : forall old stale h b k j m v, crash_view m (run_to (save_atomic h b) k j (init_fs old stale)) p_catalog v -> v = Some old \/ v = Some (h ++ b).
Check ddl_crash_keeps_old : forall old oldf stale h b k j m v, keeps_old old (load_file oldf) = true -> keeps_old old (load_file (h ++ b)) = true -> crash_view m (run_to (save_atomic h b) k j (init_fs oldf stale)) p_catalog v -> keeps_old old (load_view v) = true.
Check atomic_replace_durable : forall old stale h b k j m v, (6 <= k)%nat -> crash_view m (run_to (save_atomic h b) k j (init_fs old stale)) p_catalog v -> v = Some (h ++ b).
Check load_prefix_err : forall c body n, 0 <= zlen body < 2 ^ 64 -> (n < length (header c (zlen body) ++ body))%nat -> load_file (firstn n (header c (zlen body) ++ body)) = Err.
Check inplace_crash_unloadable : forall c_new h b old k j, save_parts c_new = Some (h, b) -> file_fits c_new = true -> inside_rewrite h b k j = true -> load_view (kill_view (run_to (save_inplace h b) k j (init_fs old None)) p_catalog) = Err.
Check inplace_crash_loses_all : forall old c_new h b oldf k j, save_parts c_new = Some (h, b) -> file_fits c_new = true -> inside_rewrite h b k j = true -> keeps_old old (load_view (kill_view (run_to (save_inplace h b) k j (init_fs oldf None)) p_catalog)) = false.
Check inplace_ddl_crash_keeps_old_refuted : exists old new oldf h b k j, wf_catalog old = true /\ wf_catalog new = true /\ codec_class old = 0 /\ codec_class new = 0 /\ save_file old = Some oldf /\ save_parts new = Some (h, b) /\ keeps_old old (load_file oldf) = true /\ keeps_old old (load_file (h ++ b)) = true /\ keeps_old old (load_view (kill_view (run_to (save_inplace h b) k j (init_fs oldf None)) p_catalog)) = false.
Check inplace_ddl_crash_keeps_old_outside : forall old oldf h b k j, keeps_old old (load_file oldf) = true -> keeps_old old (load_file (h ++ b)) = true -> inside_rewrite h b k j = false -> keeps_old old (load_view (kill_view (run_to (save_inplace h b) k j (init_fs oldf None)) p_catalog)) = true.
Check inplace_powerloss_view : forall old h b k j v, pl_view (run_to (save_inplace h b) k j (init_fs old None)) p_catalog v -> v = Some old \/ exists n, v = Some (firstn n (h ++ b)).

Print Assumptions catalog_roundtrip.
Print Assumptions serialize_deserialize_roundtrip.
Print Assumptions catalog_roundtrip_lossy.
Print Assumptions expr_index_lost_refuted.
Print Assumptions builtin_schemas_reappear.
Print Assumptions dropped_root_reappears_refuted.
Print Assumptions deserialize_fuel_enough.
Print Assumptions atomic_replace_safe.
Print Assumptions ddl_crash_keeps_old.
Print Assumptions atomic_replace_durable.
Print Assumptions load_prefix_err.
Print Assumptions inplace_crash_unloadable.
Print Assumptions inplace_crash_loses_all.
Print Assumptions inplace_ddl_crash_keeps_old_refuted.
Print Assumptions inplace_ddl_crash_keeps_old_outside.
Print Assumptions inplace_powerloss_view.
