(* C36, HISTORICAL: the model of try_cleanup BEFORE /repo d1af26b (fx = false, removal by key)
   refutes mutual exclusion -- evaluation lemmas; the same schedule on the code as it is now. *)
From Coq Require Import ZArith List Bool Arith.
From TV Require Import Lib.Interleave Model.PageLocks.
Import ListNotations.
Open Scope Z_scope.

(* two threads, each: page_write(7); drop; page_write(7); drop *)
Definition wprog : list op := [OAcq true 7; ORel 0; OAcq true 7; ORel 0].
(* coarse schedule (hook site to hook site): T0 runs until it is parked at 204 (release() saw 1,
   cleanup not yet done); T1 locks and unlocks page 7 (re-using the entry, then removing it in
   its own cleanup) and locks it again (fresh entry E2, in the map); T0's cleanup now removes
   E2 BY KEY, T0's second page_write creates E3: both threads hold a write guard on page 7 *)
Definition wsched : list nat := [0;0;0;0;0; 1;1;1;1;1;1;1;1; 0;0;0]%nat.

Lemma two_writers_coarse :
  writers (run_coarse (step false) at_site 50 wsched (init [wprog; wprog])) 7 = 2%nat.
Proof. vm_compute. reflexivity. Qed.

Lemma mutual_exclusion_refuted_l :
  exists progs sched, ~ mutual_exclusion (run (step false) sched (init progs)).
Proof.
  destruct (run_coarse_is_run St (step false) at_site 50 wsched (init [wprog; wprog])) as [fine Hf].
  exists [wprog; wprog], fine. intros H. specialize (H 7). destruct H as [H _].
  rewrite <- Hf, two_writers_coarse in H. inversion H as [|? H1]; inversion H1.
Qed.

(* the same schedule on the repaired cleanup keeps the two acquisitions on one entry *)
Lemma repaired_same_schedule :
  writers (run_coarse (step true) at_site 50 wsched (init [wprog; wprog])) 7 = 1%nat.
Proof. vm_compute. reflexivity. Qed.
