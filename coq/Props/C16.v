(* C16 - Aggregates and GROUP BY follow SQL semantics.
   Property theorems only.  Reference semantics: Model/SqlSpecAgg.v (on Model/SqlSpec.v);
   implementation model: Model/AggImpl.v (hand-written from src/sql/state.rs, executor.rs,
   builder.rs, predicate.rs; tied to the code by the correspondence run); classes: Model/AggClass.v. *)
From Coq Require Import ZArith List Bool.
From TV Require Import Model.SqlSpecAgg Model.AggImpl Model.AggClass Model.AggJoin
  Proof.AggFold Proof.AggFoldSpec Proof.AggRefute Proof.AggKeys Proof.AggGroups Proof.AggGroupsMain
  Proof.AggQuery3 Proof.AggFloat.
Import ListNotations.
Open Scope Z_scope.

(* every aggregate function, EVERY list of argument values outside the recorded classes: folding
   AggregateState::update over the values and finalizing gives exactly the reference aggregate
   (COUNT( * ) = length, COUNT(e) = number of non-NULL, SUM / MIN / MAX over the non-NULL values,
   NULL when there is none, AVG = SUM / COUNT as a double); no `+=` overflows *)
Theorem agg_fold_spec :
  forall f vs v,
    vals_class f vs = 0 -> int_sums f vs = true ->
    agg_vals f vs = AVal v ->
    exists s, fold_upd (kind_of_fn f) st0 (map Some vs) = SOk s /\ fin (kind_of_fn f) s = v.
Proof. exact Proof.AggFoldSpec.agg_fold_spec. Qed.
Check agg_fold_spec :
  forall f vs v,
    vals_class f vs = 0 -> int_sums f vs = true ->
    agg_vals f vs = AVal v ->
    exists s, fold_upd (kind_of_fn f) st0 (map Some vs) = SOk s /\ fin (kind_of_fn f) s = v.
Print Assumptions agg_fold_spec.

(* SUM / AVG over doubles that are exactly summable (multiples of 2^-10 below 2^33, fewer than 1024):
   every `sum_float += f` is exact (round_q is exact on 53-bit dyadics), the fold ends with the
   reference SUM (a zero sum is returned as the integer 0: equal as SQL values) and AVG divides it
   by the count *)
Theorem agg_fold_float_sum :
  forall f vs fs v,
    (f = FSum \/ f = FAvg) -> floats_of (nonnull vs) = Some fs -> fs <> [] ->
    agg_vals f vs = AVal v ->
    exists s, fold_upd (kind_of_fn f) st0 (map Some vs) = SOk s /\ val_match (fin (kind_of_fn f) s) v.
Proof. exact Proof.AggFloat.agg_fold_float_sum. Qed.
Check agg_fold_float_sum :
  forall f vs fs v,
    (f = FSum \/ f = FAvg) -> floats_of (nonnull vs) = Some fs -> fs <> [] ->
    agg_vals f vs = AVal v ->
    exists s, fold_upd (kind_of_fn f) st0 (map Some vs) = SOk s /\ val_match (fin (kind_of_fn f) s) v.
Print Assumptions agg_fold_float_sum.

(* the whole query: for EVERY query (WHERE, 0..n plain-column keys, any list of aggregates over plain
   columns, any select list over them, HAVING over the keys and the selected aggregates) and EVERY
   table outside the recorded classes on which the reference makes a demand, the faithful model of
   TurDB's execution returns exactly the rows the reference demands: one row per distinct key
   (NULL keys one group), one row for an empty input without GROUP BY and none with, COUNT / SUM / AVG /
   MIN / MAX as specified, HAVING keeping a group iff its predicate is TRUE (SUM / AVG over integers;
   over doubles the run against the implementation is the only check) *)
Theorem query_correct :
  forall q t rs,
    q_class q t = 0 -> q_int_sums q t = true ->
    spec_query q t = SRows rs -> model_query q t = MRows rs.
Proof. exact Proof.AggQuery3.query_correct. Qed.
Check query_correct :
  forall q t rs,
    q_class q t = 0 -> q_int_sums q t = true ->
    spec_query q t = SRows rs -> model_query q t = MRows rs.
Print Assumptions query_correct.

(* GROUP BY over plain columns (each key column of one kind): whenever HashAggregate gets through,
   its table IS the reference grouping -- one entry per distinct key in order of first occurrence
   (NULL keys form one group, 0.0 and -0.0 one group), the group values shown are the key, and each
   aggregate state is the fold of update over exactly the rows of that group (entry_ok) *)
Theorem groups_partition :
  forall keys fs rows ks tbl,
    all_plain keys = true ->
    map_opt (fun r => map_opt (fun e => eval e r) keys) rows = Some ks ->
    key_cols_ok (length keys) ks = true ->
    hash_aggregate keys fs rows [] = SOk tbl ->
    Forall2 (entry_ok fs) tbl (groups_of (combine ks rows)).
Proof. exact Proof.AggGroupsMain.groups_partition. Qed.
Check groups_partition :
  forall keys fs rows ks tbl,
    all_plain keys = true ->
    map_opt (fun r => map_opt (fun e => eval e r) keys) rows = Some ks ->
    key_cols_ok (length keys) ks = true ->
    hash_aggregate keys fs rows [] = SOk tbl ->
    Forall2 (entry_ok fs) tbl (groups_of (combine ks rows)).
Print Assumptions groups_partition.

(* the reference groups: a row lies in a group exactly if its key is the same as the group's
   (both NULL, or equal by value), and NULL is the same as NULL only *)
Theorem reference_groups :
  (forall (krs : list (list value * row)) g r, In g (groups_of krs) ->
     (In r (snd g) <-> exists k', In (k', r) krs /\ key_same (fst g) k' = true)) /\
  (forall v, key_same1 VNull v = is_null v).
Proof. exact (conj group_rows null_keys_one_group). Qed.
Check reference_groups :
  (forall (krs : list (list value * row)) g r, In g (groups_of krs) ->
     (In r (snd g) <-> exists k', In (k', r) krs /\ key_same (fst g) k' = true)) /\
  (forall v, key_same1 VNull v = is_null v).
Print Assumptions reference_groups.

(* empty input: without GROUP BY one row of initial states (COUNT 0; SUM 0 -- class 2 -- and NULL for
   AVG / MIN / MAX), with GROUP BY no row *)
Theorem empty_input :
  (forall fs, agg_rows [] fs [] = SOk [finalize_all fs (map (fun _ => st0) fs)]) /\
  (forall k keys fs, agg_rows (k :: keys) fs [] = SOk []) /\
  (forall f, finalize f st0 = match kind_of f with KCount | KSum => VInt 0 | _ => VNull end).
Proof. exact (conj agg_rows_empty_nokeys (conj agg_rows_empty_keys finalize_initial)). Qed.
Check empty_input :
  (forall fs, agg_rows [] fs [] = SOk [finalize_all fs (map (fun _ => st0) fs)]) /\
  (forall k keys fs, agg_rows (k :: keys) fs [] = SOk []) /\
  (forall f, finalize f st0 = match kind_of f with KCount | KSum => VInt 0 | _ => VNull end).
Print Assumptions empty_input.

(* the recorded classes are real: in each the faithful model answers a concrete query wrongly *)
Theorem count_null_refuted :
  q_class q_count t_count = 1 /\ wrong_rows q_count t_count /\ model_query q_count t_count = MRows [[VInt 2]].
Proof. exact count_null_refuted_l. Qed.
Check count_null_refuted :
  q_class q_count t_count = 1 /\ wrong_rows q_count t_count /\ model_query q_count t_count = MRows [[VInt 2]].
Print Assumptions count_null_refuted.

Theorem sum_empty_refuted :
  q_class q_sum t_sum = 2 /\ wrong_rows q_sum t_sum /\ model_query q_sum t_sum = MRows [[VInt 0]] /\
  q_class q_sum [] = 2 /\ wrong_rows q_sum [].
Proof. exact sum_empty_refuted_l. Qed.
Check sum_empty_refuted :
  q_class q_sum t_sum = 2 /\ wrong_rows q_sum t_sum /\ model_query q_sum t_sum = MRows [[VInt 0]] /\
  q_class q_sum [] = 2 /\ wrong_rows q_sum [].
Print Assumptions sum_empty_refuted.

Theorem sum_overflow_panics :
  q_class q_sum t_ovf = 3 /\ model_query q_sum t_ovf = MPanic /\ spec_query q_sum t_ovf = SError.
Proof. exact sum_overflow_panics_l. Qed.
Check sum_overflow_panics :
  q_class q_sum t_ovf = 3 /\ model_query q_sum t_ovf = MPanic /\ spec_query q_sum t_ovf = SError.
Print Assumptions sum_overflow_panics.

Theorem text_min_refuted :
  q_class q_min t_text = 4 /\ wrong_rows q_min t_text /\ model_query q_min t_text = MRows [[VNull]].
Proof. exact text_min_refuted_l. Qed.
Check text_min_refuted :
  q_class q_min t_text = 4 /\ wrong_rows q_min t_text /\ model_query q_min t_text = MRows [[VNull]].
Print Assumptions text_min_refuted.

Theorem arg_expr_refuted :
  q_class q_arg t_two = 5 /\ wrong_rows q_arg t_two /\ model_query q_arg t_two = MRows [[VInt 3]].
Proof. exact arg_expr_refuted_l. Qed.
Check arg_expr_refuted :
  q_class q_arg t_two = 5 /\ wrong_rows q_arg t_two /\ model_query q_arg t_two = MRows [[VInt 3]].
Print Assumptions arg_expr_refuted.

Theorem key_expr_refuted :
  (q_class q_key t_two = 6 /\ wrong_rows q_key t_two) /\
  (q_class q_nk t_nk = 6 /\ wrong_rows q_nk t_nk /\ model_query q_nk t_nk = MRows [[VInt 2]]).
Proof. exact (conj key_expr_refuted_l key_null_merge_refuted_l). Qed.
Check key_expr_refuted :
  (q_class q_key t_two = 6 /\ wrong_rows q_key t_two) /\
  (q_class q_nk t_nk = 6 /\ wrong_rows q_nk t_nk /\ model_query q_nk t_nk = MRows [[VInt 2]]).
Print Assumptions key_expr_refuted.

Theorem having_agg_refuted :
  q_class q_hav t_hav = 7 /\ wrong_rows q_hav t_hav /\ model_query q_hav t_hav = MRows [].
Proof. exact having_agg_refuted_l. Qed.
Check having_agg_refuted :
  q_class q_hav t_hav = 7 /\ wrong_rows q_hav t_hav /\ model_query q_hav t_hav = MRows [].
Print Assumptions having_agg_refuted.

Theorem join_agg_refuted :
  (spec_join_query jl jr 1 1 q_join = SRows [[VInt 1; VInt 2]] /\
   model_join_query jl jr 1 1 q_join = MRows [[VNull; VInt 2]]) /\
  (spec_join_query jl [] 1 1 (mkQ None [] [mkAgg FCountStar (ECol 0)] [0%nat] None) = SRows [[VInt 0]] /\
   model_join_query jl [] 1 1 (mkQ None [] [mkAgg FCountStar (ECol 0)] [0%nat] None) = MRows []).
Proof. exact (conj join_agg_refuted_l join_agg_empty_refuted_l). Qed.
Check join_agg_refuted :
  (spec_join_query jl jr 1 1 q_join = SRows [[VInt 1; VInt 2]] /\
   model_join_query jl jr 1 1 q_join = MRows [[VNull; VInt 2]]) /\
  (spec_join_query jl [] 1 1 (mkQ None [] [mkAgg FCountStar (ECol 0)] [0%nat] None) = SRows [[VInt 0]] /\
   model_join_query jl [] 1 1 (mkQ None [] [mkAgg FCountStar (ECol 0)] [0%nat] None) = MRows []).
Print Assumptions join_agg_refuted.

(* non-vacuity: the hypotheses of agg_fold_spec are met by NULL-rich inputs of every function *)
Example agg_fold_nonvacuous :
  let vs := [VInt 3; VNull; VInt (-5); VInt 3] in
  (vals_class FSum vs = 0 /\ int_sums FSum vs = true /\ agg_vals FSum vs = AVal (VInt 1)) /\
  (vals_class FAvg vs = 0 /\ int_sums FAvg vs = true /\ exists a, agg_vals FAvg vs = AVal (VFloat a)) /\
  (vals_class FMin vs = 0 /\ agg_vals FMin vs = AVal (VInt (-5))) /\
  (vals_class FMax [VNull; VFloat 4609434218613702656; VFloat 0] = 0 /\
   agg_vals FMax [VNull; VFloat 4609434218613702656; VFloat 0] = AVal (VFloat 4609434218613702656)) /\
  (vals_class FAvg [VNull; VNull] = 0 /\ agg_vals FAvg [VNull; VNull] = AVal VNull) /\
  (vals_class FCount [VInt 1; VInt 2] = 0 /\ agg_vals FCount [VInt 1; VInt 2] = AVal (VInt 2)) /\
  (vals_class FCountStar [VNull; VNull] = 0 /\ agg_vals FCountStar [VNull; VNull] = AVal (VInt 2)).
Proof. cbv zeta. repeat split; try (vm_compute; reflexivity). eexists; vm_compute; reflexivity. Qed.

(* non-vacuity of groups_partition: two keys with NULLs, three groups, the NULL rows together *)
Example groups_partition_nonvacuous :
  let keys := [ECol 1%nat] in
  let rows := [[VInt 1; VNull]; [VInt 2; VInt 7]; [VInt 3; VNull]; [VInt 4; VInt 0]; [VInt 5; VInt 7]] in
  all_plain keys = true /\
  exists ks tbl,
    map_opt (fun r => map_opt (fun e => eval e r) keys) rows = Some ks /\
    key_cols_ok (length keys) ks = true /\
    hash_aggregate keys [MCount; MSum 0%nat] rows [] = SOk tbl /\
    map (fun e : gentry => snd (fst e) ++ finalize_all [MCount; MSum 0%nat] (snd e)) tbl =
      [[VNull; VInt 2; VInt 4]; [VInt 7; VInt 2; VInt 7]; [VInt 0; VInt 1; VInt 4]].
Proof. cbv zeta. split; [reflexivity|]. eexists; eexists. repeat split; vm_compute; reflexivity. Qed.

(* non-vacuity of query_correct: NULL keys, NULLs under SUM / MIN, HAVING over a selected aggregate *)
Example query_correct_nonvacuous :
  let t := [[VInt 1; VNull; VInt 5]; [VInt 2; VNull; VInt 7]; [VInt 3; VInt 1; VInt 2];
            [VInt 4; VInt 1; VNull]; [VInt 5; VInt 2; VInt 3]] in
  let q := mkQ (Some (ECmp CGt (ECol 0) (ELit (VInt 0)))) [ECol 1]
               [mkAgg FCountStar (ECol 0); mkAgg FSum (ECol 2); mkAgg FMin (ECol 2); mkAgg FAvg (ECol 2)]
               [0%nat; 1%nat; 2%nat; 3%nat]
               (Some (ECmp CGt (ECol 1) (ELit (VInt 1)))) in
  q_class q t = 0 /\ q_int_sums q t = true /\
  spec_query q t = SRows [[VNull; VInt 2; VInt 12; VInt 5]; [VInt 1; VInt 2; VInt 2; VInt 2]] /\
  (let q0 := mkQ None [] [mkAgg FCountStar (ECol 0); mkAgg FMax (ECol 1)] [0%nat; 1%nat] None in
   q_class q0 [] = 0 /\ q_int_sums q0 [] = true /\ spec_query q0 [] = SRows [[VInt 0; VNull]]).
Proof. cbv zeta. repeat split; vm_compute; reflexivity. Qed.

(* non-vacuity of agg_fold_float_sum: 1.5 + NULL + 2.25 + (-0.75) = 3.0, and a sum that cancels *)
Example agg_fold_float_nonvacuous :
  (let vs := [VFloat 4609434218613702656; VNull; VFloat 4612248968380809216; VFloat 13828302655841107968] in
   floats_of (nonnull vs) = Some [4609434218613702656; 4612248968380809216; 13828302655841107968] /\
   agg_vals FSum vs = AVal (VFloat 4613937818241073152) /\ exists a, agg_vals FAvg vs = AVal (VFloat a)) /\
  (let vs := [VFloat 4609434218613702656; VFloat 13832806255468478464] in
   agg_vals FSum vs = AVal (VFloat 0)).
Proof. cbv zeta. repeat split; try (vm_compute; reflexivity). eexists; vm_compute; reflexivity. Qed.
