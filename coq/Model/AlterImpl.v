(* C21 implementation model: src/database/ddl.rs (execute_alter_table, migrate_table_drop_column,
   execute_truncate, create / drop table and index) together with the parts of the DML paths
   that decide what a later full scan shows, hand-modelled at the level of stored rows.
   Definitions only.  Faithful to the code AS IT IS (tree with the repairs 2b262ce, c3e8980,
   e35ce21 and 6de60fd):

   * a stored row is (deleted?, values): DELETE only sets the DELETE bit of the record header
     (a tombstone); full scans, DELETE and UPDATE skip tombstones (6de60fd);
   * ALTER TABLE ADD COLUMN is a catalogue-only change, refused when the name is taken (e35ce21):
     stored records keep their old arity, and SimpleDecoder (src/sql/decoder.rs) recognises a
     record written under a shorter prefix of the column list (it compares the record's header
     length and total length with those of every prefix schema) and reads the missing columns
     as NULL - whatever the column's DEFAULT.  Abstractly: every stored row is padded with NULL;
   * ALTER TABLE DROP COLUMN (migrate_table_drop_column) finds the column ignoring letter case,
     refuses to drop the only column (e35ce21), rewrites EVERY B-tree entry without the column
     under the entry's own record header (2b262ce: the DELETE bit is kept), removes the
     definitions of the indexes that name the column - their files are only emptied and stay -
     and drops the column under its catalogue name (c3e8980);
   * RENAME COLUMN renames the column, refused when the new name is taken (e35ce21); index
     definitions keep the old column name;
   * TRUNCATE physically deletes every entry (tombstones too);
   * CREATE INDEX does not check that the column exists; index names are looked up by name.
   Before those repairs DROP COLUMN cleared the DELETE bit, a DROP COLUMN in another letter case
   migrated the data without the catalogue, duplicate names and dropping the only column were
   accepted, and UPDATE revived tombstones (former classes 2, 3, 4, 7, 9, 5).
   Reopening is the identity on this state (the catalogue and table files are what is read
   back); that persistence is SAMPLED by the correspondence run, not derived here. *)
From Coq Require Import ZArith List Bool.
From TV Require Import Model.DdlSpec.
Import ListNotations.
Open Scope Z_scope.

Definition srow := (bool * row)%type.              (* (DELETE bit, values) *)
(* ishort: some stored record was written before the latest ADD COLUMN (it is shorter than the
   catalogue's column list); only the evolution-aware decoder of full scans and of DROP COLUMN
   reads such a record correctly *)
Record itbl := mkI { icols : list col; irows : list srow; ishort : bool }.
(* ifiles: (index name, table) of index FILES whose definition is gone from the catalogue: DROP COLUMN
   removes the definitions of the indexes on the column (table.remove_index) but only empties
   their files *)
Record istate := mkIS { itabs : list (Z * itbl); iidx : list idx; ifiles : list (Z * Z) }.
Definition i_empty : istate := mkIS [] [] [].
Definition in_files (i : Z) (l : list (Z * Z)) : bool := existsb (fun e => fst e =? i) l.

Definition live (rs : list srow) : list row := map snd (filter (fun p => negb (fst p)) rs).
Definition has_tomb (rs : list srow) : bool := existsb fst rs.

Definition i_insert (r : row) (tb : itbl) : option itbl :=
  if fits_row (icols tb) r then Some (mkI (icols tb) (irows tb ++ [(false, r)]) (ishort tb)) else None.
Definition i_insert_one (c : Z) (v : val) (tb : itbl) : option itbl :=
  match find_col c (icols tb) with
  | Some i => if fits (col_ty i (icols tb)) v
              then Some (mkI (icols tb) (irows tb ++ [(false, default_row (icols tb) i v)]) (ishort tb)) else None
  | None => None
  end.
Definition i_delete_eq (c : Z) (v : val) (tb : itbl) : option itbl :=
  match find_col c (icols tb) with
  | Some i => Some (mkI (icols tb)
                (map (fun p : srow => if negb (fst p) && cell_matches i v (snd p) then (true, snd p) else p) (irows tb))
                (ishort tb))
  | None => None
  end.
Definition i_delete_all (tb : itbl) : option itbl :=
  Some (mkI (icols tb) (map (fun p : srow => (true, snd p)) (irows tb)) (ishort tb)).
Definition i_update_eq (sc : Z) (sv : val) (wc : Z) (wv : val) (tb : itbl) : option itbl :=
  match find_col sc (icols tb), find_col wc (icols tb) with
  | Some i, Some j =>
      if fits (col_ty i (icols tb)) sv
      then Some (mkI (icols tb)
             (map (fun p : srow => if negb (fst p) && cell_matches j wv (snd p) then (false, set_nth i sv (snd p)) else p) (irows tb))
             (ishort tb))
      else None
  | _, _ => None
  end.
(* every live row is rewritten under the current column list; tombstones stay as they are *)
Definition i_update_all (sc : Z) (sv : val) (tb : itbl) : option itbl :=
  match find_col sc (icols tb) with
  | Some i => if fits (col_ty i (icols tb)) sv
              then Some (mkI (icols tb) (map (fun p : srow => if negb (fst p) then (false, set_nth i sv (snd p)) else p) (irows tb))
                             (ishort tb && has_tomb (irows tb)))
              else None
  | None => None
  end.
Definition i_add_col (c : col) (tb : itbl) : option itbl :=
  if has_col (cname c) (icols tb) || negb (fits (cty c) (cdef c)) then None
  else Some (mkI (icols tb ++ [c]) (map (fun p : srow => (fst p, snd p ++ [VN])) (irows tb))
                  (match irows tb with [] => ishort tb | _ => true end)).
(* the spelling of the name (exact or other letter case) makes no difference *)
Definition i_drop_col (c : Z) (exact : bool) (tb : itbl) : option itbl :=
  match find_col c (icols tb) with
  | Some i =>
      if (length (icols tb) <=? 1)%nat then None
      else Some (mkI (remove_nth i (icols tb)) (map (fun p : srow => (fst p, remove_nth i (snd p))) (irows tb)) false)
  | None => None
  end.
Definition i_rename_col (c n : Z) (tb : itbl) : option itbl :=
  match find_col c (icols tb) with
  | Some i => if has_col n (icols tb) then None else Some (mkI (rename_at i n (icols tb)) (irows tb) (ishort tb))
  | None => None
  end.

Definition i_on (t : Z) (f : itbl -> option itbl) (s : istate) : istate * bool :=
  match get t (itabs s) with
  | Some tb => match f tb with
               | Some tb' => (mkIS (put t tb' (itabs s)) (iidx s) (ifiles s), true)
               | None => (s, false)
               end
  | None => (s, false)
  end.

Definition i_step (s : istate) (st : stmt) : istate * bool :=
  match st with
  | CreateTable t cs =>
      match get t (itabs s) with
      | Some _ => (s, false)
      | None => match cs with
                | [] => (s, false)                 (* does not parse *)
                | _ => if nodup_names cs && forallb (fun c => fits (cty c) (cdef c)) cs
                       then (mkIS (itabs s ++ [(t, mkI cs [] false)]) (iidx s) (ifiles s), true) else (s, false)
                end
      end
  | DropTable t =>
      match get t (itabs s) with
      | Some _ => (mkIS (del t (itabs s)) (filter (fun e => negb (idx_of_table t e)) (iidx s))
                        (filter (fun e => negb (snd e =? t)) (ifiles s)), true)     (* drop_table removes every index file *)
      | None => (s, false)
      end
  | Insert t r => i_on t (i_insert r) s
  | InsertOne t c v => i_on t (i_insert_one c v) s
  | DeleteEq t c v => i_on t (i_delete_eq c v) s
  | DeleteAll t => i_on t i_delete_all s
  | UpdateEq t sc sv wc wv => i_on t (i_update_eq sc sv wc wv) s
  | UpdateAll t sc sv => i_on t (i_update_all sc sv) s
  | AddCol t c => i_on t (i_add_col c) s
  | DropCol t c exact =>
      match i_on t (i_drop_col c exact) s with
      | (s', true) => (mkIS (itabs s') (filter (fun e => negb (idx_on t c e)) (iidx s'))
                            (ifiles s' ++ map fst (filter (idx_on t c) (iidx s'))), true)
      | r => r
      end
  | RenameCol t c n => i_on t (i_rename_col c n) s
  | Truncate t _ => i_on t (fun tb => Some (mkI (icols tb) [] false)) s
  | CreateIndex i t c =>
      match get t (itabs s) with
      | Some tb => if has_idx i (iidx s) then (s, false)
                   else if in_files i (ifiles s)
                   then (* the definition is registered, then creating the file fails *)
                        (mkIS (itabs s) (iidx s ++ [(i, t, c)]) (filter (fun e => negb (fst e =? i)) (ifiles s)), false)
                   else (mkIS (itabs s) (iidx s ++ [(i, t, c)]) (ifiles s), true)
      | None => (s, false)
      end
  | DropIndex i => if has_idx i (iidx s) then (mkIS (itabs s) (drop_idx i (iidx s)) (ifiles s), true) else (s, false)
  | Reopen => (s, true)
  end.

(* --- what a full scan shows *)
Definition i_obs1 (s : istate) (t : Z) : tobs :=
  match get t (itabs s) with
  | Some tb => TRows (map cname (icols tb)) (live (irows tb))
  | None => TNone
  end.
Definition i_obs (s : istate) : list tobs := map (i_obs1 s) universe.

Fixpoint i_run (s : istate) (h : list stmt) : list (bool * list tobs) :=
  match h with
  | [] => []
  | st :: r => let '(s', ok) := i_step s st in (ok, i_obs s') :: i_run s' r
  end.

(* ------------------------------------------------------------------ recorded defect classes
   (known_findings.d/C21.json), as decidable conditions on (state before, statement): *)
Definition tbl_of (s : istate) (t : Z) : itbl :=
  match get t (itabs s) with Some tb => tb | None => mkI [] [] false end.
Definition step_class (s : istate) (st : stmt) : Z :=
  match st with
  | AddCol t c =>
      let tb := tbl_of s t in
      if negb (has_col (cname c) (icols tb))
         && negb (val_eqb (cdef c) VN) && negb (match live (irows tb) with [] => true | _ => false end)
      then 1                                                      (* existing rows read NULL, not the DEFAULT *)
      else 0
  | RenameCol t c n =>
      let tb := tbl_of s t in
      if has_col c (icols tb) && negb (has_col n (icols tb)) && existsb (idx_on t c) (iidx s)
      then 6                                                      (* index definition keeps the old name *)
      else 0
  | CreateIndex i t c =>
      match get t (itabs s) with
      | Some tb => if negb (has_idx i (iidx s)) && in_files i (ifiles s) then 12   (* file left by DROP COLUMN *)
                   else if negb (has_idx i (iidx s)) && negb (has_col c (icols tb)) then 8
                   else if ishort tb then 11 else 0
      | None => 0
      end
  (* short records read by a decoder that does not know them *)
  | UpdateEq t _ _ _ _ | UpdateAll t _ _ | DeleteEq t _ _ | DeleteAll t => if ishort (tbl_of s t) then 11 else 0
  | _ => 0
  end.

Fixpoint hist_class (s : istate) (h : list stmt) : Z :=
  match h with
  | [] => 0
  | st :: r =>
      let k := step_class s st in
      if k =? 0 then hist_class (fst (i_step s st)) r else k
  end.
