(* C28 / C29: the structural invariant of the abstract-node B-tree.  DEFINITIONS ONLY.
   bounded h lo hi t: t has uniform height h (every leaf at depth h), every leaf's keys are strictly
   increasing and lie in [lo, hi), its slot array and cell area fit the page without overlapping
   (header + slots <= free_end, free_end + live cell bytes <= page size; an empty leaf has its whole
   cell area free), the separators of every
   interior page are strictly increasing, lie strictly inside (lo, hi), bound the key ranges of the
   children left and right of them, and fit the page. *)
From Coq Require Import ZArith List Bool Sorting.Sorted.
From TV Require Import Lib.MachInt Gen.Varint Model.BTree.
Import ListNotations.
Open Scope Z_scope.

Definition lo_ok (lo : option key) (k : key) : Prop := match lo with None => True | Some a => kcmp k a <> Lt end.
Definition lo_lt (lo : option key) (k : key) : Prop := match lo with None => True | Some a => kcmp a k = Lt end.
Definition hi_ok (hi : option key) (k : key) : Prop := match hi with None => True | Some b => kcmp k b = Lt end.

Section INV.
Variable V : Type.
Variable vlen : V -> Z.
Notation entry := (entry V).
Notation leaf := (leaf V).
Notation tree := (tree V).
Notation kid := (kid V).

Definition cells_sorted (cs : list entry) : Prop := StronglySorted (fun a b : entry => kcmp (fst a) (fst b) = Lt) cs.
Definition cells_in (lo hi : option key) (cs : list entry) : Prop :=
  Forall (fun c : entry => lo_ok lo (fst c) /\ hi_ok hi (fst c)) cs.
Definition leaf_sizes (l : leaf) : Prop :=
  LEAF_START + SLOT * lcount V l <= lfe l /\ lfe l + sumz (map (csize V vlen) (lcells l)) <= PAGE /\ 0 <= lfrag l <= 255
  /\ (lcells l = [] -> lfe l = PAGE).
Definition leaf_ok (lo hi : option key) (l : leaf) : Prop :=
  cells_sorted (lcells l) /\ cells_in lo hi (lcells l) /\ leaf_sizes l.

Fixpoint kids_bounded (P : option key -> option key -> tree -> Prop) (lo hi : option key) (kids : list kid) (r : tree) : Prop :=
  match kids with
  | [] => P lo hi r
  | sc :: rest => lo_lt lo (fst sc) /\ hi_ok hi (fst sc) /\ P lo (Some (fst sc)) (snd sc) /\ kids_bounded P (Some (fst sc)) hi rest r
  end.

Fixpoint bounded (h : nat) (lo hi : option key) (t : tree) {struct h} : Prop :=
  match h, t with
  | O, Leaf l => leaf_ok lo hi l
  | S h', Node _ kids r => 0 <= ifree V kids /\ kids_bounded (bounded h') lo hi kids r
  | _, _ => False
  end.

(* the invariant of a BTree handle: a well-formed tree of its own height covering all keys *)
Definition Inv (s : state V) : Prop := bounded (depth V (root s)) None None (root s).

End INV.
