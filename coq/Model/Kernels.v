(* C24 model: the vector distance kernels of src/hnsw/distance.rs, as lane algebra over an
   abstract number type.  Hand-written (f32 / SIMD intrinsics are outside the rs2v subset).
   Definitions only, no proofs.

   The kernels are written once, over a record of operations [kops R]; they are
   instantiated
     - with a commutative ring (Proof/Kernels.v: the theorems, for every ring),
     - with Z (this file, the exact model used on integer-valued vectors),
     - with IEEE-754 binary32 (Model/KernelsF32.v, the bit-exact model).

   Faithfulness notes (distance.rs as it is):
     * scalar kernels iterate `a.iter().zip(b.iter())`: they stop at the shorter slice;
     * the AVX2 kernels take `n = a.len()`, load 8 lanes of `a` and of `b` with unaligned
       *unchecked* loads while `i + 8 <= n` (reading past the end of a shorter `b` is
       undefined behaviour: outcome [KUB]), keep 8 accumulators updated with a fused
       multiply-add, reduce them with horizontal_sum_avx2 in the order
       ((l0+l4)+(l2+l6)) + ((l1+l5)+(l3+l7)), then finish the `n mod 8` tail with checked
       indexing `a[i]`, `b[i]` (a shorter `b` panics: outcome [KPanic]) and a separate
       multiply and add (Rust never contracts `x*y+z` into an fma);
     * the dispatchers pick the AVX2 kernel when the CPU has avx2+fma, else the scalar one. *)
From Coq Require Import ZArith List Bool Ring_theory.
Import ListNotations.

Inductive kres (A : Type) := KVal (v : A) | KPanic | KUB.
Arguments KVal {A} v.
Arguments KPanic {A}.
Arguments KUB {A}.

Definition kmap {A B} (f : A -> B) (r : kres A) : kres B :=
  match r with KVal v => KVal (f v) | KPanic => KPanic | KUB => KUB end.

(* ring-like operations; [kfma x y z] is the fused x*y+z *)
Record kops (R : Type) := {
  k0 : R;
  kadd : R -> R -> R;
  ksub : R -> R -> R;
  kmul : R -> R -> R;
  kopp : R -> R;
  kfma : R -> R -> R -> R
}.
Arguments k0 {R}. Arguments kadd {R}. Arguments ksub {R}. Arguments kmul {R}.
Arguments kopp {R}. Arguments kfma {R}.

(* "the operations form a commutative ring with unit [one], and the fused multiply-add is
   exact": the hypothesis of the lane-algebra theorems (Z, Q, the reals, Z/nZ ... satisfy it;
   IEEE floats do not -- there the theorems say what is computed before rounding). *)
Definition ring_kops {R : Type} (o : kops R) (one : R) : Prop :=
  ring_theory (k0 o) one (kadd o) (kmul o) (ksub o) (kopp o) (@eq R) /\
  (forall x y z, kfma o x y z = kadd o (kmul o x y) z).

(* what the cosine kernels do after the three sums are known *)
Record kfin (R : Type) := {
  k1 : R;
  kdiv : R -> R -> R;
  ksqrt : R -> R;
  kis0 : R -> bool          (* `x == 0.0` *)
}.
Arguments k1 {R}. Arguments kdiv {R}. Arguments ksqrt {R}. Arguments kis0 {R}.

Section Kernels.
  Context {R : Type} (o : kops R).
  Local Notation "x + y" := (kadd o x y).
  Local Notation "x - y" := (ksub o x y).
  Local Notation "x * y" := (kmul o x y).

  (* ---------------------------------------------------------------- the definitions (Spec)
     Sum over the common prefix, as a right fold: the "scalar definition" of the property. *)
  Fixpoint l2sq_spec (a b : list R) : R :=
    match a, b with
    | x :: a', y :: b' => (x - y) * (x - y) + l2sq_spec a' b'
    | _, _ => k0 o
    end.
  Fixpoint dot_spec (a b : list R) : R :=
    match a, b with
    | x :: a', y :: b' => x * y + dot_spec a' b'
    | _, _ => k0 o
    end.

  (* ---------------------------------------------------------------- scalar kernels *)
  (* euclidean_squared_scalar: sum = 0; for (x,y) in zip { diff = x-y; sum += diff*diff } *)
  Fixpoint l2sq_scalar_from (sum : R) (a b : list R) : R :=
    match a, b with
    | x :: a', y :: b' => let d := x - y in l2sq_scalar_from (sum + d * d) a' b'
    | _, _ => sum
    end.
  Definition l2sq_scalar (a b : list R) : R := l2sq_scalar_from (k0 o) a b.

  (* dot_product_scalar *)
  Fixpoint dot_scalar_from (sum : R) (a b : list R) : R :=
    match a, b with
    | x :: a', y :: b' => dot_scalar_from (sum + x * y) a' b'
    | _, _ => sum
    end.
  Definition dot_scalar (a b : list R) : R := dot_scalar_from (k0 o) a b.
  Definition inner_scalar (a b : list R) : R := kopp o (dot_scalar a b).

  (* cosine_scalar, the loop: (dot, norm_a, norm_b) *)
  Fixpoint cos_parts_scalar_from (s : R * R * R) (a b : list R) : R * R * R :=
    match a, b with
    | x :: a', y :: b' =>
        let '(d, na, nb) := s in
        cos_parts_scalar_from (d + x * y, na + x * x, nb + y * y) a' b'
    | _, _ => s
    end.
  Definition cos_parts_scalar (a b : list R) : R * R * R :=
    cos_parts_scalar_from (k0 o, k0 o, k0 o) a b.

  (* ---------------------------------------------------------------- AVX2 kernels *)
  Inductive v8 := V8 (l0 l1 l2 l3 l4 l5 l6 l7 : R).
  Definition v8_zero : v8 := V8 (k0 o) (k0 o) (k0 o) (k0 o) (k0 o) (k0 o) (k0 o) (k0 o).
  Definition v8_map2 (f : R -> R -> R) (x y : v8) : v8 :=
    let '(V8 x0 x1 x2 x3 x4 x5 x6 x7) := x in
    let '(V8 y0 y1 y2 y3 y4 y5 y6 y7) := y in
    V8 (f x0 y0) (f x1 y1) (f x2 y2) (f x3 y3) (f x4 y4) (f x5 y5) (f x6 y6) (f x7 y7).
  Definition v8_sub := v8_map2 (ksub o).                       (* _mm256_sub_ps *)
  (* _mm256_fmadd_ps(x, y, z) = x*y+z lane-wise, one rounding *)
  Definition v8_fmadd (x y z : v8) : v8 :=
    let '(V8 x0 x1 x2 x3 x4 x5 x6 x7) := x in
    let '(V8 y0 y1 y2 y3 y4 y5 y6 y7) := y in
    let '(V8 z0 z1 z2 z3 z4 z5 z6 z7) := z in
    V8 (kfma o x0 y0 z0) (kfma o x1 y1 z1) (kfma o x2 y2 z2) (kfma o x3 y3 z3)
       (kfma o x4 y4 z4) (kfma o x5 y5 z5) (kfma o x6 y6 z6) (kfma o x7 y7 z7).

  (* horizontal_sum_avx2: lo+hi (128 bit halves), then movehl, then shuffle *)
  Definition hsum (v : v8) : R :=
    let '(V8 l0 l1 l2 l3 l4 l5 l6 l7) := v in
    let s0 := l0 + l4 in let s1 := l1 + l5 in let s2 := l2 + l6 in let s3 := l3 + l7 in
    (s0 + s2) + (s1 + s3).

  (* the scalar tails `while i < n { ... a[i] ... b[i] ... }` *)
  Fixpoint l2sq_tail (r : R) (a b : list R) : kres R :=
    match a with
    | [] => KVal r
    | x :: a' =>
        match b with
        | y :: b' => let d := x - y in l2sq_tail (r + d * d) a' b'
        | [] => KPanic
        end
    end.
  Fixpoint dot_tail (r : R) (a b : list R) : kres R :=
    match a with
    | [] => KVal r
    | x :: a' =>
        match b with
        | y :: b' => dot_tail (r + x * y) a' b'
        | [] => KPanic
        end
    end.
  Fixpoint cos_tail (s : R * R * R) (a b : list R) : kres (R * R * R) :=
    match a with
    | [] => KVal s
    | x :: a' =>
        match b with
        | y :: b' =>
            let '(d, na, nb) := s in cos_tail (d + x * y, na + x * x, nb + y * y) a' b'
        | [] => KPanic
        end
    end.

  (* euclidean_squared_avx2 *)
  Fixpoint l2sq_avx2_loop (acc : v8) (a b : list R) {struct a} : kres R :=
    match a with
    | x0 :: x1 :: x2 :: x3 :: x4 :: x5 :: x6 :: x7 :: a' =>
        match b with
        | y0 :: y1 :: y2 :: y3 :: y4 :: y5 :: y6 :: y7 :: b' =>
            let d := v8_sub (V8 x0 x1 x2 x3 x4 x5 x6 x7) (V8 y0 y1 y2 y3 y4 y5 y6 y7) in
            l2sq_avx2_loop (v8_fmadd d d acc) a' b'
        | _ => KUB
        end
    | _ => l2sq_tail (hsum acc) a b
    end.
  Definition l2sq_avx2 (a b : list R) : kres R := l2sq_avx2_loop v8_zero a b.

  (* dot_product_avx2 / inner_product_avx2 *)
  Fixpoint dot_avx2_loop (acc : v8) (a b : list R) {struct a} : kres R :=
    match a with
    | x0 :: x1 :: x2 :: x3 :: x4 :: x5 :: x6 :: x7 :: a' =>
        match b with
        | y0 :: y1 :: y2 :: y3 :: y4 :: y5 :: y6 :: y7 :: b' =>
            dot_avx2_loop (v8_fmadd (V8 x0 x1 x2 x3 x4 x5 x6 x7) (V8 y0 y1 y2 y3 y4 y5 y6 y7) acc) a' b'
        | _ => KUB
        end
    | _ => dot_tail (hsum acc) a b
    end.
  Definition dot_avx2 (a b : list R) : kres R := dot_avx2_loop v8_zero a b.
  Definition inner_avx2 (a b : list R) : kres R := kmap (kopp o) (dot_avx2 a b).

  (* cosine_avx2, up to the three sums *)
  Fixpoint cos_parts_avx2_loop (ad aa ab : v8) (a b : list R) {struct a} : kres (R * R * R) :=
    match a with
    | x0 :: x1 :: x2 :: x3 :: x4 :: x5 :: x6 :: x7 :: a' =>
        match b with
        | y0 :: y1 :: y2 :: y3 :: y4 :: y5 :: y6 :: y7 :: b' =>
            let va := V8 x0 x1 x2 x3 x4 x5 x6 x7 in
            let vb := V8 y0 y1 y2 y3 y4 y5 y6 y7 in
            cos_parts_avx2_loop (v8_fmadd va vb ad) (v8_fmadd va va aa) (v8_fmadd vb vb ab) a' b'
        | _ => KUB
        end
    | _ => cos_tail (hsum ad, hsum aa, hsum ab) a b
    end.
  Definition cos_parts_avx2 (a b : list R) : kres (R * R * R) :=
    cos_parts_avx2_loop v8_zero v8_zero v8_zero a b.

  (* ---------------------------------------------------------------- finishing + dispatch *)
  Context (fin : kfin R).
  (* norm_product = sqrt(norm_a*norm_b); if norm_product == 0.0 { 1.0 } else { 1.0 - dot/norm_product } *)
  Definition cos_finish (s : R * R * R) : R :=
    let '(d, na, nb) := s in
    let np := ksqrt fin (na * nb) in
    if kis0 fin np then k1 fin else k1 fin - kdiv fin d np.
  Definition cosine_scalar (a b : list R) : R := cos_finish (cos_parts_scalar a b).
  Definition cosine_avx2 (a b : list R) : kres R := kmap cos_finish (cos_parts_avx2 a b).
  Definition euclid_scalar (a b : list R) : R := ksqrt fin (l2sq_scalar a b).
  Definition euclid_avx2 (a b : list R) : kres R := kmap (ksqrt fin) (l2sq_avx2 a b).

  (* *_dispatch on x86_64: [simd] = is_x86_feature_detected!("avx2") && ..("fma") *)
  Definition l2sq_dispatch (simd : bool) (a b : list R) : kres R :=
    if simd then l2sq_avx2 a b else KVal (l2sq_scalar a b).
  Definition euclid_dispatch (simd : bool) (a b : list R) : kres R :=
    kmap (ksqrt fin) (l2sq_dispatch simd a b).
  Definition cosine_dispatch (simd : bool) (a b : list R) : kres R :=
    if simd then cosine_avx2 a b else KVal (cosine_scalar a b).
  Definition inner_dispatch (simd : bool) (a b : list R) : kres R :=
    if simd then inner_avx2 a b else KVal (inner_scalar a b).
End Kernels.

(* the exact instance used on integer-valued vectors *)
Definition zops : kops Z :=
  {| k0 := 0%Z; kadd := Z.add; ksub := Z.sub; kmul := Z.mul; kopp := Z.opp;
     kfma := fun x y z => (x * y + z)%Z |}.
