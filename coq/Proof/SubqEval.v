(* C18: on the typed fragment (Model/SubqWf.v vform / pform) the predicate evaluator of the
   implementation model (Model/SubqImpl.v ieval, i.e. predicate.rs after the C14 repairs) computes
   what the reference semantics (Model/SubqSpec.v xeval) defines, given that column lookups and
   scalar-subquery lookups agree. *)
From Coq Require Import ZArith List Bool Arith Lia.
From TV Require Import Model.SqlSpec Proof.SqlSpecLaws Model.SubqSpec Model.SubqImpl Model.SubqWf.
From TV Require Import Proof.SubqLaws Proof.SetOpsBag.
Import ListNotations.
Open Scope Z_scope.

(* truth values: Option<bool> against tv *)
Definition tv_of_ob (o : option bool) : tv :=
  match o with Some true => TT | Some false => FF | None => UU end.

Lemma tv_of_ob_kand : forall a b, tv_of_ob (kand a b) = tv_and (tv_of_ob a) (tv_of_ob b).
Proof. intros [[|]|] [[|]|]; reflexivity. Qed.
Lemma tv_of_ob_kor : forall a b, tv_of_ob (kor a b) = tv_or (tv_of_ob a) (tv_of_ob b).
Proof. intros [[|]|] [[|]|]; reflexivity. Qed.
Lemma tv_of_ob_not : forall a, tv_of_ob (option_map negb a) = tv_not (tv_of_ob a).
Proof. intros [[|]|]; reflexivity. Qed.
Lemma tv_of_value_of_tv : forall t, tv_of_value (value_of_tv t) = Some t.
Proof. intros []; reflexivity. Qed.

(* a value as the implementation holds it: the value itself, or the Rust None for a NULL that
   came out of arithmetic *)
Definition val_rel (x : ires) (v : value) : Prop :=
  plain_val v = true /\ (x = IVal (Some v) \/ (v = VNull /\ x = IVal None)).

Section Agree.
  Variable db : list table.
  Variable env : list row.
  Variable look : nat -> nat -> bool -> option value.
  Variable scal : qry -> option value.

  (* the column references / scalar subqueries that occur at this level of the expression *)
  Fixpoint cols_ok (P : nat -> nat -> bool -> Prop) (e : sx) : Prop :=
    match e with
    | XCol l i q => P l i q
    | XLit _ => True
    | XArith _ a b | XCmp _ a b | XAnd a b | XOr a b => cols_ok P a /\ cols_ok P b
    | XNot a | XIsNull _ a => cols_ok P a
    | XIn _ a _ => cols_ok P a
    | XExists _ _ | XScalar _ => True
    end.

  (* the lookup returns what the reference reads, and that is a plain value *)
  Definition look_agrees (l i : nat) (q : bool) : Prop :=
    forall r v, nth_error env l = Some r -> nth_error r i = Some v ->
                look l i q = Some v /\ plain_val v = true.
  (* scalar_subquery_results holds the value the reference defines *)
  Definition scal_agrees (e : sx) : Prop :=
    forall q, In q (scalars_of e) -> forall v, xeval db env (XScalar q) = ROk v ->
              scal q = Some v /\ plain_val v = true.

  Lemma scal_agrees_l : forall a b (f : sx -> sx -> sx),
    (forall q, In q (scalars_of a) -> In q (scalars_of (f a b))) ->
    scal_agrees (f a b) -> scal_agrees a.
  Proof. intros a b f Hin H q Hq. apply H. apply Hin. exact Hq. Qed.

  Lemma rmap2_ok : forall {A B C} (f : A -> B -> res C) x y c,
    rmap2 f x y = ROk c -> exists a b, x = ROk a /\ y = ROk b /\ f a b = ROk c.
  Proof. intros A B C f x y c H. destruct x, y; cbn [rmap2] in H; try discriminate. eauto. Qed.
  Lemma rbind_ok : forall {A B} (f : A -> res B) x c,
    rbind x f = ROk c -> exists a, x = ROk a /\ f a = ROk c.
  Proof. intros A B f x c H. destruct x; cbn [rbind] in H; try discriminate. eauto. Qed.
  Lemma of_opt_ok : forall {A} (o : option A) a, of_opt o = ROk a -> o = Some a.
  Proof. intros A [x|] a H; cbn [of_opt] in H; [inversion H; reflexivity|discriminate]. Qed.

  Lemma as_val_rel : forall x v, val_rel x v ->
    (v <> VNull -> as_val x = Some (Some v)) /\
    (v = VNull -> as_val x = Some (Some VNull) \/ as_val x = Some None).
  Proof.
    intros x v [Hp [Hx|[Hv Hx]]]; subst x; cbn [as_val]; split; intro H; try congruence; try subst v; auto.
  Qed.

  (* ---- value forms *)
  Lemma vform_agree : forall e v,
    vform e = true -> cols_ok look_agrees e -> scal_agrees e ->
    xeval db env e = ROk v -> val_rel (ieval look scal e) v.
  Proof.
    induction e as [l i q|v0|op a IHa b IHb| | | | | | | |q]; intros v Hf Hc Hs Hx; cbn [vform] in Hf; try discriminate.
    - (* column *)
      rewrite xeval_col in Hx. destruct (nth_error env l) as [r|] eqn:Hr; [|discriminate].
      apply of_opt_ok in Hx. cbn [cols_ok] in Hc. destruct (Hc r v Hr Hx) as [Hl Hp].
      cbn [ieval]. rewrite Hl. split; [exact Hp|left; reflexivity].
    - (* literal *)
      rewrite xeval_lit in Hx. inversion Hx; subst v0. cbn [ieval].
      split; [exact Hf|]. left. destruct v; cbn [plain_val] in Hf; try discriminate; reflexivity.
    - (* arithmetic *)
      apply andb_true_iff in Hf. destruct Hf as [Hfa Hfb]. cbn [cols_ok] in Hc. destruct Hc as [Hca Hcb].
      rewrite xeval_arith in Hx. apply rmap2_ok in Hx. destruct Hx as [x [y [Hxa [Hxb Hv]]]]. apply of_opt_ok in Hv.
      assert (Hsa : scal_agrees a) by (intros q Hq; apply Hs; cbn [scalars_of]; apply in_or_app; left; exact Hq).
      assert (Hsb : scal_agrees b) by (intros q Hq; apply Hs; cbn [scalars_of]; apply in_or_app; right; exact Hq).
      specialize (IHa x Hfa Hca Hsa Hxa). specialize (IHb y Hfb Hcb Hsb Hxb).
      destruct (as_val_rel _ _ IHa) as [Ha1 Ha2]. destruct (as_val_rel _ _ IHb) as [Hb1 Hb2].
      destruct IHa as [Hpa _]. destruct IHb as [Hpb _].
      cbn [ieval].
      destruct x as [|xa| |xs|]; cbn [plain_val] in Hpa; try discriminate;
      destruct y as [|yb| |ys|]; cbn [plain_val] in Hpb; try discriminate;
      cbn [arith_values] in Hv; try discriminate.
      + (* NULL, NULL *) inversion Hv; subst v. split; [reflexivity|]. right. split; [reflexivity|].
        destruct (Ha2 eq_refl) as [E1|E1]; destruct (Hb2 eq_refl) as [E2|E2]; rewrite E1, E2; reflexivity.
      + (* NULL, int *) inversion Hv; subst v. split; [reflexivity|]. right. split; [reflexivity|].
        rewrite (Hb1 ltac:(discriminate)). destruct (Ha2 eq_refl) as [E1|E1]; rewrite E1; reflexivity.
      + (* int, NULL *) inversion Hv; subst v. split; [reflexivity|]. right. split; [reflexivity|].
        rewrite (Ha1 ltac:(discriminate)). destruct (Hb2 eq_refl) as [E2|E2]; rewrite E2; reflexivity.
      + (* int, int *)
        rewrite (Ha1 ltac:(discriminate)), (Hb1 ltac:(discriminate)). cbn [iarith].
        destruct (i64_ok (arith_z op xa yb)); [|discriminate]. inversion Hv; subst v.
        split; [reflexivity|left; reflexivity].
    - (* scalar subquery *)
      destruct (Hs q (or_introl eq_refl) v Hx) as [Hq Hp]. cbn [ieval]. rewrite Hq. split; [exact Hp|left; reflexivity].
  Qed.

  (* value forms never produce an EXISTS / IN node or something unmodelled *)
  Lemma vform_is_pred : forall e, vform e = true -> is_pred e = false.
  Proof. destruct e; cbn [vform is_pred]; intro H; try discriminate; reflexivity. Qed.

  Lemma icmp_agree : forall op x y t, plain_val x = true -> plain_val y = true ->
    x <> VNull -> y <> VNull -> cmp3 op x y = Some t ->
    icmp op x y = Some (match t with TT => Some true | FF => Some false | UU => None end).
  Proof.
    intros op x y t Hx Hy Nx Ny H.
    destruct x; cbn [plain_val] in Hx; try discriminate; try congruence;
    destruct y; cbn [plain_val] in Hy; try discriminate; try congruence;
    unfold cmp3 in H; cbn [cmp_values] in H; try discriminate; inversion H; cbn [icmp];
    match goal with |- context [cmp_holds ?o ?c] => destruct (cmp_holds o c) end; reflexivity.
  Qed.

  (* ---- predicate forms without EXISTS / IN *)
  Fixpoint no_inex (e : sx) : bool :=
    match e with
    | XCol _ _ _ | XLit _ | XScalar _ => true
    | XArith _ a b | XCmp _ a b | XAnd a b | XOr a b => no_inex a && no_inex b
    | XNot a | XIsNull _ a => no_inex a
    | XIn _ _ _ | XExists _ _ => false
    end.

  Lemma and_res_ok : forall a b t, and_res a b = ROk t -> exists x y, a = ROk x /\ b = ROk y /\ t = tv_and x y.
  Proof.
    intros a b t H. destruct a as [[]| |], b as [[]| |]; cbn [and_res] in H; try discriminate;
      inversion H; subst; do 2 eexists; repeat split.
  Qed.
  Lemma or_res_ok : forall a b t, or_res a b = ROk t -> exists x y, a = ROk x /\ b = ROk y /\ t = tv_or x y.
  Proof.
    intros a b t H. destruct a as [[]| |], b as [[]| |]; cbn [or_res] in H; try discriminate;
      inversion H; subst; do 2 eexists; repeat split.
  Qed.
  Lemma rtv_ok : forall x t, rtv x = ROk t -> exists v, x = ROk v /\ tv_of_value v = Some t.
  Proof. intros x t H. unfold rtv in H. apply rbind_ok in H. destruct H as [v [Hv Ht]]. apply of_opt_ok in Ht. eauto. Qed.
  Lemma rval_ok : forall x v, rval x = ROk v -> exists t, x = ROk t /\ v = value_of_tv t.
  Proof. intros x v H. unfold rval in H. apply rbind_ok in H. destruct H as [t [Ht Hv]]. inversion Hv. eauto. Qed.

  Lemma pform_agree : forall e v,
    pform e = true -> no_inex e = true -> cols_ok look_agrees e -> scal_agrees e ->
    xeval db env e = ROk v ->
    exists o, ieval look scal e = ITv o /\ v = value_of_tv (tv_of_ob o).
  Proof.
    induction e as [l0 i0 q0|v0|op0 a0 _ b0 _|op a _ b _|a IHa b IHb|a IHa b IHb|a IHa|neg a _|neg0 a0 _ q0|neg0 q0|q0];
      intros v Hf Hn Hc Hs Hx; cbn [pform] in Hf; cbn [no_inex] in Hn; try discriminate.
    - (* comparison *)
      apply andb_true_iff in Hf. destruct Hf as [Hfa Hfb]. cbn [cols_ok] in Hc. destruct Hc as [Hca Hcb].
      rewrite xeval_cmp in Hx. apply rmap2_ok in Hx. destruct Hx as [x [y [Hxa [Hxb Hv]]]]. apply of_opt_ok in Hv.
      assert (Hsa : scal_agrees a) by (intros q Hq; apply Hs; cbn [scalars_of]; apply in_or_app; left; exact Hq).
      assert (Hsb : scal_agrees b) by (intros q Hq; apply Hs; cbn [scalars_of]; apply in_or_app; right; exact Hq).
      pose proof (vform_agree a x Hfa Hca Hsa Hxa) as Ra. pose proof (vform_agree b y Hfb Hcb Hsb Hxb) as Rb.
      destruct (as_val_rel _ _ Ra) as [Ha1 Ha2]. destruct (as_val_rel _ _ Rb) as [Hb1 Hb2].
      destruct Ra as [Hpa _]. destruct Rb as [Hpb _].
      unfold ret_tv in Hv. destruct (cmp3 op x y) as [t|] eqn:Hc3; [|discriminate]. cbn [option_map] in Hv. inversion Hv; subst v.
      cbn [ieval].
      destruct (value_eqb x VNull) eqn:Ex.
      + apply value_eqb_eq' in Ex. subst x.
        assert (t = UU) by (unfold cmp3 in Hc3; destruct y; cbn [cmp_values] in Hc3; inversion Hc3; reflexivity). subst t.
        exists None. split; [|reflexivity].
        destruct (Ha2 eq_refl) as [E1|E1]; rewrite E1.
        * destruct (value_eqb y VNull) eqn:Ey.
          -- apply value_eqb_eq' in Ey. subst y. destruct (Hb2 eq_refl) as [E2|E2]; rewrite E2; reflexivity.
          -- assert (y <> VNull) by (intro; subst; discriminate). rewrite (Hb1 H).
             destruct y; cbn [plain_val] in Hpb; try discriminate; try congruence; reflexivity.
        * destruct (as_val (ieval look scal b)) as [[yv|]|] eqn:Eb; try reflexivity.
          destruct (value_eqb y VNull) eqn:Ey.
          -- apply value_eqb_eq' in Ey. subst y. destruct (Hb2 eq_refl); discriminate.
          -- assert (y <> VNull) by (intro; subst; discriminate). specialize (Hb1 H). discriminate.
      + assert (Nx : x <> VNull) by (intro; subst; discriminate). rewrite (Ha1 Nx).
        destruct (value_eqb y VNull) eqn:Ey.
        * apply value_eqb_eq' in Ey. subst y.
          assert (t = UU) by (unfold cmp3 in Hc3; destruct x; cbn [cmp_values] in Hc3; inversion Hc3; reflexivity). subst t.
          exists None. split; [|reflexivity].
          destruct (Hb2 eq_refl) as [E2|E2]; rewrite E2; [|reflexivity].
          destruct x; cbn [plain_val] in Hpa; try discriminate; try congruence; reflexivity.
        * assert (Ny : y <> VNull) by (intro; subst; discriminate). rewrite (Hb1 Ny).
          rewrite (icmp_agree op x y t Hpa Hpb Nx Ny Hc3).
          eexists. split; [reflexivity|]. destruct t; reflexivity.
    - (* AND *)
      apply andb_true_iff in Hf. destruct Hf as [Hfa Hfb]. apply andb_true_iff in Hn. destruct Hn as [Hna Hnb].
      cbn [cols_ok] in Hc. destruct Hc as [Hca Hcb].
      assert (Hsa : scal_agrees a) by (intros q Hq; apply Hs; cbn [scalars_of]; apply in_or_app; left; exact Hq).
      assert (Hsb : scal_agrees b) by (intros q Hq; apply Hs; cbn [scalars_of]; apply in_or_app; right; exact Hq).
      rewrite xeval_and in Hx. apply rval_ok in Hx. destruct Hx as [t [Ht Hv]].
      apply and_res_ok in Ht. destruct Ht as [ta [tb [Hta [Htb Htt]]]].
      apply rtv_ok in Hta. destruct Hta as [va [Hva Hta]]. apply rtv_ok in Htb. destruct Htb as [vb [Hvb Htb]].
      destruct (IHa va Hfa Hna Hca Hsa Hva) as [oa [Ea Eva]]. destruct (IHb vb Hfb Hnb Hcb Hsb Hvb) as [ob [Eb Evb]].
      subst va vb. rewrite tv_of_value_of_tv in Hta, Htb. inversion Hta; inversion Htb; subst ta tb.
      cbn [ieval]. rewrite Ea, Eb. cbn [as_tv]. exists (kand oa ob). split; [reflexivity|]. rewrite tv_of_ob_kand. subst t. exact Hv.
    - (* OR *)
      apply andb_true_iff in Hf. destruct Hf as [Hfa Hfb]. apply andb_true_iff in Hn. destruct Hn as [Hna Hnb].
      cbn [cols_ok] in Hc. destruct Hc as [Hca Hcb].
      assert (Hsa : scal_agrees a) by (intros q Hq; apply Hs; cbn [scalars_of]; apply in_or_app; left; exact Hq).
      assert (Hsb : scal_agrees b) by (intros q Hq; apply Hs; cbn [scalars_of]; apply in_or_app; right; exact Hq).
      rewrite xeval_or in Hx. apply rval_ok in Hx. destruct Hx as [t [Ht Hv]].
      apply or_res_ok in Ht. destruct Ht as [ta [tb [Hta [Htb Htt]]]].
      apply rtv_ok in Hta. destruct Hta as [va [Hva Hta]]. apply rtv_ok in Htb. destruct Htb as [vb [Hvb Htb]].
      destruct (IHa va Hfa Hna Hca Hsa Hva) as [oa [Ea Eva]]. destruct (IHb vb Hfb Hnb Hcb Hsb Hvb) as [ob [Eb Evb]].
      subst va vb. rewrite tv_of_value_of_tv in Hta, Htb. inversion Hta; inversion Htb; subst ta tb.
      cbn [ieval]. rewrite Ea, Eb. cbn [as_tv]. exists (kor oa ob). split; [reflexivity|]. rewrite tv_of_ob_kor. subst t. exact Hv.
    - (* NOT *)
      cbn [cols_ok] in Hc.
      assert (Hsa : scal_agrees a) by (intros q Hq; apply Hs; exact Hq).
      rewrite xeval_not in Hx. apply rval_ok in Hx. destruct Hx as [t [Ht Hv]].
      apply rbind_ok in Ht. destruct Ht as [ta [Hta Htt]]. inversion Htt; subst t.
      apply rtv_ok in Hta. destruct Hta as [va [Hva Hta]].
      destruct (IHa va Hf Hn Hc Hsa Hva) as [oa [Ea Eva]]. subst va. rewrite tv_of_value_of_tv in Hta. inversion Hta; subst ta.
      cbn [ieval]. rewrite Ea. cbn [as_tv]. exists (option_map negb oa). split; [reflexivity|]. rewrite tv_of_ob_not. exact Hv.
    - (* IS NULL *)
      cbn [cols_ok] in Hc.
      assert (Hsa : scal_agrees a) by (intros q Hq; apply Hs; exact Hq).
      rewrite xeval_isnull in Hx. apply rbind_ok in Hx. destruct Hx as [va [Hva Hv]].
      pose proof (vform_agree a va Hf Hc Hsa Hva) as Ra.
      destruct (as_val_rel _ _ Ra) as [Ha1 Ha2]. destruct Ra as [Hpa _].
      cbn [ieval]. rewrite (vform_is_pred a Hf).
      destruct (value_eqb va VNull) eqn:Ev.
      + apply value_eqb_eq' in Ev. subst va. inversion Hv; subst v.
        exists (Some (negb neg)). split; [|destruct neg; reflexivity].
        destruct (Ha2 eq_refl) as [E|E]; rewrite E; destruct neg; reflexivity.
      + assert (Nv : va <> VNull) by (intro; subst; discriminate). rewrite (Ha1 Nv).
        exists (Some neg). split.
        * destruct va; try congruence; destruct neg; reflexivity.
        * destruct va; try congruence; inversion Hv; destruct neg; reflexivity.
  Qed.

  (* the row passes in the model iff the reference says TRUE *)
  Lemma ipass_agree : forall e b,
    pform e = true -> no_inex e = true -> cols_ok look_agrees e -> scal_agrees e ->
    pass_res (rtv (xeval db env e)) = ROk b -> ipass look scal e = Some b.
  Proof.
    intros e b Hf Hn Hc Hs H. unfold pass_res in H. apply rbind_ok in H. destruct H as [t [Ht Hb]].
    apply rtv_ok in Ht. destruct Ht as [v [Hv Ht]].
    destruct (pform_agree e v Hf Hn Hc Hs Hv) as [o [Eo Ev]]. subst v. rewrite tv_of_value_of_tv in Ht. inversion Ht; subst t.
    inversion Hb; subst b. unfold ipass. rewrite Eo. cbn [as_tv]. destruct o as [[|]|]; reflexivity.
  Qed.
End Agree.
