(* C28 proofs, part 7: delete (no rebalancing, no space reclaimed) and the three update cases. *)
From Coq Require Import ZArith List Bool Lia Sorting.Permutation Sorting.Sorted.
From TV Require Import Lib.MachInt Gen.Varint Model.BTree Model.BTreeSpec Model.BTreeInv
  Proof.BTreeOrder Proof.BTreeInv Proof.BTreeLeaf Proof.BTreeIns.
Import ListNotations.
Open Scope Z_scope.
Arguments Z.sub : simpl never.
Arguments Z.add : simpl never.
Arguments Z.mul : simpl never.
Arguments Z.of_nat : simpl never.

Section D.
Variable V : Type.
Variable vlen : V -> Z.
Hypothesis vlen_nonneg : forall v, 0 <= vlen v.
Notation entry := (entry V).
Notation leaf := (leaf V).
Notation tree := (tree V).
Notation kid := (kid V).
Notation csize := (csize V vlen).
Notation leaf_ok := (leaf_ok V vlen).
Notation bounded := (bounded V vlen).
Notation abs := (abs V).
Notation keys := (keys V).
Notation kabs := (kabs V).

Lemma sat_u8_range x : 0 <= x -> 0 <= sat_u8 x <= 255.
Proof. unfold sat_u8. lia. Qed.

(* frag_bytes is a u8: should_compact can never hold (space of deleted cells is never reclaimed) *)
Lemma compaction_unreachable_l (l : leaf) : 0 <= lfrag l <= 255 -> should_compact V l = false.
Proof. intros H. unfold should_compact. apply Z.ltb_ge. change (LEAF_CAP / 4) with 4090. lia. Qed.

Lemma leaf_delete_ok lo hi (l : leaf) i (c : entry) :
  leaf_ok lo hi l -> nth_error (lcells l) i = Some c ->
  leaf_ok lo hi (leaf_delete V vlen l i) /\ lcells (leaf_delete V vlen l i) = remove_at i (lcells l)
  /\ lfree V l + SLOT <= lfree V (leaf_delete V vlen l i).
Proof.
  intros (Hs & Hin & Hsz1 & Hsz2 & Hfr & Hemp) Hn. unfold leaf_delete. rewrite Hn.
  assert (Hfr' : 0 <= sat_u8 (lfrag l + csize c mod 256) <= 255).
  { apply sat_u8_range. pose proof (Z.mod_pos_bound (csize c) 256 ltac:(lia)). lia. }
  pose proof (remove_at_perm _ _ _ Hn) as P.
  pose proof (Permutation_length P) as PL. cbn [length] in PL.
  pose proof (sumz_perm _ _ (Permutation_map csize P)) as PS. cbn [map] in PS. rewrite sumz_cons in PS.
  pose proof (csize_nonneg V vlen vlen_nonneg c) as Hc0.
  pose proof (sum_csize_nonneg V vlen vlen_nonneg (lcells l)) as Hs0.
  pose proof (sum_csize_nonneg V vlen vlen_nonneg (remove_at i (lcells l))) as Hs1.
  assert (Hsrt : ssorted V (remove_at i (lcells l))) by (eapply ssorted_remove; eassumption).
  assert (Hcin : cells_in V lo hi (remove_at i (lcells l))).
  { eapply Permutation_Forall in Hin; [|exact P]. inversion Hin; assumption. }
  destruct (remove_at i (lcells l)) as [|x rest] eqn:Er.
  - rewrite compaction_unreachable_l by (cbn [lfrag]; lia). cbn [lcells lfe lfrag].
    split; [|split; [reflexivity|]].
    + split; [exact Hsrt|]. split; [exact Hcin|]. unfold leaf_sizes, BTree.lcount. cbn [lcells lfe lfrag length map].
      unfold sumz, SLOT, LEAF_START, PAGE. cbn. repeat split; lia.
    + unfold BTree.lfree, lfstart, BTree.lcount in *. cbn [lcells lfe length] in *. unfold SLOT, LEAF_START, PAGE, BTree.entry in *. lia.
  - rewrite compaction_unreachable_l by (cbn [lfrag]; exact Hfr'). cbn [lcells lfe lfrag].
    split; [|split; [reflexivity|]].
    + split; [exact Hsrt|]. split; [exact Hcin|]. unfold leaf_sizes, BTree.lcount in *. cbn [lcells lfe lfrag].
      split; [unfold SLOT, LEAF_START, PAGE, BTree.entry in *; lia|]. split; [unfold SLOT, LEAF_START, PAGE, BTree.entry in *; lia|].
      split; [exact Hfr' | discriminate].
    + unfold BTree.lfree, lfstart, BTree.lcount in *. cbn [lcells lfe] in *. unfold SLOT, LEAF_START, PAGE, BTree.entry in *. lia.
Qed.

Definition dres_ok (h : nat) (lo hi : option key) (t : tree) (k : key) (r : dres V) : Prop :=
  match r with
  | DOk t' => bounded h lo hi t' /\ exists v, Permutation (abs h t) ((k, v) :: abs h t')
  | DNotFound => ~ In k (keys (abs h t))
  | DErr _ => False
  end.

Lemma del_ok : forall h (t : tree) k lo hi, bounded h lo hi t -> lo_ok lo k -> hi_ok hi k ->
  dres_ok h lo hi t k (del V vlen h t k).
Proof.
  induction h as [|h' IH]; intros t k lo hi HB Hlo Hhi; destruct t as [l | id kids r]; cbn in HB; try contradiction.
  - cbn [del]. destruct (lfind V k (lcells l)) as [f i] eqn:Ef. destruct f.
    + destruct (lfind_found V _ _ _ Ef) as (v & Hv). destruct (leaf_delete_ok lo hi l i (k, v) HB Hv) as (H1 & H2 & _).
      cbn [dres_ok BTreeInv.bounded]. split; [exact H1|]. exists v. rewrite !abs_leaf, H2. apply remove_at_perm. exact Hv.
    + cbn [dres_ok]. rewrite abs_leaf. eapply lfind_notin; [apply HB | exact Ef].
  - destruct HB as [Hfree HB]. cbn [del]. set (i := cidx V k kids).
    destruct (kids_child V _ kids lo hi r k HB Hlo Hhi) as (Hc & Hl & Hh). fold i in Hc, Hl, Hh.
    specialize (IH _ k _ _ Hc Hl Hh). destruct (kabs_decomp V h' kids r i) as (X & HX1 & HX2).
    destruct (del V vlen h' (child_at V kids r i) k) as [c | | er]; cbn [dres_ok] in IH |- *.
    + destruct IH as [Hcb (v & Hp)]. destruct (set_child V kids r i c) as [k2 r2] eqn:Esc. cbn [dres_ok].
      assert (E2 : k2 = fst (set_child V kids r i c)) by (rewrite Esc; reflexivity).
      assert (E3 : r2 = snd (set_child V kids r i c)) by (rewrite Esc; reflexivity).
      split.
      * cbn [BTreeInv.bounded]. split.
        -- rewrite (ifree_seps V k2 kids); [exact Hfree|]. rewrite E2. apply set_child_seps.
        -- rewrite E2, E3. apply kids_set_child; [exact HB | exact Hcb | apply cidx_le].
      * exists v. rewrite !abs_node, E2, E3. eapply Permutation_trans; [exact HX1|].
        eapply Permutation_trans; [apply Permutation_app_tail; exact Hp|]. cbn [app]. apply perm_skip.
        apply Permutation_sym. apply HX2.
    + intros Hin. apply IH. unfold BTreeOrder.keys in *. apply in_map_iff in Hin as (x & Hx & Hxin). apply in_map_iff. exists x.
      split; [exact Hx|]. rewrite abs_node in Hxin. eapply kabs_key_in_child; eassumption.
    + exact IH.
Qed.

(* ---------------------------------------------------------------- update *)
Definition ures_ok (h : nat) (lo hi : option key) (t : tree) (k : key) (v : V) (r : utres V) : Prop :=
  match r with
  | UTOk t' true => bounded h lo hi t' /\ exists old rest, Permutation (abs h t) ((k, old) :: rest) /\ Permutation (abs h t') ((k, v) :: rest)
  | UTOk t' false => bounded h lo hi t' /\ Permutation (abs h t') (abs h t) /\ (forall old, In (k, old) (abs h t) -> vlen old < vlen v)
  | UTLost _ => False
  | UTErr _ => False
  end.

Lemma csize_le k (a b : V) : vlen a <= vlen b -> csize (k, a) <= csize (k, b).
Proof. intros H. unfold BTree.csize. cbn [fst snd]. pose proof (varint_len_mono _ _ H). lia. Qed.

Lemma leaf_replace_ok lo hi (l : leaf) i k (ov v : V) fr :
  leaf_ok lo hi l -> nth_error (lcells l) i = Some (k, ov) -> vlen v <= vlen ov -> 0 <= fr <= 255 ->
  leaf_ok lo hi (mkLeaf (lid l) (replace_at i (k, v) (lcells l)) (lfe l) fr).
Proof.
  intros (Hs & Hin & Hsz1 & Hsz2 & Hfr & Hemp) Hn Hle Hfr2.
  pose proof (remove_at_perm _ _ _ Hn) as P. pose proof (replace_at_perm (lcells l) i (k, ov) (k, v) Hn) as P2.
  split; [|split].
  - cbn [lcells]. exact (ssorted_replace V (lcells l) i (k, ov) v Hn Hs).
  - cbn [lcells]. eapply Permutation_Forall; [apply Permutation_sym; exact P2|].
    eapply Permutation_Forall in Hin; [|exact P]. inversion Hin; subst. constructor; assumption.
  - unfold leaf_sizes, BTree.lcount in *. cbn [lcells lfe lfrag].
    pose proof (Permutation_length P) as PL. pose proof (Permutation_length P2) as PL2. cbn [length] in PL, PL2.
    pose proof (sumz_perm _ _ (Permutation_map csize P)) as PS. pose proof (sumz_perm _ _ (Permutation_map csize P2)) as PS2.
    cbn [map] in PS, PS2. rewrite sumz_cons in PS, PS2. pose proof (csize_le k v ov Hle).
    split; [unfold SLOT, LEAF_START, PAGE, BTree.entry in *; lia|]. split; [unfold SLOT, LEAF_START, PAGE, BTree.entry in *; lia|].
    split; [exact Hfr2|]. intros Hnil. exfalso. cbn [lcells] in Hnil. apply (f_equal (@length _)) in Hnil. cbn [length] in Hnil. unfold BTree.entry in *. lia.
Qed.

Lemma lguard_ok_d lo hi (l : leaf) : leaf_ok lo hi l -> lguard V l = true.
Proof. intros (_ & _ & H1 & _). unfold lguard, lfstart. apply Z.leb_le. exact H1. Qed.

Lemma removed_key_absent (cs : list entry) i k ov : ssorted V cs -> nth_error cs i = Some (k, ov) -> ~ In k (keys (remove_at i cs)).
Proof.
  intros Hs Hn Hin. pose proof (ssorted_NoDup_keys V cs Hs) as ND.
  assert (P : Permutation (keys cs) (k :: keys (remove_at i cs))).
  { unfold BTreeOrder.keys. change (k :: map fst (remove_at i cs)) with (map fst ((k, ov) :: remove_at i cs)). apply Permutation_map. apply remove_at_perm. exact Hn. }
  apply (Permutation_NoDup P) in ND. inversion ND; contradiction.
Qed.

Lemma leaf_update_ok lo hi (l : leaf) k v : leaf_ok lo hi l -> lo_ok lo k -> hi_ok hi k ->
  match leaf_update V vlen l k v with
  | UTrue l' => leaf_ok lo hi l' /\ exists old rest, Permutation (lcells l) ((k, old) :: rest) /\ Permutation (lcells l') ((k, v) :: rest)
  | UFalse => forall old, In (k, old) (lcells l) -> vlen old < vlen v
  | ULost _ => False
  | UPanic => False
  end.
Proof.
  intros Hok Hlo Hhi. pose proof Hok as (Hs & Hin & Hsz1 & Hsz2 & Hfr & Hemp). unfold leaf_update.
  destruct (lfind V k (lcells l)) as [f i] eqn:Ef. destruct f.
  2:{ intros old Ho. exfalso. eapply lfind_notin; [exact Hs | exact Ef |]. change k with (fst (k, old)). apply in_map. exact Ho. }
  destruct (lfind_found V _ _ _ Ef) as (ov & Hn). rewrite Hn. cbn [fst snd].
  pose proof (remove_at_perm _ _ _ Hn) as P. pose proof (replace_at_perm (lcells l) i (k, ov) (k, v) Hn) as P2.
  destruct (Z.eqb_spec (vlen v) (vlen ov)) as [Heq | Hne].
  { split; [apply (leaf_replace_ok lo hi l i k ov v (lfrag l) Hok Hn); lia|]. exists ov, (remove_at i (lcells l)). cbn [lcells]. split; assumption. }
  destruct (Z.ltb_spec (vlen v) (vlen ov)) as [Hlt | Hge].
  { split.
    - apply (leaf_replace_ok lo hi l i k ov v); [exact Hok | exact Hn | lia |]. apply sat_u8_range.
      match goal with |- 0 <= _ + ?x mod 256 => pose proof (Z.mod_pos_bound x 256 ltac:(lia)) end. lia.
    - exists ov, (remove_at i (lcells l)). cbn [lcells]. split; assumption. }
  destruct (Z.leb_spec (csize (k, v)) (Z.max 0 (lfree V l))) as [Hinc | Hinc].
  2:{ intros old Ho. assert ((k, old) = (k, ov)) as E.
      { eapply ssorted_in_key_unique; [exact Hs | exact Ho | eapply nth_error_In; exact Hn | reflexivity]. }
      injection E as ->. lia. }
  destruct (leaf_delete_ok lo hi l i (k, ov) Hok Hn) as (Hok1 & Hc1 & Hfree1).
  set (l1 := leaf_delete V vlen l i) in *.
  rewrite (lguard_ok_d lo hi l1 Hok1). cbn [negb].
  assert (Hl0 : 0 <= lfree V l) by (unfold BTree.lfree, lfstart; lia).
  destruct (Z.leb_spec (csize (k, v) + SLOT) (lfree V l1)) as [Hroom | Hfull]; [|lia].
  destruct (lfind V k (lcells l1)) as [f2 pos] eqn:Ef2. destruct f2.
  { destruct (lfind_found V _ _ _ Ef2) as (v2 & Hv2). apply nth_error_In in Hv2. rewrite Hc1 in Hv2.
    apply (removed_key_absent (lcells l) i k ov Hs Hn). change k with (fst (k, v2)). apply in_map. exact Hv2. }
  destruct Hok1 as (Hs1 & Hrest1).
  destruct (leaf_put_ok V vlen vlen_nonneg lo hi l1 pos (k, v)) as [Hok2 Hp2].
  - split; assumption.
  - apply (lfind_ins V (k, v)). exact Ef2.
  - eapply lfind_notin; [exact Hs1 | exact Ef2].
  - exact Hlo.
  - exact Hhi.
  - exact Hroom.
  - split; [exact Hok2|]. exists ov, (lcells l1). split; [rewrite Hc1; exact P | exact Hp2].
Qed.

Lemma upd_ok : forall h (t : tree) k v lo hi, bounded h lo hi t -> lo_ok lo k -> hi_ok hi k ->
  ures_ok h lo hi t k v (upd V vlen h t k v).
Proof.
  induction h as [|h' IH]; intros t k v lo hi HB Hlo Hhi; destruct t as [l | id kids r]; cbn in HB; try contradiction.
  - cbn [upd]. pose proof (leaf_update_ok lo hi l k v HB Hlo Hhi) as Hu.
    destruct (leaf_update V vlen l k v) as [l' | | l' |]; cbn [ures_ok BTreeInv.bounded]; try contradiction.
    + destruct Hu as [H1 (old & rest & H2 & H3)]. split; [exact H1|]. exists old, rest. rewrite !abs_leaf. split; assumption.
    + split; [exact HB|]. split; [apply Permutation_refl|]. rewrite abs_leaf. exact Hu.
  - destruct HB as [Hfree HB]. cbn [upd]. set (i := cidx V k kids).
    destruct (kids_child V _ kids lo hi r k HB Hlo Hhi) as (Hc & Hl & Hh). fold i in Hc, Hl, Hh.
    specialize (IH _ k v _ _ Hc Hl Hh). destruct (kabs_decomp V h' kids r i) as (X & HX1 & HX2).
    destruct (upd V vlen h' (child_at V kids r i) k v) as [c b | c | er]; cbn [ures_ok] in IH |- *.
    + destruct (set_child V kids r i c) as [k2 r2] eqn:Esc. cbn [ures_ok].
      assert (E2 : k2 = fst (set_child V kids r i c)) by (rewrite Esc; reflexivity).
      assert (E3 : r2 = snd (set_child V kids r i c)) by (rewrite Esc; reflexivity).
      assert (HBn : forall (Hcb : bounded h' (lo_at V lo kids i) (hi_at V hi kids i) c), bounded (S h') lo hi (Node id k2 r2)).
      { intros Hcb. cbn [BTreeInv.bounded]. split.
        - rewrite (ifree_seps V k2 kids); [exact Hfree|]. rewrite E2. apply set_child_seps.
        - rewrite E2, E3. apply kids_set_child; [exact HB | exact Hcb | apply cidx_le]. }
      destruct b.
      * destruct IH as [Hcb (old & rest & Hp1 & Hp2)]. split; [apply HBn; exact Hcb|].
        exists old, (rest ++ X). rewrite !abs_node, E2, E3. split.
        -- eapply Permutation_trans; [exact HX1|]. change ((k, old) :: rest ++ X) with (((k, old) :: rest) ++ X). apply Permutation_app_tail. exact Hp1.
        -- eapply Permutation_trans; [apply HX2|]. change ((k, v) :: rest ++ X) with (((k, v) :: rest) ++ X). apply Permutation_app_tail. exact Hp2.
      * destruct IH as (Hcb & Hp & Hgrow). split; [apply HBn; exact Hcb|]. rewrite !abs_node, E2, E3. split.
        -- eapply Permutation_trans; [apply HX2|]. eapply Permutation_trans; [apply Permutation_app_tail; exact Hp|]. apply Permutation_sym. exact HX1.
        -- intros old Ho. apply Hgrow. change (abs h' (child_at V kids r i)) with (abs h' (child_at V kids r (cidx V k kids))).
           eapply (kabs_key_in_child V vlen h' kids lo hi r k HB Hlo Hhi (k, old)); [exact Ho | reflexivity].
    + contradiction.
    + exact IH.
Qed.

End D.
