(* C07 -- per-statement inversion lemmas: undoing the write entries of one covered INSERT / UPDATE
   gives back the table file and the unique index exactly (undo_insert_inverts,
   undo_update_inverts), and the covered statements keep the state invariant. *)
From Coq Require Import ZArith List Bool Lia Sorted.
From TV Require Import Model.SqlSpec Model.UndoLog Model.UndoLogSpec Proof.UndoLogBase.
Import ListNotations.
Open Scope Z_scope.

(* n decrements that stop at zero *)
Definition iterdec (n : nat) (x : Z) : Z := Nat.iter n (fun y => Z.max 0 (y - 1)) x.

Lemma iterdec_S : forall n x, iterdec (S n) x = Z.max 0 (iterdec n x - 1).
Proof. reflexivity. Qed.

Lemma iterdec_add : forall n x, 0 <= x -> iterdec n (x + Z.of_nat n) = x.
Proof.
  induction n as [|n IH]; intros x Hx.
  - unfold iterdec, Nat.iter; cbn [nat_rect Z.of_nat]. lia.
  - rewrite iterdec_S. replace (x + Z.of_nat (S n)) with ((x + 1) + Z.of_nat n) by lia.
    rewrite IH by lia. lia.
Qed.

(* ------------------------------------------------------------------ INSERT *)
Lemma ins_write_fields : forall sch st r,
  ents (ins_write sch st r) = ents st ++ [mkEnt (nextid st) false r] /\
  kidx (ins_write sch st r) = (if has_key sch r then kidx st ++ [(c0 r, nextid st)] else kidx st) /\
  rcount (ins_write sch st r) = rcount st /\ nextid (ins_write sch st r) = nextid st + 1.
Proof. intros. unfold ins_write. cbn [ents kidx rcount nextid]. repeat split; reflexivity. Qed.

Lemma ids_below_fresh : forall st e, ids_below st -> In e (ents st) -> e_id e <> nextid st.
Proof. intros st e H He. specialize (H e He). lia. Qed.

Lemma ins_write_below : forall sch st r, ids_below st -> ids_below (ins_write sch st r).
Proof.
  intros sch st r H e He. destruct (ins_write_fields sch st r) as (E1 & _ & _ & E4).
  rewrite E1 in He. rewrite E4. apply in_app_or in He. destruct He as [He|[He|[]]].
  - specialize (H e He). lia.
  - subst e. cbn [e_id]. lia.
Qed.

Lemma ins_loop_undo : forall sch rows st acc b st' ids,
  ids_below st -> ins_loop sch st rows acc = (b, st', ids) ->
  exists new, ids = acc ++ new /\ ids_below st' /\ nextid st <= nextid st' /\ rcount st' = rcount st /\
    forall X, ents X = ents st' -> kidx X = kidx st' ->
      ents (undo_list sch (map WIns new) X) = ents st /\
      kidx (undo_list sch (map WIns new) X) = kidx st /\
      rcount (undo_list sch (map WIns new) X) = iterdec (length new) (rcount X).
Proof.
  intros sch rows. induction rows as [|r rs IH]; intros st acc b st' ids Hb H.
  - cbn [ins_loop] in H. injection H as _ H2 H3. subst st' ids.
    exists []. rewrite app_nil_r.
    split; [reflexivity|]. split; [assumption|]. split; [lia|]. split; [reflexivity|].
    intros X HX1 HX2. cbn [map length]. rewrite undo_list_nil. repeat split; assumption.
  - cbn [ins_loop] in H. destruct (nn_ok sch r && uniq_ok sch st r) eqn:Eok.
    + apply andb_true_iff in Eok. destruct Eok as [_ Eu].
      destruct (ins_write_fields sch st r) as (E1 & E2 & E3 & E4).
      destruct (IH _ _ _ _ _ (ins_write_below sch st r Hb) H) as (new1 & Hids & Hb' & Hn & Hrc & Hund).
      exists (nextid st :: new1). rewrite Hids, <- app_assoc. cbn [app].
      split; [reflexivity|]. split; [assumption|]. split; [lia|]. split; [lia|].
      intros X HX1 HX2. destruct (Hund X HX1 HX2) as (U1 & U2 & U3).
        cbn [map length]. rewrite undo_list_cons.
        set (Y := undo_list sch (map WIns new1) X) in *.
        assert (Hf : find_ent (nextid st) (ents Y) = Some (mkEnt (nextid st) false r)).
        { rewrite U1, E1. apply find_ent_app_fresh; [|reflexivity]. intros e He. apply ids_below_fresh; assumption. }
        cbn [undo_entry]. rewrite Hf. cbn [ents kidx rcount e_row].
        split; [|split].
        -- rewrite U1, E1. apply remove_ent_app_fresh; [|reflexivity]. intros e He. apply ids_below_fresh; assumption.
        -- rewrite U2, E2. destruct (has_key sch r) eqn:Ek; [|reflexivity].
           apply kdel_app_fresh. unfold uniq_ok in Eu. rewrite Ek in Eu. cbn [andb] in Eu.
           apply negb_true_iff in Eu. exact Eu.
        -- rewrite iterdec_S, U3. reflexivity.
    + injection H as _ H2 H3. subst st' ids.
      exists []. rewrite app_nil_r.
      split; [reflexivity|]. split; [assumption|]. split; [lia|]. split; [reflexivity|].
      intros X HX1 HX2. cbn [map length]. rewrite undo_list_nil. repeat split; assumption.
Qed.

Lemma zlen_length : forall {A} (l : list A), zlen l = Z.of_nat (length l).
Proof. reflexivity. Qed.

(* undo of the write entries of an INSERT that inserted all its rows or none *)
Lemma undo_insert_inverts_l : forall sch st rows r st2 es,
  inv sch st -> ins_all_or_none sch st rows = true ->
  do_insert sch st rows = (r, st2, es) ->
  core3 (undo_list sch es st2) = core3 st.
Proof.
  intros sch st rows r st2 es (Hs & Hb & Hr & Hc) Hall H.
  unfold do_insert in H. unfold ins_all_or_none in Hall.
  destruct (ins_loop sch st rows []) as [[b st'] ids] eqn:E.
  destruct (ins_loop_undo _ _ _ _ _ _ _ Hb E) as (new & Hids & _ & _ & Hrc & Hund).
  cbn [app] in Hids. subst ids.
  destruct b.
  - injection H as _ H2 H3. subst st2 es.
    destruct (Hund (add_count st' (zlen new)) eq_refl eq_refl) as (U1 & U2 & U3).
    unfold core3. rewrite U1, U2, U3. unfold add_count; cbn [rcount]. rewrite Hrc, zlen_length.
    rewrite iterdec_add by exact Hr. reflexivity.
  - injection H as _ H2 H3. subst st2 es. destruct new as [|x new]; [|discriminate].
    destruct (Hund st' eq_refl eq_refl) as (U1 & U2 & _). cbn [map] in *. rewrite undo_list_nil in *.
    unfold core3. rewrite U1, U2, Hrc. reflexivity.
Qed.

(* the forward direction: INSERT keeps the invariant *)
Lemma has_key_kmem_app : forall k v ix, kmem k (ix ++ [(k, v)]) = true.
Proof. intros. rewrite kmem_app. unfold kmem at 2. cbn [existsb fst]. rewrite value_eqb_refl. apply orb_true_r. Qed.

Lemma ins_write_inv : forall sch st r, inv sch st -> inv sch (ins_write sch st r).
Proof.
  intros sch st r (Hs & Hb & Hr & Hc). destruct (ins_write_fields sch st r) as (E1 & E2 & E3 & E4).
  split; [|split; [|split]].
  - unfold ids_sorted. rewrite E1, map_app. cbn [map e_id]. apply sorted_app_last; [exact Hs|].
    intros y Hy. apply in_map_iff in Hy. destruct Hy as (e & <- & He). apply Hb. exact He.
  - apply ins_write_below. exact Hb.
  - rewrite E3. exact Hr.
  - intros Hpk e He Hl Hk. specialize (Hc Hpk). rewrite E1 in He. rewrite E2.
    apply in_app_or in He. destruct He as [He|[He|[]]].
    + pose proof (Hc e He Hl Hk) as Hm. destruct (has_key sch r); [rewrite kmem_app, Hm; reflexivity | exact Hm].
    + subst e. cbn [e_row] in *. rewrite Hk. apply has_key_kmem_app.
Qed.

Lemma ins_loop_inv : forall sch rows st acc b st' ids,
  inv sch st -> ins_loop sch st rows acc = (b, st', ids) -> inv sch st'.
Proof.
  intros sch rows. induction rows as [|r rs IH]; intros st acc b st' ids Hi H; cbn [ins_loop] in H.
  - injection H as _ H2 _. subst. exact Hi.
  - destruct (nn_ok sch r && uniq_ok sch st r).
    + eapply IH; [|exact H]. apply ins_write_inv. exact Hi.
    + injection H as _ H2 _. subst. exact Hi.
Qed.

Lemma add_count_inv : forall sch st n, inv sch st -> 0 <= n -> inv sch (add_count st n).
Proof.
  intros sch st n (Hs & Hb & Hr & Hc) Hn. unfold add_count. split; [|split; [|split]]; try assumption.
  cbn [rcount]. lia.
Qed.

Lemma do_insert_inv : forall sch st rows r st2 es,
  inv sch st -> do_insert sch st rows = (r, st2, es) -> inv sch st2 /\ nextid st <= nextid st2.
Proof.
  intros sch st rows r st2 es Hi H. unfold do_insert in H.
  destruct (ins_loop sch st rows []) as [[b st'] ids] eqn:E.
  pose proof (ins_loop_inv _ _ _ _ _ _ _ Hi E) as Hi'.
  destruct Hi as (_ & Hb & _).
  destruct (ins_loop_undo _ _ _ _ _ _ _ Hb E) as (new & _ & _ & Hn & _).
  destruct b; injection H as _ H2 _; subst st2.
  - split; [apply add_count_inv; [exact Hi'| rewrite zlen_length; lia] | unfold add_count; cbn [nextid]; exact Hn].
  - split; assumption.
Qed.

(* ------------------------------------------------------------------ UPDATE of a column that is not a key *)
Definition wold (e : ent) : wentry := WOld (e_id e) e.
Definition updf (sc : colid) (v : value) (sel : list ent) (e : ent) : ent :=
  if in_sel sel e then mkEnt (e_id e) false (setc sc v (e_row e)) else e.
(* entries of `d` are back, the others still carry the update *)
Definition partf (sc : colid) (v : value) (sel d : list ent) (y : ent) : ent :=
  if in_sel d y then y else updf sc v sel y.

Lemma updf_id : forall sc v sel e, e_id (updf sc v sel e) = e_id e.
Proof. intros. unfold updf. destruct (in_sel sel e); reflexivity. Qed.
Lemma partf_id : forall sc v sel d e, e_id (partf sc v sel d e) = e_id e.
Proof. intros. unfold partf. destruct (in_sel d e); [reflexivity| apply updf_id]. Qed.

Lemma sorted_nodup_ids : forall l x y,
  StronglySorted Z.lt (map e_id l) -> In x l -> In y l -> e_id x = e_id y -> x = y.
Proof.
  induction l as [|a l IH]; intros x y Hs Hx Hy E; [destruct Hx|].
  cbn [map] in Hs. inversion Hs as [|? ? Hs' Hall]; subst. rewrite Forall_forall in Hall.
  destruct Hx as [Hx|Hx]; destruct Hy as [Hy|Hy].
  - congruence.
  - subst a. assert (e_id x < e_id y) by (apply Hall; apply in_map; exact Hy). lia.
  - subst a. assert (e_id y < e_id x) by (apply Hall; apply in_map; exact Hx). lia.
  - apply IH; assumption.
Qed.

Lemma undo_wold_fields : forall sch e X,
  ents (undo_entry sch (wold e) X) = set_ent (e_id e) e (ents X) /\
  rcount (undo_entry sch (wold e) X) = rcount X /\
  kidx (undo_entry sch (wold e) X) =
    (if has_key sch (e_row e) && int_pk sch then
       match pk_u64 (e_row e) with Some p => kins (c0 (e_row e)) p (kidx X) | None => kidx X end
     else kidx X).
Proof. intros. unfold wold. cbn [undo_entry ents rcount kidx]. repeat split; reflexivity. Qed.

Lemma undo_update_ents : forall sch sc v sel l K s d X,
  StronglySorted Z.lt (map e_id l) ->
  (forall e, In e s -> In e l) ->
  (forall e, In e s -> has_key sch (e_row e) = true -> int_pk sch = true -> kmem (c0 (e_row e)) K = true) ->
  ents X = map (partf sc v sel d) l -> kidx X = K ->
  ents (undo_list sch (map wold s) X) = map (partf sc v sel (s ++ d)) l /\
  kidx (undo_list sch (map wold s) X) = K /\
  rcount (undo_list sch (map wold s) X) = rcount X.
Proof.
  intros sch sc v sel l K s. induction s as [|e s IH] using rev_ind; intros d X Hs Hin Hk HX HK.
  - cbn [map app]. rewrite undo_list_nil. repeat split; assumption.
  - rewrite map_app. cbn [map]. rewrite undo_list_snoc.
    destruct (undo_wold_fields sch e X) as (F1 & F2 & F3).
    assert (Hel : In e l) by (apply Hin; apply in_or_app; right; left; reflexivity).
    assert (Hids : map e_id (ents X) = map e_id l).
    { rewrite HX, map_map. apply map_ext. intro y. apply partf_id. }
    assert (HE : ents (undo_entry sch (wold e) X) = map (partf sc v sel (e :: d)) l).
    { rewrite F1, set_ent_repl.
      - rewrite HX. unfold repl. rewrite map_map. apply map_ext_in. intros y Hy.
        rewrite partf_id. unfold partf at 2. unfold in_sel at 1. cbn [existsb].
        destruct (e_id e =? e_id y) eqn:E.
        + apply Z.eqb_eq in E. rewrite Z.eqb_sym in *. assert (e = y) by (eapply sorted_nodup_ids; eauto).
          subst y. rewrite Z.eqb_refl. reflexivity.
        + rewrite Z.eqb_sym, E. cbn [orb]. reflexivity.
      - rewrite Hids. exact Hs.
      - rewrite Hids. apply in_map. exact Hel. }
    assert (HKK : kidx (undo_entry sch (wold e) X) = K).
    { rewrite F3, HK. destruct (has_key sch (e_row e)) eqn:E1; [|reflexivity].
      destruct (int_pk sch) eqn:E2; [|reflexivity]. cbn [andb].
      destruct (pk_u64 (e_row e)); [|reflexivity]. apply kins_mem.
      apply Hk; [apply in_or_app; right; left; reflexivity | exact E1 | reflexivity]. }
    destruct (IH (e :: d) (undo_entry sch (wold e) X) Hs) as (R1 & R2 & R3); try assumption.
    + intros x Hx. apply Hin. apply in_or_app. left. exact Hx.
    + intros x Hx. apply Hk. apply in_or_app. left. exact Hx.
    + rewrite <- app_assoc. cbn [app]. split; [exact R1|]. split; [exact R2|]. rewrite R3. exact F2.
Qed.

Lemma partf_all : forall sc v sel y, partf sc v sel sel y = y.
Proof. intros. unfold partf, updf. destruct (in_sel sel y); reflexivity. Qed.

Lemma partf_none : forall sc v sel y, partf sc v sel [] y = updf sc v sel y.
Proof. reflexivity. Qed.

(* what a covered UPDATE does, whichever path it takes *)
Lemma select_sub_live : forall sch w st e, In e (select sch w st) -> In e (ents st) /\ live e = true.
Proof.
  intros sch w st e H. unfold select in H. destruct (pk_target sch w st) as [t|] eqn:E.
  - destruct H as [H|[]]. subst t. unfold pk_target in E.
    destruct (pk_info sch w st) as [[id v]|]; [|discriminate].
    destruct (find_ent id (ents st)) as [x|] eqn:Ef; [|discriminate].
    destruct (live x && value_eqb (c0 (e_row x)) v) eqn:El; [|discriminate]. injection E as <-.
    apply andb_true_iff in El. apply find_ent_In in Ef. tauto.
  - apply filter_In in H. destruct H as [H1 H2]. apply andb_true_iff in H2. tauto.
Qed.

Lemma upd_sel_sub_live : forall sch st sc w e, In e (upd_sel sch st sc w) -> In e (ents st) /\ live e = true.
Proof.
  intros sch st sc w e H. unfold upd_sel in H.
  destruct (pk_info sch w st) as [[id wv]|].
  - destruct (negb (idx_mod sch sc) && negb (has_toast sch)).
    + destruct (find_ent id (ents st)) as [x|] eqn:Ef; [|destruct H].
      destruct (live x && value_eqb (c0 (e_row x)) wv) eqn:El; [|destruct H]. destruct H as [H|[]]. subst x.
      apply andb_true_iff in El. apply find_ent_In in Ef. tauto.
    + eapply select_sub_live. exact H.
  - eapply select_sub_live. exact H.
Qed.

Lemma upd_sel_sub : forall sch st sc w e, In e (upd_sel sch st sc w) -> In e (ents st).
Proof. intros sch st sc w e H. apply (upd_sel_sub_live _ _ _ _ _ H). Qed.

Lemma upd_multi_shape : forall sch st sc v w r st2 es,
  is_c0 sc && keyed sch = false ->
  upd_multi sch st sc v w = (r, st2, es) ->
  (st2 = st /\ es = []) \/
  (let sel := select sch w st in
   ents st2 = map (updf sc v sel) (ents st) /\ rcount st2 = rcount st /\ kidx st2 = kidx st /\
   nextid st2 = nextid st /\ es = map wold sel).
Proof.
  intros sch st sc v w r st2 es Hk H. unfold upd_multi in H. cbv zeta in H. rewrite Hk in H. cbn [andb] in H.
  assert (Hkx : (if is_c0 sc then upd_kidx sch v (select sch w st) (kidx st) else kidx st) = kidx st).
  { destruct sc; cbn [is_c0] in *; [|reflexivity]. cbn [andb] in Hk. unfold upd_kidx. rewrite Hk. reflexivity. }
  destruct (negb match select sch w st with [] => true | _ :: _ => false end && is_c0 sc && is_pk sch && is_null v).
  - injection H as _ H2 H3. subst. left. split; reflexivity.
  - injection H as _ H2 H3. subst st2 es. right. cbn [ents rcount kidx nextid]. rewrite Hkx. repeat split; reflexivity.
Qed.

Lemma do_update_shape : forall sch st sc v w r st2 es,
  is_c0 sc && keyed sch = false ->
  do_update sch st sc v w = (r, st2, es) ->
  (st2 = st /\ es = []) \/
  (let sel := upd_sel sch st sc w in
   ents st2 = map (updf sc v sel) (ents st) /\ rcount st2 = rcount st /\ kidx st2 = kidx st /\
   nextid st2 = nextid st /\ es = map wold sel).
Proof.
  intros sch st sc v w r st2 es Hk H. unfold do_update in H. unfold upd_sel.
  destruct (pk_info sch w st) as [[id wv]|]; [|exact (upd_multi_shape _ _ _ _ _ _ _ _ Hk H)].
  destruct (negb (idx_mod sch sc) && negb (has_toast sch)); [|exact (upd_multi_shape _ _ _ _ _ _ _ _ Hk H)].
  destruct (find_ent id (ents st)) as [x|] eqn:Ef.
  - destruct (live x && value_eqb (c0 (e_row x)) wv).
    + injection H as _ H2 H3. subst st2 es. right. apply find_ent_In in Ef. destruct Ef as [_ Ef]. subst id.
      cbn [ents rcount kidx nextid]. repeat split; reflexivity.
    + injection H as _ H2 H3. subst. left. split; reflexivity.
  - injection H as _ H2 H3. subst. left. split; reflexivity.
Qed.

Lemma int_pk_keyed : forall sch, int_pk sch = true -> keyed sch = true.
Proof. intros sch H. unfold int_pk, is_pk in H. unfold keyed. destruct (s_kind sch); try reflexivity; discriminate. Qed.

(* undo of the write entries of an UPDATE of a column that is not a key *)
Lemma undo_update_inverts_l : forall sch st sc v w r st2 es,
  inv sch st -> is_c0 sc && keyed sch = false ->
  do_update sch st sc v w = (r, st2, es) ->
  core3 (undo_list sch es st2) = core3 st.
Proof.
  intros sch st sc v w r st2 es (Hs & Hb & Hr & Hc) Hk H.
  destruct (do_update_shape _ _ _ _ _ _ _ _ Hk H) as [[-> ->]|(E1 & E2 & E3 & _ & ->)].
  - rewrite undo_list_nil. reflexivity.
  - set (sel := upd_sel sch st sc w) in *.
    destruct (undo_update_ents sch sc v sel (ents st) (kidx st) sel [] st2) as (R1 & R2 & R3).
    + exact Hs.
    + intros e He. eapply upd_sel_sub. exact He.
    + intros e He Hkey Hpk. destruct (upd_sel_sub_live _ _ _ _ _ He) as [Hin Hl]. apply (Hc Hpk e Hin Hl Hkey).
    + rewrite E1. apply map_ext. intro y. symmetry. apply partf_none.
    + exact E3.
    + unfold core3. rewrite R1, R2, R3, E2, app_nil_r. f_equal. f_equal.
      rewrite <- (map_id (ents st)) at 2. apply map_ext. intro y. apply partf_all.
Qed.

Lemma do_update_inv : forall sch st sc v w r st2 es,
  inv sch st -> is_c0 sc && keyed sch = false ->
  do_update sch st sc v w = (r, st2, es) -> inv sch st2 /\ nextid st <= nextid st2.
Proof.
  intros sch st sc v w r st2 es (Hs & Hb & Hr & Hc) Hk H.
  destruct (do_update_shape _ _ _ _ _ _ _ _ Hk H) as [[-> ->]|(E1 & E2 & E3 & E4 & _)].
  - split; [repeat split; assumption | lia].
  - set (sel := upd_sel sch st sc w) in *.
    assert (Hids : map e_id (ents st2) = map e_id (ents st)).
    { rewrite E1, map_map. apply map_ext. intro y. apply updf_id. }
    split; [|lia]. split; [|split; [|split]].
    + unfold ids_sorted. rewrite Hids. exact Hs.
    + intros e He. rewrite E4. rewrite E1 in He. apply in_map_iff in He. destruct He as (y & <- & Hy).
      rewrite updf_id. apply Hb. exact Hy.
    + rewrite E2. exact Hr.
    + intros Hpk e He Hl Hkey. rewrite E3. rewrite E1 in He. apply in_map_iff in He. destruct He as (y & <- & Hy).
      (* the key column is untouched, and only live rows are updated *)
      assert (Hsc : sc = C1).
      { destruct sc; [|reflexivity]. cbn [is_c0 andb] in Hk. rewrite (int_pk_keyed _ Hpk) in Hk. discriminate. }
      subst sc. unfold updf in *. destruct (in_sel sel y) eqn:Ei.
      * unfold in_sel in Ei. apply existsb_exists in Ei. destruct Ei as (s0 & Hs0 & Hid). apply Z.eqb_eq in Hid.
        destruct (upd_sel_sub_live _ _ _ _ _ Hs0) as [Hin0 Hl0].
        assert (s0 = y) by (eapply sorted_nodup_ids; eauto). subst s0.
        cbn [e_row setc c0] in *. apply (Hc Hpk y Hy Hl0). exact Hkey.
      * apply (Hc Hpk y Hy Hl Hkey).
Qed.
