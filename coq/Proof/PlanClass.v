(* The single-table implementation model (Model/PlanClass.v).  Finding class 1 (projection fast
   path: SELECT of plain columns without a filter returned the wrong columns) is repaired in /repo
   (commit 84a97fb); the model is the reference semantics, and the former witness is answered
   correctly (it is still executed on the real Database on every check). *)
From Coq Require Import ZArith List Bool.
From TV Require Import Model.SqlSpec Model.QuerySpec Model.ConstFold Model.Pushdown Model.PlanClass.
Import ListNotations.
Open Scope Z_scope.

Definition single (q : query) : Prop := exists i, q_from q = FTab i.

Theorem impl_single_correct : forall d q, single q -> impl_single d q = q_out d q /\ q_class d q = 0.
Proof. intros d q [i H]. split; [reflexivity|]. unfold q_class. now rewrite H. Qed.

(* SELECT c1 FROM t, and SELECT c1, id FROM t: the queries that used to return NULLs / (id, c1) *)
Theorem proj_fixed :
  let d : db := [(2%nat, [[VInt 1; VInt 10]; [VInt 2; VInt 20]])] in
  impl_single d (mkQuery (FTab 0) None false [ECol 1]) = [[Some (VInt 10)]; [Some (VInt 20)]] /\
  impl_single d (mkQuery (FTab 0) None false [ECol 1; ECol 0]) = [[Some (VInt 10); Some (VInt 1)]; [Some (VInt 20); Some (VInt 2)]].
Proof. cbv zeta. split; vm_compute; reflexivity. Qed.
