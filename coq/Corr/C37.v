(* C37 correspondence: the harness runs the real GroupCommitQueue (plus its copy of the caller
   protocol of execute_small_commit) under the deterministic scheduler and prints, per case, the
   programs, the schedule and everything it observed.  [model_agrees] replays programs and
   schedule on Model/GroupCommit.v (variant fx = false: the code as it is; site 404 present) and
   demands the same observations; [spec_ok] is the property's own oracle on the observations
   alone.  Definitions only. *)
From Coq Require Import ZArith List Bool.
From TV Require Import Lib.Interleave Model.GroupCommit.
Import ListNotations.
Open Scope Z_scope.

Inductive case :=
| Case (progs : list (list (bool * Z)))      (* per thread: (empty payload?, failing write index or -1) *)
       (sched : list Z)                       (* every schedule entry that was executed *)
       (steps : list (Z * list Z * Z * Z))    (* per entry: outcome, status of every thread, pending_count, log length *)
       (log : list (Z * Z * Z))               (* the log at the end: (batch id, thread, commit number) *)
       (results : list (list (Z * Z * Z * Z)))  (* per thread, per commit: (number, code, batch id, log length at return) *)
       (failed : list Z)                      (* members of the batches handed to fail_batch *)
       (drained : bool)                       (* every thread ran to completion *)
       (probe : Z).                           (* 1 = a fresh committer was elected at once afterwards, 0 = not, 2 = not run *)

Definition to_op (e : bool * Z) : op :=
  Commit (fst e) (if snd e <? 0 then None else Some (Z.to_nat (snd e))).
Definition to_progs (p : list (list (bool * Z))) : list (list op) := map (map to_op) p.

Definition final_and_obs (c : case) : St * list (Z * (list Z * Z * Z)) :=
  match c with
  | Case progs sched _ _ _ _ _ _ => exec_obs false true (map Z.to_nat sched) (init (to_progs progs))
  end.

Fixpoint zlist_eq (a b : list Z) : bool :=
  match a, b with
  | [], [] => true
  | x :: r, y :: q => (x =? y) && zlist_eq r q
  | _, _ => false
  end.
Fixpoint list_eq {A B} (eq : A -> B -> bool) (a : list A) (b : list B) : bool :=
  match a, b with
  | [], [] => true
  | x :: r, y :: q => eq x y && list_eq eq r q
  | _, _ => false
  end.

Definition step_eq (m : Z * (list Z * Z * Z)) (o : Z * list Z * Z * Z) : bool :=
  match m, o with
  | (mo, (mst, mp, ml)), (oo, ost, op_, ol) => (mo =? oo) && zlist_eq mst ost && (mp =? op_) && (ml =? ol)
  end.

Fixpoint label_of (subs : list (Z * (nat * Z))) (id : Z) : option (nat * Z) :=
  match subs with
  | [] => None
  | (i, l) :: r => if i =? id then Some l else label_of r id
  end.
Definition model_log (s : shared) : list (Z * Z * Z) :=
  map (fun id => match label_of (subs s) id with
                 | Some (t, k) => (id, Z.of_nat t, k)
                 | None => (id, -1, -1)
                 end) (log s).
Definition triple_eq (a b : Z * Z * Z) : bool :=
  match a, b with (x, y, z), (x', y', z') => (x =? x') && (y =? y') && (z =? z') end.
Definition quad_eq (a b : Z * Z * Z * Z) : bool :=
  match a, b with (x, y, z, w), (x', y', z', w') => (x =? x') && (y =? y') && (z =? z') && (w =? w') end.

Definition res_code (r : result) : Z := match r with ROk => 0 | RErrReported => 1 | RErrFlush => 2 end.
Definition model_results (s : shared) (t : nat) : list (Z * Z * Z * Z) :=
  map (fun a => (a_k a, res_code (a_res a), match a_res a with ROk => a_id a | _ => 0 end, a_loglen a))
      (filter (fun a => Nat.eqb (a_thr a) t) (acks s)).
Fixpoint results_eq (s : shared) (t : nat) (rs : list (list (Z * Z * Z * Z))) : bool :=
  match rs with
  | [] => true
  | r :: q => list_eq quad_eq (model_results s t) r && results_eq s (S t) q
  end.

(* does the model reproduce everything the harness observed? *)
Definition model_agrees (c : case) : bool :=
  match c with
  | Case progs sched steps log_ results failed drained probe =>
      let (sf, obs) := final_and_obs c in
      (Nat.eqb (length results) (length progs)) &&
      forallb (fun p => nonempty p) progs &&
      list_eq step_eq obs steps &&
      list_eq triple_eq (model_log (sh sf)) log_ &&
      results_eq (sh sf) 0 results &&
      zlist_eq (att_fail (sh sf)) failed &&
      Bool.eqb (all_finished sf) drained &&
      (probe =? (if drained then (if fip (sh sf) then 0 else 1) else 2))
  end.

(* ---- the property itself, on the observations only *)
Fixpoint nodup_ids (l : list (Z * Z * Z)) (seen : list Z) : bool :=
  match l with
  | [] => true
  | (id, _, _) :: r => negb (memZ id seen) && nodup_ids r (id :: seen)
  end.
(* a commit that returned Ok with batch id b (b <> 0: it had a payload) must find ITS payload
   (same batch id, its thread, its commit number) among the entries the log had at the return,
   and must not be a member of a batch whose write failed *)
Definition result_ok (log_ : list (Z * Z * Z)) (failed : list Z) (t : Z) (r : Z * Z * Z * Z) : bool :=
  match r with
  | (k, code, bid, ll) =>
      if (code =? 0) && negb (bid =? 0) then
        existsb (triple_eq (bid, t, k)) (firstn (Z.to_nat ll) log_) && negb (memZ bid failed)
      else negb (code =? 3) && negb (code =? 4)     (* no time-out, no foreign error *)
  end.
Fixpoint results_ok (log_ : list (Z * Z * Z)) (failed : list Z) (t : Z) (rs : list (list (Z * Z * Z * Z))) : bool :=
  match rs with
  | [] => true
  | r :: q => forallb (result_ok log_ failed t) r && results_ok log_ failed (t + 1) q
  end.
Definition spec_ok (c : case) : bool :=
  match c with
  | Case _ _ _ log_ results failed drained probe =>
      nodup_ids log_ [] && results_ok log_ failed 0 results && drained && (probe =? 1)
  end.

(* finding class 1: in the model's run of this case an elected leader did not find its own
   commit in take_pending (it had been drained by another committer's take_pending) *)
Definition known_class (c : case) : Z :=
  if stolen (sh (fst (final_and_obs c))) then 1 else 0.

Fixpoint failures_from (i : Z) (cs : list case) : list (Z * bool * bool * Z) :=
  match cs with
  | [] => []
  | c :: t =>
      let m := model_agrees c in
      let s := spec_ok c in
      if m && s then failures_from (i + 1) t else (i, m, s, known_class c) :: failures_from (i + 1) t
  end.
Definition failures := failures_from 0.
