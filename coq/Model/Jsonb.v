(* C32 model, binary side: src/records/jsonb.rs (JsonbBuilder::build = JsonValue::to_jsonb_bytes,
   JsonbView::{new, get, get_path, as_value, array_get, iter_object, iter_array}) and the lookup API
   of src/types/owned_value.rs (jsonb_get / jsonb_get_path / jsonb_array_get).
   The type constants, flag masks and the three entry-word accessors are regenerated from the source
   (Gen/JsonbBits.v); the rest is a hand transcription, faithful to the code AS IT IS:
     * `len as u16` / `len as u32` / `offset as u32 & OFFSET_MASK` are explicit wraps / masks
       (so over-long strings and offsets are silently truncated here exactly as in the code);
     * every slice read of the view is `sub`, which is Panic when out of range;
     * `ensure!` / `bail!` / from_utf8 failures are Err.
   Numbers are opaque 64-bit patterns.  Strings are UTF-8 byte lists.  Definitions only. *)
From Coq Require Import ZArith List Bool Sorting.Permutation.
From TV Require Import Lib.MachInt Gen.JsonbBits.
Import ListNotations.
Open Scope Z_scope.

Inductive json :=
| JNull
| JBool (b : bool)
| JNum (bits : Z)
| JStr (s : list Z)
| JArr (l : list json)
| JObj (l : list (list Z * json)).

Inductive res (A : Type) := Ok (a : A) | Err | Panic | Fuel.
Arguments Ok {A} a.
Arguments Err {A}.
Arguments Panic {A}.
Arguments Fuel {A}.

Definition bind {A B} (r : res A) (f : A -> res B) : res B :=
  match r with Ok a => f a | Err => Err | Panic => Panic | Fuel => Fuel end.
Definition rmap {A B} (f : A -> B) (r : res A) : res B := bind r (fun a => Ok (f a)).

(* ------------------------------------------------------------------ byte order on strings *)
(* str::cmp / String::cmp: lexicographic on the UTF-8 bytes *)
Fixpoint bytes_cmp (a b : list Z) : comparison :=
  match a, b with
  | [], [] => Eq
  | [], _ :: _ => Lt
  | _ :: _, [] => Gt
  | x :: a', y :: b' => match x ?= y with Eq => bytes_cmp a' b' | c => c end
  end.
Definition bytes_leb (a b : list Z) : bool :=
  match bytes_cmp a b with Gt => false | _ => true end.

(* slice::sort_by is a stable sort; the stable sort of a list is unique, insertion sort computes it *)
Section Sort.
  Context {A : Type} (key : A -> list Z).
  Fixpoint ins (x : A) (l : list A) : list A :=
    match l with
    | [] => [x]
    | y :: t => if bytes_leb (key x) (key y) then x :: y :: t else y :: ins x t
    end.
  Fixpoint stable_sort (l : list A) : list A :=
    match l with
    | [] => []
    | x :: t => ins x (stable_sort t)
    end.
End Sort.

(* ------------------------------------------------------------------ std::str::from_utf8 *)
Definition cont (b : Z) : bool := (128 <=? b) && (b <=? 191).
Fixpoint utf8_valid (l : list Z) : bool :=
  match l with
  | [] => true
  | b0 :: r =>
      if b0 <? 128 then utf8_valid r
      else match r with
      | [] => false
      | b1 :: r1 =>
          if (194 <=? b0) && (b0 <=? 223) then cont b1 && utf8_valid r1
          else match r1 with
          | [] => false
          | b2 :: r2 =>
              if (224 <=? b0) && (b0 <=? 239) then
                (if b0 =? 224 then (160 <=? b1) && (b1 <=? 191)
                 else if b0 =? 237 then (128 <=? b1) && (b1 <=? 159)
                 else cont b1) && cont b2 && utf8_valid r2
              else match r2 with
              | [] => false
              | b3 :: r3 =>
                  if (240 <=? b0) && (b0 <=? 244) then
                    (if b0 =? 240 then (144 <=? b1) && (b1 <=? 191)
                     else if b0 =? 244 then (128 <=? b1) && (b1 <=? 143)
                     else cont b1) && cont b2 && cont b3 && utf8_valid r3
                  else false
              end
          end
      end
  end.

(* ------------------------------------------------------------------ builder *)
Definition u32le (x : Z) : list Z := le_bytes 4 (wrap_u 32 x).   (* (x as u32).to_le_bytes() *)
Definition u16le (x : Z) : list Z := le_bytes 2 (wrap_u 16 x).   (* (x as u16).to_le_bytes() *)
Definition b2z (b : bool) : Z := if b then 1 else 0.
Definition zlen {A} (l : list A) : Z := Z.of_nat (length l).

(* what encode_entry contributes for one value: the entry word without its offset field, whether the
   offset of the data buffer is or-ed in, and the bytes appended to the data buffer *)
Record item := mk_item { it_word : Z; it_var : bool; it_payload : list Z }.

Definition entry_word (it : item) (off : Z) : Z :=
  if it_var it then Z.lor (it_word it) (Z.land (wrap_u 32 off) OFFSET_MASK) else it_word it.

(* `nested` is encode_value of the same value (used for arrays and objects only) *)
Definition item_of_value (v : json) (nested : list Z) : item :=
  match v with
  | JNull => mk_item (JSONB_TYPE_NULL * 2 ^ TYPE_SHIFT) false []
  | JBool b => mk_item (Z.lor (JSONB_TYPE_BOOL * 2 ^ TYPE_SHIFT) (b2z b)) false []
  | JNum bits => mk_item (Z.lor FLAG_IS_VARIABLE (JSONB_TYPE_NUMBER * 2 ^ TYPE_SHIFT)) true (le_bytes 8 bits)
  | JStr s => mk_item (Z.lor FLAG_IS_VARIABLE (JSONB_TYPE_STRING * 2 ^ TYPE_SHIFT)) true (u16le (blen s) ++ s)
  | JArr _ => mk_item (Z.lor FLAG_IS_VARIABLE (JSONB_TYPE_ARRAY * 2 ^ TYPE_SHIFT)) true (u32le (blen nested) ++ nested)
  | JObj _ => mk_item (Z.lor FLAG_IS_VARIABLE (JSONB_TYPE_OBJECT * 2 ^ TYPE_SHIFT)) true (u32le (blen nested) ++ nested)
  end.

Definition key_item (k : list Z) : item :=
  mk_item (Z.lor FLAG_IS_KEY FLAG_IS_VARIABLE) true (u16le (blen k) ++ k).

(* the loop over elements / sorted pairs: entry words (in table order) and the data buffer, the
   offset of an item being the length of the data buffer when the item is reached *)
Fixpoint lay (items : list item) (off : Z) : list Z * list Z :=
  match items with
  | [] => ([], [])
  | it :: r =>
      let '(ws, d) := lay r (off + blen (it_payload it)) in
      (entry_word it off :: ws, it_payload it ++ d)
  end.

Definition container (typ count : Z) (items : list item) : list Z :=
  let '(ws, d) := lay items 0 in
  u32le (Z.lor (typ * 2 ^ 28) (wrap_u 32 count)) ++ flat_map u32le ws ++ d.

Definition pair_items (ki : list Z * item) : list item := [key_item (fst ki); snd ki].

(* encode_value (both copies in the source are the same function) *)
Fixpoint encode_value (v : json) : list Z :=
  match v with
  | JNull => u32le (JSONB_TYPE_NULL * 2 ^ 28)
  | JBool b => u32le (Z.lor (JSONB_TYPE_BOOL * 2 ^ 28) (b2z b))
  | JNum bits => u32le (JSONB_TYPE_NUMBER * 2 ^ 28) ++ le_bytes 8 bits
  | JStr s => u32le (Z.lor (JSONB_TYPE_STRING * 2 ^ 28) (wrap_u 32 (blen s))) ++ s
  | JArr els =>
      container JSONB_TYPE_ARRAY (zlen els) (map (fun e => item_of_value e (encode_value e)) els)
  | JObj kvs =>
      let enc := map (fun kv => match kv with (k, e) => (k, item_of_value e (encode_value e)) end) kvs in
      container JSONB_TYPE_OBJECT (zlen kvs * 2) (flat_map pair_items (stable_sort fst enc))
  end.

(* ------------------------------------------------------------------ view *)
Inductive jvalue :=
| VNull | VBool (b : bool) | VNum (bits : Z) | VStr (s : list Z)
| VArr (view : list Z) | VObj (view : list Z).

(* &l[lo .. lo+n] *)
Definition sub (l : list Z) (lo n : Z) : res (list Z) :=
  if (0 <=? lo) && (0 <=? n) && (lo + n <=? blen l)
  then Ok (firstn (Z.to_nat n) (skipn (Z.to_nat lo) l)) else Panic.
(* &l[lo ..] *)
Definition from (l : list Z) (lo : Z) : res (list Z) :=
  if (0 <=? lo) && (lo <=? blen l) then Ok (skipn (Z.to_nat lo) l) else Panic.

Definition view_new (data : list Z) : res (list Z) := if blen data <? 4 then Err else Ok data.

Definition header (b : list Z) : res Z := rmap from_le (sub b 0 4).
Definition root_type (b : list Z) : res Z := rmap (fun h => (h / 2 ^ 28) mod 16) (header b).
Definition entry_count (b : list Z) : res Z := rmap (fun h => h mod 2 ^ 28) (header b).
Definition data_start (b : list Z) : res Z := rmap (fun c => 4 + c * 4) (entry_count b).
Definition read_entry (b : list Z) (idx : Z) : res Z := rmap from_le (sub b (4 + idx * 4) 4).
Definition data_section (b : list Z) : res (list Z) := bind (data_start b) (from b).

Definition str_of (bytes : list Z) : res (list Z) := if utf8_valid bytes then Ok bytes else Err.

Definition read_key_at (b : list Z) (pair_idx : Z) : res (list Z) :=
  bind (read_entry b (pair_idx * 2)) (fun e =>
  if negb (entry_is_key e) then Err else
  let off := entry_offset e in
  bind (data_section b) (fun ds =>
  bind (sub ds off 2) (fun lb =>
  bind (sub ds (off + 2) (from_le lb)) str_of))).

Definition decode_entry (b : list Z) (e : Z) : res jvalue :=
  let typ := entry_type e in
  let off := entry_offset e in
  if typ =? JSONB_TYPE_NULL then Ok VNull
  else if typ =? JSONB_TYPE_BOOL then Ok (VBool (negb (off =? 0)))
  else if typ =? JSONB_TYPE_NUMBER then
    bind (data_section b) (fun ds => bind (sub ds off 8) (fun bs => Ok (VNum (from_le bs))))
  else if typ =? JSONB_TYPE_STRING then
    bind (data_section b) (fun ds =>
    bind (sub ds off 2) (fun lb =>
    bind (sub ds (off + 2) (from_le lb)) (fun sb =>
    bind (str_of sb) (fun s => Ok (VStr s)))))
  else if (typ =? JSONB_TYPE_ARRAY) || (typ =? JSONB_TYPE_OBJECT) then
    bind (data_section b) (fun ds =>
    bind (sub ds off 4) (fun lb =>
    bind (sub ds (off + 4) (from_le lb)) (fun nd =>
    bind (view_new nd) (fun nv =>
    Ok (if typ =? JSONB_TYPE_ARRAY then VArr nv else VObj nv)))))
  else Err.

Definition read_value_at (b : list Z) (pair_idx : Z) : res jvalue :=
  bind (read_entry b (pair_idx * 2 + 1)) (decode_entry b).

(* the binary search of `get`; 64 rounds always suffice (see get_fuel_enough) *)
Fixpoint bsearch (fuel : nat) (b key : list Z) (low high : Z) {struct fuel} : res (option jvalue) :=
  match fuel with
  | O => Fuel
  | S f =>
      if low <=? high then
        let mid := (low + high) / 2 in
        bind (read_key_at b mid) (fun ck =>
        match bytes_cmp ck key with
        | Eq => rmap Some (read_value_at b mid)
        | Lt => bsearch f b key (mid + 1) high
        | Gt => bsearch f b key low (mid - 1)
        end)
      else Ok None
  end.

Definition get (b key : list Z) : res (option jvalue) :=
  bind (root_type b) (fun t =>
  if negb (t =? JSONB_TYPE_OBJECT) then Err else
  bind (entry_count b) (fun c =>
  let pair_count := c / 2 in
  if pair_count =? 0 then Ok None else bsearch 64 b key 0 (pair_count - 1))).

Definition as_value (b : list Z) : res jvalue :=
  bind (root_type b) (fun t =>
  if t =? JSONB_TYPE_OBJECT then Ok (VObj b)
  else if t =? JSONB_TYPE_ARRAY then Ok (VArr b)
  else if t =? JSONB_TYPE_NULL then Ok VNull
  else if t =? JSONB_TYPE_BOOL then rmap (fun c => VBool (negb (c =? 0))) (entry_count b)
  else if t =? JSONB_TYPE_NUMBER then rmap (fun bs => VNum (from_le bs)) (sub b 4 8)
  else if t =? JSONB_TYPE_STRING then
    bind (entry_count b) (fun len => bind (sub b 4 len) (fun sb => rmap VStr (str_of sb)))
  else Err).

Definition step_path (cur : option jvalue) (key : list Z) : res (option jvalue) :=
  match cur with
  | Some (VObj view) => get view key
  | _ => Ok None
  end.

(* the `for key in &path[1..]` loop; `return Ok(None)` leaves it, modelled by absorbing None *)
Fixpoint path_loop (cur : option jvalue) (keys : list (list Z)) {struct keys} : res (option jvalue) :=
  match keys with
  | [] => Ok cur
  | k :: ks =>
      match cur with
      | Some (VObj view) =>
          match get view k with
          | Ok c => path_loop c ks
          | Err => Err | Panic => Panic | Fuel => Fuel
          end
      | _ => Ok None
      end
  end.

Definition get_path (b : list Z) (path : list (list Z)) : res (option jvalue) :=
  match path with
  | [] => rmap Some (as_value b)
  | k :: ks => bind (get b k) (fun c => path_loop c ks)
  end.

Definition array_len (b : list Z) : res Z :=
  bind (root_type b) (fun t => if negb (t =? JSONB_TYPE_ARRAY) then Err else entry_count b).

Definition array_get (b : list Z) (idx : Z) : res (option jvalue) :=
  bind (root_type b) (fun t =>
  if negb (t =? JSONB_TYPE_ARRAY) then Err else
  bind (entry_count b) (fun c =>
  if c <=? idx then Ok None else
  bind (read_entry b idx) (fun e => rmap Some (decode_entry b e)))).

(* ------------------------------------------------------------------ reading a whole document back
   (what the harness does with as_value / iter_object / iter_array, recursively) *)
Fixpoint collect {A} (n : nat) (i : Z) (f : Z -> res A) : res (list A) :=
  match n with
  | O => Ok []
  | S n' => bind (f i) (fun a => bind (collect n' (i + 1) f) (fun t => Ok (a :: t)))
  end.

Fixpoint tree_of_value (fuel : nat) (v : jvalue) {struct fuel} : res json :=
  match fuel with
  | O => Fuel
  | S f =>
      match v with
      | VNull => Ok JNull
      | VBool b => Ok (JBool b)
      | VNum x => Ok (JNum x)
      | VStr s => Ok (JStr s)
      | VArr view =>
          bind (root_type view) (fun t =>
          if negb (t =? JSONB_TYPE_ARRAY) then Err else
          bind (entry_count view) (fun c =>
          rmap JArr (collect (Z.to_nat c) 0 (fun i =>
            bind (read_entry view i) (fun e => bind (decode_entry view e) (tree_of_value f))))))
      | VObj view =>
          bind (root_type view) (fun t =>
          if negb (t =? JSONB_TYPE_OBJECT) then Err else
          bind (entry_count view) (fun c =>
          rmap JObj (collect (Z.to_nat (c / 2)) 0 (fun i =>
            bind (read_key_at view i) (fun k =>
            bind (read_value_at view i) (fun v' =>
            rmap (fun t' => (k, t')) (tree_of_value f v')))))))
      end
  end.

Definition tree_of_view (fuel : nat) (data : list Z) : res json :=
  bind (view_new data) (fun b => bind (as_value b) (tree_of_value fuel)).

(* ------------------------------------------------------------------ OwnedValue lookup API *)
Inductive ov := OVNull | OVBool (b : bool) | OVFloat (bits : Z) | OVText (s : list Z) | OVJsonb (data : list Z).

Definition from_jsonb_value (v : jvalue) : ov :=
  match v with
  | VNull => OVNull | VBool b => OVBool b | VNum x => OVFloat x | VStr s => OVText s
  | VArr view => OVJsonb view | VObj view => OVJsonb view
  end.

Definition ov_get (o : ov) (key : list Z) : res (option ov) :=
  match o with
  | OVJsonb data => bind (view_new data) (fun b => rmap (option_map from_jsonb_value) (get b key))
  | _ => Ok None
  end.
Definition ov_get_path (o : ov) (path : list (list Z)) : res (option ov) :=
  match o with
  | OVJsonb data => bind (view_new data) (fun b => rmap (option_map from_jsonb_value) (get_path b path))
  | _ => Ok None
  end.
Definition ov_array_get (o : ov) (idx : Z) : res (option ov) :=
  match o with
  | OVJsonb data => bind (view_new data) (fun b => rmap (option_map from_jsonb_value) (array_get b idx))
  | _ => Ok None
  end.

(* a caller doing the path one key at a time: v.jsonb_get(k1)?, then on Some(v1) v1.jsonb_get(k2)? ... *)
Fixpoint ov_stepwise (cur : option ov) (keys : list (list Z)) {struct keys} : res (option ov) :=
  match keys with
  | [] => Ok cur
  | k :: ks =>
      match cur with
      | Some o => bind (ov_get o k) (fun c => ov_stepwise c ks)
      | None => Ok None
      end
  end.

(* ------------------------------------------------------------------ the canonical form the builder stores *)
Fixpoint canon (v : json) : json :=
  match v with
  | JArr els => JArr (map canon els)
  | JObj kvs => JObj (stable_sort fst (map (fun kv => match kv with (k, e) => (k, canon e) end) kvs))
  | _ => v
  end.

Fixpoint depth (v : json) : nat :=
  match v with
  | JArr els => S (fold_right (fun e a => Nat.max (depth e) a) O els)
  | JObj kvs => S (fold_right (fun kv a => match kv with (_, e) => Nat.max (depth e) a end) O kvs)
  | _ => O
  end.

(* what decode_entry yields for a stored value *)
Definition jv_of (v : json) : jvalue :=
  match v with
  | JNull => VNull | JBool b => VBool b | JNum x => VNum x | JStr s => VStr s
  | JArr _ => VArr (encode_value v) | JObj _ => VObj (encode_value v)
  end.
Definition ov_of (v : json) : ov := from_jsonb_value (jv_of v).

(* what the Rust types guarantee: numbers are 64-bit patterns, strings and keys are UTF-8 *)
Fixpoint typed (v : json) : bool :=
  match v with
  | JNum bits => in_u 64 bits
  | JStr s => utf8_valid s
  | JArr els => forallb typed els
  | JObj kvs => forallb (fun kv => match kv with (k, e) => utf8_valid k && typed e end) kvs
  | _ => true
  end.

(* the `check` function of JsonbBuilder::try_build: strings and keys below the root at most u16::MAX
   bytes (their length field is a u16), a root string at most 0x0FFF_FFFF bytes (header count field) *)
Fixpoint limits_ok (nested : bool) (v : json) : bool :=
  match v with
  | JStr s => if nested then blen s <=? 65535 else blen s <=? 268435455
  | JArr els => forallb (limits_ok true) els
  | JObj kvs => forallb (fun kv => match kv with (k, e) => (blen k <=? 65535) && limits_ok true e end) kvs
  | _ => true
  end.

Definition is_str (v : json) : bool := match v with JStr _ => true | _ => false end.

(* JsonbBuilder::try_build (the SQL conversion path stores its result): refuse what the format cannot
   represent, otherwise exactly `build` *)
Definition try_build (v : json) : res (list Z) :=
  if limits_ok false v then
    let buf := encode_value v in
    if is_str v || (blen buf <=? OFFSET_MASK + 1) then Ok buf else Err
  else Err.

(* well-formed values within the size limits of the format: typed, and limits_ok *)
Fixpoint wf_json (nested : bool) (v : json) : bool :=
  match v with
  | JNum bits => in_u 64 bits
  | JStr s => utf8_valid s && (if nested then blen s <? 2 ^ 16 else blen s <? 2 ^ 28)
  | JArr els => forallb (wf_json true) els
  | JObj kvs => forallb (fun kv => match kv with (k, e) => utf8_valid k && (blen k <? 2 ^ 16) && wf_json true e end) kvs
  | _ => true
  end.
(* ... and, unless the document is a single string, an encoding of at most 2^24 bytes (offsets are 24-bit fields) *)
Definition fits (v : json) : bool :=
  wf_json false v && (is_str v || (blen (encode_value v) <=? 2 ^ 24)).

(* ------------------------------------------------------------------ equal JSON values (specification)
   arrays are sequences, objects are unordered collections of members (a member may occur more than
   once when the document repeats a key) *)
Inductive jequiv : json -> json -> Prop :=
| EqNull : jequiv JNull JNull
| EqBool b : jequiv (JBool b) (JBool b)
| EqNum x : jequiv (JNum x) (JNum x)
| EqStr s : jequiv (JStr s) (JStr s)
| EqArr l1 l2 : Forall2 jequiv l1 l2 -> jequiv (JArr l1) (JArr l2)
| EqObj l1 l' l2 :
    Permutation l1 l' ->
    Forall2 (fun a b => fst a = fst b /\ jequiv (snd a) (snd b)) l' l2 ->
    jequiv (JObj l1) (JObj l2).

(* the keys of every object of a value are in non-decreasing byte order *)
Fixpoint keys_sorted (l : list (list Z)) : bool :=
  match l with
  | a :: (b :: _) as t => bytes_leb a b && keys_sorted t
  | _ => true
  end.
Fixpoint objects_sorted (v : json) : bool :=
  match v with
  | JArr els => forallb objects_sorted els
  | JObj kvs => keys_sorted (map fst kvs) && forallb (fun kv => match kv with (_, e) => objects_sorted e end) kvs
  | _ => true
  end.

(* ------------------------------------------------------------------ paths in a document (specification) *)
Inductive tree_path : json -> list (list Z) -> json -> Prop :=
| TPnil j : tree_path j [] j
| TPcons kvs k ks e' e : In (k, e') kvs -> tree_path e' ks e -> tree_path (JObj kvs) (k :: ks) e.

(* no object of the value repeats a key *)
Fixpoint nodup_keys (v : json) : Prop :=
  match v with
  | JArr els => fold_right (fun e a => nodup_keys e /\ a) True els
  | JObj kvs => NoDup (map fst kvs) /\ fold_right (fun kv a => match kv with (_, e) => nodup_keys e end /\ a) True kvs
  | _ => True
  end.
