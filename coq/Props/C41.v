(* C41 - Date and time values convert consistently with the calendar.
   Property theorems only.  CalLiteral / CalDefault / CalFunc are regenerated from
   src/parsing/literal.rs, src/constraints/mod.rs, src/sql/functions/datetime.rs on every run.
   Spec (Model/Calendar.v): leap rule, month lengths, day numbers as SUMS of year and month lengths. *)
From Coq Require Import ZArith List Bool.
From TV Require Import Lib.MachInt Model.Calendar Model.CalendarImpl.
From TV Require Import Proof.CalendarImpl Proof.CalendarImpl2 Proof.CalendarImpl3 Proof.CalendarImpl4 Proof.CalendarLit Proof.CalendarAll.
From TV Require Gen.CalLiteral Gen.CalDefault Gen.CalFunc.
Import ListNotations.
Open Scope Z_scope.

(* literal parsing: the year/month loops count exactly the calendar's day number, without i32 overflow *)
Theorem literal_days_correct : forall y m d, 1 <= y <= 9999 -> valid_date y m d = true ->
  CalLiteral.date_to_days_since_epoch y m d = epoch_days y m d /\
  CalLiteral.date_to_days_since_epoch_safe y m d = true.
Proof. exact literal_days_correct_l. Qed.

(* DEFAULT-clause parsing (Julian-day-number formula) *)
Theorem default_days_correct : forall y m d, 1 <= y <= 9999 -> valid_date y m d = true ->
  CalDefault.days_from_ymd y m d = epoch_days y m d /\ CalDefault.days_from_ymd_safe y m d = true.
Proof. exact default_days_correct_l. Qed.

(* date functions: day number (its own epoch: rata die + 1) *)
Theorem func_days_correct : forall y m d, 1 <= y <= 9999 -> valid_date y m d = true ->
  CalFunc.date_to_days y m d = rata_die y m d + 1 /\ CalFunc.date_to_days_safe y m d = true.
Proof. exact func_days_correct_l. Qed.

(* ... and back: rendering a day number gives the date it came from *)
Theorem days_to_date_inverse : forall y m d, 1 <= y <= 9999 -> valid_date y m d = true ->
  CalFunc.days_to_date (CalFunc.date_to_days y m d) = (y, m, d) /\
  CalFunc.days_to_date_safe (CalFunc.date_to_days y m d) = true.
Proof. exact days_to_date_inverse_l. Qed.

(* every converter agrees on the day number of every date *)
Theorem converters_agree : forall y m d, 1 <= y <= 9999 -> valid_date y m d = true ->
  CalLiteral.date_to_days_since_epoch y m d = CalDefault.days_from_ymd y m d /\
  CalFunc.date_to_days y m d = CalDefault.days_from_ymd y m d + 719163.
Proof. exact converters_agree_l. Qed.

Theorem day_of_week_correct : forall y m d, 1 <= y <= 9999 -> valid_date y m d = true ->
  CalFunc.day_of_week y m d = weekday y m d.
Proof. exact day_of_week_correct_l. Qed.

Theorem day_of_year_correct : forall y m d, 1 <= y <= 9999 -> valid_date y m d = true ->
  CalFunc.day_of_year y m d = ordinal_day y m d.
Proof. exact day_of_year_correct_l. Qed.

(* rendering of unix seconds (NOW(), CURRENT_TIMESTAMP): every instant from 1970 to 9999, every time of day *)
Theorem civil_from_unix_correct : forall y m d h mi s,
  1970 <= y <= 9999 -> valid_date y m d = true -> 0 <= h < 24 -> 0 <= mi < 60 -> 0 <= s < 60 ->
  CalFunc.civil_from_unix (86400 * epoch_days y m d + (3600 * h + 60 * mi + s)) = (y, m, d, h, mi, s) /\
  CalFunc.civil_from_unix_safe (86400 * epoch_days y m d + (3600 * h + 60 * mi + s)) = true.
Proof. exact civil_correct_l. Qed.

(* the literal parser's field check accepts exactly the dates of the calendar, and then yields the Spec's day number *)
Theorem literal_parse_fields_correct : forall y m d, 1 <= y <= 9999 ->
  lit_parse_fields y m d = if valid_date y m d then Some (epoch_days y m d) else None.
Proof. exact literal_parse_fields_l. Qed.

Theorem literal_timestamp_correct : forall y m d h mi s us, 1 <= y <= 9999 -> valid_date y m d = true ->
  0 <= h <= 23 -> 0 <= mi <= 59 -> 0 <= s <= 59 ->
  lit_timestamp_fields y m d h mi s us = Some (epoch_days y m d * 86400000000 + ((h * 3600 + mi * 60 + s) * 1000000 + us)).
Proof. exact literal_timestamp_l. Qed.

(* the DEFAULT-clause parser (after fix F-C41-2) accepts exactly the valid dates as well *)
Theorem default_parse_fields_correct : forall y m d, 1 <= y <= 9999 ->
  default_parse_fields y m d = if valid_date y m d then Some (epoch_days y m d) else None.
Proof. exact default_parse_fields_l. Qed.

(* non-vacuity *)
Example c41_witness :
  valid_date 2024 2 29 = true /\ valid_date 2023 2 29 = false /\ valid_date 1900 2 29 = false /\ valid_date 2000 2 29 = true /\
  epoch_days 1970 1 1 = 0 /\ epoch_days 2024 2 29 = 19782 /\ weekday 2024 2 29 = 4 /\
  CalFunc.civil_from_unix 1709164800 = (2024, 2, 29, 0, 0, 0).
Proof. vm_compute. repeat split. Qed.

Check literal_days_correct : forall y m d, 1 <= y <= 9999 -> valid_date y m d = true -> CalLiteral.date_to_days_since_epoch y m d = epoch_days y m d /\ CalLiteral.date_to_days_since_epoch_safe y m d = true.
Check default_days_correct : forall y m d, 1 <= y <= 9999 -> valid_date y m d = true -> CalDefault.days_from_ymd y m d = epoch_days y m d /\ CalDefault.days_from_ymd_safe y m d = true.
Check func_days_correct : forall y m d, 1 <= y <= 9999 -> valid_date y m d = true -> CalFunc.date_to_days y m d = rata_die y m d + 1 /\ CalFunc.date_to_days_safe y m d = true.
Check days_to_date_inverse : forall y m d, 1 <= y <= 9999 -> valid_date y m d = true -> CalFunc.days_to_date (CalFunc.date_to_days y m d) = (y, m, d) /\ CalFunc.days_to_date_safe (CalFunc.date_to_days y m d) = true.
Check converters_agree : forall y m d, 1 <= y <= 9999 -> valid_date y m d = true -> CalLiteral.date_to_days_since_epoch y m d = CalDefault.days_from_ymd y m d /\ CalFunc.date_to_days y m d = CalDefault.days_from_ymd y m d + 719163.
Check day_of_week_correct : forall y m d, 1 <= y <= 9999 -> valid_date y m d = true -> CalFunc.day_of_week y m d = weekday y m d.
Check day_of_year_correct : forall y m d, 1 <= y <= 9999 -> valid_date y m d = true -> CalFunc.day_of_year y m d = ordinal_day y m d.
Check civil_from_unix_correct : forall y m d h mi s, 1970 <= y <= 9999 -> valid_date y m d = true -> 0 <= h < 24 -> 0 <= mi < 60 -> 0 <= s < 60 -> CalFunc.civil_from_unix (86400 * epoch_days y m d + (3600 * h + 60 * mi + s)) = (y, m, d, h, mi, s) /\ CalFunc.civil_from_unix_safe (86400 * epoch_days y m d + (3600 * h + 60 * mi + s)) = true.
Check literal_parse_fields_correct : forall y m d, 1 <= y <= 9999 -> lit_parse_fields y m d = if valid_date y m d then Some (epoch_days y m d) else None.
Check literal_timestamp_correct : forall y m d h mi s us, 1 <= y <= 9999 -> valid_date y m d = true -> 0 <= h <= 23 -> 0 <= mi <= 59 -> 0 <= s <= 59 -> lit_timestamp_fields y m d h mi s us = Some (epoch_days y m d * 86400000000 + ((h * 3600 + mi * 60 + s) * 1000000 + us)).
Check default_parse_fields_correct : forall y m d, 1 <= y <= 9999 -> default_parse_fields y m d = if valid_date y m d then Some (epoch_days y m d) else None.

Print Assumptions literal_days_correct.
Print Assumptions default_days_correct.
Print Assumptions func_days_correct.
Print Assumptions days_to_date_inverse.
Print Assumptions converters_agree.
Print Assumptions day_of_week_correct.
Print Assumptions day_of_year_correct.
Print Assumptions civil_from_unix_correct.
Print Assumptions literal_parse_fields_correct.
Print Assumptions literal_timestamp_correct.
Print Assumptions default_parse_fields_correct.
