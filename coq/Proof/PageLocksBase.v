(* C36 proofs, part 1: list / map / entry-table facts, per-thread ownership counts and sums over
   the thread table. *)
From Coq Require Import ZArith List Bool Arith Lia.
From TV Require Import Lib.Interleave Model.PageLocks.
Import ListNotations.
Open Scope Z_scope.

Definition b2n (b : bool) : nat := if b then 1%nat else 0%nat.

(* ---------------------------------------------------------------- entry table *)
Lemma eupd_length es j f : length (eupd es j f) = length es.
Proof. revert j; induction es as [|x r IH]; intros [|j]; cbn [eupd length]; auto. Qed.

Lemma eget_eupd_other es j f i : i <> j -> eget (eupd es j f) i = eget es i.
Proof.
  unfold eget. revert j i; induction es as [|x r IH]; intros [|j] [|i] H; cbn [eupd nth]; auto; try congruence.
Qed.

Lemma eget_eupd_same es j f : (j < length es)%nat -> eget (eupd es j f) j = f (eget es j).
Proof.
  unfold eget. revert j; induction es as [|x r IH]; intros [|j] H; cbn [eupd nth length] in *; try lia; auto.
  apply IH. lia.
Qed.

Lemma eget_out es i : (length es <= i)%nat -> eget es i = e0.
Proof. intros H. unfold eget. apply nth_overflow. exact H. Qed.

Lemma eget_eupd_out es j f i : (length es <= j)%nat -> eget (eupd es j f) i = eget es i.
Proof.
  unfold eget. revert j i; induction es as [|x r IH]; intros [|j] [|i] H; cbn [eupd nth length] in *; auto; try lia.
  apply IH. lia.
Qed.

Lemma eget_app_old es x i : (i < length es)%nat -> eget (es ++ [x]) i = eget es i.
Proof. intros H. unfold eget. apply app_nth1. exact H. Qed.
Lemma eget_app_new es x : eget (es ++ [x]) (length es) = x.
Proof. unfold eget. rewrite app_nth2 by lia. rewrite Nat.sub_diag. reflexivity. Qed.
Lemma eget_app_out es x i : (length es < i)%nat -> eget (es ++ [x]) i = e0.
Proof. intros H. apply eget_out. rewrite app_length. cbn [length]. lia. Qed.

(* ---------------------------------------------------------------- page map *)
Lemma mget_mrem_same k m : mget k (mrem k m) = None.
Proof.
  induction m as [|[k' e] r IH]; cbn [mrem mget]; auto.
  destruct (k' =? k) eqn:E; auto. cbn [mget]. rewrite E. exact IH.
Qed.
Lemma mget_mrem_other k k' m : k' <> k -> mget k' (mrem k m) = mget k' m.
Proof.
  intros H. induction m as [|[k2 e] r IH]; cbn [mrem mget]; auto.
  destruct (k2 =? k) eqn:E.
  - apply Z.eqb_eq in E. subst k2. destruct (k =? k') eqn:E2; [apply Z.eqb_eq in E2; congruence | exact IH].
  - cbn [mget]. rewrite IH. reflexivity.
Qed.
Lemma mget_none_nil m : (forall k, mget k m = None) -> m = [].
Proof.
  destruct m as [|[k e] r]; auto. intros H. specialize (H k). cbn [mget] in H. rewrite Z.eqb_refl in H. discriminate.
Qed.

(* ---------------------------------------------------------------- guard lists *)
Definition gcount (P : guard -> bool) (gs : list guard) : nat := length (filter P gs).

Lemma gcount_app P l g : gcount P (l ++ [g]) = (gcount P l + b2n (P g))%nat.
Proof. unfold gcount. rewrite filter_app, app_length. cbn [filter]. destruct (P g); cbn [length b2n]; lia. Qed.

Lemma gcount_remove_nth P l i g : nth_error l i = Some g ->
  gcount P l = (gcount P (remove_nth i l) + b2n (P g))%nat.
Proof.
  unfold gcount. revert i; induction l as [|x r IH]; intros [|i] H; cbn [nth_error] in H; try discriminate.
  - inversion H; subst. cbn [remove_nth filter]. destruct (P g); cbn [length b2n]; lia.
  - cbn [remove_nth filter]. specialize (IH _ H). destruct (P x); cbn [length]; lia.
Qed.

Lemma gcount_le P Q l : (forall g, In g l -> P g = true -> Q g = true) -> (gcount P l <= gcount Q l)%nat.
Proof.
  unfold gcount. induction l as [|x r IH]; intros H; cbn [filter length]; auto.
  assert (Hr : forall g, In g r -> P g = true -> Q g = true) by (intros; apply H; [right|]; auto).
  specialize (IH Hr). destruct (P x) eqn:EP.
  - rewrite (H x (or_introl eq_refl) EP). cbn [length]. lia.
  - destruct (Q x); cbn [length]; lia.
Qed.

Lemma gcount_zero P l : (forall g, In g l -> P g = false) -> gcount P l = 0%nat.
Proof.
  unfold gcount. induction l as [|x r IH]; intros H; cbn [filter length]; auto.
  rewrite (H x (or_introl eq_refl)). apply IH. intros; apply H; right; auto.
Qed.

Lemma gcount_pos_In P l : (0 < gcount P l)%nat -> exists g, In g l /\ P g = true.
Proof.
  unfold gcount. induction l as [|x r IH]; cbn [filter length]; [lia|].
  destruct (P x) eqn:E; intros H.
  - exists x; split; [left|]; auto.
  - destruct (IH H) as [g [Hi Hp]]. exists g; split; [right|]; auto.
Qed.

Lemma In_gcount_pos P l g : In g l -> P g = true -> (0 < gcount P l)%nat.
Proof.
  unfold gcount. induction l as [|x r IH]; intros Hi Hp; [destruct Hi|].
  cbn [filter]. destruct Hi as [->|Hi].
  - rewrite Hp. cbn [length]. lia.
  - specialize (IH Hi Hp). destruct (P x); cbn [length]; lia.
Qed.

Lemma In_remove_nth {A} (l : list A) i x : In x (remove_nth i l) -> In x l.
Proof.
  revert i; induction l as [|y r IH]; intros [|i] H; cbn [remove_nth] in H; auto.
  - right; auto.
  - destruct H as [->|H]; [left; auto | right; eauto].
Qed.

(* ---------------------------------------------------------------- thread table *)
Lemma lget_In {L} (l : list (nat * L)) t v : lget l t = Some v -> In (t, v) l.
Proof.
  induction l as [|[k w] r IH]; cbn [lget]; [discriminate|].
  destruct (Nat.eqb k t) eqn:E; intros H.
  - apply Nat.eqb_eq in E. inversion H; subst. left; auto.
  - right; auto.
Qed.

Lemma In_lset {L} (l : list (nat * L)) t v u x : In (u, x) (lset l t v) -> (u, x) = (t, v) \/ In (u, x) l.
Proof.
  induction l as [|[k w] r IH]; cbn [lset].
  - intros [H|[]]; left; auto.
  - destruct (Nat.eqb k t) eqn:E.
    + apply Nat.eqb_eq in E. subst k. intros [H|H]; [left; auto | right; right; auto].
    + intros [H|H]; [right; left; auto|]. destruct (IH H); [left|right; right]; auto.
Qed.

Lemma lset_fst {L} (l : list (nat * L)) t v w : lget l t = Some w -> map fst (lset l t v) = map fst l.
Proof.
  induction l as [|[k x] r IH]; cbn [lget lset]; [discriminate|].
  destruct (Nat.eqb k t) eqn:E; intros H; cbn [map fst]; auto. rewrite IH; auto.
Qed.

Lemma NoDup_In_lget {L} (l : list (nat * L)) t v : NoDup (map fst l) -> In (t, v) l -> lget l t = Some v.
Proof.
  induction l as [|[k x] r IH]; intros Hn Hi; [destruct Hi|].
  cbn [map fst] in Hn. inversion Hn as [|? ? Hnot Hn']; subst. cbn [lget]. destruct Hi as [Hi|Hi].
  - inversion Hi; subst. rewrite Nat.eqb_refl. reflexivity.
  - destruct (Nat.eqb k t) eqn:E; [|auto].
    apply Nat.eqb_eq in E. subst k. exfalso. apply Hnot. change t with (fst (t, v)). apply in_map. exact Hi.
Qed.

Lemma tsum_lset f l t v w : lget l t = Some w ->
  (tsum f (lset l t v) + f w = tsum f l + f v)%nat.
Proof.
  induction l as [|[k x] r IH]; cbn [lget lset]; [discriminate|].
  destruct (Nat.eqb k t) eqn:E; intros H; cbn [tsum].
  - inversion H; subst. lia.
  - specialize (IH H). lia.
Qed.

Lemma tsum_In_le f l t v : In (t, v) l -> (f v <= tsum f l)%nat.
Proof.
  induction l as [|[k x] r IH]; intros H; [destruct H|]. cbn [tsum]. destruct H as [H|H].
  - inversion H; subst. lia.
  - specialize (IH H). lia.
Qed.

Lemma tsum_le f g l : (forall t v, In (t, v) l -> (f v <= g v)%nat) -> (tsum f l <= tsum g l)%nat.
Proof.
  induction l as [|[k x] r IH]; intros H; cbn [tsum]; auto.
  assert (H1 := H k x (or_introl eq_refl)).
  assert (H2 : (tsum f r <= tsum g r)%nat) by (apply IH; intros; eapply H; right; eauto). lia.
Qed.

Lemma tsum_zero f l : (forall t v, In (t, v) l -> f v = 0%nat) -> tsum f l = 0%nat.
Proof.
  induction l as [|[k x] r IH]; intros H; cbn [tsum]; auto.
  rewrite (H k x (or_introl eq_refl)). rewrite IH; auto. intros; eapply H; right; eauto.
Qed.

Lemma tsum_pos_In f l : (0 < tsum f l)%nat -> exists t v, In (t, v) l /\ (0 < f v)%nat.
Proof.
  induction l as [|[k x] r IH]; cbn [tsum]; [lia|]. intros H.
  destruct (Nat.eq_dec (f x) 0) as [E|E].
  - destruct IH as [t [v [Hi Hp]]]; [lia|]. exists t, v; split; [right|]; auto.
  - exists k, x; split; [left; auto | lia].
Qed.

(* ---------------------------------------------------------------- ownership counts *)
Definition on (o : option nat) (i : nat) : nat :=
  match o with Some e => if Nat.eqb e i then 1%nat else 0%nat | None => 0%nat end.

(* WRITER_BIT set by this thread (held, or waiting for the readers to drain) *)
Definition pc_w (p : pc) : option nat :=
  match p with PProbe true _ e | PWaitR _ e _ | PLocked true _ e _ => Some e | _ => None end.
(* write lock really held *)
Definition pc_wh (p : pc) : option nat :=
  match p with PProbe true _ e | PLocked true _ e _ => Some e | _ => None end.
Definition pc_r (p : pc) : option nat :=
  match p with PProbe false _ e | PLocked false _ e _ => Some e | _ => None end.
(* counted in ref_count *)
Definition pc_ref (p : pc) : option nat :=
  match p with
  | PGot _ _ e | PProbe _ _ e | PLock _ _ e _ | PWaitR _ e _ | PLocked _ _ e _ | PUnl _ e => Some e
  | _ => None
  end.

Definition gw (i : nat) (g : guard) : bool := g_w g && Nat.eqb (g_e g) i.
Definition gr (i : nat) (g : guard) : bool := negb (g_w g) && Nat.eqb (g_e g) i.
Definition gref (i : nat) (g : guard) : bool := Nat.eqb (g_e g) i.

Definition th_w (i : nat) (th : thread) : nat := (on (pc_w (th_pc th)) i + gcount (gw i) (th_pg th))%nat.
Definition th_wh (i : nat) (th : thread) : nat := (on (pc_wh (th_pc th)) i + gcount (gw i) (th_pg th))%nat.
Definition th_r (i : nat) (th : thread) : nat := (on (pc_r (th_pc th)) i + gcount (gr i) (th_pg th))%nat.
Definition th_ref (i : nat) (th : thread) : nat := (on (pc_ref (th_pc th)) i + gcount (gref i) (th_pg th))%nat.

Lemma th_wh_le_w i th : (th_wh i th <= th_w i th)%nat.
Proof.
  unfold th_wh, th_w. destruct (th_pc th) as [| | | [|] | | | [|] | |]; cbn [pc_wh pc_w on]; lia.
Qed.

Lemma gw_le_ref i g : gw i g = true -> gref i g = true.
Proof. unfold gw, gref. intros H. apply andb_prop in H. tauto. Qed.
Lemma gr_le_ref i g : gr i g = true -> gref i g = true.
Proof. unfold gr, gref. intros H. apply andb_prop in H. tauto. Qed.
