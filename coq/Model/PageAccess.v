(* C23 model, part 2: the read-side accessors of B-tree and HNSW pages on ARBITRARY page bytes:
     src/btree/leaf.rs      LeafNode::{from_page, cell_count, slot_at, key_at, value_at, value_len_at}
     src/btree/interior.rs  InteriorNode::{from_page, slot_at, key_at, find_child}
     src/hnsw/storage.rs    HnswPageRef::{from_bytes, slot_count, free_space, get_slot, read_node_data},
                            SlotEntry::decode
   Hand-transcribed with the checks the code ACTUALLY makes, as of /repo commits c8c46cc (from_page ->
   check_slot_geometry), 7292838 (value_at compares the u64 length with the room left) and 4d4f2e6
   (HNSW get_slot / read_node_data use checked `get`) and 672ee79 (14-bit slot offsets):
     * slot_at (leaf, interior) still compares the index only with the stored u16 count and then slices
       `&self.data[offset..offset + SLOT]` unchecked - it is from_page that now rejects a page whose
       announced slot array does not fit (slots_end <= free_start <= free_end <= PAGE_SIZE);
     * HnswPageRef::from_bytes has no such check; its readers use `slice::get`.
   Before those commits the accessors panicked on corrupted counts / lengths (findings F-C23-1..5, fixed;
   their witnesses are re-run on every check).
   The slot geometry (LEAF_CONTENT_START, SLOT_SIZE, INTERIOR_SLOT_SIZE, HNSW_PAGE_HEADER_SIZE,
   HNSW_SLOT_SIZE and the three slot_offset functions) and decode_varint are regenerated from the
   source (Gen/LeafLayout.v, Gen/InteriorLayout.v, Gen/HnswLayout.v, Gen/Varint.v).
   prefix_of / lex_cmp ([u8] ordering, extract_prefix) are those of the C30 model.
   Definitions only, no proofs. *)
From Coq Require Import ZArith List Bool.
From TV Require Import Lib.MachInt Gen.PageConsts Gen.LeafLayout Gen.InteriorLayout Gen.HnswLayout Gen.Varint.
From TV Require Model.LeafSearch.
From TV Require Import Model.StoredBytes.
Import ListNotations.
Open Scope Z_scope.

Definition prefix_of := LeafSearch.prefix_of.
Definition lex_cmp := LeafSearch.lex_cmp.

(* ================================================================== leaf pages *)
(* HnswPageRef::from_bytes: ensure!(len == PAGE_SIZE); PageHeader::from_bytes(data)?; ensure!(type == want) *)
Definition node_from_page (want : Z) (d : list Z) : res unit :=
  if blen d =? PAGE_SIZE then
    if blen d <? PH_SIZE then Err
    else if ptype (bidx d 0) =? want then Ok tt else Err
  else Err.

(* leaf.rs check_slot_geometry(header, content_start, slot_size):
   slots_end = content_start + cell_count * slot_size; ensure!(slots_end <= free_start <= free_end <= PAGE_SIZE) *)
Definition slot_geometry_ok (d : list Z) (content_start slot_size : Z) : bool :=
  let slots_end := content_start + le d 2 2 * slot_size in
  let fs := le d 4 2 in
  let fe := le d 6 2 in
  (slots_end <=? fs) && (fs <=? fe) && (fe <=? PAGE_SIZE).

(* LeafNode / InteriorNode::from_page: the three checks above, then check_slot_geometry(..)? *)
Definition btree_from_page (want content_start slot_size : Z) (d : list Z) : res unit :=
  _ <- node_from_page want d ;;
  if slot_geometry_ok d content_start slot_size then Ok tt else Err.
Definition leaf_from_page := btree_from_page PT_LEAF LEAF_CONTENT_START SLOT_SIZE.

(* a leaf slot: (prefix bytes, cell offset, key length) *)
Definition leaf_slot_at (d : list Z) (index : Z) : res (list Z * Z * Z) :=
  cc <- cell_count d ;;
  if index <? cc then
    if leaf_slot_offset_safe index then
      let off := leaf_slot_offset index in
      s <- sub d off (off + SLOT_SIZE) ;;
      Ok (bslice s 0 4, le s 4 2, le s 6 2)
    else Panic
  else Err.

Definition leaf_key_at (d : list Z) (index : Z) : res (list Z) :=
  s <- leaf_slot_at d index ;;
  let '(_, co, kl) := s in
  if co + kl <=? PAGE_SIZE then sub d co (co + kl) else Err.

(* decode_varint(&self.data[value_start..])? : (value_len, varint_size) *)
Definition varint_at (d : list Z) (start : Z) : res (Z * Z) :=
  t <- from d start ;;
  if decode_varint_safe t then
    match decode_varint t with Some vn => Ok vn | None => Err end
  else Panic.

Definition leaf_value_at (d : list Z) (index : Z) : res (list Z) :=
  s <- leaf_slot_at d index ;;
  let '(_, co, kl) := s in
  let vs := co + kl in
  if vs <? PAGE_SIZE then
    vn <- varint_at d vs ;;
    let '(vlen, n) := vn in
    let vds := vs + n in
    if PAGE_SIZE <? vds then Panic                     (* PAGE_SIZE - value_data_start: usize subtraction *)
    else if vlen <=? PAGE_SIZE - vds then sub d vds (vds + vlen) else Err
  else Err.

Definition leaf_value_len_at (d : list Z) (index : Z) : res Z :=
  s <- leaf_slot_at d index ;;
  let '(_, co, kl) := s in
  let vs := co + kl in
  if vs <? PAGE_SIZE then vn <- varint_at d vs ;; Ok (fst vn) else Err.

(* ================================================================== interior pages *)
Definition interior_from_page := btree_from_page PT_INTERIOR INTERIOR_CONTENT_START INTERIOR_SLOT_SIZE.

(* an interior slot: (prefix bytes, child page, cell offset, key length) *)
Definition interior_slot_at (d : list Z) (index : Z) : res (list Z * Z * Z * Z) :=
  cc <- cell_count d ;;
  if index <? cc then
    if interior_slot_offset_safe index then
      let off := interior_slot_offset index in
      s <- sub d off (off + INTERIOR_SLOT_SIZE) ;;
      Ok (bslice s 0 4, le s 4 4, le s 8 2, le s 10 2)
    else Panic
  else Err.

Definition interior_key_at (d : list Z) (index : Z) : res (list Z) :=
  s <- interior_slot_at d index ;;
  let '(_, _, co, kl) := s in
  if co + kl <=? PAGE_SIZE then sub d co (co + kl) else Err.

(* the binary search of find_child: `while left < right` *)
Fixpoint find_child_loop (fuel : nat) (d key : list Z) (kp left right : Z) : res Z :=
  match fuel with
  | O => Fuel
  | S f =>
      if left <? right then
        let mid := left + (right - left) / 2 in
        s <- interior_slot_at d mid ;;
        let '(p, _, _, _) := s in
        let sp := from_be p in
        if kp <? sp then find_child_loop f d key kp left mid
        else if sp <? kp then find_child_loop f d key kp (mid + 1) right
        else
          sep <- interior_key_at d mid ;;
          match lex_cmp key sep with
          | Lt => find_child_loop f d key kp left mid
          | _ => find_child_loop f d key kp (mid + 1) right
          end
      else Ok left
  end.

(* find_child: (child page, Some slot index | None); the index is reported as -1 for None *)
Definition find_child_fuel (fuel : nat) (d key : list Z) : res (Z * Z) :=
  count <- cell_count d ;;
  if count =? 0 then rc <- right_child d ;; Ok (rc, -1)
  else
    left <- find_child_loop fuel d key (prefix_of key) 0 count ;;
    if left <? count then
      s <- interior_slot_at d left ;;
      let '(_, child, _, _) := s in Ok (child, left)
    else rc <- right_child d ;; Ok (rc, -1).
(* 17 rounds halve any window below 2^16 slots to nothing *)
Definition find_child (d key : list Z) : res (Z * Z) := find_child_fuel 17 d key.

(* ================================================================== HNSW node pages *)
Definition HNSW_HDR_SIZE : Z := 52.            (* size_of::<HnswPageHeader>() *)
Definition hnsw_from_bytes := node_from_page PT_HNSW_NODE.

(* hnsw_header(): ref_from_bytes(&self.data[16..16 + 52]).unwrap() *)
Definition hnsw_hdr (d : list Z) : res (list Z) := sub d PH_SIZE (PH_SIZE + HNSW_HDR_SIZE).
Definition hnsw_slot_count (d : list Z) : res Z := h <- hnsw_hdr d ;; Ok (le h 0 2).
(* free_end.saturating_sub(free_start) *)
Definition hnsw_free_space (d : list Z) : res Z := h <- hnsw_hdr d ;; Ok (Z.max 0 (le h 4 2 - le h 2 2)).

(* SlotEntry::decode: (offset, status 0 Free / 1 Active / 2 Deleted, size).  Since 672ee79 the offset has 14 bits:
   bits 0-12 of the first u16 and its bit 15; bits 13-14 are the status *)
Definition slot_decode (b : list Z) : Z * Z * Z :=
  let os := le b 0 2 in
  (os mod 8192 + (os / 32768) * 8192, code012 ((os / 8192) mod 4), le b 2 2).

(* get_slot(slot_index: u16) -> Option<SlotEntry> *)
Definition hnsw_get_slot (d : list Z) (si : Z) : res (option (Z * Z * Z)) :=
  sc <- hnsw_slot_count d ;;
  if si >=? sc then Ok None
  else
    if hnsw_slot_offset_safe si then
      let off := hnsw_slot_offset si in
      (* self.data.get(offset..offset + HNSW_SLOT_SIZE)? : None when the range is not inside the page *)
      if bslice_ok d off (off + HNSW_SLOT_SIZE) then Ok (Some (slot_decode (bslice d off (off + HNSW_SLOT_SIZE))))
      else Ok None
    else Panic.

Definition hnsw_read_node_data (d : list Z) (si : Z) : res (list Z) :=
  o <- hnsw_get_slot d si ;;
  match o with
  | None => Err
  | Some (off, st, sz) =>
      (* self.data.get(offset..offset + size).ok_or_else(..) *)
      if st =? 1 then (if bslice_ok d off (off + sz) then Ok (bslice d off (off + sz)) else Err) else Err
  end.

(* ================================================================== the former finding classes *)
(* The inputs on which slot_at / key_at / value_len_at take their Panic branch (kept for the historical
   lemmas of Proof/PageAccess*.v): the slot announced by the stored cell_count lies beyond the page.
   Since c8c46cc no page accepted by from_page has such a slot. *)
Definition leaf_slot_oob (d : list Z) (i : Z) : bool :=
  match cell_count d with
  | Ok cc => (i <? cc) && (PAGE_SIZE <? leaf_slot_offset i + SLOT_SIZE)
  | _ => false
  end.
Definition interior_slot_oob (d : list Z) (i : Z) : bool :=
  match cell_count d with
  | Ok cc => (i <? cc) && (PAGE_SIZE <? interior_slot_offset i + INTERIOR_SLOT_SIZE)
  | _ => false
  end.

(* ================================================================== sufficient conditions *)
(* the whole slot array announced by the page header lies inside the page *)
Definition leaf_slots_fit (d : list Z) : bool :=
  match cell_count d with Ok cc => leaf_slot_offset cc <=? PAGE_SIZE | _ => false end.
Definition interior_slots_fit (d : list Z) : bool :=
  match cell_count d with Ok cc => interior_slot_offset cc <=? PAGE_SIZE | _ => false end.
Definition hnsw_slots_fit (d : list Z) : bool :=
  match hnsw_slot_count d with Ok sc => hnsw_slot_offset sc <=? PAGE_SIZE | _ => false end.
