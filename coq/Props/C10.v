(* C10 - Indexes never change query results.  Property theorems only.
   Model of the index machinery: Model/IndexTwin.v (ordered list of (key bytes, row id), prefix
   scan, maintenance by INSERT / DELETE / UPDATE / CREATE INDEX as coded); key encoding: C26
   (Model/Key.v `enc`, Proof/KeyProps.v). *)
From Coq Require Import ZArith List Bool.
From TV Require Import Lib.MachInt Model.SqlSpec Model.ConstrSpec Model.ConstrImpl Model.KeySpec Model.Key
                       Model.IndexTwin Proof.IndexScan.
Import ListNotations.
Open Scope Z_scope.

(* the cursor walk of a point query (seek to the prefix, take entries while the key starts with
   it) over an ordered index returns exactly the entries whose key starts with the prefix *)
Theorem scan_prefix_is_filter :
  forall p ix, sorted ix -> scan_prefix p ix = filter (fun x => starts_with p (fst x)) ix.
Proof. exact scan_prefix_is_filter_l. Qed.

(* bounds of `column = c`: a key encode(v) ++ anything starts with encode(c) iff v = c (all i64;
   uses C26's prefix-freeness of the encoding) *)
Theorem eq_prefix_correct :
  forall v c r, in_s 64 v = true -> in_s 64 c = true ->
    starts_with (kenc (VInt c)) (kenc (VInt v) ++ r) = (v =? c).
Proof. exact eq_prefix_correct_l. Qed.

(* an index that is exact for the rows (ordered; one entry encode(x1) ++ row id per row) answers
   the point query x1 = c with precisely the row ids of the rows whose x1 is c *)
Theorem exact_index_point_query :
  forall ix es c, exact1 ix es -> rows_wf es -> in_s 64 c = true ->
    forall k, In k (flat_map (fun e => match key_rid (fst e) with Some k => [k] | None => [] end)
                             (scan_prefix (kenc (VInt c)) ix))
              <-> exists e, In e es /\ e_id e = k /\ col_val 1 (e_row e) = VInt c.
Proof. exact exact_index_point_query_l. Qed.

(* INSERT's index maintenance (key with row-id suffix, insertion in key order) keeps an exact
   index exact, for every row and every fresh row id *)
Theorem insert_keeps_exact :
  forall ix es r rid, exact1 ix es -> rows_wf es -> 0 <= rid < 2 ^ 64 ->
    (forall e, In e es -> e_id e <> rid) ->
    (col_val 1 r = VNull \/ exists z, col_val 1 r = VInt z /\ in_s 64 z = true) ->
    exact1 (ins_six r rid 0 ix) (es ++ [mkEnt rid false r]).
Proof. exact insert_keeps_exact_l. Qed.

(* the residual filter (class 3) and CREATE INDEX over tombstones (class 1) as coded break the
   property: histories as the model -- and the real database -- answer them *)
Theorem index_refuted :
  (let h := [TCreate 0; TIns [VInt 1; VInt 5; VInt 1]] in
   let q := EAnd q15 (ECmp CGt (ECol 1) (ELit (VInt 7))) in
   query_a (run_a h) q = [[VInt 1; VInt 5; VInt 1]] /\ query_b (run_b h) q = [] /\ q_class (run_a h) q = 3) /\
  (let h := [TIns [VInt 1; VInt 5; VInt 1]; TDel (Some (ECmp CEq (ECol 0) (ELit (VInt 1)))); TCreate 0] in
   query_a (run_a h) q15 = [[VInt 1; VInt 5; VInt 1]] /\ query_b (run_b h) q15 = [] /\ q_class (run_a h) q15 = 1).
Proof. split; [exact index_refuted_residual|exact index_refuted_backfill_tomb]. Qed.

(* the former witnesses of DELETE (653471d), UPDATE of an indexed column (f7aa3d3) and the CREATE
   INDEX back-fill of rows with NULLs (772f5ce) on the repaired model: both tables answer alike *)
Theorem former_classes_repaired :
  (let h := [TCreate 0; TIns [VInt 1; VInt 5; VInt 1]; TDel (Some (ECmp CEq (ECol 0) (ELit (VInt 1))))] in
   query_a (run_a h) q15 = [] /\ query_b (run_b h) q15 = [] /\ q_class (run_a h) q15 = 0) /\
  (let h := [TCreate 0; TIns [VInt 1; VInt 5; VInt 1];
             TUpd [(1%nat, VInt 6)] (Some (ECmp CEq (ECol 2) (ELit (VInt 1))))] in
   query_a (run_a h) q15 = [] /\ query_b (run_b h) q15 = [] /\ q_class (run_a h) q15 = 0 /\
   query_a (run_a h) (ECmp CEq (ECol 1) (ELit (VInt 6))) = [[VInt 1; VInt 6; VInt 1]] /\
   query_b (run_b h) (ECmp CEq (ECol 1) (ELit (VInt 6))) = [[VInt 1; VInt 6; VInt 1]]) /\
  (let h := [TIns [VInt 1; VNull; VInt 2]; TCreate 1] in
   let q := ECmp CEq (ECol 2) (ELit (VInt 2)) in
   query_a (run_a h) q = [[VInt 1; VNull; VInt 2]] /\ query_b (run_b h) q = [[VInt 1; VNull; VInt 2]] /\ q_class (run_a h) q = 0).
Proof.
  split; [exact index_repaired_delete|]. split; [exact (proj1 index_repaired_update)|exact index_repaired_backfill].
Qed.

(* non-vacuity: a real exact index, a real query *)
Example c10_witness :
  let es := [mkEnt 1 false [VInt 1; VInt 5; VInt 1]; mkEnt 2 false [VInt 2; VNull; VInt 0]; mkEnt 3 false [VInt 3; VInt 5; VNull]] in
  let ix := backfill 0 [] in
  let ix3 := ins_six [VInt 3; VInt 5; VNull] 3 0 (ins_six [VInt 2; VNull; VInt 0] 2 0 (ins_six [VInt 1; VInt 5; VInt 1] 1 0 ix)) in
  map snd (scan_prefix (kenc (VInt 5)) ix3) = [1; 3] /\ length ix3 = 3%nat.
Proof. vm_compute. split; reflexivity. Qed.

Check scan_prefix_is_filter : forall p ix, sorted ix -> scan_prefix p ix = filter (fun x => starts_with p (fst x)) ix.
Check eq_prefix_correct : forall v c r, in_s 64 v = true -> in_s 64 c = true -> starts_with (kenc (VInt c)) (kenc (VInt v) ++ r) = (v =? c).
Check exact_index_point_query : forall ix es c, exact1 ix es -> rows_wf es -> in_s 64 c = true -> forall k, In k (flat_map (fun e => match key_rid (fst e) with Some k => [k] | None => [] end) (scan_prefix (kenc (VInt c)) ix)) <-> exists e, In e es /\ e_id e = k /\ col_val 1 (e_row e) = VInt c.
Check insert_keeps_exact : forall ix es r rid, exact1 ix es -> rows_wf es -> 0 <= rid < 2 ^ 64 -> (forall e, In e es -> e_id e <> rid) -> (col_val 1 r = VNull \/ exists z, col_val 1 r = VInt z /\ in_s 64 z = true) -> exact1 (ins_six r rid 0 ix) (es ++ [mkEnt rid false r]).
Check index_refuted : (let h := [TCreate 0; TIns [VInt 1; VInt 5; VInt 1]] in let q := EAnd q15 (ECmp CGt (ECol 1) (ELit (VInt 7))) in query_a (run_a h) q = [[VInt 1; VInt 5; VInt 1]] /\ query_b (run_b h) q = [] /\ q_class (run_a h) q = 3) /\ (let h := [TIns [VInt 1; VInt 5; VInt 1]; TDel (Some (ECmp CEq (ECol 0) (ELit (VInt 1)))); TCreate 0] in query_a (run_a h) q15 = [[VInt 1; VInt 5; VInt 1]] /\ query_b (run_b h) q15 = [] /\ q_class (run_a h) q15 = 1).
Check former_classes_repaired : (let h := [TCreate 0; TIns [VInt 1; VInt 5; VInt 1]; TDel (Some (ECmp CEq (ECol 0) (ELit (VInt 1))))] in query_a (run_a h) q15 = [] /\ query_b (run_b h) q15 = [] /\ q_class (run_a h) q15 = 0) /\ (let h := [TCreate 0; TIns [VInt 1; VInt 5; VInt 1]; TUpd [(1%nat, VInt 6)] (Some (ECmp CEq (ECol 2) (ELit (VInt 1))))] in query_a (run_a h) q15 = [] /\ query_b (run_b h) q15 = [] /\ q_class (run_a h) q15 = 0 /\ query_a (run_a h) (ECmp CEq (ECol 1) (ELit (VInt 6))) = [[VInt 1; VInt 6; VInt 1]] /\ query_b (run_b h) (ECmp CEq (ECol 1) (ELit (VInt 6))) = [[VInt 1; VInt 6; VInt 1]]) /\ (let h := [TIns [VInt 1; VNull; VInt 2]; TCreate 1] in let q := ECmp CEq (ECol 2) (ELit (VInt 2)) in query_a (run_a h) q = [[VInt 1; VNull; VInt 2]] /\ query_b (run_b h) q = [[VInt 1; VNull; VInt 2]] /\ q_class (run_a h) q = 0).
Print Assumptions scan_prefix_is_filter.
Print Assumptions eq_prefix_correct.
Print Assumptions exact_index_point_query.
Print Assumptions insert_keeps_exact.
Print Assumptions index_refuted.
Print Assumptions former_classes_repaired.
