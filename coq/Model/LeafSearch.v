(* C30 model: key search in a B-tree leaf page, src/btree/simd_scan.rs (find_key_simd,
   simd_prefix_search_avx2, simd_prefix_search_scalar) and extract_prefix of src/btree/leaf.rs.
   Hand-written (while loops, AVX2 intrinsics and slice patterns are outside the rs2v subset).
   Definitions only, no proofs.

   Abstraction.  A leaf page is the list of its keys in slot order; slot i carries the 4-byte
   prefix hint `extract_prefix(key_i)` (what Slot::new writes) and points at key_i.  The byte
   layout of the page (slot offsets, cell offsets, the two `> PAGE_SIZE` guards that cannot fire
   while the slot array lies inside the page) is not modelled; the correspondence run uses real
   pages built by LeafNodeMut.
   The 8 lanes of the AVX2 comparison are a list of 8 booleans (movemask gives 4 identical bits
   per lane, so `trailing_ones / 4` = number of leading true lanes etc.); the comparison itself is
   modelled as the code does it: signed `cmpgt` after flipping the sign bit of both sides.
   The model follows the code as it is since commit 6f8c0a4 (fix of the AVX2 narrowing, findings
   F-C30-1/2).  The loop as it was before that commit is kept at the end of this file under the name
   avx2_loop_prefix_bug, together with the decidable class of inputs on which it was wrong. *)
From Coq Require Import ZArith List Bool.
From TV Require Import Lib.MachInt.
Import ListNotations.
Open Scope Z_scope.

(* ---------------------------------------------------------------- outcomes *)
Inductive res (A : Type) : Type :=
| Done (a : A)
| Panic            (* usize underflow in the dev profile / a read outside the slot array *)
| OutOfFuel.
Arguments Done {A} a.
Arguments Panic {A}.
Arguments OutOfFuel {A}.

Inductive sres := Found (i : Z) | NotFound (i : Z).

(* ---------------------------------------------------------------- keys and prefixes *)
(* extract_prefix: first min(len,4) bytes, zero padded to 4 *)
Definition pad4 (k : list Z) : list Z := firstn 4 (k ++ [0; 0; 0; 0]).
(* u32::from_be_bytes(extract_prefix(key)) *)
Definition prefix_of (k : list Z) : Z := from_be (pad4 k).

(* <[u8] as Ord>::cmp : lexicographic, a proper prefix is smaller *)
Fixpoint lex_cmp (a b : list Z) : comparison :=
  match a, b with
  | [], [] => Eq
  | [], _ :: _ => Lt
  | _ :: _, [] => Gt
  | x :: a', y :: b' => match x ?= y with Eq => lex_cmp a' b' | c => c end
  end.

Definition klen {A} (l : list A) : Z := Z.of_nat (length l).

(* the slot array read at index i (usize): None = outside 0..cell_count *)
Definition zth {A} (l : list A) (i : Z) : option A :=
  if i <? 0 then None else nth_error l (Z.to_nat i).

(* well-formed page: keys strictly increasing (adjacent pairs) *)
Fixpoint strict_sorted (keys : list (list Z)) : bool :=
  match keys with
  | [] => true
  | a :: t => match t with
              | [] => true
              | b :: _ => match lex_cmp a b with Lt => strict_sorted t | _ => false end
              end
  end.
Definition keys_ok (keys : list (list Z)) : bool := forallb bytes_ok keys.

(* ---------------------------------------------------------------- the property's reference search *)
(* characterisation: scan for the first key >= k *)
Fixpoint lin_from (i : Z) (keys : list (list Z)) (k : list Z) : sres :=
  match keys with
  | [] => NotFound i
  | x :: t => match lex_cmp x k with
              | Lt => lin_from (i + 1) t k
              | Eq => Found i
              | Gt => NotFound i
              end
  end.
Definition lin_search (keys : list (list Z)) (k : list Z) : sres := lin_from 0 keys k.

(* plain binary search over the full keys (the oracle named by the property) *)
Fixpoint bsearch_loop (fuel : nat) (keys : list (list Z)) (k : list Z) (left right : Z) : res sres :=
  match fuel with
  | O => OutOfFuel
  | S f =>
      if left <? right then
        let mid := left + (right - left) / 2 in
        match zth keys mid with
        | None => Panic
        | Some x => match lex_cmp x k with
                    | Eq => Done (Found mid)
                    | Lt => bsearch_loop f keys k (mid + 1) right
                    | Gt => bsearch_loop f keys k left mid
                    end
        end
      else Done (NotFound left)
  end.
Definition bsearch (keys : list (list Z)) (k : list Z) : res sres :=
  bsearch_loop (S (length keys)) keys k 0 (klen keys).

(* ---------------------------------------------------------------- AVX2 lanes *)
(* x ^ 0x80000000 on a 32-bit lane, then read as i32 *)
(* constants written out: 2^31 = 2147483648, 2^32 = 4294967296.  as_i32 reads a 32-bit pattern
   (a value in [0, 2^32)) as i32; on that range it is MachInt.wrap_s 32 (lemma as_i32_wrap_s). *)
Definition xor_sign (x : Z) : Z := Z.lxor x 2147483648.
Definition as_i32 (x : Z) : Z := if x <? 2147483648 then x else x - 4294967296.
(* lane of _mm256_cmpgt_epi32(target ^ sign, batch ^ sign): "slot prefix < target" *)
Definition lane_lt (t p : Z) : bool := as_i32 (xor_sign p) <? as_i32 (xor_sign t).
(* lane of _mm256_cmpeq_epi32 *)
Definition lane_eq (t p : Z) : bool := p =? t.

(* the 8 prefixes batch_start .. batch_start+7 *)
Fixpoint read_lanes (cnt : nat) (ps : list Z) (i : Z) : option (list Z) :=
  match cnt with
  | O => Some []
  | S c => match zth ps i, read_lanes c ps (i + 1) with
           | Some p, Some r => Some (p :: r)
           | _, _ => None
           end
  end.

(* mask helpers on lanes *)
Fixpoint leading_trues (l : list bool) : Z :=        (* lt_mask.trailing_ones() / 4 *)
  match l with true :: t => 1 + leading_trues t | _ => 0 end.
Fixpoint first_true (l : list bool) : Z :=           (* eq_mask.trailing_zeros() / 4, eq_mask != 0 *)
  match l with [] => 0 | true :: _ => 0 | false :: t => 1 + first_true t end.
Fixpoint last_true_from (i acc : Z) (l : list bool) : Z :=
  match l with [] => acc | b :: t => last_true_from (i + 1) (if b then i else acc) t end.
Definition last_true (l : list bool) : Z := last_true_from 0 0 l.   (* highest set lane *)
Definition all_true (l : list bool) : bool := forallb (fun b => b) l.      (* mask == 0xFFFFFFFF *)
Definition none_true (l : list bool) : bool := negb (existsb (fun b => b) l). (* mask == 0 *)

Definition sat_sub (a b : Z) : Z := Z.max 0 (a - b).

(* mid_start = left + (right - left) / 2;
   batch_start = mid_start.saturating_sub(4).min(right.saturating_sub(8)) *)
Definition batch_start (left right : Z) : Z :=
  Z.min (sat_sub (left + (right - left) / 2) 4) (sat_sub right 8).

(* ---------------------------------------------------------------- simd_prefix_search_avx2 *)
(* ps = slot prefixes, t = target prefix, n = cell_count; returns (left, right).
   The code since commit 6f8c0a4: `lt_mask == 0` narrows only when no lane equals the target
   (`lt_mask == 0 && eq_mask == 0`); the final step keeps the previous `right` (window_right) when the
   last lane still equals the target. *)
Fixpoint avx2_loop (fuel : nat) (ps : list Z) (t n left right : Z) : res (Z * Z) :=
  match fuel with
  | O => OutOfFuel
  | S f =>
      if right <? left then Panic                       (* `right - left` underflows *)
      else if right - left <? 8 then Done (left, right)
      else
        let bs := batch_start left right in
        if n <? bs + 8 then Done (left, right)          (* break *)
        else
          match read_lanes 8 ps bs with
          | None => Panic
          | Some lanes =>
              let lt := map (lane_lt t) lanes in
              let eq := map (lane_eq t) lanes in
              if all_true lt then avx2_loop f ps t n (bs + 8) right
              else if none_true lt && none_true eq then avx2_loop f ps t n left bs
              else
                let fge := leading_trues lt in
                let left1 := if 0 <? fge then bs + fge - 1 else left in
                let right1 := bs + Z.min fge 7 + 1 in
                if none_true eq then Done (left1, right1)
                else
                  let fe := first_true eq in
                  let le := last_true eq in
                  Done (Z.min left1 (bs + fe),
                        if le =? 7 then right else Z.max right1 (bs + le + 1))
          end
  end.

Definition avx2_narrow (ps : list Z) (t : Z) : res (Z * Z) :=
  let n := klen ps in
  if n =? 0 then Done (0, 0) else avx2_loop (S (length ps)) ps t n 0 n.
(* ---------------------------------------------------------------- simd_prefix_search_scalar *)
(* returns (left, right, start_eq_mask) *)
Fixpoint scalar_loop (fuel : nat) (ps : list Z) (t left right : Z) : res (Z * Z * Z) :=
  match fuel with
  | O => OutOfFuel
  | S f =>
      if right <? left then Panic
      else if right - left <? 4 then Done (left, right, 0)
      else
        let mid := left + (right - left) / 2 in
        match zth ps mid with
        | None => Panic
        | Some p =>
            match p ?= t with
            | Lt => scalar_loop f ps t (mid + 1) right
            | Gt => scalar_loop f ps t left mid
            | Eq => Done (left, right, 1)
            end
        end
  end.

Definition scalar_narrow (ps : list Z) (t : Z) : res (Z * Z * Z) :=
  let n := klen ps in
  if n =? 0 then Done (0, 0, 0) else scalar_loop (S (length ps)) ps t 0 n.

(* ---------------------------------------------------------------- final binary search of find_key_simd *)
Fixpoint final_loop (fuel : nat) (keys : list (list Z)) (k : list Z) (t left right : Z) : res sres :=
  match fuel with
  | O => OutOfFuel
  | S f =>
      if left <? right then
        let mid := left + (right - left) / 2 in
        match zth keys mid with
        | None => Panic
        | Some x =>
            match prefix_of x ?= t with
            | Lt => final_loop f keys k t (mid + 1) right
            | Gt => final_loop f keys k t left mid
            | Eq => match lex_cmp x k with
                    | Eq => Done (Found mid)
                    | Lt => final_loop f keys k t (mid + 1) right
                    | Gt => final_loop f keys k t left mid
                    end
            end
        end
      else Done (NotFound left)
  end.

Definition prefixes (keys : list (list Z)) : list Z := map prefix_of keys.

(* find_key_simd with the narrowing step as a parameter; ps = the slot prefixes of the page *)
Definition find_with_ps (narrow : list Z -> Z -> res (Z * Z)) (keys : list (list Z)) (ps : list Z)
    (k : list Z) : res sres :=
  let n := klen keys in
  if n =? 0 then Done (NotFound 0)
  else
    let t := prefix_of k in
    match narrow ps t with
    | Done (l, r) => final_loop (S (length keys)) keys k t l (Z.min r n)
    | Panic => Panic
    | OutOfFuel => OutOfFuel
    end.
Definition find_with (narrow : list Z -> Z -> res (Z * Z)) (keys : list (list Z)) (k : list Z) : res sres :=
  find_with_ps narrow keys (prefixes keys) k.

Definition scalar_narrow2 (ps : list Z) (t : Z) : res (Z * Z) :=
  match scalar_narrow ps t with
  | Done (l, r, _) => Done (l, r)
  | Panic => Panic
  | OutOfFuel => OutOfFuel
  end.

(* is_x86_feature_detected!("avx2") = true / false *)
Definition find_avx2 := find_with avx2_narrow.
Definition find_scalar := find_with scalar_narrow2.
Definition find_key (avx2 : bool) := if avx2 then find_avx2 else find_scalar.
Definition find_key_ps (avx2 : bool) :=
  if avx2 then find_with_ps avx2_narrow else find_with_ps scalar_narrow2.

(* ================================================================ HISTORICAL: the code before commit 6f8c0a4 *)
(* simd_prefix_search_avx2 as it was before the fix: `lt_mask == 0 => right = batch_start` also on batches
   containing the target prefix, and the final step always stops the window at the end of the batch.
   Kept only as documentation for the refutation lemmas (findings F-C30-1 / F-C30-2, status fixed);
   nothing in the correspondence run uses it. *)
Fixpoint avx2_loop_prefix_bug (fuel : nat) (ps : list Z) (t n left right : Z) : res (Z * Z) :=
  match fuel with
  | O => OutOfFuel
  | S f =>
      if right <? left then Panic                       (* `right - left` underflows *)
      else if right - left <? 8 then Done (left, right)
      else
        let bs := batch_start left right in
        if n <? bs + 8 then Done (left, right)          (* break *)
        else
          match read_lanes 8 ps bs with
          | None => Panic
          | Some lanes =>
              let lt := map (lane_lt t) lanes in
              let eq := map (lane_eq t) lanes in
              if all_true lt then avx2_loop_prefix_bug f ps t n (bs + 8) right
              else if none_true lt then avx2_loop_prefix_bug f ps t n left bs
              else
                let fge := leading_trues lt in
                let left1 := if 0 <? fge then bs + fge - 1 else left in
                let right1 := bs + Z.min fge 7 + 1 in
                if none_true eq then Done (left1, right1)
                else
                  let fe := first_true eq in
                  let le := last_true eq in
                  Done (Z.min left1 (bs + fe), Z.max right1 (bs + le + 1))
          end
  end.

Definition avx2_narrow_prefix_bug (ps : list Z) (t : Z) : res (Z * Z) :=
  let n := klen ps in
  if n =? 0 then Done (0, 0) else avx2_loop_prefix_bug (S (length ps)) ps t n 0 n.

Definition find_avx2_prefix_bug := find_with avx2_narrow_prefix_bug.

(* ---- the defect of the pre-fix loop, as a decidable class *)
(* Some slot whose prefix equals the probe's lies outside the window [left, min right n) returned by
   the narrowing. *)
Fixpoint eq_outside_from (i : Z) (ps : list Z) (t left right : Z) : bool :=
  match ps with
  | [] => false
  | p :: r => ((p =? t) && ((i <? left) || (right <=? i))) || eq_outside_from (i + 1) r t left right
  end.

(* did the `lt_mask == 0 => right = batch_start` step ever run on a batch whose first lane equals
   the target?  (instrumented copy of avx2_loop_prefix_bug; used only to tell the two code sites apart) *)
Fixpoint avx2_cut_eq (fuel : nat) (ps : list Z) (t n left right : Z) : bool :=
  match fuel with
  | O => false
  | S f =>
      if right <? left then false
      else if right - left <? 8 then false
      else
        let bs := batch_start left right in
        if n <? bs + 8 then false
        else
          match read_lanes 8 ps bs with
          | None => false
          | Some lanes =>
              let lt := map (lane_lt t) lanes in
              let eq := map (lane_eq t) lanes in
              if all_true lt then avx2_cut_eq f ps t n (bs + 8) right
              else if none_true lt then negb (none_true eq) || avx2_cut_eq f ps t n left bs
              else false
          end
  end.

(* 0 = not in a recorded class;
   1 = an equal-prefix slot was dropped and the `lt_mask == 0` step ran on a batch containing the target prefix;
   2 = an equal-prefix slot was dropped otherwise (the final step stops the window at the end of the batch
       although the run of equal prefixes continues). *)
Definition defect_class_ps (ps : list Z) (t : Z) : Z :=
  let n := klen ps in
  match avx2_narrow_prefix_bug ps t with
  | Done (l, r) =>
      if eq_outside_from 0 ps t l (Z.min r n) then
        (if avx2_cut_eq (S (length ps)) ps t n 0 n then 1 else 2)
      else 0
  | _ => 0
  end.
Definition defect_class (keys : list (list Z)) (k : list Z) : Z :=
  defect_class_ps (prefixes keys) (prefix_of k).

