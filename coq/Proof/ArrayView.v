(* C23 proofs, part 5: ArrayView (src/records/array.rs) on arbitrary bytes.
   ArrayView::new accepts anything of 8 bytes or more; after that
     * elem_type panics exactly on a type byte that is no DataType discriminant;
     * is_null / the fixed-width getters / get_blob / get_text neither panic nor read outside the data when
       the null bitmap, the element area (or the offset table and the announced element) lie inside the data
       (wf_bitmap / wf_fixed / wf_var, decidable) - and they do panic on small inputs that violate it. *)
From Coq Require Import ZArith List Bool Lia ZifyBool.
From TV Require Import Lib.MachInt Lib.MachIntFacts Model.Utf8 Model.StoredBytes Model.ArrayView Proof.StoredBytes.
Import ListNotations.
Open Scope Z_scope.
Ltac Zify.zify_post_hook ::= Z.to_euclidean_division_equations.
Arguments Z.div : simpl never.
Arguments Z.modulo : simpl never.
Arguments Z.mul : simpl never.
Arguments Z.add : simpl never.
Arguments Z.sub : simpl never.
Arguments Z.pow : simpl never.
Arguments Z.of_nat : simpl never.
Arguments Z.to_nat : simpl never.

Lemma array_new_total_l : forall d, value_or_error (array_new d).
Proof. intros d. unfold array_new. destruct (_ <? _); exact I. Qed.
Lemma array_new_len d u : array_new d = Ok u -> ARRAY_HEADER_SIZE <= blen d.
Proof. unfold array_new. destruct (Z.ltb_spec (blen d) ARRAY_HEADER_SIZE); [discriminate | auto]. Qed.

(* n unchecked byte reads: inside the data they succeed with a non-negative value *)
Lemma le_at_ok d : bytes_ok d = true -> forall n p, 0 <= p -> p + Z.of_nat n <= blen d ->
  exists v, le_at d p n = Ok v /\ 0 <= v.
Proof.
  intros Hb. induction n as [|n IH]; intros p Hp Hl; cbn [le_at].
  - exists 0. split; [reflexivity | lia].
  - rewrite idx_ok by (unfold bidx_ok; lia). cbn [bind].
    destruct (IH (p + 1)) as (r & -> & Hr); [lia | lia |]. cbn [bind].
    eexists. split; [reflexivity|].
    pose proof (bytes_ok_bidx d p Hb). lia.
Qed.
Lemma le_at_voe_or_panic d : forall n p, match le_at d p n with Ok _ | Panic => True | _ => False end.
Proof.
  induction n as [|n IH]; intros p; cbn [le_at]; [exact I|].
  unfold idx. destruct (bidx_ok d p); cbn [bind]; [|exact I].
  specialize (IH (p + 1)). destruct (le_at d (p + 1) n); cbn [bind]; try contradiction; exact I.
Qed.

Lemma alen_ok d : bytes_ok d = true -> ARRAY_HEADER_SIZE <= blen d -> exists n, alen d = Ok n /\ 0 <= n.
Proof. intros Hb Hl. unfold alen, ARRAY_HEADER_SIZE in *. apply le_at_ok; [exact Hb | lia | lia]. Qed.

(* ------------------------------------------------------------------ elem_type *)
Lemma elem_type_panic_iff_l : forall d, array_new d = Ok tt ->
  (elem_type d = Panic <-> array_type_bad d = true).
Proof.
  intros d Hn. apply array_new_len in Hn. unfold ARRAY_HEADER_SIZE in Hn.
  unfold elem_type, array_type_bad. rewrite idx_ok by (unfold bidx_ok; lia). cbn [bind].
  destruct (dtype_code_ok (bidx d 4)); cbn [negb]; split; congruence.
Qed.

(* ------------------------------------------------------------------ is_null *)
Lemma is_null_total_l : forall d i, bytes_ok d = true -> wf_bitmap d = true -> 0 <= i ->
  value_or_error (is_null d i).
Proof.
  intros d i Hb Hw Hi. unfold wf_bitmap in Hw. apply andb_prop in Hw. destruct Hw as [Hl Hw].
  apply Z.leb_le in Hl. destruct (alen_ok d Hb Hl) as (n & En & Hn). rewrite En in Hw. apply Z.leb_le in Hw.
  unfold is_null. rewrite En. cbn [bind].
  destruct (Z.geb_spec i n); [exact I|].
  unfold ARRAY_HEADER_SIZE, bitmap_size in *.
  rewrite idx_ok by (unfold bidx_ok; lia). cbn [bind]. exact I.
Qed.

(* ------------------------------------------------------------------ fixed-width getters *)
Lemma get_fixed_total_l : forall d w i, bytes_ok d = true -> wf_fixed d (Z.of_nat w) = true -> 0 <= i ->
  value_or_error (get_fixed d w i).
Proof.
  intros d w i Hb Hw Hi. unfold wf_fixed in Hw. apply andb_prop in Hw. destruct Hw as [Hl Hw].
  apply Z.leb_le in Hl. destruct (alen_ok d Hb Hl) as (n & En & Hn). rewrite En in Hw. apply Z.leb_le in Hw.
  unfold get_fixed. rewrite En. cbn [bind].
  destruct (Z.ltb_spec i n) as [L|G]; [|exact I].
  unfold ARRAY_HEADER_SIZE, bitmap_size in *.
  destruct (le_at_ok d Hb w (8 + (n + 7) / 8 + i * Z.of_nat w)) as (v & -> & _); [nia | nia | exact I].
Qed.
Lemma get_bool_total_l : forall d i, bytes_ok d = true -> wf_fixed d 1 = true -> 0 <= i ->
  value_or_error (get_bool d i).
Proof.
  intros d i Hb Hw Hi. unfold get_bool.
  pose proof (get_fixed_total_l d 1 i Hb Hw Hi) as H.
  destruct (get_fixed d 1 i); cbn [bind]; try contradiction; exact I.
Qed.

(* ------------------------------------------------------------------ variable-width getters *)
Lemma get_blob_total_l : forall d i, bytes_ok d = true -> wf_var d i = true -> 0 <= i ->
  value_or_error (get_blob d i) /\ value_or_error (get_text d i).
Proof.
  intros d i Hb Hw Hi.
  assert (HB : value_or_error (get_blob d i)).
  { unfold wf_var in Hw. apply andb_prop in Hw. destruct Hw as [Hl Hw].
    apply Z.leb_le in Hl. destruct (alen_ok d Hb Hl) as (n & En & Hn). rewrite En in Hw.
    destruct (total_size d) as [ts| | |] eqn:Ets; try discriminate.
    cbv zeta in Hw. apply andb_prop in Hw. destruct Hw as [Hw Hoff].
    apply andb_prop in Hw. destruct Hw as [Hds Hts]. apply Z.leb_le in Hds. apply Z.leb_le in Hts.
    destruct (read_offset d n i) as [st| | |] eqn:Est; try discriminate.
    assert (Hwb : wf_bitmap d = true).
    { unfold wf_bitmap. rewrite En. unfold ARRAY_HEADER_SIZE, bitmap_size in *. lia. }
    pose proof (is_null_total_l d i Hb Hwb Hi) as HN.
    unfold get_blob. destruct (is_null d i) as [nl| | |]; cbn [bind]; try contradiction; [|exact I].
    destruct nl; [exact I|].
    unfold get_var_bounds. rewrite En. cbn [bind].
    destruct (Z.ltb_spec i n) as [L|G]; [|exact I].
    cbv zeta. rewrite Est. cbn [bind].
    assert (Hst : 0 <= st).
    { unfold read_offset in Est. unfold ARRAY_HEADER_SIZE, bitmap_size in *.
      destruct (le_at_ok d Hb 4 (8 + (n + 7) / 8 + i * 4)) as (v & Ev & Hv); [lia | lia |].
      rewrite Ev in Est. inversion Est. subst. exact Hv. }
    destruct (i + 1 <? n).
    - destruct (read_offset d n (i + 1)) as [en| | |]; try discriminate. cbn [bind fst snd].
      apply andb_prop in Hoff. destruct Hoff as [H1 H2]. apply Z.leb_le in H1. apply Z.leb_le in H2.
      rewrite sub_ok by (apply bslice_ok_true; unfold ARRAY_HEADER_SIZE, bitmap_size in *; lia). exact I.
    - rewrite Ets. cbn [bind]. destruct (Z.ltb_spec ts (ARRAY_HEADER_SIZE + bitmap_size n + n * 4)); [lia|].
      cbn [bind fst snd].
      apply andb_prop in Hoff. destruct Hoff as [H1 H2]. apply Z.leb_le in H1. apply Z.leb_le in H2.
      rewrite sub_ok by (apply bslice_ok_true; unfold ARRAY_HEADER_SIZE, bitmap_size in *; lia). exact I. }
  split; [exact HB|]. unfold get_text.
  destruct (get_blob d i); cbn [bind]; try contradiction; try exact I. destruct (valid_utf8 a); exact I.
Qed.

(* ------------------------------------------------------------------ the refutations *)
(* 8..13 bytes accepted by ArrayView::new on which a getter panics *)
Lemma array_getters_refuted_l :
  array_new [8;0;0;0;99;1;0;0] = Ok tt /\ elem_type [8;0;0;0;99;1;0;0] = Panic /\
  array_new [8;0;0;0;2;1;1;0] = Ok tt /\ is_null [8;0;0;0;2;1;1;0] 0 = Panic /\
  get_fixed [8;0;0;0;2;1;1;0] 4 0 = Panic /\ get_bool [8;0;0;0;2;1;1;0] 0 = Panic /\
  array_new [0;0;0;0;21;1;1;0;0;0;0;0;0] = Ok tt /\ is_null [0;0;0;0;21;1;1;0;0;0;0;0;0] 0 = Ok false /\
  get_blob [0;0;0;0;21;1;1;0;0;0;0;0;0] 0 = Panic /\ get_text [0;0;0;0;21;1;1;0;0;0;0;0;0] 0 = Panic /\
  get_blob [13;0;0;0;21;1;1;0;0;9;0;0;0] 0 = Panic.
Proof. vm_compute. repeat split. Qed.
