//! C01 / C02 crash harness.  Runs a workload (DDL, autocommit DML, small transactions,
//! checkpoints, reopen) on a real `turdb::Database` in a scratch directory with the write-ahead
//! log on and `synchronous=FULL`.  The `io_event` hook of /repo (cfg kahflane_turdb_verif)
//! reports every operation that reaches the operating system; at every such event and after
//! every statement two crash images are materialised
//!   KILL  = a plain copy of the database directory at that instant (MAP_SHARED stores and
//!           completed write(2) calls survive a process kill; BufWriter contents do not);
//!   POWER = per file the content it had at its last completed fsync / sync_data / msync
//!           (a shadow directory refreshed at those events; a file that was never synced is
//!           absent; unlink and rename are taken as durable at once),
//! each image is re-opened with the real `Database::open`, every table is scanned and probed
//! by key, and the recovered table / index files are read back page by page.
//! What was observed (physical trace per statement, crash observations) is written as one Coq
//! term per workload for coq/Corr/C01.v to judge.
//!   c01 gen    --seed S --tier T --out DIR [--lines FILE]
//!   c01 search --seed S --budget N --out FILE      (oracle only, Rust port of the row-level spec)
//!   c01 trace  <replay line>                        (debug: print everything that was observed)
use parking_lot::Mutex;
use std::collections::{BTreeMap, HashMap};
use std::panic::AssertUnwindSafe;
use std::path::{Path, PathBuf};
use std::sync::Arc;
use tvh::*;
use turdb::{Database, OwnedValue};

const PAGE: usize = 16384;
const FRAME: usize = 32 + PAGE;

// ------------------------------------------------------------------ workload
#[derive(Clone, Debug, PartialEq)]
enum Step {
    CreateTable(u32),
    Ins(u32, i64, i64),
    Upd(u32, i64, i64),
    Del(u32, i64),
    Begin,
    Commit,
    PragmaCkpt,     // PRAGMA wal_checkpoint  (SharedDatabase::checkpoint)
    ApiCkpt,        // Database::checkpoint() (lifecycle.rs)
    Reopen,         // drop the handle (clean shutdown), Database::open, PRAGMA wal=ON, synchronous
}

#[derive(Clone, Debug, PartialEq)]
struct Workload { pad: usize, fresh: bool, steps: Vec<Step>, only: Option<(usize, usize, char)> }

fn step_str(s: &Step) -> String {
    match s {
        Step::CreateTable(t) => format!("ct{}", t),
        Step::Ins(t, k, v) => format!("i{}.{}.{}", t, k, v),
        Step::Upd(t, k, v) => format!("u{}.{}.{}", t, k, v),
        Step::Del(t, k) => format!("d{}.{}", t, k),
        Step::Begin => "b".into(),
        Step::Commit => "c".into(),
        Step::PragmaCkpt => "k".into(),
        Step::ApiCkpt => "a".into(),
        Step::Reopen => "x".into(),
    }
}
fn parse_step(s: &str) -> Option<Step> {
    let nums = |r: &str| -> Option<Vec<i64>> { r.split('.').map(|x| x.parse::<i64>().ok()).collect() };
    if let Some(r) = s.strip_prefix("ct") { return Some(Step::CreateTable(r.parse().ok()?)); }
    match s {
        "b" => return Some(Step::Begin),
        "c" => return Some(Step::Commit),
        "k" => return Some(Step::PragmaCkpt),
        "a" => return Some(Step::ApiCkpt),
        "x" => return Some(Step::Reopen),
        _ => {}
    }
    let (h, r) = s.split_at(1.min(s.len()));
    let v = nums(r)?;
    match (h, v.len()) {
        ("i", 3) => Some(Step::Ins(v[0] as u32, v[1], v[2])),
        ("u", 3) => Some(Step::Upd(v[0] as u32, v[1], v[2])),
        ("d", 2) => Some(Step::Del(v[0] as u32, v[1])),
        _ => None,
    }
}
impl Workload {
    fn line(&self) -> String {
        let mut s = format!("{}pad={} steps={}", if self.fresh { "base=fresh " } else { "" }, self.pad, self.steps.iter().map(step_str).collect::<Vec<_>>().join(","));
        if let Some((i, j, m)) = self.only { s.push_str(&format!(" at={}.{}.{}", i, if j == usize::MAX { "e".to_string() } else { j.to_string() }, m)); }
        s
    }
    fn parse(l: &str) -> Option<Workload> {
        let mut w = Workload { pad: 0, fresh: false, steps: vec![], only: None };
        for tok in l.split_whitespace() {
            if let Some(r) = tok.strip_prefix("pad=") { w.pad = r.parse().ok()?; }
            else if tok == "base=fresh" { w.fresh = true; }
            else if let Some(r) = tok.strip_prefix("steps=") {
                for s in r.split(',') { if !s.is_empty() { w.steps.push(parse_step(s)?); } }
            } else if let Some(r) = tok.strip_prefix("at=") {
                let v: Vec<&str> = r.split('.').collect();
                if v.len() != 3 { return None; }
                w.only = Some((v[0].parse().ok()?, if v[1] == "e" { usize::MAX } else { v[1].parse().ok()? }, v[2].chars().next()?));
            } else if tok.starts_with("why=") {
            } else { return None; }
        }
        Some(w)
    }
    fn sql(&self, s: &Step) -> Option<String> {
        let padv = |k: i64, v: i64| -> String {
            if self.pad == 0 { String::new() } else {
                let c = (b'a' + ((k * 7 + v) .rem_euclid(26)) as u8) as char;
                format!(", '{}'", std::iter::repeat(c).take(self.pad).collect::<String>())
            }
        };
        match s {
            Step::CreateTable(t) => Some(if self.pad == 0 { format!("CREATE TABLE t{} (id INT PRIMARY KEY, v INT)", t) }
                                         else { format!("CREATE TABLE t{} (id INT PRIMARY KEY, v INT, p TEXT)", t) }),
            Step::Ins(t, k, v) => Some(format!("INSERT INTO t{} VALUES ({}, {}{})", t, k, v, padv(*k, *v))),
            Step::Upd(t, k, v) => Some(format!("UPDATE t{} SET v = {} WHERE id = {}", t, v, k)),
            Step::Del(t, k) => Some(format!("DELETE FROM t{} WHERE id = {}", t, k)),
            Step::Begin => Some("BEGIN".into()),
            Step::Commit => Some("COMMIT".into()),
            Step::PragmaCkpt => Some("PRAGMA wal_checkpoint".into()),
            Step::ApiCkpt | Step::Reopen => None,
        }
    }
}

// ------------------------------------------------------------------ row-level reference state
type Tables = BTreeMap<u32, BTreeMap<i64, i64>>;
fn apply_logical(st: &mut Tables, s: &Step) {
    match s {
        Step::CreateTable(t) => { st.entry(*t).or_default(); }
        Step::Ins(t, k, v) => { if let Some(m) = st.get_mut(t) { m.entry(*k).or_insert(*v); } }
        Step::Upd(t, k, v) => { if let Some(m) = st.get_mut(t) { if let Some(x) = m.get_mut(k) { *x = *v; } } }
        Step::Del(t, k) => { if let Some(m) = st.get_mut(t) { m.remove(k); } }
        _ => {}
    }
}

// ------------------------------------------------------------------ observation machinery
fn fnv64(b: &[u8]) -> u64 {
    let mut h: u64 = 0xcbf29ce484222325;
    for c in b.chunks(8) {
        let mut x = [0u8; 8];
        x[..c.len()].copy_from_slice(c);
        h ^= u64::from_le_bytes(x);
        h = h.wrapping_mul(0x100000001b3);
        h ^= h >> 29;
    }
    h
}

/// file key: (1, t) = table file of t<t>; (2, t) = primary-key index file of t<t>
type FileKey = (u8, u32);
fn file_key(rel: &str) -> Option<FileKey> {
    let name = rel.strip_prefix("root/")?;
    if let Some(t) = name.strip_suffix(".tbd") { return t.strip_prefix('t')?.parse().ok().map(|n| (1u8, n)); }
    if let Some(t) = name.strip_suffix("_id_pkey.idx") { return t.strip_prefix('t')?.parse().ok().map(|n| (2u8, n)); }
    None
}
fn fid(k: FileKey) -> i64 { if k.0 == 1 { k.1 as i64 } else { 100 + k.1 as i64 } }

#[derive(Clone, Debug, PartialEq)]
enum Phys {
    Store(i64, i64, i64),               // file, page, image
    Io(u32, i64, Vec<(i64, i64, i64)>), // kind, role (file id / wal sequence / 0), frames that reached the WAL file (kind 1)
}

#[derive(Clone, Debug, PartialEq)]
struct Obs {
    step: usize, j: usize, mode: char,
    open: i64,                                  // 0 ok, 1 error, 2 panic
    tables: Vec<(u32, Option<Vec<(i64, i64)>>)>,// per table of the universe: None = unreadable / missing
    probe_ok: bool,                             // key probes agree with the scan
    pages: Vec<(i64, i64, i64)>,                // recovered (file, page, image); image -1 = not an image seen before
    div: bool,                                  // the image lists turdb_catalog/ after root/ (recover_all_tables: later insert wins)
    note: String,
}

struct Ctx {
    db: PathBuf, shadow: PathBuf, eval: PathBuf,
    img: HashMap<u64, i64>,
    pages: BTreeMap<FileKey, Vec<u64>>,         // live page hashes at the last observation
    domain: BTreeMap<(i64, i64), ()>,
    wal_seen: HashMap<PathBuf, u64>,
    table_ids: HashMap<u64, u32>,               // WAL file_id -> t<n>
    phys: Vec<Phys>,
    step: usize, j: usize,
    universe: Vec<u32>, keys: Vec<i64>,
    obs: Vec<Obs>,
    cache: HashMap<u64, (i64, Vec<(u32, Option<Vec<(i64, i64)>>)>, bool, Vec<(i64, i64, i64)>, String, bool)>,
    only: Option<(usize, usize, char)>,
    evals: u64, cache_hits: u64,
    in_workload: bool,
    fresh: bool,
}

static CTX: Mutex<Option<Ctx>> = Mutex::new(None);
/// set while the harness itself touches the disk (evaluating a crash image, setup): events are ignored
static BUSY: std::sync::atomic::AtomicBool = std::sync::atomic::AtomicBool::new(false);
/// real-kill validation (thorough tier): the child process aborts itself inside the hook of the
/// ABORT_AT-th crash-point event
static ABORT_AT: std::sync::atomic::AtomicU64 = std::sync::atomic::AtomicU64::new(0);
static IO_COUNT: std::sync::atomic::AtomicU64 = std::sync::atomic::AtomicU64::new(0);
fn busy() -> bool { BUSY.load(std::sync::atomic::Ordering::SeqCst) }
fn set_busy(b: bool) { BUSY.store(b, std::sync::atomic::Ordering::SeqCst) }

fn walk(dir: &Path, base: &Path, out: &mut Vec<(String, PathBuf)>) {
    if let Ok(rd) = std::fs::read_dir(dir) {
        let mut es: Vec<_> = rd.flatten().collect();
        es.sort_by_key(|e| e.file_name());
        for e in es {
            let p = e.path();
            if p.is_dir() { walk(&p, base, out); }
            else { out.push((p.strip_prefix(base).unwrap().to_string_lossy().to_string(), p)); }
        }
    }
}
fn copy_tree(a: &Path, b: &Path) {
    let _ = std::fs::remove_dir_all(b);
    std::fs::create_dir_all(b).unwrap();
    let mut fs = vec![];
    walk(a, a, &mut fs);
    // directories (also empty ones)
    fn dirs(a: &Path, b: &Path) {
        if let Ok(rd) = std::fs::read_dir(a) { for e in rd.flatten() { let p = e.path(); if p.is_dir() { let q = b.join(e.file_name()); let _ = std::fs::create_dir_all(&q); dirs(&p, &q); } } }
    }
    dirs(a, b);
    for (rel, p) in fs { let q = b.join(&rel); if let Some(d) = q.parent() { let _ = std::fs::create_dir_all(d); } std::fs::copy(&p, &q).unwrap(); }
}
/// the same copy with the sub-directories created in the opposite order (flips readdir order on
/// file systems that list by creation order, e.g. tmpfs)
fn copy_tree_rev(a: &Path, b: &Path) {
    let _ = std::fs::remove_dir_all(b);
    std::fs::create_dir_all(b).unwrap();
    let mut ds: Vec<PathBuf> = std::fs::read_dir(a).map(|rd| rd.flatten().map(|e| e.path()).filter(|p| p.is_dir()).collect()).unwrap_or_default();
    ds.reverse();
    for d in &ds { let _ = std::fs::create_dir_all(b.join(d.file_name().unwrap())); }
    let mut fs = vec![];
    walk(a, a, &mut fs);
    for (rel, p) in fs { let q = b.join(&rel); if let Some(d) = q.parent() { let _ = std::fs::create_dir_all(d); } std::fs::copy(&p, &q).unwrap(); }
}
fn fingerprint(dir: &Path) -> u64 {
    let mut fs = vec![];
    walk(dir, dir, &mut fs);
    let mut h: u64 = 0x1234_5678_9abc_def0;
    for (rel, p) in fs {
        h = h.wrapping_mul(0x100000001b3) ^ fnv64(rel.as_bytes());
        let b = std::fs::read(&p).unwrap_or_default();
        h = h.wrapping_mul(0x100000001b3) ^ fnv64(&b) ^ (b.len() as u64);
    }
    h
}

impl Ctx {
    fn img_id(&mut self, page: &[u8], assign: bool) -> i64 {
        if page.iter().all(|b| *b == 0) { return 0; }
        let h = fnv64(page);
        if let Some(i) = self.img.get(&h) { return *i; }
        if !assign { return -1; }
        let i = self.img.len() as i64 + 1;
        self.img.insert(h, i);
        i
    }
    /// in-place page writes since the last observation
    fn diff_stores(&mut self) {
        let mut fs = vec![];
        walk(&self.db.clone(), &self.db.clone(), &mut fs);
        for (rel, p) in fs {
            let Some(k) = file_key(&rel) else { continue };
            let b = std::fs::read(&p).unwrap_or_default();
            if k.0 == 1 && b.len() >= 24 {
                let id = u64::from_le_bytes(b[16..24].try_into().unwrap());
                if id != 0 { self.table_ids.insert(id, k.1); }
            }
            let n = b.len() / PAGE;
            let old = self.pages.get(&k).cloned().unwrap_or_default();
            let mut new = Vec::with_capacity(n);
            for i in 0..n {
                let pg = &b[i * PAGE..(i + 1) * PAGE];
                let h = fnv64(pg);
                new.push(h);
                let zero_new = i >= old.len();
                if (zero_new && !pg.iter().all(|x| *x == 0)) || (!zero_new && old[i] != h) {
                    let id = self.img_id(pg, true);
                    self.phys.push(Phys::Store(fid(k), i as i64, id));
                    self.domain.insert((fid(k), i as i64), ());
                }
            }
            self.pages.insert(k, new);
        }
    }
    fn rel(&self, p: &Path) -> String { p.strip_prefix(&self.db).map(|x| x.to_string_lossy().to_string()).unwrap_or_default() }
    fn ino_path(&self, ino: u64) -> Option<PathBuf> {
        use std::os::unix::fs::MetadataExt;
        let mut fs = vec![];
        walk(&self.db, &self.db, &mut fs);
        fs.into_iter().find(|(_, p)| p.metadata().map(|m| m.ino() == ino).unwrap_or(false)).map(|(_, p)| p)
    }
    fn shadow_refresh(&self, p: &Path) {
        let rel = self.rel(p);
        if rel.is_empty() { return; }
        let q = self.shadow.join(&rel);
        if let Some(d) = q.parent() { let _ = std::fs::create_dir_all(d); }
        let _ = std::fs::copy(p, &q);
    }
    fn role(&self, rel: &str) -> i64 {
        if let Some(k) = file_key(rel) { return fid(k); }
        if let Some(s) = rel.strip_prefix("wal/wal.") { return 1000 + s.parse::<i64>().unwrap_or(0); }
        if rel == "turdb.catalog" { return 2000; }
        if rel == "turdb.catalog.tmp" { return 2004; }
        if rel == "turdb.meta" { return 2001; }
        if rel.starts_with("turdb_catalog/") { return 2002; }
        2003
    }
    fn on_io(&mut self, kind: u32, path: &Path, a: u64, _b: u64) {
        self.diff_stores();
        let p: PathBuf = if kind == 6 || kind == 9 { self.ino_path(a).unwrap_or_default() } else { path.to_path_buf() };
        let rel = self.rel(&p);
        let role = self.role(&rel);
        let mut frames = vec![];
        match kind {
            1 => {
                let seen = *self.wal_seen.get(&p).unwrap_or(&0);
                let b = std::fs::read(&p).unwrap_or_default();
                let mut off = seen as usize;
                while off + FRAME <= b.len() {
                    let file_id = u64::from_le_bytes(b[off..off + 8].try_into().unwrap());
                    let page_no = u32::from_le_bytes(b[off + 8..off + 12].try_into().unwrap());
                    let pg = b[off + 32..off + FRAME].to_vec();
                    let id = self.img_id(&pg, true);
                    let t = self.table_ids.get(&file_id).map(|t| *t as i64).unwrap_or(-(file_id as i64));
                    frames.push((t, page_no as i64, id));
                    off += FRAME;
                }
                self.wal_seen.insert(p.clone(), off as u64);
            }
            2 | 6 => self.shadow_refresh(&p),
            3 => { self.wal_seen.insert(p.clone(), a); }
            4 => { if rel.starts_with("wal/") { self.wal_seen.insert(p.clone(), 0); } }
            5 => { let _ = std::fs::remove_file(self.shadow.join(&rel)); self.wal_seen.remove(&p); }
            7 => {
                // rename(<path>.tmp, <path>): directory operations are durable at once, the renamed file
                // has the content of its last completed sync (absent if it was never synced)
                let from = self.shadow.join(format!("{}.tmp", rel));
                let to = self.shadow.join(&rel);
                if from.exists() { let _ = std::fs::rename(&from, &to); } else { let _ = std::fs::remove_file(&to); }
            }
            _ => {}
        }
        // system tables and the meta file are not part of the protocol model
        if role == 2002 || role == 2003 { return; }
        if role == 2001 && kind == 6 { return; }
        self.phys.push(Phys::Io(kind, role, frames));
        self.j += 1;
        if self.in_workload {
            let n = IO_COUNT.fetch_add(1, std::sync::atomic::Ordering::SeqCst) + 1;
            if n == ABORT_AT.load(std::sync::atomic::Ordering::SeqCst) { std::process::abort(); }
        }
        self.crash_point();
    }
    fn crash_point(&mut self) {
        if !self.in_workload { return; }
        // directory enumeration order is not under the database's control: when table ids can collide
        // (fresh base) every image is reopened in both orders of root/ and turdb_catalog/
        let orders: Vec<Option<bool>> = if self.fresh { vec![Some(false), Some(true)] } else { vec![None] };
        for mode in ['K', 'P'] {
            if let Some((i, j, m)) = self.only { if (i, j, m) != (self.step, self.j, mode) { continue; } }
            let src = if mode == 'K' { self.db.clone() } else { self.shadow.clone() };
            let fp0 = fingerprint(&src);
            for want in &orders {
                let fp = fp0 ^ match want { None => 0, Some(false) => 0x1111_1111, Some(true) => 0x2222_2222 };
                let r = if let Some(r) = self.cache.get(&fp) { self.cache_hits += 1; r.clone() } else {
                    let r = self.evaluate(&src, *want);
                    self.cache.insert(fp, r.clone());
                    r
                };
                self.obs.push(Obs { step: self.step, j: self.j, mode, open: r.0, tables: r.1, probe_ok: r.2, pages: r.3, note: r.4, div: r.5 });
            }
        }
    }
    fn evaluate(&mut self, src: &Path, want: Option<bool>) -> (i64, Vec<(u32, Option<Vec<(i64, i64)>>)>, bool, Vec<(i64, i64, i64)>, String, bool) {
        self.evals += 1;
        let dir = self.eval.clone();
        copy_tree(src, &dir);
        if let Some(w) = want { if catalog_last(&dir) != w { copy_tree_rev(src, &dir); } }
        let div = catalog_last(&dir);
        let universe = self.universe.clone();
        let keys = self.keys.clone();
        let d2 = dir.clone();
        let r = catch(AssertUnwindSafe(move || -> Result<(Vec<(u32, Option<Vec<(i64, i64)>>)>, bool, String, Database), String> {
            let db = Database::open(&d2).map_err(|e| format!("{:#}", e))?;
            let mut tabs = vec![];
            let mut probe_ok = true;
            let mut note = String::new();
            for t in &universe {
                let scan = catch(AssertUnwindSafe(|| db.query(&format!("SELECT id, v FROM t{}", t))));
                let rows: Option<Vec<(i64, i64)>> = match scan {
                    Caught::Done(Ok(rs)) => {
                        let mut v = vec![];
                        let mut bad = false;
                        for r in rs { match (r.values.get(0), r.values.get(1)) { (Some(OwnedValue::Int(k)), Some(OwnedValue::Int(x))) => v.push((*k, *x)), _ => bad = true } }
                        if bad { note.push_str(&format!("t{}:badrow;", t)); None } else { v.sort(); Some(v) }
                    }
                    Caught::Done(Err(e)) => { note.push_str(&format!("t{}:{};", t, format!("{:#}", e).chars().take(60).collect::<String>())); None }
                    Caught::Panicked(m) => { note.push_str(&format!("t{}:panic {};", t, m.chars().take(60).collect::<String>())); None }
                };
                if let Some(rows) = &rows {
                    for k in &keys {
                        let want: Vec<(i64, i64)> = rows.iter().filter(|r| r.0 == *k).cloned().collect();
                        let got = catch(AssertUnwindSafe(|| db.query(&format!("SELECT id, v FROM t{} WHERE id = {}", t, k))));
                        let got: Option<Vec<(i64, i64)>> = match got {
                            Caught::Done(Ok(rs)) => Some(rs.iter().filter_map(|r| match (r.values.get(0), r.values.get(1)) { (Some(OwnedValue::Int(k)), Some(OwnedValue::Int(x))) => Some((*k, *x)), _ => None }).collect()),
                            _ => None,
                        };
                        if got.as_ref() != Some(&want) { probe_ok = false; note.push_str(&format!("probe t{} id={} scan={:?} probe={:?};", t, k, want, got)); }
                    }
                }
                tabs.push((*t, rows));
            }
            Ok((tabs, probe_ok, note, db))
        }));
        let out = match r {
            Caught::Done(Ok((tabs, probe_ok, note, db))) => {
                // recovered pages, read while the recovering handle is still alive (no clean-shutdown effects yet)
                let pages = self.read_pages(&dir);
                let _ = catch(AssertUnwindSafe(move || drop(db)));
                (0, tabs, probe_ok, pages, note, div)
            }
            Caught::Done(Err(e)) => (1, vec![], true, self.read_pages(&dir), e.chars().take(100).collect(), div),
            Caught::Panicked(m) => (2, vec![], true, self.read_pages(&dir), m.chars().take(100).collect(), div),
        };
        let _ = std::fs::remove_dir_all(&dir);
        out
    }
    fn read_pages(&mut self, dir: &Path) -> Vec<(i64, i64, i64)> {
        let mut out = vec![];
        let dom: Vec<(i64, i64)> = self.domain.keys().cloned().collect();
        let mut files: HashMap<i64, Vec<u8>> = HashMap::new();
        let mut fs = vec![];
        walk(dir, dir, &mut fs);
        for (rel, p) in fs { if let Some(k) = file_key(&rel) { files.insert(fid(k), std::fs::read(&p).unwrap_or_default()); } }
        for (f, pg) in dom {
            if let Some(b) = files.get(&f) {
                let o = pg as usize * PAGE;
                if o + PAGE <= b.len() {
                    let id = self.img_id(&b[o..o + PAGE].to_vec(), false);
                    if id != 0 { out.push((f, pg, id)); }
                }
            }
        }
        out
    }
}

/// user tables whose header table id is also the id of a system table, if recover_all_tables
/// visits turdb_catalog/ after root/ in a copy made like the crash images (later insert wins)
fn shadowed_tables(db: &Path, scratch: &Path) -> Vec<i64> {
    let hdr_id = |p: &Path| -> u64 { let b = std::fs::read(p).unwrap_or_default(); if b.len() >= 24 { u64::from_le_bytes(b[16..24].try_into().unwrap()) } else { 0 } };
    let mut sys: Vec<u64> = vec![];
    if let Ok(rd) = std::fs::read_dir(db.join("turdb_catalog")) { for e in rd.flatten() { if e.path().extension().map(|x| x == "tbd").unwrap_or(false) { sys.push(hdr_id(&e.path())); } } }
    let mut out = vec![];
    if let Ok(rd) = std::fs::read_dir(db.join("root")) {
        for e in rd.flatten() {
            let rel = format!("root/{}", e.file_name().to_string_lossy());
            if let Some((1, t)) = file_key(&rel) { if sys.contains(&hdr_id(&e.path())) { out.push(t as i64); } }
        }
    }
    let _ = scratch;
    out.sort();
    out
}
/// does read_dir list turdb_catalog/ after root/ in this image?
fn catalog_last(dir: &Path) -> bool {
    let order: Vec<String> = std::fs::read_dir(dir).map(|rd| rd.flatten().map(|e| e.file_name().to_string_lossy().to_string()).collect()).unwrap_or_default();
    let pos = |n: &str| order.iter().position(|x| x == n);
    match (pos("root"), pos("turdb_catalog")) { (Some(r), Some(c)) => c > r, _ => false }
}

fn hook(kind: u32, path: &Path, a: u64, b: u64) {
    if busy() { return; }
    set_busy(true);
    let mut g = CTX.lock();
    if let Some(c) = g.as_mut() { c.on_io(kind, path, a, b); }
    drop(g);
    set_busy(false);
}

fn scratch_root() -> PathBuf {
    if let Ok(r) = std::env::var("C01_ROOT") { return PathBuf::from(r); }
    let base = if Path::new("/dev/shm").is_dir() { PathBuf::from("/dev/shm") } else { PathBuf::from("/verif/build/tmp") };
    base.join(format!("c01-{}", std::process::id()))
}

#[derive(Clone, Debug)]
struct StepRec { step: Step, ok: bool, phys: Vec<Phys>, err: String }
struct RunOut { steps: Vec<StepRec>, obs: Vec<Obs>, evals: u64, cache_hits: u64, setup_err: Option<String>, shadow: Vec<i64> }

fn open_session(db: &Path) -> Result<Database, String> {
    let d = Database::open(db).map_err(|e| format!("open: {:#}", e))?;
    d.execute("PRAGMA wal=ON").map_err(|e| format!("pragma wal: {:#}", e))?;
    d.execute("PRAGMA synchronous=FULL").map_err(|e| format!("pragma sync: {:#}", e))?;
    Ok(d)
}

fn run_workload(w: &Workload) -> RunOut { run_workload_keep(w, false) }

/// run one workload on the real database, crashing it (on copies) everywhere
fn run_workload_keep(w: &Workload, keep: bool) -> RunOut {
    let root = scratch_root();
    let _ = std::fs::remove_dir_all(&root);
    std::fs::create_dir_all(&root).unwrap();
    let dbp = root.join("db");
    let mut universe: Vec<u32> = vec![];
    let mut keys: Vec<i64> = vec![];
    for s in &w.steps {
        match s {
            Step::CreateTable(t) => if !universe.contains(t) { universe.push(*t) },
            Step::Ins(_, k, _) | Step::Upd(_, k, _) | Step::Del(_, k) => if !keys.contains(k) { keys.push(*k) },
            _ => {}
        }
    }
    keys.sort();
    // baseline: a database created and cleanly shut down earlier (everything synced)
    turdb::verif_hooks::set_io_hook(None);
    let fresh = w.fresh;
    let setup = catch(AssertUnwindSafe(|| -> Result<(), String> {
        let d = Database::create(&dbp).map_err(|e| format!("create: {:#}", e))?;
        // a first table makes save_meta persist next_table_id: without it the ids handed out after a
        // reopen collide with those of the system tables (turdb.meta is written once, with 1)
        if !fresh { d.execute("CREATE TABLE seed0 (x INT)").map_err(|e| format!("seed: {:#}", e))?; }
        drop(d);
        Ok(())
    }));
    let mut out = RunOut { steps: vec![], obs: vec![], evals: 0, cache_hits: 0, setup_err: None, shadow: vec![] };
    match setup { Caught::Done(Ok(())) => {}, Caught::Done(Err(e)) => { out.setup_err = Some(e); return out; }, Caught::Panicked(m) => { out.setup_err = Some(m); return out; } }
    copy_tree(&dbp, &root.join("shadow"));
    *CTX.lock() = Some(Ctx { db: dbp.clone(), shadow: root.join("shadow"), eval: root.join("eval"), img: HashMap::new(),
        pages: BTreeMap::new(), domain: BTreeMap::new(), wal_seen: HashMap::new(), table_ids: HashMap::new(), phys: vec![], step: 0, j: 0,
        universe, keys, obs: vec![], cache: HashMap::new(), only: w.only, evals: 0, cache_hits: 0, in_workload: false, fresh: w.fresh });
    turdb::verif_hooks::set_io_hook(Some(Arc::new(hook)));
    let mut db: Option<Database> = match catch(AssertUnwindSafe(|| open_session(&dbp))) {
        Caught::Done(Ok(d)) => Some(d),
        Caught::Done(Err(e)) => { out.setup_err = Some(e); None }
        Caught::Panicked(m) => { out.setup_err = Some(m); None }
    };
    if db.is_some() {
        { let mut g = CTX.lock(); let c = g.as_mut().unwrap(); c.diff_stores(); c.phys.clear(); c.in_workload = true; }
        for (i, s) in w.steps.iter().enumerate() {
            { let mut g = CTX.lock(); let c = g.as_mut().unwrap(); c.step = i; c.j = 0; c.phys.clear(); }
            let r: Caught<Result<(), String>> = match s {
                Step::Reopen => {
                    let old = db.take();
                    let r = catch(AssertUnwindSafe(|| { drop(old); open_session(&dbp) }));
                    match r { Caught::Done(Ok(d)) => { db = Some(d); Caught::Done(Ok(())) } Caught::Done(Err(e)) => Caught::Done(Err(e)), Caught::Panicked(m) => Caught::Panicked(m) }
                }
                Step::ApiCkpt => { let d = db.as_ref().unwrap(); catch(AssertUnwindSafe(|| d.checkpoint().map(|_| ()).map_err(|e| format!("{:#}", e)))) }
                _ => { let sql = w.sql(s).unwrap(); let d = db.as_ref().unwrap(); catch(AssertUnwindSafe(|| d.execute(&sql).map(|_| ()).map_err(|e| format!("{:#}", e)))) }
            };
            let (ok, err) = match r { Caught::Done(Ok(())) => (true, String::new()), Caught::Done(Err(e)) => (false, e), Caught::Panicked(m) => (false, format!("panic: {}", m)) };
            let mut g = CTX.lock();
            let c = g.as_mut().unwrap();
            set_busy(true);
            c.diff_stores();
            let phys = std::mem::take(&mut c.phys);
            out.steps.push(StepRec { step: s.clone(), ok, phys, err });
            if !ok || db.is_none() { set_busy(false); break; }
            // crash point after the acknowledgement
            c.j = usize::MAX;
            c.crash_point();
            drop(g);
            set_busy(false);
        }
    }
    turdb::verif_hooks::set_io_hook(None);
    let c = CTX.lock().take().unwrap();
    let _ = catch(AssertUnwindSafe(move || drop(db)));
    out.obs = c.obs; out.evals = c.evals; out.cache_hits = c.cache_hits;
    out.shadow = shadowed_tables(&dbp, &root.join("probe_order"));
    if !keep { let _ = std::fs::remove_dir_all(&root); }
    out
}


// ------------------------------------------------------------------ Coq terms
fn zt(v: i64) -> String { if v < 0 { format!("({})", v) } else { format!("{}", v) } }
fn key_t(k: (i64, i64)) -> String { format!("({}, {})", zt(k.0), zt(k.1)) }
fn phys_t(p: &Phys) -> String {
    match p {
        Phys::Store(f, pg, i) => format!("PStore {} {} {}", zt(*f), zt(*pg), zt(*i)),
        Phys::Io(k, r, fr) => format!("PIo {} {} [{}]", k, zt(*r), fr.iter().map(|x| format!("({}, {}, {})", zt(x.0), zt(x.1), zt(x.2))).collect::<Vec<_>>().join("; ")),
    }
}
fn bitem_t(p: &Phys) -> Option<String> {
    match p {
        Phys::Store(f, pg, i) => Some(format!("BStore {} {} {}", zt(*f), zt(*pg), zt(*i))),
        Phys::Io(9, r, _) => Some(format!("BGrow {}", zt(*r))),
        _ => None,
    }
}

fn msyncs(ph: &[Phys]) -> Vec<i64> { ph.iter().filter_map(|p| if let Phys::Io(6, r, _) = p { Some(*r) } else { None }).collect() }
fn zlist(v: &[i64]) -> String { format!("[{}]", v.iter().map(|x| zt(*x)).collect::<Vec<_>>().join("; ")) }
/// the model's view of each executed step: (row-level meaning, protocol operation with its observed payload)
fn model_steps(steps: &[StepRec]) -> Vec<(String, String)> {
    // pass 1: marks of statements
    let n = steps.len();
    let mut marks: Vec<Vec<(i64, i64)>> = vec![vec![]; n];
    let mut txn_start: Option<usize> = None;
    for (i, s) in steps.iter().enumerate() {
        match &s.step {
            Step::Begin => txn_start = Some(i),
            Step::Ins(..) | Step::Upd(..) | Step::Del(..) => {
                for p in &s.phys { if let Phys::Io(1, _, fr) = p { for f in fr { marks[i].push((f.0, f.1)); } } }
            }
            Step::Commit => {
                if let Some(b) = txn_start {
                    let mut frames: Vec<(i64, i64)> = vec![];
                    for p in &s.phys { if let Phys::Io(1, _, fr) = p { for f in fr { frames.push((f.0, f.1)); } } }
                    for k in frames {
                        let stmts: Vec<usize> = (b + 1..i).filter(|x| matches!(steps[*x].step, Step::Ins(t, ..) | Step::Upd(t, ..) | Step::Del(t, ..) if t as i64 == k.0)).collect();
                        let owner = stmts.iter().find(|x| steps[**x].phys.iter().any(|p| matches!(p, Phys::Store(f, pg, _) if (*f, *pg) == k))).or(stmts.first());
                        if let Some(o) = owner { if !marks[*o].contains(&k) { marks[*o].push(k); } }
                    }
                }
                txn_start = None;
            }
            _ => {}
        }
    }
    // a transaction still open at the end: the tracked pages are the table pages >= 1 that were stored
    if let Some(b) = txn_start {
        for i in b + 1..n {
            if let Step::Ins(t, ..) | Step::Upd(t, ..) | Step::Del(t, ..) = steps[i].step {
                for p in &steps[i].phys { if let Phys::Store(f, pg, _) = p { if *f == t as i64 && *pg >= 1 && !marks[i].contains(&(*f, *pg)) { marks[i].push((*f, *pg)); } } }
            }
        }
    }
    let mut out = vec![];
    for (i, s) in steps.iter().enumerate() {
        let lop = match &s.step {
            Step::CreateTable(t) => format!("LCreate {}", t),
            Step::Ins(t, k, v) => format!("LIns {} {} {}", t, zt(*k), zt(*v)),
            Step::Upd(t, k, v) => format!("LUpd {} {} {}", t, zt(*k), zt(*v)),
            Step::Del(t, k) => format!("LDel {} {}", t, zt(*k)),
            Step::Begin => "LBegin".into(),
            Step::Commit => "LCommit".into(),
            _ => "LNone".into(),
        };
        let op = match &s.step {
            Step::CreateTable(t) => {
                let t = *t as i64;
                let g = |f: i64, pg: i64| -> i64 { s.phys.iter().find_map(|p| match p { Phys::Store(a, b, i) if *a == f && *b == pg => Some(*i), _ => None }).unwrap_or(0) };
                format!("OCreate {} {} {} {} {}", t, g(t, 0), g(t, 1), g(100 + t, 0), g(100 + t, 1))
            }
            Step::Ins(t, ..) | Step::Upd(t, ..) | Step::Del(t, ..) => {
                let cut = s.phys.iter().position(|p| matches!(p, Phys::Io(1, ..))).unwrap_or(s.phys.len());
                let body: Vec<String> = s.phys[..cut].iter().filter_map(bitem_t).collect();
                let post: Vec<String> = s.phys[cut..].iter().filter_map(|p| match p { Phys::Store(..) => bitem_t(p), _ => None }).collect();
                format!("ODml {} [{}] [{}] [{}]", t, marks[i].iter().map(|k| key_t(*k)).collect::<Vec<_>>().join("; "), body.join("; "), post.join("; "))
            }
            Step::Begin => "OBegin".into(),
            Step::Commit => format!("OCommit {}", zlist(&msyncs(&s.phys))),
            Step::PragmaCkpt => format!("OCkpt {}", zlist(&msyncs(&s.phys))),
            Step::ApiCkpt => format!("OApiCkpt {}", zlist(&msyncs(&s.phys))),
            Step::Reopen => {
                let cut = s.phys.iter().position(|p| matches!(p, Phys::Io(4, 2004, _))).unwrap_or(s.phys.len());
                format!("OReopen {} {}", zlist(&msyncs(&s.phys[..cut])), zlist(&msyncs(&s.phys[cut..])))
            }
        };
        out.push((lop, op));
    }
    out
}

fn img_t(o: &Obs) -> String {
    let tabs: Vec<String> = o.tables.iter().map(|(t, r)| format!("CT {} {}", t, match r {
        None => "None".to_string(),
        Some(rows) => format!("(Some [{}])", rows.iter().map(|x| format!("R2 {} {}", zt(x.0), zt(x.1))).collect::<Vec<_>>().join("; ")),
    })).collect();
    format!("CImg {} [{}] {} [{}] {}", o.open, tabs.join("; "), cbool(o.probe_ok),
        o.pages.iter().map(|x| format!("R3 {} {} {}", zt(x.0), zt(x.1), zt(x.2))).collect::<Vec<_>>().join("; "), cbool(o.div))
}

fn case_term(r: &RunOut) -> (String, usize) {
    // steps that returned Ok (a failing statement ends the workload; its crash points are dropped)
    let n_ok = r.steps.iter().position(|s| !s.ok).unwrap_or(r.steps.len());
    let steps = &r.steps[..n_ok];
    let ms = model_steps(steps);
    let st: Vec<String> = steps.iter().zip(ms.iter()).map(|(s, (l, o))| format!("CS ({}) ({}) [{}]", l, o, s.phys.iter().map(phys_t).collect::<Vec<_>>().join("; "))).collect();
    // distinct reopened images, referenced by the crash points
    let mut imgs: Vec<String> = vec![];
    let mut idx: HashMap<String, usize> = HashMap::new();
    let mut pts: Vec<String> = vec![];
    for o in r.obs.iter().filter(|o| o.step < n_ok) {
        let t = img_t(o);
        let k = *idx.entry(t.clone()).or_insert_with(|| { imgs.push(t); imgs.len() - 1 });
        pts.push(format!("CP {} {} {} {}", o.step, if o.j == usize::MAX { "(-1)".to_string() } else { o.j.to_string() }, cbool(o.mode == 'P'), k));
    }
    (format!("Case [{}]\n    {}\n    [{}]\n    [{}]", st.join(";\n    "), zlist(&r.shadow), imgs.join(";\n     "), pts.join("; ")), n_ok)
}

// ------------------------------------------------------------------ row-level oracle (Rust port of c01_ok / c02_ok of the Corr files)
fn split_at(steps: &[Step], i: usize, after: bool) -> (usize, Vec<Step>) {
    let open = |n: usize| -> Option<usize> {
        let mut cur = None;
        for (x, s) in steps.iter().enumerate().take(n) { match s { Step::Begin => cur = Some(x), Step::Commit => cur = None, _ => {} } }
        cur
    };
    let upto = if after { i + 1 } else { i };
    let acked = match open(upto) { Some(b) => b, None => upto };
    (acked, steps[acked..=i.min(steps.len() - 1)].iter().take(i + 1 - acked).cloned().collect())
}
fn state_after(steps: &[Step]) -> Tables { let mut st = Tables::new(); for s in steps { apply_logical(&mut st, s); } st }
fn touched(infl: &[Step]) -> Vec<(u32, i64)> {
    infl.iter().filter_map(|s| match s { Step::Ins(t, k, _) | Step::Upd(t, k, _) | Step::Del(t, k) => Some((*t, *k)), _ => None }).collect()
}
fn c01_ok(steps: &[Step], o: &Obs) -> bool {
    let (a, infl) = split_at(steps, o.step, o.j == usize::MAX);
    let acked = state_after(&steps[..a]);
    let tch = touched(&infl);
    if o.open != 0 { return false; }
    for (t, rows) in &acked {
        let got = match o.tables.iter().find(|x| x.0 == *t) { Some((_, Some(g))) => g, _ => return false };
        let mut keys: Vec<i64> = rows.keys().cloned().collect();
        keys.extend(got.iter().map(|x| x.0));
        for k in keys {
            if tch.contains(&(*t, k)) { continue; }
            let want = rows.get(&k).cloned();
            let have = got.iter().find(|x| x.0 == k).map(|x| x.1);
            if want != have { return false; }
        }
    }
    true
}
fn c02_ok(steps: &[Step], universe: &[u32], o: &Obs) -> bool {
    let (a, infl) = split_at(steps, o.step, o.j == usize::MAX);
    if o.open != 0 || !o.probe_ok { return false; }
    (0..=infl.len()).any(|m| {
        let mut all: Vec<Step> = steps[..a].to_vec();
        all.extend_from_slice(&infl[..m]);
        let st = state_after(&all);
        universe.iter().all(|t| {
            let got = o.tables.iter().find(|x| x.0 == *t).and_then(|x| x.1.clone());
            match st.get(t) {
                Some(rows) => got == Some(rows.iter().map(|(k, v)| (*k, *v)).collect::<Vec<_>>()),
                None => got.is_none(),
            }
        })
    })
}

/// why a crash point is expected to be unsafe, judged from the trace alone (search mode, no model)
fn why(steps: &[StepRec], o: &Obs) -> &'static str {
    if o.mode == 'P' { return "power"; }
    let s = &steps[o.step];
    if o.j != usize::MAX {
        // inside a catalog rewrite: after io 4 on the catalog and before its second io 8
        let mut seen = 0; let mut in_cat = false; let mut w8 = 0;
        for p in &s.phys {
            if let Phys::Io(k, r, _) = p {
                seen += 1;
                if *r == 2000 { if *k == 4 { in_cat = true; w8 = 0; } else if *k == 8 { w8 += 1; if w8 >= 2 { in_cat = false; } } }
                if seen == o.j { break; }
            }
        }
        if in_cat { return "catalog"; }
    }
    // dirty pages not yet in the log: inside a transaction, or before the WAL flush of the statement
    let plain: Vec<Step> = steps.iter().map(|x| x.step.clone()).collect();
    let (a, infl) = split_at(&plain, o.step, o.j == usize::MAX);
    let _ = a;
    let in_txn = infl.iter().any(|x| matches!(x, Step::Begin));
    if in_txn && !(matches!(s.step, Step::Commit) && o.j != usize::MAX && o.j >= 1) { return "dirty"; }
    if o.j != usize::MAX && matches!(s.step, Step::Ins(..) | Step::Upd(..) | Step::Del(..)) {
        let flush_at = s.phys.iter().filter(|p| matches!(p, Phys::Io(..))).position(|p| matches!(p, Phys::Io(1, ..))).map(|x| x + 1);
        if let Some(f) = flush_at { if o.j < f { return "dirty"; } }
    }
    "none"
}

// ------------------------------------------------------------------ generators
fn gen_workload(rng: &mut Rng, shape: u32, len: usize) -> Workload {
    let pad = if shape % 3 == 2 { 1000 } else { 0 };
    let ntab: u32 = if shape % 2 == 0 { 1 } else { 2 };
    let mut steps = vec![];
    let mut st = Tables::new();
    let mut in_txn = false;
    let mut txn_left = 0;
    let mut reopened = false;
    let mut next_key: i64 = 1;
    steps.push(Step::CreateTable(1)); st.insert(1, BTreeMap::new());
    let mut created = 1u32;
    while steps.len() < len {
        if in_txn && txn_left == 0 { steps.push(Step::Commit); in_txn = false; continue; }
        let r = rng.below(100);
        if !in_txn && created < ntab && r < 12 { created += 1; steps.push(Step::CreateTable(created)); st.insert(created, BTreeMap::new()); continue; }
        if !in_txn && r < 20 { steps.push(Step::Begin); in_txn = true; txn_left = 1 + rng.below(4) as usize; continue; }
        if !in_txn && r < 27 { steps.push(Step::PragmaCkpt); continue; }
        if !in_txn && r < 31 { steps.push(Step::ApiCkpt); continue; }
        if !in_txn && r < 35 && steps.len() > 3 { steps.push(Step::Reopen); reopened = true; continue; }
        let t = 1 + rng.below(created as u64) as u32;
        let rows: Vec<(i64, i64)> = st[&t].iter().map(|(k, v)| (*k, *v)).collect();
        let c = rng.below(100);
        let _ = reopened;
        let s = if rows.is_empty() || c < if pad > 0 { 75 } else { 50 } {
            let k = next_key; next_key += 1;
            Step::Ins(t, k, rng.range(1, 99))
        } else if c < 85 { let (k, _) = *rng.pick(&rows); Step::Upd(t, k, rng.range(100, 199)) }
        else { let (k, _) = *rng.pick(&rows); Step::Del(t, k) };
        apply_logical(&mut st, &s);
        steps.push(s);
        if in_txn { txn_left -= 1; }
    }
    if in_txn && rng.chance(1, 2) { steps.push(Step::Commit); }
    Workload { pad, fresh: false, steps, only: None }
}

fn fixed_workloads() -> Vec<Workload> {
    [
        // catalog rewrite with an acknowledged table; transaction; delete
        "pad=0 steps=ct1,i1.1.10,i1.2.20,ct2,i2.1.11,b,i1.3.30,u1.2.21,d2.1,c,d1.1",
        // checkpoints between tables, Database::checkpoint(), reopen
        "pad=0 steps=ct1,ct2,i1.1.10,k,i2.1.11,a,i1.2.20,x,u1.1.12,d2.1",
        // open transaction after a checkpoint (nothing in the log covers its pages)
        "pad=0 steps=ct1,i1.1.10,i1.2.20,k,b,i1.3.30,u1.2.21,d1.1,c",
        // leaf split and root split inside one statement, with and without log coverage
        "pad=1000 steps=ct1,i1.1.1,i1.2.2,i1.3.3,i1.4.4,i1.5.5,i1.6.6,i1.7.7,i1.8.8,i1.9.9,i1.10.10,i1.11.11,i1.12.12,i1.13.13,i1.14.14,i1.15.15,k,i1.16.16,i1.17.17,u1.3.33",
        // a database that was closed before its first CREATE TABLE: table ids collide with the system tables'
        "base=fresh pad=0 steps=ct1,i1.1.10,ct2,i2.1.11,u1.1.12,k,i1.2.20",
    ].iter().map(|l| Workload::parse(l).unwrap()).collect()
}

pub fn main_for(prop: &'static str) {
    let a = Args::parse();
    match a.mode.as_str() {
        "gen" => gen(&a, prop),
        "search" => search(&a, prop),
        "trace" => trace(&a),
        "child" => child(&a),
        _ => { eprintln!("{}: unknown mode", prop); std::process::exit(2); }
    }
}

fn workloads(a: &Args, extra: u64) -> Vec<(Workload, &'static str)> {
    if let Some(ls) = a.replay_lines() {
        return ls.iter().filter_map(|l| Workload::parse(l)).map(|w| (w, "replay")).collect();
    }
    let mut rng = Rng::new(a.seed ^ extra);
    let mut ws: Vec<(Workload, &'static str)> = fixed_workloads().into_iter().map(|w| (w, "fixed")).collect();
    let (n, len) = if a.thorough() { (40, 30) } else { (6, 18) };
    for i in 0..n { let l = len + rng.below(8) as usize; ws.push((gen_workload(&mut rng, i as u32, l), ["random_1table", "random_2tables", "random_split"][i % 3])); }
    ws
}

fn gen(a: &Args, prop: &'static str) {
    let corr = if prop == "C02" { "Corr.C02" } else { "Corr.C01" };
    let mut w = CaseWriter::new(&a.out, prop, corr, 1);
    let mut kill = 0u64; let mut power = 0u64; let mut evals = 0u64; let mut stmt_err = 0u64;
    let (mut real_kills, mut real_bad) = (0u64, 0u64);
    for (widx, (wl, kind)) in workloads(a, 0).into_iter().enumerate() {
        let r = run_workload(&wl);
        if a.thorough() && a.lines.is_none() && widx < 5 && r.setup_err.is_none() {
            let (n, b) = real_kill_check(&wl, &r, 5);
            real_kills += n; real_bad += b;
            if std::env::var("C01_DEBUG").is_ok() { eprintln!("real kill check: workload {} -> {} compared, {} differ", widx, n, b); }
        }
        if let Some(e) = &r.setup_err { eprintln!("setup error: {}", e); continue; }
        let (term, n_ok) = case_term(&r);
        if n_ok < r.steps.len() { stmt_err += 1; }
        kill += r.obs.iter().filter(|o| o.mode == 'K' && o.step < n_ok).count() as u64;
        power += r.obs.iter().filter(|o| o.mode == 'P' && o.step < n_ok).count() as u64;
        evals += r.evals;
        let acked_writes = r.steps[..n_ok].iter().filter(|s| matches!(s.step, Step::Ins(..) | Step::Upd(..) | Step::Del(..) | Step::Commit)).count();
        w.push(term, wl.line(), acked_writes >= 2, kind);
    }
    w.count("crash_points:kill", kill);
    w.count("crash_points:power", power);
    w.count("images_reopened", evals);
    w.count("workloads_cut_at_failing_statement", stmt_err);
    if a.thorough() && a.lines.is_none() { w.count("real_process_kills_compared", real_kills); }
    w.finish(&[("real_kill_mismatches".to_string(), real_bad.to_string())]);
    if real_bad > 0 { eprintln!("{} real process kills left a directory that differs from the copied image", real_bad); std::process::exit(3); }
}

/// child of the real-kill validation: run the workload without evaluating anything and abort()
/// inside the hook of the k-th crash-point event (the directory is left as the kill left it)
fn child(a: &Args) {
    let k: u64 = a.rest.get(0).and_then(|x| x.parse().ok()).unwrap_or(0);
    let mut w = Workload::parse(&a.rest[1..].join(" ")).expect("bad line");
    w.only = Some((usize::MAX - 1, 0, 'X'));
    ABORT_AT.store(k, std::sync::atomic::Ordering::SeqCst);
    let _ = run_workload_keep(&w, true);
}

/// open a directory left behind by a killed process: (open code, rows per table)
fn scan_dir(dir: &Path, universe: &[u32]) -> (i64, Vec<(u32, Option<Vec<(i64, i64)>>)>) {
    let d2 = dir.to_path_buf();
    let u = universe.to_vec();
    set_busy(true);
    let r = catch(AssertUnwindSafe(move || -> Result<Vec<(u32, Option<Vec<(i64, i64)>>)>, String> {
        let db = Database::open(&d2).map_err(|e| format!("{:#}", e))?;
        let mut tabs = vec![];
        for t in &u {
            let rows = match catch(AssertUnwindSafe(|| db.query(&format!("SELECT id, v FROM t{}", t)))) {
                Caught::Done(Ok(rs)) => { let mut v: Vec<(i64, i64)> = rs.iter().filter_map(|r| match (r.values.get(0), r.values.get(1)) { (Some(OwnedValue::Int(k)), Some(OwnedValue::Int(x))) => Some((*k, *x)), _ => None }).collect(); v.sort(); Some(v) }
                _ => None,
            };
            tabs.push((*t, rows));
        }
        Ok(tabs)
    }));
    set_busy(false);
    match r { Caught::Done(Ok(t)) => (0, t), Caught::Done(Err(_)) => (1, vec![]), Caught::Panicked(_) => (2, vec![]) }
}

/// kill a real process at some crash points of the workload and compare what Database::open finds
/// in the directory it leaves behind with what the in-process copy of the same crash point gave
fn real_kill_check(wl: &Workload, r: &RunOut, max: usize) -> (u64, u64) {
    // crash-point events in order; a fresh-base workload has two observations (directory orders) per point
    let mut pts: Vec<(u64, Vec<&Obs>)> = vec![];
    for o in r.obs.iter().filter(|o| o.mode == 'K' && o.j != usize::MAX) {
        match pts.last_mut() {
            Some((_, v)) if v[0].step == o.step && v[0].j == o.j => v.push(o),
            _ => { let n = pts.len() as u64 + 1; pts.push((n, vec![o])); }
        }
    }
    if pts.is_empty() { return (0, 0); }
    let universe: Vec<u32> = wl.steps.iter().filter_map(|s| if let Step::CreateTable(t) = s { Some(*t) } else { None }).fold(vec![], |mut v, t| { if !v.contains(&t) { v.push(t); } v });
    let stride = (pts.len() / max.max(1)).max(1);
    let (mut n, mut bad) = (0u64, 0u64);
    let exe = std::env::current_exe().expect("exe");
    for (k, os) in pts.iter().step_by(stride).take(max) {
        let root = scratch_root().with_file_name(format!("c01-kill-{}-{}", std::process::id(), k));
        let _ = std::fs::remove_dir_all(&root);
        let mut w2 = wl.clone(); w2.only = None;
        let st = std::process::Command::new(&exe).arg("child").arg(k.to_string()).args(w2.line().split_whitespace())
            .env("C01_ROOT", &root).stdout(std::process::Stdio::null()).stderr(std::process::Stdio::null()).status();
        let killed = st.map(|s| !s.success()).unwrap_or(false);
        let order = catalog_last(&root.join("db"));
        let o = os.iter().find(|x| x.div == order).unwrap_or(&os[0]);
        let (open, tabs) = scan_dir(&root.join("db"), &universe);
        n += 1;
        if !killed || open != o.open || (open == 0 && tabs != o.tables) {
            bad += 1;
            eprintln!("real kill differs from the copied image: {} at event {}: killed={} open={} vs {} tables={:?} vs {:?}", wl.line(), k, killed, open, o.open, tabs, o.tables);
        }
        let _ = std::fs::remove_dir_all(&root);
    }
    (n, bad)
}

fn search(a: &Args, prop: &'static str) {
    let mut fails: Vec<String> = vec![];
    let mut tried = 0u64;
    let mut round = 0u64;
    let budget = a.budget.min(400);          // workloads; each has hundreds of crash points
    'outer: loop {
        for (wl, _) in workloads(a, 0x5EA7C4 + round) {
            let r = run_workload(&wl);
            let n_ok = r.steps.iter().position(|s| !s.ok).unwrap_or(r.steps.len());
            let plain: Vec<Step> = r.steps[..n_ok].iter().map(|s| s.step.clone()).collect();
            let universe: Vec<u32> = plain.iter().filter_map(|s| if let Step::CreateTable(t) = s { Some(*t) } else { None }).collect();
            for o in r.obs.iter().filter(|o| o.step < n_ok) {
                tried += 1;
                let ok = if prop == "C02" { c02_ok(&plain, &universe, o) } else { c01_ok(&plain, o) };
                if !ok && fails.len() < 60 {
                    let mut w2 = wl.clone();
                    w2.only = None;
                    fails.push(format!("{} at={}.{}.{} why={}", w2.line(), o.step, if o.j == usize::MAX { "e".to_string() } else { o.j.to_string() }, o.mode, why(&r.steps, o)));
                }
            }
            if tried >= budget * 100 || a.lines.is_some() { break 'outer; }
        }
        round += 1;
        if round > budget { break; }
    }
    let mut out = format!("tried={}\n", tried);
    for f in &fails { out.push_str("FAIL "); out.push_str(f); out.push('\n'); }
    std::fs::write(&a.out, out).expect("write search output");
}

fn trace(a: &Args) {
    let line = a.rest.join(" ");
    let w = Workload::parse(&line).expect("bad line");
    let t0 = std::time::Instant::now();
    let r = run_workload(&w);
    println!("line: {}", w.line());
    if let Some(e) = &r.setup_err { println!("SETUP ERROR {}", e); }
    let plain: Vec<Step> = r.steps.iter().map(|s| s.step.clone()).collect();
    let universe: Vec<u32> = plain.iter().filter_map(|s| if let Step::CreateTable(t) = s { Some(*t) } else { None }).collect();
    for (i, s) in r.steps.iter().enumerate() {
        println!("step {} {:?} ok={} {}", i, s.step, s.ok, s.err);
        for p in &s.phys { println!("    {:?}", p); }
        if !s.ok { break; }
        for o in r.obs.iter().filter(|o| o.step == i) {
            println!("      obs j={} {} div={} open={} c01={} c02={} why={} tables={:?} probe_ok={} pages={:?} {}", if o.j == usize::MAX { -1 } else { o.j as i64 }, o.mode, o.div, o.open,
                c01_ok(&plain, o), c02_ok(&plain, &universe, o), why(&r.steps, o), o.tables, o.probe_ok, o.pages, o.note);
        }
    }
    println!("evals={} cache_hits={} obs={} shadow={:?} {:?}", r.evals, r.cache_hits, r.obs.len(), r.shadow, t0.elapsed());
}
