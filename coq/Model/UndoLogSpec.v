(* C07 -- vocabulary of the theorems about Model/UndoLog.v: what a client can observe, the state
   invariant of the storage model, and which transaction bodies the rollback theorems cover.
   Definitions only. *)
From Coq Require Import ZArith List Bool Sorted.
From TV Require Import Model.SqlSpec Model.UndoLog.
Import ListNotations.
Open Scope Z_scope.

(* the table file and the unique index: everything the observations below read, except the
   secondary index *)
Definition core3 (st : tstate) : list ent * Z * list (value * Z) := (ents st, rcount st, kidx st).

(* the state observably equals another one: rows, row count, lookups by key through the unique
   index and the outcome of the uniqueness check of every later single-row INSERT *)
Definition obs_eq (sch : schema) (a b : tstate) : Prop :=
  scan a = scan b /\ count_star a = count_star b /\
  (forall v, lookup0 sch a v = lookup0 sch b v) /\
  (forall r, ins_ok sch a r = ins_ok sch b r).

(* the state a history reaches from the empty table, and a state after BEGIN; body; ROLLBACK *)
Definition reach (sch : schema) (p : list op) : tstate := fst (run sch p (t_empty, None)).
Definition rolled_back (sch : schema) (st : tstate) (body : list op) : tstate :=
  fst (run sch (OBegin :: body ++ [ORollback]) (st, None)).

(* ------------------------------------------------------------------ state invariant *)
Definition ids_sorted (st : tstate) : Prop := StronglySorted Z.lt (map e_id (ents st)).
Definition ids_below (st : tstate) : Prop := forall e, In e (ents st) -> e_id e < nextid st.
(* every stored row that has a key is in the unique index (needed only with an integer primary
   key, where undo re-inserts index entries) *)
Definition kidx_complete (sch : schema) (st : tstate) : Prop :=
  forall e, In e (ents st) -> live e = true -> has_key sch (e_row e) = true -> kmem (c0 (e_row e)) (kidx st) = true.
Definition inv (sch : schema) (st : tstate) : Prop :=
  ids_sorted st /\ ids_below st /\ 0 <= rcount st /\ (int_pk sch = true -> kidx_complete sch st).

(* no key without row-id suffix in the secondary index (INSERT never writes one; UPDATE and undo do,
   but only on tables with an integer primary key) *)
Definition no_bare (st : tstate) : Prop := forall e, In e (sidx st) -> s_suf e <> None.

(* ------------------------------------------------------------------ covered transaction bodies *)
(* A statement of the body is covered in the state it runs in when it is
     - an INSERT that inserts all its rows or none (a multi-row INSERT failing at a later row keeps
       the earlier rows without counting them: recorded finding, class 5),
     - an UPDATE of a column that is not a key (c1, or c0 of a table without key),
     - SAVEPOINT / ROLLBACK TO / RELEASE of a savepoint created inside the body, BEGIN (an error
       inside a transaction), or no statement.
   DELETE, UPDATE of a key column, COMMIT, ROLLBACK and dropping the handle are not covered. *)
Definition ins_all_or_none (sch : schema) (st : tstate) (rows : list trow) : bool :=
  match ins_loop sch st rows [] with
  | (true, _, _) => true
  | (false, _, ids) => match ids with [] => true | _ => false end
  end.
Definition upd_sel (sch : schema) (st : tstate) (sc : colid) (w : wclause) : list ent :=
  match pk_info sch w st with
  | Some (id, wv) =>
      if negb (idx_mod sch sc) && negb (has_toast sch) then
        match find_ent id (ents st) with
        | Some e => if live e && value_eqb (c0 (e_row e)) wv then [e] else []
        | None => []
        end
      else select sch w st
  | None => select sch w st
  end.
(* statements that leave the secondary index alone: everything but an UPDATE of the indexed column
   (its undo does not put the index entry back: finding class 3) *)
Definition sec_clean (o : op) : bool := match o with OUpd C1 _ _ => false | _ => true end.
Definition names_of (l : list (Z * nat)) : list Z := map fst l.
Fixpoint zin (n : Z) (l : list Z) : bool := match l with [] => false | x :: l' => (x =? n) || zin n l' end.

Definition clean_op (sch : schema) (outer : list Z) (o : op) (s : tstate * option txn) : bool :=
  match o with
  | OIns rows => ins_all_or_none sch (fst s) rows
  | OUpd sc v w => negb (is_c0 sc && keyed sch)
  | OSave n => true
  | ORollTo n | ORelease n => negb (zin n outer)
  | OBegin | OObs => true
  | ODel _ | OCommit | ORollback | ODrop => false
  end.
Fixpoint clean_run (sch : schema) (outer : list Z) (ops : list op) (s : tstate * option txn) : bool :=
  match ops with
  | [] => true
  | o :: ops' => clean_op sch outer o s && clean_run sch outer ops' (snd (exec sch o s))
  end.
