(* C17 proofs, part 4: the hand-written two-table join path of Database::query (Model/JoinHw.v, the
   repaired code) returns exactly the rows SQL defines, for every pair of tables, join type, ON
   condition, WHERE clause and select list (SELECT * included), with bare or table-qualified column
   names -- no finding class is left for two-table joins -- provided the predicate evaluator agrees
   with the reference on the rows it is applied to (property C14). *)
From Coq Require Import ZArith List Bool Lia.
From TV Require Import Model.SqlSpec Model.PredImpl Model.JoinSpec Model.JoinExec Model.JoinHw
                       Proof.SqlSpecLaws Proof.JoinBag Proof.JoinKeys.
Import ListNotations.
Open Scope Z_scope.

(* ------------------------------------------------------------------ conjunctions *)
Lemma conj_defined e r : sem3 e r <> None -> Forall (fun c => sem3 c r <> None) (conjuncts e).
Proof.
  induction e; intros D; cbn [conjuncts]; try (constructor; [exact D|constructor]).
  rewrite sem3_and in D. apply Forall_app. split.
  - apply IHe1. destruct (sem3 e1 r), (sem3 e2 r); cbn in D; congruence.
  - apply IHe2. destruct (sem3 e1 r), (sem3 e2 r); cbn in D; congruence.
Qed.

Lemma conj_passes e r : sem3 e r <> None -> passes e r = forallb (fun c => passes c r) (conjuncts e).
Proof.
  induction e; intros D; cbn [conjuncts forallb]; try (rewrite andb_true_r; reflexivity).
  assert (sem3 e1 r <> None /\ sem3 e2 r <> None) as [D1 D2].
  { rewrite sem3_and in D. destruct (sem3 e1 r), (sem3 e2 r); cbn in D; split; congruence. }
  rewrite (passes_and e1 e2 r D1 D2), forallb_app, IHe1, IHe2; auto.
Qed.

(* ------------------------------------------------------------------ equal_coerce is sound for SQL equality *)
Lemma fcmp_eq_sym a b : fcmp a b = Some Eq -> fcmp b a = Some Eq.
Proof.
  unfold fcmp. destruct (f_ok a) eqn:A, (f_ok b) eqn:B, (f_is_nan a) eqn:NA, (f_is_nan b) eqn:NB; cbn; try discriminate.
  intros H. inversion H as [H1]. apply Z.compare_eq in H1. rewrite H1, Z.compare_refl. reflexivity.
Qed.

Lemma equal_coerce_sql a b : equal_coerce a b = true ->
  (cmp3 CEq a b <> None -> cmp3 CEq a b = Some TT) /\ (cmp3 CEq b a <> None -> cmp3 CEq b a = Some TT).
Proof.
  unfold cmp3.
  destruct a as [|x|x|x|x], b as [|y|y|y|y]; cbn [equal_coerce cmp_values]; intros H; try discriminate.
  - apply Z.eqb_eq in H. subst. rewrite Z.compare_refl. split; reflexivity.
  - unfold if_partial_cmp, ifcmp in *.
    destruct (int_float_safe x) eqn:S; cbn [andb option_map]; [|split; intros D; exfalso; apply D; reflexivity].
    rewrite (round53_small x S) in H.
    destruct (f_ok y && negb (f_is_nan y)); cbn [option_map]; [|discriminate].
    destruct (ifcmp_exact x y); try discriminate. split; reflexivity.
  - unfold if_partial_cmp, ifcmp in *.
    destruct (int_float_safe y) eqn:S; cbn [andb option_map]; [|split; intros D; exfalso; apply D; reflexivity].
    rewrite (round53_small y S) in H.
    destruct (f_ok x && negb (f_is_nan x)); cbn [option_map]; [|discriminate].
    destruct (ifcmp_exact y x); try discriminate. split; reflexivity.
  - unfold f_partial_cmp in H. destruct (fcmp x y) as [[]|] eqn:E; try discriminate.
    rewrite (fcmp_eq_sym x y E). split; reflexivity.
  - apply zlist_eqb'_eq in H. subst. assert (bytes_cmp y y = Eq) as E by (apply bytes_cmp_eq; reflexivity).
    rewrite E. split; reflexivity.
  - apply eqb_prop in H. subst. rewrite Z.compare_refl. split; reflexivity.
Qed.

(* ------------------------------------------------------------------ a key conjunct on a pair of rows *)
Lemma sem3_cross lw (l r : row) i j li ri : length l = lw ->
  cross_key lw (i, j) = [(li, ri)] ->
  exists a b, nth_error l li = a /\ nth_error r ri = b /\
    (sem3 (ECmp CEq (ECol i) (ECol j)) (l ++ r) = match a, b with Some x, Some y => cmp3 CEq x y | _, _ => None end \/
     sem3 (ECmp CEq (ECol i) (ECol j)) (l ++ r) = match a, b with Some x, Some y => cmp3 CEq y x | _, _ => None end).
Proof.
  intros Hl Hk. unfold cross_key in Hk. unfold sem3. cbn [eval]. revert Hk.
  destruct (Nat.ltb_spec i lw) as [Hi|Hi]; destruct (Nat.ltb_spec j lw) as [Hj|Hj]; cbn [andb negb]; intros Hk; try discriminate;
    inversion Hk; subst li ri; eexists; eexists; (split; [reflexivity|split; [reflexivity|]]).
  - left. rewrite (nth_error_app1 l r) by lia. rewrite (nth_error_app2 l r) by lia. rewrite Hl.
    destruct (nth_error l i); [|reflexivity]. destruct (nth_error r (j - lw)); [|reflexivity]. apply bind_ret_tv.
  - right. rewrite (nth_error_app2 l r) by lia. rewrite (nth_error_app1 l r) by lia. rewrite Hl.
    destruct (nth_error r (i - lw)); [|destruct (nth_error l j); reflexivity].
    destruct (nth_error l j); [|reflexivity]. apply bind_ret_tv.
Qed.

(* a `column = column` conjunct on the joined row *)
Lemma sem3_same (row : row) i j :
  sem3 (ECmp CEq (ECol i) (ECol j)) row =
  match nth_error row i, nth_error row j with Some x, Some y => cmp3 CEq x y | _, _ => None end.
Proof.
  unfold sem3. cbn [eval]. destruct (nth_error row i); [|reflexivity]. destruct (nth_error row j); [|reflexivity].
  apply bind_ret_tv.
Qed.

Lemma key_shape c k : key_of c = Some k -> c = ECmp CEq (ECol (fst k)) (ECol (snd k)).
Proof.
  destruct c; try discriminate. destruct op; try discriminate. destruct c1; try discriminate. destruct c2; try discriminate.
  cbn. intros H. inversion H. reflexivity.
Qed.

Lemma cross_key_cases lw k : cross_key lw k = [] \/ exists li ri, cross_key lw k = [(li, ri)].
Proof.
  destruct k as [i j]. unfold cross_key.
  destruct ((i <? lw)%nat && negb (j <? lw)%nat); [right; eauto|].
  destruct ((j <? lw)%nat && negb (i <? lw)%nat); [right; eauto|left; reflexivity].
Qed.

(* the hash path never accepts a pair on which a left-right key conjunct is not TRUE *)
Lemma cross_conj_sound lw ks (l r : row) i j li ri :
  length l = lw -> cross_key lw (i, j) = [(li, ri)] -> In (li, ri) ks ->
  hw_key_match ks l r = true ->
  sem3 (ECmp CEq (ECol i) (ECol j)) (l ++ r) <> None ->
  passes (ECmp CEq (ECol i) (ECol j)) (l ++ r) = true.
Proof.
  intros Hl CK Hin Hm DF.
  unfold hw_key_match in Hm. apply andb_true_iff in Hm. destruct Hm as [_ Hm].
  rewrite forallb_forall in Hm. specialize (Hm _ Hin). cbn [fst snd] in Hm.
  destruct (sem3_cross lw l r i j li ri Hl CK) as [a [b [Ha [Hb Hs]]]]. rewrite Ha, Hb in Hm.
  destruct a as [x|]; [|discriminate]. destruct b as [y|]; [|discriminate].
  apply andb_true_iff in Hm. destruct Hm as [_ Hm].
  destruct (equal_coerce_sql x y Hm) as [E1 E2]. unfold passes.
  destruct Hs as [Hs|Hs]; rewrite Hs in *; [rewrite (E1 DF)|rewrite (E2 DF)]; reflexivity.
Qed.

(* ------------------------------------------------------------------ the hash path accepts every pair whose ON condition is TRUE *)
Definition fold0 (b : Z) : Z := if b =? 2 ^ 63 then 0 else b.
Definition kmatch (a b : value) : bool := nkey_eqb (norm_key a) (norm_key b) && equal_coerce a b.

Lemma fkey_fold a b : f_ok a = true -> f_ok b = true -> f_key a = f_key b -> fold0 a = fold0 b.
Proof.
  unfold f_ok, f_key, f_sign, fold0. intros Ha Hb.
  apply andb_true_iff in Ha. destruct Ha as [Ha1 Ha2]. apply andb_true_iff in Hb. destruct Hb as [Hb1 Hb2].
  apply Z.leb_le in Ha1. apply Z.ltb_lt in Ha2. apply Z.leb_le in Hb1. apply Z.ltb_lt in Hb2.
  change (2 ^ 64) with 18446744073709551616 in *. change (2 ^ 63) with 9223372036854775808 in *.
  pose proof (Z.div_mod a 9223372036854775808 ltac:(lia)) as Da. pose proof (Z.div_mod b 9223372036854775808 ltac:(lia)) as Db.
  pose proof (Z.mod_pos_bound a 9223372036854775808 ltac:(lia)) as Ma. pose proof (Z.mod_pos_bound b 9223372036854775808 ltac:(lia)) as Mb.
  assert (a / 9223372036854775808 < 2) as Qa by (apply Z.div_lt_upper_bound; lia).
  assert (b / 9223372036854775808 < 2) as Qb by (apply Z.div_lt_upper_bound; lia).
  assert (0 <= a / 9223372036854775808) as Pa by (apply Z.div_pos; lia).
  assert (0 <= b / 9223372036854775808) as Pb by (apply Z.div_pos; lia).
  destruct (Z.eqb_spec (a / 9223372036854775808) 0) as [Sa|Sa], (Z.eqb_spec (b / 9223372036854775808) 0) as [Sb|Sb];
    destruct (Z.eqb_spec a 9223372036854775808) as [Ea|Ea], (Z.eqb_spec b 9223372036854775808) as [Eb|Eb]; intros H; lia.
Qed.

Lemma finite_of_flags b : f_ok b = true -> f_is_nan b = false -> f_is_inf b = false -> f_finite b = true.
Proof.
  unfold f_finite, f_is_nan, f_is_inf. intros O N I. rewrite O. cbn [andb].
  destruct (f_exp b =? 2047); [|reflexivity]. cbn [andb] in *. destruct (f_frac b =? 0); discriminate.
Qed.

Lemma norm_zero_fold a b : f_ok a = true -> f_ok b = true -> fold0 a = fold0 b -> norm_key (VFloat a) = norm_key (VFloat b).
Proof.
  unfold fold0. intros _ _. destruct (Z.eqb_spec a (2 ^ 63)) as [Ea|Ea], (Z.eqb_spec b (2 ^ 63)) as [Eb|Eb]; intros H; subst; try reflexivity; try (vm_compute; reflexivity).
Qed.

Lemma cmp3_tt_kmatch x y : cmp3 CEq x y = Some TT -> kmatch x y = true /\ kmatch y x = true.
Proof.
  unfold cmp3, kmatch.
  destruct x as [|a|a|a|a], y as [|b|b|b|b]; cbn [cmp_values equal_coerce]; intros H; try discriminate.
  - destruct (a ?= b) eqn:E; try discriminate. apply Z.compare_eq in E. subst. cbn [norm_key nkey_eqb]. rewrite !Z.eqb_refl. split; reflexivity.
  - unfold ifcmp, if_partial_cmp in *. destruct (int_float_safe a) eqn:S; cbn [andb] in *; [|discriminate].
    rewrite (round53_small a S). destruct (f_ok b) eqn:O; cbn [andb] in *; [|discriminate].
    destruct (f_is_nan b) eqn:N; cbn [negb option_map] in *; [discriminate|].
    destruct (ifcmp_exact a b) eqn:E; try discriminate.
    unfold ifcmp_exact in E. destruct (f_is_inf b) eqn:I; [destruct (f_sign b =? 0); discriminate|].
    apply Z.compare_eq in E. cbn [norm_key]. rewrite (finite_of_flags b O N I), (round53_small a S), E.
    cbn [nkey_eqb]. rewrite Z.eqb_refl. split; reflexivity.
  - unfold ifcmp, if_partial_cmp in *. destruct (int_float_safe b) eqn:S; cbn [andb] in *; [|discriminate].
    rewrite (round53_small b S). destruct (f_ok a) eqn:O; cbn [andb] in *; [|discriminate].
    destruct (f_is_nan a) eqn:N; cbn [negb option_map] in *; [discriminate|].
    destruct (ifcmp_exact b a) eqn:E; try discriminate.
    unfold ifcmp_exact in E. destruct (f_is_inf a) eqn:I; [destruct (f_sign a =? 0); discriminate|].
    apply Z.compare_eq in E. cbn [norm_key]. rewrite (finite_of_flags a O N I), (round53_small b S), E.
    cbn [nkey_eqb]. rewrite Z.eqb_refl. split; reflexivity.
  - unfold f_partial_cmp. destruct (fcmp a b) as [c|] eqn:E; cbn [option_map] in H; [|discriminate].
    destruct c; try discriminate. rewrite (fcmp_eq_sym a b E).
    unfold fcmp in E. destruct (f_ok a) eqn:Oa; [|discriminate]. destruct (f_ok b) eqn:Ob; [|discriminate].
    destruct (f_is_nan a); [discriminate|]. destruct (f_is_nan b); [discriminate|]. cbn in E.
    inversion E as [E1]. apply Z.compare_eq in E1.
    rewrite (norm_zero_fold a b Oa Ob (fkey_fold a b Oa Ob E1)).
    assert (forall k, nkey_eqb k k = true) as R.
    { intros [v|v|v|v|]; cbn; try apply Z.eqb_refl; try reflexivity; [apply zlist_eqb'_eq; reflexivity|destruct v; reflexivity]. }
    rewrite R. split; reflexivity.
  - destruct (bytes_cmp a b) eqn:E; try discriminate. apply bytes_cmp_eq in E. subst. cbn [norm_key nkey_eqb].
    assert (zlist_eqb' b b = true) as R by (apply zlist_eqb'_eq; reflexivity). rewrite R. split; reflexivity.
  - destruct a, b; cbn in H; try discriminate; split; reflexivity.
Qed.

Lemma kmatch_not_null a b : kmatch a b = true -> a <> VNull /\ b <> VNull.
Proof. unfold kmatch. intros H. apply andb_true_iff in H. destruct H as [_ H]. destruct a, b; cbn in H; try discriminate; split; discriminate. Qed.

Lemma hw_keys_complete lw e (l r : row) :
  length l = lw ->
  passes e (l ++ r) = true ->
  hw_key_match (cross_keys lw (equi_keys e)) l r = true.
Proof.
  intros Hl P.
  assert (sem3 e (l ++ r) <> None) as D by (unfold passes in P; destruct (sem3 e (l ++ r)); [discriminate|discriminate P]).
  rewrite (conj_passes e _ D) in P. rewrite forallb_forall in P.
  (* every key the hash path looks at holds two matching values *)
  assert (forall k, In k (cross_keys lw (equi_keys e)) ->
            exists a b, nth_error l (fst k) = Some a /\ nth_error r (snd k) = Some b /\ kmatch a b = true) as K.
  { intros [li ri] Hk. unfold cross_keys in Hk. apply in_flat_map in Hk. destruct Hk as [[i j] [Hij Hk]].
    unfold equi_keys in Hij. apply in_flat_map in Hij. destruct Hij as [c [Hc Hij]].
    destruct (key_of c) as [k0|] eqn:Kc; [|destruct Hij]. destruct Hij as [Hij|[]]. subst k0.
    destruct c; try discriminate. destruct op; try discriminate. destruct c1; try discriminate. destruct c2; try discriminate.
    cbn [key_of] in Kc. inversion Kc; subst i0 i1. clear Kc.
    assert (cross_key lw (i, j) = [(li, ri)]) as CK.
    { unfold cross_key in *. destruct ((i <? lw)%nat && negb (j <? lw)%nat); [destruct Hk as [Hk|[]]; rewrite Hk; reflexivity|].
      destruct ((j <? lw)%nat && negb (i <? lw)%nat); [destruct Hk as [Hk|[]]; rewrite Hk; reflexivity|destruct Hk]. }
    specialize (P _ Hc). unfold passes in P.
    destruct (sem3_cross lw l r i j li ri Hl CK) as [a [b [Ha [Hb Hs]]]]. cbn [fst snd].
    destruct Hs as [Hs|Hs]; rewrite Hs in P; destruct a as [x|]; try discriminate; destruct b as [y|]; try discriminate;
      exists x, y; (split; [exact Ha|split; [exact Hb|]]).
    - destruct (cmp3 CEq x y) as [[]|] eqn:E; try discriminate. apply (cmp3_tt_kmatch x y E).
    - destruct (cmp3 CEq y x) as [[]|] eqn:E; try discriminate. apply (cmp3_tt_kmatch y x E). }
  unfold hw_key_match. apply andb_true_iff. split; [apply andb_true_iff; split|].
  - apply negb_true_iff. apply not_true_is_false. intros X. unfold null_key in X. apply existsb_exists in X.
    destruct X as [i [Hi X]]. apply in_map_iff in Hi. destruct Hi as [k [Hk1 Hk2]]. subst i.
    destruct (K k Hk2) as [a [b [Ha [Hb M]]]]. rewrite Ha in X. destruct (kmatch_not_null a b M) as [Na _]. destruct a; try discriminate. congruence.
  - apply negb_true_iff. apply not_true_is_false. intros X. unfold null_key in X. apply existsb_exists in X.
    destruct X as [i [Hi X]]. apply in_map_iff in Hi. destruct Hi as [k [Hk1 Hk2]]. subst i.
    destruct (K k Hk2) as [a [b [Ha [Hb M]]]]. rewrite Hb in X. destruct (kmatch_not_null a b M) as [_ Nb]. destruct b; try discriminate. congruence.
  - apply forallb_forall. intros k Hk. destruct (K k Hk) as [a [b [Ha [Hb M]]]]. rewrite Ha, Hb. exact M.
Qed.

(* ------------------------------------------------------------------ the pair test of the implementation = the ON condition *)
Definition pred_ok (e : expr) (rows : table) : Prop := forall r, In r rows -> eval_expr e r = PredImpl.Ok (passes e r).

Lemma ev_ok e rows r : pred_ok e rows -> In r rows -> ev e r = passes e r.
Proof. intros H Hin. unfold ev. rewrite (H r Hin). reflexivity. Qed.

Lemma in_pairs L R (l r : row) : In l L -> In r R -> In (l ++ r) (pairs_of L R).
Proof. intros Hl Hr. unfold pairs_of. apply in_flat_map. exists l. split; [exact Hl|]. apply in_map. exact Hr. Qed.

(* the whole test of the hash plan (hash keys + same-side equalities) = the ON condition *)
Lemma hw_hash_cond lw e (l r : row) :
  length l = lw -> pure_equi e = true -> sem3 e (l ++ r) <> None ->
  (if is_nil (cross_keys lw (equi_keys e)) then true else hw_key_match (cross_keys lw (equi_keys e)) l r)
  && same_side_match (same_keys lw (equi_keys e)) (l ++ r) = passes e (l ++ r).
Proof.
  intros Hl Hp D. set (ks := cross_keys lw (equi_keys e)). set (ss := same_keys lw (equi_keys e)).
  destruct (passes e (l ++ r)) eqn:P.
  - apply andb_true_iff. split.
    + destruct (is_nil ks); [reflexivity|]. apply (hw_keys_complete lw e l r Hl P).
    + unfold same_side_match. apply forallb_forall. intros k Hk. unfold ss, same_keys in Hk. apply filter_In in Hk. destruct Hk as [Hk _].
      unfold equi_keys in Hk. apply in_flat_map in Hk. destruct Hk as [c [Hc Hk]].
      destruct (key_of c) as [k0|] eqn:Kc; [|destruct Hk]. destruct Hk as [Hk|[]]. subst k0.
      rewrite (conj_passes e _ D) in P. rewrite forallb_forall in P. specialize (P c Hc).
      rewrite (key_shape c k Kc) in P. unfold passes in P. rewrite sem3_same in P.
      destruct (nth_error (l ++ r) (fst k)) as [x|]; [|discriminate]. destruct (nth_error (l ++ r) (snd k)) as [y|]; [|discriminate].
      destruct (cmp3 CEq x y) as [[]|] eqn:E; try discriminate.
      destruct (cmp3_tt_kmatch x y E) as [M _]. unfold kmatch in M. apply andb_true_iff in M. apply M.
  - destruct ((if is_nil ks then true else hw_key_match ks l r) && same_side_match ss (l ++ r)) eqn:I; [|reflexivity].
    exfalso. apply andb_true_iff in I. destruct I as [I1 I2].
    assert (passes e (l ++ r) = true) as X; [|congruence].
    rewrite (conj_passes e _ D). apply forallb_forall. intros c Hc.
    pose proof (conj_defined e _ D) as DF. rewrite Forall_forall in DF. specialize (DF c Hc).
    unfold pure_equi in Hp. rewrite forallb_forall in Hp. specialize (Hp c Hc). unfold is_key in Hp.
    destruct (key_of c) as [[i j]|] eqn:Kc; [|discriminate]. pose proof (key_shape c (i, j) Kc) as Sc. cbn [fst snd] in Sc. subst c.
    assert (In (i, j) (equi_keys e)) as Hij.
    { unfold equi_keys. apply in_flat_map. exists (ECmp CEq (ECol i) (ECol j)). split; [exact Hc|left; reflexivity]. }
    destruct (cross_key_cases lw (i, j)) as [CK|[li [ri CK]]].
    + (* same side *)
      assert (In (i, j) ss) as Hs by (unfold ss, same_keys; apply filter_In; split; [exact Hij|rewrite CK; reflexivity]).
      unfold same_side_match in I2. rewrite forallb_forall in I2. specialize (I2 _ Hs). cbn [fst snd] in I2.
      unfold passes. rewrite sem3_same in *.
      destruct (nth_error (l ++ r) i) as [x|]; [|discriminate]. destruct (nth_error (l ++ r) j) as [y|]; [|discriminate].
      destruct (equal_coerce_sql x y I2) as [E1 _]. rewrite (E1 DF). reflexivity.
    + assert (In (li, ri) ks) as Hin.
      { unfold ks, cross_keys. apply in_flat_map. exists (i, j). split; [exact Hij|rewrite CK; left; reflexivity]. }
      destruct (is_nil ks) eqn:N; [destruct ks; [destruct Hin|discriminate]|].
      apply (cross_conj_sound lw ks l r i j li ri Hl CK Hin I1 DF).
Qed.

Lemma hw_cond_is_on lw qual on (L R : table) (l r : row) :
  Forall (fun l => length l = lw) L ->
  (forall e, on = Some e -> pred_ok e (pairs_of L R)) ->
  pair_defined on L R = true ->
  In l L -> In r R ->
  hw_cond lw qual on l r = pair_tt on l r.
Proof.
  intros HW Hev Hdef Hl Hr. destruct on as [e|]; [|reflexivity].
  cbn [hw_cond pair_tt]. unfold on_tt.
  assert (sem3 e (l ++ r) <> None) as D.
  { cbn [pair_defined] in Hdef. unfold on_defined in Hdef. rewrite forallb_forall in Hdef. specialize (Hdef l Hl).
    rewrite forallb_forall in Hdef. specialize (Hdef r Hr). unfold on3 in Hdef. destruct (sem3 e (l ++ r)); [discriminate|discriminate Hdef]. }
  assert (length l = lw) as Hlen by (rewrite Forall_forall in HW; apply HW; exact Hl).
  destruct (hash_plan lw qual e) eqn:HP.
  - unfold hash_plan in HP. apply andb_true_iff in HP. destruct HP as [Hp _].
    apply (hw_hash_cond lw e l r Hlen Hp D).
  - apply ev_ok with (rows := pairs_of L R); [apply Hev; reflexivity|apply in_pairs; assumption].
Qed.

(* ------------------------------------------------------------------ join_rows depends on the condition only on L x R *)
Lemma join_rows_ext_in jt lw rw (on on' : row -> row -> bool) (L R : table) :
  (forall l r, In l L -> In r R -> on l r = on' l r) ->
  join_rows jt lw rw on L R = join_rows jt lw rw on' L R.
Proof.
  intros E. unfold join_rows, join_g, inner_part, left_part, right_part.
  f_equal; [|f_equal].
  - apply flat_map_ext_in. intros l Hl. f_equal. apply filter_ext_in. intros r Hr. apply E; assumption.
  - destruct (left_outer jt); [|reflexivity]. f_equal. apply filter_ext_in. intros l Hl. f_equal.
    apply existsb_ext_in. intros r Hr. apply E; assumption.
  - destruct (right_outer jt); [|reflexivity]. f_equal. apply filter_ext_in. intros r Hr. f_equal.
    apply existsb_ext_in. intros l Hl. apply E; assumption.
Qed.

(* ------------------------------------------------------------------ the theorem *)
Theorem hw2_correct_l :
  forall jt lw rw qual on w sel (L R : table) t s,
  let q := mkq [(lw, L); (rw, R)] [(jt, on)] w sel in
  Forall (fun l => length l = lw) L ->
  (forall e, opt_on jt on = Some e -> pred_ok e (pairs_of L R)) ->
  (forall e, w = Some e -> pred_ok e (join_rows jt lw rw (pair_tt (opt_on jt on)) L R)) ->
  hw_model q qual = HRows t ->
  query_spec q = Some s ->
  t = s.
Proof.
  intros jt lw rw qual on w sel L R t s q HW Hon Hw Hm Hs.
  unfold hw_model, q in Hm. cbn [q_tabs q_joins q_sel q_where] in Hm.
  set (on' := opt_on jt on) in *.
  unfold query_spec, q in Hs. cbn [q_tabs q_joins q_sel q_where from_spec] in Hs. fold on' in Hs.
  destruct (pair_defined on' L R) eqn:Hdef; [|discriminate].
  unfold hw2 in Hm. fold on' in Hm.
  rewrite (join_rows_ext_in jt lw rw (hw_cond lw qual on') (pair_tt on') L R) in Hm.
  2:{ intros l r Hl Hr. apply (hw_cond_is_on lw qual on' L R l r); auto. }
  destruct (hw_status lw qual on' w (join_rows jt lw rw (pair_tt on') L R) L R) as [|p|p]; [|destruct p; discriminate|discriminate].
  destruct w as [e|].
  - destruct (defined_on e (join_rows jt lw rw (pair_tt on') L R)); [|discriminate].
    rewrite (filter_ext_in (ev e) (passes e)) in Hm.
    + rewrite Hs in Hm. inversion Hm. reflexivity.
    + intros x Hx. apply ev_ok with (rows := join_rows jt lw rw (pair_tt on') L R); [apply Hw; reflexivity|exact Hx].
  - rewrite Hs in Hm. inversion Hm. reflexivity.
Qed.
