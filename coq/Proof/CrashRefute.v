(* C01 / C02 - where the protocol model does NOT keep the property: one concrete workload and
   crash position per known class, evaluated by vm_compute.  The same workloads are run on the
   real database by the crash harness (known_findings.d/C01.json, C02.json). *)
From Coq Require Import ZArith List Bool.
From TV Require Import Model.Crash.
Import ListNotations.
Open Scope Z_scope.

(* CREATE TABLE t1; INSERT; CREATE TABLE t2 *)
Definition w_catalog : list op :=
  [OCreate 1 1 2 3 2; ODml 1 [(1, 1)] [BStore 1 0 4; BStore 1 1 5; BStore 101 1 6] []; OCreate 2 7 2 8 2].

(* class 3: pages stored behind the dirty tracker's back are not in the power-loss image:
   after the acknowledged INSERT the header page (1,0) of the table is still the one synced at creation *)
Lemma power_header_stale_refuted_l :
  exists os i, wf_run init os = true /\ in_txn (run init (firstn i os)) = false
    /\ vol (run init (firstn i os)) (1, 0) = Some 4
    /\ r_pages (recover Power (run init (firstn i os))) (1, 0) = Some 1.
Proof. exists w_catalog, 2%nat. vm_compute. repeat split; auto. Qed.

(* Database::checkpoint() msyncs the open data files before it truncates the log and syncs the
   truncation: page (1,2), logged and acknowledged, survives the checkpoint and the next batch *)
Definition w_apickpt : list op :=
  [OCreate 1 1 2 3 2; OCreate 2 4 2 5 2;
   ODml 1 [(1, 2)] [BGrow 1; BStore 1 2 6] [];
   OApiCkpt [1; 101; 2; 102];
   ODml 2 [(2, 2)] [BGrow 2; BStore 2 2 7] []].

Example power_apickpt_survives :
  wf_run init w_apickpt = true /\ in_txn (run init w_apickpt) = false
  /\ vol (run init w_apickpt) (1, 2) = Some 6
  /\ r_pages (recover Power (run init w_apickpt)) (1, 2) = Some 6
  /\ r_pages (recover Power (at_pos w_apickpt 3 5)) (1, 2) = Some 6     (* truncated, truncation not yet synced *)
  /\ r_pages (recover Kill (at_pos w_apickpt 3 5)) (1, 2) = Some 6.
Proof. vm_compute. repeat split; reflexivity. Qed.

(* class 2: a process kill while pages are dirty (open transaction after a checkpoint: nothing in the
   log covers the pages): the in-place stores of the uncommitted transaction are in the image,
   here torn between the two pages of one statement *)
Definition w_torn : list op :=
  [OCreate 1 1 2 3 2; ODml 1 [(1, 1)] [BStore 1 0 4; BStore 1 1 5; BStore 101 1 6] []; OCkpt [1]; OBegin;
   ODml 1 [(1, 1); (1, 2)] [BStore 1 1 7; BGrow 1; BStore 1 2 8] []].

Lemma kill_torn_refuted_l :
  exists os i n, wf_run init os = true
    /\ quiet (at_pos os i n) = false
    /\ r_pages (recover Kill (at_pos os i n)) (1, 1) = Some 7        (* first page of the in-flight statement: new *)
    /\ r_pages (recover Kill (at_pos os i n)) (1, 2) = None          (* second page: not yet *)
    /\ r_pages (recover Kill (at_pos os i 0)) (1, 1) = Some 5.       (* acknowledged image *)
Proof. exists w_torn, 4%nat, 4%nat. vm_compute. repeat split; auto. Qed.

(* class 5: table id of a user table = id of a system table (database closed before its first
   CREATE TABLE) and turdb_catalog/ listed after root/: the frames of table 1 are replayed into
   the system table's file; after a power loss the acknowledged INSERT into table 1 is gone
   (its leaf page is back to the empty root synced at creation), while without the collision it survives *)
Lemma power_id_collision_refuted_l :
  exists os i, wf_run init os = true /\ in_txn (run init (firstn i os)) = false
    /\ vol (run init (firstn i os)) (1, 1) = Some 5
    /\ r_pages (recover_sh [1] Power (run init (firstn i os))) (1, 1) = Some 2
    /\ r_pages (recover Power (run init (firstn i os))) (1, 1) = Some 5.
Proof. exists w_catalog, 2%nat. vm_compute. repeat split; auto. Qed.
