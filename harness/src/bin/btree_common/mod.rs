//! Shared driver for C28 / C29: runs B-tree operation histories on the real
//! `turdb::btree::BTree` over an `MmapStorage` file under /verif/build/tmp.
#![allow(dead_code)]
use std::path::PathBuf;
use turdb::btree::{BTree, InsertUniqueResult};
use turdb::storage::MmapStorage;
use tvh::*;
pub mod hist;
pub mod gen;
pub mod pages;

pub struct Real {
    pub path: PathBuf,
    pub storage: Option<MmapStorage>,
    pub root: u32,
    pub hint: Option<u32>,
}

#[derive(Clone, Debug, PartialEq, Eq)]
pub enum Out {
    Unit,                       // Ok(())
    Bool(bool),                 // Ok(bool)
    Uniq(bool),                 // true = Inserted, false = Duplicate
    Opt(Option<Vec<u8>>),       // get
    List(Vec<(Vec<u8>, Vec<u8>)>), // cursor enumeration
    Err(String),
    Panic(String),
}

static COUNTER: std::sync::atomic::AtomicU64 = std::sync::atomic::AtomicU64::new(0);

impl Real {
    pub fn new(tag: &str) -> Real {
        let dir = PathBuf::from("/verif/build/tmp");
        std::fs::create_dir_all(&dir).expect("tmp dir");
        let n = COUNTER.fetch_add(1, std::sync::atomic::Ordering::Relaxed);
        let path = dir.join(format!("{}-{}-{}.db", tag, std::process::id(), n));
        let mut storage = MmapStorage::create(&path, 2).expect("create storage");
        { BTree::create(&mut storage, 1).expect("create btree"); }
        Real { path, storage: Some(storage), root: 1, hint: None }
    }
    pub fn st(&mut self) -> &mut MmapStorage { self.storage.as_mut().unwrap() }
    pub fn page_count(&self) -> u32 { self.storage.as_ref().unwrap().page_count() }

    fn with_tree<T: 'static>(&mut self, f: impl FnOnce(&mut BTree<'_, MmapStorage>) -> eyre::Result<T>) -> Result<T, Out> {
        let root = self.root;
        let hint = self.hint;
        let storage = self.storage.as_mut().unwrap();
        let r = std::panic::catch_unwind(std::panic::AssertUnwindSafe(|| {
            let mut bt = BTree::with_rightmost_hint(storage, root, hint)?;
            let r = f(&mut bt);
            Ok::<_, eyre::Report>((r, bt.root_page(), bt.rightmost_hint()))
        }));
        match r {
            Ok(Ok((r, root, hint))) => {
                self.root = root;
                self.hint = hint;
                match r { Ok(v) => Ok(v), Err(e) => Err(Out::Err(format!("{}", e))) }
            }
            Ok(Err(e)) => Err(Out::Err(format!("open: {}", e))),
            Err(p) => {
                let msg = if let Some(s) = p.downcast_ref::<&str>() { s.to_string() }
                          else if let Some(s) = p.downcast_ref::<String>() { s.clone() } else { "panic".into() };
                Err(Out::Panic(msg))
            }
        }
    }
    pub fn insert(&mut self, k: &[u8], v: &[u8]) -> Out {
        match self.with_tree(|bt| bt.insert(k, v)) { Ok(()) => Out::Unit, Err(o) => o }
    }
    pub fn append(&mut self, k: &[u8], v: &[u8]) -> Out {
        match self.with_tree(|bt| bt.insert_append(k, v)) { Ok(()) => Out::Unit, Err(o) => o }
    }
    pub fn iine(&mut self, k: &[u8], v: &[u8]) -> Out {
        match self.with_tree(|bt| bt.insert_if_not_exists(k, v)) {
            Ok(InsertUniqueResult::Inserted) => Out::Uniq(true),
            Ok(InsertUniqueResult::Duplicate(_)) => Out::Uniq(false),
            Err(o) => o,
        }
    }
    pub fn update(&mut self, k: &[u8], v: &[u8]) -> Out {
        match self.with_tree(|bt| bt.update(k, v)) { Ok(b) => Out::Bool(b), Err(o) => o }
    }
    pub fn delete(&mut self, k: &[u8]) -> Out {
        match self.with_tree(|bt| bt.delete(k)) { Ok(b) => Out::Bool(b), Err(o) => o }
    }
    pub fn get(&mut self, k: &[u8]) -> Out {
        match self.with_tree(|bt| Ok(bt.get(k)?.map(|v| v.to_vec()))) { Ok(o) => Out::Opt(o), Err(o) => o }
    }
    /// cursor_first, then key/value/advance until the cursor reports exhaustion
    pub fn scan_fwd(&mut self, limit: usize) -> Out {
        match self.with_tree(|bt| {
            let mut c = bt.cursor_first()?;
            let mut out = vec![];
            while c.valid() && out.len() < limit {
                out.push((c.key()?.to_vec(), c.value()?.to_vec()));
                if !c.advance()? { break; }
            }
            Ok(out)
        }) { Ok(l) => Out::List(l), Err(o) => o }
    }
    pub fn scan_seek(&mut self, k: &[u8], limit: usize) -> Out {
        match self.with_tree(|bt| {
            let mut c = bt.cursor_seek(k)?;
            let mut out = vec![];
            while c.valid() && out.len() < limit {
                out.push((c.key()?.to_vec(), c.value()?.to_vec()));
                if !c.advance()? { break; }
            }
            Ok(out)
        }) { Ok(l) => Out::List(l), Err(o) => o }
    }
    /// cursor_last, then key/value/prev until exhaustion
    pub fn scan_bwd(&mut self, limit: usize) -> Out {
        match self.with_tree(|bt| {
            let mut c = bt.cursor_last()?;
            let mut out = vec![];
            while c.valid() && out.len() < limit {
                out.push((c.key()?.to_vec(), c.value()?.to_vec()));
                if !c.prev()? { break; }
            }
            Ok(out)
        }) { Ok(l) => Out::List(l), Err(o) => o }
    }
}

impl Drop for Real {
    fn drop(&mut self) {
        self.storage = None;
        let _ = std::fs::remove_file(&self.path);
    }
}
