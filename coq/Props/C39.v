(* C39 - The memory budget is a hard limit.
   Property theorems only.  Model: Model/Budget.v (MemoryBudget::allocate / release at the
   granularity of single atomic loads and compare-exchanges; constants regenerated from
   src/config/constants.rs).  [run (step_w lk) w s]: w is ANY list of naturals - entry 2t is a
   step of thread t, entry 2t+1 a spurious failure of thread t's compare_exchange_weak - so each
   theorem covers every number of threads, every interleaving and every length.
   lk = false: the code as it is; lk = true: allocate under a mutex (the proposed repair). *)
From Coq Require Import ZArith List Bool Arith.
From TV Require Import Lib.Interleave Gen.BudgetConsts Model.Budget
  Proof.Budget Proof.BudgetInv Proof.BudgetLimit Proof.BudgetRepair Proof.BudgetClient.
Import ListNotations.
Open Scope Z_scope.

(* the scheduler-driven runs of the correspondence (thread by thread, hook site to hook site)
   are runs in the sense of the theorems below *)
Theorem coarse_runs_are_runs :
  forall lk fuel sched s, exists w, run_coarse (step lk) at_site fuel sched s = run (step_w lk) w s.
Proof. exact run_coarse_is_run_w. Qed.

(* Each pool's usage is exactly what the completed calls did to it (a successful allocate adds
   n, a release subtracts min(n, counter)) - nothing is lost or counted twice under any
   interleaving. *)
Theorem pool_accounting_applied :
  forall lk limreq ps w q,
    let s := run (step_w lk) w (init limreq ps) in
    get (sh s) q = sum_thr (fun th => applied q (tlog th)) (thrs s).
Proof. exact accounting_applied_l. Qed.

(* ... hence, while no release asked for more than its pool held, usage = successful
   allocations minus releases *)
Theorem pool_accounting_exact :
  forall lk limreq ps w,
    let s := run (step_w lk) w (init limreq ps) in
    all_events (fun e => negb (saturating e)) s = true ->
    forall q, get (sh s) q = sum_thr (fun th => net q (tlog th)) (thrs s).
Proof. exact pool_accounting_exact_l. Qed.

(* ... and usage is back to zero when everything that was allocated has been released *)
Theorem all_released_zero :
  forall lk limreq ps w,
    let s := run (step_w lk) w (init limreq ps) in
    all_events (fun e => negb (saturating e)) s = true ->
    (forall x q, In x (thrs s) -> net q (tlog (snd x)) = 0) ->
    total (sh s) = 0.
Proof. exact all_released_zero_l. Qed.

(* A release saturates only on client misuse: if no thread ever released more of a pool than it
   had itself allocated and not yet released ([disciplined]: every moment of every thread's
   history has a non-negative balance in every pool), no release saturates ... *)
Theorem release_saturates_only_on_misuse :
  forall lk limreq ps w,
    let s := run (step_w lk) w (init limreq ps) in
    disciplined s = true -> all_events nonsat s = true.
Proof. exact disciplined_never_saturates_l. Qed.

(* ... so for such clients usage = successful allocations minus releases, in every pool,
   under every interleaving *)
Theorem disciplined_accounting_exact :
  forall lk limreq ps w,
    let s := run (step_w lk) w (init limreq ps) in
    disciplined s = true ->
    forall q, get (sh s) q = sum_thr (fun th => net q (tlog th)) (thrs s).
Proof. exact disciplined_accounting_exact_l. Qed.

(* counters never go negative and never wrap *)
Theorem counters_in_range :
  forall lk limreq ps w, progs_wf ps = true ->
    forall q, 0 <= get (sh (run (step_w lk) w (init limreq ps))) q < U64.
Proof. exact counters_in_range_l. Qed.

(* The limit, for the code as it is (and for the repair): the total can only get above the
   limit through a successful allocation whose snapshot had gone stale before its CAS
   (class 1: another pool's counter grew; class 2: the own pool's counter grew and came back). *)
Theorem limit_unless_stale :
  forall lk limreq ps w, progs_wf ps = true ->
    let s := run (step_w lk) w (init limreq ps) in
    all_events nonstale s = true -> total (sh s) <= lim s.
Proof. exact limit_unless_stale_l. Qed.

(* both kinds of stale decision happen in the code as it is (finding F-C39-1 / F-C39-2; the
   schedules are the witnesses replayed on the real MemoryBudget by the harness) *)
Theorem limit_refuted_cross_pool :
  let s := run_coarse (step false) at_site 64 cross_sched (init 4194304 (number 0 cross_progs)) in
  lim s = 4194304 /\ total (sh s) = 6291456 /\ last_class s 1 = 1.
Proof. exact limit_refuted_cross_pool_l. Qed.

Theorem limit_refuted_same_pool_aba :
  let s := run_coarse (step false) at_site 64 aba_sched (init 4194304 (number 0 aba_progs)) in
  lim s = 4194304 /\ total (sh s) = 4718592 /\ last_class s 0 = 2.
Proof. exact limit_refuted_same_pool_aba_l. Qed.

(* a single thread (any program, spurious CAS failures included) never exceeds the limit *)
Theorem single_thread_within_limit :
  forall lk limreq ps t0 w, progs_wf ps = true ->
    (forall x, In x w -> Nat.div2 x = t0) ->
    let s := run (step_w lk) w (init limreq ps) in total (sh s) <= lim s.
Proof. exact single_thread_within_limit_l. Qed.

(* THE REPAIR: with allocate's check-and-CAS under one mutex (release still lock-free) the
   budget is a hard limit in every reachable state *)
Theorem repaired_within_limit :
  forall limreq ps w, progs_wf ps = true ->
    let s := run (step_w true) w (init limreq ps) in total (sh s) <= lim s.
Proof. exact repaired_within_limit_l. Qed.

Theorem repaired_mutual_exclusion :
  forall limreq ps w t u th thu, progs_wf ps = true ->
    let s := run (step_w true) w (init limreq ps) in
    lget (thrs s) t = Some th -> lget (thrs s) u = Some thu ->
    in_body (tpc th) = true -> in_body (tpc thu) = true -> t = u.
Proof. exact repaired_mutual_exclusion_l. Qed.

(* non-vacuity: the hypotheses are met by runs that do something; a saturating release and a
   stale decision are both detected by the predicates the theorems use *)
Example c39_witness :
  progs_wf (number 0 cross_progs) = true /\ progs_wf (number 0 aba_progs) = true /\
  (* sequential run: first allocate succeeds, second fails, nothing stale, total = 3 MiB *)
  (let s := run_coarse (step false) at_site 64 [0; 0; 0; 0; 1; 1; 1; 1]%nat (init 4194304 (number 0 cross_progs)) in
   all_events nonstale s = true /\ all_events (fun e => negb (saturating e)) s = true /\ total (sh s) = 3145728) /\
  (* the racy runs are flagged stale *)
  all_events nonstale (run_coarse (step false) at_site 64 cross_sched (init 4194304 (number 0 cross_progs))) = false /\
  (* allocate / release / allocate by one thread: everything released => 0 in between *)
  (let s := run_coarse (step false) at_site 64 [0; 0; 0; 0; 0]%nat
              (init 0 (number 0 [[Alloc PQuery 1000; ReleaseIf 0 PQuery 1000; Alloc PQuery 7]])) in
   disciplined s = true /\ all_events (fun e => negb (saturating e)) s = true /\ total (sh s) = 0) /\
  (* a release of more than the pool holds saturates and is flagged, and the client is not disciplined *)
  (let s := run_coarse (step false) at_site 64 [0; 0]%nat (init 0 (number 0 [[Release PCache 5]])) in
   all_events (fun e => negb (saturating e)) s = false /\ disciplined s = false) /\
  (* the repaired model blocks the second allocator instead of letting it decide on a stale snapshot *)
  (let s := run_coarse (step true) at_site 64 (cross_sched ++ [0; 0; 1; 1; 1; 1])%nat (init 4194304 (number 0 cross_progs)) in
   total (sh s) = 3145728 /\ all_events nonstale s = true).
Proof. vm_compute. repeat split. Qed.

Check coarse_runs_are_runs :
  forall lk fuel sched s, exists w, run_coarse (step lk) at_site fuel sched s = run (step_w lk) w s.
Check pool_accounting_applied :
  forall lk limreq ps w q,
    let s := run (step_w lk) w (init limreq ps) in
    get (sh s) q = sum_thr (fun th => applied q (tlog th)) (thrs s).
Check pool_accounting_exact :
  forall lk limreq ps w,
    let s := run (step_w lk) w (init limreq ps) in
    all_events (fun e => negb (saturating e)) s = true ->
    forall q, get (sh s) q = sum_thr (fun th => net q (tlog th)) (thrs s).
Check all_released_zero :
  forall lk limreq ps w,
    let s := run (step_w lk) w (init limreq ps) in
    all_events (fun e => negb (saturating e)) s = true ->
    (forall x q, In x (thrs s) -> net q (tlog (snd x)) = 0) ->
    total (sh s) = 0.
Check release_saturates_only_on_misuse :
  forall lk limreq ps w,
    let s := run (step_w lk) w (init limreq ps) in
    disciplined s = true -> all_events nonsat s = true.
Check disciplined_accounting_exact :
  forall lk limreq ps w,
    let s := run (step_w lk) w (init limreq ps) in
    disciplined s = true ->
    forall q, get (sh s) q = sum_thr (fun th => net q (tlog th)) (thrs s).
Check counters_in_range :
  forall lk limreq ps w, progs_wf ps = true ->
    forall q, 0 <= get (sh (run (step_w lk) w (init limreq ps))) q < U64.
Check limit_unless_stale :
  forall lk limreq ps w, progs_wf ps = true ->
    let s := run (step_w lk) w (init limreq ps) in
    all_events nonstale s = true -> total (sh s) <= lim s.
Check limit_refuted_cross_pool :
  let s := run_coarse (step false) at_site 64 cross_sched (init 4194304 (number 0 cross_progs)) in
  lim s = 4194304 /\ total (sh s) = 6291456 /\ last_class s 1 = 1.
Check limit_refuted_same_pool_aba :
  let s := run_coarse (step false) at_site 64 aba_sched (init 4194304 (number 0 aba_progs)) in
  lim s = 4194304 /\ total (sh s) = 4718592 /\ last_class s 0 = 2.
Check single_thread_within_limit :
  forall lk limreq ps t0 w, progs_wf ps = true ->
    (forall x, In x w -> Nat.div2 x = t0) ->
    let s := run (step_w lk) w (init limreq ps) in total (sh s) <= lim s.
Check repaired_within_limit :
  forall limreq ps w, progs_wf ps = true ->
    let s := run (step_w true) w (init limreq ps) in total (sh s) <= lim s.
Check repaired_mutual_exclusion :
  forall limreq ps w t u th thu, progs_wf ps = true ->
    let s := run (step_w true) w (init limreq ps) in
    lget (thrs s) t = Some th -> lget (thrs s) u = Some thu ->
    in_body (tpc th) = true -> in_body (tpc thu) = true -> t = u.

Print Assumptions coarse_runs_are_runs.
Print Assumptions pool_accounting_applied.
Print Assumptions pool_accounting_exact.
Print Assumptions all_released_zero.
Print Assumptions release_saturates_only_on_misuse.
Print Assumptions disciplined_accounting_exact.
Print Assumptions counters_in_range.
Print Assumptions limit_unless_stale.
Print Assumptions limit_refuted_cross_pool.
Print Assumptions limit_refuted_same_pool_aba.
Print Assumptions single_thread_within_limit.
Print Assumptions repaired_within_limit.
Print Assumptions repaired_mutual_exclusion.
