(* C34 - The freelist conserves pages.
   Property theorems only.  They speak about Model/Freelist.v: [run np ops] is the trace (result,
   head_page(), free_count() after every call) of the transcription of Freelist::allocate /
   release / initialize_trunk / create_new_trunk (src/storage/freelist.rs) over a zeroed store of
   [np] pages, for the history [ops] of release / allocate / client-write calls; TRUNK_MAX_ENTRIES,
   TrunkHeader::is_full and the page geometry are regenerated from the source (Gen/Freelist.v).
   The oracle predicates (disciplined, safe, count_exact, ...) know nothing about trunks:
     disciplined  the client releases only pages it holds (never page 0, never a page that is
                  still free) and writes only into pages it holds;
     safe         every allocate() returns None or a page that was released and not handed out
                  since (so no page is handed out twice), and no call of the client fails;
     count_exact  wherever the rest of the history only allocates until None, the reported
                  free_count() equals the number of pages those allocations returned;
     no_bad_deref allocate() is never entered with head_page = 0, free_count > 0 while the
                  client's data at bytes 16..24 of page 0 is non-zero. *)
From Coq Require Import ZArith List Bool.
From TV Require Import Lib.MachInt Gen.FreelistConsts Gen.Freelist Model.Freelist.
From TV Require Import Proof.Freelist Proof.FreelistInv Proof.FreelistTrace Corr.C34 Proof.FreelistCorr.
Import ListNotations.
Open Scope Z_scope.

(* safety half, all histories of a disciplined client, any number of trunks *)
Theorem alloc_safety : forall np ops, np < 2 ^ 32 ->
  disciplined np (run np ops) = true -> no_bad_deref (run np ops) = true ->
  safe (run np ops) = true.
Proof. exact alloc_safety_l. Qed.

(* ... and without the page-0 side condition: nothing goes wrong before allocate() dereferences
   a page 0 that holds client data (finding F-C34-2) *)
Theorem safety_until_page0_deref : forall np ops, np < 2 ^ 32 ->
  disciplined np (run np ops) = true -> safe_until_deref (run np ops) = true.
Proof. exact safe_until_deref_l. Qed.

(* every history, disciplined or not: free_count() is never BELOW what the following
   allocations return *)
Theorem count_not_under_all : forall np ops, count_not_under (run np ops) = true.
Proof. exact count_not_under_l. Qed.

(* free_count() never exceeds the number of pages released and not handed back *)
Theorem reported_le_released : forall np ops, np < 2 ^ 32 ->
  disciplined np (run np ops) = true -> no_bad_deref (run np ops) = true ->
  reported_le_spec (run np ops) = true.
Proof. exact reported_le_spec_l. Qed.

(* the count half of the property FAILS in every reachable state that has a trunk: if after [ops]
   head_page <> 0 and the following allocations return k pages and then None, then
   k < free_count()  (finding F-C34-1: trunk pages are counted but never handed out) *)
Theorem free_count_overcounts : forall np ops more k, np < 2 ^ 32 ->
  disciplined np (run np (ops ++ more)) = true -> no_bad_deref (run np (ops ++ more)) = true ->
  drain_count (run_from np (fuel_for np) (final np ops) more) = Some k ->
  head (final np ops) <> 0 ->
  k < fc (final np ops).
Proof. exact overcount_l. Qed.

(* a model trace that the oracle rejects always falls into one of the two recorded classes *)
Theorem known_classes_cover : forall np ops, np < 2 ^ 32 ->
  known_class_tr np (run np ops) = 0 -> property_ok np (run np ops) = true.
Proof. exact known_classes_cover_l. Qed.

(* the same, on the comparer's own predicates (Corr/C34.v): a case on which the implementation
   did what the model predicts and that is in no recorded class satisfies the property *)
Theorem agreeing_case_outside_known_classes : forall np ctr, np < 2 ^ 32 ->
  model_agrees (Case np ctr) = true -> known_class (Case np ctr) = 0 -> spec_ok (Case np ctr) = true.
Proof. exact agreeing_case_outside_known_classes_l. Qed.

(* refutations (each witness is replayed on the real code: known_findings.d/C34.json) *)
Theorem free_count_exact_refuted :
  exists np ops, disciplined np (run np ops) = true /\ no_bad_deref (run np ops) = true /\
                 safe (run np ops) = true /\ count_exact (run np ops) = false.
Proof. exact free_count_exact_refuted_l. Qed.

Theorem page0_deref_refuted :
  exists np ops, disciplined np (run np ops) = true /\ safe (run np ops) = false /\
                 run np ops = [E (Poke 0 5 1) OOk 0 0; E (Poke 0 6 7) OOk 0 0; E (Rel 3) OOk 3 1;
                               E (Rel 4) OOk 3 2; E Alloc (OSome 4) 0 1; E Alloc (OSome 7) 0 0].
Proof. exact page0_deref_refuted_l. Qed.

(* non-vacuity: the hypotheses are met by concrete histories in which pages really come back,
   trunks empty, head_page returns to 0 with free_count > 0, and both classes are inhabited *)
Example c34_witness_hypotheses :
  let ops := [Rel 3; Rel 4; Rel 5; Alloc; Poke 5 5 9; Rel 5; Alloc; Alloc; Alloc; Rel 4; Alloc] in
  disciplined 8 (run 8 ops) = true /\ no_bad_deref (run 8 ops) = true /\ safe (run 8 ops) = true /\
  run 8 ops = [E (Rel 3) OOk 3 1; E (Rel 4) OOk 3 2; E (Rel 5) OOk 3 3; E Alloc (OSome 5) 3 2;
               E (Poke 5 5 9) OOk 3 2; E (Rel 5) OOk 3 3; E Alloc (OSome 5) 3 2; E Alloc (OSome 4) 0 1;
               E Alloc ONone 0 0; E (Rel 4) OOk 4 1; E Alloc ONone 0 0].
Proof. vm_compute. repeat split. Qed.

Example c34_witness_overcount :
  disciplined 8 (run 8 ([Rel 3; Rel 4; Rel 5] ++ [Alloc; Alloc; Alloc])) = true /\
  no_bad_deref (run 8 ([Rel 3; Rel 4; Rel 5] ++ [Alloc; Alloc; Alloc])) = true /\
  drain_count (run_from 8 (fuel_for 8) (final 8 [Rel 3; Rel 4; Rel 5]) [Alloc; Alloc; Alloc]) = Some 2 /\
  head (final 8 [Rel 3; Rel 4; Rel 5]) = 3 /\ fc (final 8 [Rel 3; Rel 4; Rel 5]) = 3.
Proof. vm_compute. repeat split. Qed.

Example c34_witness_classes :
  known_class_tr 8 (run 8 [Rel 3; Alloc]) = 1 /\
  known_class_tr 8 (run 8 [Poke 0 5 1; Poke 0 6 7; Rel 3; Rel 4; Alloc; Alloc]) = 2 /\
  known_class_tr 8 (run 8 [Alloc; Alloc]) = 0 /\ property_ok 8 (run 8 [Alloc; Alloc]) = true /\
  (* undisciplined (double free): the property says nothing *)
  disciplined 8 (run 8 [Rel 3; Rel 3]) = false /\ property_ok 8 (run 8 [Rel 3; Rel 3]) = true.
Proof. vm_compute. repeat split. Qed.

Check alloc_safety : forall np ops, np < 2 ^ 32 -> disciplined np (run np ops) = true -> no_bad_deref (run np ops) = true -> safe (run np ops) = true.
Check safety_until_page0_deref : forall np ops, np < 2 ^ 32 -> disciplined np (run np ops) = true -> safe_until_deref (run np ops) = true.
Check count_not_under_all : forall np ops, count_not_under (run np ops) = true.
Check reported_le_released : forall np ops, np < 2 ^ 32 -> disciplined np (run np ops) = true -> no_bad_deref (run np ops) = true -> reported_le_spec (run np ops) = true.
Check free_count_overcounts : forall np ops more k, np < 2 ^ 32 -> disciplined np (run np (ops ++ more)) = true -> no_bad_deref (run np (ops ++ more)) = true -> drain_count (run_from np (fuel_for np) (final np ops) more) = Some k -> head (final np ops) <> 0 -> k < fc (final np ops).
Check known_classes_cover : forall np ops, np < 2 ^ 32 -> known_class_tr np (run np ops) = 0 -> property_ok np (run np ops) = true.
Check agreeing_case_outside_known_classes : forall np ctr, np < 2 ^ 32 -> model_agrees (Case np ctr) = true -> known_class (Case np ctr) = 0 -> spec_ok (Case np ctr) = true.
Check free_count_exact_refuted : exists np ops, disciplined np (run np ops) = true /\ no_bad_deref (run np ops) = true /\ safe (run np ops) = true /\ count_exact (run np ops) = false.
Check page0_deref_refuted : exists np ops, disciplined np (run np ops) = true /\ safe (run np ops) = false /\ run np ops = [E (Poke 0 5 1) OOk 0 0; E (Poke 0 6 7) OOk 0 0; E (Rel 3) OOk 3 1; E (Rel 4) OOk 3 2; E Alloc (OSome 4) 0 1; E Alloc (OSome 7) 0 0].

Print Assumptions alloc_safety.
Print Assumptions safety_until_page0_deref.
Print Assumptions count_not_under_all.
Print Assumptions reported_le_released.
Print Assumptions free_count_overcounts.
Print Assumptions known_classes_cover.
Print Assumptions agreeing_case_outside_known_classes.
Print Assumptions free_count_exact_refuted.
Print Assumptions page0_deref_refuted.
