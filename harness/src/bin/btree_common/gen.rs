//! History generators.  Generation is interleaved with execution on the real tree (the hint
//! operations need the page numbers the real tree reports); every random choice comes from the one Rng.
#![allow(dead_code)]
use super::hist::*;
use super::*;

pub const KINDS: [&str; 13] = ["random", "sorted", "reverse", "eqprefix", "bigkeys", "binkeys", "emptyleaf", "hint", "update", "halfpage", "sepdup", "intfull", "hugekeys"];

pub const DIRECTED: [&str; 7] = ["emptyleaf", "hint", "update", "halfpage", "sepdup", "intfull", "hugekeys"];

pub struct Ran {
    pub hist: History,
    pub obs: Vec<Obs>,
    pub reject: Option<(usize, String)>,   // index of the first result an ordered map cannot return, + note
    pub pages: u32,
    pub root: u32,
    pub deltas: Vec<String>,
    pub roots: Vec<u32>,
    pub pages_decoded: u64,
}

fn universe(rng: &mut Rng, kind: &str, n: usize) -> Vec<KeySpec> {
    let mut ks: Vec<KeySpec> = vec![];
    match kind {
        "eqprefix" => {
            // many keys sharing the 4-byte prefix, a few other prefixes around it
            for i in 0..n {
                let p: &[u8] = match i % 7 { 0 => b"aaab", 1 => b"aaa", _ => b"aaaa" };
                let mut b = p.to_vec();
                if i % 7 != 1 || i > 7 { b.extend_from_slice(format!("{:03}", i).as_bytes()); } else { b.push(i as u8); }
                ks.push(KeySpec::plain(&b));
            }
        }
        "bigkeys" => {
            for i in 0..n {
                let big = rng.chance(3, 5);
                let nfill = if big { 300 + rng.below(2700) as usize } else { 0 };
                ks.push(KeySpec { pfx: vec![b'a' + (i / 26 % 26) as u8, b'a' + (i % 26) as u8], fill: b'x' - (i % 3) as u8, n: nfill, sfx: vec![(i / 676) as u8 + 1] });
            }
        }
        "binkeys" => {
            for _ in 0..n {
                let len = 1 + rng.below(9) as usize;
                let b: Vec<u8> = (0..len).map(|_| *rng.pick(&[0u8, 0, 1, 2, 127, 128, 254, 255, 255, 97])).collect();
                ks.push(KeySpec::plain(&b));
            }
        }
        _ => { for i in 0..n { ks.push(KeySpec::plain(format!("k{:05}", i * 3 + 1).as_bytes())); } }
    }
    // distinct, sorted table (index order = key order makes the cases readable; ops pick indices at random)
    let mut seen = std::collections::BTreeMap::new();
    for k in ks { seen.entry(k.bytes()).or_insert(k); }
    seen.into_values().collect()
}

struct Sizes { lo: u32, hi: u32, big_every: u64, big_lo: u32, big_hi: u32 }
fn pick_len(rng: &mut Rng, s: &Sizes) -> u32 {
    if s.big_every > 0 && rng.below(s.big_every) == 0 { s.big_lo + rng.below((s.big_hi - s.big_lo + 1) as u64) as u32 }
    else { s.lo + rng.below((s.hi - s.lo + 1) as u64) as u32 }
}

pub struct Runner { pub ex: Exec, pub oracle: Oracle, pub hist: History, pub obs: Vec<Obs>, pub reject: Option<(usize, String)>, pub stopped: bool, tagc: u32,
    /// C29: decoded page deltas after every operation
    pub track: bool, pub deltas: Vec<String>, pub roots: Vec<u32>, prev: Vec<Vec<u8>>, pub pages_decoded: u64 }
impl Runner {
    pub fn new(kind: &str, keys: Vec<KeySpec>) -> Runner {
        let ex = Exec::new("c28", &keys);
        Runner { ex, oracle: Oracle::new(), hist: History { kind: kind.to_string(), keys, ops: vec![] }, obs: vec![], reject: None, stopped: false, tagc: 0, track: false, deltas: vec![], roots: vec![], prev: vec![], pages_decoded: 0 }
    }
    /// decode (through the public accessors) every page whose bytes changed since the previous operation
    fn page_delta(&mut self) -> String {
        let n = self.ex.real.page_count() as usize;
        let mut out = String::from("[");
        let mut first = true;
        for p in 1..n {
            let bytes = self.ex.real.storage.as_ref().unwrap().page(p as u32).map(|b| b.to_vec()).unwrap_or_default();
            if self.prev.len() <= p { self.prev.resize(p + 1, vec![]); }
            if self.prev[p] == bytes { continue; }
            if self.prev[p].is_empty() && p == 1 && self.hist.ops.is_empty() { /* root page of the fresh tree: still printed if it differs from the initial leaf */ }
            let term = super::pages::decode_page(&bytes, &self.ex.key_idx);
            self.prev[p] = bytes;
            self.pages_decoded += 1;
            if !first { out.push(';'); }
            first = false;
            out.push_str(&format!("({},{})", p, term));
        }
        out.push(']');
        out
    }
    pub fn tag(&mut self) -> u32 { self.tagc += 1; self.tagc }
    /// run one operation; false once the history has ended (first unacceptable or out-of-scope result)
    pub fn push(&mut self, op: Op) -> bool {
        if self.stopped { return false; }
        let op = self.ex.canon(op);
        let (obs, msg) = self.ex.run(&op);
        let v = self.oracle.judge(&self.ex.keys, &op, &obs);
        if self.track { let d = self.page_delta(); self.deltas.push(d); self.roots.push(self.ex.real.root); }
        self.hist.ops.push(op);
        self.obs.push(obs);
        match v {
            Verdict::Accept => true,
            Verdict::Reject => {
                if self.reject.is_none() { self.reject = Some((self.hist.ops.len() - 1, msg.unwrap_or_default())); }
                // diagnosis aid only: C28_NOSTOP=1 keeps running after the first rejected result (such runs are not judged)
                if std::env::var("C28_NOSTOP").is_ok() { return true; }
                self.stopped = true; false }
            Verdict::OutOfScope => { self.stopped = true; false }
        }
    }
    pub fn mutate(&mut self, op: Op) -> bool {
        let k = match &op { Op::Ins(k, _) | Op::Iine(k, _) | Op::App(k, _) | Op::Upd(k, _) | Op::Del(k) => *k, _ => 0 };
        self.push(op) && self.push(Op::Get(k))
    }
    pub fn finish(self) -> Ran {
        let pages = self.ex.real.page_count();
        let root = self.ex.real.root;
        Ran { hist: self.hist, obs: self.obs, reject: self.reject, pages, root, deltas: self.deltas, roots: self.roots, pages_decoded: self.pages_decoded }
    }
    pub fn max_key_idx(&self) -> Option<usize> {
        let last = self.oracle.map.iter().next_back()?.0.clone();
        self.ex.key_idx.get(&last).map(|i| *i as usize)
    }
    pub fn present(&self, k: usize) -> bool { self.oracle.map.contains_key(&self.ex.keys[k]) }
    pub fn hint_choice(&mut self, rng: &mut Rng) -> i64 {
        let cur = self.ex.real.hint.map(|h| h as i64).unwrap_or(-1);
        let pc = self.ex.real.page_count() as i64;
        match rng.below(8) { 0 => -1, 1 | 2 | 3 => cur, 4 => (cur + 1).min(pc + 2), 5 => (cur - 1).max(0), 6 => rng.below(pc as u64 + 3) as i64, _ => self.ex.real.root as i64 }
    }
}

fn scans(r: &mut Runner, rng: &mut Rng, nk: usize, full: bool) {
    let lim = if full { 5000 } else { 8 + rng.below(30) as usize };
    match rng.below(3) {
        0 => { r.push(Op::Fwd(lim)); }
        1 => { r.push(Op::Bwd(lim)); }
        _ => { r.push(Op::Seek(rng.below(nk as u64) as usize, lim)); }
    }
}
fn final_scans(r: &mut Runner, rng: &mut Rng, nk: usize) {
    r.push(Op::Fwd(5000));
    r.push(Op::Bwd(5000));
    for _ in 0..2 { r.push(Op::Seek(rng.below(nk as u64) as usize, 40)); }
}

pub fn generate(rng: &mut Rng, kind: &str, budget: usize) -> Ran { generate_t(rng, kind, budget, false) }
/// long separators first, then one-byte separators until the root interior page is full, then one more long
/// separator: split_interior (by count) gets all the long ones in one half
fn generate_intfull(rng: &mut Rng, track: bool) -> Ran {
    let (klen, nb, nt) = loop {
        let klen = 700 + rng.below(500) as usize;
        let nb = 16368 / (klen + 12);
        let free = 16368 - nb * (klen + 12);
        if free >= 150 && free <= 1230 { break (klen, nb, free / 13); }
    };
    let mut keys: Vec<KeySpec> = vec![];
    let nbig = 2 * nb + 2;
    for i in 0..nbig { keys.push(KeySpec { pfx: vec![0x41, (i + 1) as u8], fill: 97, n: klen - 2, sfx: vec![] }); }
    let ntiny = 2 * nt;
    for j in 0..ntiny { keys.push(KeySpec::plain(&[0x42 + j as u8])); }
    let at = 1 + rng.below((nbig - 2) as u64) as usize;
    keys.push(KeySpec { pfx: vec![0x41, (at + 1) as u8], fill: 97, n: klen - 2, sfx: vec![1] });
    let mut r = Runner::new("intfull", keys);
    r.track = track;
    let vbig = ((16360 - 16) / 2 - klen - 11) as u32;          // two cells of a long key fill a leaf, a third splits it
    for i in 0..nbig { let t = r.tag(); if !r.push(Op::Ins(i, Val { len: vbig, tag: t })) { break; } }
    for j in 0..ntiny { let t = r.tag(); if !r.push(Op::Ins(nbig + j, Val { len: 8000, tag: t })) { break; } }
    r.push(Op::Fwd(5000));
    let t = r.tag();
    r.mutate(Op::Ins(nbig + ntiny, Val { len: vbig, tag: t }));
    r.push(Op::Fwd(5000));
    r.push(Op::Bwd(5000));
    r.finish()
}

pub fn generate_t(rng: &mut Rng, kind: &str, budget: usize, track: bool) -> Ran {
    if kind == "intfull" { return generate_intfull(rng, track); }
    if kind == "hugekeys" {
        // keys of about half a page: one cell per leaf, one separator (or none) per interior page
        let n = 5 + rng.below(6) as usize;
        let keys: Vec<KeySpec> = (0..n).map(|i| KeySpec { pfx: vec![0x41, (i + 1) as u8], fill: 97, n: 8100 + rng.below(150) as usize, sfx: vec![] }).collect();
        let mut r = Runner::new(kind, keys);
        r.track = track;
        let mut order: Vec<usize> = (0..n).collect();
        if rng.chance(1, 2) { for i in (1..n).rev() { let j = rng.below(i as u64 + 1) as usize; order.swap(i, j); } }
        for k in order { let t = r.tag(); if !r.mutate(Op::Ins(k, Val { len: rng.below(20) as u32, tag: t })) { break; } }
        r.push(Op::Fwd(5000)); r.push(Op::Bwd(5000));
        return r.finish();
    }
    let n_keys = match kind { "bigkeys" => 20 + rng.below(50) as usize, "halfpage" => 4 + rng.below(8) as usize, _ => 30 + rng.below(170) as usize };
    let keys = universe(rng, kind, n_keys);
    let nk = keys.len();
    let mut r = Runner::new(kind, keys);
    r.track = track;
    let sizes = match kind {
        "halfpage" => Sizes { lo: 3000, hi: 9000, big_every: 3, big_lo: 9000, big_hi: 16300 },
        "bigkeys" => Sizes { lo: 0, hi: 600, big_every: 6, big_lo: 1000, big_hi: 5000 },
        "update" => Sizes { lo: 300, hi: 1100, big_every: 0, big_lo: 0, big_hi: 0 },
        _ => match rng.below(4) {
            0 => Sizes { lo: 0, hi: 60, big_every: 5, big_lo: 900, big_hi: 2500 },
            1 => Sizes { lo: 600, hi: 1400, big_every: 0, big_lo: 0, big_hi: 0 },
            2 => Sizes { lo: 200, hi: 900, big_every: 12, big_lo: 3000, big_hi: 8100 },
            _ => Sizes { lo: 1000, hi: 1000, big_every: 0, big_lo: 0, big_hi: 0 },
        },
    };
    match kind {
        "sorted" | "reverse" => {
            let use_app = kind == "sorted" && rng.chance(1, 2);
            let order: Vec<usize> = if kind == "sorted" { (0..nk).collect() } else { (0..nk).rev().collect() };
            for (j, k) in order.iter().enumerate() {
                if r.hist.ops.len() + 8 > budget { break; }
                let v = Val { len: pick_len(rng, &sizes), tag: r.tag() };
                if use_app { r.mutate(Op::App(*k, v)); } else if rng.chance(1, 5) { r.mutate(Op::Iine(*k, v)); } else { r.mutate(Op::Ins(*k, v)); }
                if j % 37 == 36 { let h = r.hint_choice(rng); r.push(Op::Reopen(h)); }
                if rng.chance(1, 40) { scans(&mut r, rng, nk, false); }
                if rng.chance(1, 25) { let d = rng.below(nk as u64) as usize; r.mutate(Op::Del(d)); }
            }
        }
        "emptyleaf" => {
            // fill, then delete contiguous index ranges (whole leaves go empty), look, refill some
            for k in 0..nk { if r.hist.ops.len() + 40 > budget { break; } let v = Val { len: pick_len(rng, &sizes), tag: r.tag() }; r.push(Op::Ins(k, v)); }
            for _ in 0..(1 + rng.below(3)) {
                let a = rng.below(nk as u64) as usize;
                let b = (a + 5 + rng.below(60) as usize).min(nk);
                for k in a..b { if r.hist.ops.len() + 12 > budget { break; } r.push(Op::Del(k)); }
                scans(&mut r, rng, nk, true);
                if rng.chance(1, 2) { let k = a + rng.below((b - a) as u64) as usize; let v = Val { len: pick_len(rng, &sizes), tag: r.tag() }; r.mutate(Op::Ins(k, v)); }
            }
        }
        "hint" => {
            // ascending appends / inserts (hint set), tail deleted, then small keys with the hint kept or re-supplied
            let top = nk / 2 + rng.below((nk / 2) as u64) as usize;
            let start = nk / 4;
            for k in start..top { if r.hist.ops.len() + 30 > budget { break; } let v = Val { len: pick_len(rng, &sizes), tag: r.tag() };
                if rng.chance(1, 2) { r.push(Op::App(k, v)); } else { r.push(Op::Ins(k, v)); } }
            let cut = start + rng.below((top - start).max(1) as u64) as usize;
            for k in (cut..top).rev() { if r.hist.ops.len() + 20 > budget { break; } r.push(Op::Del(k)); }
            if rng.chance(2, 3) { let h = r.hint_choice(rng); r.push(Op::Reopen(h)); }
            for _ in 0..(2 + rng.below(6)) {
                let k = if rng.chance(2, 3) { rng.below(start.max(1) as u64) as usize } else { rng.below(nk as u64) as usize };
                let v = Val { len: pick_len(rng, &sizes), tag: r.tag() };
                if !r.present(k) { r.mutate(Op::Ins(k, v)); }
            }
        }
        "update" => {
            for k in 0..nk { if r.hist.ops.len() + 60 > budget { break; } if rng.chance(4, 5) { let v = Val { len: pick_len(rng, &sizes), tag: r.tag() }; r.push(Op::Ins(k, v)); } }
            for _ in 0..40 {
                if r.hist.ops.len() + 12 > budget { break; }
                let k = rng.below(nk as u64) as usize;
                let len = match rng.below(5) { 0 => 0, 1 => pick_len(rng, &sizes), 2 => 1100 + rng.below(900) as u32, 3 => 240 + rng.below(3) as u32, _ => rng.below(300) as u32 };
                let v = Val { len, tag: r.tag() };
                r.mutate(Op::Upd(k, v));
                if rng.chance(1, 12) { scans(&mut r, rng, nk, false); }
            }
        }
        "sepdup" => {
            // fill ascending, delete everything from some key on, re-insert exactly the deleted keys with values
            // that need a fresh page (the emptied leaves kept their used space)
            for k in 0..nk { if r.hist.ops.len() + 60 > budget { break; } let v = Val { len: 900 + rng.below(300) as u32, tag: r.tag() }; r.push(Op::Ins(k, v)); }
            let a = rng.below(nk as u64) as usize;
            for k in a..nk { if r.hist.ops.len() + 30 > budget { break; } r.push(Op::Del(k)); }
            if rng.chance(1, 2) { r.push(Op::Reopen(-1)); }
            for k in a..nk { if r.hist.ops.len() + 10 > budget { break; } let v = Val { len: 2500 + rng.below(3000) as u32, tag: r.tag() }; if !r.mutate(Op::Ins(k, v)) { break; } }
        }
        _ => {
            // random / eqprefix / bigkeys / binkeys / halfpage: weighted mix over the universe
            let del_w = match kind { "halfpage" => 2, _ => rng.below(3) };
            while r.hist.ops.len() + 8 <= budget && !r.stopped {
                let k = rng.below(nk as u64) as usize;
                let v = Val { len: pick_len(rng, &sizes), tag: r.tag() };
                match rng.below(20) {
                    0..=8 => { if rng.chance(1, 6) { r.mutate(Op::Iine(k, v)); } else { r.mutate(Op::Ins(k, v)); } }
                    9 | 10 => {
                        // mostly same-length or shorter values (in-place / shrink paths); growing updates are the
                        // business of the `update` kind (they enter defect class 4 in nearly full leaves)
                        let cur = r.oracle.map.get(&r.ex.keys[k]).copied();
                        let v2 = match (cur, rng.below(6)) {
                            (Some(c), 0 | 1) => Val { len: c.len, tag: v.tag },
                            (Some(c), 2 | 3 | 4) => Val { len: rng.below(c.len as u64 + 1) as u32, tag: v.tag },
                            _ => v,
                        };
                        r.mutate(Op::Upd(k, v2));
                    }
                    11 | 12 => { if del_w > 0 { r.mutate(Op::Del(k)); } else { r.push(Op::Get(k)); } }
                    13 => { if del_w > 1 { r.mutate(Op::Del(k)); } else { r.push(Op::Get(k)); } }
                    14 => { if let Some(m) = r.max_key_idx() { if m + 1 < nk { let kk = m + 1 + rng.below((nk - m - 1) as u64) as usize; r.mutate(Op::App(kk, v)); } } }
                    15 => { if rng.chance(1, 3) { let h = r.hint_choice(rng); r.push(Op::Reopen(h)); } else { r.push(Op::Get(k)); } }
                    16 => { if rng.chance(1, 3) { scans(&mut r, rng, nk, false); } else { r.push(Op::Get(k)); } }
                    _ => { r.push(Op::Get(k)); }
                }
            }
        }
    }
    final_scans(&mut r, rng, nk);
    r.finish()
}

/// run a given history (replay): stops like the generator at the first unacceptable / out-of-scope result
pub fn replay(h: &History) -> Ran { replay_t(h, false) }
pub fn replay_t(h: &History, track: bool) -> Ran {
    let mut r = Runner::new(&h.kind, h.keys.clone());
    r.track = track;
    for o in &h.ops { if !r.push(o.clone()) { break; } }
    r.finish()
}

pub fn case_term(ran: &Ran) -> String {
    let mut s = String::with_capacity(64 + ran.obs.len() * 24);
    s.push_str("Case 1 2 [");
    for (i, k) in ran.hist.keys.iter().enumerate() { if i > 0 { s.push(';'); } s.push_str(&k.coq()); }
    s.push_str("] [");
    for (i, (o, b)) in ran.hist.ops.iter().zip(ran.obs.iter()).enumerate() {
        if i > 0 { s.push(';'); }
        s.push('('); s.push_str(&o.coq()); s.push(','); s.push_str(&b.coq()); s.push(')');
    }
    s.push(']');
    s
}
/// replay line of what was actually run (the history truncated where the run stopped)
pub fn ran_line(ran: &Ran) -> String {
    let h = History { kind: ran.hist.kind.clone(), keys: ran.hist.keys.clone(), ops: ran.hist.ops[..ran.obs.len()].to_vec() };
    h.line()
}

/// C29 case: every operation with the root page and the decoded pages it changed
pub fn case_term29(ran: &Ran) -> String {
    let mut s = String::with_capacity(256 + ran.deltas.iter().map(|d| d.len() + 24).sum::<usize>());
    s.push_str("Case 1 2 [");
    for (i, k) in ran.hist.keys.iter().enumerate() { if i > 0 { s.push(';'); } s.push_str(&k.coq()); }
    s.push_str("] [");
    for (i, o) in ran.hist.ops.iter().enumerate().take(ran.deltas.len()) {
        if i > 0 { s.push(';'); }
        s.push_str(&format!("St ({}) {} {}", o.coq(), ran.roots[i], ran.deltas[i]));
    }
    s.push(']');
    s
}
