(* C20 proofs, part 2a: substring search on UTF-8.
   UTF-8 is self-synchronising: a byte-level search for the encoding of a character string inside the
   encoding of another finds exactly the character-level occurrences, at the byte offset of the
   character prefix before the match.  This is what relates `haystack.find(needle)` (bytes) in
   INSTR / LOCATE to positions counted in characters. *)
From Coq Require Import ZArith List Bool Lia ZifyBool.
From TV Require Import Lib.MachInt Lib.MachIntFacts Model.Arith Model.Utf8 Model.StrFun Proof.Utf8.
Import ListNotations.
Open Scope Z_scope.

Ltac Zify.zify_post_hook ::= Z.to_euclidean_division_equations.

Arguments Z.div : simpl never.
Arguments Z.modulo : simpl never.
Arguments Z.mul : simpl never.
Arguments Z.add : simpl never.
Arguments Z.sub : simpl never.
Arguments Z.leb : simpl never.
Arguments Z.ltb : simpl never.
Arguments Z.eqb : simpl never.

Lemma zlen_blen (l : list Z) : zlen l = blen l.
Proof. reflexivity. Qed.

Lemma prefixb_app_same x : forall a b, prefixb (x ++ a) (x ++ b) = prefixb a b.
Proof.
  induction x as [|c t IH]; intros a b; [reflexivity|].
  cbn [app prefixb]. rewrite Z.eqb_refl. cbn [andb]. apply IH.
Qed.

Lemma prefixb_nil_r n : prefixb n [] = match n with [] => true | _ => false end.
Proof. destruct n; reflexivity. Qed.

(* shape of one encoded scalar value: a non-continuation byte followed by continuation bytes only *)
Lemma encode_cp_shape c : cp_ok c = true ->
  exists b0 conts, encode_cp c = b0 :: conts /\ is_cont b0 = false /\ forallb is_cont conts = true.
Proof.
  intros Hc. apply cp_ok_true in Hc. unfold encode_cp.
  destruct (Z.ltb_spec c 128).
  { exists c, []. repeat split. unfold is_cont. lia. }
  destruct (Z.ltb_spec c 2048).
  { eexists _, _. split; [reflexivity|]. unfold is_cont. cbn [forallb]. split; lia. }
  destruct (Z.ltb_spec c 65536).
  { eexists _, _. split; [reflexivity|]. unfold is_cont. cbn [forallb]. split; lia. }
  eexists _, _. split; [reflexivity|]. unfold is_cont. cbn [forallb]. split; lia.
Qed.

(* prefix code: the encodings of two different scalar values differ inside both of them *)
Lemma encode_cp_prefix c d a b : cp_ok c = true -> cp_ok d = true ->
  prefixb (encode_cp c ++ a) (encode_cp d ++ b) = (c =? d) && prefixb a b.
Proof.
  intros Hc Hd. destruct (Z.eqb_spec c d) as [E|E].
  { subst d. cbn [andb]. apply prefixb_app_same. }
  cbn [andb]. apply cp_ok_true in Hc. apply cp_ok_true in Hd.
  unfold encode_cp.
  destruct (Z.ltb_spec c 128); [|destruct (Z.ltb_spec c 2048); [|destruct (Z.ltb_spec c 65536)]];
  (destruct (Z.ltb_spec d 128); [|destruct (Z.ltb_spec d 2048); [|destruct (Z.ltb_spec d 65536)]]);
  cbn [app prefixb];
  repeat (match goal with
          | |- context [?x =? ?y] => destruct (Z.eqb_spec x y)
          end; cbn [andb]; try reflexivity);
  exfalso; lia.
Qed.

Lemma prefixb_encode : forall n h, cps_ok n = true -> cps_ok h = true ->
  prefixb (encode_utf8 n) (encode_utf8 h) = prefixb n h.
Proof.
  induction n as [|c n IH]; intros h Hn Hh; [reflexivity|].
  apply cps_ok_cons in Hn. destruct Hn as [Hc Hn].
  destruct h as [|d h].
  - cbn [encode_utf8 flat_map prefixb]. destruct (encode_cp_shape c Hc) as [b0 [conts [E _]]].
    rewrite E. reflexivity.
  - apply cps_ok_cons in Hh. destruct Hh as [Hd Hh].
    rewrite !encode_utf8_cons, encode_cp_prefix by assumption. cbn [prefixb]. rewrite IH by assumption. reflexivity.
Qed.

(* continuation bytes never start a match of something that starts with a lead byte *)
Lemma find_skip_conts x n' rest : is_cont x = false -> forall conts j, forallb is_cont conts = true ->
  find_from (x :: n') (conts ++ rest) j = find_from (x :: n') rest (j + blen conts).
Proof.
  intros Hx. induction conts as [|c t IH]; intros j Hc.
  - cbn [app]. rewrite blen_nil. f_equal. lia.
  - cbn [forallb] in Hc. apply andb_true_iff in Hc. destruct Hc as [Hc Ht].
    cbn [app find_from prefixb].
    destruct (Z.eqb_spec x c) as [E|E]; [subst; congruence|]. cbn [andb].
    rewrite IH by exact Ht. rewrite blen_cons. f_equal. lia.
Qed.

Lemma find_from_pre n : forall h i, find_from n h i = option_map (fun pre => i + zlen pre) (find_pre n h).
Proof.
  induction h as [|c t IH]; intros i.
  - cbn [find_from find_pre]. destruct (prefixb n []); cbn; [f_equal; lia|reflexivity].
  - cbn [find_from find_pre]. destruct (prefixb n (c :: t)).
    + cbn. f_equal. lia.
    + rewrite IH. destruct (find_pre n t) as [pre|]; cbn; [|reflexivity].
      f_equal. unfold zlen. cbn [length]. lia.
Qed.

Lemma find_pre_split n : forall h pre, find_pre n h = Some pre -> exists rest, h = pre ++ rest /\ prefixb n rest = true.
Proof.
  induction h as [|c t IH]; intros pre H.
  - cbn [find_pre] in H. destruct (prefixb n []) eqn:P; [|discriminate]. inversion H. exists []. split; [reflexivity|exact P].
  - cbn [find_pre] in H. destruct (prefixb n (c :: t)) eqn:P.
    + inversion H. exists (c :: t). split; [reflexivity|exact P].
    + destruct (find_pre n t) as [p|] eqn:F; [|discriminate]. cbn in H. inversion H.
      destruct (IH p eq_refl) as [rest [E Pr]]. exists rest. split; [cbn; rewrite <- E; reflexivity|exact Pr].
Qed.

(* the byte-level search on encodings, in terms of the character-level search *)
Theorem find_bytes_chars : forall n h i, cps_ok n = true -> cps_ok h = true ->
  find_from (encode_utf8 n) (encode_utf8 h) i =
  option_map (fun pre => i + blen (encode_utf8 pre)) (find_pre n h).
Proof.
  intros n h. induction h as [|d h IH]; intros i Hn Hh.
  - cbn [encode_utf8 flat_map find_from find_pre].
    change (@nil Z) with (encode_utf8 []) at 1. rewrite prefixb_encode by (assumption || reflexivity).
    destruct (prefixb n []); cbn; [f_equal; lia|reflexivity].
  - pose proof Hh as Hh'. apply cps_ok_cons in Hh. destruct Hh as [Hd Hh].
    cbn [find_pre]. rewrite <- (prefixb_encode n (d :: h)) by assumption.
    rewrite encode_utf8_cons.
    destruct (encode_cp_shape d Hd) as [b0 [conts [E [Hb0 Hconts]]]].
    rewrite E. cbn [app find_from].
    destruct (prefixb (encode_utf8 n) (b0 :: conts ++ encode_utf8 h)) eqn:P.
    + cbn. f_equal. lia.
    + (* no match here: the needle is not empty, so it starts with a lead byte *)
      destruct n as [|c n'].
      { cbn in P. discriminate. }
      apply cps_ok_cons in Hn. destruct Hn as [Hc Hn'].
      rewrite encode_utf8_cons in *. destruct (encode_cp_shape c Hc) as [x [xs [Ex [Hx _]]]].
      rewrite Ex in *. cbn [app] in *.
      rewrite find_skip_conts by assumption.
      rewrite IH by (try assumption; apply cps_ok_cons; split; assumption).
      destruct (find_pre (c :: n') h) as [pre|]; cbn [option_map]; [|reflexivity].
      f_equal. rewrite encode_utf8_cons, blen_app, E, blen_cons. lia.
Qed.

(* sub-lists of scalar values are scalar values *)
Lemma cps_ok_app a b : cps_ok (a ++ b) = cps_ok a && cps_ok b.
Proof. unfold cps_ok. apply forallb_app. Qed.

Lemma cps_ok_firstn k : forall l, cps_ok l = true -> cps_ok (firstn k l) = true.
Proof.
  induction k as [|k IH]; intros l H; [reflexivity|]. destruct l as [|c t]; [reflexivity|].
  apply cps_ok_cons in H. destruct H as [Hc Ht]. cbn [firstn]. apply cps_ok_cons. split; [exact Hc|apply IH; exact Ht].
Qed.

Lemma cps_ok_skipn k : forall l, cps_ok l = true -> cps_ok (skipn k l) = true.
Proof.
  induction k as [|k IH]; intros l H; [exact H|]. destruct l as [|c t]; [reflexivity|].
  apply cps_ok_cons in H. destruct H as [Hc Ht]. cbn [skipn]. apply IH; exact Ht.
Qed.

Lemma cps_ok_rev l : cps_ok l = true -> cps_ok (rev l) = true.
Proof.
  induction l as [|c t IH]; intros H; [reflexivity|].
  apply cps_ok_cons in H. destruct H as [Hc Ht]. cbn [rev]. rewrite cps_ok_app, IH by exact Ht.
  cbn. unfold cps_ok. cbn [forallb]. rewrite Hc. reflexivity.
Qed.

Lemma firstn_encode_prefix pre rest :
  firstn (Z.to_nat (blen (encode_utf8 pre))) (encode_utf8 (pre ++ rest)) = encode_utf8 pre.
Proof.
  rewrite encode_utf8_app. unfold blen. rewrite Nat2Z.id.
  rewrite firstn_app, Nat.sub_diag, firstn_O, app_nil_r. apply firstn_all.
Qed.

(* ---- byte order is code point order: str's Ord (bytewise) compares encodings like the character lists *)
Lemma cmp_lex_app_same w : forall x y, cmp_lex (w ++ x) (w ++ y) = cmp_lex x y.
Proof.
  induction w as [|c t IH]; intros x y; [reflexivity|].
  cbn [app cmp_lex]. rewrite Z.ltb_irrefl. apply IH.
Qed.

Lemma encode_cp_cmp_lt c d x y : cp_ok c = true -> cp_ok d = true -> c < d ->
  cmp_lex (encode_cp c ++ x) (encode_cp d ++ y) = -1 /\ cmp_lex (encode_cp d ++ y) (encode_cp c ++ x) = 1.
Proof.
  intros Hc Hd Hlt. apply cp_ok_true in Hc. apply cp_ok_true in Hd.
  unfold encode_cp.
  destruct (Z.ltb_spec c 128); [|destruct (Z.ltb_spec c 2048); [|destruct (Z.ltb_spec c 65536)]];
  (destruct (Z.ltb_spec d 128); [|destruct (Z.ltb_spec d 2048); [|destruct (Z.ltb_spec d 65536)]]);
  try lia; cbn [app cmp_lex]; split;
  repeat (match goal with
          | |- context [?a <? ?b] => destruct (Z.ltb_spec a b)
          end; try reflexivity);
  exfalso; lia.
Qed.

Theorem cmp_lex_encode : forall a b, cps_ok a = true -> cps_ok b = true ->
  cmp_lex (encode_utf8 a) (encode_utf8 b) = cmp_lex a b.
Proof.
  induction a as [|c a IH]; intros b Ha Hb.
  - destruct b as [|d b]; [reflexivity|].
    apply cps_ok_cons in Hb. destruct Hb as [Hd _]. rewrite encode_utf8_cons.
    destruct (encode_cp_shape d Hd) as [b0 [conts [E _]]]. rewrite E. reflexivity.
  - apply cps_ok_cons in Ha. destruct Ha as [Hc Ha]. rewrite encode_utf8_cons.
    destruct b as [|d b].
    + destruct (encode_cp_shape c Hc) as [b0 [conts [E _]]]. rewrite E. reflexivity.
    + apply cps_ok_cons in Hb. destruct Hb as [Hd Hb]. rewrite encode_utf8_cons. cbn [cmp_lex].
      destruct (Z.ltb_spec c d) as [L|L].
      * apply (encode_cp_cmp_lt c d); assumption.
      * destruct (Z.ltb_spec d c) as [G|G].
        -- apply (encode_cp_cmp_lt d c); assumption.
        -- assert (c = d) by lia. subst d. rewrite cmp_lex_app_same. apply IH; assumption.
Qed.
