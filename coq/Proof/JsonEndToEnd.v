(* C32 proofs: text -> parse_json -> to_jsonb_bytes -> JsonbView read-back, composed. *)
From Coq Require Import ZArith List Bool.
From TV Require Import Lib.MachInt Model.Jsonb Model.JsonText Model.JsonGrammar Proof.JsonbTop Proof.JsonText.
Import ListNotations.
Open Scope Z_scope.

Lemma text_jsonb_roundtrip_l :
  forall (num_of : list Z -> res Z) d, dj_ok num_of false d = true -> fits (erase d) = true ->
  exists v n, parse_json num_of (render d) = Ok (v, n) /\
              tree_of_view (S (depth v)) (encode_value v) = Ok (canon (erase d)) /\
              jequiv (erase d) (canon (erase d)).
Proof.
  intros num_of d Hok Hfit. destruct (parse_json_ok_l num_of d Hok) as [Hp _].
  exists (erase d), (blen (render d) - blen (trail d)).
  split; [exact Hp|]. split; [apply roundtrip_l; exact Hfit|apply canon_equiv_l].
Qed.
