(* C42 - Configuration choices do not change query results.  Property theorems only.
   What is proved here is the part of the property that lives in a data structure: the open-file LRU
   (LruFileCache of src/storage/file_manager.rs, modelled in Model/LruFile.v and run against the real
   structure on every check).  The WAL / synchronous / autoflush / checkpoint-threshold part is decided
   by the correspondence run only (Corr/C42.v: one history under every configuration, compared step by
   step, and each configuration compared with the configuration-free mechanism model of C05); that
   part is sampled, not proved - see DESIGN.md section 8 C42. *)
From Coq Require Import ZArith List Bool.
From TV Require Import Model.LruFile Proof.LruFile.
Import ListNotations.
Open Scope Z_scope.

(* whatever the open-file limit and whatever the order of accesses, closes and forced evictions, a
   handle looked up through the cache (opened and inserted on a miss, the way FileManager uses it) is
   the handle a fresh open of that file returns: exactly what a system with no cache would answer *)
Theorem lru_transparent :
  forall (F : Z -> Z) (cap : Z) (ops : list fop),
    snd (f_run F (lru_new cap) ops) = map (f_spec F) ops.
Proof. exact lru_transparent_l. Qed.

(* hence two open-file limits (64 and anything else, including fewer than the number of files) give
   the same answers on every access sequence *)
Theorem lru_capacity_irrelevant :
  forall (F : Z -> Z) (cap1 cap2 : Z) (ops : list fop),
    snd (f_run F (lru_new cap1) ops) = snd (f_run F (lru_new cap2) ops).
Proof. exact lru_capacity_irrelevant_l. Qed.

(* every reachable state of the cache, under ALL of its methods in any order: `order` has no
   duplicates, the map has one binding per key, both hold the same keys, at most max(cap,1) of them *)
Theorem lru_inv_reachable :
  forall (cap : Z) (ops : list lop), lru_inv (fst (lru_run (lru_new cap) ops)).
Proof. exact lru_inv_reachable_l. Qed.

Theorem lru_len_bounded :
  forall (cap : Z) (ops : list lop), lru_len (fst (lru_run (lru_new cap) ops)) <= Z.max cap 1.
Proof. exact lru_len_bounded_l. Qed.

(* insert stores the value, leaves every other key alone except the one it reports as evicted, and
   evicts only when the key is new and the cache is full - then the least recently used entry, with
   the value it was bound to (so the caller can flush / close exactly that file) *)
Theorem lru_insert_frame :
  forall k v s, lru_inv s ->
    let '(s', ev) := lru_insert k v s in
    m_get k (l_map s') = Some v
    /\ (forall x, x <> k -> (match ev with Some (e, _) => x <> e | None => True end) -> m_get x (l_map s') = m_get x (l_map s))
    /\ match ev with
       | Some (e, w) => m_has k (l_map s) = false /\ zlen (l_order s) >= l_cap s
                        /\ hd_error (l_order s) = Some e /\ m_get e (l_map s) = Some w
       | None => True
       end.
Proof. exact lru_insert_frame_l. Qed.

(* non-vacuity: a 2-entry cache over three files really evicts (and the evicted file is re-opened
   with the right content); with capacity 0 the cache still holds one entry *)
Example c42_nonvacuous :
  snd (lru_run (lru_new 2) [LInsert 1 10; LInsert 2 20; LGet 1; LInsert 3 30; LGet 2; LLen])
    = [OPair None; OPair None; OVal (Some 10); OPair (Some (2, 20)); OVal None; ONum 2]
  /\ snd (f_run (fun k => k * 7) (lru_new 2) [FAccess 1; FAccess 2; FAccess 3; FAccess 1; FEvict; FAccess 3])
    = [Some 7; Some 14; Some 21; Some 7; None; Some 21]
  /\ l_order (fst (f_run (fun k => k * 7) (lru_new 2) [FAccess 1; FAccess 2; FAccess 3; FAccess 1])) = [3; 1]
  /\ snd (lru_run (lru_new 0) [LInsert 1 10; LInsert 2 20; LLen]) = [OPair None; OPair (Some (1, 10)); ONum 1].
Proof. vm_compute. repeat split. Qed.

Check lru_transparent : forall (F : Z -> Z) (cap : Z) (ops : list fop), snd (f_run F (lru_new cap) ops) = map (f_spec F) ops.
Check lru_capacity_irrelevant : forall (F : Z -> Z) (cap1 cap2 : Z) (ops : list fop), snd (f_run F (lru_new cap1) ops) = snd (f_run F (lru_new cap2) ops).
Check lru_inv_reachable : forall (cap : Z) (ops : list lop), lru_inv (fst (lru_run (lru_new cap) ops)).
Check lru_len_bounded : forall (cap : Z) (ops : list lop), lru_len (fst (lru_run (lru_new cap) ops)) <= Z.max cap 1.

Check lru_insert_frame :
  forall k v s, lru_inv s ->
    let '(s', ev) := lru_insert k v s in
    m_get k (l_map s') = Some v
    /\ (forall x, x <> k -> (match ev with Some (e, _) => x <> e | None => True end) -> m_get x (l_map s') = m_get x (l_map s))
    /\ match ev with
       | Some (e, w) => m_has k (l_map s) = false /\ zlen (l_order s) >= l_cap s
                        /\ hd_error (l_order s) = Some e /\ m_get e (l_map s) = Some w
       | None => True
       end.

Print Assumptions lru_transparent.
Print Assumptions lru_capacity_irrelevant.
Print Assumptions lru_inv_reachable.
Print Assumptions lru_len_bounded.
Print Assumptions lru_insert_frame.
