(* Proof/HnswInv1.v -- Inv1: the representation invariant of histories in which no insert has failed
   half way (`clean`), deletes allowed.  It speaks about the readable (Active) nodes only: their rows are
   pairwise distinct and are exactly the caller's live rows, and the row-id map points at them.
   Consequences: for every clean history search is sound (live, distinct, ordered by true distance,
   at most k) even with deleted nodes in the graph, and non-empty as long as the entry point is readable. *)
From Coq Require Import ZArith List Bool Lia Permutation Sorted.
From TV Require Import Model.Hnsw Proof.HnswHeap Proof.HnswSearch Proof.HnswFuel Proof.HnswGraph Proof.HnswInv
  Proof.HnswInv0 Proof.HnswExt Proof.HnswSound Proof.HnswAll Proof.HnswFinite.
Import ListNotations.
Open Scope Z_scope.

Definition arow (s : st) (r : Z) : Prop :=
  exists i nd, nth_error (nodes s) i = Some nd /\ n_active nd = true /\ n_row nd = r.

Record Inv1 (w : world) : Prop := {
  j_links : links_in (ix w) (valid (ix w));
  j_rows : forall i j a b, nth_error (nodes (ix w)) i = Some a -> nth_error (nodes (ix w)) j = Some b ->
             n_active a = true -> n_active b = true -> n_row a = n_row b -> i = j;
  j_tbl : forall r, arow (ix w) r <-> a_get r (tbl w) <> None;
  j_map1 : forall i nd, nth_error (nodes (ix w)) i = Some nd -> n_active nd = true ->
             a_get (n_row nd) (rowmap (ix w)) = Some (Z.of_nat i);
  j_map2 : forall r id, a_get r (rowmap (ix w)) = Some id ->
             exists nd, read_node (ix w) id = Some nd /\ n_row nd = r;
  j_entry : match entry (ix w) with None => nodes (ix w) = [] | Some e => valid (ix w) e end;
  j_good : good (ix w)
}.

Lemma inv1_w0 : Inv1 w0.
Proof.
  constructor.
  - intros nd l x [].
  - intros i j a b H. destruct i; discriminate.
  - intros r. split; [intros (i & nd & H & _); destruct i; discriminate | cbn; congruence].
  - intros i nd H. destruct i; discriminate.
  - intros r id H. discriminate.
  - reflexivity.
  - apply good_empty.
Qed.

Lemma ext_back : forall s s' i nd', ext s s' -> nth_error (nodes s') i = Some nd' ->
  exists nd, nth_error (nodes s) i = Some nd /\ n_row nd' = n_row nd /\ n_active nd' = n_active nd.
Proof.
  intros s s' i nd' E H.
  destruct (nth_error (nodes s) i) as [nd|] eqn:En.
  - destruct (ext_nodes _ _ E _ _ En) as (n2 & H2 & R & A & _). exists nd. split; auto.
    assert (n2 = nd') by congruence. subst. auto.
  - apply nth_error_None in En. rewrite <- (ext_len _ _ E) in En. apply nth_error_None in En. congruence.
Qed.

Lemma appended_nth : forall s row lvl i nd, nth_error (nodes (appended s row lvl)) i = Some nd ->
  (nth_error (nodes s) i = Some nd) \/ (i = length (nodes s) /\ nd = new_node row lvl).
Proof.
  intros s row lvl i nd H. unfold appended in H. cbn [nodes] in H.
  destruct (Nat.lt_ge_cases i (length (nodes s))) as [Hlt|Hge].
  - rewrite nth_error_app1 in H by auto. auto.
  - rewrite nth_error_app2 in H by auto. right.
    destruct (i - length (nodes s))%nat as [|m] eqn:Em; cbn in H.
    + inversion H. split; auto. lia.
    + destruct m; discriminate.
Qed.

(* ---------------------------------------------------------------- insert that returns Ok *)
Lemma inv1_insert_ok : forall p w getv row v lvl s', Inv1 w -> a_get row (tbl w) = None ->
  insert p getv (ix w) row v lvl = IOk s' -> Inv1 (W s' (a_put row v (tbl w))).
Proof.
  intros p w getv row v lvl s' I Etbl Hins.
  set (s := ix w) in *. set (id := Z.of_nat (length (nodes s))).
  set (P := fun x : Z => 0 <= x < Z.of_nat (length (nodes s)) + 1).
  assert (HL : links_in s P).
  { intros nd l x Hn Hl Hx. destruct (j_links _ I nd l x Hn Hl Hx) as [H0 H1]. unfold P. fold s in H1. lia. }
  assert (Hid : P id) by (unfold P, id; lia).
  assert (He : forall e, entry s = Some e -> P e).
  { intros e Ee. pose proof (j_entry _ I) as H. fold s in H. rewrite Ee in H. destruct H. unfold P. lia. }
  pose proof (insert_spec p getv s row v lvl P HL Hid He) as A. cbn zeta in A. fold id in A.
  rewrite Hins in A. destruct A as (s2 & E & L2 & Hs').
  assert (Hrow_new : ~ arow s row).
  { intros H. apply (j_tbl _ I) in H. congruence. }
  set (s1 := appended s row lvl) in *.
  assert (Hlen2 : length (nodes s2) = S (length (nodes s))).
  { rewrite (ext_len _ _ E). unfold s1, appended; cbn [nodes]; rewrite app_length; cbn; lia. }
  assert (Hn' : nodes s' = nodes s2) by (destruct Hs' as [[-> _]| ->]; reflexivity).
  assert (Hrm' : rowmap s' = rowmap s2) by (destruct Hs' as [[-> _]| ->]; reflexivity).
  (* every node of the new state: an old node with the same row and flag, or the new node *)
  assert (Hnode : forall i nd', nth_error (nodes s2) i = Some nd' ->
            (exists nd, nth_error (nodes s) i = Some nd /\ n_row nd' = n_row nd /\ n_active nd' = n_active nd) \/
            (i = length (nodes s) /\ n_row nd' = row /\ n_active nd' = true)).
  { intros i nd' Hi. destruct (ext_back _ _ _ _ E Hi) as (n1 & H1 & R & Ac).
    destruct (appended_nth _ _ _ _ _ H1) as [Ho|[-> ->]]; [left; eauto | right; auto]. }
  assert (Hold : forall i nd, nth_error (nodes s) i = Some nd ->
            exists nd', nth_error (nodes s2) i = Some nd' /\ n_row nd' = n_row nd /\ n_active nd' = n_active nd).
  { intros i nd Hi.
    assert (H1 : nth_error (nodes s1) i = Some nd).
    { unfold s1, appended. cbn [nodes]. rewrite nth_error_app1; auto. apply nth_error_Some. congruence. }
    destruct (ext_nodes _ _ E _ _ H1) as (nd' & H2 & R & Ac & _). eauto. }
  assert (Hnew : exists nd', nth_error (nodes s2) (length (nodes s)) = Some nd' /\ n_row nd' = row /\ n_active nd' = true).
  { assert (H1 : nth_error (nodes s1) (length (nodes s)) = Some (new_node row lvl)).
    { unfold s1, appended. cbn [nodes]. rewrite nth_error_app2, Nat.sub_diag by lia. reflexivity. }
    destruct (ext_nodes _ _ E _ _ H1) as (nd' & H2 & R & Ac & _). eauto. }
  assert (Hgood' : good s').
  { eapply good_insert; [apply (j_good _ I) | left; exact Hins]. }
  constructor; cbn [ix tbl]; rewrite ?Hn', ?Hrm'.
  - intros nd l x Hn Hl Hx. rewrite Hn' in Hn. pose proof (L2 nd l x Hn Hl Hx) as Hp. unfold P in Hp. unfold valid.
    rewrite Hn', Hlen2. lia.
  - intros i j a b Hi Hj Aa Ab Hr.
    destruct (Hnode i a Hi) as [(a0 & Hi0 & Ra & Aca)|(-> & Ra & _)];
    destruct (Hnode j b Hj) as [(b0 & Hj0 & Rb & Acb)|(-> & Rb & _)]; auto.
    + eapply (j_rows _ I); eauto; congruence.
    + exfalso. apply Hrow_new. exists i, a0. repeat split; auto; congruence.
    + exfalso. apply Hrow_new. exists j, b0. repeat split; auto; congruence.
  - intros r. rewrite a_get_put. destruct (Z.eqb_spec r row) as [->|Hne].
    + split; [intros _; discriminate|]. intros _. destruct Hnew as (nd' & H1 & R & Ac).
      exists (length (nodes s)), nd'. rewrite Hn'. auto.
    + pose proof (j_tbl _ I r) as Ht. fold s in Ht. rewrite <- Ht. split.
      * intros (i & nd' & Hi & Ac & R). rewrite Hn' in Hi.
        destruct (Hnode i nd' Hi) as [(n0 & Hi0 & R0 & A0)|(_ & R0 & _)]; [|congruence].
        exists i, n0. repeat split; auto; congruence.
      * intros (i & nd & Hi & Ac & R). destruct (Hold i nd Hi) as (nd' & H2 & R2 & A2).
        exists i, nd'. rewrite Hn'. repeat split; auto; congruence.
  - intros i nd' Hi Ac. rewrite (ext_rowmap _ _ E). unfold s1, appended. cbn [rowmap]. rewrite a_get_put.
    destruct (Hnode i nd' Hi) as [(n0 & Hi0 & R0 & A0)|(-> & R0 & _)].
    + destruct (Z.eqb_spec (n_row nd') row) as [Heq|_].
      * exfalso. apply Hrow_new. exists i, n0. repeat split; auto; congruence.
      * rewrite R0. apply (j_map1 _ I); auto. congruence.
    + rewrite R0, Z.eqb_refl. reflexivity.
  - intros r x Hx. rewrite (ext_rowmap _ _ E) in Hx. unfold s1, appended in Hx. cbn [rowmap] in Hx.
    rewrite a_get_put in Hx.
    assert (Hrd : forall y nd2, 0 <= y -> nth_error (nodes s2) (Z.to_nat y) = Some nd2 -> n_active nd2 = true ->
              read_node s' y = Some nd2).
    { intros y nd2 Hy0 Hy Hy2. apply read_node_intro; auto. rewrite Hn'. exact Hy. }
    destruct (Z.eqb_spec r row) as [->|Hne].
    + inversion Hx; subst x. destruct Hnew as (nd' & H1 & R & Ac). exists nd'. split; auto.
      apply Hrd; auto; [lia|]. unfold id. rewrite Nat2Z.id. exact H1.
    + destruct (j_map2 _ I r x Hx) as (nd & Hr & Rr). apply read_node_Some in Hr. destruct Hr as (H0 & Hnn & Hac).
      destruct (Hold _ _ Hnn) as (nd' & H2 & R2 & A2). exists nd'. split; [|congruence].
      apply Hrd; auto. congruence.
  - destruct Hs' as [[-> Hent]| ->]; cbn [entry set_entry_point].
    + rewrite (ext_entry _ _ E). unfold s1, appended. cbn [entry].
      pose proof (j_entry _ I) as H. fold s in H. destruct (entry s) as [e|] eqn:Ee; [|congruence].
      destruct H. unfold valid. rewrite Hlen2. lia.
    + unfold valid, id, set_entry_point. cbn [nodes]. rewrite Hlen2. lia.
  - exact Hgood'.
Qed.

(* ---------------------------------------------------------------- delete *)
Lemma inv1_delete : forall w row, Inv1 w ->
  Inv1 (W (match delete_by_row_id (ix w) row with DOk s | DErr s => s end) (a_remove row (tbl w))).
Proof.
  intros w row I.
  assert (Hg : good (match delete_by_row_id (ix w) row with DOk s | DErr s => s end)).
  { destruct (delete_by_row_id (ix w) row) eqn:Ed; eapply good_delete; eauto; apply (j_good _ I). }
  unfold delete_by_row_id in *.
  destruct (a_get row (rowmap (ix w))) as [id|] eqn:Em.
  - destruct (j_map2 _ I row id Em) as (nd & Hr & Rr).
    assert (Hr1 : read_node (St (nodes (ix w)) (entry (ix w)) (maxlvl (ix w)) (a_remove row (rowmap (ix w))) (vq (ix w))) id = Some nd)
      by exact Hr.
    rewrite Hr1 in *. cbn [nodes entry maxlvl rowmap vq] in *.
    apply read_node_Some in Hr. destruct Hr as (H0 & Hn & Ha).
    assert (Hlt : (Z.to_nat id < length (nodes (ix w)))%nat) by (apply nth_error_Some; congruence).
    set (dn := N (n_row nd) (n_level nd) false (n_nbrs nd)) in *.
    assert (Hnth : forall i, nth_error (upd (nodes (ix w)) (Z.to_nat id) dn) i =
                     if Nat.eqb i (Z.to_nat id) then Some dn else nth_error (nodes (ix w)) i).
    { intros i. apply upd_nth_Z; auto. }
    destruct I as [I1 I2 I3 I4 I5 I6 I7]. constructor; cbn [ix tbl nodes entry rowmap vq].
    + intros n l x Hin Hl Hx. unfold valid. cbn [nodes]. rewrite upd_length.
      apply In_upd in Hin. destruct Hin as [->|Hin]; [|eapply I1; eauto].
      cbn [n_nbrs dn] in Hl. eapply I1; eauto. eapply nth_error_In; eauto.
    + intros i j a b Hi Hj Aa Ab Hrw. rewrite Hnth in Hi, Hj.
      destruct (Nat.eqb_spec i (Z.to_nat id)); [inversion Hi; subst a; discriminate|].
      destruct (Nat.eqb_spec j (Z.to_nat id)); [inversion Hj; subst b; discriminate|].
      eapply I2; eauto.
    + intros r. rewrite a_get_remove. destruct (Z.eqb_spec r row) as [->|Hne].
      * split; [|congruence]. intros (i & n & Hi & Ac & R). rewrite Hnth in Hi.
        destruct (Nat.eqb_spec i (Z.to_nat id)); [inversion Hi; subst n; discriminate|].
        exfalso. apply n0. eapply I2; eauto. congruence.
      * rewrite <- I3. split.
        -- intros (i & n & Hi & Ac & R). rewrite Hnth in Hi.
           destruct (Nat.eqb_spec i (Z.to_nat id)); [inversion Hi; subst n; discriminate|].
           exists i, n. auto.
        -- intros (i & n & Hi & Ac & R). exists i, n. rewrite Hnth.
           destruct (Nat.eqb_spec i (Z.to_nat id)) as [->|]; auto.
           exfalso. apply Hne. congruence.
    + intros i n Hi Ac. rewrite Hnth in Hi.
      destruct (Nat.eqb_spec i (Z.to_nat id)); [inversion Hi; subst n; discriminate|].
      rewrite a_get_remove. destruct (Z.eqb_spec (n_row n) row) as [Heq|_]; [|apply I4; auto].
      exfalso. apply n0. eapply I2; eauto. congruence.
    + intros r x Hx. rewrite a_get_remove in Hx. destruct (Z.eqb_spec r row) as [|Hne]; [discriminate|].
      destruct (I5 r x Hx) as (n & Hrn & Rn). exists n. split; auto.
      apply read_node_Some in Hrn. destruct Hrn as (X0 & Xn & Xa).
      apply read_node_intro; auto. cbn [nodes]. rewrite Hnth.
      destruct (Nat.eqb_spec (Z.to_nat x) (Z.to_nat id)) as [Heq|]; auto.
      exfalso. apply Hne. rewrite Heq in Xn. congruence.
    + unfold valid. cbn [nodes]. rewrite upd_length.
      destruct (entry (ix w)) as [e|]; auto. rewrite I6 in Hn. destruct (Z.to_nat id); discriminate.
    + exact Hg.
  - cbn [ix] in *.
    assert (Hnorow : ~ arow (ix w) row).
    { intros (i & nd & Hi & Ac & R). pose proof (j_map1 _ I i nd Hi Ac) as Hm. rewrite R, Em in Hm. discriminate. }
    destruct I as [I1 I2 I3 I4 I5 I6 I7]. constructor; cbn [ix tbl]; auto.
    intros r. rewrite a_get_remove. destruct (Z.eqb_spec r row) as [->|Hne]; [|apply I3].
    split; [intros H; contradiction | intros H; congruence].
Qed.

(* ---------------------------------------------------------------- reopen: rebuild_row_id_map *)
Lemma rebuild_other1 : forall ns i acc r,
  (forall j nd, nth_error ns j = Some nd -> n_active nd = true -> n_row nd <> r) ->
  a_get r (rebuild_map ns i acc) = a_get r acc.
Proof.
  induction ns as [|n0 t IH]; intros i acc r H; cbn [rebuild_map]; auto.
  rewrite IH by (intros j nd Hj; apply (H (S j) nd Hj)).
  destruct (n_active n0) eqn:Ea; auto. rewrite a_get_put.
  destruct (Z.eqb_spec r (n_row n0)) as [->|]; auto. exfalso. apply (H O n0 eq_refl Ea). reflexivity.
Qed.

Lemma rebuild_spec1 : forall ns i0 acc,
  (forall i j a b, nth_error ns i = Some a -> nth_error ns j = Some b ->
     n_active a = true -> n_active b = true -> n_row a = n_row b -> i = j) ->
  forall j nd, nth_error ns j = Some nd -> n_active nd = true ->
    a_get (n_row nd) (rebuild_map ns i0 acc) = Some (i0 + Z.of_nat j).
Proof.
  induction ns as [|n0 t IH]; intros i0 acc Hu j nd Hj Ha; [destruct j; discriminate|].
  cbn [rebuild_map].
  assert (Hut : forall i j a b, nth_error t i = Some a -> nth_error t j = Some b ->
     n_active a = true -> n_active b = true -> n_row a = n_row b -> i = j).
  { intros i j' a b Hi Hj' Aa Ab R. assert (S i = S j') by (eapply Hu; eauto). lia. }
  destruct j as [|j]; cbn [nth_error] in Hj.
  - inversion Hj; subst nd. rewrite Ha. rewrite rebuild_other1.
    + rewrite a_get_put, Z.eqb_refl. f_equal. lia.
    + intros j nd Hj' Aj R. assert (S j = O) by (eapply Hu; eauto). lia.
  - rewrite (IH (i0 + 1) _ Hut j nd Hj Ha). f_equal. lia.
Qed.

Lemma rebuild_sound1 : forall ns i0 acc r x, a_get r (rebuild_map ns i0 acc) = Some x ->
  a_get r acc = Some x \/
  exists j nd, nth_error ns j = Some nd /\ n_active nd = true /\ n_row nd = r /\ x = i0 + Z.of_nat j.
Proof.
  induction ns as [|n0 t IH]; intros i0 acc r x H; cbn [rebuild_map] in H; auto.
  apply IH in H. destruct H as [H|(j & nd & Hj & Ha & R & ->)].
  - destruct (n_active n0) eqn:Ea; auto. rewrite a_get_put in H.
    destruct (Z.eqb_spec r (n_row n0)) as [->|]; auto.
    inversion H; subst x. right. exists O, n0. repeat split; auto. lia.
  - right. exists (S j), nd. repeat split; auto. lia.
Qed.

Lemma inv1_reopen : forall w, Inv1 w -> Inv1 (W (reopen (ix w)) (tbl w)).
Proof.
  intros w I. pose proof (good_step (Pm 0 0 0) w Reopen (j_good _ I)) as Hg. cbn [step fst ix] in Hg.
  destruct I as [I1 I2 I3 I4 I5 I6 I7].
  assert (Hent : match entry (ix w) with Some e => if e <? 0 then None else Some e | None => None end = entry (ix w)).
  { destruct (entry (ix w)) as [e|]; auto. destruct I6 as [H0 H1]. destruct (Z.ltb_spec e 0); [lia | auto]. }
  unfold reopen in *. rewrite Hent in *.
  constructor; cbn [ix tbl nodes entry rowmap vq]; auto.
  - intros i nd Hi Ha. rewrite (rebuild_spec1 (nodes (ix w)) 0 [] I2 i nd Hi Ha). f_equal; lia.
  - intros r x Hx. apply rebuild_sound1 in Hx. destruct Hx as [Hx|(j & nd & Hj & Ha & R & ->)]; [discriminate|].
    exists nd. split; auto. apply read_node_intro; [lia | | auto]. cbn [nodes].
    replace (Z.to_nat (0 + Z.of_nat j)) with j by lia. exact Hj.
Qed.

(* ---------------------------------------------------------------- all steps of a clean history *)
Lemma inv1_step : forall p w o, Inv1 w -> op_wf w o = true -> ins_failed p w o = false ->
  Inv1 (fst (step p w o)).
Proof.
  intros p w o I Hwf Hc.
  destruct o as [row v lvl blind|row|n| |q k ef]; cbn [step].
  - cbn [op_wf] in Hwf. destruct (a_get row (tbl w)) as [x|] eqn:Etbl; [discriminate|].
    cbn [ins_failed] in Hc.
    destruct (insert p _ (ix w) row v lvl) as [s'|s'|] eqn:Ei; cbn [fst].
    + eapply inv1_insert_ok; eauto.
    + (* Err: only the dimension check, which leaves the state alone *)
      destruct (Z.eqb_spec (Z.of_nat (length v)) (dims p)) as [Heq|Hne]; [cbn in Hc; discriminate|].
      unfold insert in Ei. destruct (Z.eqb_spec (Z.of_nat (length v)) (dims p)); [contradiction|].
      cbn [negb] in Ei. inversion Ei; subst s'. destruct w; exact I.
    + exact I.
  - pose proof (inv1_delete w row I) as D. destruct (delete_by_row_id (ix w) row); exact D.
  - pose proof (vacuum_noop (ix w) n (j_good _ I)) as V.
    pose proof (good_step p w (Vac n) (j_good _ I)) as Hg. cbn [step] in Hg.
    destruct (vacuum_batch (ix w) n) as [s c]. cbn [fst ix] in *. subst s.
    destruct I as [I1 I2 I3 I4 I5 I6 I7]. constructor; cbn [ix tbl nodes entry rowmap vq]; auto.
  - cbn [fst]. apply inv1_reopen; auto.
  - exact I.
Qed.

Lemma inv1_run : forall p ops w, Inv1 w -> wf_ops p w ops = true -> clean p w ops = true ->
  Inv1 (fst (run p w ops)).
Proof.
  intros p ops. induction ops as [|o t IH]; intros w I Hwf Hcl; cbn [run] in *; auto.
  cbn [wf_ops clean] in *. apply andb_prop in Hwf. destruct Hwf as [Hw1 Hw2].
  apply andb_prop in Hcl. destruct Hcl as [Hc1 Hc2]. apply negb_true_iff in Hc1.
  pose proof (inv1_step p w o I Hw1 Hc1) as S1.
  destruct (step p w o) as [w1 b] eqn:Es. cbn [fst] in *.
  specialize (IH w1 S1 Hw2 Hc2). destruct (run p w1 t) as [w2 bs]. exact IH.
Qed.

Theorem inv1_reached : forall p ops, wf_ops p w0 ops = true -> clean p w0 ops = true -> Inv1 (run0 p ops).
Proof. intros p ops H1 H2. apply inv1_run; auto. apply inv1_w0. Qed.

(* ---------------------------------------------------------------- search in Inv1 *)
Lemma rows_nodup1 : forall w (out : list cand), Inv1 w -> NoDup (map cid out) ->
  NoDup (map fst (flat_map (result_of (ix w)) out)).
Proof.
  intros w out I. induction out as [|x t IHt]; intros Hnd; cbn [flat_map map]; [constructor|].
  cbn [map] in Hnd. inversion Hnd as [|? ? Hnx Hnt]; subst.
  unfold result_of at 1. destruct (read_node (ix w) (cid x)) as [nd|] eqn:Rx; cbn [app map]; auto.
  constructor; auto. cbn [fst]. intros Hin. apply in_map_iff in Hin. destruct Hin as ([r d] & Hr & Hin).
  cbn [fst] in Hr. subst r. apply result_of_in in Hin. destruct Hin as (y & ny & Hy & Ry & Rr & _).
  apply read_node_Some in Rx. apply read_node_Some in Ry.
  destruct Rx as (X0 & Xn & Xa), Ry as (Y0 & Yn & Ya).
  assert (Z.to_nat (cid x) = Z.to_nat (cid y)) by (eapply (j_rows _ I); eauto).
  apply Hnx. apply in_map_iff. exists y. split; auto. lia.
Qed.

Lemma search_sound_inv1 : forall p w q k ef, Inv1 w -> 0 <= k ->
  match search p (getv_of (tbl w)) (ix w) q k ef with
  | SOk l => Z.of_nat (length l) <= k /\ NoDup (map fst l) /\ res_asc l /\ live_true (tbl w) q l /\
             (entry_dead (ix w) = false -> tbl w <> [] -> 1 <= k -> 1 <= ef -> l <> [])
  | SErr => Z.of_nat (length q) <> dims p
  | SAbort | SFuel => False
  end.
Proof.
  intros p w q k ef I Hk.
  destruct (search p (getv_of (tbl w)) (ix w) q k ef) as [l| | |] eqn:Es.
  - assert (He : forall e, entry (ix w) = Some e -> valid (ix w) e).
    { intros e Ee. pose proof (j_entry _ I) as H. rewrite Ee in H. exact H. }
    (* a readable node has a live row and a finite distance *)
    assert (Hlive : forall id nd, read_node (ix w) id = Some nd ->
              exists v, a_get (n_row nd) (tbl w) = Some v /\ cd_search (ix w) (getv_of (tbl w)) q id = Fin (dist2 q v)).
    { intros id nd Hr. assert (Ha : arow (ix w) (n_row nd)).
      { pose proof Hr as Hr'. apply read_node_Some in Hr'. destruct Hr' as (_ & Hn & Hac). exists (Z.to_nat id), nd. auto. }
      apply (j_tbl _ I) in Ha. destruct (a_get (n_row nd) (tbl w)) as [v|] eqn:Ev; [|congruence].
      exists v. split; auto. unfold cd_search, getv_of. rewrite Hr, Ev. reflexivity. }
    pose proof Es as Es2. unfold search in Es2.
    destruct (negb (Z.of_nat (length q) =? dims p)); [discriminate|].
    destruct (entry (ix w)) as [ep|] eqn:Ee.
    2:{ inversion Es2; subst l. cbn. split; [lia|]. split; [constructor|]. split; [constructor|]. split; [intros r d []|].
        intros _ Ht _ _. exfalso. pose proof (j_entry _ I) as H. rewrite Ee in H.
        destruct (tbl w) as [|[r v] t] eqn:Et; [congruence|].
        assert (Hr : a_get r (tbl w) <> None) by (rewrite Et; cbn; rewrite Z.eqb_refl; discriminate).
        apply (j_tbl _ I) in Hr. destruct Hr as (i & nd & Hi & _). rewrite H in Hi. destruct i; discriminate. }
    destruct (Z.ltb_spec ep 0); [discriminate|].
    set (cdf := cd_search (ix w) (getv_of (tbl w)) q) in *.
    destruct (descend (Z.to_nat (maxlvl (ix w))) (maxlvl (ix w)) (ix w) cdf ep (cdf ep)) as [cur d] eqn:Ed.
    pose proof (descend_cd _ _ _ _ _ _ _ _ eq_refl Ed) as Hd.
    assert (Pcur : valid (ix w) cur).
    { eapply (descend_ids _ _ _ _ _ _ _ _ (valid (ix w))); [apply He; auto | | exact Ed]. apply gn_at_P. apply (j_links _ I). }
    destruct (beam (beam_fuel (ix w)) (gn_at (ix w) 0) cdf ef (C cur d)) as [rs|] eqn:Eb; [|discriminate].
    inversion Es2; subst l. clear Es2.
    destruct (beam_spec (gn_at (ix w) 0) cdf ef (beam_fuel (ix w)) (C cur d) rs Hd Eb) as (B1 & B2 & B3).
    destruct (finalize_spec k rs B1 Hk) as (F1 & F2 & F3 & F4 & F5).
    split; [pose proof (result_of_length (ix w) (finalize k rs)); lia|].
    split; [apply rows_nodup1; auto|]. split; [apply result_of_sorted; exact F2|]. split.
    + intros r dd Hin. apply result_of_in in Hin. destruct Hin as (x & nd & Hx & Hr & -> & ->).
      destruct (Hlive _ _ Hr) as (v & Ev & Hc). exists v. split; auto.
      rewrite (B3 x (F3 x Hx)). exact Hc.
    + intros Hdead Ht Hk1 Hef1 Hnil.
      (* the entry point is readable, so its distance is finite; a finite result survives to the end *)
      unfold entry_dead in Hdead. rewrite Ee in Hdead.
      destruct (read_node (ix w) ep) as [en|] eqn:Re; [|discriminate].
      destruct (Hlive _ _ Re) as (v & _ & Hce).
      assert (Fd : isfin d = true).
      { eapply descend_fin; [|exact Ed]. fold cdf in Hce. rewrite Hce. reflexivity. }
      pose proof (beam_fin (gn_at (ix w) 0) cdf ef ltac:(lia) (beam_fuel (ix w)) (C cur d) rs Fd Eb) as Hf.
      destruct (finalize_fin k rs B1 Hk1 Hf) as (x & Hx & Fx).
      assert (Hrx : read_node (ix w) (cid x) <> None).
      { intros Hn. pose proof (B3 x (F3 x Hx)) as Hc. unfold cdf, cd_search in Hc. rewrite Hn in Hc. rewrite Hc in Fx. discriminate. }
      destruct (read_node (ix w) (cid x)) as [nx|] eqn:Rx; [|congruence].
      assert (In (n_row nx, cd x) (flat_map (result_of (ix w)) (finalize k rs))).
      { apply result_of_in. exists x, nx. auto. }
      rewrite Hnil in H0. destruct H0.
  - unfold search in Es.
    destruct (Z.eqb_spec (Z.of_nat (length q)) (dims p)) as [Heq|Hne]; cbn [negb] in Es; [|exact Hne].
    destruct (entry (ix w)) as [ep|]; [|discriminate]. destruct (ep <? 0); [discriminate|].
    destruct (descend _ _ _ _ _ _) as [cur d].
    destruct (beam _ _ _ _ _); discriminate.
  - unfold search in Es.
    destruct (negb (Z.of_nat (length q) =? dims p)); [discriminate|].
    pose proof (j_entry _ I) as H.
    destruct (entry (ix w)) as [ep|]; [|discriminate].
    destruct (Z.ltb_spec ep 0); [destruct H; lia|].
    destruct (descend _ _ _ _ _ _) as [cur d].
    destruct (beam _ _ _ _ _); discriminate.
  - exact (search_never_out_of_fuel _ _ _ _ _ _ Es).
Qed.

(* ---------------------------------------------------------------- stated for histories *)
Lemma search_sound_clean_l : forall p ops q k ef,
  wf_ops p w0 ops = true -> clean p w0 ops = true -> 0 <= k ->
  match search p (getv_of (tbl (run0 p ops))) (ix (run0 p ops)) q k ef with
  | SOk l => Z.of_nat (length l) <= k /\ NoDup (map fst l) /\ res_asc l /\ live_true (tbl (run0 p ops)) q l
  | SErr => Z.of_nat (length q) <> dims p
  | SAbort | SFuel => False
  end.
Proof.
  intros p ops q k ef Hwf Hc Hk.
  pose proof (search_sound_inv1 p (run0 p ops) q k ef (inv1_reached p ops Hwf Hc) Hk) as H.
  destruct (search _ _ _ _ _ _); auto. destruct H as (A & B & C & D & _). auto.
Qed.

Lemma search_nonempty_clean_l : forall p ops q k ef l,
  wf_ops p w0 ops = true -> clean p w0 ops = true -> entry_dead (ix (run0 p ops)) = false ->
  tbl (run0 p ops) <> [] -> 1 <= k -> 1 <= ef ->
  search p (getv_of (tbl (run0 p ops))) (ix (run0 p ops)) q k ef = SOk l -> l <> [].
Proof.
  intros p ops q k ef l Hwf Hc Hd Ht Hk Hef Hs.
  pose proof (search_sound_inv1 p (run0 p ops) q k ef (inv1_reached p ops Hwf Hc) ltac:(lia)) as H.
  rewrite Hs in H. destruct H as (_ & _ & _ & _ & E). auto.
Qed.
