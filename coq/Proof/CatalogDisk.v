(* C40 proofs, crash half (Model/CatalogDisk.v): the write-temp / sync / rename protocol that
   CatalogPersistence::save follows since /repo 5a0cf56 leaves the old or the new file at every
   crash point in both crash modes; historical: the in-place rewrite it replaced lost the catalog
   at every crash point between the truncation and the last byte of the body (for all catalogs)
   and was harmless outside those points. *)
From Coq Require Import ZArith List Bool Lia ZifyBool.
From TV Require Import Lib.MachInt Lib.MachIntFacts Model.Catalog Model.CatalogDisk Proof.Catalog.
Import ListNotations.
Open Scope Z_scope.
(* ------------------------------------------------------------------ running a program to a crash point *)
Lemma run_to_done prog k j s : (length prog <= k)%nat -> run_to prog k j s = fold_left step prog s.
Proof.
  intros H. unfold run_to. rewrite firstn_all2 by exact H.
  replace (nth_error prog k) with (@None ev); [reflexivity|]. symmetry. apply nth_error_None. exact H.
Qed.

(* what a killed process leaves at the catalog path, for every crash point of the in-place save *)
Lemma inplace_kill_content old h b k j :
  kill_view (run_to (save_inplace h b) k j (init_fs old None)) p_catalog =
  Some (match k with
        | O => old
        | 1%nat => firstn j h
        | 2%nat => h ++ firstn j b
        | _ => h ++ b
        end).
Proof.
  destruct k as [|[|[|[|k]]]]; try reflexivity.
  rewrite run_to_done by (cbn [save_inplace length]; lia). reflexivity.
Qed.

Lemma save_parts_inv c h b : save_parts c = Some (h, b) -> b = enc_catalog c /\ h = header c (zlen b).
Proof.
  unfold save_parts, serialize. destruct (forallb schema_ser_ok c); [|discriminate].
  intros H. injection H as <- <-. auto.
Qed.

Lemma firstn_min {A} n (l : list A) : firstn n l = firstn (Nat.min n (length l)) l.
Proof.
  destruct (Nat.le_ge_cases n (length l)) as [H|H].
  - rewrite Nat.min_l by exact H. reflexivity.
  - rewrite Nat.min_r by exact H. rewrite firstn_all, firstn_all2 by exact H. reflexivity.
Qed.

(* the contents at a crash point inside the rewrite are a strict prefix of the new file *)
Lemma inside_is_strict_prefix old h b k j :
  inside_rewrite h b k j = true ->
  exists n, (n < length (h ++ b))%nat /\
    kill_view (run_to (save_inplace h b) k j (init_fs old None)) p_catalog = Some (firstn n (h ++ b)).
Proof.
  intros Hin. rewrite inplace_kill_content. rewrite app_length.
  destruct k as [|[|[|k]]]; cbn [inside_rewrite] in Hin; try discriminate.
  - exists (Nat.min j (length h)). split.
    + pose proof (Nat.le_min_r j (length h)) as M1. pose proof (Nat.le_min_l j (length h)) as M2.
      apply orb_true_iff in Hin. destruct Hin as [Hin|Hin]; apply Nat.ltb_lt in Hin; revert M1 M2; generalize (Nat.min j (length h)); intros; lia.
    + pose proof (Nat.le_min_r j (length h)) as M1. rewrite firstn_app_le by exact M1. rewrite <- firstn_min. reflexivity.
  - apply Nat.ltb_lt in Hin. exists (length h + j)%nat. split; [lia|].
    rewrite firstn_app. rewrite (firstn_all2 h) by lia. replace (length h + j - length h)%nat with j by lia. reflexivity.
Qed.

(* historical (before /repo 5a0cf56): a crash anywhere between the truncation and the last byte of
   the body leaves a catalog file that does not load -- for EVERY old and new catalog *)
Theorem inplace_crash_unloadable_l c_new h b old k j :
  save_parts c_new = Some (h, b) -> file_fits c_new = true -> inside_rewrite h b k j = true ->
  load_view (kill_view (run_to (save_inplace h b) k j (init_fs old None)) p_catalog) = Err.
Proof.
  intros Hs Hf Hin. apply save_parts_inv in Hs. destruct Hs as [Hb Hh].
  destruct (inside_is_strict_prefix old h b k j Hin) as (n & Hn & Hv). rewrite Hv. cbn [load_view].
  subst h. apply load_prefix_err_l; [|exact Hn]. subst b. apply file_fits_inv. exact Hf.
Qed.

(* ... and outside those crash points the file is the old one or the new one *)
Theorem inplace_crash_outside_l old h b k j :
  inside_rewrite h b k j = false ->
  kill_view (run_to (save_inplace h b) k j (init_fs old None)) p_catalog = Some old
  \/ kill_view (run_to (save_inplace h b) k j (init_fs old None)) p_catalog = Some (h ++ b).
Proof.
  intros Hin. rewrite inplace_kill_content.
  destruct k as [|[|[|k]]]; cbn [inside_rewrite] in Hin; [left; reflexivity | | | right; reflexivity].
  - right. apply orb_false_iff in Hin. destruct Hin as [H1 H2]. apply Nat.ltb_ge in H1. apply Nat.ltb_ge in H2.
    destruct b; [|cbn [length] in H2; lia]. rewrite app_nil_r, firstn_all2 by exact H1. reflexivity.
  - right. apply Nat.ltb_ge in Hin. rewrite firstn_all2 by exact Hin. reflexivity.
Qed.

(* ------------------------------------------------------------------ the code as it is: write temp, sync, rename *)
Ltac pl_cases H :=
  unfold pl_view in H; destruct H as [m0 H];
  destruct m0 as [|[|[|m0]]]; cbn in H;
  repeat match type of H with
         | exists _, _ => destruct H as [? H]
         | _ /\ _ => let H1 := fresh "H" in destruct H as [H1 H]
         end.

Theorem atomic_replace_safe_l old stale h b k j m v :
  crash_view m (run_to (save_atomic h b) k j (init_fs old stale)) p_catalog v ->
  v = Some old \/ v = Some (h ++ b).
Proof.
  intros H.
  destruct stale as [t|]; destruct k as [|[|[|[|[|[|k]]]]]];
    try (rewrite run_to_done in H by (cbn [save_atomic length]; lia));
    destruct m; cbn in H; try (subst v; auto; fail).
  all: pl_cases H.
  all: try (subst v; auto; fail).
  all: repeat match goal with
       | Hx : Some _ = Some _ |- _ => injection Hx as <-
       | Hx : pl_content _ _ |- _ => unfold pl_content in Hx; cbn in Hx; destruct Hx as [-> | [Hd _]]; [|discriminate Hd]
       end; subst v; auto.
Qed.

Theorem atomic_replace_durable_l old stale h b k j m v :
  (6 <= k)%nat ->
  crash_view m (run_to (save_atomic h b) k j (init_fs old stale)) p_catalog v -> v = Some (h ++ b).
Proof.
  intros Hk H. rewrite run_to_done in H by (cbn [save_atomic length]; lia).
  destruct stale as [t|]; destruct m; cbn in H; try (subst v; reflexivity).
  all: pl_cases H.
  all: repeat match goal with
       | Hx : Some _ = Some _ |- _ => injection Hx as <-
       | Hx : pl_content _ _ |- _ => unfold pl_content in Hx; cbn in Hx; destruct Hx as [-> | [Hd _]]; [|discriminate Hd]
       end; subst v; reflexivity.
Qed.

(* in the property's terms *)
Theorem inplace_crash_keeps_old_l old oldf h b k j :
  keeps_old old (load_file oldf) = true -> keeps_old old (load_file (h ++ b)) = true ->
  inside_rewrite h b k j = false ->
  keeps_old old (load_view (kill_view (run_to (save_inplace h b) k j (init_fs oldf None)) p_catalog)) = true.
Proof.
  intros Ho Hn Hin. destruct (inplace_crash_outside_l oldf h b k j Hin) as [-> | ->]; assumption.
Qed.

Theorem atomic_replace_keeps_old_l old oldf stale h b k j m v :
  keeps_old old (load_file oldf) = true -> keeps_old old (load_file (h ++ b)) = true ->
  crash_view m (run_to (save_atomic h b) k j (init_fs oldf stale)) p_catalog v ->
  keeps_old old (load_view v) = true.
Proof.
  intros Ho Hn H. destruct (atomic_replace_safe_l oldf stale h b k j m v H) as [-> | ->]; assumption.
Qed.

Theorem inplace_crash_loses_all_l old c_new h b oldf k j :
  save_parts c_new = Some (h, b) -> file_fits c_new = true -> inside_rewrite h b k j = true ->
  keeps_old old (load_view (kill_view (run_to (save_inplace h b) k j (init_fs oldf None)) p_catalog)) = false.
Proof.
  intros Hs Hf Hin. rewrite (inplace_crash_unloadable_l c_new h b oldf k j Hs Hf Hin). reflexivity.
Qed.

(* power loss during the in-place rewrite: the old file, or some prefix of the new one *)
Lemma prefix_of_header_prefix n j (h b : list Z) :
  firstn n (firstn j h) = firstn (Nat.min (Nat.min n j) (length h)) (h ++ b).
Proof.
  rewrite firstn_firstn. rewrite (firstn_min (Nat.min n j) h).
  rewrite firstn_app_le by apply Nat.le_min_r. reflexivity.
Qed.

Lemma prefix_of_body_prefix n j (h b : list Z) :
  firstn n (h ++ firstn j b) = firstn (Nat.min n (length h + j)) (h ++ b).
Proof.
  rewrite <- firstn_firstn. f_equal.
  rewrite firstn_app, (firstn_all2 h) by lia. replace (length h + j - length h)%nat with j by lia. reflexivity.
Qed.

Theorem inplace_powerloss_view_l old h b k j v :
  pl_view (run_to (save_inplace h b) k j (init_fs old None)) p_catalog v ->
  v = Some old \/ exists n, v = Some (firstn n (h ++ b)).
Proof.
  intros H.
  destruct k as [|[|[|[|k]]]]; try (rewrite run_to_done in H by (cbn [save_inplace length]; lia)); cbn in H.
  all: unfold pl_view in H; destruct H as [m0 H]; destruct m0 as [|m0]; cbn in H;
       destruct H as (x & c & Hx & Hc & ->); injection Hx as <-;
       unfold pl_content in Hc; cbn in Hc.
  all: destruct Hc as [-> | [Hd [n ->]]]; try discriminate Hd; auto.
  all: right.
  all: try (eexists; f_equal; apply prefix_of_header_prefix).
  all: try (eexists; f_equal; apply prefix_of_body_prefix).
  all: try (exists (length (h ++ b)); rewrite firstn_all; reflexivity).
  all: try (exists n; reflexivity).
Qed.

(* ------------------------------------------------------------------ the witness *)
Theorem ddl_crash_keeps_old_refuted_l :
  exists old new oldf h b k j,
    wf_catalog old = true /\ wf_catalog new = true /\ codec_class old = 0 /\ codec_class new = 0
    /\ save_file old = Some oldf /\ save_parts new = Some (h, b)
    /\ keeps_old old (load_file oldf) = true /\ keeps_old old (load_file (h ++ b)) = true
    /\ keeps_old old (load_view (kill_view (run_to (save_inplace h b) k j (init_fs oldf None)) p_catalog)) = false.
Proof.
  exists ex_old, ex_new.
  destruct (save_file ex_old) as [oldf|] eqn:Eo; [|vm_compute in Eo; discriminate Eo].
  destruct (save_parts ex_new) as [[h b]|] eqn:En; [|vm_compute in En; discriminate En].
  exists oldf, h, b, 2%nat, 5%nat.
  vm_compute in Eo. injection Eo as <-. vm_compute in En. injection En as <- <-.
  vm_compute. repeat split.
Qed.

(* ------------------------------------------------------------------ non-vacuity (used by Props/C40.v) *)
Lemma c40_hypotheses_satisfiable_l :
  wf_catalog ex_new = true /\ file_fits ex_new = true /\ codec_class ex_new = 0
  /\ wf_catalog ex_expr_catalog = true /\ builtins_ok ex_expr_catalog = true /\ catalog_plain ex_expr_catalog = false
  /\ wf_catalog ex_user_catalog = true /\ file_fits ex_user_catalog = true /\ codec_class ex_user_catalog = 0
  /\ (exists h b, save_parts ex_new = Some (h, b)
        /\ inside_rewrite h b 1 0 = true /\ inside_rewrite h b 2 17 = true
        /\ inside_rewrite h b 0 0 = false /\ inside_rewrite h b 3 0 = false
        /\ keeps_old ex_old (load_file (h ++ b)) = true)
  /\ (exists f, save_file ex_old = Some f /\ keeps_old ex_old (load_file f) = true)
  /\ find_table ex_new name_root [116;50] = Some ex_t2.
Proof.
  split; [vm_compute; reflexivity|]. split; [vm_compute; reflexivity|]. split; [vm_compute; reflexivity|].
  split; [vm_compute; reflexivity|]. split; [vm_compute; reflexivity|]. split; [vm_compute; reflexivity|].
  split; [vm_compute; reflexivity|]. split; [vm_compute; reflexivity|]. split; [vm_compute; reflexivity|].
  split; [|split; [|vm_compute; reflexivity]].
  - destruct (save_parts ex_new) as [[h b]|] eqn:E; [|vm_compute in E; discriminate E].
    exists h, b. vm_compute in E. injection E as <- <-.
    split; [reflexivity|]. vm_compute. repeat split.
  - destruct (save_file ex_old) as [f|] eqn:E; [|vm_compute in E; discriminate E].
    exists f. vm_compute in E. injection E as <-. split; [reflexivity|]. vm_compute. reflexivity.
Qed.

Lemma c40_crash_views_exist_l :
  crash_view PowerLoss (run_to (save_atomic [1] [2]) 5 0 (init_fs [9] None)) p_catalog (Some [9])
  /\ crash_view PowerLoss (run_to (save_atomic [1] [2]) 5 0 (init_fs [9] None)) p_catalog (Some [1; 2])
  /\ crash_view Kill (run_to (save_atomic [1] [2]) 2 1 (init_fs [9] (Some [7]))) p_catalog (Some [9]).
Proof.
  split; [|split].
  - exists 0%nat. cbn. eexists. eexists. split; [reflexivity|]. split; [left; reflexivity | reflexivity].
  - exists 2%nat. cbn. eexists. eexists. split; [reflexivity|]. split; [left; reflexivity | reflexivity].
  - reflexivity.
Qed.
