(* C36 - Page write locks are mutually exclusive.
   Property theorems only.  They speak about Model/PageLocks.v: an executable model of
   src/database/page_locks.rs (PageLockManager: get_or_create / try_cleanup, the forgotten
   parking_lot guards and force_unlock, entry ref counts, table intent locks) under the
   interleaving semantics of Lib/Interleave.v:
     init progs            one thread per program (a list of page_read/page_write/drop and
                           table_intent_*/drop calls), nothing locked, empty maps
     step fx t             the next atomic step of thread t (an atomic operation or a whole mutex
                           critical section of the code), None when t is blocked or finished;
                           fx = true is the code as it is (try_cleanup as repaired by /repo d1af26b,
                           = fixes/C36-cleanup-removes-newer-entry.diff: the mapping is removed only
                           if it still points at this very entry); fx = false is try_cleanup BEFORE
                           d1af26b (removal by key), kept for the historical theorems
     run (step fx) sched   any schedule = any list of thread ids (every interleaving, every
                           number of threads, every length)
     writers s k / readers s k   number of write / read guards on page k that exist in state s
                           (including a thread that owns the lock and is about to wrap it)
     s_bad                 ghost flag: some cleanup removed, by key, a map entry that was still
                           referenced (finding F-C36-1, fixed); it influences no step and is never
                           set when fx = true
     finished th           thread th has run to the end of its closure (everything dropped)
     waiting pc            the thread is inside the blocking read()/write() (Proof/PageLocksLive.v)
     blocked_by th thu     thu owns what th waits for, on the same entry: th is about to call
                           read()/write() and thu has set WRITER_BIT (th_w: write lock held, or
                           write() waiting for the readers), or th has set WRITER_BIT and waits
                           for the readers to drain and thu holds a read lock (th_r)
     moves fx sched s      number of entries of sched on which the scheduled thread really moved
     work progs            12 * (number of calls) + 1 per thread (Proof/PageLocksTerm.v). *)
From Coq Require Import ZArith List Bool Arith.
From TV Require Import Lib.Interleave Model.PageLocks.
From TV Require Import Proof.PageLocksBase Proof.PageLocksStep Proof.PageLocksShape Proof.PageLocksInv
  Proof.PageLocks Proof.PageLocksRefute Proof.PageLocksLive Proof.PageLocksTable Corr.C36 Proof.PageLocksCorr Proof.PageLocksTerm.
Import ListNotations.
Open Scope Z_scope.

(* MAIN THEOREM, the code as it is: on every page at most one write guard, and a write guard
   excludes read guards, in every state reachable by any schedule of any number of threads *)
Theorem mutual_exclusion_all_schedules : forall progs sched,
  mutual_exclusion (run (step true) sched (init progs)).
Proof. exact mutual_exclusion_repaired_l. Qed.
Check mutual_exclusion_all_schedules : forall progs sched,
  mutual_exclusion (run (step true) sched (init progs)).
Print Assumptions mutual_exclusion_all_schedules.

(* HISTORICAL (try_cleanup before /repo d1af26b, fx = false; finding F-C36-1, fixed): removal by
   key let a schedule of two threads with two preemptions end with two write guards on one page *)
Theorem before_d1af26b_mutual_exclusion_refuted :
  exists progs sched, ~ mutual_exclusion (run (step false) sched (init progs)).
Proof. exact mutual_exclusion_refuted_l. Qed.
Check before_d1af26b_mutual_exclusion_refuted :
  exists progs sched, ~ mutual_exclusion (run (step false) sched (init progs)).
Print Assumptions before_d1af26b_mutual_exclusion_refuted.

(* ... and that stale removal was the only way to lose exclusion (either variant of the cleanup) *)
Theorem mutual_exclusion_unless_stale_cleanup : forall fx progs sched,
  s_bad (sh (run (step fx) sched (init progs))) = false ->
  mutual_exclusion (run (step fx) sched (init progs)).
Proof. exact mutual_exclusion_unless_bad_l. Qed.
Check mutual_exclusion_unless_stale_cleanup : forall fx progs sched,
  s_bad (sh (run (step fx) sched (init progs))) = false ->
  mutual_exclusion (run (step fx) sched (init progs)).
Print Assumptions mutual_exclusion_unless_stale_cleanup.

(* the page lock table returns to empty when all guards are dropped *)
Theorem map_empty_when_done : forall fx progs sched,
  all_done (run (step fx) sched (init progs)) -> s_map (sh (run (step fx) sched (init progs))) = [].
Proof. exact map_empty_when_done_l. Qed.
Check map_empty_when_done : forall fx progs sched,
  all_done (run (step fx) sched (init progs)) -> s_map (sh (run (step fx) sched (init progs))) = [].
Print Assumptions map_empty_when_done.

(* "every acquisition succeeds once the conflicting holders release": a thread that cannot move
   and is not finished is blocked by a current owner of the very lock it waits for *)
Theorem blocked_only_by_owner : forall fx progs sched t th,
  let s := run (step fx) sched (init progs) in
  lget (ths s) t = Some th -> step fx t s = None -> finished th = false ->
  exists u thu, lget (ths s) u = Some thu /\ blocked_by th thu.
Proof. exact blocked_only_by_owner_l. Qed.
Check blocked_only_by_owner : forall fx progs sched t th,
  let s := run (step fx) sched (init progs) in
  lget (ths s) t = Some th -> step fx t s = None -> finished th = false ->
  exists u thu, lget (ths s) u = Some thu /\ blocked_by th thu.
Print Assumptions blocked_only_by_owner.

(* no deadlock and no lost wake-up: in every reachable state in which the threads that wait
   inside read()/write() hold no page guard (one page lock at a time), some thread can move
   unless all have finished *)
Theorem no_deadlock : forall fx progs sched,
  let s := run (step fx) sched (init progs) in
  (exists t th, lget (ths s) t = Some th /\ finished th = false) ->
  (forall t th, lget (ths s) t = Some th -> waiting (th_pc th) = true -> th_pg th = []) ->
  exists t, step fx t s <> None.
Proof. exact no_deadlock_l. Qed.
Check no_deadlock : forall fx progs sched,
  let s := run (step fx) sched (init progs) in
  (exists t th, lget (ths s) t = Some th /\ finished th = false) ->
  (forall t th, lget (ths s) t = Some th -> waiting (th_pc th) = true -> th_pg th = []) ->
  exists t, step fx t s <> None.
Print Assumptions no_deadlock.

(* ... and every step that is taken consumes work: no spinning, no livelock.  With no_deadlock:
   scheduling threads that can move reaches "everybody finished" within work progs steps
   ("every acquisition eventually succeeds"), as long as waiting threads hold no page guard *)
Theorem bounded_work : forall fx progs sched, (moves fx sched (init progs) <= work progs)%nat.
Proof. exact bounded_work_l. Qed.
Check bounded_work : forall fx progs sched, (moves fx sched (init progs) <= work progs)%nat.
Print Assumptions bounded_work.

(* table intent locks: `exclusive` is never set, so the lock is granted in one step, always *)
Theorem table_intent_granted : forall fx progs sched t th x tb r,
  let s := run (step fx) sched (init progs) in
  lget (ths s) t = Some th -> (th_pc th = PIdle \/ exists n, th_pc th = PPark n) ->
  next_op th = Some (OTAcq x tb, r) ->
  exists s', step fx t s = Some s' /\
             lget (ths s') t = Some (mkTh r PIdle (th_pg th) (th_tg th ++ [(tb, x)])) /\
             s_tacq (sh s') = s_tacq (sh s) + 1.
Proof. exact table_intent_granted_l. Qed.
Check table_intent_granted : forall fx progs sched t th x tb r,
  let s := run (step fx) sched (init progs) in
  lget (ths s) t = Some th -> (th_pc th = PIdle \/ exists n, th_pc th = PPark n) ->
  next_op th = Some (OTAcq x tb, r) ->
  exists s', step fx t s = Some s' /\
             lget (ths s') t = Some (mkTh r PIdle (th_pg th) (th_tg th ++ [(tb, x)])) /\
             s_tacq (sh s') = s_tacq (sh s) + 1.
Print Assumptions table_intent_granted.

Theorem table_map_empty_when_done : forall fx progs sched,
  all_done (run (step fx) sched (init progs)) -> s_tbl (sh (run (step fx) sched (init progs))) = [].
Proof. exact table_map_empty_when_done_l. Qed.
Check table_map_empty_when_done : forall fx progs sched,
  all_done (run (step fx) sched (init progs)) -> s_tbl (sh (run (step fx) sched (init progs))) = [].
Print Assumptions table_map_empty_when_done.

(* on the comparer's own predicates (Corr/C36.v): where the implementation did what the model
   predicts, the occupancy counters observed after every step satisfy the oracle's exclusion
   clause, and when nobody is left blocked both lock tables were reported empty *)
Theorem agreeing_case_satisfies_property : forall progs steps f,
  model_agrees (Case progs steps f) = true ->
  forallb (fun st => occ_ok (so_occ st)) steps = true /\
  match f with FComplete _ _ _ [] np nt => np = 0 /\ nt = 0 | _ => True end.
Proof. exact agreeing_case_satisfies_property_l. Qed.
Check agreeing_case_satisfies_property : forall progs steps f,
  model_agrees (Case progs steps f) = true ->
  forallb (fun st => occ_ok (so_occ st)) steps = true /\
  match f with FComplete _ _ _ [] np nt => np = 0 /\ nt = 0 | _ => True end.
Print Assumptions agreeing_case_satisfies_property.

(* non-vacuity: a state with a writer and no stale cleanup is reachable; all_done is reachable *)
Example writer_reachable :
  let s := run_coarse (step true) at_site 50 [0;0;0]%nat (init [wprog; wprog]) in
  s_bad (sh s) = false /\ writers s 7 = 1%nat.
Proof. vm_compute. split; reflexivity. Qed.
Example all_done_reachable :
  let s := run_coarse (step true) at_site 50 (repeat 0%nat 12 ++ repeat 1%nat 12) (init [wprog; wprog]) in
  forallb (fun p => finished (snd p)) (ths s) = true /\ s_map (sh s) = [].
Proof. vm_compute. split; reflexivity. Qed.
(* a blocked, unfinished thread exists (hypotheses of blocked_only_by_owner are satisfiable) *)
Example blocked_reachable :
  let s := run_coarse (step true) at_site 50 [0;0;0;1;1]%nat (init [wprog; wprog]) in
  step true 1 s = None /\ match lget (ths s) 1%nat with Some th => finished th = false | None => False end.
Proof. vm_compute. split; reflexivity. Qed.
(* table intent locks are exercised: two threads take and drop intent locks on table 1 *)
Example table_locks_reachable :
  let s := run_coarse (step true) at_site 50 [0;1;0;1]%nat
             (init [[OTAcq true 1; OTAcq false 1; OTRel 0]; [OTAcq false 1]]) in
  s_tacq (sh s) = 3 /\ s_tbl (sh s) = [] /\ forallb (fun p => finished (snd p)) (ths s) = true.
Proof. vm_compute. repeat split; reflexivity. Qed.
(* the schedule that broke the code before d1af26b keeps both acquisitions on one entry now *)
Example old_witness_is_exclusive_now :
  writers (run_coarse (step true) at_site 50 wsched (init [wprog; wprog])) 7 = 1%nat.
Proof. exact repaired_same_schedule. Qed.
