(* C23 correspondence: judge what the harness observed when it fed byte strings to the REAL decoders
   (every call under catch_unwind) against the models of Model/StoredBytes.v, PageAccess.v and
   ArrayView.v, and against the property itself (a value or an error - never a panic, abort or hang).
     Dec   one decoder call on one byte string: model outcome class and value must equal the observed
     Xp    EXPLORATION ONLY (no model): how a call sequence on corrupted stored bytes ended - LeafNode::find_key
           on a corrupted page, Database::open + full scans on a database directory with corrupted files
           (child process, 5 s watchdog).  model_agrees is vacuously true there.
   Byte strings are carried as `B len fill runs` (Model/StoredBytes.v image), never as 16 KiB literals;
   the run offsets and bytes are primitive 63-bit integer literals (coqc reads those ten times faster than Z
   literals), converted to Z by Uint63.to_Z before the model sees them.
   Byte-string results are compared by length and a 32-bit rolling digest.
   Definitions only; evaluated by vm_compute. *)
From Coq Require Import ZArith List Bool.
From Coq Require Export Uint63.
From TV Require Import Lib.MachInt Gen.PageConsts Gen.LeafLayout Gen.InteriorLayout Gen.HnswLayout.
From TV Require Model.Record.
From TV Require Export Model.StoredBytes Model.PageAccess Model.ArrayView.
Import ListNotations.
Open Scope Z_scope.

Inductive bytes_desc := B (len fill : Z) (runs : list (int * list int)).
Definition bytes_of (b : bytes_desc) : list Z :=
  match b with
  | B len fill runs => image len fill (map (fun r => (Uint63.to_Z (fst r), map Uint63.to_Z (snd r))) runs)
  end.

(* what the implementation did: OOk carries the numeric results; byte-string results as digest *)
Inductive obs := OOk (vals : list Z) | OErr | OPanic.

(* site: small code of the source file of the panic location (0 = none / outside src);
   cls: 3 arithmetic overflow, 4 index / slice out of bounds, 5 unwrap / expect, 7 capacity / allocation, 0 other *)
Inductive xout := XOk (n_ok n_err : Z) | XPanic (site cls : Z) | XTimeout | XAbort.

Inductive case :=
| Dec (which : Z) (data : bytes_desc) (args : list Z) (key : list Z) (o : obs)
| Xp (kind : Z) (feat : list Z) (o : xout).

(* ---------------------------------------------------------------- digest of a byte-string result *)
Definition digest (b : list Z) : list Z :=
  [blen b; fold_left (fun h x => Z.land (h * 31 + x) 4294967295) b 7].

Definition arg (l : list Z) (i : nat) : Z := nth i l 0.
Definition rmap {A B} (f : A -> B) (r : res A) : res B := x <- r ;; Ok (f x).
Definition b2z (b : bool) : Z := if b then 1 else 0.
Definition unit_vals (_ : unit) : list Z := [].

(* ---------------------------------------------------------------- the decoder table
   which:  1 MetaFileHeader::from_bytes     2 TableFileHeader::from_bytes   3 IndexFileHeader::from_bytes
           4 HnswFileHeader::from_bytes     5 PageHeader::from_bytes        6 validate_page
          10 LeafNode::from_page           11 .cell_count()                12 .slot_at(i)
          13 .key_at(i)                    14 .value_at(i)                 15 .value_len_at(i)
          20 InteriorNode::from_page       21 .slot_at(i)                  22 .key_at(i)
          23 .find_child(key)              24 .right_child()
          30 HnswPageRef::from_bytes       31 .slot_count()                32 .get_slot(i)
          33 .read_node_data(i)            34 .free_space()
          40 ArrayView::new                41 .elem_type()                 42 .is_null(i)
          43 .get_int2/4/8|float4/8 (w,i)  44 .get_bool(i)                 45 .get_blob(i)
          46 .get_text(i)                  47 .len()                       48 element i as format_array reads it
          50 RecordView::new + OwnedValue::extract_row_from_record, args = the DataType codes of the schema;
             judged by the C31 model (Model/Record.v extract), outcome class only (the values are C31's subject)
   The accessors 11.. / 21.. / 31.. / 41.. are reached through their constructor, as in the code. *)
Definition dtype_of_code (c : Z) : Record.dtype :=
  match c with
  | 0 => Record.TBool | 1 => Record.TInt2 | 2 => Record.TInt4 | 3 => Record.TInt8 | 4 => Record.TFloat4
  | 5 => Record.TFloat8 | 6 => Record.TDate | 7 => Record.TTime | 8 => Record.TTimestamp | 9 => Record.TTimestampTz
  | 10 => Record.TUuid | 11 => Record.TMacAddr | 12 => Record.TInet4 | 13 => Record.TInet6 | 20 => Record.TText
  | 21 => Record.TBlob | 22 => Record.TVector | 23 => Record.TJsonb | 24 => Record.TVarchar | 25 => Record.TChar
  | 30 => Record.TDecimal | 31 => Record.TInterval | 40 => Record.TInt4Range | 41 => Record.TInt8Range
  | 42 => Record.TDateRange | 43 => Record.TTimestampRange | 50 => Record.TEnum | 60 => Record.TPoint
  | 61 => Record.TBox | 62 => Record.TCircle | 70 => Record.TComposite | 71 => Record.TArray
  | _ => Record.TInt8
  end.
Definition record_extract_class (codes : list Z) (d : list Z) : res (list Z) :=
  match Record.extract (map dtype_of_code codes) d with
  | Record.Ok _ => Ok []
  | Record.Err => Err
  | Record.Panic => Panic
  end.
Definition run_model (w : Z) (d : list Z) (args key : list Z) : res (list Z) :=
  let i := arg args 0 in
  if w =? 1 then meta_from_bytes d
  else if w =? 2 then table_from_bytes d
  else if w =? 3 then index_from_bytes d
  else if w =? 4 then hnsw_file_from_bytes d
  else if w =? 5 then page_header d
  else if w =? 6 then rmap unit_vals (validate_page d)
  else if w =? 10 then rmap unit_vals (leaf_from_page d)
  else if w =? 11 then _ <- leaf_from_page d ;; rmap (fun c => [c]) (cell_count d)
  else if w =? 12 then _ <- leaf_from_page d ;;
                       rmap (fun s => let '(p, co, kl) := s in [from_be p; co; kl]) (leaf_slot_at d i)
  else if w =? 13 then _ <- leaf_from_page d ;; rmap digest (leaf_key_at d i)
  else if w =? 14 then _ <- leaf_from_page d ;; rmap digest (leaf_value_at d i)
  else if w =? 15 then _ <- leaf_from_page d ;; rmap (fun v => [v]) (leaf_value_len_at d i)
  else if w =? 20 then rmap unit_vals (interior_from_page d)
  else if w =? 21 then _ <- interior_from_page d ;;
                       rmap (fun s => let '(p, ch, co, kl) := s in [from_be p; ch; co; kl]) (interior_slot_at d i)
  else if w =? 22 then _ <- interior_from_page d ;; rmap digest (interior_key_at d i)
  else if w =? 23 then _ <- interior_from_page d ;; rmap (fun r => [fst r; snd r]) (find_child d key)
  else if w =? 24 then _ <- interior_from_page d ;; rmap (fun c => [c]) (right_child d)
  else if w =? 30 then rmap unit_vals (hnsw_from_bytes d)
  else if w =? 31 then _ <- hnsw_from_bytes d ;; rmap (fun c => [c]) (hnsw_slot_count d)
  else if w =? 32 then _ <- hnsw_from_bytes d ;;
                       rmap (fun o => match o with None => [0] | Some (off, st, sz) => [1; off; st; sz] end)
                            (hnsw_get_slot d i)
  else if w =? 33 then _ <- hnsw_from_bytes d ;; rmap digest (hnsw_read_node_data d i)
  else if w =? 34 then _ <- hnsw_from_bytes d ;; rmap (fun c => [c]) (hnsw_free_space d)
  else if w =? 40 then rmap unit_vals (array_new d)
  else if w =? 41 then _ <- array_new d ;; rmap (fun c => [c]) (elem_type d)
  else if w =? 42 then _ <- array_new d ;; rmap (fun b => [b2z b]) (is_null d i)
  else if w =? 43 then _ <- array_new d ;; rmap (fun v => [v]) (get_fixed d (Z.to_nat i) (arg args 1))
  else if w =? 44 then _ <- array_new d ;; rmap (fun b => [b2z b]) (get_bool d i)
  else if w =? 45 then _ <- array_new d ;; rmap digest (get_blob d i)
  else if w =? 46 then _ <- array_new d ;; rmap digest (get_text d i)
  else if w =? 47 then _ <- array_new d ;; rmap (fun c => [c]) (alen d)
  else if w =? 48 then _ <- array_new d ;;
                       rmap (fun e => match e with ENull => [0] | ENum v => [1; v] | EBytes b => 2 :: digest b | EOther => [3] end)
                            (array_elem d i)
  else if w =? 50 then record_extract_class args d
  else Err.

Definition obs_of (r : res (list Z)) : obs :=
  match r with Ok v => OOk v | Err => OErr | Panic => OPanic | Fuel => OPanic end.
Definition obs_eqb (a b : obs) : bool :=
  match a, b with
  | OOk x, OOk y => zlist_eqb x y
  | OErr, OErr => true
  | OPanic, OPanic => true
  | _, _ => false
  end.

(* does the model reproduce the implementation on this case?  (a model that ran out of fuel never agrees) *)
Definition model_agrees (c : case) : bool :=
  match c with
  | Dec w b args key o =>
      let r := run_model w (bytes_of b) args key in
      negb (is_fuel r) && obs_eqb (obs_of r) o
  | Xp _ _ _ => true
  end.

(* the property itself: the decoder returned a value or an error *)
Definition spec_ok (c : case) : bool :=
  match c with
  | Dec _ _ _ _ o => match o with OPanic => false | _ => true end
  | Xp _ _ o => match o with XOk _ _ => true | _ => false end
  end.

(* ---------------------------------------------------------------- recorded findings (narrow classes)
   Dec cases.  Classes 1..7 (leaf / interior / HNSW page accessors, ArrayView) were repaired in /repo
   (c8c46cc, 7292838, 4d4f2e6, 5281222): no decoder of the table may panic any more except
     14  RecordView (extract_row_from_record): the null bitmap, the offset table or a column slice computed from
         the stored header length / end offsets lies outside the record bytes (the C31 model panics) *)
Definition dec_class (w : Z) (d : list Z) (args key : list Z) : Z :=
  if (w =? 50) && is_panic (run_model w d args key) then 14 else 0.

(* Xp cases (exploration, no model): the class is keyed by WHERE the run ended (source file of the panic
   location + message class, abort, watchdog) and by the SHAPE of the input:
     kind 1  LeafNode::from_page + find_key on a corrupted leaf page      feat = [stored cell_count]
     kind 2  corrupted database directory: open + scans + lookups + writes + close in a child process
             feat = [file kind (1 turdb.meta, 2 turdb.catalog, 3 table, 4 toast table, 5 index, 6 WAL segment,
                     7 system table); region of the first edit; template; page; offset in page]
     kind 3  JsonbView::new + as_value + full walk on corrupted JSONB bytes   feat = [length]
   site codes (harness file_code): 1 btree/leaf.rs, 2 btree/interior.rs, 3 btree/simd_scan.rs, 9 records/view.rs,
   10 records/jsonb.rs, 11 records/array.rs, 14 sql/decoder.rs, 22 other src/records, 0 outside src;  message classes: 3 arithmetic overflow,
   4 slice / index out of range, 5 unwrap / expect, 7 capacity overflow.
     (classes 8..12 - find_key_simd beyond the page, leaf.rs / interior.rs reached through SQL, the unchecked
      catalog length, lookups that never return on cyclic child / next_leaf pointers - were repaired in /repo:
      c8c46cc, 7292838, b949e02, 349eba8; any panic, abort or watchdog timeout outside 13..15 is a violation)
     13  JsonbView accessors slice the entry table / data section unchecked
     14  the row decoders (RecordView getters, sql/decoder.rs schema_fits_record) on record bytes corrupted inside a
         page file: reach of class 14 of the decoder table
     15  turdb.catalog body corrupted undetected (no checksum): rows are then read / written with the wrong column
         types and the record code panics *)
Definition fnth (l : list Z) (i : nat) : Z := nth i l 0.
Definition page_file (k : Z) : bool := (k =? 3) || (k =? 4) || (k =? 5) || (k =? 7).
Definition xp_class (kind : Z) (feat : list Z) (o : xout) : Z :=
  if kind =? 3 then
    match o with XPanic 10 _ => 13 | _ => 0 end
  else if kind =? 2 then
    let fk := fnth feat 0 in
    let off := fnth feat 3 * 16384 + fnth feat 4 in
    match o with
    | XPanic site cls =>
        if page_file fk && ((site =? 9) || (site =? 14) || (site =? 22)) && (cls =? 4) then 14
        else if (fk =? 2) && (128 <=? off) && ((site =? 9) || (site =? 10) || (site =? 11) || (site =? 22)) && (cls =? 4) then 15
        else 0
    | _ => 0
    end
  else 0.

Definition known_class (c : case) : Z :=
  match c with
  | Dec w b args key o => match o with OPanic => dec_class w (bytes_of b) args key | _ => 0 end
  | Xp kind feat o => xp_class kind feat o
  end.

Fixpoint failures_from (i : Z) (cs : list case) : list (Z * bool * bool * Z) :=
  match cs with
  | [] => []
  | c :: t =>
      let m := model_agrees c in
      let s := spec_ok c in
      if m && s then failures_from (i + 1) t else (i, m, s, known_class c) :: failures_from (i + 1) t
  end.
Definition failures := failures_from 0.
