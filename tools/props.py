"""Registry of the properties that have a check.  One entry per property:
   gen_modules    coq/Gen modules regenerated from /repo by tools/rs2v.py
   model_targets  .vo files that only contain definitions (must build even when a proof breaks)
   proof_targets  .vo files holding the lemmas (Props/<id>.vo is always rebuilt on top)
   rule           how cases are generated and what makes one non-trivial (goes into the evidence)
"""

KERNEL = 'Coq 8.16.1 kernel (coqc, full .vo build, vm_compute used for evaluating the model on cases; no native_compute)'
RS2V = 'tools/rs2v.py translator (Rust integer subset -> Gallina), trusted to preserve meaning; cross-checked by the correspondence run'
HARNESS = 'harness/ (Rust, links /repo built with --cfg kahflane_turdb_verif) prints the implementation behaviour as Coq terms; trusted to report it faithfully'

PROPS = {
    'C27': {
        'gen_modules': ['Varint'],
        'model_targets': ['Gen/Varint.vo', 'Model/Varint.vo', 'Corr/C27.vo'],
        'proof_targets': ['Proof/Varint.vo'],
        'rule': 'values: +-3 around every length threshold, 2^k-1/2^k/2^k+1, random u64 of uniformly random bit length, dense low '
                'range; byte strings: all of length <=1 (quick) / <=2 (thorough), marker-led strings of length 1..10, truncated / '
                'extended / bit-flipped valid encodings. Non-trivial = value above 240 (multi-byte encoding) or string of >= 2 bytes; '
                'distinct by case text.',
        'trusted_base': [KERNEL, RS2V, HARNESS,
                         'Lib/MachInt.v: meaning given to Rust u64/usize arithmetic, `as u8`, slices (bidx/bupd/bslice, be_bytes/from_be)'],
        'assumptions': ['dev-profile semantics (overflow checks on) is what *_safe models; release wrapping is not claimed',
                        'eyre error values are compared only as Err'],
    },
}
