(* C09 -- IMPLEMENTATION model of TurDB's CHECK constraint machinery.  Definitions only;
   hand-written (strings / f64 are outside tools/rs2v.py), tied to the code by the
   correspondence run (harness/src/bin/c09.rs creates tables with CHECK clauses through SQL).

   Two mechanisms are transcribed, byte for byte (bytes are Z in [0,256)):

   1. CREATE TABLE stores a column-level CHECK as TEXT: Database::expr_to_string
      (src/database/convert.rs:207) prints the parsed expression as `<left> <op> <right>`
      WITHOUT parentheses (the AST has no parenthesis node), NOT as the prefix "NOT ", integer
      literals as their source text; for every other expression form (IS NULL, BETWEEN, IN,
      LIKE, NULL literal, function calls ...) it returns None and the constraint is silently
      dropped (src/database/ddl.rs:127).  Table-level CHECK / FOREIGN KEY clauses are ignored
      altogether (ddl.rs:316).                                         -> print_chk

   2. INSERT / UPDATE evaluate the stored text per column with Database::evaluate_check_expression
      (src/database/database.rs:4469): NULL passes; split at the first top-level " or ", then
      " and " (case-insensitive), strip outer parentheses, and evaluate what is left as ONE
      comparison `... {<,<=,>,>=} <number>` of THE column's value against a numeric literal
      parsed as f64 (no operator found, or no numeric operand after it => FALSE; the column
      name does not occur in the text => TRUE); nesting deeper than 32 is an error.
                                                                        -> check_str

   Numeric operand: only integer numerals are modelled (a numeral with a '.' yields CUnmod:
   "outside the modelled fragment", never generated); str::parse::<f64> of an integer numeral
   is the correctly rounded double (rne53). *)
From Coq Require Import ZArith List Bool.
From TV Require Import Model.SqlSpec.
Import ListNotations.
Open Scope Z_scope.

(* ------------------------------------------------------------------ bytes *)
Definition lower (c : Z) : Z := if (65 <=? c) && (c <=? 90) then c + 32 else c.
Definition eq_ic (a b : Z) : bool := lower a =? lower b.
(* ASCII part of char::is_whitespace (str::trim / trim_start) *)
Definition is_ws (c : Z) : bool := (c =? 32) || ((9 <=? c) && (c <=? 13)).
Definition is_dig (c : Z) : bool := (48 <=? c) && (c <=? 57).

Fixpoint trim_start (s : list Z) : list Z :=
  match s with
  | c :: s' => if is_ws c then trim_start s' else s
  | [] => []
  end.
Definition trim_end (s : list Z) : list Z := rev (trim_start (rev s)).
Definition trim (s : list Z) : list Z := trim_end (trim_start s).

(* bytes[i .. i + op.len()].eq_ignore_ascii_case(op), given that the window fits *)
Fixpoint prefix_ic (op s : list Z) : bool :=
  match op, s with
  | [], _ => true
  | o :: op', c :: s' => eq_ic o c && prefix_ic op' s'
  | _ :: _, [] => false
  end.

Definition nonempty (s : list Z) : bool := match s with [] => false | _ => true end.

(* split_on_logical_op_case_insensitive: `pre_rev` = the bytes before position i, reversed *)
Fixpoint split_go (op pre_rev s : list Z) (depth : nat) : option (list Z * list Z) :=
  match s with
  | [] => None
  | c :: s' =>
      if (length s <? length op)%nat then None
      else if c =? 40 then split_go op (c :: pre_rev) s' (S depth)
      else if c =? 41 then
        match depth with O => None | S d => split_go op (c :: pre_rev) s' d end
      else if Nat.eqb depth 0 && prefix_ic op s then
        let l := trim (rev pre_rev) in
        let r := trim (skipn (length op) s) in
        if nonempty l && nonempty r then Some (l, r) else split_go op (c :: pre_rev) s' depth
      else split_go op (c :: pre_rev) s' depth
  end.
Definition split_op (op s : list Z) : option (list Z * list Z) := split_go op [] s O.

Definition s_or : list Z := [32; 111; 114; 32].          (* " or " *)
Definition s_and : list Z := [32; 97; 110; 100; 32].     (* " and " *)

(* strip_outer_parens: Some inner if the outer pair is stripped *)
Fixpoint paren_scan (s : list Z) (depth : Z) : option Z :=
  match s with
  | [] => Some depth
  | c :: s' =>
      if c =? 40 then paren_scan s' (depth + 1)
      else if c =? 41 then (if depth - 1 <? 0 then None else paren_scan s' (depth - 1))
      else paren_scan s' depth
  end.
Definition strip_outer (s : list Z) : option (list Z) :=
  match s with
  | c :: rest =>
      if c =? 40 then
        match rev rest with
        | d :: inner_rev =>
            if d =? 41 then
              let inner := rev inner_rev in
              match paren_scan inner 0 with
              | Some depth => if depth =? 0 then Some inner else None
              | None => None
              end
            else None
        | [] => None
        end
      else None
  | [] => None
  end.

(* contains_ignore_ascii_case *)
Fixpoint contains_ic (hay needle : list Z) : bool :=
  match needle with
  | [] => true
  | _ =>
      if (length hay <? length needle)%nat then false
      else prefix_ic needle hay ||
           match hay with [] => false | _ :: hay' => contains_ic hay' needle end
  end.

(* find_comparison_operator: (operator, rest of the text after it) *)
Inductive cop := OGe | OLe | OGt | OLt.
Definition eq_next (s : list Z) : bool := match s with c :: _ => c =? 61 | [] => false end.
Fixpoint find_op (s : list Z) : option (cop * list Z) :=
  match s with
  | [] => None
  | c :: s' =>
      if c =? 62 then (if eq_next s' then Some (OGe, tl s') else Some (OGt, s'))
      else if c =? 60 then (if eq_next s' then Some (OLe, tl s') else Some (OLt, s'))
      else find_op s'
  end.

(* extract_numeric_operand *)
Inductive num := NumNone | NumInt (n : Z) | NumDot.
Fixpoint take_digits (s : list Z) (acc : Z) (seen : bool) : Z * bool * list Z :=
  match s with
  | c :: s' => if is_dig c then take_digits s' (acc * 10 + (c - 48)) true else (acc, seen, s)
  | [] => (acc, seen, [])
  end.
Definition numeric_operand (s : list Z) : num :=
  match trim_start s with
  | [] => NumNone
  | c :: rest =>
      let neg := c =? 45 in
      let body := if (c =? 45) || (c =? 43) then rest else c :: rest in
      let '(n, seen, after) := take_digits body 0 false in
      if (match after with d :: _ => d =? 46 | [] => false end) then
        (* a '.' continues the numeral; digits may follow *)
        let '(_, seen2, _) := take_digits (tl after) 0 false in
        if seen || seen2 then NumDot else NumNone
      else if seen then NumInt (if neg then - n else n) else NumNone
  end.

(* the double nearest to an integer (ties to even), as an integer *)
Definition rne53 (n : Z) : Z :=
  let a := Z.abs n in
  if a <? 2 ^ 53 then n
  else
    let e := Z.log2 a - 52 in
    let q := a / 2 ^ e in
    let r := a mod 2 ^ e in
    let h := 2 ^ (e - 1) in
    let q' := if (h <? r) || ((r =? h) && Z.odd q) then q + 1 else q in
    Z.sgn n * q' * 2 ^ e.

Definition cop_holds (op : cop) (a b : Z) : bool :=
  match op with OGe => b <=? a | OLe => a <=? b | OGt => b <? a | OLt => a <? b end.

(* compare_value_with_threshold for an Int value v and the double nearest to n *)
Definition cmp_threshold (op : cop) (v n : Z) : bool :=
  let t := rne53 n in
  if (- 2 ^ 63 <=? t) && (t <=? 2 ^ 63)
  then cop_holds op v (Z.min t (2 ^ 63 - 1))      (* `threshold as i64` saturates *)
  else cop_holds op (rne53 v) t.                   (* `*v as f64` against the threshold *)

Inductive cres := COk (b : bool) | CErr | CUnmod.

(* eval_simple_comparison on an Int value *)
Definition simple_cmp (s col : list Z) (v : Z) : cres :=
  if negb (contains_ic s col) then COk true
  else match find_op s with
       | Some (op, rest) =>
           match numeric_operand rest with
           | NumInt n => COk (cmp_threshold op v n)
           | NumNone => COk false
           | NumDot => CUnmod
           end
       | None => COk false
       end.

Definition cres_or (a b : cres) : cres :=
  match a, b with
  | CErr, _ => CErr
  | CUnmod, _ => CUnmod
  | COk _, CErr => CErr
  | COk _, CUnmod => CUnmod
  | COk x, COk y => COk (x || y)
  end.
Definition cres_and (a b : cres) : cres :=
  match a, b with
  | CErr, _ => CErr
  | CUnmod, _ => CUnmod
  | COk _, CErr => CErr
  | COk _, CUnmod => CUnmod
  | COk x, COk y => COk (x && y)
  end.

(* eval_check_expr_with_depth: fuel = MAX_CHECK_EXPR_DEPTH - depth *)
Fixpoint ev_chk (fuel : nat) (s col : list Z) (v : Z) : cres :=
  match fuel with
  | O => CErr
  | S f =>
      let t := trim s in
      match split_op s_or t with
      | Some (l, r) => cres_or (ev_chk f l col v) (ev_chk f r col v)
      | None =>
          match split_op s_and t with
          | Some (l, r) => cres_and (ev_chk f l col v) (ev_chk f r col v)
          | None =>
              match strip_outer t with
              | Some inner => ev_chk f inner col v
              | None => simple_cmp t col v
              end
          end
      end
  end.

(* evaluate_check_expression on the value of the column: NULL passes *)
Definition check_str (s col : list Z) (v : value) : cres :=
  match v with
  | VNull => COk true
  | VInt z => ev_chk 32 s col z
  | _ => CUnmod
  end.

(* ------------------------------------------------------------------ expr_to_string *)
Fixpoint dec_digits (fuel : nat) (n : Z) (acc : list Z) : list Z :=
  match fuel with
  | O => acc
  | S f => if n <? 10 then (48 + n) :: acc else dec_digits f (n / 10) ((48 + n mod 10) :: acc)
  end.
Definition show_nat (n : Z) : list Z := dec_digits 40 n [].
(* an integer literal as the harness writes it: digits, a negative one as unary minus + digits *)
Definition show_int (z : Z) : list Z := if z <? 0 then 45 :: show_nat (- z) else show_nat z.

Definition cmp_str (op : cmpop) : list Z :=
  match op with
  | CEq => [61] | CNe => [33; 61] | CLt => [60] | CLe => [60; 61] | CGt => [62] | CGe => [62; 61]
  end.
Definition arith_str (op : arith) : list Z :=
  match op with AAdd => [43] | ASub => [45] | AMul => [42] end.
Definition bin_str (l op r : list Z) : list Z := l ++ 32 :: op ++ 32 :: r.

(* names: the column names of the table, by position *)
Fixpoint print_chk (names : list (list Z)) (e : expr) : option (list Z) :=
  match e with
  | ECol i => nth_error names i
  | ELit (VInt z) => Some (show_int z)
  | ELit (VBool b) => Some (if b then [116; 114; 117; 101] else [102; 97; 108; 115; 101])
  | ELit _ => None
  | EArith op a b =>
      match print_chk names a, print_chk names b with
      | Some x, Some y => Some (bin_str x (arith_str op) y) | _, _ => None end
  | ECmp op a b =>
      match print_chk names a, print_chk names b with
      | Some x, Some y => Some (bin_str x (cmp_str op) y) | _, _ => None end
  | EAnd a b =>
      match print_chk names a, print_chk names b with
      | Some x, Some y => Some (bin_str x [65; 78; 68] y) | _, _ => None end
  | EOr a b =>
      match print_chk names a, print_chk names b with
      | Some x, Some y => Some (bin_str x [79; 82] y) | _, _ => None end
  | ENot a =>
      match print_chk names a with Some x => Some ([78; 79; 84; 32] ++ x) | None => None end
  | EIn _ _ _ | EBetween _ _ _ _ | ELike _ _ _ | EIsNull _ _ => None
  end.

(* the column-level CHECK of column `ci` as the INSERT / UPDATE paths evaluate it on value v:
   a dropped constraint (print_chk = None) always passes *)
Definition impl_check (names : list (list Z)) (ci : nat) (e : expr) (v : value) : cres :=
  match print_chk names e, nth_error names ci with
  | Some s, Some col => check_str s col v
  | None, Some _ => COk true
  | _, None => CUnmod
  end.
