(* C23 model, part 1: outcomes, unchecked / checked reads of a byte slice, the four 128-byte file
   headers (src/storage/headers.rs MetaFileHeader / TableFileHeader / IndexFileHeader::from_bytes,
   src/hnsw/storage.rs HnswFileHeader::from_bytes) and the 16-byte page header
   (src/storage/page.rs PageHeader::from_bytes, PageType::from_byte, validate_page).
   Hand-transcribed (zerocopy structs, byte-string constants and enums are outside the rs2v subset);
   the sizes PAGE_SIZE / PAGE_HEADER_SIZE / FILE_HEADER_SIZE are regenerated from the source
   (Gen/PageConsts.v).  Definitions only, no proofs.

   Conventions (DESIGN.md section 4): a byte slice is a `list Z` of values in [0,256);
     * a read behind `ensure!` / `bail!` / `?`          is  Err
     * an unchecked `data[i]`, `&data[a..b]`, `&data[a..]`, `.unwrap()` / `.expect()` on a failure,
       an overflowing usize `+` / `-` (dev profile: overflow checks on)   is  Panic
     * loops run on fuel; running out is the explicit outcome Fuel (theorems show it never happens).
   A zerocopy `ref_from_bytes` of an `Unaligned` struct on a slice of exactly size_of bytes cannot fail,
   so the `.map_err(..)?` behind it is not an outcome of the model. *)
From Coq Require Import ZArith List Bool.
From TV Require Import Lib.MachInt Gen.PageConsts.
Import ListNotations.
Open Scope Z_scope.

(* ------------------------------------------------------------------ outcomes *)
Inductive res (A : Type) := Ok (a : A) | Err | Panic | Fuel.
Arguments Ok {A} a.
Arguments Err {A}.
Arguments Panic {A}.
Arguments Fuel {A}.
Definition bind {A B} (r : res A) (f : A -> res B) : res B :=
  match r with Ok a => f a | Err => Err | Panic => Panic | Fuel => Fuel end.
Notation "x <- r ;; k" := (bind r (fun x => k)) (at level 61, r at next level, right associativity).

(* the property's own words: "returns either a value or an error" *)
Definition value_or_error {A} (r : res A) : Prop :=
  match r with Ok _ | Err => True | Panic | Fuel => False end.

(* outcome class, the only thing compared when the value itself is not *)
Definition is_panic {A} (r : res A) : bool := match r with Panic => true | _ => false end.
Definition is_fuel {A} (r : res A) : bool := match r with Fuel => true | _ => false end.

(* ------------------------------------------------------------------ slice reads *)
(* data[i] *)
Definition idx (d : list Z) (i : Z) : res Z := if bidx_ok d i then Ok (bidx d i) else Panic.
(* &data[lo..hi] *)
Definition sub (d : list Z) (lo hi : Z) : res (list Z) :=
  if bslice_ok d lo hi then Ok (bslice d lo hi) else Panic.
(* &data[lo..] *)
Definition from (d : list Z) (lo : Z) : res (list Z) :=
  if (0 <=? lo) && (lo <=? blen d) then Ok (skipn (Z.to_nat lo) d) else Panic.
(* a little-endian field of n bytes at offset lo of a struct that lies inside d (U16/U32/U64<LittleEndian>::get) *)
Definition le (d : list Z) (lo n : Z) : Z := from_le (bslice d lo (lo + n)).

(* ------------------------------------------------------------------ file headers *)
(* b"TurDB Rust v1\0\0\0", b"TurDB Table\0\0\0\0\0", b"TurDB Index\0\0\0\0\0", b"TurDB HNSW\0\0\0\0\0\0" *)
Definition META_MAGIC : list Z := [84;117;114;68;66;32;82;117;115;116;32;118;49;0;0;0].
Definition TABLE_MAGIC : list Z := [84;117;114;68;66;32;84;97;98;108;101;0;0;0;0;0].
Definition INDEX_MAGIC : list Z := [84;117;114;68;66;32;73;110;100;101;120;0;0;0;0;0].
Definition HNSW_MAGIC : list Z := [84;117;114;68;66;32;72;78;83;87;0;0;0;0;0;0].
Definition CURRENT_VERSION : Z := 1.

(* ensure!(bytes.len() >= FILE_HEADER_SIZE); ref_from_bytes(&bytes[..FILE_HEADER_SIZE]); ensure!(magic == M) *)
Definition file_header (magic : list Z) (d : list Z) : res (list Z) :=
  if blen d <? FILE_HEADER_SIZE then Err
  else
    h <- sub d 0 FILE_HEADER_SIZE ;;
    if zlist_eqb (bslice h 0 16) magic then Ok h else Err.

(* MetaFileHeader::from_bytes, then the getters
   [version; page_size; schema_count; default_schema_id; next_table_id; next_index_id; flags] *)
Definition meta_from_bytes (d : list Z) : res (list Z) :=
  h <- file_header META_MAGIC d ;;
  if le h 16 4 =? CURRENT_VERSION
  then Ok [le h 16 4; le h 20 4; le h 24 8; le h 32 8; le h 40 8; le h 48 8; le h 56 8]
  else Err.

(* TableFileHeader::from_bytes (no version field)
   [table_id; row_count; root_page; column_count; first_free_page; auto_increment; rightmost_hint] *)
Definition table_from_bytes (d : list Z) : res (list Z) :=
  h <- file_header TABLE_MAGIC d ;;
  Ok [le h 16 8; le h 24 8; le h 32 4; le h 36 4; le h 40 8; le h 48 8; le h 56 4].

(* IndexFileHeader::from_bytes
   [index_id; table_id; root_page; key_column_count; is_unique (0/1); index_type] *)
Definition index_from_bytes (d : list Z) : res (list Z) :=
  h <- file_header INDEX_MAGIC d ;;
  Ok [le h 16 8; le h 24 8; le h 32 4; le h 36 4; (if bidx h 40 =? 0 then 0 else 1); bidx h 41].

(* HnswFileHeader::from_bytes: the magic is compared on &data[..16] before the struct is viewed
   [index_id; table_id; dimensions; m; m0; ef_construction; ef_search; distance_fn (0 L2, 1 Cosine,
    2 InnerProduct); quantization (0 None, 1 SQ8, 2 PQ); entry_point(): present (0/1), page, slot (0 0 when
    absent, i.e. when the stored page is u32::MAX); max_level; node_count; vector_count; first_free_page] *)
Definition code012 (b : Z) : Z := if b =? 1 then 1 else if b =? 2 then 2 else 0.
Definition hnsw_file_from_bytes (d : list Z) : res (list Z) :=
  if blen d <? FILE_HEADER_SIZE then Err
  else
    m <- sub d 0 16 ;;
    if zlist_eqb m HNSW_MAGIC then
      h <- sub d 0 128 ;;                      (* &data[..size_of::<Self>()] *)
      let ep := le h 44 4 in
      Ok [le h 16 8; le h 24 8; le h 32 2; le h 34 2; le h 36 2; le h 38 2; le h 40 2;
          code012 (bidx h 42); code012 (bidx h 43);
          (if ep =? 4294967295 then 0 else 1); (if ep =? 4294967295 then 0 else ep);
          (if ep =? 4294967295 then 0 else le h 48 2);
          bidx h 50; le h 52 8; le h 60 8; le h 68 4]
    else Err.

(* ------------------------------------------------------------------ page header *)
Definition PH_SIZE : Z := 16.                  (* size_of::<PageHeader>() *)
Definition PT_UNKNOWN : Z := 0.
Definition PT_INTERIOR : Z := 1.
Definition PT_LEAF : Z := 2.
Definition PT_HNSW_NODE : Z := 16.
(* PageType::from_byte, as the discriminant of the result *)
Definition ptype (b : Z) : Z :=
  if (b =? 1) || (b =? 2) || (b =? 16) || (b =? 17) || (b =? 32) || (b =? 48) || (b =? 64) then b else 0.

(* PageHeader::from_bytes, then the getters
   [page_type; flags; cell_count; free_start; free_end; frag_bytes; right_child; free_space] *)
Definition page_header (d : list Z) : res (list Z) :=
  if blen d <? PH_SIZE then Err
  else
    h <- sub d 0 PH_SIZE ;;
    let fs := le h 4 2 in
    let fe := le h 6 2 in
    Ok [ptype (bidx h 0); bidx h 1; le h 2 2; fs; fe; bidx h 8; le h 12 4; Z.max 0 (fe - fs)].

(* PageHeader::from_bytes(self.data).unwrap().<field>() of the node views: the unwrap is a panic site *)
Definition hdr_field (d : list Z) (lo n : Z) : res Z :=
  if blen d <? PH_SIZE then Panic else h <- sub d 0 PH_SIZE ;; Ok (le h lo n).
Definition cell_count (d : list Z) : res Z := hdr_field d 2 2.
Definition right_child (d : list Z) : res Z := hdr_field d 12 4.

(* validate_page: Ok(()) / Err *)
Definition validate_page (d : list Z) : res unit :=
  if blen d =? PAGE_SIZE then
    if blen d <? PH_SIZE then Err
    else
      h <- sub d 0 PH_SIZE ;;
      let pt := bidx h 0 in
      let fs := le h 4 2 in
      let fe := le h 6 2 in
      if (pt =? 0) && (bidx h 1 =? 0) && (le h 2 2 =? 0) && (fs =? 0) && (fe =? 0) then Ok tt
      else if ptype pt =? PT_UNKNOWN then Err
      else if fs <? PAGE_HEADER_SIZE then Err
      else if PAGE_SIZE <? fe then Err
      else if fe <? fs then Err
      else Ok tt
  else Err.

(* ------------------------------------------------------------------ compact descriptions of byte strings *)
(* what the correspondence cases carry instead of 16 KiB literals: a fill byte, a length, and runs of
   explicit bytes written over the fill in order (later runs win).  Evaluated inside vm_compute. *)
Fixpoint overwrite (d : list Z) (at_ : nat) (bs : list Z) {struct d} : list Z :=
  match d with
  | [] => []
  | x :: d' =>
      match at_ with
      | S k => x :: overwrite d' k bs
      | O => match bs with [] => d | b :: bs' => b :: overwrite d' O bs' end
      end
  end.
Definition image (len fill : Z) (runs : list (Z * list Z)) : list Z :=
  fold_left (fun d r => overwrite d (Z.to_nat (fst r)) (snd r)) runs (repeat fill (Z.to_nat len)).
