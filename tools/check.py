#!/usr/bin/env python3
"""check.py <property> [--tier quick|thorough] [--replay FILE]

One run = (1) regenerate coq/Gen from /repo, (2) re-check the proofs of the property,
(3) audit axioms / forbidden commands, (4) rebuild the harness against /repo's working tree
with the hooks on, (5) run the correspondence (implementation vs model, judged inside Coq by
vm_compute), (6) decide: pass / KNOWN-FINDING / VIOLATION, (7) write evidence/<id>.json.
See DESIGN.md section 7 for the verdict logic.
"""
import concurrent.futures as cf
import fcntl
import hashlib
import json
import os
import re
import shutil
import subprocess
import sys
import time

HERE = os.path.dirname(os.path.abspath(__file__))
ROOT = os.path.dirname(HERE)
COQ = os.path.join(ROOT, 'coq')
BUILD = os.path.join(ROOT, 'build')
REPO = os.environ.get('VERIF_REPO', '/repo')
sys.path.insert(0, HERE)
from props import PROPS  # noqa: E402

FORBIDDEN = re.compile(r'\b(Admitted|admit|Axiom|Axioms|Parameter|Parameters|Conjecture|Conjectures|'
                       r'Unset\s+Guard|Unset\s+Positivity|Unset\s+Universe|bypass_check|'
                       r'type-in-type|impredicative-set|Admit\s+Obligations|give_up)\b')
# library axioms that may appear (DESIGN.md section 9); anything else is a failed obligation
AXIOM_ALLOW = {
    'ClassicalDedekindReals.sig_forall_dec', 'ClassicalDedekindReals.sig_not_dec',
    'FunctionalExtensionality.functional_extensionality_dep', 'Classical_Prop.classic',
    'functional_extensionality_dep', 'classic', 'sig_forall_dec', 'sig_not_dec',
}


def log(*a):
    print(*a, file=sys.stderr, flush=True)


def sh(cmd, cwd=None, timeout=None, env=None):
    t0 = time.time()
    try:
        p = subprocess.run(cmd, cwd=cwd, timeout=timeout, env=env, stdout=subprocess.PIPE, stderr=subprocess.STDOUT,
                           text=True, errors='replace')
        return p.returncode, p.stdout, time.time() - t0
    except subprocess.TimeoutExpired as e:
        out = e.stdout or ''
        if isinstance(out, bytes):
            out = out.decode(errors='replace')
        return 124, out + '\n[timeout after %ss]' % timeout, time.time() - t0


class Lock:
    def __init__(self, name):
        os.makedirs(BUILD, exist_ok=True)
        self.path = os.path.join(BUILD, name)

    def __enter__(self):
        self.f = open(self.path, 'w')
        fcntl.flock(self.f, fcntl.LOCK_EX)
        return self

    def __exit__(self, *a):
        fcntl.flock(self.f, fcntl.LOCK_UN)
        self.f.close()


# ------------------------------------------------------------------ build steps
def regen_models(spec):
    mods = spec.get('gen_modules', [])
    if not mods:
        return True, ''
    rc, out, _ = sh([sys.executable, os.path.join(HERE, 'rs2v.py'), REPO], timeout=120)
    return rc == 0, out


def ensure_makefile():
    sh([sys.executable, os.path.join(HERE, 'mkcoqproject.py')], timeout=60)
    mk = os.path.join(COQ, 'Makefile')
    cp = os.path.join(COQ, '_CoqProject')
    # every Gen file named in _CoqProject must exist before coq_makefile / coqdep run
    if (not os.path.exists(mk)) or os.path.getmtime(mk) < os.path.getmtime(cp):
        rc, out, _ = sh(['coq_makefile', '-f', '_CoqProject', '-o', 'Makefile'], cwd=COQ, timeout=60)
        if rc != 0:
            raise RuntimeError('coq_makefile failed: ' + out)


def coq_make(targets, timeout):
    ensure_makefile()
    rc, out, dt = sh(['make', '-j16', '-k'] + targets, cwd=COQ, timeout=timeout)
    return rc, out, dt


def parse_coq_error(out):
    """name the file (and line) of the first failing obligation"""
    m = re.search(r'File "\./([^"]+)", line (\d+), characters [\d-]+:\s*\n(?:Error|.*\nError):?\s*(.*)', out)
    if m:
        return {'file': m.group(1), 'line': int(m.group(2)), 'message': m.group(3).strip()[:300]}
    m = re.search(r'File "\./([^"]+)", line (\d+)', out)
    if m:
        return {'file': m.group(1), 'line': int(m.group(2)), 'message': out[-300:]}
    return {'file': '?', 'line': 0, 'message': out[-400:]}


def enclosing_lemma(path, line):
    try:
        lines = open(os.path.join(COQ, path)).read().split('\n')
    except OSError:
        return None
    for i in range(min(line, len(lines)) - 1, -1, -1):
        m = re.match(r'\s*(?:Theorem|Lemma|Corollary|Example|Definition|Fact|Remark|Proposition)\s+([A-Za-z0-9_\']+)', lines[i])
        if m:
            return m.group(1)
    return None


def audit_sources():
    """grep the whole development for anything that declares an axiom or switches off a check"""
    bad = []
    for d, _, fs in os.walk(COQ):
        for f in fs:
            if not f.endswith('.v'):
                continue
            p = os.path.join(d, f)
            txt = open(p, errors='replace').read()
            txt = re.sub(r'\(\*.*?\*\)', lambda m: ' ' * 0 + re.sub(r'[^\n]', ' ', m.group(0)), txt, flags=re.S)
            for i, l in enumerate(txt.split('\n')):
                m = FORBIDDEN.search(l)
                if m:
                    bad.append('%s:%d: %s' % (os.path.relpath(p, COQ), i + 1, m.group(0)))
    cp = open(os.path.join(COQ, '_CoqProject')).read()
    if re.search(r'type-in-type|impredicative-set|-vos|-vok', cp):
        bad.append('_CoqProject: forbidden flag')
    return bad


def props_obligations(spec):
    """Compile Props/<id>.v afresh so that its Check pins and Print Assumptions are re-evaluated."""
    pid = spec['id']
    vfile = 'Props/%s.v' % pid
    src = open(os.path.join(COQ, vfile)).read()
    src_nc = re.sub(r'\(\*.*?\*\)', '', src, flags=re.S)
    theorems = re.findall(r'^\s*Theorem\s+([A-Za-z0-9_\']+)', src_nc, flags=re.M)
    pins = re.findall(r'^\s*Check\s+([A-Za-z0-9_\']+)\s*:', src_nc, flags=re.M)
    prints = re.findall(r'^\s*Print Assumptions\s+([A-Za-z0-9_\']+)\s*\.', src_nc, flags=re.M)
    problems = []
    for t in theorems:
        if t not in pins:
            problems.append('theorem %s has no `Check %s : stmt.` pin' % (t, t))
        if t not in prints:
            problems.append('theorem %s has no Print Assumptions' % t)
    for ext in ('.vo', '.vok', '.vos', '.glob'):
        try:
            os.remove(os.path.join(COQ, 'Props/%s%s' % (pid, ext)))
        except OSError:
            pass
    rc, out, dt = coq_make(['Props/%s.vo' % pid], spec.get('coq_timeout', 900))
    res = {'theorems': theorems, 'rc': rc, 'out': out, 'wall_s': dt, 'problems': problems, 'axioms': {}}
    if rc != 0:
        return res
    # Print Assumptions output blocks, in order
    blocks = []
    cur = None
    for line in out.split('\n'):
        if line.startswith('Closed under the global context'):
            if cur is not None:
                blocks.append(cur)
                cur = None
            blocks.append('Closed')
        elif line.startswith('Axioms:'):
            if cur is not None:
                blocks.append(cur)
            cur = 'Axioms:\n'
        elif cur is not None:
            if line.startswith('make') or line.startswith('COQC'):
                blocks.append(cur)
                cur = None
            else:
                cur += line + '\n'
    if cur is not None:
        blocks.append(cur)
    idx = 0
    for name in prints:
        if idx >= len(blocks):
            problems.append('no Print Assumptions output for %s' % name)
            continue
        b = blocks[idx]
        idx += 1
        if b.startswith('Closed'):
            res['axioms'][name] = []
        else:
            body = b.split('\n', 1)[1] if '\n' in b else ''      # skip the 'Axioms:' header line
            axs = re.findall(r'^([A-Za-z_][A-Za-z0-9_\.\']*)\s*:', body, flags=re.M)
            res['axioms'][name] = axs
            for ax in axs:
                if ax not in AXIOM_ALLOW and ax not in spec.get('axiom_allow', []):
                    problems.append('theorem %s depends on non-allow-listed axiom %s' % (name, ax))
    return res


def build_harness(pid):
    hdir = os.path.join(ROOT, 'harness')
    lock = os.path.join(hdir, 'Cargo.lock')
    src_lock = os.path.join(REPO, 'Cargo.lock')
    if not os.path.exists(lock) and os.path.exists(src_lock):
        shutil.copy(src_lock, lock)
    env = dict(os.environ)
    env['CARGO_NET_OFFLINE'] = 'true'
    cmd = ['cargo', 'build', '--offline', '--bin', pid.lower()]
    rc, out, dt = sh(cmd, cwd=hdir, timeout=1800, env=env)
    if rc != 0 and 'Cargo.lock' in out and os.path.exists(src_lock):
        shutil.copy(src_lock, lock)
        rc, out, dt = sh(cmd, cwd=hdir, timeout=1800, env=env)
    return rc, out, dt


def harness_bin(pid):
    return os.path.join(BUILD, 'target', 'debug', pid.lower())


# ------------------------------------------------------------------ correspondence
def run_shard(path):
    rc, out, dt = sh(['coqc', '-noglob', '-Q', COQ, 'TV', '-w', '-all', path], timeout=1200)
    for ext in ('.vo', '.vok', '.vos'):
        try:
            os.remove(path[:-2] + ext)
        except OSError:
            pass
    if rc != 0:
        return path, None, out[-2000:]
    m = re.search(r'=\s*(\[.*?\])\s*:\s*list', out, flags=re.S)
    if not m:
        return path, None, out[-2000:]
    body = m.group(1)
    fails = []
    for t in re.finditer(r'\(\s*(-?\d+)\s*,\s*(true|false)\s*,\s*(true|false)\s*(?:,\s*(-?\d+)\s*)?\)', body):
        fails.append({'index': int(t.group(1)), 'model_agrees': t.group(2) == 'true', 'spec_ok': t.group(3) == 'true',
                      'known': int(t.group(4)) if t.group(4) else 0})
    return path, fails, ''


def correspondence(spec, tier, seed, run_dir, extra_args=None):
    shutil.rmtree(run_dir, ignore_errors=True)
    os.makedirs(run_dir, exist_ok=True)
    cmd = [harness_bin(spec['id']), 'gen', '--seed', str(seed), '--tier', tier, '--out', run_dir] + (extra_args or [])
    rc, out, dt = sh(cmd, timeout=spec.get('harness_timeout', 1800))
    if rc != 0:
        return {'error': 'harness failed (rc=%d): %s' % (rc, out[-1500:])}
    meta = json.load(open(os.path.join(run_dir, 'meta.json')))
    shards = sorted(f for f in os.listdir(run_dir) if re.match(r'cases_\d+\.v$', f))
    failures = []
    errors = []
    with cf.ThreadPoolExecutor(max_workers=int(os.environ.get('VERIF_JOBS', '16'))) as ex:
        for path, fails, err in ex.map(run_shard, [os.path.join(run_dir, s) for s in shards]):
            if fails is None:
                errors.append('%s: %s' % (os.path.basename(path), err))
                continue
            replays = open(path[:-2] + '.replay').read().split('\n')
            for f in fails:
                f['shard'] = os.path.basename(path)
                f['replay'] = replays[f['index']] if 0 <= f['index'] < len(replays) else '?'
                failures.append(f)
    return {'meta': meta, 'failures': failures, 'errors': errors, 'harness_wall_s': dt}


def oracle_search(spec, seed, run_dir, budget):
    """property oracle on the implementation only"""
    os.makedirs(run_dir, exist_ok=True)
    out_file = os.path.join(run_dir, 'search.txt')
    cmd = [harness_bin(spec['id']), 'search', '--seed', str(seed), '--budget', str(budget), '--out', out_file]
    rc, out, dt = sh(cmd, timeout=spec.get('search_timeout', 1800))
    fails = []
    tried = 0
    if os.path.exists(out_file):
        for l in open(out_file):
            if l.startswith('FAIL '):
                fails.append(l[5:].strip())
            elif l.startswith('tried='):
                tried = int(l.strip().split('=')[1])
    return fails, tried, (out[-500:] if rc != 0 else '')


# ------------------------------------------------------------------ verdict
def load_known(pid):
    """committed, never written at run time: known_findings.d/<property>.json = {"findings": [...]}"""
    p = os.path.join(ROOT, 'known_findings.d', '%s.json' % pid)
    if not os.path.exists(p):
        return []
    return [k for k in json.load(open(p)).get('findings', []) if k['property'] == pid]


def write_replay(pid, payload):
    os.makedirs(os.path.join(ROOT, 'replay'), exist_ok=True)
    h = hashlib.sha1(json.dumps(payload, sort_keys=True).encode()).hexdigest()[:10]
    path = os.path.join(ROOT, 'replay', '%s-%s.json' % (pid, h))
    with open(path, 'w') as f:
        json.dump(payload, f, indent=1)
    return path


def main():
    args = sys.argv[1:]
    if not args:
        print('usage: check <property> [--tier quick|thorough] [--replay FILE]')
        return 2
    pid = args[0].upper()
    tier = os.environ.get('VERIF_TIER') or 'quick'
    replay = None
    i = 1
    while i < len(args):
        if args[i] == '--tier':
            tier = args[i + 1]
            i += 2
        elif args[i] == '--replay':
            replay = args[i + 1]
            i += 2
        else:
            i += 1
    if tier not in ('quick', 'thorough'):
        tier = 'quick'
    try:
        seed = int(os.environ.get('VERIF_SEED', '1'))
    except ValueError:
        seed = 1
    if pid not in PROPS:
        print('unknown property %s' % pid)
        return 2
    spec = dict(PROPS[pid])
    spec['id'] = pid
    t0 = time.time()
    run_dir = os.path.join(BUILD, 'run', pid)
    broken = []          # proof obligations / ties that no longer check
    notes = []

    with Lock('build.lock'):
        ok, out = regen_models(spec)
        if not ok:
            broken.append({'kind': 'translator', 'detail': out.strip()[-600:]})
        # models first (definitions only: they must build even when a proof breaks)
        rc, out, dt_models = coq_make(spec['model_targets'], spec.get('coq_timeout', 900))
        if rc != 0:
            err = parse_coq_error(out)
            broken.append({'kind': 'model_build', 'detail': err})
        # proofs
        rc_p, out_p, dt_proofs = coq_make(spec['proof_targets'], spec.get('coq_timeout', 900))
        if rc_p != 0:
            err = parse_coq_error(out_p)
            err['lemma'] = enclosing_lemma(err['file'], err['line'])
            broken.append({'kind': 'proof', 'detail': err})
        ob = props_obligations(spec) if rc_p == 0 else {'theorems': [], 'rc': 1, 'out': '', 'problems': [], 'axioms': {}, 'wall_s': 0}
        if rc_p == 0 and ob['rc'] != 0:
            err = parse_coq_error(ob['out'])
            err['lemma'] = enclosing_lemma(err['file'], err['line'])
            broken.append({'kind': 'proof', 'detail': err})
        for pr in ob['problems']:
            broken.append({'kind': 'audit', 'detail': pr})
        bad = audit_sources()
        for b in bad:
            broken.append({'kind': 'audit', 'detail': b})
        rc_h, out_h, dt_h = build_harness(pid)
    if rc_h != 0:
        print('ERROR: harness does not build against %s:\n%s' % (REPO, out_h[-3000:]))
        return 2
    model_usable = not any(b['kind'] == 'model_build' for b in broken)

    # src theorems count even if the Props build failed
    src_nc = re.sub(r'\(\*.*?\*\)', '', open(os.path.join(COQ, 'Props/%s.v' % pid)).read(), flags=re.S)
    all_theorems = re.findall(r'^\s*Theorem\s+([A-Za-z0-9_\']+)', src_nc, flags=re.M)
    obligations = len(all_theorems) + 1            # + the source / assumption audit
    discharged = 0
    if rc_p == 0 and ob['rc'] == 0:
        discharged = len([t for t in all_theorems if t in ob['axioms']])
        if not any(b['kind'] == 'audit' for b in broken):
            discharged += 1

    # ---- correspondence
    extra = []
    if replay:
        payload = json.load(open(replay))
        lines = [payload.get('case')] + list(payload.get('more_cases', []))
        os.makedirs(run_dir + '-replay', exist_ok=True)
        lf = os.path.join(run_dir + '-replay', 'lines.txt')
        with open(lf, 'w') as f:
            f.write('\n'.join(l for l in lines if l) + '\n')
        extra = ['--lines', lf]
    corr = {'meta': {'evaluations': 0, 'distinct_nontrivial': 0, 'samples': [], 'distribution': {}}, 'failures': [], 'errors': []}
    if model_usable:
        corr = correspondence(spec, tier, seed, run_dir, extra)
        if 'error' in corr:
            print('ERROR: ' + corr['error'])
            return 2
        for e in corr['errors']:
            broken.append({'kind': 'correspondence_eval', 'detail': e[-600:]})
    failures = corr['failures']
    known = load_known(pid)
    # corpus (minimised earlier failures) and the witnesses of recorded findings always run as well
    corpus_lines = []
    cdir = os.path.join(ROOT, 'corpus', pid)
    if os.path.isdir(cdir):
        for fn in sorted(os.listdir(cdir)):
            corpus_lines += [l.strip() for l in open(os.path.join(cdir, fn)) if l.strip() and not l.startswith('#')]
    corpus_lines += [k['witness'] for k in known if k.get('witness')]
    if corpus_lines and model_usable and not replay:
        os.makedirs(run_dir + '-corpus', exist_ok=True)
        lf = os.path.join(run_dir + '-corpus', 'lines.txt')
        with open(lf, 'w') as f:
            f.write('\n'.join(corpus_lines) + '\n')
        corr2 = correspondence(spec, tier, seed, os.path.join(run_dir + '-corpus', 'out'), ['--lines', lf])
        if 'error' in corr2:
            print('ERROR: ' + corr2['error'])
            return 2
        failures = failures + corr2['failures']
        corr['meta']['corpus_cases'] = corr2['meta'].get('evaluations', 0)
        for e in corr2['errors']:
            broken.append({'kind': 'correspondence_eval', 'detail': e[-600:]})
    known_by_id = {k['class_id']: k for k in known if k.get('status') == 'known'}
    known_hits = {}
    new_violations = []
    disagreements = []
    for f in failures:
        if not f['model_agrees']:
            disagreements.append(f)
        if not f['spec_ok']:
            if f['model_agrees'] and f['known'] in known_by_id:
                known_hits.setdefault(f['known'], []).append(f)
            else:
                new_violations.append(f)
    for d in disagreements[:1]:
        broken.append({'kind': 'correspondence', 'detail': 'model and implementation disagree on: ' + d['replay']})

    verdict = 'pass'
    replay_path = None
    viol_line = None
    search_info = {}
    if new_violations:
        verdict = 'violation'
        v = new_violations[0]
        replay_path = write_replay(pid, {'property': pid, 'case': v['replay'], 'seed': seed, 'tier': tier,
                                         'model_agrees': v['model_agrees'], 'spec_ok': v['spec_ok'],
                                         'broken': broken[:5], 'more_cases': [x['replay'] for x in new_violations[1:10]]})
        viol_line = 'VIOLATION property=%s replay=%s' % (pid, replay_path)
    elif broken:
        # something no longer checks but no generated case violates the property: search harder
        fails, tried, err = oracle_search(spec, seed, run_dir, spec.get('search_budget', 2_000_000))
        search_info = {'tried': tried, 'found': len(fails), 'error': err}
        fails = [f for f in fails if not is_known_replay(f, known)]
        if fails:
            verdict = 'violation'
            replay_path = write_replay(pid, {'property': pid, 'case': fails[0], 'seed': seed, 'tier': tier,
                                             'found_by': 'oracle search on the implementation',
                                             'broken': broken[:5], 'more_cases': fails[1:10]})
            viol_line = 'VIOLATION property=%s replay=%s' % (pid, replay_path)
        else:
            verdict = 'violation_no_input'
            replay_path = write_replay(pid, {'property': pid, 'case': None, 'seed': seed, 'tier': tier,
                                             'no_longer_checks': broken[:8], 'search': search_info})
            viol_line = 'VIOLATION property=%s replay=%s no-failing-input-found' % (pid, replay_path)

    for kid, hits in sorted(known_hits.items()):
        k = known_by_id[kid]
        eg = k.get('witness') or hits[0]['replay']
        print('KNOWN-FINDING: property=%s %s: %s (witness: %s; %d cases in this class this run)' % (pid, k['id'], k['what'][:300], eg[:200], len(hits)))
    # a known finding whose witness no longer fails is simply not printed

    meta = corr['meta']
    wall = time.time() - t0
    ev = {
        'property_id': pid, 'tier': tier, 'seed': seed, 'level': (spec.get('level') if spec.get('level') in ('exploration', 'fault_enumeration', 'model_checking', 'proof', 'translation_validation', 'other') else 'proof'),
        'coverage': {
            'obligations': obligations, 'discharged': discharged,
            'checker_cmd': 'cd coq && coq_makefile -f _CoqProject -o Makefile && make -j16 ' + ' '.join(spec['proof_targets'] + ['Props/%s.vo' % pid]),
            'trusted_base': spec['trusted_base'],
            'theorems': all_theorems,
            'axioms_reported': ob.get('axioms', {}),
            'evaluations': meta.get('evaluations', 0),
            'distinct_nontrivial': meta.get('distinct_nontrivial', 0),
            'rule': spec['rule'],
            'samples': meta.get('samples', [])[:12] or ['(no cases: model not buildable)'],
            'distribution': meta.get('distribution', {}),
            'correspondence_disagreements': len(disagreements),
            'spec_failures': len([f for f in failures if not f['spec_ok']]),
            'known_findings_reconfirmed': {str(k): len(v) for k, v in known_hits.items()},
            'no_longer_checks': broken,
            'violation_search': search_info,
            'coq_wall_s': round(dt_models + dt_proofs + ob.get('wall_s', 0), 1),
            'harness_build_wall_s': round(dt_h, 1),
            'translated_from_source': spec.get('gen_modules', []),
        },
        'assumptions': spec['assumptions'],
        'wall_s': round(wall, 1),
        'violations': 0 if verdict == 'pass' else max(1, len(new_violations)),
    }
    for k, v in meta.items():
        if k not in ('evaluations', 'distinct_nontrivial', 'samples', 'distribution', 'property', 'shards'):
            ev['coverage'][k] = v
    os.makedirs(os.path.join(ROOT, 'evidence'), exist_ok=True)
    tmp = os.path.join(ROOT, 'evidence', '%s.json.tmp' % pid)
    with open(tmp, 'w') as f:
        json.dump(ev, f, indent=1)
    os.replace(tmp, os.path.join(ROOT, 'evidence', '%s.json' % pid))

    print('%s tier=%s seed=%d: obligations %d/%d, cases %d (%d distinct non-trivial), disagreements %d, verdict %s, %.1fs' % (
        pid, tier, seed, discharged, obligations, meta.get('evaluations', 0), meta.get('distinct_nontrivial', 0),
        len(disagreements), verdict, wall))
    if viol_line:
        for b in broken[:6]:
            print('  no longer checks: %s' % json.dumps(b)[:400])
        print(viol_line)
        return 1
    return 0


def is_known_replay(line, known):
    for k in known:
        if k.get('status') == 'known' and k.get('replay_regex') and re.search(k['replay_regex'], line):
            return True
    return False


if __name__ == '__main__':
    sys.exit(main())
